(* GenTraphXFacts.v — the link enumeration and the degree conveniences of the public API translated from
   /repo/traph/traph.py on every run (GenTraphX.v: Traph.links_iter, get_page_indegree / outdegree / degree,
   get_webentity_outdegree / indegree / degree) answer exactly what the model answers, for EVERY history: on any trie
   storage holding the trie file of the state reached and any link storage holding its link file.  A refusal
   (TraphException) is None on the code's side, RRefused on the model's; the translated code never fails otherwise,
   never runs out of fuel, and leaves every byte of the trie storage as it was. *)
From Coq Require Import List NArith Bool Lia Arith.
Import ListNotations.
From Traph Require Import Bytes Consts Layout Helpers Rules Tst TstDefs Traph Spec Ops RefDefs Traphw TraceDefs Codec
  CodecFacts TstFacts Store StoreFacts StoreFacts2 RefFull LinkFacts GenStorage GenNode GenNodeFacts GenLinks
  GenLinksFacts GenTrie GenTrieFacts GenTrieW GenTrieD GenTrieDDefs GenTraphL GenTraphLFacts GenTraphQ GenTraphQFacts
  GenTraphX.
From Traph Require Import TopkFacts QueryLinks.
From Traph Require GenTrieDDfs.
Open Scope N_scope.

Arguments N.shiftr : simpl never.
Arguments N.shiftl : simpl never.
Arguments N.modulo : simpl never.
Arguments N.div : simpl never.
Arguments N.land : simpl never.
Arguments N.lor : simpl never.
Arguments N.mul : simpl never.
Arguments N.add : simpl never.
Arguments N.sub : simpl never.
Arguments N.ltb : simpl never.
Arguments N.leb : simpl never.
Arguments N.eqb : simpl never.

(* ====================================================================================== *)
(* 1. Traph.links_iter, re-stated in named pieces                                         *)
(* ====================================================================================== *)
Definition ISt : Type := option (py_pm * list (bytes * bytes)).

(* body of `for target in deduped_link_nodes_iter(list)` *)
Definition li_body (v_lru : bytes) (st : ISt) (v__it : option N) : ISt :=
  match st with
  | None => None
  | Some (sg, v__out) => (let v_target := v__it in
   (match v_target with
   | None => None
   | Some v__t => (match py_trie_windup_lru sg v__t with
   | None => None
   | Some (sg, v__l) => (let v__out := v__out ++ [(v_lru, v__l)] in
   (Some (sg, v__out))) end) end)) end.

(* body of `for page_node, lru in pages_iter()` *)
Definition li_item (sgl : py_pm) (v_out : bool) (st : ISt) (v__it : py_node * bytes) : ISt :=
  match st with
  | None => None
  | Some (sg, v__out) => (let '(v_page_node, v_lru) := v__it in
   (if (N.eqb (py_node_links v_page_node v_out) 0%N)
   then (Some (sg, v__out))
   else (match py_ls_deduped_link_nodes_iter sgl (py_node_links v_page_node v_out) with
   | None => None
   | Some v__stubs => (match fold_left (li_body v_lru) v__stubs (Some (sg, v__out)) with
   | None => None
   | Some (sg, v__out) => (Some (sg, v__out)) end) end))) end.

Lemma links_iter_eq : forall sg sgl out,
  py_traph_links_iter sg sgl out =
  match py_trie_pages_iter sg with
  | None => None
  | Some (v__items, sg) =>
      match fold_left (li_item sgl out) v__items (Some (sg, [])) with
      | None => None
      | Some (sg, v__out) => Some (v__out, sg)
      end
  end.
Proof. reflexivity. Qed.

(* the register `page_node.links(out)` of a node object read from the file *)
Lemma links_reg : forall d l c r n out, GenTrieFacts.node_at (Nd d l c r) n ->
  py_node_links n out = head_dir out d.
Proof.
  intros d l c r n out (_ & _ & Hd & _). unfold py_node_links. cbv zeta. rewrite Hd.
  destruct out; cbn [negb head_dir].
  - rewrite GenTraphLFacts.get_out. reflexivity.
  - rewrite GenTraphLFacts.get_in. reflexivity.
Qed.

(* what the model does with one node of the traversal *)
Definition li_keep (out : bool) (s : traph) (x : bytes * nd) : list (bytes * bytes) :=
  let d := snd x in
  if negb (page d) || (head_dir out d =? 0) then []
  else map (fun a => (fst x, lru_at a s)) (deduped (targets_of (stubs s) (head_dir out d))).

Lemma model_links_iter_eq : forall out s, links_iter out s = flat_map (li_keep out s) (all_nodes (tr s)).
Proof. reflexivity. Qed.

(* the same, over the pages only *)
Definition li_page (out : bool) (s : traph) (x : bytes * nd) : list (bytes * bytes) :=
  if head_dir out (snd x) =? 0 then []
  else map (fun a => (fst x, lru_at a s)) (deduped (targets_of (stubs s) (head_dir out (snd x)))).

Lemma flat_map_pages : forall out s l,
  flat_map (li_keep out s) l = flat_map (li_page out s) (filter (fun x => page (snd x)) l).
Proof.
  intros out s. induction l as [|x l IH]; [reflexivity|].
  cbn [flat_map filter]. rewrite IH. unfold li_keep at 1. cbv zeta.
  destruct (page (snd x)); cbn [negb orb flat_map]; reflexivity.
Qed.

(* the item-level statement of pages_iter *)
Lemma pages_iter_items : forall s, Inv18 s -> forall sg, root_first s -> trep (files_of s) sg ->
  exists items sg', py_trie_pages_iter sg = Some (items, sg') /\ trep (files_of s) sg' /\
    pm_array sg' = pm_array sg /\
    Forall2 (item_rep s) items (filter (fun x => page (snd x)) (all_nodes (tr s))).
Proof.
  intros s Hinv sg Hroot Hrep.
  destruct (GenTrieDDfs.py_trie_dfs_iter_root_spec s Hinv sg false Hroot Hrep) as (items & sg' & E & Hrep' & Harr' & HF).
  unfold py_trie_pages_iter. rewrite E.
  eexists. exists sg'. split; [reflexivity|]. split; [exact Hrep'|]. split; [exact Harr'|].
  unfold all_nodes.
  apply GenTrieDDfs.Forall2_filter; [exact HF|].
  intros [n lru] [lru' d] (_ & l & c & r & _ & Hn). cbn [fst snd] in *.
  apply (GenTrieDDfs.node_at_is_page _ _ _ _ _ Hn).
Qed.

Lemma fold_li_item_none : forall sgl out l, fold_left (li_item sgl out) l None = None.
Proof. intros sgl out. induction l as [|x l IH]; [reflexivity|exact IH]. Qed.

Section OnState.
  Variable s : traph.
  Hypothesis Hinv : Inv18 s.
  Hypothesis Hroot : root_first s.
  Variable sgl : py_pm.
  Variable out : bool.
  Hypothesis Hknown : forall h x, In x (weighted (targets_of (stubs s) h)) -> known_target s x.
  Hypothesis Hiter : forall p d, find p (tr s) = Some d -> head_dir out d <> 0 ->
    py_ls_deduped_link_nodes_iter sgl (head_dir out d)
      = Some (map Some (deduped (targets_of (stubs s) (head_dir out d)))).

  (* a block address that is the address of the node at some path, whose LRU the model's lru_at spells *)
  Definition known_addr (a : N) : Prop :=
    exists p d, find p (tr s) = Some d /\ addr d = a /\ lru_at a s = concat p.

  Lemma deduped_known : forall h a, In a (deduped (targets_of (stubs s) h)) -> known_addr a.
  Proof.
    intros h a Ha. apply (proj1 (deduped_in _ _)) in Ha.
    apply (proj2 (weighted_in _ _)) in Ha. destruct Ha as [w Hw].
    destruct (Hknown h (a, w) Hw) as (p & d & Hf & Hd & Hl). cbn [fst] in Hd, Hl.
    exists p, d. split; [exact Hf|]. split; [exact Hd|exact Hl].
  Qed.

  Lemma li_fold_spec : forall lru items sg acc,
    trep (files_of s) sg -> Forall known_addr items ->
    exists sg',
      fold_left (li_body lru) (map Some items) (Some (sg, acc))
        = Some (sg', acc ++ map (fun a => (lru, lru_at a s)) items) /\
      trep (files_of s) sg' /\ pm_array sg' = pm_array sg.
  Proof.
    intros lru. induction items as [|a items IH]; intros sg acc Hrep Hk.
    - cbn [map fold_left]. rewrite app_nil_r. exists sg. split; [reflexivity|]. split; [exact Hrep|reflexivity].
    - inversion Hk as [|? ? (p & d & Hf & Ha & Hl) Hrest]; subst.
      destruct (py_trie_windup_spec s Hinv sg p d Hrep Hf) as (sg1 & Ew & Hrep1).
      pose proof (windup_arr _ _ _ _ Ew) as Harr1. rewrite <- Hl in Ew.
      cbn [map fold_left]. cbn [li_body]. rewrite Ew. cbv zeta.
      destruct (IH sg1 (acc ++ [(lru, lru_at (addr d) s)]) Hrep1 Hrest) as (sg' & E & Hrep' & Harr').
      exists sg'. split; [|split; [exact Hrep'|congruence]].
      rewrite E, <- app_assoc. reflexivity.
  Qed.

  Lemma li_item_spec : forall it m sg acc,
    item_rep s it m -> trep (files_of s) sg ->
    exists sg',
      li_item sgl out (Some (sg, acc)) it = Some (sg', acc ++ li_page out s m) /\
      trep (files_of s) sg' /\ pm_array sg' = pm_array sg.
  Proof.
    intros [n lru] [lru' d] sg acc (El & l & c & r & Hsub & Hn) Hrep. cbn [fst snd] in *. subst lru'.
    cbn [li_item]. rewrite (links_reg d l c r n out Hn). unfold li_page. cbn [fst snd].
    destruct (N.eqb_spec (head_dir out d) 0) as [Ez|Enz].
    - rewrite app_nil_r. exists sg. split; [reflexivity|]. split; [exact Hrep|reflexivity].
    - destruct (subt_node_find d l c r (tr s) (proj1 (I_wf _ Hinv)) Hsub) as (p & Hf).
      rewrite (Hiter p d Hf Enz).
      assert (Hk : Forall known_addr (deduped (targets_of (stubs s) (head_dir out d)))).
      { apply Forall_forall. intros a Ha. exact (deduped_known _ _ Ha). }
      destruct (li_fold_spec lru _ sg acc Hrep Hk) as (sg' & E & Hrep' & Harr').
      rewrite E. exists sg'. split; [reflexivity|]. split; assumption.
  Qed.

  Lemma li_items_spec : forall items ms sg acc,
    Forall2 (item_rep s) items ms -> trep (files_of s) sg ->
    exists sg',
      fold_left (li_item sgl out) items (Some (sg, acc)) = Some (sg', acc ++ flat_map (li_page out s) ms) /\
      trep (files_of s) sg' /\ pm_array sg' = pm_array sg.
  Proof.
    intros items ms sg acc H. revert sg acc.
    induction H as [|it m items ms Hit _ IH]; intros sg acc Hrep.
    - cbn [fold_left flat_map]. rewrite app_nil_r. exists sg. split; [reflexivity|]. split; [exact Hrep|reflexivity].
    - destruct (li_item_spec it m sg acc Hit Hrep) as (sg1 & E1 & Hrep1 & Harr1).
      cbn [fold_left]. rewrite E1.
      destruct (IH sg1 (acc ++ li_page out s m) Hrep1) as (sg' & E & Hrep' & Harr').
      exists sg'. rewrite E. cbn [flat_map]. rewrite <- app_assoc.
      split; [reflexivity|]. split; [exact Hrep'|congruence].
  Qed.

  Theorem links_iter_on_state : forall sg, trep (files_of s) sg ->
    exists sg', py_traph_links_iter sg sgl out = Some (links_iter out s, sg') /\
      trep (files_of s) sg' /\ pm_array sg' = pm_array sg.
  Proof.
    intros sg Hrep. rewrite links_iter_eq, model_links_iter_eq, flat_map_pages.
    destruct (pages_iter_items s Hinv sg Hroot Hrep) as (items & sg1 & E1 & Hrep1 & Harr1 & HF).
    rewrite E1.
    destruct (li_items_spec items _ sg1 [] HF Hrep1) as (sg' & E & Hrep' & Harr').
    rewrite E. cbn [app]. exists sg'. split; [reflexivity|]. split; [exact Hrep'|congruence].
  Qed.
End OnState.

(* ---- (1) the link enumeration, for every history ---- *)
Theorem py_traph_links_iter_spec : forall d rs h, wf_rules rs -> Forall wf_op h ->
  let s := run d rs h in
  forall sg sgl,
    trep (files_of s) sg -> lrep (stubs s) sgl -> fits (nb s * bsz) -> fits (saddr (length (stubs s))) ->
    forall out, exists sg', py_traph_links_iter sg sgl out = Some (links_iter out s, sg') /\
      trep (files_of s) sg' /\ pm_array sg' = pm_array sg.
Proof.
  intros d rs h Hr Hh s sg sgl Hrep Hlrep Hft Hfl out.
  destruct (run_facts d rs h Hr Hh sgl Hlrep Hft Hfl) as (Hinv & Hroot & Hknown & Hheads).
  fold s in Hinv, Hroot, Hknown, Hheads.
  apply (links_iter_on_state s Hinv Hroot sgl out Hknown); [|exact Hrep].
  intros p nd Hf Hnz. destruct out; cbn [head_dir] in *.
  - exact (proj2 (proj1 (Hheads p nd Hf) Hnz)).
  - exact (proj2 (proj2 (Hheads p nd Hf) Hnz)).
Qed.

Print Assumptions py_traph_links_iter_spec.

(* ====================================================================================== *)
(* 2. get_page_indegree / get_page_outdegree / get_page_degree                            *)
(* ====================================================================================== *)
(* `sum(weight for _, _, weight in links)` as the generated code folds it *)
Definition sum_weights (l : list (bytes * bytes * N)) : N :=
  fold_left (fun (v_total : N) (v__it : (bytes * bytes * N)) => let '(_, _, v_weight) := v__it in N.add v_total v_weight) l 0.

(* the reply of the three requests, from the links the model lists *)
Definition degree_of (wtd : bool) (l : list (bytes * bytes * N)) : N :=
  if wtd then sum_weights l else N.of_nat (length l).

Lemma page_degree_eq : forall sg sgl lru (wtd : bool) inb int outb,
  match py_traph_get_page_links sg sgl lru inb int outb with
  | None => None
  | Some (sg, v__links) =>
      (if wtd then Some (sg, sum_weights v__links) else Some (sg, N.of_nat (length v__links)))
  end =
  match py_traph_get_page_links sg sgl lru inb int outb with
  | None => None
  | Some (sg, v__links) => Some (sg, degree_of wtd v__links)
  end.
Proof.
  intros. destruct (py_traph_get_page_links sg sgl lru inb int outb) as [[sg' l]|]; [|reflexivity].
  destruct wtd; reflexivity.
Qed.

Lemma indegree_eq : forall sg sgl lru (wtd : bool),
  py_traph_get_page_indegree sg sgl lru wtd =
  match py_traph_get_page_links sg sgl lru true false false with
  | None => None | Some (sg, v__links) => Some (sg, degree_of wtd v__links) end.
Proof. intros. rewrite <- page_degree_eq. reflexivity. Qed.
Lemma outdegree_eq : forall sg sgl lru (wtd : bool),
  py_traph_get_page_outdegree sg sgl lru wtd =
  match py_traph_get_page_links sg sgl lru false false true with
  | None => None | Some (sg, v__links) => Some (sg, degree_of wtd v__links) end.
Proof. intros. rewrite <- page_degree_eq. reflexivity. Qed.
Lemma degree_eq : forall sg sgl lru (wtd : bool),
  py_traph_get_page_degree sg sgl lru wtd =
  match py_traph_get_page_links sg sgl lru true true true with
  | None => None | Some (sg, v__links) => Some (sg, degree_of wtd v__links) end.
Proof. intros. rewrite <- page_degree_eq. reflexivity. Qed.

Theorem py_traph_get_page_degrees_spec : forall d rs h, wf_rules rs -> Forall wf_op h ->
  let s := run d rs h in
  forall sg sgl,
    trep (files_of s) sg -> lrep (stubs s) sgl -> fits (nb s * bsz) -> fits (saddr (length (stubs s))) ->
    forall lru (wtd : bool), wf_lru lru ->
    (exists sg', py_traph_get_page_indegree sg sgl lru wtd
                   = Some (sg', if wtd
                                then fold_left (fun (v_total : N) (v__it : (bytes * bytes * N)) =>
                                                  let '(_, _, v_weight) := v__it in N.add v_total v_weight)
                                               (page_links lru true false false s) 0
                                else N.of_nat (length (page_links lru true false false s))) /\
       trep (files_of s) sg' /\ pm_array sg' = pm_array sg) /\
    (exists sg', py_traph_get_page_outdegree sg sgl lru wtd
                   = Some (sg', if wtd
                                then fold_left (fun (v_total : N) (v__it : (bytes * bytes * N)) =>
                                                  let '(_, _, v_weight) := v__it in N.add v_total v_weight)
                                               (page_links lru false false true s) 0
                                else N.of_nat (length (page_links lru false false true s))) /\
       trep (files_of s) sg' /\ pm_array sg' = pm_array sg) /\
    (exists sg', py_traph_get_page_degree sg sgl lru wtd
                   = Some (sg', if wtd
                                then fold_left (fun (v_total : N) (v__it : (bytes * bytes * N)) =>
                                                  let '(_, _, v_weight) := v__it in N.add v_total v_weight)
                                               (page_links lru true true true s) 0
                                else N.of_nat (length (page_links lru true true true s))) /\
       trep (files_of s) sg' /\ pm_array sg' = pm_array sg).
Proof.
  intros d rs h Hr Hh s sg sgl Hrep Hlrep Hft Hfl lru wtd Hwf.
  split; [|split].
  - destruct (py_traph_get_page_links_spec d rs h Hr Hh sg sgl lru true false false Hrep Hlrep Hft Hfl Hwf)
      as (sg' & E & Hrep' & Harr').
    exists sg'. rewrite indegree_eq, E. split; [reflexivity|]. split; assumption.
  - destruct (py_traph_get_page_links_spec d rs h Hr Hh sg sgl lru false false true Hrep Hlrep Hft Hfl Hwf)
      as (sg' & E & Hrep' & Harr').
    exists sg'. rewrite outdegree_eq, E. split; [reflexivity|]. split; assumption.
  - destruct (py_traph_get_page_links_spec d rs h Hr Hh sg sgl lru true true true Hrep Hlrep Hft Hfl Hwf)
      as (sg' & E & Hrep' & Harr').
    exists sg'. rewrite degree_eq, E. split; [reflexivity|]. split; assumption.
Qed.

Corollary py_traph_get_page_indegree_spec : forall d rs h, wf_rules rs -> Forall wf_op h ->
  let s := run d rs h in
  forall sg sgl,
    trep (files_of s) sg -> lrep (stubs s) sgl -> fits (nb s * bsz) -> fits (saddr (length (stubs s))) ->
    forall lru (wtd : bool), wf_lru lru ->
    exists sg', py_traph_get_page_indegree sg sgl lru wtd
                  = Some (sg', if wtd
                               then fold_left (fun (v_total : N) (v__it : (bytes * bytes * N)) =>
                                                 let '(_, _, v_weight) := v__it in N.add v_total v_weight)
                                              (page_links lru true false false s) 0
                               else N.of_nat (length (page_links lru true false false s))) /\
      trep (files_of s) sg' /\ pm_array sg' = pm_array sg.
Proof.
  intros d rs h Hr Hh s sg sgl Hrep Hlrep Hft Hfl lru wtd Hwf.
  exact (proj1 (py_traph_get_page_degrees_spec d rs h Hr Hh sg sgl Hrep Hlrep Hft Hfl lru wtd Hwf)).
Qed.

Corollary py_traph_get_page_outdegree_spec : forall d rs h, wf_rules rs -> Forall wf_op h ->
  let s := run d rs h in
  forall sg sgl,
    trep (files_of s) sg -> lrep (stubs s) sgl -> fits (nb s * bsz) -> fits (saddr (length (stubs s))) ->
    forall lru (wtd : bool), wf_lru lru ->
    exists sg', py_traph_get_page_outdegree sg sgl lru wtd
                  = Some (sg', if wtd
                               then fold_left (fun (v_total : N) (v__it : (bytes * bytes * N)) =>
                                                 let '(_, _, v_weight) := v__it in N.add v_total v_weight)
                                              (page_links lru false false true s) 0
                               else N.of_nat (length (page_links lru false false true s))) /\
      trep (files_of s) sg' /\ pm_array sg' = pm_array sg.
Proof.
  intros d rs h Hr Hh s sg sgl Hrep Hlrep Hft Hfl lru wtd Hwf.
  exact (proj1 (proj2 (py_traph_get_page_degrees_spec d rs h Hr Hh sg sgl Hrep Hlrep Hft Hfl lru wtd Hwf))).
Qed.

Corollary py_traph_get_page_degree_spec : forall d rs h, wf_rules rs -> Forall wf_op h ->
  let s := run d rs h in
  forall sg sgl,
    trep (files_of s) sg -> lrep (stubs s) sgl -> fits (nb s * bsz) -> fits (saddr (length (stubs s))) ->
    forall lru (wtd : bool), wf_lru lru ->
    exists sg', py_traph_get_page_degree sg sgl lru wtd
                  = Some (sg', if wtd
                               then fold_left (fun (v_total : N) (v__it : (bytes * bytes * N)) =>
                                                 let '(_, _, v_weight) := v__it in N.add v_total v_weight)
                                              (page_links lru true true true s) 0
                               else N.of_nat (length (page_links lru true true true s))) /\
      trep (files_of s) sg' /\ pm_array sg' = pm_array sg.
Proof.
  intros d rs h Hr Hh s sg sgl Hrep Hlrep Hft Hfl lru wtd Hwf.
  exact (proj2 (proj2 (py_traph_get_page_degrees_spec d rs h Hr Hh sg sgl Hrep Hlrep Hft Hfl lru wtd Hwf))).
Qed.

Print Assumptions py_traph_get_page_degrees_spec.

(* the fold is the sum of the weights *)
Lemma sum_weights_spec : forall l, sum_weights l = fold_right N.add 0 (map snd l).
Proof.
  intro l. unfold sum_weights.
  assert (H : forall acc, fold_left (fun (v_total : N) (v__it : (bytes * bytes * N)) =>
                                       let '(_, _, v_weight) := v__it in N.add v_total v_weight) l acc
                          = acc + fold_right N.add 0 (map snd l)).
  { induction l as [|[[a b] w] l IH]; intro acc; cbn [fold_left map fold_right snd].
    - lia.
    - rewrite IH. lia. }
  rewrite H. lia.
Qed.

(* ====================================================================================== *)
(* 3. get_webentity_outdegree / get_webentity_indegree / get_webentity_degree             *)
(* ====================================================================================== *)
Theorem py_traph_get_webentity_outdegree_spec : forall d rs h, wf_rules rs -> Forall wf_op h ->
  let s := run d rs h in
  forall sg sgl,
    trep (files_of s) sg -> lrep (stubs s) sgl -> fits (nb s * bsz) -> fits (saddr (length (stubs s))) ->
    forall w ps, Forall wf_lru ps ->
    match webentity_neighbours true ps s with
    | ROk l => exists sg', py_traph_get_webentity_outdegree sg sgl w ps = Some (sg', N.of_nat (length l)) /\
                 trep (files_of s) sg' /\ pm_array sg' = pm_array sg
    | _ => py_traph_get_webentity_outdegree sg sgl w ps = None
    end.
Proof.
  intros d rs h Hr Hh s sg sgl Hrep Hlrep Hft Hfl w ps Hwf.
  pose proof (py_traph_get_webentity_outlinks_spec d rs h Hr Hh sg sgl w ps Hrep Hlrep Hft Hfl Hwf) as H.
  fold s in H. unfold py_traph_get_webentity_outdegree.
  destruct (webentity_neighbours true ps s) as [| |l].
  - rewrite H. reflexivity.
  - rewrite H. reflexivity.
  - destruct H as (sg' & E & Hrep' & Harr'). rewrite E, map_length. exists sg'.
    split; [reflexivity|]. split; assumption.
Qed.

Theorem py_traph_get_webentity_indegree_spec : forall d rs h, wf_rules rs -> Forall wf_op h ->
  let s := run d rs h in
  forall sg sgl,
    trep (files_of s) sg -> lrep (stubs s) sgl -> fits (nb s * bsz) -> fits (saddr (length (stubs s))) ->
    forall w ps, Forall wf_lru ps ->
    match webentity_neighbours false ps s with
    | ROk l => exists sg', py_traph_get_webentity_indegree sg sgl w ps = Some (sg', N.of_nat (length l)) /\
                 trep (files_of s) sg' /\ pm_array sg' = pm_array sg
    | _ => py_traph_get_webentity_indegree sg sgl w ps = None
    end.
Proof.
  intros d rs h Hr Hh s sg sgl Hrep Hlrep Hft Hfl w ps Hwf.
  pose proof (py_traph_get_webentity_inlinks_spec d rs h Hr Hh sg sgl w ps Hrep Hlrep Hft Hfl Hwf) as H.
  fold s in H. unfold py_traph_get_webentity_indegree.
  destruct (webentity_neighbours false ps s) as [| |l].
  - rewrite H. reflexivity.
  - rewrite H. reflexivity.
  - destruct H as (sg' & E & Hrep' & Harr'). rewrite E, map_length. exists sg'.
    split; [reflexivity|]. split; assumption.
Qed.

Theorem py_traph_get_webentity_degree_spec : forall d rs h, wf_rules rs -> Forall wf_op h ->
  let s := run d rs h in
  forall sg sgl,
    trep (files_of s) sg -> lrep (stubs s) sgl -> fits (nb s * bsz) -> fits (saddr (length (stubs s))) ->
    forall w ps, Forall wf_lru ps ->
    match webentity_neighbours false ps s, webentity_neighbours true ps s with
    | ROk li, ROk lo =>
        exists sg', py_traph_get_webentity_degree sg sgl w ps
                      = Some (sg', N.of_nat (length li) + N.of_nat (length lo)) /\
          trep (files_of s) sg' /\ pm_array sg' = pm_array sg
    | _, _ => py_traph_get_webentity_degree sg sgl w ps = None
    end.
Proof.
  intros d rs h Hr Hh s sg sgl Hrep Hlrep Hft Hfl w ps Hwf.
  pose proof (py_traph_get_webentity_indegree_spec d rs h Hr Hh sg sgl Hrep Hlrep Hft Hfl w ps Hwf) as Hi.
  fold s in Hi. unfold py_traph_get_webentity_degree.
  destruct (webentity_neighbours false ps s) as [| |li].
  - rewrite Hi. destruct (webentity_neighbours true ps s); reflexivity.
  - rewrite Hi. destruct (webentity_neighbours true ps s); reflexivity.
  - destruct Hi as (sg1 & E1 & Hrep1 & Harr1). rewrite E1.
    pose proof (py_traph_get_webentity_outdegree_spec d rs h Hr Hh sg1 sgl Hrep1 Hlrep Hft Hfl w ps Hwf) as Ho.
    fold s in Ho.
    destruct (webentity_neighbours true ps s) as [| |lo].
    + rewrite Ho. reflexivity.
    + rewrite Ho. reflexivity.
    + destruct Ho as (sg2 & E2 & Hrep2 & Harr2). rewrite E2. exists sg2.
      split; [reflexivity|]. split; [exact Hrep2|congruence].
Qed.

Print Assumptions py_traph_get_webentity_degree_spec.

(* ====================================================================================== *)
(* 4. non-vacuity: the translated requests run on the bytes of the two files of the state  *)
(*    reached by GenTraphLFacts.exh_l (ex_pa links to itself, ex_pb twice and ex_pl;       *)
(*    ex_pxy twice and ex_pb link to ex_pa)                                               *)
(* ====================================================================================== *)
From Traph Require IdFacts PropsEx.
Import IdFacts PropsEx.

Definition pair_eqb (x y : bytes * bytes) : bool := beq (fst x) (fst y) && beq (snd x) (snd y).
Fixpoint pairs_eqb (l1 l2 : list (bytes * bytes)) : bool :=
  match l1, l2 with
  | [], [] => true
  | x :: l1', y :: l2' => pair_eqb x y && pairs_eqb l1' l2'
  | _, _ => false
  end.

Example ex_links_iter_both :
  (forallb (fun out => match py_traph_links_iter ex_sgt ex_sgl out with
                       | Some (l, _) => pairs_eqb l (links_iter out exs_l)
                       | None => false
                       end) [true; false] = true) /\
  links_iter true exs_l
    = [(ex_pa, ex_pa); (ex_pa, ex_pb); (ex_pa, ex_pl); (ex_pxy, ex_pa); (ex_pb, ex_pa)] /\
  links_iter false exs_l
    = [(ex_pa, ex_pxy); (ex_pa, ex_pb); (ex_pa, ex_pa); (ex_pl, ex_pa); (ex_pb, ex_pa)].
Proof. vm_compute. repeat split; reflexivity. Qed.

Example ex_links_iter_values :
  option_map fst (py_traph_links_iter ex_sgt ex_sgl true)
    = Some [(ex_pa, ex_pa); (ex_pa, ex_pb); (ex_pa, ex_pl); (ex_pxy, ex_pa); (ex_pb, ex_pa)] /\
  option_map fst (py_traph_links_iter ex_sgt ex_sgl false)
    = Some [(ex_pa, ex_pxy); (ex_pa, ex_pb); (ex_pa, ex_pa); (ex_pl, ex_pa); (ex_pb, ex_pa)].
Proof. vm_compute. split; reflexivity. Qed.

Example ex_page_degrees :
  map (fun w => option_map snd (py_traph_get_page_degree ex_sgt ex_sgl ex_pa w)) [true; false] = [Some 7; Some 5] /\
  map (fun w => option_map snd (py_traph_get_page_indegree ex_sgt ex_sgl ex_pa w)) [true; false] = [Some 3; Some 2] /\
  map (fun w => option_map snd (py_traph_get_page_outdegree ex_sgt ex_sgl ex_pa w)) [true; false] = [Some 3; Some 2] /\
  (* a node that is not a page *)
  map (fun w => option_map snd (py_traph_get_page_degree ex_sgt ex_sgl ex_px w)) [true; false] = [Some 0; Some 0].
Proof. vm_compute. repeat split; reflexivity. Qed.

Example ex_webentity_degrees :
  webentity_neighbours true [ex_pa] exs_l = ROk [1; 2] /\
  webentity_neighbours false [ex_pa] exs_l = ROk [1; 2] /\
  option_map snd (py_traph_get_webentity_outdegree ex_sgt ex_sgl 1 [ex_pa]) = Some 2 /\
  option_map snd (py_traph_get_webentity_indegree ex_sgt ex_sgl 1 [ex_pa]) = Some 2 /\
  option_map snd (py_traph_get_webentity_degree ex_sgt ex_sgl 1 [ex_pa]) = Some 4 /\
  option_map snd (py_traph_get_webentity_degree ex_sgt ex_sgl 2 [ex_pb]) = Some 2 /\
  (* a prefix that is not in the trie: refused on both sides *)
  webentity_neighbours true [ex_px ++ [112; 58; 122; 124]] exs_l = RRefused /\
  py_traph_get_webentity_degree ex_sgt ex_sgl 1 [ex_px ++ [112; 58; 122; 124]] = None /\
  py_traph_get_webentity_outdegree ex_sgt ex_sgl 1 [ex_px ++ [112; 58; 122; 124]] = None.
Proof. vm_compute. repeat split; reflexivity. Qed.

(* the hypotheses of the theorems are met by that history and the two files, and the theorems then give the replies above *)
Example ex_links_iter_by_theorem : exists sg',
  py_traph_links_iter ex_sgt ex_sgl true
    = Some ([(ex_pa, ex_pa); (ex_pa, ex_pb); (ex_pa, ex_pl); (ex_pxy, ex_pa); (ex_pb, ex_pa)], sg') /\
  trep (files_of exs_l) sg' /\ pm_array sg' = pm_array ex_sgt.
Proof.
  assert (H1 : fits (nb exs_l * bsz)) by (vm_compute; reflexivity).
  assert (H2 : fits (saddr (length (stubs exs_l)))) by (vm_compute; reflexivity).
  pose proof (py_traph_links_iter_spec Domain [] exh_l ex_rules_wf exh_l_wf ex_sgt ex_sgl
                ex_trep_l ex_lrep_l H1 H2 true) as H.
  replace (links_iter true (run Domain [] exh_l))
    with [(ex_pa, ex_pa); (ex_pa, ex_pb); (ex_pa, ex_pl); (ex_pxy, ex_pa); (ex_pb, ex_pa)] in H
    by (vm_compute; reflexivity).
  exact H.
Qed.

Example ex_page_degree_by_theorem :
  (exists sg', py_traph_get_page_degree ex_sgt ex_sgl ex_pa true = Some (sg', 7) /\
     trep (files_of exs_l) sg' /\ pm_array sg' = pm_array ex_sgt) /\
  (exists sg', py_traph_get_page_degree ex_sgt ex_sgl ex_pa false = Some (sg', 5) /\
     trep (files_of exs_l) sg' /\ pm_array sg' = pm_array ex_sgt).
Proof.
  assert (Hwf : wf_lru ex_pa) by wf_lru_tac.
  assert (H1 : fits (nb exs_l * bsz)) by (vm_compute; reflexivity).
  assert (H2 : fits (saddr (length (stubs exs_l)))) by (vm_compute; reflexivity).
  split.
  - pose proof (py_traph_get_page_degree_spec Domain [] exh_l ex_rules_wf exh_l_wf ex_sgt ex_sgl
                  ex_trep_l ex_lrep_l H1 H2 ex_pa true Hwf) as H.
    cbv iota in H.
    replace (fold_left (fun (v_total : N) (v__it : bytes * bytes * N) => let '(_, _, v_weight) := v__it in v_total + v_weight)
               (page_links ex_pa true true true (run Domain [] exh_l)) 0) with 7 in H by (vm_compute; reflexivity).
    exact H.
  - pose proof (py_traph_get_page_degree_spec Domain [] exh_l ex_rules_wf exh_l_wf ex_sgt ex_sgl
                  ex_trep_l ex_lrep_l H1 H2 ex_pa false Hwf) as H.
    cbv iota in H.
    replace (N.of_nat (length (page_links ex_pa true true true (run Domain [] exh_l)))) with 5 in H
      by (vm_compute; reflexivity).
    exact H.
Qed.

Print Assumptions ex_links_iter_both.
Print Assumptions ex_links_iter_by_theorem.
Print Assumptions ex_page_degree_by_theorem.
Print Assumptions py_traph_links_iter_spec.
Print Assumptions py_traph_get_page_degrees_spec.
Print Assumptions py_traph_get_webentity_outdegree_spec.
Print Assumptions py_traph_get_webentity_indegree_spec.
Print Assumptions py_traph_get_webentity_degree_spec.
