(* PaginationLinksFacts.v — the token chain of paginate_webentity_pagelinks (C10):
   successive answers are consecutive chunks of the page walk, each holding the
   links of at most k link-bearing source pages. *)
From Coq Require Import List NArith Bool Lia Arith Sorted Permutation.
Import ListNotations.
From Traph Require Import Bytes Consts Helpers Rules Tst TstDefs Traph InorderFacts TokenFacts
  PaginationFacts.
Open Scope N_scope.

(* ------------------------------------------------------------------------- *)
(* definitions                                                                *)
(* ------------------------------------------------------------------------- *)

Definition lfilt (x : bytes * nd * N) : bool := page (snd (fst x)).
Definition lmk (w : N) (int outb : bool) (s : traph) (i : N) (x : bytes * nd * N) : litem :=
  let d := snd (fst x) in
  LI i (snd x) (negb (outh d =? 0))
     (if outh d =? 0 then [] else pagelinks_of w false int outb s (fst x)).

(* page items of prefix number i *)
Definition segl (w : N) (int outb : bool) (s : traph) (i : N) (p : bytes) : list litem :=
  match find_sub (lru_iter p) (tr s) with
  | Some sub => map (lmk w int outb s i) (filter lfilt (ino_at (lru_dirname p) sub))
  | None => []
  end.

Fixpoint segls (w : N) (int outb : bool) (i : N) (ps : list bytes) (s : traph) : list litem :=
  match ps with
  | [] => []
  | p :: ps' => segl w int outb s i p ++ segls w int outb (i + 1) ps' s
  end.

Fixpoint chainl (fuel : nat) (w : N) (ps : list bytes) (int outb : bool) (k : N)
         (tok : option bytes) (s : traph) : option (list link_result) :=
  match fuel with
  | O => None
  | S f =>
      match paginate_pagelinks w ps int outb (Some k) tok s with
      | ROk r => if lr_done r then Some [r]
                 else match lr_token r with
                      | Some tk => option_map (cons r) (chainl f w ps int outb k (Some tk) s)
                      | None => None
                      end
      | _ => None
      end
  end.

Lemma chainl_S : forall f w ps int outb k tok s,
  chainl (S f) w ps int outb k tok s =
  match paginate_pagelinks w ps int outb (Some k) tok s with
  | ROk r => if lr_done r then Some [r]
             else match lr_token r with
                  | Some tk => option_map (cons r) (chainl f w ps int outb k (Some tk) s)
                  | None => None
                  end
  | _ => None
  end.
Proof. reflexivity. Qed.

Definition is_LI (it : litem) : Prop := match it with LI _ _ _ _ => True | LErr _ => False end.
Definition li_links (it : litem) : list (bytes * bytes * N) :=
  match it with LI _ _ _ l => l | LErr _ => [] end.
(* all links of a run of items; how many of them bear links *)
Definition lflat (its : list litem) : list (bytes * bytes * N) := flat_map li_links its.
Definition lcount (its : list litem) : N :=
  N.of_nat (length (filter (fun it => nonempty (li_links it)) its)).

Lemma segl_is_LI : forall w int outb s i p, Forall is_LI (segl w int outb s i p).
Proof.
  intros w int outb s i p. unfold segl. destruct (find_sub (lru_iter p) (tr s)); [|constructor].
  apply Forall_forall. intros x Hx. apply in_map_iff in Hx. destruct Hx as [y [E _]]. subst x. exact I.
Qed.

Lemma segls_is_LI : forall w int outb ps i s, Forall is_LI (segls w int outb i ps s).
Proof.
  intros w int outb ps. induction ps as [|p ps IH]; intros i s; cbn [segls]; [constructor|].
  apply Forall_app. split; [apply segl_is_LI|apply IH].
Qed.

(* ------------------------------------------------------------------------- *)
(* the item list of a first call, and of a resumed call                       *)
(* ------------------------------------------------------------------------- *)

Lemma link_items_cons_none : forall w int outb i p ps s sub,
  find_sub (lru_iter p) (tr s) = Some sub ->
  link_items w int outb i (p :: ps) None s
  = map (lmk w int outb s i) (filter lfilt (ino_at (lru_dirname p) sub))
      ++ link_items w int outb (i + 1) ps None s.
Proof.
  intros w int outb i p ps s sub Hf. cbn [link_items]. unfold inorder_items, path_fails.
  rewrite Hf. reflexivity.
Qed.

Lemma link_items_cons_some : forall w int outb i p ps s sub path lru,
  find_sub (lru_iter p) (tr s) = Some sub ->
  follow_path (path_digits path) (lru_dirname p) sub = Some lru ->
  link_items w int outb i (p :: ps) (Some path) s
  = map (lmk w int outb s i) (filter lfilt (ino_from_at (path_digits path) lru (lru_dirname p) sub))
      ++ link_items w int outb (i + 1) ps None s.
Proof.
  intros w int outb i p ps s sub path lru Hf Hfo. cbn [link_items]. unfold inorder_items, path_fails.
  rewrite Hf. change (if path =? 0 then [] else int_to_base4 path) with (path_digits path).
  rewrite Hfo. reflexivity.
Qed.

Lemma link_items_segls : forall w int outb ps i s, all_found ps (tr s) ->
  link_items w int outb i ps None s = segls w int outb i ps s.
Proof.
  intros w int outb ps. induction ps as [|p ps IH]; intros i s Hall; [reflexivity|].
  destruct (find_sub (lru_iter p) (tr s)) as [sub|] eqn:Hf;
    [|exfalso; apply (Hall p (or_introl eq_refl)); exact Hf].
  rewrite (link_items_cons_none _ _ _ _ _ _ _ _ Hf). cbn [segls]. unfold segl. rewrite Hf.
  rewrite IH; [reflexivity|]. intros q Hq. apply Hall. right. exact Hq.
Qed.

Lemma segls_resume : forall w int outb ps j s a i path h links b,
  wf_tst (tr s) -> all_found ps (tr s) ->
  segls w int outb j ps s = a ++ LI i path h links :: b ->
  exists m : nat, i = j + N.of_nat m /\ link_items w int outb i (skipn m ps) (Some path) s = b.
Proof.
  intros w int outb ps. induction ps as [|p ps IH]; intros j s a i path h links b Hwf Hall E.
  - destruct a; discriminate.
  - cbn [segls] in E. apply app_split_mid in E. destruct E as [[b' [E1 E2]]|[a' [E1 E2]]].
    + exists O. unfold segl in E1.
      destruct (find_sub (lru_iter p) (tr s)) as [sub|] eqn:Hf; [|destruct a; discriminate].
      assert (Hwsub : wf_tst sub) by (eapply find_sub_wf; eauto).
      destruct (seg_resume _ _ _ _ _ _ _ _ Hwsub E1) as [lru0 [d [path0 [Hg [_ [_ [Hfo Hb]]]]]]].
      unfold lmk in Hg. cbn [fst snd] in Hg. injection Hg as Ei Ep _ _. subst i path0.
      split; [lia|]. cbn [skipn].
      rewrite (link_items_cons_some _ _ _ _ _ _ _ _ _ _ Hf Hfo), E2.
      f_equal; [exact Hb|].
      apply link_items_segls. intros q Hq. apply Hall. right. exact Hq.
    + destruct (IH (j + 1) s a' i path h links b Hwf) as [m [Hi Hp]];
        [intros q Hq; apply Hall; right; exact Hq|exact E2|].
      exists (S m). split; [lia|]. exact Hp.
Qed.

(* ------------------------------------------------------------------------- *)
(* one call                                                                   *)
(* ------------------------------------------------------------------------- *)

(* the items a call consumes when it may still take [m] link-bearing pages:
   everything before the (m+1)-th link-bearing item *)
Fixpoint ltake (m : nat) (its : list litem) : list litem :=
  match its with
  | [] => []
  | it :: its' =>
      match li_links it with
      | [] => it :: ltake m its'
      | _ => match m with O => [] | S m' => it :: ltake m' its' end
      end
  end.
(* true when there is no (m+1)-th link-bearing item *)
Fixpoint ldone (m : nat) (its : list litem) : bool :=
  match its with
  | [] => true
  | it :: its' =>
      match li_links it with
      | [] => ldone m its'
      | _ => match m with O => false | S m' => ldone m' its' end
      end
  end.
Fixpoint lastlk (d : option (N * N)) (its : list litem) : option (N * N) :=
  match its with
  | [] => d
  | LI i path _ _ :: its' => lastlk (Some (i, path)) its'
  | LErr _ :: its' => lastlk d its'
  end.

Lemma lastlk_app_last : forall its d i path h links,
  lastlk d (its ++ [LI i path h links]) = Some (i, path).
Proof.
  induction its as [|x its IH]; intros d i path h links; [reflexivity|].
  cbn [app lastlk]. destruct x; apply IH.
Qed.

Lemma lcount_cons_nil : forall it its, li_links it = [] -> lcount (it :: its) = lcount its.
Proof. intros it its E. unfold lcount. cbn [filter]. rewrite E. reflexivity. Qed.

Lemma lcount_cons_some : forall it its, li_links it <> [] -> lcount (it :: its) = 1 + lcount its.
Proof.
  intros it its E. unfold lcount. cbn [filter]. destruct (li_links it); [contradiction E; reflexivity|].
  cbn [nonempty length]. lia.
Qed.

Lemma lpag_scan_spec : forall k its, Forall is_LI its -> forall m n acc last,
  n + N.of_nat m = k ->
  lpag_scan (Some k) its n acc last =
    if ldone m its
    then ROk (mkLR true (n + lcount its) (acc ++ lflat its) None)
    else let its1 := ltake m its in
         match lastlk last its1 with
         | Some (li, lp) =>
             ROk (mkLR false (n + lcount its1) (acc ++ lflat its1) (Some (build_token li lp)))
         | None => RCrash
         end.
Proof.
  intros k its Hall. induction Hall as [|x its Hx Hall IH]; intros m n acc last Hk.
  - cbn [lpag_scan ldone]. unfold lcount, lflat. cbn [filter length flat_map].
    rewrite N.add_0_r, app_nil_r. reflexivity.
  - destruct x as [i path h links|cr]; [|contradiction]. cbn [lpag_scan ldone ltake li_links].
    destruct links as [|l0 ls].
    + rewrite (IH m) by exact Hk. cbn [lastlk].
      rewrite !lcount_cons_nil by reflexivity. unfold lflat. cbn [flat_map li_links app]. reflexivity.
    + destruct m as [|m].
      * replace (k <=? n) with true by (symmetry; apply N.leb_le; lia).
        cbn [lastlk]. unfold lcount, lflat. cbn [filter length flat_map].
        rewrite N.add_0_r, app_nil_r. reflexivity.
      * replace (k <=? n) with false by (symmetry; apply N.leb_gt; lia).
        rewrite (IH m) by lia. cbn [lastlk].
        rewrite !lcount_cons_some by discriminate. unfold lflat. cbn [flat_map li_links].
        rewrite <- !app_assoc, !N.add_assoc. reflexivity.
Qed.

Lemma ltake_prefix : forall its m, exists rest, its = ltake m its ++ rest.
Proof.
  induction its as [|x its IH]; intros m; [exists []; reflexivity|].
  cbn [ltake]. destruct (li_links x).
  - destruct (IH m) as [rest E]. exists rest. cbn [app]. rewrite <- E. reflexivity.
  - destruct m as [|m]; [exists (x :: its); reflexivity|].
    destruct (IH m) as [rest E]. exists rest. cbn [app]. rewrite <- E. reflexivity.
Qed.

Lemma ldone_false : forall its m, ldone m its = false ->
  (length (ltake m its) < length its)%nat /\ lcount (ltake m its) = N.of_nat m /\
  (m <> O -> ltake m its <> []).
Proof.
  induction its as [|x its IH]; intros m H; [discriminate|].
  cbn [ldone ltake] in *. destruct (li_links x) eqn:El.
  - destruct (IH m H) as [H1 [H2 _]]. split; [simpl; lia|]. split; [|discriminate].
    rewrite lcount_cons_nil by exact El. exact H2.
  - destruct m as [|m].
    + split; [simpl; lia|]. split; [reflexivity|]. intros E; contradiction E; reflexivity.
    + destruct (IH m H) as [H1 [H2 _]]. split; [simpl; lia|]. split; [|discriminate].
      rewrite lcount_cons_some by (rewrite El; discriminate). rewrite H2. lia.
Qed.

(* a fresh call, k >= 1 *)
Lemma lpag_scan_call : forall k its, Forall is_LI its -> 1 <= k ->
  let m := N.to_nat k in
  lpag_scan (Some k) its 0 [] None = ROk (mkLR true (lcount its) (lflat its) None)
  \/
  exists its1 i path h links rest,
    its = (its1 ++ [LI i path h links]) ++ rest /\ (length rest < length its)%nat /\
    lcount (its1 ++ [LI i path h links]) = k /\
    lpag_scan (Some k) its 0 [] None
    = ROk (mkLR false k (lflat (its1 ++ [LI i path h links])) (Some (build_token i path))).
Proof.
  intros k its Hall Hk m.
  rewrite (lpag_scan_spec k its Hall m 0 [] None) by (unfold m; lia).
  destruct (ldone m its) eqn:Hd.
  - left. rewrite N.add_0_l. reflexivity.
  - right. destruct (ldone_false its m Hd) as [Hlt [Hc Hne]].
    destruct (ltake_prefix its m) as [rest Erest].
    destruct (exists_last (Hne ltac:(unfold m; lia))) as [its1 [x Ex]].
    assert (Hx : is_LI x).
    { rewrite Forall_forall in Hall. apply Hall. rewrite Erest, Ex.
      apply in_or_app. left. apply in_or_app. right. left. reflexivity. }
    destruct x as [i path h links|cr]; [|contradiction].
    exists its1, i, path, h, links, rest. rewrite <- Ex.
    split; [exact Erest|]. split.
    { assert (Hl : length its = (length (ltake m its) + length rest)%nat)
        by (rewrite Erest at 1; apply app_length).
      rewrite Ex, app_length in Hl. simpl in Hl. lia. }
    split; [rewrite Hc; unfold m; apply N2Nat.id|].
    cbv zeta. rewrite Ex at 1. rewrite lastlk_app_last. rewrite Hc. unfold m. rewrite N2Nat.id.
    rewrite N.add_0_l. reflexivity.
Qed.

(* ------------------------------------------------------------------------- *)
(* T6 - the chain                                                             *)
(* ------------------------------------------------------------------------- *)

Definition seenl (w : N) (ps : list bytes) (int outb : bool) (tok : option bytes) (s : traph)
  : list litem :=
  match tok with
  | None => link_items w int outb 0 ps None s
  | Some tk =>
      match parse_token tk with
      | None => [LErr true]
      | Some (i, path) => link_items w int outb i (skipn (N.to_nat i) ps) (Some path) s
      end
  end.

Lemma paginate_pagelinks_seen : forall w ps int outb k tok s, int || outb = true ->
  paginate_pagelinks w ps int outb k tok s = lpag_scan k (seenl w ps int outb tok s) 0 [] None.
Proof.
  intros w ps int outb k tok s Hio. unfold paginate_pagelinks, seenl.
  replace (negb int && negb outb) with false by (destruct int, outb; try reflexivity; discriminate).
  destruct tok as [tk|]; [|reflexivity].
  destruct (parse_token tk) as [[i path]|]; reflexivity.
Qed.

Definition lr0 : link_result := mkLR true 0 [] None.

(* answer r holds exactly the links of the run of items cs *)
Definition answer_of (r : link_result) (cs : list litem) : Prop :=
  lr_links r = lflat cs /\ lr_sources r = lcount cs.

Lemma lflat_app : forall a b, lflat (a ++ b) = lflat a ++ lflat b.
Proof. intros a b. unfold lflat. apply flat_map_app. Qed.

Lemma chainl_from_suffix : forall w int outb ps k s,
  int || outb = true -> wf_tst (tr s) -> all_found ps (tr s) -> 1 <= k ->
  forall n b a tok, (length b <= n)%nat ->
  segls w int outb 0 ps s = a ++ b -> seenl w ps int outb tok s = b ->
  exists rs css, chainl (S n) w ps int outb k tok s = Some rs /\ rs <> [] /\
    concat css = b /\ Forall2 answer_of rs css /\
    concat (map lr_links rs) = lflat b /\
    (forall r, In r (removelast rs) -> lr_done r = false /\ lr_sources r = k) /\
    lr_done (last rs lr0) = true.
Proof.
  intros w int outb ps k s Hio Hwf Hall Hk. induction n as [|n IH]; intros b a tok Hlen Hsplit Hseen.
  - destruct b; [|simpl in Hlen; lia].
    rewrite chainl_S, paginate_pagelinks_seen, Hseen by exact Hio. cbn [lpag_scan lr_done].
    exists [mkLR true 0 [] None], [[]]. split; [reflexivity|]. split; [discriminate|].
    split; [reflexivity|]. split; [repeat constructor|]. split; [reflexivity|].
    split; [intros r []|reflexivity].
  - assert (Hb : Forall is_LI b).
    { assert (H := segls_is_LI w int outb ps 0 s). rewrite Hsplit in H.
      apply Forall_app in H. apply H. }
    rewrite chainl_S, paginate_pagelinks_seen, Hseen by exact Hio.
    destruct (lpag_scan_call k b Hb Hk)
      as [Hcall|[b1 [i [path [h [links [rest [Hb12 [Hlt [Hcnt Hcall]]]]]]]]]];
      rewrite Hcall; cbn [lr_done lr_token].
    + exists [mkLR true (lcount b) (lflat b) None], [b]. split; [reflexivity|]. split; [discriminate|].
      split; [cbn [concat]; apply app_nil_r|].
      split; [constructor; [split; reflexivity|constructor]|].
      split; [cbn [map concat lr_links]; apply app_nil_r|].
      split; [intros r []|reflexivity].
    + assert (Hsplit' : segls w int outb 0 ps s = (a ++ b1) ++ LI i path h links :: rest).
      { rewrite Hsplit, Hb12. rewrite <- !app_assoc. reflexivity. }
      destruct (segls_resume _ _ _ _ _ _ _ _ _ _ _ _ Hwf Hall Hsplit') as [mi [Hi Hnext]].
      rewrite N.add_0_l in Hi.
      assert (Hseen' : seenl w ps int outb (Some (build_token i path)) s = rest).
      { unfold seenl. rewrite token_roundtrip. subst i. rewrite Nat2N.id. exact Hnext. }
      assert (Hsplit'' : segls w int outb 0 ps s = (a ++ b1 ++ [LI i path h links]) ++ rest).
      { rewrite Hsplit'. rewrite <- !app_assoc. reflexivity. }
      assert (Hlen' : (length rest <= n)%nat) by lia.
      destruct (IH _ _ _ Hlen' Hsplit'' Hseen') as [rs [css [Hch [Hne [Hcc [Hf2 [Hcat [Hmid Hlast]]]]]]]].
      rewrite Hch. cbn [option_map].
      eexists. exists ((b1 ++ [LI i path h links]) :: css).
      split; [reflexivity|]. split; [discriminate|].
      split; [cbn [concat]; rewrite Hcc; symmetry; exact Hb12|].
      split; [constructor; [split; [reflexivity|cbn [lr_sources]; symmetry; exact Hcnt]|exact Hf2]|].
      split; [cbn [map concat lr_links]; rewrite Hcat, <- lflat_app, <- Hb12; reflexivity|].
      split.
      { intros r Hr. destruct rs as [|r1 rs]; [contradiction Hne; reflexivity|].
        change (removelast (?x :: r1 :: rs)) with (x :: removelast (r1 :: rs)) in Hr.
        destruct Hr as [Hr|Hr]; [|apply Hmid; exact Hr].
        subst r. split; reflexivity. }
      destruct rs as [|r1 rs]; [contradiction Hne; reflexivity|]. exact Hlast.
Qed.

(* the links of the item list are the links of the page nodes in walk order *)
Lemma pagelinks_guard : forall w int outb s lru d,
  (if outh d =? 0 then [] else pagelinks_of w false int outb s (lru, d))
  = pagelinks_of w false int outb s (lru, d).
Proof.
  intros w int outb s lru d. unfold pagelinks_of. destruct (outh d =? 0); [|reflexivity].
  cbn [negb andb]. rewrite andb_false_r. reflexivity.
Qed.

Lemma lflat_segl : forall w int outb s i p,
  lflat (segl w int outb s i p)
  = flat_map (pagelinks_of w false int outb s)
      (match find_sub (lru_iter p) (tr s) with Some sub => ino_pages_of p sub | None => [] end).
Proof.
  intros w int outb s i p. unfold segl, ino_pages_of.
  destruct (find_sub (lru_iter p) (tr s)) as [sub|]; [|reflexivity].
  change (fun x : bytes * nd * N => page (snd (fst x))) with lfilt.
  generalize (filter lfilt (ino_at (lru_dirname p) sub)). intros l.
  induction l as [|[[lru d] path] l IH]; [reflexivity|].
  unfold lflat in *. cbn [map flat_map]. rewrite IH. f_equal.
  unfold lmk, inode. cbn [li_links fst snd]. apply pagelinks_guard.
Qed.

Lemma lflat_segls : forall w int outb ps i s,
  lflat (segls w int outb i ps s)
  = flat_map (pagelinks_of w false int outb s) (ino_pages ps (tr s)).
Proof.
  intros w int outb ps. induction ps as [|p ps IH]; intros i s; [reflexivity|].
  cbn [segls]. unfold ino_pages, opl. cbn [flat_map].
  rewrite lflat_app, flat_map_app, lflat_segl, IH. reflexivity.
Qed.

Theorem C10_chunks : forall w int outb ps k s,
  int || outb = true -> wf_tst (tr s) ->
  (forall p, In p ps -> find_sub (lru_iter p) (tr s) <> None) -> 1 <= k ->
  exists fuel rs css, chainl fuel w ps int outb k None s = Some rs /\
    concat (map lr_links rs)
      = flat_map (pagelinks_of w false int outb s) (ino_pages ps (tr s)) /\
    (forall r, In r (removelast rs) -> lr_done r = false /\ lr_sources r = k) /\
    lr_done (last rs lr0) = true /\
    concat css = segls w int outb 0 ps s /\
    Forall2 (fun r cs => lr_links r = lflat cs /\ lr_sources r = lcount cs) rs css.
Proof.
  intros w int outb ps k s Hio Hwf Hall Hk.
  destruct (chainl_from_suffix w int outb ps k s Hio Hwf Hall Hk (length (segls w int outb 0 ps s))
              (segls w int outb 0 ps s) [] None (le_n _) eq_refl)
    as [rs [css [Hch [_ [Hcc [Hf2 [Hcat [Hmid Hlast]]]]]]]].
  { unfold seenl. apply link_items_segls. exact Hall. }
  exists (S (length (segls w int outb 0 ps s))), rs, css. split; [exact Hch|].
  split; [rewrite Hcat; apply lflat_segls|]. split; [exact Hmid|]. split; [exact Hlast|].
  split; [exact Hcc|exact Hf2].
Qed.

(* ------------------------------------------------------------------------- *)
(* T7 - same links as the unpaginated query                                   *)
(* ------------------------------------------------------------------------- *)

Theorem C10_same_links : forall w int outb ps s,
  int || outb = true -> all_found ps (tr s) ->
  match webentity_pagelinks w ps false int outb s with
  | ROk l => Permutation (flat_map (pagelinks_of w false int outb s) (ino_pages ps (tr s))) l
  | _ => False
  end.
Proof.
  intros w int outb ps s Hio Hall. unfold webentity_pagelinks.
  replace (negb int && negb outb && negb false) with false
    by (destruct int, outb; try reflexivity; discriminate).
  rewrite (we_page_nodes_found ps s Hall).
  apply Permutation_flat_map. apply ino_pages_perm.
Qed.

Print Assumptions C10_chunks.
Print Assumptions C10_same_links.
