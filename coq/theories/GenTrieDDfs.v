(* GenTrieDDfs.v — the translated LRUTrie.dfs_iter (GenTrieD.v, generated from /repo/traph/lru_trie/lru_trie.py on every
   run), and pages_iter / webentity_prefix_iter built on it, yield exactly the model's depth-first enumeration
   (Tst.dfs / dfs_skip / dfs_at, Traph.pages_iter / prefix_iter) on the trie file of every state that satisfies Inv18.
   The explicit stack of the Python code is related to a stack of (prefix, non-empty subtree) pairs; the loop never runs
   out of fuel, never raises, and leaves the bytes of the file untouched. *)
From Coq Require Import List NArith Bool Lia Arith.
Import ListNotations.
From Traph Require Import Bytes Consts Layout Helpers Rules Tst TstDefs Traph Traphw TraceDefs Codec CodecFacts
  TstFacts Store StoreFacts GenStorage GenNode GenNodeFacts GenLinks GenTrie GenTrieFacts GenTrieW GenTrieWDefs
  GenTrieD GenTrieDDefs.
From Traph Require GenHelpers2 GenHelpers2Facts TraceFacts IdFacts PropsEx.
Open Scope N_scope.

Arguments N.shiftr : simpl never.
Arguments N.shiftl : simpl never.
Arguments N.modulo : simpl never.
Arguments N.div : simpl never.
Arguments N.land : simpl never.
Arguments N.lor : simpl never.
Arguments N.mul : simpl never.
Arguments N.add : simpl never.
Arguments N.sub : simpl never.
Arguments N.ltb : simpl never.
Arguments N.eqb : simpl never.

(* ====================================================================================== *)
(* 1. small facts: pop, flags, lists                                                      *)
(* ====================================================================================== *)
Lemma py_pop_snoc : forall (A : Type) (l : list A) x, py_pop (l ++ [x]) = Some (x, l).
Proof. intros A l x. unfold py_pop. rewrite rev_app_distr. cbn [rev app]. rewrite rev_involutive. reflexivity. Qed.

Lemma snoc_case : forall (A : Type) (l : list A), l = [] \/ exists l' x, l = l' ++ [x].
Proof. intros A l. induction l as [|x l' _] using rev_ind; [left; reflexivity|right; exists l', x; reflexivity]. Qed.

Lemma oN_eqb_refl : forall a, oN_eqb a a = true.
Proof. intros [x|]; [apply N.eqb_refl|reflexivity]. Qed.

Lemma oN_eqb_neq : forall a b, a <> b -> oN_eqb a b = false.
Proof.
  intros [x|] [y|] H; try reflexivity; [|congruence].
  cbn [oN_eqb]. apply N.eqb_neq. congruence.
Qed.

Lemma get_we : forall b, py_get_num pos_we (tblock_vals b) = b_we b.
Proof. intros [st fl w l r c p o i]. reflexivity. Qed.

Lemma py_test_flags : forall b pos, py_test (tblock_vals b) (N.of_nat pos_flags) pos = N.testbit (b_flags b) pos.
Proof.
  intros b pos. unfold py_test.
  change (py_get_num (N.to_nat (N.of_nat pos_flags)) (tblock_vals b)) with (b_flags b).
  apply py_test_testbit.
Qed.

Lemma flags_page : forall d, N.testbit (flags_of d) flag_page = page d.
Proof.
  intro d. unfold flags_of.
  destruct (page d), (crawled d), (rule d), (has_tail_of (stem d)), (nochild d); vm_compute; reflexivity.
Qed.
Lemma flags_crawled : forall d, N.testbit (flags_of d) flag_crawled = crawled d.
Proof.
  intro d. unfold flags_of.
  destruct (page d), (crawled d), (rule d), (has_tail_of (stem d)), (nochild d); vm_compute; reflexivity.
Qed.
Lemma flags_nochild : forall d, N.testbit (flags_of d) flag_nochild = nochild d.
Proof.
  intro d. unfold flags_of.
  destruct (page d), (crawled d), (rule d), (has_tail_of (stem d)), (nochild d); vm_compute; reflexivity.
Qed.

(* the accessors of a node object read from the block of a node of the tree *)
Lemma node_at_is_page : forall d l c r n, node_at (Nd d l c r) n -> py_node_is_page n = page d.
Proof.
  intros d l c r n (_ & _ & Hd & _). unfold py_node_is_page. rewrite Hd, py_test_flags. cbn [main_block b_flags].
  apply flags_page.
Qed.
Lemma node_at_is_crawled : forall d l c r n, node_at (Nd d l c r) n -> py_node_is_crawled n = crawled d.
Proof.
  intros d l c r n (_ & _ & Hd & _). unfold py_node_is_crawled. rewrite Hd, py_test_flags. cbn [main_block b_flags].
  apply flags_crawled.
Qed.
Lemma node_at_can_child : forall d l c r n, node_at (Nd d l c r) n ->
  py_node_can_have_child_webentities n = negb (nochild d).
Proof.
  intros d l c r n (_ & _ & Hd & _). unfold py_node_can_have_child_webentities.
  rewrite Hd, py_test_flags. cbn [main_block b_flags]. rewrite flags_nochild. reflexivity.
Qed.
Lemma node_at_has_we : forall d l c r n, node_at (Nd d l c r) n -> py_node_has_webentity n = negb (we d =? 0).
Proof.
  intros d l c r n (_ & _ & Hd & _). unfold py_node_has_webentity. rewrite Hd, get_we. reflexivity.
Qed.
Lemma node_at_we : forall d l c r n, node_at (Nd d l c r) n ->
  py_node_webentity n = if we d =? 0 then None else Some (we d).
Proof.
  intros d l c r n (_ & _ & Hd & _). unfold py_node_webentity. rewrite Hd, get_we. reflexivity.
Qed.

Lemma NoDup_app_parts : forall (A : Type) (a b : list A), NoDup (a ++ b) ->
  NoDup a /\ NoDup b /\ (forall x, In x a -> ~ In x b).
Proof.
  intros A a b. induction a as [|y a IH]; intro H.
  - split; [constructor|]. split; [exact H|]. intros x [].
  - cbn [app] in H. apply NoDup_cons_iff in H. destruct H as [Hn H]. destruct (IH H) as (Ha & Hb & Hd).
    split; [constructor; [intro Hi; apply Hn, in_or_app; left; exact Hi|exact Ha]|]. split; [exact Hb|].
    intros x [<-|Hx]; [intro Hi; apply Hn, in_or_app; right; exact Hi|apply Hd; exact Hx].
Qed.

Lemma subt_nodup : forall x t, subt x t -> NoDup (map fst (placed t)) -> NoDup (map fst (placed x)).
Proof.
  intros x t H. induction H as [|d l c r _ IH|d l c r _ IH|d l c r _ IH]; intro Hnd; [exact Hnd| | |];
    cbn [placed] in Hnd; rewrite !map_app in Hnd;
    apply NoDup_app_parts in Hnd; destruct Hnd as (_ & Hnd & _).
  - apply NoDup_app_parts in Hnd. destruct Hnd as (_ & Hnd & _).
    apply NoDup_app_parts in Hnd. destruct Hnd as (Hnd & _ & _). apply IH. exact Hnd.
  - apply NoDup_app_parts in Hnd. destruct Hnd as (Hnd & _ & _). apply IH. exact Hnd.
  - apply NoDup_app_parts in Hnd. destruct Hnd as (_ & Hnd & _).
    apply NoDup_app_parts in Hnd. destruct Hnd as (_ & Hnd & _). apply IH. exact Hnd.
Qed.

Lemma Forall2_filter : forall (A B : Type) (R : A -> B -> Prop) (f : A -> bool) (g : B -> bool) l1 l2,
  Forall2 R l1 l2 -> (forall a b, R a b -> f a = g b) -> Forall2 R (filter f l1) (filter g l2).
Proof.
  intros A B R f g l1 l2 H Hfg. induction H as [|a b l1 l2 Hab _ IH]; [constructor|].
  cbn [filter]. rewrite (Hfg a b Hab). destruct (g b); [constructor; assumption|exact IH].
Qed.

Lemma Forall2_map_eq : forall (A B C : Type) (R : A -> B -> Prop) (f : A -> C) (g : B -> C) l1 l2,
  Forall2 R l1 l2 -> (forall a b, R a b -> f a = g b) -> map f l1 = map g l2.
Proof.
  intros A B C R f g l1 l2 H Hfg. induction H as [|a b l1 l2 Hab _ IH]; [reflexivity|].
  cbn [map]. rewrite (Hfg a b Hab), IH. reflexivity.
Qed.

(* ====================================================================================== *)
(* 2. the generated loop, re-stated                                                       *)
(* ====================================================================================== *)
Definition DSt : Type := (py_pm * py_node * list (option N * bytes) * list (py_node * bytes))%type.

Definition dloop (v_starting_from_root : bool) (v_starting_block : option N) (v_skip_childless_paths : bool) :=
 fix py_loop (fuel : nat) (st : DSt) {struct fuel} : option DSt :=
 match fuel with
 | O => Some st
 | S fuel' =>
 let '(sg, v_node, v_stack, v__out) := st in
 if (negb (N.eqb (N.of_nat (length v_stack)) 0%N))
 then (match py_pop v_stack with
 | None => None
 | Some ((v_block, v_lru), v_stack) => (let '(v_node, sg) := py_node_read_o v_node sg v_block in
 (let v_current_lru := (v_lru ++ (py_node_stem v_node)) in
 (let v__out := v__out ++ [(v_node, v_current_lru)] in
 (let v_stack := (if (v_starting_from_root || (negb (oN_eqb v_block v_starting_block)))
 then (let v_stack := (if (py_node_has_right v_node)
 then (let v_stack := v_stack ++ [((py_node_right v_node), v_lru)] in
 v_stack)
 else v_stack) in
 (let v_stack := (if (py_node_has_left v_node)
 then (let v_stack := v_stack ++ [((py_node_left v_node), v_lru)] in
 v_stack)
 else v_stack) in
 v_stack))
 else v_stack) in
 (if (v_skip_childless_paths && (negb (py_node_can_have_child_webentities v_node)))
 then (py_loop fuel' (sg, v_node, v_stack, v__out))
 else (let v_stack := (if (py_node_has_child v_node)
 then (let v_stack := v_stack ++ [((py_node_child v_node), v_current_lru)] in
 v_stack)
 else v_stack) in
 (py_loop fuel' (sg, v_node, v_stack, v__out)))))))) end)
 else Some st
 end.

Lemma dfs_iter_eq : forall sg sn lru skip,
  py_trie_dfs_iter sg sn lru skip =
  match sn with
  | None =>
      let '(n0, sg) := py_node_init sg None (Some py_first_data_block) None in
      let '(n1, sg) := py_node_init sg None (Some py_first_data_block) None in
      if negb (nd_exists n0) then Some ([], sg)
      else let '(n2, sg) := py_node_init sg None None None in
           match dloop true (nd_block n1) skip (S (length (pm_array sg))) (sg, n2, [(nd_block n1, lru)], []) with
           | None => None
           | Some (sg, _, _, out) => Some (out, sg)
           end
  | Some n =>
      if negb (nd_exists n) then Some ([], sg)
      else let '(n2, sg) := py_node_init sg None None None in
           match dloop false (nd_block n) skip (S (length (pm_array sg)))
                   (sg, n2, [(nd_block n, GenHelpers2.py_lru_dirname lru)], []) with
           | None => None
           | Some (sg, _, _, out) => Some (out, sg)
           end
  end.
Proof. intros sg [n|] lru skip; reflexivity. Qed.

Lemma dloop_O : forall fr sb skip st, dloop fr sb skip O st = Some st.
Proof. reflexivity. Qed.

Lemma dloop_S : forall fr sb skip fuel sg n stk out,
  dloop fr sb skip (S fuel) (sg, n, stk, out) =
  if negb (N.of_nat (length stk) =? 0)
  then match py_pop stk with
       | None => None
       | Some ((blk, lru), stk) =>
           let '(n, sg) := py_node_read_o n sg blk in
           let stk1 := if fr || negb (oN_eqb blk sb)
                       then (let stk0 := if py_node_has_right n then stk ++ [(py_node_right n, lru)] else stk in
                             if py_node_has_left n then stk0 ++ [(py_node_left n, lru)] else stk0)
                       else stk in
           if skip && negb (py_node_can_have_child_webentities n)
           then dloop fr sb skip fuel (sg, n, stk1, out ++ [(n, lru ++ py_node_stem n)])
           else dloop fr sb skip fuel
                  (sg, n, (if py_node_has_child n then stk1 ++ [(py_node_child n, lru ++ py_node_stem n)] else stk1),
                   out ++ [(n, lru ++ py_node_stem n)])
       end
  else Some (sg, n, stk, out).
Proof. reflexivity. Qed.

Lemma init_none : forall sg, exists n2, py_node_init sg None None None = (n2, sg).
Proof. intro sg. eexists. reflexivity. Qed.

(* ====================================================================================== *)
(* 3. the loop on the trie file of a state                                                *)
(* ====================================================================================== *)
(* the model's stack: (prefix, subtree), bottom first as the Python list *)
Definition enc (e : bytes * tst) : option N * bytes := (Some (root_addr (snd e)), fst e).
Definition ent (pre : bytes) (t : tst) : list (bytes * tst) := match t with Lf => [] | Nd _ _ _ _ => [(pre, t)] end.
Definition D (skip : bool) (pre : bytes) (t : tst) : list (bytes * nd) := if skip then dfs_skip pre t else dfs pre t.
Definition DF (skip : bool) (e : bytes * tst) : list (bytes * nd) := D skip (fst e) (snd e).
Fixpoint tot (ms : list (bytes * tst)) : nat :=
  match ms with [] => 0%nat | e :: ms' => (size (snd e) + tot ms')%nat end.

Lemma tot_app : forall a b, tot (a ++ b) = (tot a + tot b)%nat.
Proof. induction a as [|e a IH]; intro b; [reflexivity|]. cbn [app tot]. rewrite IH. lia. Qed.
Lemma tot_ent : forall pre t, tot (ent pre t) = size t.
Proof. intros pre [|d l c r]; [reflexivity|]. cbn [ent tot snd]. lia. Qed.
Lemma DF_ent : forall skip pre t, flat_map (DF skip) (rev (ent pre t)) = D skip pre t.
Proof.
  intros skip pre [|d l c r]; [destruct skip; reflexivity|].
  cbn [ent rev app flat_map]. unfold DF. cbn [fst snd]. apply app_nil_r.
Qed.
Lemma D_Nd : forall skip pre d l c r,
  D skip pre (Nd d l c r) =
  (pre ++ stem d, d) :: flat_map (DF skip) (rev (if skip && nochild d then [] else ent (pre ++ stem d) c))
     ++ D skip pre l ++ D skip pre r.
Proof.
  intros skip pre d l c r. destruct skip; cbn [andb].
  - unfold D at 1. cbn [dfs_skip]. destruct (nochild d); [reflexivity|]. rewrite DF_ent. reflexivity.
  - unfold D at 1. cbn [dfs]. rewrite DF_ent. reflexivity.
Qed.

Section OnState.
  Variable s : traph.
  Hypothesis Hinv : Inv18 s.

  Lemma read_subt_arr : forall d l c r nd0 sg, subt (Nd d l c r) (tr s) -> trep (files_of s) sg ->
    pm_array (snd (py_node_read_o nd0 sg (Some (addr d)))) = pm_array sg.
  Proof.
    intros d l c r nd0 sg Hsub (Hbs & (hdr & Harr & Hh) & Henc).
    rewrite py_node_read_o_some.
    pose proof (blk_at_main_subt s Hinv d l c r Hsub) as Hblk. destruct (blk_at_off _ _ _ Hblk) as [Hao Hn0].
    pose proof (py_node_read_spec nd0 sg hdr (files_of s) (tidx (addr d)) _ Hbs Harr Hh Henc Hn0) as HS.
    cbv zeta in HS. rewrite <- Hao in HS. apply HS.
  Qed.

  (* reading the first data block of the file of an empty trie *)
  Lemma read_empty : tr s = Lf -> forall nd0 sg, trep (files_of s) sg ->
    let res := py_node_read_o nd0 sg (Some py_first_data_block) in
    nd_exists (fst res) = false /\ trep (files_of s) (snd res) /\ pm_array (snd res) = pm_array sg.
  Proof.
    intros Hr nd0 sg (Hbs & (hdr & Harr & Hh) & Henc). cbv zeta.
    assert (Eft : ft (files_of s) = []).
    { apply length_zero_iff_nil. rewrite ft_length, Hr. reflexivity. }
    rewrite py_node_read_o_some.
    pose proof (py_node_read_absent nd0 sg py_first_data_block) as HA.
    cbv zeta in HA. destruct HA as (Hex & _ & _ & _ & Harr' & Hbs').
    { rewrite Harr, Eft. cbn [flat_map]. rewrite app_nil_r, Hh. change py_first_data_block with 128. lia. }
    split; [exact Hex|]. split; [|exact Harr'].
    split; [rewrite Hbs'; exact Hbs|]. split; [|exact Henc].
    exists hdr. rewrite Harr'. split; [exact Harr|exact Hh].
  Qed.

  (* distinct nodes have distinct addresses: a node below the child register of a node is not at that node's address *)
  Lemma child_addr_neq : forall d l c r d' l' c' r',
    subt (Nd d l c r) (tr s) -> subt (Nd d' l' c' r') c -> addr d' <> addr d.
  Proof.
    intros d l c r d' l' c' r' Hsub Hsub'.
    pose proof (TraceFacts.tiled_img _ _ (I_tiled _ Hinv)) as (Hnd & _).
    pose proof (subt_nodup _ _ Hsub Hnd) as Hn.
    cbn [placed node_blocks number_from app map fst] in Hn.
    apply NoDup_cons_iff in Hn. destruct Hn as [Hn _].
    intro E. apply Hn. rewrite map_app. apply in_or_app. right. rewrite map_app. apply in_or_app. left.
    rewrite <- E.
    apply (in_map fst _ (addr d', main_block d' (root_addr l') (root_addr r') (root_addr c'))).
    apply (subt_placed _ _ Hsub'). cbn [placed node_blocks number_from app]. left. reflexivity.
  Qed.

  (* pushing the block a register names *)
  Lemma reg_facts : forall t, subt t (tr s) -> t <> Lf -> (root_addr t =? 0) = false /\ (root_addr t <? py_first_data_block) = false.
  Proof.
    intros [|d l c r] Hsub Hne; [congruence|]. cbn [root_addr].
    pose proof (root_addr_ge s Hinv d l c r Hsub) as Hge. change py_first_data_block with 128 in *.
    split; [apply N.eqb_neq; lia|apply N.ltb_ge; exact Hge].
  Qed.

  Lemma push_right : forall d l c r n pre (st : list (option N * bytes)),
    subt (Nd d l c r) (tr s) -> node_at (Nd d l c r) n ->
    (if py_node_has_right n then st ++ [(py_node_right n, pre)] else st) = st ++ map enc (ent pre r).
  Proof.
    intros d l c r n pre st Hsub (_ & _ & Hd & _). unfold py_node_has_right, py_node_right.
    rewrite Hd, get_right. cbn [main_block b_right].
    destruct r as [|dr lr cr rr].
    - cbn [root_addr ent map]. change (0 =? 0) with true. cbn [negb]. rewrite app_nil_r. reflexivity.
    - destruct (reg_facts (Nd dr lr cr rr) (subt_right _ _ _ _ _ Hsub) ltac:(discriminate)) as [Hz Hlt].
      rewrite Hz, Hlt. reflexivity.
  Qed.
  Lemma push_left : forall d l c r n pre (st : list (option N * bytes)),
    subt (Nd d l c r) (tr s) -> node_at (Nd d l c r) n ->
    (if py_node_has_left n then st ++ [(py_node_left n, pre)] else st) = st ++ map enc (ent pre l).
  Proof.
    intros d l c r n pre st Hsub (_ & _ & Hd & _). unfold py_node_has_left, py_node_left.
    rewrite Hd, get_left. cbn [main_block b_left].
    destruct l as [|dl ll cl rl].
    - cbn [root_addr ent map]. change (0 =? 0) with true. cbn [negb]. rewrite app_nil_r. reflexivity.
    - destruct (reg_facts (Nd dl ll cl rl) (subt_left _ _ _ _ _ Hsub) ltac:(discriminate)) as [Hz Hlt].
      rewrite Hz, Hlt. reflexivity.
  Qed.
  Lemma push_child : forall d l c r n pre (st : list (option N * bytes)),
    subt (Nd d l c r) (tr s) -> node_at (Nd d l c r) n ->
    (if py_node_has_child n then st ++ [(py_node_child n, pre)] else st) = st ++ map enc (ent pre c).
  Proof.
    intros d l c r n pre st Hsub (_ & _ & Hd & _). unfold py_node_has_child, py_node_child.
    rewrite Hd, get_child. cbn [main_block b_child].
    destruct c as [|dc lc cc rc].
    - cbn [root_addr ent map]. change (0 =? 0) with true. cbn [negb]. rewrite app_nil_r. reflexivity.
    - destruct (reg_facts (Nd dc lc cc rc) (subt_child _ _ _ _ _ Hsub) ltac:(discriminate)) as [Hz Hlt].
      rewrite Hz, Hlt. reflexivity.
  Qed.

  (* one iteration: the block on top of the stack is the main block of a node of the tree *)
  Lemma dloop_step : forall fr sb skip fuel stk pre d l c r sg n out,
    subt (Nd d l c r) (tr s) -> trep (files_of s) sg ->
    exists n1 sg1, node_at (Nd d l c r) n1 /\ trep (files_of s) sg1 /\ pm_array sg1 = pm_array sg /\
      dloop fr sb skip (S fuel) (sg, n, stk ++ [(Some (addr d), pre)], out) =
      dloop fr sb skip fuel
        (sg1, n1,
         stk ++ map enc ((if fr || negb (oN_eqb (Some (addr d)) sb) then ent pre r ++ ent pre l else [])
                         ++ (if skip && nochild d then [] else ent (pre ++ stem d) c)),
         out ++ [(n1, pre ++ stem d)]).
  Proof.
    intros fr sb skip fuel stk pre d l c r sg n out Hsub Hrep.
    pose proof (read_subt s Hinv d l c r n sg Hsub Hrep) as HR. cbv zeta in HR.
    pose proof (read_subt_arr d l c r n sg Hsub Hrep) as HA.
    destruct (py_node_read_o n sg (Some (addr d))) as [n1 sg1] eqn:Er. cbn [fst snd] in HR, HA.
    destruct HR as [Hn1 Hrep1].
    exists n1, sg1. split; [exact Hn1|]. split; [exact Hrep1|]. split; [exact HA|].
    rewrite dloop_S.
    assert (Hlen : negb (N.of_nat (length (stk ++ [(Some (addr d), pre)])) =? 0) = true).
    { rewrite app_length. cbn [length]. apply negb_true_iff, N.eqb_neq. lia. }
    rewrite Hlen, py_pop_snoc, Er. cbv zeta.
    pose proof Hn1 as (_ & _ & _ & Hs1). rewrite Hs1.
    rewrite (node_at_can_child _ _ _ _ _ Hn1), negb_involutive.
    rewrite (push_right d l c r n1 pre stk Hsub Hn1).
    rewrite (push_left d l c r n1 pre _ Hsub Hn1).
    destruct (fr || negb (oN_eqb (Some (addr d)) sb)); destruct (skip && nochild d);
      rewrite ?(push_child d l c r n1 (pre ++ stem d) _ Hsub Hn1);
      rewrite ?map_app; cbn [map app]; rewrite ?app_nil_r, <- ?app_assoc; reflexivity.
  Qed.

  (* the entries of the stack: non-empty subtrees of the tree none of whose nodes sits at the starting block
     (unless the traversal started from the root) *)
  Definition entry_ok (fr : bool) (sb : option N) (e : bytes * tst) : Prop :=
    snd e <> Lf /\ subt (snd e) (tr s) /\
    (fr = true \/ forall d l c r, subt (Nd d l c r) (snd e) -> Some (addr d) <> sb).

  Lemma entry_ok_sub : forall fr sb pre t pre' t', entry_ok fr sb (pre, t) -> subt t' t ->
    Forall (entry_ok fr sb) (ent pre' t').
  Proof.
    intros fr sb pre t pre' t' (Hne & Hsub & Hsb) Hs'. destruct t' as [|d' l' c' r']; [constructor|].
    cbn [ent]. constructor; [|constructor]. cbn [fst snd] in *.
    split; [discriminate|]. split; [apply (subt_trans _ _ _ Hs' Hsub)|].
    destruct Hsb as [Hfr|Hsb]; [left; exact Hfr|right].
    intros d0 l0 c0 r0 H0. apply (Hsb d0 l0 c0 r0). apply (subt_trans _ _ _ H0 Hs').
  Qed.

  Lemma dloop_spec : forall fr sb skip fuel ms sg n out,
    Forall (entry_ok fr sb) ms -> (tot ms <= fuel)%nat -> trep (files_of s) sg ->
    exists sg' n' items,
      dloop fr sb skip fuel (sg, n, map enc ms, out) = Some (sg', n', [], out ++ items) /\
      trep (files_of s) sg' /\ pm_array sg' = pm_array sg /\
      Forall2 (item_rep s) items (flat_map (DF skip) (rev ms)).
  Proof.
    intros fr sb skip fuel. induction fuel as [|fuel IH]; intros ms sg n out Hok Hfuel Hrep.
    - destruct ms as [|[pre t] ms].
      + exists sg, n, []. rewrite dloop_O, app_nil_r. cbn [map rev flat_map].
        split; [reflexivity|]. split; [exact Hrep|]. split; [reflexivity|constructor].
      + exfalso. inversion Hok as [|? ? (Hne & _) _]; subst. cbn [snd] in Hne.
        destruct t; [congruence|]. cbn [tot snd size] in Hfuel. lia.
    - destruct (snoc_case _ ms) as [->|(ms' & [pre t] & ->)].
      + exists sg, n, []. rewrite dloop_S, app_nil_r. cbn [map length rev flat_map].
        change (N.of_nat 0 =? 0) with true. cbn [negb].
        split; [reflexivity|]. split; [exact Hrep|]. split; [reflexivity|constructor].
      + apply Forall_app in Hok. destruct Hok as [Hok' Hok1].
        inversion Hok1 as [|? ? He _]; subst.
        pose proof He as (Hne & Hsub & Hsb). cbn [snd] in Hne, Hsub, Hsb.
        destruct t as [|d l c r]; [congruence|].
        rewrite map_app. cbn [map]. unfold enc at 2. cbn [fst snd root_addr].
        destruct (dloop_step fr sb skip fuel (map enc ms') pre d l c r sg n out Hsub Hrep)
          as (n1 & sg1 & Hn1 & Hrep1 & Harr1 & Estep).
        rewrite Estep.
        assert (Hcond : fr || negb (oN_eqb (Some (addr d)) sb) = true).
        { destruct Hsb as [->|Hsb]; [reflexivity|].
          rewrite (oN_eqb_neq _ _ (Hsb d l c r (subt_here _))). apply orb_true_r. }
        rewrite Hcond, <- map_app.
        set (cs := if skip && nochild d then [] else ent (pre ++ stem d) c).
        rewrite tot_app in Hfuel. cbn [tot snd size] in Hfuel.
        assert (Hcs : Forall (entry_ok fr sb) cs /\ (tot cs <= size c)%nat).
        { unfold cs. destruct (skip && nochild d).
          - split; [constructor|cbn [tot]; lia].
          - split; [|rewrite tot_ent; lia].
            apply (entry_ok_sub fr sb pre (Nd d l c r) _ c He). apply subt_c, subt_here. }
        destruct Hcs as [Hcs1 Hcs2].
        destruct (IH (ms' ++ (ent pre r ++ ent pre l) ++ cs) sg1 n1 (out ++ [(n1, pre ++ stem d)]))
          as (sg' & n' & items & E & Hrep' & Harr' & HF).
        { apply Forall_app. split; [exact Hok'|]. apply Forall_app. split; [|exact Hcs1].
          apply Forall_app. split.
          - apply (entry_ok_sub fr sb pre (Nd d l c r) _ r He). apply subt_r, subt_here.
          - apply (entry_ok_sub fr sb pre (Nd d l c r) _ l He). apply subt_l, subt_here. }
        { rewrite !tot_app, !tot_ent. lia. }
        { exact Hrep1. }
        exists sg', n', ((n1, pre ++ stem d) :: items). rewrite E, <- app_assoc.
        split; [reflexivity|]. split; [exact Hrep'|]. split; [rewrite Harr'; exact Harr1|].
        rewrite rev_app_distr. cbn [rev app flat_map]. unfold DF at 1. cbn [fst snd]. rewrite D_Nd. fold cs.
        rewrite !rev_app_distr, !flat_map_app, !DF_ent, <- !app_assoc in HF.
        cbn [app]. constructor.
        * split; [reflexivity|]. exists l, c, r. cbn [fst snd]. split; [exact Hsub|exact Hn1].
        * rewrite <- !app_assoc. exact HF.
  Qed.

  (* ---- dfs_iter() from the root ---- *)
  Theorem dfs_iter_root : forall sg skip,
    root_first s -> trep (files_of s) sg ->
    exists items sg', py_trie_dfs_iter sg None [] skip = Some (items, sg') /\
      trep (files_of s) sg' /\ pm_array sg' = pm_array sg /\
      Forall2 (item_rep s) items (if skip then dfs_skip [] (tr s) else dfs [] (tr s)).
  Proof.
    intros sg skip Hroot Hrep. rewrite dfs_iter_eq, init_read.
    set (nd0 := nd_set_tail [] (nd_set_exists false (nd_set_block None py_node_new))).
    destruct Hroot as [Hr|Hr].
    - destruct (tr s) as [|d l c r] eqn:Et; [cbn in Hr; discriminate Hr|].
      cbn [root_addr] in Hr.
      assert (Hsub : subt (Nd d l c r) (tr s)) by (rewrite Et; apply subt_here).
      change py_first_data_block with bsz. rewrite <- Hr.
      pose proof (read_subt s Hinv d l c r nd0 sg Hsub Hrep) as HR. cbv zeta in HR.
      pose proof (read_subt_arr d l c r nd0 sg Hsub Hrep) as HA.
      destruct (py_node_read_o nd0 sg (Some (addr d))) as [n0 sg0]. cbn [fst snd] in HR, HA.
      destruct HR as [Hn0 Hrep0].
      rewrite init_read. fold nd0.
      pose proof (read_subt s Hinv d l c r nd0 sg0 Hsub Hrep0) as HR. cbv zeta in HR.
      pose proof (read_subt_arr d l c r nd0 sg0 Hsub Hrep0) as HA1.
      destruct (py_node_read_o nd0 sg0 (Some (addr d))) as [n1 sg1]. cbn [fst snd] in HR, HA1.
      destruct HR as [Hn1 Hrep1].
      pose proof Hn0 as (He0 & _). pose proof Hn1 as (_ & Hb1 & _).
      rewrite He0. cbn [negb]. destruct (init_none sg1) as (n2 & ->). rewrite Hb1.
      destruct (dloop_spec true (Some (addr d)) skip (S (length (pm_array sg1))) [([], Nd d l c r)] sg1 n2 [])
        as (sg' & n' & items & E & Hrep' & Harr' & HF).
      { constructor; [|constructor]. split; [discriminate|]. split; [exact Hsub|left; reflexivity]. }
      { cbn [tot snd]. pose proof (fuel_enough s (Nd d l c r) sg1 Hsub Hrep1). lia. }
      { exact Hrep1. }
      cbn [map] in E. unfold enc in E. cbn [fst snd root_addr] in E. rewrite E.
      exists items, sg'. split; [reflexivity|]. split; [exact Hrep'|].
      split; [rewrite Harr', HA1; exact HA|].
      cbn [rev app flat_map] in HF. unfold DF in HF. cbn [fst snd] in HF. rewrite app_nil_r in HF. exact HF.
    - rewrite Hr.
      pose proof (read_empty Hr nd0 sg Hrep) as HR. cbv zeta in HR.
      destruct (py_node_read_o nd0 sg (Some py_first_data_block)) as [n0 sg0]. cbn [fst snd] in HR.
      destruct HR as (He0 & Hrep0 & HA0).
      rewrite init_read. fold nd0.
      pose proof (read_empty Hr nd0 sg0 Hrep0) as HR. cbv zeta in HR.
      destruct (py_node_read_o nd0 sg0 (Some py_first_data_block)) as [n1 sg1]. cbn [fst snd] in HR.
      destruct HR as (_ & Hrep1 & HA1).
      rewrite He0. cbn [negb].
      exists [], sg1. split; [reflexivity|]. split; [exact Hrep1|]. split; [rewrite HA1; exact HA0|].
      destruct skip; constructor.
  Qed.

  (* ---- dfs_iter(starting_node, starting_lru): the siblings of the starting node are not followed ---- *)
  Theorem dfs_iter_at : forall sg skip t n lru,
    trep (files_of s) sg -> subt t (tr s) -> node_at t n ->
    exists items sg', py_trie_dfs_iter sg (Some n) lru skip = Some (items, sg') /\
      trep (files_of s) sg' /\ pm_array sg' = pm_array sg /\
      Forall2 (item_rep s) items (dfs_at skip (lru_dirname lru) t).
  Proof.
    intros sg skip t n lru Hrep Hsub Hn. destruct t as [|d l c r]; [destruct Hn|].
    pose proof Hn as (He & Hb & _).
    rewrite dfs_iter_eq, He, Hb, GenHelpers2Facts.py_lru_dirname_eq. cbn [negb].
    destruct (init_none sg) as (n2 & ->).
    set (pre := lru_dirname lru).
    destruct (dloop_step false (Some (addr d)) skip (length (pm_array sg)) [] pre d l c r sg n2 [] Hsub Hrep)
      as (n1 & sg1 & Hn1 & Hrep1 & Harr1 & Estep).
    cbn [app] in Estep. rewrite Estep.
    rewrite oN_eqb_refl. cbn [negb orb app].
    set (cs := if skip && nochild d then [] else ent (pre ++ stem d) c).
    destruct (dloop_spec false (Some (addr d)) skip (length (pm_array sg)) cs sg1 n1 [(n1, pre ++ stem d)])
      as (sg' & n' & items & E & Hrep' & Harr' & HF).
    { unfold cs. destruct (skip && nochild d); [constructor|].
      destruct c as [|dc lc cc rc]; [constructor|]. cbn [ent]. constructor; [|constructor].
      split; [discriminate|]. cbn [snd]. split; [apply (subt_child _ _ _ _ _ Hsub)|right].
      intros d' l' c' r' H' E'. injection E' as E'. exact (child_addr_neq d l _ r d' l' c' r' Hsub H' E'). }
    { assert (tot cs <= size c)%nat.
      { unfold cs. destruct (skip && nochild d); [cbn [tot]; lia|rewrite tot_ent; lia]. }
      pose proof (subt_size _ _ Hsub) as H1. cbn [size] in H1.
      pose proof (fuel_enough s (tr s) sg (subt_here _) Hrep). lia. }
    { exact Hrep1. }
    rewrite E. exists ((n1, pre ++ stem d) :: items), sg'.
    split; [reflexivity|]. split; [exact Hrep'|]. split; [rewrite Harr'; exact Harr1|].
    cbn [dfs_at]. constructor.
    - split; [reflexivity|]. exists l, c, r. cbn [fst snd]. split; [exact Hsub|exact Hn1].
    - unfold cs in HF. destruct skip; cbn [andb] in HF.
      + destruct (nochild d); [exact HF|]. rewrite DF_ent in HF. exact HF.
      + rewrite DF_ent in HF. exact HF.
  Qed.
End OnState.

(* ====================================================================================== *)
(* 4. the main theorems                                                                   *)
(* ====================================================================================== *)
Theorem py_trie_dfs_iter_root_spec : forall s, Inv18 s -> forall sg skip,
  root_first s -> trep (files_of s) sg ->
  exists items sg', py_trie_dfs_iter sg None [] skip = Some (items, sg') /\
    trep (files_of s) sg' /\ pm_array sg' = pm_array sg /\
    Forall2 (item_rep s) items (if skip then dfs_skip [] (tr s) else dfs [] (tr s)).
Proof. intros s Hinv sg skip. apply (dfs_iter_root s Hinv). Qed.

Theorem py_trie_dfs_iter_at_spec : forall s, Inv18 s -> forall sg skip t n lru,
  trep (files_of s) sg -> subt t (tr s) -> node_at t n ->
  exists items sg', py_trie_dfs_iter sg (Some n) lru skip = Some (items, sg') /\
    trep (files_of s) sg' /\ pm_array sg' = pm_array sg /\
    Forall2 (item_rep s) items (dfs_at skip (lru_dirname lru) t).
Proof. intros s Hinv sg skip t n lru. apply (dfs_iter_at s Hinv). Qed.

Theorem py_trie_pages_iter_spec : forall s, Inv18 s -> forall sg,
  root_first s -> trep (files_of s) sg ->
  exists items sg', py_trie_pages_iter sg = Some (items, sg') /\ trep (files_of s) sg' /\
    map (fun it => (snd it, py_node_is_crawled (fst it))) items = pages_iter s.
Proof.
  intros s Hinv sg Hroot Hrep.
  destruct (py_trie_dfs_iter_root_spec s Hinv sg false Hroot Hrep) as (items & sg' & E & Hrep' & _ & HF).
  unfold py_trie_pages_iter. rewrite E.
  eexists. exists sg'. split; [reflexivity|]. split; [exact Hrep'|].
  unfold pages_iter, all_nodes.
  apply (Forall2_map_eq _ _ _ (item_rep s)).
  - apply Forall2_filter; [exact HF|].
    intros [n lru] [lru' d] (_ & l & c & r & _ & Hn). cbn [fst snd] in *. apply (node_at_is_page _ _ _ _ _ Hn).
  - intros [n lru] [lru' d] (El & l & c & r & _ & Hn). cbn [fst snd] in *.
    rewrite El, (node_at_is_crawled _ _ _ _ _ Hn). reflexivity.
Qed.

Theorem py_trie_webentity_prefix_iter_spec : forall s, Inv18 s -> forall sg,
  root_first s -> trep (files_of s) sg ->
  exists items sg', py_trie_webentity_prefix_iter sg = Some (items, sg') /\ trep (files_of s) sg' /\
    map (fun it => (snd it, match py_node_webentity (fst it) with Some w => w | None => 0 end)) items = prefix_iter s.
Proof.
  intros s Hinv sg Hroot Hrep.
  destruct (py_trie_dfs_iter_root_spec s Hinv sg false Hroot Hrep) as (items & sg' & E & Hrep' & _ & HF).
  unfold py_trie_webentity_prefix_iter. rewrite E.
  eexists. exists sg'. split; [reflexivity|]. split; [exact Hrep'|].
  unfold prefix_iter, all_nodes.
  apply (Forall2_map_eq _ _ _ (item_rep s)).
  - apply Forall2_filter; [exact HF|].
    intros [n lru] [lru' d] (_ & l & c & r & _ & Hn). cbn [fst snd] in *. apply (node_at_has_we _ _ _ _ _ Hn).
  - intros [n lru] [lru' d] (El & l & c & r & _ & Hn). cbn [fst snd] in *.
    rewrite El, (node_at_we _ _ _ _ _ Hn). destruct (N.eqb_spec (we d) 0) as [->|_]; reflexivity.
Qed.

(* ====================================================================================== *)
(* 5. non-vacuity: the translated code run on the bytes of the trie file of a concrete state *)
(* ====================================================================================== *)
Definition ex_view (r : option (list (py_node * bytes) * py_pm)) : option (list (bytes * option N)) :=
  option_map (fun r => map (fun it => (snd it, nd_block (fst it))) (fst r)) r.
Definition ex_model (l : list (bytes * nd)) : list (bytes * option N) := map (fun m => (fst m, Some (addr (snd m)))) l.

Example ex_dfs_all : ex_view (py_trie_dfs_iter ex_sg None [] false) = Some (ex_model (dfs [] (tr PropsEx.exs))).
Proof. vm_compute. reflexivity. Qed.
Example ex_dfs_skip : ex_view (py_trie_dfs_iter ex_sg None [] true) = Some (ex_model (dfs_skip [] (tr PropsEx.exs))).
Proof. vm_compute. reflexivity. Qed.
(* the two settings differ on this state: 15 nodes, 14 when childless paths are skipped *)
Example ex_dfs_skip_differs :
  (length (dfs [] (tr PropsEx.exs)), length (dfs_skip [] (tr PropsEx.exs))) = (15%nat, 14%nat).
Proof. vm_compute. reflexivity. Qed.
(* from the node of a known LRU (it has a right sibling, which is not visited) *)
Definition ex_at (skip : bool) : option (list (bytes * option N)) :=
  match py_trie_lru_node ex_sg IdFacts.ex_pa with
  | Some (sg, Some n) => ex_view (py_trie_dfs_iter sg (Some n) IdFacts.ex_pa skip)
  | _ => None
  end.
Example ex_dfs_at : forall skip, ex_at skip =
  option_map (fun sub => ex_model (dfs_at skip (lru_dirname IdFacts.ex_pa) sub))
             (find_sub (lru_iter IdFacts.ex_pa) (tr PropsEx.exs)).
Proof. intros [|]; vm_compute; reflexivity. Qed.
Example ex_dfs_at_sizes : (option_map (@length _) (ex_at false), option_map (@length _) (ex_at true),
                           length (dfs [] (tr PropsEx.exs))) = (Some 5%nat, Some 4%nat, 15%nat).
Proof. vm_compute. reflexivity. Qed.
Example ex_pages_iter :
  option_map (fun r => map (fun it => (snd it, py_node_is_crawled (fst it))) (fst r)) (py_trie_pages_iter ex_sg)
  = Some (pages_iter PropsEx.exs) /\ length (pages_iter PropsEx.exs) = 4%nat.
Proof. vm_compute. split; reflexivity. Qed.
Example ex_prefix_iter :
  option_map (fun r => map (fun it => (snd it, match py_node_webentity (fst it) with Some w => w | None => 0 end)) (fst r))
             (py_trie_webentity_prefix_iter ex_sg)
  = Some (prefix_iter PropsEx.exs) /\ length (prefix_iter PropsEx.exs) = 9%nat.
Proof. vm_compute. split; reflexivity. Qed.

Print Assumptions py_trie_dfs_iter_root_spec.
Print Assumptions py_trie_dfs_iter_at_spec.
Print Assumptions py_trie_pages_iter_spec.
Print Assumptions py_trie_webentity_prefix_iter_spec.
