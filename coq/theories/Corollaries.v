(* Corollaries.v — explicit corollaries for sentences of C19 (no block of the trie file
   is unreferenced) and C05 (the full-prefix queries of the webentities partition the
   indexed pages that resolve to a webentity). *)
From Coq Require Import List NArith Bool Lia Arith Permutation Sorted.
Import ListNotations.
From Traph Require Import Bytes Consts Helpers Rules Tst TstDefs Traph Traphw Spec Ops RefDefs
  TstFacts TraceDefs TraceFacts StoreFacts StoreFacts2.
Open Scope N_scope.

(* ====================================================================== *)
(* K-C : every block of the trie file belongs to a node of the tree          *)
(* ====================================================================== *)

Lemma number_from_In_nth : forall bs a x b, In (x, b) (number_from a bs) ->
  exists k, x = a + N.of_nat k * bsz /\ nth_error bs k = Some b.
Proof.
  induction bs as [|b0 bs IH]; intros a x b Hin; [destruct Hin|].
  cbn [number_from] in Hin. destruct Hin as [E|Hin].
  - injection E as <- <-. exists 0%nat. split; [change (N.of_nat 0) with 0; lia|reflexivity].
  - destruct (IH _ _ _ Hin) as (k & -> & Hk). exists (S k). split; [lia|exact Hk].
Qed.

(* membership in [placed]: the k-th block of a node of the tree *)
Lemma placed_owner_subt : forall t a b, In (a, b) (placed t) ->
  exists d l c r k, subt (Nd d l c r) t /\ a = addr d + N.of_nat k * bsz /\
    nth_error (node_blocks d (root_addr l) (root_addr r) (root_addr c)) k = Some b.
Proof.
  induction t as [|d l IHl c IHc r IHr]; intros a b Hin; [destruct Hin|].
  cbn [placed] in Hin. rewrite !in_app_iff in Hin.
  destruct Hin as [Hn|[Hc|[Hl|Hr]]].
  - destruct (number_from_In_nth _ _ _ _ Hn) as (k & -> & Hk).
    exists d, l, c, r, k. split; [apply subt_here|]. split; [reflexivity|exact Hk].
  - destruct (IHc _ _ Hc) as (d' & l' & c' & r' & k & Hs & E & Hk).
    exists d', l', c', r', k. split; [apply subt_c; exact Hs|]. split; assumption.
  - destruct (IHl _ _ Hl) as (d' & l' & c' & r' & k & Hs & E & Hk).
    exists d', l', c', r', k. split; [apply subt_l; exact Hs|]. split; assumption.
  - destruct (IHr _ _ Hr) as (d' & l' & c' & r' & k & Hs & E & Hk).
    exists d', l', c', r', k. split; [apply subt_r; exact Hs|]. split; assumption.
Qed.

Lemma tail_blocks_length : forall chs, length (tail_blocks chs) = length chs.
Proof. induction chs as [|c chs IH]; [reflexivity|]. cbn [tail_blocks length]. rewrite IH. reflexivity. Qed.

Lemma node_blocks_length : forall d la ra ca,
  N.of_nat (length (node_blocks d la ra ca)) = nblk (stem d).
Proof.
  intros. unfold node_blocks, nblk. cbn [length]. rewrite tail_blocks_length. lia.
Qed.

Lemma placed_owner : forall t a b, bst t -> In (a, b) (placed t) ->
  exists p d l c r k, find p t = Some d /\ subt (Nd d l c r) t /\
    a = addr d + N.of_nat k * bsz /\
    nth_error (node_blocks d (root_addr l) (root_addr r) (root_addr c)) k = Some b /\
    N.of_nat k < nblk (stem d).
Proof.
  intros t a b Hb Hin.
  destruct (placed_owner_subt _ _ _ Hin) as (d & l & c & r & k & Hs & E & Hk).
  destruct (subt_node_find _ _ _ _ _ Hb Hs) as (p & Hp).
  exists p, d, l, c, r, k. repeat split; try assumption.
  rewrite <- (node_blocks_length d (root_addr l) (root_addr r) (root_addr c)).
  assert (k < length (node_blocks d (root_addr l) (root_addr r) (root_addr c)))%nat
    by (apply nth_error_Some; congruence).
  lia.
Qed.

(* on a state satisfying the invariant: the i-th data block of the file is the k-th block
   of a node reachable by a path *)
Theorem Inv18_block_owner : forall s, Inv18 s -> forall i, (i < N.to_nat (nb s) - 1)%nat ->
  exists b p d l c r k,
    nth_error (ft (files_of s)) i = Some b /\
    find p (tr s) = Some d /\ subt (Nd d l c r) (tr s) /\
    N.of_nat (S i) * bsz = addr d + N.of_nat k * bsz /\
    nth_error (node_blocks d (root_addr l) (root_addr r) (root_addr c)) k = Some b /\
    N.of_nat k < nblk (stem d).
Proof.
  intros s H i Hi.
  pose proof (I_tiled _ H) as Ht.
  rewrite <- (files_of_length s Ht) in Hi.
  destruct (nth_error (ft (files_of s)) i) as [b|] eqn:E; [|apply nth_error_None in E; lia].
  pose proof (proj1 (files_of_nth s Ht i b) E) as Hin.
  destruct (placed_owner _ _ _ (proj1 (I_wf _ H)) Hin) as (p & d & l & c & r & k & Hp & Hs & Ea & Hk & Hlt).
  exists b, p, d, l, c, r, k. repeat split; assumption.
Qed.

Theorem C19_no_unreferenced_block : forall d rs h, Forall wf_op h ->
  let s := run d rs h in
  forall i, (i < N.to_nat (nb s) - 1)%nat ->
  exists p dn k, find p (tr s) = Some dn /\
    N.of_nat (S i) * bsz = addr dn + N.of_nat k * bsz /\ N.of_nat k < nblk (stem dn).
Proof.
  intros d rs h Hh s i Hi.
  destruct (Inv18_block_owner s (run_Inv18 d rs h Hh) i Hi)
    as (b & p & dn & l & c & r & k & _ & Hp & _ & Ea & _ & Hlt).
  exists p, dn, k. repeat split; assumption.
Qed.

(* with the contents of the block *)
Theorem C19_block_contents : forall d rs h, Forall wf_op h ->
  let s := run d rs h in
  forall i, (i < N.to_nat (nb s) - 1)%nat ->
  exists b p dn l c r k,
    nth_error (ft (files_of s)) i = Some b /\
    find_sub p (tr s) = Some (Nd dn l c r) /\
    N.of_nat (S i) * bsz = addr dn + N.of_nat k * bsz /\
    nth_error (node_blocks dn (root_addr l) (root_addr r) (root_addr c)) k = Some b.
Proof.
  intros d rs h Hh s i Hi.
  pose proof (run_Inv18 d rs h Hh) as H. fold s in H.
  destruct (Inv18_block_owner s H i Hi)
    as (b & p & dn & l & c & r & k & Eb & Hp & Hs & Ea & Hk & Hlt).
  destruct (find_subt _ _ _ Hp) as (l' & c' & r' & Hf & Hs').
  (* the subtree found at p carries the same node; addresses identify nodes *)
  exists b, p, dn, l', c', r', k.
  split; [exact Eb|]. split; [exact Hf|]. split; [exact Ea|].
  (* both subtrees rooted at dn place a main block at addr dn: NoDup of addresses *)
  pose proof (tiled_img _ _ (I_tiled _ H)) as (Hnd & _ & _ & _).
  assert (Hm : forall l0 c0 r0, subt (Nd dn l0 c0 r0) (tr s) ->
            In (addr dn, main_block dn (root_addr l0) (root_addr r0) (root_addr c0)) (placed (tr s))).
  { intros l0 c0 r0 Hs0. apply (subt_placed _ _ Hs0). cbn [placed node_blocks number_from app]. left. reflexivity. }
  assert (Em : main_block dn (root_addr l) (root_addr r) (root_addr c)
             = main_block dn (root_addr l') (root_addr r') (root_addr c')).
  { pose proof (Hm _ _ _ Hs) as I1. pose proof (Hm _ _ _ Hs') as I2.
    revert Hnd I1 I2. generalize (placed (tr s)) as P.
    induction P as [|[a0 b0] P IH]; intros Hnd I1 I2; [destruct I1|].
    cbn [map fst] in Hnd. inversion Hnd as [|x xs Hnin Hnd']; subst.
    destruct I1 as [E1|I1]; destruct I2 as [E2|I2].
    - congruence.
    - exfalso. apply Hnin. injection E1 as -> _. apply (in_map fst _ _ I2).
    - exfalso. apply Hnin. injection E2 as -> _. apply (in_map fst _ _ I1).
    - apply IH; assumption. }
  unfold node_blocks in *. rewrite <- Em. exact Hk.
Qed.

Theorem C19_file_length : forall d rs h, Forall wf_op h ->
  let s := run d rs h in
  length (ft (files_of s)) = (N.to_nat (nb s) - 1)%nat.
Proof.
  intros d rs h Hh s. apply files_of_length. apply (I_tiled _ (run_Inv18 d rs h Hh)).
Qed.

(* ====================================================================== *)
(* K-A : the realms of the prefixes of the webentities partition the pages   *)
(* ====================================================================== *)
From Traph Require Import QueryCore QueryCore3 RefFull.

(* ---- stem-prefixes have strictly increasing lengths ----------------------- *)
Definition shorter (x y : bytes) : Prop := (length x < length y)%nat.

Lemma prefixes_from_sorted : forall stems pre, Forall (fun s : bytes => s <> []) stems ->
  StronglySorted shorter (prefixes_from pre stems) /\
  Forall (shorter pre) (prefixes_from pre stems).
Proof.
  induction stems as [|s r IH]; intros pre Hs; [split; constructor|].
  inversion Hs as [|s' r' Hne Hr]; subst. cbn [prefixes_from].
  destruct (IH (pre ++ s) Hr) as [IH1 IH2].
  assert (Hlt : shorter pre (pre ++ s)).
  { unfold shorter. rewrite app_length. destruct s; [congruence|cbn [length]; lia]. }
  split.
  - constructor; assumption.
  - constructor; [exact Hlt|]. eapply Forall_impl; [|exact IH2].
    intros x Hx. unfold shorter in *. lia.
Qed.

Lemma wf_stem_nonempty : forall s, wf_stem s -> s <> [].
Proof. intros s (b & -> & _). destruct b; discriminate. Qed.

Lemma stem_prefixes_sorted : forall l, StronglySorted shorter (stem_prefixes l).
Proof.
  intro l. apply (prefixes_from_sorted (lru_iter l) []).
  eapply Forall_impl; [|apply lru_iter_wf]. apply wf_stem_nonempty.
Qed.

(* ---- the longest attached stem-prefix, as a fold ---------------------------- *)
Definition rstep (pref : list (bytes * N)) (best : option (bytes * N)) (p : bytes) :=
  match aget p pref with Some w => Some (p, w) | None => best end.

Lemma amem_aget : forall (pref : list (bytes * N)) p, amem p pref = true <-> exists w, aget p pref = Some w.
Proof.
  intros pref p. unfold amem. destruct (aget p pref) as [w|]; split; try discriminate; eauto.
  intros (w & H). discriminate.
Qed.

Lemma amem_false_aget : forall (pref : list (bytes * N)) p, amem p pref = false <-> aget p pref = None.
Proof. intros pref p. unfold amem. destruct (aget p pref); split; congruence. Qed.

Lemma rfold_none : forall pref L best, (forall q, In q L -> aget q pref = None) ->
  fold_left (rstep pref) L best = best.
Proof.
  intros pref L. induction L as [|x L IH]; intros best H; [reflexivity|].
  cbn [fold_left]. unfold rstep at 2. rewrite (H x (or_introl eq_refl)).
  apply IH. intros q Hq. apply H. right. exact Hq.
Qed.

Lemma rfold_split : forall pref L p w, fold_left (rstep pref) L None = Some (p, w) ->
  exists L1 L2, L = L1 ++ p :: L2 /\ aget p pref = Some w /\ (forall q, In q L2 -> aget q pref = None).
Proof.
  intros pref L. induction L as [|x L IH] using rev_ind; intros p w H; [discriminate|].
  rewrite fold_left_app in H. cbn [fold_left] in H. unfold rstep at 1 in H.
  destruct (aget x pref) as [w'|] eqn:E.
  - injection H as <- <-. exists L, []. split; [reflexivity|]. split; [exact E|]. intros q [].
  - destruct (IH _ _ H) as (L1 & L2 & -> & Ha & Hn).
    exists L1, (L2 ++ [x]). split; [rewrite <- app_assoc; reflexivity|]. split; [exact Ha|].
    intros q Hq. apply in_app_iff in Hq. destruct Hq as [Hq|[<-|[]]]; auto.
Qed.

Lemma rfold_of_split : forall pref L1 L2 p w, aget p pref = Some w ->
  (forall q, In q L2 -> aget q pref = None) ->
  fold_left (rstep pref) (L1 ++ p :: L2) None = Some (p, w).
Proof.
  intros pref L1 L2 p w Ha Hn. rewrite fold_left_app. cbn [fold_left]. unfold rstep at 2.
  rewrite Ha. apply rfold_none. exact Hn.
Qed.

Lemma sorted_split : forall (L1 L2 : list bytes) p, StronglySorted shorter (L1 ++ p :: L2) ->
  Forall (fun q => shorter q p) L1 /\ Forall (shorter p) L2.
Proof.
  induction L1 as [|x L1 IH]; intros L2 p Hs.
  - cbn [app] in Hs. inversion Hs; subst. split; [constructor|assumption].
  - cbn [app] in Hs. inversion Hs as [|x' l' Hl Hx]; subst.
    destruct (IH _ _ Hl) as [I1 I2]. split; [|exact I2].
    constructor; [|exact I1]. rewrite Forall_forall in Hx. apply Hx. apply in_app_iff. right. left. reflexivity.
Qed.

(* resolving returns p iff l lies in the realm of p and p is attached *)
Theorem resolve_in_realm : forall pref p l,
  (exists w, resolve pref l = Some (p, w)) <-> amem p pref = true /\ in_realm pref p l = true.
Proof.
  intros pref p l. unfold resolve, in_realm, is_stem_prefix. fold (rstep pref).
  pose proof (stem_prefixes_sorted l) as Hs. split.
  - intros (w & H). destruct (rfold_split _ _ _ _ H) as (L1 & L2 & E & Ha & Hn).
    rewrite E in Hs |- *. destruct (sorted_split _ _ _ Hs) as [S1 S2].
    split; [apply amem_aget; eauto|]. apply andb_true_iff. split.
    + apply mem_bytes_In. apply in_app_iff. right. left. reflexivity.
    + apply forallb_forall. intros q Hq. apply in_app_iff in Hq.
      destruct Hq as [Hq|[<-|Hq]].
      * apply orb_true_iff. right. apply Nat.leb_le. rewrite Forall_forall in S1.
        specialize (S1 q Hq). unfold shorter in S1. lia.
      * apply orb_true_iff. right. apply Nat.leb_le. lia.
      * apply orb_true_iff. left. apply negb_true_iff. apply amem_false_aget. apply Hn. exact Hq.
  - intros [Ha Hr]. apply amem_aget in Ha. destruct Ha as (w & Ha).
    apply andb_true_iff in Hr. destruct Hr as [Hin Hall].
    apply mem_bytes_In in Hin. apply in_split in Hin. destruct Hin as (L1 & L2 & E).
    rewrite E in Hs, Hall |- *. destruct (sorted_split _ _ _ Hs) as [S1 S2].
    exists w. apply rfold_of_split; [exact Ha|].
    intros q Hq. rewrite forallb_forall in Hall.
    assert (Hq' : In q (L1 ++ p :: L2)) by (apply in_app_iff; right; right; exact Hq).
    specialize (Hall q Hq'). apply orb_true_iff in Hall. destruct Hall as [Hall|Hall].
    + apply negb_true_iff in Hall. apply amem_false_aget. exact Hall.
    + apply Nat.leb_le in Hall. rewrite Forall_forall in S2. specialize (S2 q Hq).
      unfold shorter in S2. lia.
Qed.

Lemma resolve_aget : forall pref p w l, resolve pref l = Some (p, w) -> aget p pref = Some w.
Proof.
  intros pref p w l H. unfold resolve in H. fold (rstep pref) in H.
  destruct (rfold_split _ _ _ _ H) as (_ & _ & _ & Ha & _). exact Ha.
Qed.

Lemma owner_resolve : forall a l W, W <> 0 ->
  (owner a l = W <-> exists p, resolve (a_pref a) l = Some (p, W)).
Proof.
  intros a l W HW. unfold owner, s_resolve_we.
  destruct (resolve (a_pref a) l) as [[p w]|]; split.
  - intros ->. eauto.
  - intros (p' & E). congruence.
  - congruence.
  - intros (p' & E). discriminate.
Qed.

(* ---- the prefixes of a webentity ------------------------------------------- *)
Definition prefixes_of (W : N) (a : astate) : list bytes :=
  map fst (filter (fun x => snd x =? W) (a_pref a)).

Lemma prefixes_of_In : forall W a p, NoDup (map fst (a_pref a)) ->
  (In p (prefixes_of W a) <-> aget p (a_pref a) = Some W).
Proof.
  intros W a p Hnd. unfold prefixes_of. rewrite in_map_iff. split.
  - intros ([p' w] & E & Hin). cbn [fst] in E. subst p'. apply filter_In in Hin.
    destruct Hin as [Hin Hw]. cbn [snd] in Hw. apply N.eqb_eq in Hw. subst w.
    apply aget_In; assumption.
  - intro H. exists (p, W). split; [reflexivity|]. apply filter_In. split.
    + apply aget_Some_In. exact H.
    + cbn [snd]. apply N.eqb_refl.
Qed.

Lemma NoDup_map_filter : forall (A B : Type) (f : A -> B) (g : A -> bool) l,
  NoDup (map f l) -> NoDup (map f (filter g l)).
Proof.
  intros A B f g l. induction l as [|x l IH]; intro H; [constructor|].
  cbn [map] in H. inversion H as [|y ys Hn Hnd]; subst. cbn [filter].
  destruct (g x); [|apply IH; exact Hnd]. cbn [map]. constructor; [|apply IH; exact Hnd].
  intro Hin. apply Hn. apply in_map_iff in Hin. destruct Hin as (z & E & Hz).
  apply filter_In in Hz. apply in_map_iff. exists z. tauto.
Qed.

Lemma prefixes_of_nodup : forall W a, NoDup (map fst (a_pref a)) -> NoDup (prefixes_of W a).
Proof. intros W a H. apply NoDup_map_filter. exact H. Qed.

Section SpecPartition.
  Variables (a : astate) (W : N) (ps : list bytes).
  Hypothesis Hnd : NoDup (map fst (a_pref a)).
  Hypothesis HW : W <> 0.
  Hypothesis Hps : Permutation ps (prefixes_of W a).

  Lemma ps_In : forall p, In p ps <-> aget p (a_pref a) = Some W.
  Proof.
    intro p. rewrite <- (prefixes_of_In W a p Hnd). split; apply Permutation_in;
      [exact Hps|apply Permutation_sym; exact Hps].
  Qed.

  Lemma ps_nodup : NoDup ps.
  Proof. eapply Permutation_NoDup; [apply Permutation_sym; exact Hps|apply prefixes_of_nodup; exact Hnd]. Qed.

  (* a page is listed under W iff resolving it returns W *)
  Theorem realm_iff_owner : forall l,
    (exists p, In p ps /\ in_realm (a_pref a) p l = true) <-> owner a l = W.
  Proof.
    intro l. rewrite (owner_resolve a l W HW). split.
    - intros (p & Hp & Hr). apply ps_In in Hp.
      assert (Hm : amem p (a_pref a) = true) by (apply amem_aget; eauto).
      destruct (proj2 (resolve_in_realm _ p l) (conj Hm Hr)) as (w & E).
      exists p. rewrite E. apply resolve_aget in E. congruence.
    - intros (p & E). exists p. pose proof (resolve_aget _ _ _ _ E) as Ha.
      split; [apply ps_In; exact Ha|].
      apply (proj1 (resolve_in_realm _ p l)). eauto.
  Qed.

  (* ... under exactly one prefix *)
  Theorem realm_unique : forall l p q, In p ps -> In q ps ->
    in_realm (a_pref a) p l = true -> in_realm (a_pref a) q l = true -> p = q.
  Proof.
    intros l p q Hp Hq Rp Rq. apply ps_In in Hp, Hq.
    assert (Mp : amem p (a_pref a) = true) by (apply amem_aget; eauto).
    assert (Mq : amem q (a_pref a) = true) by (apply amem_aget; eauto).
    destruct (proj2 (resolve_in_realm _ p l) (conj Mp Rp)) as (w1 & E1).
    destruct (proj2 (resolve_in_realm _ q l) (conj Mq Rq)) as (w2 & E2). congruence.
  Qed.
End SpecPartition.

(* ---- filters ---------------------------------------------------------------- *)
Lemma filter_or_perm : forall (A : Type) (f g : A -> bool) l,
  (forall x, In x l -> f x = true -> g x = true -> False) ->
  Permutation (filter f l ++ filter g l) (filter (fun x => f x || g x) l).
Proof.
  intros A f g l. induction l as [|x l IH]; intro H; [apply perm_nil|].
  assert (IH' : Permutation (filter f l ++ filter g l) (filter (fun x => f x || g x) l)).
  { apply IH. intros y Hy. apply H. right. exact Hy. }
  cbn [filter]. destruct (f x) eqn:Ef; destruct (g x) eqn:Eg; cbn [orb app].
  - exfalso. apply (H x (or_introl eq_refl) Ef Eg).
  - apply perm_skip. exact IH'.
  - eapply perm_trans; [apply Permutation_sym, Permutation_middle|]. apply perm_skip. exact IH'.
  - exact IH'.
Qed.

Lemma we_pages_none_ok : forall a ps, (forall p, In p ps -> In p (a_known a)) ->
  s_we_pages None ps a =
  ROk (flat_map (fun p => filter (fun x => in_realm (a_pref a) p (fst x)) (a_pages a)) ps).
Proof.
  intros a ps. induction ps as [|p ps IH]; intro H; [reflexivity|].
  cbn [s_we_pages flat_map].
  assert (Hk : mem_bytes p (a_known a) = true) by (apply mem_bytes_In, H; left; reflexivity).
  rewrite Hk. cbn [negb]. rewrite IH by (intros q Hq; apply H; right; exact Hq).
  f_equal. f_equal. apply filter_ext. intro x. cbn [within_depth]. apply andb_true_r.
Qed.

Lemma flat_realms_perm : forall pref (pages : list (bytes * bool)) ps, NoDup ps ->
  (forall l p q, In p ps -> In q ps -> in_realm pref p l = true -> in_realm pref q l = true -> p = q) ->
  Permutation (flat_map (fun p => filter (fun x => in_realm pref p (fst x)) pages) ps)
              (filter (fun x => existsb (fun p => in_realm pref p (fst x)) ps) pages).
Proof.
  intros pref pages ps. induction ps as [|p ps IH]; intros Hnd Hdis.
  - cbn [flat_map existsb]. induction pages as [|x pages IHp]; [apply perm_nil|exact IHp].
  - inversion Hnd as [|p' ps' Hnin Hnd']; subst. cbn [flat_map existsb].
    eapply perm_trans; [apply Permutation_app_head; apply IH|].
    + exact Hnd'.
    + intros l p1 q1 H1 H2. apply Hdis; right; assumption.
    + apply (filter_or_perm _ (fun x => in_realm pref p (fst x))
                              (fun x => existsb (fun p0 => in_realm pref p0 (fst x)) ps)).
      intros x _ Hf Hg. apply existsb_exists in Hg. destruct Hg as (q & Hq & Hr).
      apply Hnin. rewrite (Hdis (fst x) p q); auto; [left; reflexivity|right; exact Hq].
Qed.

(* the specification's answer for the full prefix list of W: the pages that resolve to W *)
Theorem s_we_pages_partition : forall a W ps, NoDup (map fst (a_pref a)) -> W <> 0 ->
  (forall p w, In (p, w) (a_pref a) -> In p (a_known a)) ->
  Permutation ps (prefixes_of W a) ->
  exists pages, s_we_pages None ps a = ROk pages /\
    Permutation pages (filter (fun x => owner a (fst x) =? W) (a_pages a)).
Proof.
  intros a W ps Hnd HW Hkn Hps.
  eexists. split.
  - apply we_pages_none_ok. intros p Hp. apply (ps_In a W ps Hnd Hps) in Hp.
    apply aget_Some_In in Hp. eapply Hkn; exact Hp.
  - eapply perm_trans.
    + apply flat_realms_perm; [apply (ps_nodup a W ps Hnd Hps)|].
      intros l p q. apply (realm_unique a W ps Hnd Hps).
    + assert (E : forall x : bytes * bool,
                existsb (fun p => in_realm (a_pref a) p (fst x)) ps = (owner a (fst x) =? W)).
      { intro x. apply eq_true_iff_eq. rewrite existsb_exists, N.eqb_eq.
        apply (realm_iff_owner a W ps Hnd HW Hps). }
      rewrite (filter_ext _ _ E). apply Permutation_refl.
Qed.

(* ---- on model states -------------------------------------------------------- *)
Lemma Rcore_pref_known : forall s a, Rcore s a -> forall p w, In (p, w) (a_pref a) -> In p (a_known a).
Proof.
  intros s a HR p w Hin.
  assert (Hp : wf_lru p).
  { pose proof (R_pref_wf s a HR) as F. rewrite Forall_forall in F. apply (F (p, w) Hin). }
  apply (R_known s a HR p Hp). apply (R_pref s a HR p w Hp) in Hin.
  destruct Hin as (d & E & _). congruence.
Qed.

Theorem we_pages_partition : forall s a W ps, Rcore s a -> W <> 0 ->
  Permutation ps (prefixes_of W a) ->
  exists pages, webentity_pages ps s = ROk pages /\
    Permutation pages (filter (fun x => owner a (fst x) =? W) (a_pages a)).
Proof.
  intros s a W ps HR HW Hps.
  destruct (s_we_pages_partition a W ps (R_pref_nodup s a HR) HW (Rcore_pref_known s a HR) Hps)
    as (y & Ey & Py).
  assert (Hwf : Forall wf_lru ps).
  { apply Forall_forall. intros p Hp. apply (ps_In a W ps (R_pref_nodup s a HR) Hps) in Hp.
    apply aget_Some_In in Hp. pose proof (R_pref_wf s a HR) as F. rewrite Forall_forall in F.
    apply (F (p, W) Hp). }
  pose proof (we_pages_spec s a HR ps Hwf) as H. rewrite Ey in H.
  destruct (webentity_pages ps s) as [| |x]; try contradiction.
  exists x. split; [reflexivity|]. eapply perm_trans; eassumption.
Qed.

Theorem C05_partition : forall d rs h W ps, wf_rules rs -> Forall wf_op h -> W <> 0 ->
  let s := run d rs h in let a := srun d rs h in
  Permutation ps (map fst (filter (fun x => snd x =? W) (a_pref a))) ->
  exists pages, webentity_pages ps s = ROk pages /\
    Permutation pages (filter (fun x => owner a (fst x) =? W) (a_pages a)).
Proof.
  intros d rs h W ps H1 H2 HW s a Hps.
  exact (we_pages_partition s a W ps (run_Rc d rs h H1 H2) HW Hps).
Qed.

Definition page_eq_dec : forall x y : bytes * bool, {x = y} + {x <> y}.
Proof. intros x y. decide equality; [apply bool_dec|apply (list_eq_dec N.eq_dec)]. Defined.

(* every indexed page is listed by the full-prefix query of webentity W exactly once if it
   resolves to W and not at all otherwise; in particular a page that resolves to no
   webentity (owner 0) is listed by none, and a page that resolves to a webentity is
   listed by that one only *)
Theorem we_pages_exactly_once : forall s a W ps, Rcore s a -> W <> 0 ->
  Permutation ps (prefixes_of W a) ->
  exists pages, webentity_pages ps s = ROk pages /\ NoDup pages /\
    (forall l c, In (l, c) pages <-> In (l, c) (a_pages a) /\ owner a l = W) /\
    (forall l c, In (l, c) (a_pages a) ->
       count_occ page_eq_dec pages (l, c) = if owner a l =? W then 1%nat else 0%nat).
Proof.
  intros s a W ps HR HW Hps.
  destruct (we_pages_partition s a W ps HR HW Hps) as (pages & E & P).
  exists pages. split; [exact E|].
  assert (Hnd : NoDup pages).
  { eapply Permutation_NoDup; [apply Permutation_sym; exact P|].
    apply NoDup_filter. apply (NoDup_map_inv fst). apply (R_pages_nodup s a HR). }
  assert (Hin : forall l c, In (l, c) pages <-> In (l, c) (a_pages a) /\ owner a l = W).
  { intros l c. split.
    - intro H. apply (Permutation_in _ P) in H. apply filter_In in H. cbn [fst] in H.
      rewrite N.eqb_eq in H. exact H.
    - intro H. apply (Permutation_in _ (Permutation_sym P)). apply filter_In. cbn [fst].
      rewrite N.eqb_eq. exact H. }
  split; [exact Hnd|]. split; [exact Hin|].
  intros l c Hp. destruct (N.eqb_spec (owner a l) W) as [Eo|Eo].
  - apply (proj1 (NoDup_count_occ' page_eq_dec pages) Hnd). apply Hin. auto.
  - apply count_occ_not_In. intro H. apply Hin in H. tauto.
Qed.

Theorem C05_exactly_once : forall d rs h W ps, wf_rules rs -> Forall wf_op h -> W <> 0 ->
  let s := run d rs h in let a := srun d rs h in
  Permutation ps (map fst (filter (fun x => snd x =? W) (a_pref a))) ->
  exists pages, webentity_pages ps s = ROk pages /\ NoDup pages /\
    (forall l c, In (l, c) pages <-> In (l, c) (a_pages a) /\ owner a l = W) /\
    (forall l c, In (l, c) (a_pages a) ->
       count_occ page_eq_dec pages (l, c) = if owner a l =? W then 1%nat else 0%nat).
Proof.
  intros d rs h W ps H1 H2 HW s a Hps.
  exact (we_pages_exactly_once s a W ps (run_Rc d rs h H1 H2) HW Hps).
Qed.

(* the page-level reading: under which prefix *)
Theorem C05_listed_iff_resolves : forall d rs h W ps, wf_rules rs -> Forall wf_op h -> W <> 0 ->
  let a := srun d rs h in
  Permutation ps (map fst (filter (fun x => snd x =? W) (a_pref a))) ->
  forall l, ((exists p, In p ps /\ in_realm (a_pref a) p l = true) <-> owner a l = W) /\
            (forall p q, In p ps -> In q ps -> in_realm (a_pref a) p l = true ->
                         in_realm (a_pref a) q l = true -> p = q).
Proof.
  intros d rs h W ps H1 H2 HW a Hps l.
  pose proof (R_pref_nodup _ _ (run_Rc d rs h H1 H2)) as Hnd. fold a in Hnd.
  split; [apply (realm_iff_owner a W ps Hnd HW Hps)|apply (realm_unique a W ps Hnd Hps)].
Qed.

(* the trie file: one header block and the blocks of the known LRUs *)
Theorem C19_file_blocks : forall d rs h, wf_rules rs -> Forall wf_op h ->
  let s := run d rs h in let a := srun d rs h in
  1 + N.of_nat (length (ft (files_of s))) = s_trie_blocks a /\
  N.of_nat (length (ft (files_of s))) =
    fold_left (fun n p => n + nblk (last (lru_iter p) [])) (a_known a) 0.
Proof.
  intros d rs h H1 H2 s a.
  pose proof (run_Inv18 d rs h H2) as Hi. fold s in Hi.
  pose proof (R_nb _ _ (run_Rc d rs h H1 H2)) as Hn. fold s a in Hn.
  rewrite (files_of_length s (I_tiled _ Hi)). pose proof (I_nb _ Hi) as Hge.
  assert (E : 1 + N.of_nat (N.to_nat (nb s) - 1) = s_trie_blocks a) by lia.
  split; [exact E|]. unfold s_trie_blocks in E |- *. lia.
Qed.

Print Assumptions C19_no_unreferenced_block.
Print Assumptions C19_block_contents.
Print Assumptions C19_file_length.
Print Assumptions C19_file_blocks.
Print Assumptions resolve_in_realm.
Print Assumptions s_we_pages_partition.
Print Assumptions C05_partition.
Print Assumptions C05_exactly_once.
Print Assumptions C05_listed_iff_resolves.
