(* RefFull.v — the full abstraction relation R = Rcore /\ Rlinks is an invariant of
   every history: Rlinks is preserved by every request (the link requests are in
   LinkFacts3; all the others are "tree steps" that keep addresses, heads and pages,
   while the specification keeps a_links and only grows a_pages), hence
   step_R, init_R, run_R. *)
From Coq Require Import List NArith Bool Lia Arith.
Import ListNotations.
From Traph Require Import Bytes Consts Helpers Rules Tst TstDefs Traph Spec Ops RefDefs TstFacts
  ViewFacts ViewFacts2 LinkFacts LinkFacts2 LinkFacts3 RefCore RefCore2 RefCore3 RefCore4 RefCore5
  ReopenFacts.
Open Scope N_scope.

(* ---- the abstract side of a tree step: same links, no fewer pages ---------- *)
Definition amono (a a' : astate) : Prop := a_links a' = a_links a /\ pages_mono a a'.

Lemma amono_refl : forall a, amono a a.
Proof. intro a. split; [reflexivity|apply pages_mono_refl]. Qed.

Lemma amono_trans : forall a b c, amono a b -> amono b c -> amono a c.
Proof.
  intros a b c [E1 M1] [E2 M2]. split; [congruence|apply (pages_mono_trans a b c M1 M2)].
Qed.

Lemma amono_same : forall a a', a_links a' = a_links a -> a_pages a' = a_pages a -> amono a a'.
Proof.
  intros a a' El Ep. split; [exact El|]. intros x [c Hc]. exists c. rewrite Ep. exact Hc.
Qed.

Lemma tree_step_Rlinks : forall s s' a a', Rcore s a -> Rlinks s a -> step_ok s s' ->
  amono a a' -> Rlinks s' a'.
Proof.
  intros s s' a a' HC HL Hstep [El Hm]. apply (step_Rlinks s s' a a' HC HL Hstep El).
  intros x c Hin. apply (Hm x). exists c. exact Hin.
Qed.

(* a step that only touches RAM / the counter *)
Lemma frame_step : forall s s', good s -> tr s' = tr s -> nb s' = nb s -> stubs s' = stubs s ->
  step_ok s s'.
Proof.
  intros s s' (Hwf & Hnb & Hok) Et En Es. split; [|split; [exact Es|split]].
  - unfold good. rewrite Et, En. auto.
  - intros p d Hd. exists d. rewrite Et. auto.
  - intros p d Hd. left. exists d. rewrite Et in Hd. auto.
Qed.

(* ---- s_add_page and its folds ---------------------------------------------- *)
Lemma s_add_page_amono : forall l cr a, amono a (fst (fst (s_add_page l cr a))).
Proof. intros l cr a. split; [apply s_add_page_links|apply s_add_page_mono]. Qed.

Definition pfoldM (cr : bool) := fun '(s, n, c) (l : bytes) =>
  let '(s', n', c') := add_page_int l cr s in (s', (n : N) + n', (c : list (N * list bytes)) ++ c').
Definition pfoldA (cr : bool) := fun '(a, n, c) (l : bytes) =>
  let '(a', n', c') := s_add_page l cr a in (a', (n : N) + n', (c : list (N * list bytes)) ++ c').

Lemma pfoldM_step : forall ls cr s n c, good s ->
  step_ok s (fst (fst (fold_left (pfoldM cr) ls (s, n, c)))).
Proof.
  induction ls as [|l ls IH]; intros cr s n c Hg.
  - cbn [fold_left fst]. apply step_refl. exact Hg.
  - cbn [fold_left]. unfold pfoldM at 2.
    pose proof (add_page_int_step l cr s Hg) as H1.
    destruct (add_page_int l cr s) as [[s' n'] c']. cbn [fst] in H1.
    apply (step_trans _ _ _ H1). apply IH. apply (step_good _ _ H1).
Qed.

Lemma pfoldA_amono : forall ls cr a n c,
  amono a (fst (fst (fold_left (pfoldA cr) ls (a, n, c)))).
Proof.
  induction ls as [|l ls IH]; intros cr a n c.
  - cbn [fold_left fst]. apply amono_refl.
  - cbn [fold_left]. unfold pfoldA at 2.
    pose proof (s_add_page_amono l cr a) as H1.
    destruct (s_add_page l cr a) as [[a' n'] c']. cbn [fst] in H1.
    apply (amono_trans _ _ _ H1). apply IH.
Qed.

(* ---- add_page / add_pages --------------------------------------------------- *)
Theorem add_page_Rlinks : forall l cr s a, Rcore s a -> Rlinks s a ->
  Rlinks (fst (add_page l cr s)) (fst (rep3 (s_add_page l cr a))).
Proof.
  intros l cr s a HC HL. pose proof (add_page_int_Rlinks l cr s a HC HL) as H.
  unfold add_page, rep3.
  destruct (add_page_int l cr s) as [[s1 n] c]. destruct (s_add_page l cr a) as [[a1 n'] c'].
  exact H.
Qed.

Theorem add_pages_Rlinks : forall ls cr s a, Rcore s a -> Rlinks s a ->
  Rlinks (fst (add_pages ls cr s)) (fst (rep3 (s_add_pages ls cr a))).
Proof.
  intros ls cr s a HC HL.
  pose proof (pfoldM_step ls cr s 0 [] (R_good s a HC HL)) as H1.
  pose proof (pfoldA_amono ls cr a 0 []) as H2.
  unfold add_pages, s_add_pages, rep3. fold (pfoldM cr). fold (pfoldA cr).
  destruct (fold_left (pfoldM cr) ls (s, 0, [])) as [[s1 n] c].
  destruct (fold_left (pfoldA cr) ls (a, 0, [])) as [[a1 n'] c'].
  cbn [fst] in *. apply (tree_step_Rlinks s s1 a a1 HC HL H1 H2).
Qed.

(* ---- webentities and prefixes ------------------------------------------------ *)
Lemma create_webentity_step : forall ps s, good s -> step_ok s (fst (create_webentity ps s)).
Proof.
  intros ps s Hg. unfold create_webentity.
  pose proof (add_prefixes_step ps false s Hg) as H.
  destruct (add_prefixes ps false s) as [s1 [| |w v]]; exact H.
Qed.

Lemma s_create_amono : forall ps a, amono a (fst (s_create ps a)).
Proof.
  intros ps a. unfold s_create.
  destruct (existsb (fun p => amem p (a_pref a)) ps); [apply amono_same; reflexivity|].
  destruct ps; apply amono_same; reflexivity.
Qed.

Theorem create_webentity_Rlinks : forall ps s a, Rcore s a -> Rlinks s a ->
  Rlinks (fst (create_webentity ps s)) (fst (s_create ps a)).
Proof.
  intros ps s a HC HL. apply (tree_step_Rlinks s _ a _ HC HL).
  - apply create_webentity_step. apply (R_good s a HC HL).
  - apply s_create_amono.
Qed.

Lemma delete_webentity_step : forall w ps s, good s -> step_ok s (fst (delete_webentity w ps s)).
Proof.
  intros w ps s Hg. unfold delete_webentity.
  destruct (forallb _ ps); cbn [fst]; [|apply step_refl; exact Hg].
  apply (set_we_all_step 0 (dedup_bytes ps []) s _ Hg); reflexivity.
Qed.

Lemma s_delete_amono : forall w ps a, amono a (fst (s_delete w ps a)).
Proof.
  intros w ps a. unfold s_delete. destruct (forallb _ ps); apply amono_same; reflexivity.
Qed.

Theorem delete_webentity_Rlinks : forall w ps s a, Rcore s a -> Rlinks s a ->
  Rlinks (fst (delete_webentity w ps s)) (fst (s_delete w ps a)).
Proof.
  intros w ps s a HC HL. apply (tree_step_Rlinks s _ a _ HC HL).
  - apply delete_webentity_step. apply (R_good s a HC HL).
  - apply s_delete_amono.
Qed.

Lemma add_prefix_step : forall p w s, good s -> step_ok s (fst (add_prefix p w s)).
Proof.
  intros p w s Hg. unfold add_prefix.
  pose proof (add_lru_step true p s Hg) as H1.
  destruct (add_lru true p s) as [s1 h]. cbn [fst] in H1.
  destruct (find (lru_iter p) (tr s1)) as [d|]; [|exact H1].
  destruct (we d =? 0); cbn [fst]; [|exact H1].
  apply (step_trans _ _ _ H1). apply set_tree_upd_step; [apply neutral_set_we|apply (step_good _ _ H1)].
Qed.

Lemma s_add_prefix_amono : forall p w a, amono a (fst (s_add_prefix p w a)).
Proof.
  intros p w a. unfold s_add_prefix. destruct (amem p (a_pref a)); apply amono_same; reflexivity.
Qed.

Theorem add_prefix_Rlinks : forall p w s a, Rcore s a -> Rlinks s a ->
  Rlinks (fst (add_prefix p w s)) (fst (s_add_prefix p w a)).
Proof.
  intros p w s a HC HL. apply (tree_step_Rlinks s _ a _ HC HL).
  - apply add_prefix_step. apply (R_good s a HC HL).
  - apply s_add_prefix_amono.
Qed.

Lemma remove_prefix_step : forall p w s, good s -> step_ok s (fst (remove_prefix p w s)).
Proof.
  intros p w s Hg. unfold remove_prefix.
  pose proof (add_lru_step false p s Hg) as H1.
  destruct (add_lru false p s) as [s1 h]. cbn [fst] in H1.
  destruct (find (lru_iter p) (tr s1)) as [d|]; [|exact H1].
  destruct ((w =? 0) || (negb (we d =? 0) && (we d =? w))); cbn [fst]; [|exact H1].
  apply (step_trans _ _ _ H1). apply set_tree_upd_step; [apply neutral_set_we|apply (step_good _ _ H1)].
Qed.

Lemma s_remove_prefix_amono : forall p w a, amono a (fst (s_remove_prefix p w a)).
Proof.
  intros p w a. unfold s_remove_prefix.
  destruct ((w =? 0) || _); apply amono_same; reflexivity.
Qed.

Theorem remove_prefix_Rlinks : forall p w s a, Rcore s a -> Rlinks s a ->
  Rlinks (fst (remove_prefix p w s)) (fst (s_remove_prefix p w a)).
Proof.
  intros p w s a HC HL. apply (tree_step_Rlinks s _ a _ HC HL).
  - apply remove_prefix_step. apply (R_good s a HC HL).
  - apply s_remove_prefix_amono.
Qed.

Lemma move_prefix_step : forall p wt ws s, good s -> step_ok s (fst (move_prefix p wt ws s)).
Proof.
  intros p wt ws s Hg. unfold move_prefix.
  pose proof (remove_prefix_step p ws s Hg) as H1.
  destruct (remove_prefix p ws s) as [s1 r]. cbn [fst] in H1.
  destruct r; try exact H1.
  apply (step_trans _ _ _ H1). apply add_prefix_step. apply (step_good _ _ H1).
Qed.

Lemma s_move_prefix_amono : forall p wt ws a, amono a (fst (s_move_prefix p wt ws a)).
Proof.
  intros p wt ws a. unfold s_move_prefix.
  pose proof (s_remove_prefix_amono p ws a) as H1.
  destruct (s_remove_prefix p ws a) as [a1 r]. cbn [fst] in H1.
  destruct r; try exact H1.
  apply (amono_trans _ _ _ H1). apply s_add_prefix_amono.
Qed.

Theorem move_prefix_Rlinks : forall p wt ws s a, Rcore s a -> Rlinks s a ->
  Rlinks (fst (move_prefix p wt ws s)) (fst (s_move_prefix p wt ws a)).
Proof.
  intros p wt ws s a HC HL. apply (tree_step_Rlinks s _ a _ HC HL).
  - apply move_prefix_step. apply (R_good s a HC HL).
  - apply s_move_prefix_amono.
Qed.

(* ---- creation rules ----------------------------------------------------------- *)
Lemma add_rule_step : forall p k w s, good s -> step_ok s (fst (add_rule p k w s)).
Proof.
  intros p k w s Hg. unfold add_rule.
  set (s0 := mkT (tr s) (nb s) (lastwe s) (stubs s) (aset p k (rules s)) (dflt s)).
  assert (H0 : step_ok s s0) by (apply frame_step; [exact Hg|reflexivity..]).
  destruct w; cbn [negb fst]; [|exact H0].
  pose proof (add_lru_step false p s0 (step_good _ _ H0)) as H1.
  destruct (add_lru false p s0) as [s1 h]. cbn [fst] in H1.
  pose proof (step_trans _ _ _ H0 H1) as H01.
  set (s2 := set_tree (upd (set_rule true) (lru_iter p) (tr s1)) s1).
  assert (H2 : step_ok s1 s2)
    by (apply set_tree_upd_step; [apply neutral_set_rule|apply (step_good _ _ H1)]).
  pose proof (step_trans _ _ _ H01 H2) as H02.
  pose proof (pfoldM_step (pages_under p s2) false s2 0 [] (step_good _ _ H2)) as H3.
  fold (pfoldM false).
  destruct (fold_left (pfoldM false) (pages_under p s2) (s2, 0, [])) as [[s3 n] c].
  cbn [fst] in *. apply (step_trans _ _ _ H02 H3).
Qed.

Lemma s_add_rule_amono : forall p k w order a, amono a (fst (s_add_rule p k w order a)).
Proof.
  intros p k w order a. unfold s_add_rule.
  destruct w; cbn [negb fst]; [|apply amono_same; reflexivity].
  unfold s_add_pages. fold (pfoldA false).
  match goal with |- context [fold_left (pfoldA false) order (?a1, 0, [])] =>
    pose proof (pfoldA_amono order false a1 0 []) as H;
    destruct (fold_left (pfoldA false) order (a1, 0, [])) as [[a2 n] c] end.
  cbn [fst] in *. apply (amono_trans _ _ _ (amono_same a _ eq_refl eq_refl) H).
Qed.

Theorem add_rule_Rlinks : forall p k w order s a, Rcore s a -> Rlinks s a ->
  Rlinks (fst (add_rule p k w s)) (fst (s_add_rule p k w order a)).
Proof.
  intros p k w order s a HC HL. apply (tree_step_Rlinks s _ a _ HC HL).
  - apply add_rule_step. apply (R_good s a HC HL).
  - apply s_add_rule_amono.
Qed.

Lemma remove_rule_step : forall p s, good s -> step_ok s (fst (remove_rule p s)).
Proof.
  intros p s Hg. unfold remove_rule.
  destruct (aget p (rules s)) as [k|]; cbn [fst]; [|apply step_refl; exact Hg].
  set (s0 := mkT (tr s) (nb s) (lastwe s) (stubs s) (adel p (rules s)) (dflt s)).
  assert (H0 : step_ok s s0) by (apply frame_step; [exact Hg|reflexivity..]).
  destruct (find (lru_iter p) (tr s0)) as [d|]; cbn [fst]; [|exact H0].
  apply (step_trans _ _ _ H0).
  apply set_tree_upd_step; [apply neutral_set_rule|apply (step_good _ _ H0)].
Qed.

Lemma s_remove_rule_amono : forall p a, amono a (fst (s_remove_rule p a)).
Proof.
  intros p a. unfold s_remove_rule.
  destruct (aget p (a_rules a)); [|apply amono_refl].
  destruct (mem_bytes p (a_known a)); apply amono_same; reflexivity.
Qed.

Theorem remove_rule_Rlinks : forall p s a, Rcore s a -> Rlinks s a ->
  Rlinks (fst (remove_rule p s)) (fst (s_remove_rule p a)).
Proof.
  intros p s a HC HL. apply (tree_step_Rlinks s _ a _ HC HL).
  - apply remove_rule_step. apply (R_good s a HC HL).
  - apply s_remove_rule_amono.
Qed.

(* ---- install_rules, init, reopen, clear --------------------------------------- *)
Lemma install_rules_step : forall rs w s, good s -> step_ok s (install_rules rs w s).
Proof.
  unfold install_rules. induction rs as [|[p k] rs IH]; intros w s Hg.
  - apply step_refl. exact Hg.
  - cbn [fold_left]. pose proof (add_rule_step p k w s Hg) as H1.
    apply (step_trans _ _ _ H1). apply IH. apply (step_good _ _ H1).
Qed.

Lemma s_install_amono : forall rs w a, amono a (s_install rs w a).
Proof.
  unfold s_install. induction rs as [|[p k] rs IH]; intros w a.
  - apply amono_refl.
  - cbn [fold_left]. apply (amono_trans _ _ _ (s_add_rule_amono p k w [] a)). apply IH.
Qed.

Theorem install_rules_Rlinks : forall rs w s a, Rcore s a -> Rlinks s a ->
  Rlinks (install_rules rs w s) (s_install rs w a).
Proof.
  intros rs w s a HC HL. apply (tree_step_Rlinks s _ a _ HC HL).
  - apply install_rules_step. apply (R_good s a HC HL).
  - apply s_install_amono.
Qed.

Lemma Rlinks_empty : forall rs d, Rlinks (mkT Lf 1 0 [] rs d) (mkA [] [] [] [] 0 [] rs d).
Proof.
  intros rs d. constructor; cbn [tr nb stubs a_links a_pages].
  - split.
    + intros p d0 H. rewrite find_Lf in H. discriminate.
    + intros p q d0 d1 H. rewrite find_Lf in H. discriminate.
  - intros i tg pv H. destruct i; discriminate.
  - intros p d0 H. rewrite find_Lf in H. discriminate.
  - intros i tg pv H. destruct i; discriminate.
  - intros l d0 _ H. unfold nodeof in H. cbn [tr] in H. rewrite find_Lf in H. discriminate.
  - intros l d0 _ H. unfold nodeof in H. cbn [tr] in H. rewrite find_Lf in H. discriminate.
  - intros x y [].
  - reflexivity.
Qed.

Theorem init_Rlinks : forall d rs, wf_rules rs -> Rlinks (init d rs) (s_init d rs).
Proof.
  intros d rs _. unfold init, s_init, a0.
  apply install_rules_Rlinks; [apply Rcore_empty|apply Rlinks_empty].
Qed.

Theorem reopen_Rlinks : forall d rs s a, Rcore s a -> Rlinks s a ->
  Rlinks (reopen d rs s) (s_reopen d rs a).
Proof.
  intros d rs s a HC HL. apply (tree_step_Rlinks s _ a _ HC HL).
  - destruct (reopen_persistent d rs s) as (Et & En & _ & Es).
    apply frame_step; [apply (R_good s a HC HL)|assumption..].
  - unfold s_reopen.
    apply (amono_trans a (mkA (a_pages a) (a_known a) (a_pref a) (a_links a) (a_last a) (a_flags a) [] d)).
    + apply amono_same; reflexivity.
    + apply s_install_amono.
Qed.

Theorem clear_Rlinks : forall od ors s a, Rcore s a ->
  Rlinks (clear od ors s) (s_clear od ors a).
Proof.
  intros od ors s a HC. unfold clear, s_clear.
  rewrite (R_dflt s a HC), (R_rules s a HC). destruct ors as [rs|].
  - unfold a0. apply install_rules_Rlinks; [apply Rcore_empty|apply Rlinks_empty].
  - apply Rlinks_empty.
Qed.

(* ====================================================================== *)
(* one request, whole histories                                           *)
(* ====================================================================== *)
Theorem step_Rlinks_all : forall s a o, Rcore s a -> Rlinks s a -> wf_op o ->
  Rlinks (fst (step s o)) (fst (sstep s a o)).
Proof.
  intros s a o HC HL Hwf. destruct o; cbn [step sstep fst].
  - apply add_page_Rlinks; assumption.
  - apply add_pages_Rlinks; assumption.
  - apply add_links_Rlinks; assumption.
  - apply batch_crawl_Rlinks; assumption.
  - apply create_webentity_Rlinks; assumption.
  - apply delete_webentity_Rlinks; assumption.
  - apply add_prefix_Rlinks; assumption.
  - apply remove_prefix_Rlinks; assumption.
  - apply move_prefix_Rlinks; assumption.
  - apply add_rule_Rlinks; assumption.
  - apply remove_rule_Rlinks; assumption.
  - apply reopen_Rlinks; assumption.
  - apply clear_Rlinks; assumption.
Qed.

Theorem step_R : forall s a o, R s a -> wf_op o ->
  R (fst (step s o)) (fst (sstep s a o)) /\ snd (step s o) = snd (sstep s a o).
Proof.
  intros s a o [HC HL] Hwf. destruct (step_Rcore s a o HC Hwf) as [H1 H2].
  split; [split; [exact H1|apply step_Rlinks_all; assumption]|exact H2].
Qed.

Theorem init_R : forall d rs, wf_rules rs -> R (init d rs) (s_init d rs).
Proof. intros d rs H. split; [apply init_Rcore|apply init_Rlinks]; exact H. Qed.

Lemma run2_R : forall h s a, R s a -> Forall wf_op h ->
  R (fst (fst (run2 h s a))) (snd (fst (run2 h s a))) /\
  Forall (fun p => fst p = snd p) (snd (run2 h s a)).
Proof.
  induction h as [|o h IH]; intros s a HR Hh.
  - cbn [run2 fst snd]. split; [exact HR|constructor].
  - inversion Hh as [|? ? Ho Hh']; subst. cbn [run2].
    pose proof (step_R s a o HR Ho) as (H1 & H2).
    destruct (step s o) as [s1 r]. destruct (sstep s a o) as [a1 r']. cbn [fst snd] in H1, H2.
    specialize (IH s1 a1 H1 Hh').
    destruct (run2 h s1 a1) as [[s2 a2] rs]. cbn [fst snd] in *.
    destruct IH as (I1 & I2). split; [exact I1|]. constructor; [exact H2|exact I2].
Qed.

Theorem run_R : forall d rs h, wf_rules rs -> Forall wf_op h ->
  R (run d rs h) (srun d rs h) /\ Forall (fun p => fst p = snd p) (replies d rs h).
Proof.
  intros d rs h Hrs Hh. unfold run, srun, replies.
  apply run2_R; [apply init_R; exact Hrs|exact Hh].
Qed.

(* handy projections for the property files *)
Lemma run_Rc : forall d rs h, wf_rules rs -> Forall wf_op h -> Rcore (run d rs h) (srun d rs h).
Proof. intros d rs h H1 H2. apply (run_R d rs h H1 H2). Qed.
Lemma run_Rl : forall d rs h, wf_rules rs -> Forall wf_op h -> Rlinks (run d rs h) (srun d rs h).
Proof. intros d rs h H1 H2. apply (run_R d rs h H1 H2). Qed.
Lemma run_RR : forall d rs h, wf_rules rs -> Forall wf_op h -> R (run d rs h) (srun d rs h).
Proof. intros d rs h H1 H2. apply (run_R d rs h H1 H2). Qed.
Lemma run_replies : forall d rs h, wf_rules rs -> Forall wf_op h ->
  Forall (fun p => fst p = snd p) (replies d rs h).
Proof. intros d rs h H1 H2. apply (run_R d rs h H1 H2). Qed.
Lemma run_wf : forall d rs h, wf_rules rs -> Forall wf_op h -> wf_tst (tr (run d rs h)).
Proof. intros d rs h H1 H2. apply (R_wf _ _ (run_Rc d rs h H1 H2)). Qed.

Print Assumptions step_R.
Print Assumptions init_R.
Print Assumptions run_R.
