(* GenTraphIFacts.v — opening and clearing an index (GenTraphI.v: the end of Traph.__init__, Traph.clear and the link store's
   header object LinkStoreHeader, translated from the source on every run) against the model (Traph.init / reopen / clear).
     1. py_lhdr_init_reopen / py_lhdr_init_fresh : the link header object (the trie header's code with 16-byte blocks);
     2. py_traph_init_fresh   : a new index = Traph.init;
     3. py_traph_reopen_spec  : opening existing files = Traph.reopen, nothing written;
     4. py_traph_clear_spec   : Traph.clear.
   2 and 4 install rules in the trie: they are proved in a Section whose single hypothesis is the theorem that the translated
   add_webentity_creation_rule equals Traph.add_rule (GenTraphZFacts.v); closing the section turns them into implications. *)
From Coq Require Import List NArith Bool Lia Arith.
Import ListNotations.
From Traph Require Import Bytes Consts Layout Helpers Rules Tst TstDefs Traph Traphw TraceDefs Codec CodecFacts Ops
  ViewFacts IdFacts TraceFacts6 AnchorsFacts
  GenStorage GenNode GenLinks GenLinksFacts GenTrie GenTrieFacts GenTrieW GenTraphW GenTraphWDefs GenTraphWInit
  GenTraphP GenTraphPDefs GenTraphPFacts1 GenTraphBFacts GenTraphZ GenTraphI.
From Traph Require PropsEx GenTraphKFacts.
Open Scope N_scope.

Arguments N.add : simpl never.
Arguments N.ltb : simpl never.
Arguments N.mul : simpl never.
Arguments N.pow : simpl never.

(* ====================================================================================== *)
(* 1. the link store's header object                                                      *)
(* ====================================================================================== *)
Lemma lrep_read_header : forall st sg, lrep st sg ->
  py_pm_read sg (Some 0) = (mk_pm 16 (pm_array sg) 16, Some encode_link_header).
Proof.
  intros st sg [Hb Ha]. unfold py_pm_read. rewrite Hb. change py_stub_block_size with 16. change (0 + 16) with 16.
  cbn [pm_block_size pm_array]. f_equal.
  unfold GenStorage.py_slice. change (N.to_nat (16 - 0)) with 16%nat. change (N.to_nat 0) with 0%nat. cbn [skipn].
  rewrite Ha, firstn_app, link_header_length. change (16 - 16)%nat with 0%nat. cbn [firstn]. rewrite app_nil_r.
  reflexivity.
Qed.

Lemma unpack_link_header : unpack link_header_format encode_link_header = [VBytes version_bytes].
Proof. vm_compute. reflexivity. Qed.

(* the file of an existing link store: the header object is built, no byte changes *)
Theorem py_lhdr_init_reopen : forall st sgl, lrep st sgl ->
  exists lhd sgl', py_lhdr_init sgl = Some (lhd, sgl') /\ th_data lhd = [VBytes version_bytes] /\
    pm_array sgl' = pm_array sgl /\ lrep st sgl'.
Proof.
  intros st sgl Hl. pose proof (lrep_read_header st sgl Hl) as Hr.
  set (sg1 := mk_pm 16 (pm_array sgl) 16).
  assert (Hl1 : lrep st sg1) by (destruct Hl as [Hb Ha]; split; [reflexivity|exact Ha]).
  assert (E : forall hd, py_lhdr_ensure hd sgl = Some (hd, sg1)).
  { intro hd. unfold py_lhdr_ensure. cbv zeta.
    change (N.ltb 0 link_header_blocks) with true. cbn iota. rewrite Hr. cbn beta iota.
    change (py_nonempty encode_link_header) with true. cbn iota. cbn [pm_block_size]. change (0 + 16) with 16.
    destruct (length (pm_array sgl)); [reflexivity|].
    change (N.ltb 16 link_header_blocks) with false. reflexivity. }
  unfold py_lhdr_init. cbv zeta. rewrite E. unfold py_lhdr_read.
  rewrite (lrep_read_header st sg1 Hl1). rewrite unpack_link_header.
  eexists _, _. split; [reflexivity|]. split; [reflexivity|]. split; [reflexivity|exact Hl1].
Qed.

(* a new file: exactly the header block is written *)
Theorem py_lhdr_init_fresh : forall c,
  exists lhd sgl', py_lhdr_init (mk_pm 16 [] c) = Some (lhd, sgl') /\ th_data lhd = [VBytes version_bytes] /\
    pm_array sgl' = encode_link_header /\ lrep [] sgl'.
Proof.
  intro c. eexists _, _. split; [vm_compute; reflexivity|]. split; [reflexivity|]. split; [reflexivity|].
  split; reflexivity.
Qed.

(* the trie header on a new file, whatever the cursor *)
Lemma py_thdr_init_fresh_c : forall c,
  exists hd sg', py_thdr_init (mk_pm 128 [] c) = Some (hd, sg') /\
    pm_block_size sg' = 128 /\ pm_array sg' = encode_trie_header 0 /\ th_data hd = [VNum 0; VBytes version_bytes].
Proof.
  intro c. eexists _, _. split; [vm_compute; reflexivity|]. split; [reflexivity|]. split; vm_compute; reflexivity.
Qed.

(* ====================================================================================== *)
(* 2. the model side: sizes and stubs along the installation of rules                     *)
(* ====================================================================================== *)
Lemma py_rules_set_aset : forall k v d, py_rules_set k v d = aset k v d.
Proof.
  intros k v d. induction d as [|[k' v'] d IH]; [reflexivity|].
  cbn [py_rules_set aset]. rewrite IH. reflexivity.
Qed.

Lemma add_rule_true_mono : forall p k s,
  nb s <= nb (fst (add_rule p k true s)) /\ lastwe s <= lastwe (fst (add_rule p k true s)) /\
  stubs (fst (add_rule p k true s)) = stubs s.
Proof.
  intros p k s. split; [|split].
  - unfold add_rule. cbn [negb].
    set (s0 := mkT (tr s) (nb s) (lastwe s) (stubs s) (aset p k (rules s)) (dflt s)).
    pose proof (add_lru_nb_mono false p s0) as H1. destruct (add_lru false p s0) as [s1 h1]. cbn [fst] in H1.
    set (s2 := set_tree (upd (set_rule true) (lru_iter p) (tr s1)) s1).
    change (fun '(s, n, c) l => let '(s', n', c') := add_page_int l false s in (s', n + n', c ++ c'))
      with (pages_fold false).
    assert (G : nb s <= nb (fst (fst (fold_left (pages_fold false) (pages_under p s2) (s2, 0, []))))).
    { apply (fold_left_inv _ _ (fun acc : traph * N * list (N * list bytes) => nb s <= nb (fst (fst acc)))).
      - cbn [fst]. exact H1.
      - intros [[sa na] ca] l Ha. cbn [fst] in Ha. unfold pages_fold.
        pose proof (add_page_int_nb_mono l false sa) as H2.
        destruct (add_page_int l false sa) as [[s' n'] c']. cbn [fst] in *. lia. }
    destruct (fold_left (pages_fold false) (pages_under p s2) (s2, 0, [])) as [[s3 n3] c3]. exact G.
  - destruct (add_rule p k true s) as [s' r] eqn:E. cbn [fst].
    destruct (add_rule_ids p k true s s' r E) as [H1 H2]. rewrite H2. apply increasing_from_last_le. exact H1.
  - unfold add_rule. cbn [negb].
    set (s0 := mkT (tr s) (nb s) (lastwe s) (stubs s) (aset p k (rules s)) (dflt s)).
    pose proof (add_lru_fields false p s0) as (_ & H1 & _). destruct (add_lru false p s0) as [s1 h1]. cbn [fst] in H1.
    set (s2 := set_tree (upd (set_rule true) (lru_iter p) (tr s1)) s1).
    change (fun '(s, n, c) l => let '(s', n', c') := add_page_int l false s in (s', n + n', c ++ c'))
      with (pages_fold false).
    assert (G : stubs (fst (fst (fold_left (pages_fold false) (pages_under p s2) (s2, 0, [])))) = stubs s).
    { apply (fold_left_inv _ _ (fun acc : traph * N * list (N * list bytes) => stubs (fst (fst acc)) = stubs s)).
      - cbn [fst]. exact H1.
      - intros [[sa na] ca] l Ha. cbn [fst] in Ha. unfold pages_fold.
        pose proof (add_page_int_stubs_eq l false sa) as H2.
        destruct (add_page_int l false sa) as [[s' n'] c']. cbn [fst] in *. congruence. }
    destruct (fold_left (pages_fold false) (pages_under p s2) (s2, 0, [])) as [[s3 n3] c3]. exact G.
Qed.

Lemma install_true_mono : forall rs s,
  nb s <= nb (install_rules rs true s) /\ lastwe s <= lastwe (install_rules rs true s) /\
  stubs (install_rules rs true s) = stubs s.
Proof.
  induction rs as [|[p k] rs IH]; intro s; [unfold install_rules; cbn [fold_left]; split; [lia|split; [lia|reflexivity]]|].
  rewrite install_rules_cons. destruct (IH (fst (add_rule p k true s))) as (H1 & H2 & H3).
  destruct (add_rule_true_mono p k s) as (G1 & G2 & G3). split; [lia|]. split; [lia|congruence].
Qed.

Lemma install_rules_app : forall l1 l2 w s, install_rules (l1 ++ l2) w s = install_rules l2 w (install_rules l1 w s).
Proof. intros. unfold install_rules. apply fold_left_app. Qed.

Lemma init_app : forall d l1 l2, init d (l1 ++ l2) = install_rules l2 true (init d l1).
Proof. intros. unfold init. apply install_rules_app. Qed.

Lemma init_snoc : forall d l1 p k, init d (l1 ++ [(p, k)]) = fst (add_rule p k true (init d l1)).
Proof. intros. rewrite init_app. reflexivity. Qed.

Lemma run_nil : forall d rs, run d rs [] = init d rs.
Proof. reflexivity. Qed.

Lemma NoDup_app_l : forall (A : Type) (l1 l2 : list A), NoDup (l1 ++ l2) -> NoDup l1.
Proof.
  intros A l1 l2. induction l1 as [|a l1 IH]; intro H; [constructor|].
  cbn [app] in H. inversion H as [|x xs Hn Hd]; subst. constructor; [|exact (IH Hd)].
  intro Hin. apply Hn. apply in_or_app. left. exact Hin.
Qed.

Lemma wf_rules_app_l : forall l1 l2, wf_rules (l1 ++ l2) -> wf_rules l1.
Proof.
  intros l1 l2 [H1 H2]. split.
  - apply Forall_app in H1. exact (proj1 H1).
  - rewrite map_app in H2. exact (NoDup_app_l _ _ _ H2).
Qed.

Lemma init_stubs : forall d rs, stubs (init d rs) = [].
Proof. intros. unfold init. destruct (install_true_mono rs (mkT Lf 1 0 [] [] d)) as (_ & _ & H). exact H. Qed.

(* the empty index: header block only *)
Lemma hrep_empty : forall rl d hd sg, pm_block_size sg = 128 -> pm_array sg = encode_trie_header 0 ->
  th_data hd = [VNum 0; VBytes version_bytes] -> hrep (mkT Lf 1 0 [] rl d) hd sg.
Proof.
  intros rl d hd sg Hb Ha Hd. split; [|split; [exact Hd|]].
  - split; [exact Hb|]. split; [|constructor].
    exists (encode_trie_header 0). cbn [files_of ft tr flatten map flat_map]. rewrite app_nil_r. split; [exact Ha|apply header_len].
  - rewrite Ha. cbn [lastwe]. apply firstn_all2. rewrite header_len. lia.
Qed.

(* the loop `for prefix, pattern in webentity_creation_rules.items(): self.add_webentity_creation_rule(..)`, named *)
Definition rules_loop (f : nat) (create : bool) (rs : list (bytes * rulekind)) (st : option (py_ram * py_thdr * py_pm)) :=
  fold_left (fun (st : option (py_ram * py_thdr * py_pm)) (v__kv : (bytes * rulekind)) =>
   match st with
   | None => None
   | Some (rm, hd, sg) =>
     let '(v_prefix, v_pattern) := v__kv in
     match py_traph_add_webentity_creation_rule f rm hd sg v_prefix v_pattern create with
     | None => None
     | Some (rm, hd, sg, _) => Some (rm, hd, sg) end end) rs st.

Lemma init_tail_eq : forall f sg sgl d rs create, py_traph_init_tail f sg sgl d rs create =
  match py_thdr_init sg with
  | None => None
  | Some (hd, sg) =>
    match py_lhdr_init sgl with
    | None => None
    | Some (lhd, sgl) =>
      match rules_loop f create rs (Some (mk_ram [] d, hd, sg)) with
      | None => None
      | Some (rm, hd, sg) => Some (rm, hd, lhd, sg, sgl) end end end.
Proof. reflexivity. Qed.

Lemma clear_eq : forall f rm sg sgl od ors, py_traph_clear f rm sg sgl od ors =
  match py_thdr_init (mk_pm (pm_block_size sg) [] (pm_cursor sg)) with
  | None => None
  | Some (hd, sg) =>
    match py_lhdr_init (mk_pm (pm_block_size sgl) [] (pm_cursor sgl)) with
    | None => None
    | Some (lhd, sgl) =>
      let rm := match od with None => rm | Some d => mk_ram (ram_rules rm) d end in
      match ors with
      | None => Some (rm, hd, lhd, sg, sgl)
      | Some rs =>
        match rules_loop f true rs (Some (mk_ram [] (ram_dflt rm), hd, sg)) with
        | None => None
        | Some (rm, hd, sg) => Some (rm, hd, lhd, sg, sgl) end end end end.
Proof. reflexivity. Qed.

Lemma rules_loop_cons : forall f create p k rs rm hd sg,
  rules_loop f create ((p, k) :: rs) (Some (rm, hd, sg)) =
  rules_loop f create rs (match py_traph_add_webentity_creation_rule f rm hd sg p k create with
                          | None => None | Some (rm, hd, sg, _) => Some (rm, hd, sg) end).
Proof. reflexivity. Qed.

(* without writing: only the RAM table changes, for every fuel *)
Lemma rules_loop_nowrite : forall f rs rm hd sg,
  rules_loop f false rs (Some (rm, hd, sg)) =
  Some (mk_ram (rules (install_rules rs false (mkT Lf 1 0 [] (ram_rules rm) (ram_dflt rm)))) (ram_dflt rm), hd, sg).
Proof.
  intros f rs. induction rs as [|[p k] rs IH]; intros rm hd sg.
  - destruct rm. reflexivity.
  - rewrite rules_loop_cons. unfold py_traph_add_webentity_creation_rule. cbv zeta. cbn iota.
    rewrite IH. cbn [ram_rules ram_dflt]. rewrite py_rules_set_aset. reflexivity.
Qed.

Lemma install_false_rules : forall rs s s', rules s = rules s' ->
  rules (install_rules rs false s) = rules (install_rules rs false s').
Proof.
  induction rs as [|[p k] rs IH]; intros s s' H; [exact H|].
  rewrite !install_rules_cons. apply IH. unfold add_rule. cbn [negb fst rules]. rewrite H. reflexivity.
Qed.

Lemma install_false_dflt : forall rs s, dflt (install_rules rs false s) = dflt s.
Proof.
  induction rs as [|[p k] rs IH]; intro s; [reflexivity|].
  rewrite install_rules_cons, IH. reflexivity.
Qed.

Lemma hrep_ext : forall s s' hd sg, tr s' = tr s -> lastwe s' = lastwe s -> stubs s' = stubs s ->
  hrep s hd sg -> hrep s' hd sg.
Proof.
  intros s s' hd sg Ht Hl Hs H. unfold hrep, files_of in *. rewrite Ht, Hl, Hs. exact H.
Qed.

(* ====================================================================================== *)
(* 3. opening existing files: Traph.reopen, nothing written                               *)
(* ====================================================================================== *)
(* for ANY model state whose files the two storages hold (no reachability needed, no condition on the new rules) *)
Theorem py_traph_reopen_any : forall s d' rs' sg sgl,
  trep (files_of s) sg -> firstn 128 (pm_array sg) = encode_trie_header (lastwe s) ->
  lastwe s < 2 ^ 32 -> lrep (stubs s) sgl ->
  exists rm hd lhd sg' sgl', (forall f, py_traph_init_tail f sg sgl d' rs' false = Some (rm, hd, lhd, sg', sgl')) /\
    pm_array sg' = pm_array sg /\ pm_array sgl' = pm_array sgl /\
    ramrep (reopen d' rs' s) rm /\ hrep (reopen d' rs' s) hd sg' /\ lrep (stubs (reopen d' rs' s)) sgl'.
Proof.
  intros s d' rs' sg sgl Hrep Hh Hlt Hl.
  destruct (py_thdr_init_reopen s sg Hrep Hh Hlt) as (hd & sg' & E1 & Hh' & Ea).
  destruct (py_lhdr_init_reopen (stubs s) sgl Hl) as (lhd & sgl' & E2 & _ & Eal & Hl').
  set (s0 := mkT (tr s) (nb s) (lastwe s) (stubs s) [] d').
  destruct (install_false_same rs' s0) as (T1 & T2 & T3 & T4).
  eexists _, hd, lhd, sg', sgl'. split; [|split; [exact Ea|split; [exact Eal|]]].
  - intro f. rewrite init_tail_eq, E1, E2, rules_loop_nowrite. reflexivity.
  - cbn [ram_rules ram_dflt]. unfold reopen. fold s0. split; [split|split].
    + cbn [ram_rules]. apply install_false_rules. reflexivity.
    + cbn [ram_dflt]. rewrite install_false_dflt. reflexivity.
    + apply (hrep_ext s); [exact T1|exact T3|exact T4|exact Hh'].
    + rewrite T4. exact Hl'.
Qed.

(* the requested form: a reachable state (wf_rules rs' is not needed) *)
Theorem py_traph_reopen_spec : forall d rs h, wf_rules rs -> Forall wf_op h -> let s := run d rs h in
  forall d' rs' sg sgl, trep (files_of s) sg -> firstn 128 (pm_array sg) = encode_trie_header (lastwe s) ->
    lastwe s < 2 ^ 32 -> lrep (stubs s) sgl ->
  exists rm hd lhd sg' sgl', (forall f, py_traph_init_tail f sg sgl d' rs' false = Some (rm, hd, lhd, sg', sgl')) /\
    pm_array sg' = pm_array sg /\ pm_array sgl' = pm_array sgl /\
    ramrep (reopen d' rs' s) rm /\ hrep (reopen d' rs' s) hd sg' /\ lrep (stubs (reopen d' rs' s)) sgl'.
Proof. intros d rs h _ _ s d' rs' sg sgl. apply py_traph_reopen_any. Qed.

(* ====================================================================================== *)
(* 4. a new index and clear: rules installed in the trie                                  *)
(* ====================================================================================== *)
Section WithAddRule.

  Hypothesis add_rule_ok : forall d rs h, wf_rules rs -> Forall wf_op h ->
    let s := run d rs h in
    anchors_known s ->
    forall rm hd sg p k, ramrep s rm -> hrep s hd sg -> wf_lru p ->
    let r := add_rule p k true s in
    let s' := fst r in
    nb s' * 128 < 2 ^ 64 -> lastwe s' + 1 < 2 ^ 32 ->
    exists f0 rm' hd' sg' n c, snd r = Report n c /\
      (forall f, (f0 <= f)%nat ->
         py_traph_add_webentity_creation_rule f rm hd sg p k true = Some (rm', hd', sg', report_of n c)) /\
      hrep s' hd' sg' /\ ramrep s' rm'.

  (* the loop from the state reached after the rules l1, for the remaining rules l2 *)
  Lemma rules_loop_ok : forall d l2 l1 rm hd sg, wf_rules (l1 ++ l2) ->
    nb (init d (l1 ++ l2)) * 128 < 2 ^ 64 -> lastwe (init d (l1 ++ l2)) + 1 < 2 ^ 32 ->
    ramrep (init d l1) rm -> hrep (init d l1) hd sg ->
    exists f0 rm' hd' sg',
      (forall f, (f0 <= f)%nat -> rules_loop f true l2 (Some (rm, hd, sg)) = Some (rm', hd', sg')) /\
      ramrep (init d (l1 ++ l2)) rm' /\ hrep (init d (l1 ++ l2)) hd' sg'.
  Proof.
    intros d l2. induction l2 as [|[p k] l2 IH]; intros l1 rm hd sg Hwf Hnb Hlw Hrm Hh.
    - rewrite app_nil_r in *. exists O, rm, hd, sg. split; [intros f _; reflexivity|]. split; assumption.
    - assert (Eapp : l1 ++ (p, k) :: l2 = (l1 ++ [(p, k)]) ++ l2) by (rewrite <- app_assoc; reflexivity).
      rewrite Eapp in Hwf, Hnb, Hlw |- *.
      pose proof (wf_rules_app_l _ _ Hwf) as Hwf1. pose proof (wf_rules_app_l _ _ Hwf1) as Hwf0.
      assert (Hp : wf_lru p).
      { destruct Hwf1 as [Hf _]. apply Forall_app in Hf. destruct Hf as [_ Hf]. inversion Hf; subst. assumption. }
      destruct (install_true_mono l2 (init d (l1 ++ [(p, k)]))) as (M1 & M2 & _). rewrite <- init_app in M1, M2.
      pose proof (add_rule_ok d l1 [] Hwf0 (Forall_nil _)) as A. cbv zeta in A. rewrite run_nil in A.
      specialize (A (init_anchors_known d l1 Hwf0) rm hd sg p k Hrm Hh Hp). rewrite <- init_snoc in A.
      destruct A as (f1 & rm1 & hd1 & sg1 & n & c & _ & A1 & Hh1 & Hrm1); [lia|lia|].
      destruct (IH (l1 ++ [(p, k)]) rm1 hd1 sg1 Hwf Hnb Hlw Hrm1 Hh1) as (f2 & rm2 & hd2 & sg2 & B1 & Hrm2 & Hh2).
      exists (Nat.max f1 f2), rm2, hd2, sg2. split; [|split; assumption].
      intros f Hf. rewrite rules_loop_cons, (A1 f) by lia. apply B1. lia.
  Qed.

  Lemma rules_loop_init : forall d rs rm hd sg, wf_rules rs ->
    nb (init d rs) * 128 < 2 ^ 64 -> lastwe (init d rs) + 1 < 2 ^ 32 ->
    ramrep (init d []) rm -> hrep (init d []) hd sg ->
    exists f0 rm' hd' sg',
      (forall f, (f0 <= f)%nat -> rules_loop f true rs (Some (rm, hd, sg)) = Some (rm', hd', sg')) /\
      ramrep (init d rs) rm' /\ hrep (init d rs) hd' sg'.
  Proof. intros d rs rm hd sg. exact (rules_loop_ok d rs [] rm hd sg). Qed.

  Theorem py_traph_init_fresh : forall d rs c1 c2, wf_rules rs ->
    nb (init d rs) * 128 < 2 ^ 64 -> lastwe (init d rs) + 1 < 2 ^ 32 ->
    exists f0 rm hd lhd sg sgl, (forall f, (f0 <= f)%nat ->
       py_traph_init_tail f (mk_pm 128 [] c1) (mk_pm 16 [] c2) d rs true = Some (rm, hd, lhd, sg, sgl)) /\
      ramrep (init d rs) rm /\ hrep (init d rs) hd sg /\ lrep (stubs (init d rs)) sgl.
  Proof.
    intros d rs c1 c2 Hwf Hnb Hlw.
    destruct (py_thdr_init_fresh_c c1) as (hd0 & sg0 & E1 & Hb & Ha & Hd).
    destruct (py_lhdr_init_fresh c2) as (lhd & sgl & E2 & _ & _ & Hl).
    destruct (rules_loop_init d rs (mk_ram [] d) hd0 sg0 Hwf Hnb Hlw) as (f0 & rm & hd & sg & B & Hrm & Hh).
    { split; reflexivity. }
    { apply hrep_empty; assumption. }
    exists f0, rm, hd, lhd, sg, sgl. split; [|split; [exact Hrm|split; [exact Hh|rewrite init_stubs; exact Hl]]].
    intros f Hf. rewrite init_tail_eq, E1, E2, (B f Hf). reflexivity.
  Qed.

  Theorem py_traph_clear_spec : forall s rm sg sgl od ors, ramrep s rm ->
    pm_block_size sg = 128 -> pm_block_size sgl = 16 ->
    match ors with Some rs => wf_rules rs | None => True end ->
    let s' := clear od ors s in nb s' * 128 < 2 ^ 64 -> lastwe s' + 1 < 2 ^ 32 ->
    exists f0 rm' hd lhd sg' sgl', (forall f, (f0 <= f)%nat ->
       py_traph_clear f rm sg sgl od ors = Some (rm', hd, lhd, sg', sgl')) /\
      ramrep s' rm' /\ hrep s' hd sg' /\ lrep (stubs s') sgl'.
  Proof.
    intros s rm sg sgl od ors [Hrr Hrd] Hbs Hbl Hwf s' Hnb Hlw.
    destruct (py_thdr_init_fresh_c (pm_cursor sg)) as (hd0 & sg0 & E1 & Hb & Ha & Hd).
    destruct (py_lhdr_init_fresh (pm_cursor sgl)) as (lhd & sgl1 & E2 & _ & _ & Hl).
    set (d' := match od with Some d => d | None => dflt s end).
    assert (Ed : ram_dflt (match od with None => rm | Some d => mk_ram (ram_rules rm) d end) = d')
      by (unfold d'; destruct od; [reflexivity|exact Hrd]).
    destruct ors as [rs|].
    - assert (Es : s' = init d' rs) by reflexivity. rewrite Es in *.
      destruct (rules_loop_init d' rs (mk_ram [] d') hd0 sg0 Hwf Hnb Hlw) as (f0 & rm1 & hd & sg1 & B & Hrm & Hh).
      { split; reflexivity. }
      { apply hrep_empty; assumption. }
      exists f0, rm1, hd, lhd, sg1, sgl1. split; [|split; [exact Hrm|split; [exact Hh|rewrite init_stubs; exact Hl]]].
      intros f Hf. rewrite clear_eq, Hbs, Hbl, E1, E2. cbv zeta. rewrite Ed, (B f Hf). reflexivity.
    - assert (Es : s' = mkT Lf 1 0 [] (rules s) d') by reflexivity. rewrite Es in *.
      exists O, (match od with None => rm | Some d => mk_ram (ram_rules rm) d end), hd0, lhd, sg0, sgl1.
      split; [|split; [|split; [apply hrep_empty; assumption|exact Hl]]].
      + intros f _. rewrite clear_eq, Hbs, Hbl, E1, E2. reflexivity.
      + split; [destruct od; exact Hrr|exact Ed].
  Qed.

End WithAddRule.

(* ====================================================================================== *)
(* 5. non-vacuity: the translated code run on concrete values                             *)
(* ====================================================================================== *)
Definition ex_anchor : bytes := firstn 13 IdFacts.ex_pa.
Definition ex_rs1 : list (bytes * rulekind) := [(ex_anchor, Path 1); (IdFacts.ex_pa, Path 2)].

Example ex_rs1_wf : wf_rules ex_rs1.
Proof.
  split.
  - repeat constructor; discriminate.
  - cbn [map fst ex_rs1]. constructor; [|constructor; [intros []|constructor]].
    intros [H|[]]. vm_compute in H. discriminate H.
Qed.

(* a new index with two rules: the two files and the RAM of Traph.init *)
Example ex_init_fresh :
  match py_traph_init_tail 50 (mk_pm 128 [] 7) (mk_pm 16 [] 9) Domain ex_rs1 true with
  | Some (rm, hd, lhd, sg, sgl) =>
      pm_array sg = trie_file (init Domain ex_rs1) /\ pm_array sgl = link_file (init Domain ex_rs1) /\
      ram_rules rm = rules (init Domain ex_rs1) /\ ram_dflt rm = Domain /\
      th_data hd = [VNum (lastwe (init Domain ex_rs1)); VBytes version_bytes] /\ th_data lhd = [VBytes version_bytes]
  | None => False
  end.
Proof. vm_compute. repeat split; reflexivity. Qed.

(* opening the files of PropsEx.exs with two rules: the RAM of Traph.reopen, no byte changed *)
Example ex_reopen :
  match py_traph_init_tail 0 GenTrieFacts.ex_sg GenTraphKFacts.sgl0 (Path 3) ex_rs1 false with
  | Some (rm, hd, lhd, sg, sgl) =>
      pm_array sg = trie_file PropsEx.exs /\ pm_array sgl = link_file PropsEx.exs /\
      ram_rules rm = rules (reopen (Path 3) ex_rs1 PropsEx.exs) /\ ram_dflt rm = Path 3 /\
      th_data hd = [VNum (lastwe PropsEx.exs); VBytes version_bytes] /\ th_data lhd = [VBytes version_bytes]
  | None => False
  end.
Proof. vm_compute. repeat split; reflexivity. Qed.

(* clear with new rules / keeping the RAM tables *)
Example ex_clear_rules :
  match py_traph_clear 50 GenTraphKFacts.rm0 GenTrieFacts.ex_sg GenTraphKFacts.sgl0 None (Some ex_rs1) with
  | Some (rm, hd, lhd, sg, sgl) =>
      let s' := clear None (Some ex_rs1) PropsEx.exs in
      pm_array sg = trie_file s' /\ pm_array sgl = link_file s' /\ ram_rules rm = rules s' /\ ram_dflt rm = dflt s' /\
      th_data hd = [VNum 0; VBytes version_bytes]
  | None => False
  end.
Proof. vm_compute. repeat split; reflexivity. Qed.

Example ex_clear_keep :
  match py_traph_clear 0 GenTraphKFacts.rm0 GenTrieFacts.ex_sg GenTraphKFacts.sgl0 (Some (Path 2)) None with
  | Some (rm, hd, lhd, sg, sgl) =>
      let s' := clear (Some (Path 2)) None PropsEx.exs in
      pm_array sg = trie_file s' /\ pm_array sgl = link_file s' /\ ram_rules rm = rules s' /\ ram_dflt rm = dflt s' /\
      th_data hd = [VNum 0; VBytes version_bytes]
  | None => False
  end.
Proof. vm_compute. repeat split; reflexivity. Qed.

Print Assumptions py_lhdr_init_reopen.
Print Assumptions py_lhdr_init_fresh.
Print Assumptions py_traph_init_fresh.
Print Assumptions py_traph_reopen_any.
Print Assumptions py_traph_reopen_spec.
Print Assumptions py_traph_clear_spec.
