(* SchedFacts3.v — index_batch_crawl_iter as a coroutine, part 3: any schedule of
   batch coroutines (C16_invariant), and the final state of a complete schedule
   compared with the batches applied one after another (C16_schedule_independent). *)
From Coq Require Import List NArith Bool Lia Arith Permutation.
Import ListNotations.
From Traph Require Import Bytes Consts Helpers Rules Tst TstDefs Traph Spec Ops RefDefs TstFacts
  ViewFacts ViewFacts2 RefCore RefCore3 LinkFacts LinkFacts2 LinkFacts3 QueryCore Sched SchedFacts SchedFacts2.
Open Scope N_scope.

(* ====================================================================== *)
(* lists of coroutines                                                    *)
(* ====================================================================== *)

Fixpoint set_nth {A : Type} (n : nat) (x : A) (l : list A) : list A :=
  match l, n with
  | [], _ => []
  | _ :: l', O => x :: l'
  | y :: l', S n' => y :: set_nth n' x l'
  end.

Lemma set_nth_co_map : forall i b bs, set_nth_co i (CBatch b) (map CBatch bs) = map CBatch (set_nth i b bs).
Proof.
  intros i b bs. revert i. induction bs as [|y bs IH]; intros [|i]; cbn [map set_nth_co set_nth]; try reflexivity.
  rewrite IH. reflexivity.
Qed.

Lemma In_set_nth : forall (A : Type) i (x y : A) l, nth_error l i = Some y -> In x (set_nth i x l).
Proof.
  intros A i x y l. revert i. induction l as [|z l IH]; intros [|i] H; cbn in H; try discriminate.
  - left. reflexivity.
  - right. apply (IH i H).
Qed.

Lemma In_set_nth_inv : forall (A : Type) i (x z : A) l, In z (set_nth i x l) -> z = x \/ In z l.
Proof.
  intros A i x z l. revert i. induction l as [|y l IH]; intros [|i] H; cbn [set_nth] in H; try (destruct H; fail).
  - destruct H as [H|H]; [left; auto|right; right; exact H].
  - destruct H as [H|H]; [right; left; exact H|]. destruct (IH i H) as [H'|H']; [left; exact H'|right; right; exact H'].
Qed.

Lemma In_keep_set_nth : forall (A : Type) i (x y z : A) l, nth_error l i = Some y -> In z l ->
  z = y \/ In z (set_nth i x l).
Proof.
  intros A i x y z l. revert i. induction l as [|w l IH]; intros [|i] H Hz; cbn in H; try discriminate.
  - injection H as ->. destruct Hz as [Hz|Hz]; [left; auto|right; right; exact Hz].
  - destruct Hz as [Hz|Hz]; [right; left; exact Hz|].
    destruct (IH i H Hz) as [H'|H']; [left; exact H'|right; right; exact H'].
Qed.

Lemma Forall_set_nth : forall (A : Type) (P : A -> Prop) i x l, Forall P l -> P x -> Forall P (set_nth i x l).
Proof.
  intros A P i x l H Hx. apply Forall_forall. intros z Hz. apply In_set_nth_inv in Hz.
  destruct Hz as [->|Hz]; [exact Hx|]. rewrite Forall_forall in H. auto.
Qed.

Lemma perm_set_nth : forall (A B : Type) (f : A -> list B) i (x y : A) (X : list B) l,
  nth_error l i = Some y -> Permutation (X ++ f x) (f y) ->
  Permutation (X ++ flat_map f (set_nth i x l)) (flat_map f l).
Proof.
  intros A B f i x y X l. revert i. induction l as [|w l IH]; intros [|i] H HP; cbn in H; try discriminate.
  - injection H as ->. cbn [set_nth flat_map]. rewrite app_assoc. apply Permutation_app_tail. exact HP.
  - cbn [set_nth flat_map].
    apply Permutation_trans with (f w ++ X ++ flat_map f (set_nth i x l)).
    + rewrite !app_assoc. apply Permutation_app_tail. apply Permutation_app_comm.
    + apply Permutation_app_head. apply (IH i H HP).
Qed.

Lemma flat_map_nil : forall (A B : Type) (f : A -> list B) l, (forall x, In x l -> f x = []) -> flat_map f l = [].
Proof.
  intros A B f l. induction l as [|x l IH]; intro H; [reflexivity|].
  cbn [flat_map]. rewrite (H x (or_introl eq_refl)), IH; [reflexivity|]. intros y Hy. apply H. right. exact Hy.
Qed.

(* the scheduler restricted to batch coroutines *)
Fixpoint bexec (sched : list nat) (bs : list bco) (s : traph) : list bco * traph :=
  match sched with
  | [] => (bs, s)
  | i :: sched' =>
      match nth_error bs i with
      | None => bexec sched' bs s
      | Some b => bexec sched' (set_nth i (fst (bstep b s)) bs) (snd (bstep b s))
      end
  end.

Lemma exec_sched_batch : forall sched bs s,
  exec_sched sched (map CBatch bs) s = (map CBatch (fst (bexec sched bs s)), snd (bexec sched bs s)).
Proof.
  induction sched as [|i sched IH]; intros bs s; [reflexivity|].
  cbn [exec_sched bexec]. rewrite nth_error_map. destruct (nth_error bs i) as [b|]; cbn [option_map]; [|apply IH].
  rewrite co_step_batch, set_nth_co_map. apply IH.
Qed.

(* ====================================================================== *)
(* the invariant of a run of several coroutines                           *)
(* ====================================================================== *)

Record GInv (a0 : astate) (datas : list (list (bytes * list bytes)))
            (bs : list bco) (s : traph) (a : astate) (go gi : links) : Prop := mkGInv {
  G_s : SInv s a go gi;
  G_b : Forall (fun b => BInv b a) bs;
  G_links : a_links a = a_links a0;
  G_out : Permutation (go ++ flat_map pend_out bs) (a_links a0 ++ flat_map links_of datas);
  G_in : Permutation (gi ++ flat_map pend_in bs) (a_links a0 ++ flat_map links_of datas);
  G_pm : pmono a0 a;
  G_sound : sound a0 a (flat_map events datas);
  G_compl : forall e, In e (flat_map events datas) ->
              covered a e \/ exists b, In b bs /\ In e (pend_ev b);
  G_incl : forall b, In b bs -> incl (pend_ev b) (flat_map events datas)
}.

Lemma SInv_R : forall s a, R s a -> SInv s a (a_links a) (a_links a).
Proof.
  intros s a [HC HL]. pose proof (R_good s a HC HL) as Hg.
  apply Rlinks_split in HL. destruct HL as ((HB & Ho) & Hi & He & _).
  constructor; try assumption.
  - intros [x y] Hin. apply (He x y Hin).
  - intros [x y] Hin. apply (He x y Hin).
Qed.

Lemma pend_start : forall d,
  pend_out (batch_start d) = links_of d /\ pend_in (batch_start d) = links_of d /\
  pend_ev (batch_start d) = events d.
Proof. intro d. repeat split; reflexivity. Qed.

Lemma flat_map_start : forall (B : Type) (f : bco -> list B) (g : list (bytes * list bytes) -> list B) datas,
  (forall d, f (batch_start d) = g d) -> flat_map f (map batch_start datas) = flat_map g datas.
Proof.
  intros B f g datas H. induction datas as [|d datas IH]; [reflexivity|].
  cbn [map flat_map]. rewrite H, IH. reflexivity.
Qed.

Lemma GInv_init : forall s0 a0 datas, R s0 a0 -> Forall wf_data datas ->
  GInv a0 datas (map batch_start datas) s0 a0 (a_links a0) (a_links a0).
Proof.
  intros s0 a0 datas HR Hwf. constructor.
  - apply SInv_R. exact HR.
  - apply Forall_forall. intros b Hb. apply in_map_iff in Hb. destruct Hb as (d & <- & Hd).
    apply BInv_start. rewrite Forall_forall in Hwf. apply Hwf. exact Hd.
  - reflexivity.
  - rewrite (flat_map_start _ pend_out links_of); [apply Permutation_refl|]. intro d. apply pend_start.
  - rewrite (flat_map_start _ pend_in links_of); [apply Permutation_refl|]. intro d. apply pend_start.
  - apply pmono_refl.
  - apply sound_refl.
  - intros e He. right. apply in_flat_map in He. destruct He as (d & Hd & He).
    exists (batch_start d). split; [apply in_map; exact Hd|exact He].
  - intros b Hb. apply in_map_iff in Hb. destruct Hb as (d & <- & Hd).
    intros e He. apply in_flat_map. exists d. split; [exact Hd|exact He].
Qed.

Lemma GInv_step : forall a0 datas bs s a go gi i b, GInv a0 datas bs s a go gi ->
  nth_error bs i = Some b ->
  exists a' go' gi', GInv a0 datas (set_nth i (fst (bstep b s)) bs) (snd (bstep b s)) a' go' gi'.
Proof.
  intros a0 datas bs s a go gi i b [Gs Gb Gl Go Gi Gp Gso Gc Gin] Hi.
  assert (Hb : In b bs) by (apply (nth_error_In _ _ Hi)).
  assert (HB : BInv b a) by (rewrite Forall_forall in Gb; apply Gb; exact Hb).
  destruct (bstep_inv b s a go gi Gs HB) as (a' & go' & gi' & HS' & HB' & HA).
  set (b' := fst (bstep b s)) in *. set (s' := snd (bstep b s)) in *. cbv zeta in *.
  destruct HA as [P1 L1 (X & EX & PX) (Y & EY & PY) S1 C1 I1]. cbn [cb cs ca co ci] in *.
  exists a', go', gi'. constructor.
  - exact HS'.
  - apply Forall_set_nth; [|exact HB'].
    apply Forall_forall. intros z Hz. rewrite Forall_forall in Gb.
    apply (BInv_mono z a a' (pmono_pages _ _ P1)). apply Gb. exact Hz.
  - congruence.
  - rewrite EX, <- app_assoc. apply Permutation_trans with (go ++ flat_map pend_out bs); [|exact Go].
    apply Permutation_app_head. apply (perm_set_nth _ _ pend_out i b' b X bs Hi PX).
  - rewrite EY, <- app_assoc. apply Permutation_trans with (gi ++ flat_map pend_in bs); [|exact Gi].
    apply Permutation_app_head. apply (perm_set_nth _ _ pend_in i b' b Y bs Hi PY).
  - apply (pmono_trans _ _ _ Gp P1).
  - apply (sound_trans _ a); [exact Gso|]. apply (sound_incl _ _ _ _ (Gin b Hb) S1).
  - intros e He. destruct (Gc e He) as [H|(z & Hz & Hez)].
    + left. apply (covered_mono _ _ _ P1 H).
    + destruct (In_keep_set_nth _ i b' b z bs Hi Hz) as [->|Hz'].
      * destruct (C1 e Hez) as [H|H]; [left; exact H|].
        right. exists b'. split; [apply (In_set_nth _ i b' b bs Hi)|exact H].
      * right. exists z. auto.
  - intros z Hz. apply In_set_nth_inv in Hz. destruct Hz as [->|Hz]; [|apply Gin; exact Hz].
    intros e He. apply (Gin b Hb). apply I1. exact He.
Qed.

Lemma GInv_exec : forall a0 datas sched bs s a go gi, GInv a0 datas bs s a go gi ->
  exists a' go' gi', GInv a0 datas (fst (bexec sched bs s)) (snd (bexec sched bs s)) a' go' gi'.
Proof.
  intros a0 datas sched. induction sched as [|i sched IH]; intros bs s a go gi HG.
  - exists a, go, gi. exact HG.
  - cbn [bexec]. destruct (nth_error bs i) as [b|] eqn:Hi; [|apply (IH _ _ _ _ _ HG)].
    destruct (GInv_step _ _ _ _ _ _ _ i b HG Hi) as (a1 & go1 & gi1 & HG1).
    apply (IH _ _ _ _ _ HG1).
Qed.

(* ====================================================================== *)
(* T2a. the invariants hold whatever the schedule, at every prefix of it   *)
(* ====================================================================== *)

Lemma start_map : forall datas,
  map (fun d => CBatch (batch_start d)) datas = map CBatch (map batch_start datas).
Proof. intro datas. rewrite map_map. reflexivity. Qed.

Lemma SInv_facts : forall s a go gi, SInv s a go gi ->
  Rcore s a /\ wf_tst (tr s) /\ addr_ok (tr s) (nb s) /\ stubs_ok (stubs s).
Proof.
  intros s a go gi H. split; [apply (SI_core _ _ _ _ H)|]. split; [apply (R_wf s a (SI_core _ _ _ _ H))|].
  split; [apply (SI_good _ _ _ _ H)|apply (B_stubs s (SI_base _ _ _ _ H))].
Qed.

Theorem C16_invariant : forall datas sched s0 a0, R s0 a0 -> Forall wf_data datas ->
  forall k,
  let cs := map (fun d => CBatch (batch_start d)) datas in
  let s' := snd (exec_sched (firstn k sched) cs s0) in
  exists a go gi, SInv s' a go gi /\ wf_tst (tr s') /\ addr_ok (tr s') (nb s') /\ stubs_ok (stubs s').
Proof.
  intros datas sched s0 a0 HR Hwf k cs s'. unfold s', cs. rewrite start_map, exec_sched_batch. cbn [snd].
  destruct (GInv_exec a0 datas (firstn k sched) _ _ _ _ _ (GInv_init s0 a0 datas HR Hwf))
    as (a & go & gi & HG).
  exists a, go, gi. split; [apply (G_s _ _ _ _ _ _ _ HG)|]. apply (SInv_facts _ _ _ _ (G_s _ _ _ _ _ _ _ HG)).
Qed.

(* ====================================================================== *)
(* the batches one after another, on the specification side                *)
(* ====================================================================== *)

Definition seen_a (a : astate) (seen : list bytes) : Prop := forall x, In x seen -> apage a x.

(* a and a' have the events E between them *)
Definition EvR (a a' : astate) (E : list (bytes * bool)) : Prop :=
  pmono a a' /\ sound a a' E /\ (forall e, In e E -> covered a' e).

Lemma EvR_nil : forall a, EvR a a [].
Proof. intro a. split; [apply pmono_refl|]. split; [apply sound_refl|intros e []]. Qed.

Lemma EvR_app : forall a b c E1 E2, EvR a b E1 -> EvR b c E2 -> EvR a c (E1 ++ E2).
Proof.
  intros a b c E1 E2 (P1 & S1 & C1) (P2 & S2 & C2). split; [apply (pmono_trans _ _ _ P1 P2)|]. split.
  - apply (sound_trans _ b).
    + apply (sound_incl _ _ E1); [apply incl_appl, incl_refl|exact S1].
    + apply (sound_incl _ _ E2); [apply incl_appr, incl_refl|exact S2].
  - intros e He. apply in_app_or in He. destruct He as [He|He].
    + apply (covered_mono _ _ _ P2). apply C1. exact He.
    + apply C2. exact He.
Qed.

Lemma EvR_pages : forall a b b' E, a_pages b' = a_pages b -> EvR a b E -> EvR a b' E.
Proof.
  intros a b b' E Hp (P & S & C). unfold EvR, pmono, sound, covered in *. rewrite Hp. auto.
Qed.

Lemma EvR_event : forall l cr a a', a_pages a' = pages_after l cr (a_pages a) -> EvR a a' [(l, cr)].
Proof.
  intros l cr a a' E. destruct (event_applied l cr a a' E) as (H1 & H2 & H3).
  split; [exact H1|]. split; [exact H2|]. intros e [<-|[]]. exact H3.
Qed.

Lemma EvR_skip : forall a l, apage a l -> EvR a a [(l, false)].
Proof.
  intros a l (c & Hc). split; [apply pmono_refl|]. split; [apply sound_refl|].
  intros e [<-|[]]. exists c. cbn [fst snd]. split; [exact Hc|discriminate].
Qed.

Lemma seen_a_mono : forall a a' seen, pmono a a' -> seen_a a seen -> seen_a a' seen.
Proof. intros a a' seen Hm H x Hx. apply (pmono_pages _ _ Hm). apply H. exact Hx. Qed.

Lemma see_a_ev : forall t a seen, seen_a a seen ->
  let st := see_a t (a, seen) in
  a_links (fst st) = a_links a /\ EvR a (fst st) [(t, false)] /\ seen_a (fst st) (snd st).
Proof.
  intros t a seen Hs. unfold see_a. cbn [fst snd]. destruct (mem_bytes t seen) eqn:E; cbn [fst snd].
  - split; [reflexivity|]. split; [|exact Hs]. apply EvR_skip. apply Hs. apply mem_bytes_in. exact E.
  - pose proof (EvR_event t false a _ (s_add_page_pages t false a)) as HE.
    split; [apply s_add_page_links|]. split; [exact HE|].
    intros x [<-|Hx]; [apply s_add_page_apage|]. apply (seen_a_mono _ _ _ (proj1 HE) Hs x Hx).
Qed.

Lemma crawl_a_ev : forall src a seen, seen_a a seen ->
  let st := crawl_a src (a, seen) in
  a_links (fst st) = a_links a /\ EvR a (fst st) [(src, true)] /\ seen_a (fst st) (snd st).
Proof.
  intros src a seen Hs. unfold crawl_a. cbn [fst snd]. destruct (mem_bytes src seen) eqn:E; cbn [fst snd].
  - pose proof (EvR_event src true a _ (mark_crawled_pages src a)) as HE.
    split; [reflexivity|]. split; [exact HE|]. apply (seen_a_mono _ _ _ (proj1 HE) Hs).
  - pose proof (EvR_event src true a _ (s_add_page_pages src true a)) as HE.
    split; [apply s_add_page_links|]. split; [exact HE|].
    intros x [<-|Hx]; [apply s_add_page_apage|]. apply (seen_a_mono _ _ _ (proj1 HE) Hs x Hx).
Qed.

Lemma inner_a_ev : forall src tgts a seen, seen_a a seen ->
  let st := fold_left (link_a src) tgts (a, seen) in
  a_links (fst st) = a_links a ++ map (fun t => (src, t)) tgts /\
  EvR a (fst st) (map (fun t => (t, false)) tgts) /\ seen_a (fst st) (snd st).
Proof.
  intros src tgts. induction tgts as [|t tgts IH]; intros a seen Hs.
  - cbn [fold_left fst snd map]. rewrite app_nil_r. split; [reflexivity|]. split; [apply EvR_nil|exact Hs].
  - cbn [fold_left]. destruct (see_a_ev t a seen Hs) as (L1 & E1 & S1).
    change (link_a src (a, seen) t)
      with (add_link (src, t) (fst (see_a t (a, seen))), snd (see_a t (a, seen))).
    destruct (see_a t (a, seen)) as [a1 seen1]. cbn [fst snd] in *.
    destruct (IH (add_link (src, t) a1) seen1 S1) as (L2 & E2 & S2).
    cbv zeta. split; [|split; [|exact S2]].
    + rewrite L2. cbn [add_link a_links map]. rewrite L1, <- app_assoc. reflexivity.
    + change (map (fun t0 => (t0, false)) (t :: tgts)) with ([(t, false)] ++ map (fun t0 => (t0, false)) tgts).
      apply (EvR_app _ (add_link (src, t) a1)); [|exact E2].
      apply (EvR_pages a a1); [reflexivity|exact E1].
Qed.

Lemma outer_a_ev : forall data a seen, seen_a a seen ->
  let st := fold_left outer_a data (a, seen) in
  a_links (fst st) = a_links a ++ links_of data /\ EvR a (fst st) (events data) /\ seen_a (fst st) (snd st).
Proof.
  induction data as [|[src tgts] data IH]; intros a seen Hs.
  - cbn [fold_left fst snd links_of events flat_map]. rewrite app_nil_r.
    split; [reflexivity|]. split; [apply EvR_nil|exact Hs].
  - cbn [fold_left].
    change (outer_a (a, seen) (src, tgts)) with (fold_left (link_a src) tgts (crawl_a src (a, seen))).
    destruct (crawl_a_ev src a seen Hs) as (L1 & E1 & S1).
    destruct (crawl_a src (a, seen)) as [a1 seen1]. cbn [fst snd] in *.
    destruct (inner_a_ev src tgts a1 seen1 S1) as (L2 & E2 & S2).
    destruct (fold_left (link_a src) tgts (a1, seen1)) as [a2 seen2]. cbn [fst snd] in *.
    destruct (IH a2 seen2 S2) as (L3 & E3 & S3).
    cbv zeta. split; [|split; [|exact S3]].
    + rewrite L3, L2, L1, links_of_cons, <- app_assoc. reflexivity.
    + rewrite events_cons.
      change ((src, true) :: map (fun t => (t, false)) tgts ++ events data)
        with ([(src, true)] ++ map (fun t => (t, false)) tgts ++ events data).
      apply (EvR_app _ a1 _ _ _ E1). apply (EvR_app _ a2 _ _ _ E2 E3).
Qed.

Lemma s_batch_ev : forall data a,
  a_links (fst (s_batch data a)) = a_links a ++ links_of data /\
  EvR a (fst (s_batch data a)) (events data).
Proof.
  intros data a. rewrite s_batch_eq.
  destruct (outer_a_ev data a [] (fun x H => match H with end)) as (H1 & H2 & _). auto.
Qed.

Definition s_seq (datas : list (list (bytes * list bytes))) (a : astate) : astate :=
  fold_left (fun a d => fst (s_batch d a)) datas a.
Definition m_seq (datas : list (list (bytes * list bytes))) (s : traph) : traph :=
  fold_left (fun s d => fst (batch_crawl d s)) datas s.

Lemma s_seq_ev : forall datas a,
  a_links (s_seq datas a) = a_links a ++ flat_map links_of datas /\
  EvR a (s_seq datas a) (flat_map events datas).
Proof.
  induction datas as [|d datas IH]; intro a.
  - cbn [s_seq fold_left flat_map]. rewrite app_nil_r. split; [reflexivity|apply EvR_nil].
  - unfold s_seq. cbn [fold_left flat_map]. fold (s_seq datas (fst (s_batch d a))).
    destruct (s_batch_ev d a) as (L1 & E1). destruct (IH (fst (s_batch d a))) as (L2 & E2).
    split; [rewrite L2, L1, <- app_assoc; reflexivity|apply (EvR_app _ _ _ _ _ E1 E2)].
Qed.

Lemma seq_Rcore : forall datas s a, Forall wf_data datas -> Rcore s a ->
  Rcore (m_seq datas s) (s_seq datas a).
Proof.
  induction datas as [|d datas IH]; intros s a Hwf HR; [exact HR|].
  inversion Hwf as [|? ? Hd Hwf']; subst. unfold m_seq, s_seq. cbn [fold_left].
  apply (IH _ _ Hwf'). apply (batch_crawl_Rcore d s a Hd HR).
Qed.

(* ====================================================================== *)
(* the final pages do not depend on the order of the events               *)
(* ====================================================================== *)

Lemma nodup_fun : forall (m : list (bytes * bool)) k v v',
  NoDup (map fst m) -> In (k, v) m -> In (k, v') m -> v = v'.
Proof.
  intros m k v v' Hnd H1 H2. apply (ViewFacts.aget_In m k v Hnd) in H1. apply (ViewFacts.aget_In m k v' Hnd) in H2. congruence.
Qed.

Lemma pages_char_half : forall a0 E a1 a2,
  NoDup (map fst (a_pages a1)) -> NoDup (map fst (a_pages a2)) ->
  EvR a0 a1 E -> EvR a0 a2 E ->
  forall l c, In (l, c) (a_pages a1) -> In (l, c) (a_pages a2).
Proof.
  intros a0 E a1 a2 N1 N2 (P1 & S1 & C1) (P2 & S2 & C2) l c H1.
  destruct (S1 l c H1) as (Hn & Hc).
  assert (H2 : exists c2, In (l, c2) (a_pages a2)).
  { destruct Hn as [(c0 & H0)|(cr & Hcr)].
    - destruct (P2 l c0 H0) as (c2 & H2 & _). exists c2. exact H2.
    - destruct (C2 _ Hcr) as (c2 & H2 & _). exists c2. exact H2. }
  destruct H2 as (c2 & H2).
  destruct c, c2; try exact H2.
  - (* crawled in a1 *)
    exfalso. assert (Ht : In (l, true) (a_pages a2)).
    { destruct (Hc eq_refl) as [H0|H0].
      - destruct (P2 l true H0) as (c' & Hc' & E'). rewrite (E' eq_refl) in Hc'. exact Hc'.
      - destruct (C2 _ H0) as (c' & Hc' & E'). cbn [fst snd] in *. rewrite (E' eq_refl) in Hc'. exact Hc'. }
    pose proof (nodup_fun _ _ _ _ N2 Ht H2). discriminate.
  - (* crawled in a2 *)
    exfalso. destruct (S2 l true H2) as (_ & Hc2).
    assert (Ht : In (l, true) (a_pages a1)).
    { destruct (Hc2 eq_refl) as [H0|H0].
      - destruct (P1 l true H0) as (c' & Hc' & E'). rewrite (E' eq_refl) in Hc'. exact Hc'.
      - destruct (C1 _ H0) as (c' & Hc' & E'). cbn [fst snd] in *. rewrite (E' eq_refl) in Hc'. exact Hc'. }
    pose proof (nodup_fun _ _ _ _ N1 Ht H1). discriminate.
Qed.

Lemma pages_char : forall a0 E a1 a2,
  NoDup (map fst (a_pages a1)) -> NoDup (map fst (a_pages a2)) ->
  EvR a0 a1 E -> EvR a0 a2 E ->
  forall l c, In (l, c) (a_pages a1) <-> In (l, c) (a_pages a2).
Proof.
  intros a0 E a1 a2 N1 N2 E1 E2 l c. split.
  - apply (pages_char_half a0 E a1 a2 N1 N2 E1 E2).
  - apply (pages_char_half a0 E a2 a1 N2 N1 E2 E1).
Qed.

(* ====================================================================== *)
(* reading the chains against a permutation of the ghost list             *)
(* ====================================================================== *)

Lemma Permutation_filter : forall (A : Type) (f : A -> bool) (l l' : list A),
  Permutation l l' -> Permutation (filter f l) (filter f l').
Proof.
  intros A f l l' H. induction H as [|x l l' H IH|x y l|l l' l'' H1 IH1 H2 IH2].
  - constructor.
  - cbn [filter]. destruct (f x); [constructor|]; exact IH.
  - cbn [filter]. destruct (f x), (f y); try apply Permutation_refl. apply perm_swap.
  - apply (Permutation_trans IH1 IH2).
Qed.

Lemma Rdir_perm : forall out s L L' l d, Rdir out s L -> Permutation L L' ->
  wf_lru l -> nodeof s l = Some d ->
  Permutation (map (fun t => lru_at t s) (targets_of (stubs s) (head_dir out d)))
              (map (lval out) (filter (fun p => beq (lkey out p) l) L')).
Proof.
  intros out s L L' l d HR HP Hl Hd.
  apply Permutation_trans with (map (fun t => lru_at t s) (rev (targets_of (stubs s) (head_dir out d)))).
  - apply Permutation_map. apply Permutation_rev.
  - rewrite (HR l d Hl Hd). apply Permutation_map. apply Permutation_filter. exact HP.
Qed.

(* ====================================================================== *)
(* T2b. a complete schedule ends like the batches one after another        *)
(* ====================================================================== *)

Lemma done_pend : forall b a, BInv b a -> b_done b = true ->
  pend_out b = [] /\ pend_in b = [] /\ pend_ev b = [].
Proof.
  intros b a HB Hd. pose proof (BI_done b a HB Hd) as E.
  unfold pend_out, pend_in, pend_ev. rewrite E. auto.
Qed.

Theorem C16_schedule_independent : forall datas sched s0 a0, R s0 a0 -> Forall wf_data datas ->
  let cs := map (fun d => CBatch (batch_start d)) datas in
  let cs' := fst (exec_sched sched cs s0) in
  let s_fin := snd (exec_sched sched cs s0) in
  forallb co_done cs' = true ->
  let a_seq := fold_left (fun a d => fst (s_batch d a)) datas a0 in
  let L := flat_map links_of datas in
  exists a_fin go gi,
    SInv s_fin a_fin go gi /\
    (* pages and crawled marks *)
    (forall l c, In (l, c) (a_pages a_fin) <-> In (l, c) (a_pages a_seq)) /\
    (forall l c, In (l, c) (pages_iter s_fin) <-> In (l, c) (a_pages a_seq)) /\
    (* the link multigraph *)
    Permutation go (a_links a0 ++ L) /\ Permutation gi (a_links a0 ++ L) /\
    a_links a_seq = a_links a0 ++ L /\
    (forall l d, wf_lru l -> nodeof s_fin l = Some d ->
       Permutation (map (fun t => lru_at t s_fin) (targets_of (stubs s_fin) (outh d)))
                   (map snd (filter (fun p => beq (fst p) l) (a_links a_seq))) /\
       Permutation (map (fun t => lru_at t s_fin) (targets_of (stubs s_fin) (inh d)))
                   (map fst (filter (fun p => beq (snd p) l) (a_links a_seq)))).
Proof.
  intros datas sched s0 a0 HR Hwf cs cs' s_fin Hdone a_seq L.
  unfold cs', s_fin, cs in *. rewrite start_map, exec_sched_batch in *. cbn [fst snd] in *.
  destruct (GInv_exec a0 datas sched _ _ _ _ _ (GInv_init s0 a0 datas HR Hwf))
    as (a & go & gi & [Gs Gb Gl Go Gi Gp Gso Gc Gin]).
  set (bs := fst (bexec sched (map batch_start datas) s0)) in *.
  set (s' := snd (bexec sched (map batch_start datas) s0)) in *.
  assert (Hpend : forall b, In b bs -> pend_out b = [] /\ pend_in b = [] /\ pend_ev b = []).
  { intros b Hb. rewrite Forall_forall in Gb. apply (done_pend b a (Gb b Hb)).
    rewrite forallb_forall in Hdone. apply (Hdone (CBatch b)). apply in_map. exact Hb. }
  rewrite (flat_map_nil _ _ pend_out bs) in Go by (intros b Hb; apply (Hpend b Hb)).
  rewrite (flat_map_nil _ _ pend_in bs) in Gi by (intros b Hb; apply (Hpend b Hb)).
  rewrite app_nil_r in Go, Gi.
  destruct (s_seq_ev datas a0) as (Lseq & Eseq). fold a_seq in Lseq, Eseq. fold L in Lseq, Go, Gi.
  change (s_seq datas a0) with a_seq in *.
  assert (Hpages : forall l c, In (l, c) (a_pages a) <-> In (l, c) (a_pages a_seq)).
  { apply (pages_char a0 (flat_map events datas)).
    - apply (R_pages_nodup s' a (SI_core _ _ _ _ Gs)).
    - apply (R_pages_nodup _ _ (seq_Rcore datas s0 a0 Hwf (proj1 HR))).
    - split; [exact Gp|]. split; [exact Gso|]. intros e He.
      destruct (Gc e He) as [H|(b & Hb & Hbe)]; [exact H|].
      destruct (Hpend b Hb) as (_ & _ & E). rewrite E in Hbe. destruct Hbe.
    - exact Eseq. }
  exists a, go, gi. split; [exact Gs|]. split; [exact Hpages|].
  split; [intros l c; rewrite (pages_iter_spec s' a (SI_core _ _ _ _ Gs)); apply Hpages|].
  split; [exact Go|]. split; [exact Gi|]. split; [exact Lseq|].
  intros l d Hl Hd. rewrite Lseq. split.
  - exact (Rdir_perm true s' go (a_links a0 ++ L) l d (SI_out _ _ _ _ Gs) Go Hl Hd).
  - exact (Rdir_perm false s' gi (a_links a0 ++ L) l d (SI_in _ _ _ _ Gs) Gi Hl Hd).
Qed.

(* ====================================================================== *)
(* the same, against the model run of the requests one after another      *)
(* ====================================================================== *)

Lemma seq_R : forall datas s a, Forall (fun d => wf_op (OBatch d)) datas -> R s a ->
  R (m_seq datas s) (s_seq datas a).
Proof.
  induction datas as [|d datas IH]; intros s a Hwf HR; [exact HR|].
  inversion Hwf as [|? ? Hd Hwf']; subst. unfold m_seq, s_seq. cbn [fold_left].
  apply (IH _ _ Hwf'). destruct HR as [HC HL]. split.
  - apply (batch_crawl_Rcore d s a (proj1 Hd) HC).
  - apply (batch_crawl_Rlinks d s a HC HL Hd).
Qed.

Theorem C16_observable : forall datas sched s0 a0, R s0 a0 ->
  Forall (fun d => wf_op (OBatch d)) datas ->
  let cs := map (fun d => CBatch (batch_start d)) datas in
  let s_fin := snd (exec_sched sched cs s0) in
  forallb co_done (fst (exec_sched sched cs s0)) = true ->
  let s_one := fold_left (fun s d => fst (batch_crawl d s)) datas s0 in
  (forall l c, In (l, c) (pages_iter s_fin) <-> In (l, c) (pages_iter s_one)) /\
  (forall l d d', wf_lru l -> nodeof s_fin l = Some d -> nodeof s_one l = Some d' ->
     Permutation (map (fun t => lru_at t s_fin) (targets_of (stubs s_fin) (outh d)))
                 (map (fun t => lru_at t s_one) (targets_of (stubs s_one) (outh d'))) /\
     Permutation (map (fun t => lru_at t s_fin) (targets_of (stubs s_fin) (inh d)))
                 (map (fun t => lru_at t s_one) (targets_of (stubs s_one) (inh d')))).
Proof.
  intros datas sched s0 a0 HR Hwf cs s_fin Hdone s_one.
  assert (Hwf' : Forall wf_data datas).
  { apply Forall_forall. intros d Hd. rewrite Forall_forall in Hwf. apply (Hwf d Hd). }
  destruct (C16_schedule_independent datas sched s0 a0 HR Hwf' Hdone)
    as (a & go & gi & _ & _ & Hp & _ & _ & _ & Hl).
  destruct (seq_R datas s0 a0 Hwf HR) as [HC1 HL1].
  change (m_seq datas s0) with s_one in HC1, HL1.
  change (fold_left (fun a d => fst (s_batch d a)) datas a0) with (s_seq datas a0) in Hp, Hl.
  split.
  - intros l c. rewrite (pages_iter_spec s_one _ HC1). apply Hp.
  - intros l d d' Hwl Hd Hd'. destruct (Hl l d Hwl Hd) as (H1 & H2). split.
    + apply (Permutation_trans H1). rewrite <- (L_out _ _ HL1 l d' Hwl Hd').
      apply Permutation_map. symmetry. apply Permutation_rev.
    + apply (Permutation_trans H2). rewrite <- (L_in _ _ HL1 l d' Hwl Hd').
      apply Permutation_map. symmetry. apply Permutation_rev.
Qed.
