(* TraceFacts6.v — C18, final theorems: every covered request replays soundly
   (step_trace), the initial state satisfies the invariant, clear replays from empty
   files, every cut of a request is free of dangling pointers and pointwise below the
   completed files, and the order of the writes matters. *)
From Coq Require Import List NArith Bool Lia Arith Permutation.
Import ListNotations.
From Traph Require Import Bytes Consts Helpers Rules Tst TstDefs Traph Traphw Spec Ops RefDefs
  TstFacts LinkFacts TraceDefs TraceFacts TraceFacts2 TraceFacts3 TraceFacts4 TraceFacts5.
Open Scope N_scope.

(* ====================================================================== *)
(* Rules: reopen, init, clear                                              *)
(* ====================================================================== *)
Lemma install_false_same : forall rs s,
  tr (install_rules rs false s) = tr s /\ nb (install_rules rs false s) = nb s /\
  lastwe (install_rules rs false s) = lastwe s /\ stubs (install_rules rs false s) = stubs s.
Proof.
  induction rs as [|[p k] rs IH]; intro s; [repeat split; reflexivity|].
  unfold install_rules in *. cbn [fold_left].
  destruct (IH (fst (add_rule p k false s))) as (E1 & E2 & E3 & E4).
  rewrite E1, E2, E3, E4. repeat split; reflexivity.
Qed.

Lemma reopen_Tr : forall d rs s, Inv18 s -> Tr [] s (reopen d rs s).
Proof.
  intros d rs s H. unfold reopen.
  destruct (install_false_same rs (mkT (tr s) (nb s) (lastwe s) (stubs s) [] d)) as (E1 & E2 & E3 & E4).
  apply Tr_ram; assumption.
Qed.

Lemma Inv18_empty : forall rl d, Inv18 (mkT Lf 1 0 [] rl d).
Proof.
  intros rl d. constructor; cbn [tr nb stubs].
  - split; exact I.
  - reflexivity.
  - lia.
  - split; intros p; intros; rewrite find_Lf in *; discriminate.
  - intros p s d0 Hf. rewrite find_Lf in Hf. discriminate.
  - intros i tg pv E. destruct i; discriminate E.
  - intros p d0 Hf. rewrite find_Lf in Hf. discriminate.
  - intros i tg pv E. destruct i; discriminate E.
Qed.

Definition ir_step (s : traph) (x : bytes * rulekind) : traph := fst (add_rule (fst x) (snd x) true s).
Definition ir_w (s : traph) (x : bytes * rulekind) : list wr := add_rule_w (fst x) (snd x) s.

Lemma install_rules_Tr : forall rs s, Inv18 s -> Tr (install_rules_w rs s) s (install_rules rs true s).
Proof.
  intros rs s H. unfold install_rules_w, install_rules.
  rewrite (fold_left_ext _ _ _ (fun '(s, w) x => (ir_step s x, w ++ ir_w s x)))
    by (intros [s0 w0] [p k]; reflexivity).
  rewrite fold_pair. cbn [snd app].
  rewrite (fold_left_ext _ _ (fun s '(p, k) => fst (add_rule p k true s)) ir_step)
    by (intros s0 [p k]; reflexivity).
  apply flat_Tr; [exact H|]. intros s0 [p k] _ H1. apply add_rule_Tr. exact H1.
Qed.

Theorem init_Inv18 : forall d rs, Inv18 (init d rs).
Proof.
  intros d rs. unfold init. exact (Tr_inv _ _ _ (install_rules_Tr rs _ (Inv18_empty [] d))).
Qed.

(* clear truncates both files: its trace is replayed on EMPTY files *)
Definition files0 : files := mkFiles [] 0 [].

Theorem clear_trace : forall od ors s,
  apply_all (clear_w od ors s) files0 = files_of (clear od ors s) /\
  Inv18 (clear od ors s) /\ safe_all (clear_w od ors s) files0.
Proof.
  intros od ors s. unfold clear_w, clear.
  set (d := match od with Some d => d | None => dflt s end).
  destruct ors as [rs|].
  - destruct (install_rules_Tr rs _ (Inv18_empty [] d)) as (E & I' & S').
    split; [exact E|]. split; [exact I'|]. cbn [app safe_all safe_write]. repeat split. exact S'.
  - split; [reflexivity|]. split; [apply Inv18_empty|]. cbn. auto.
Qed.

Corollary clear_cuts : forall od ors s k,
  no_dangling (apply_all (firstn k (clear_w od ors s)) files0) /\
  files_below (apply_all (firstn k (clear_w od ors s)) files0) (files_of (clear od ors s)).
Proof.
  intros od ors s k. destruct (clear_trace od ors s) as (E & _ & S').
  rewrite <- E. apply safe_all_cuts; [|exact S'].
  split; [intros b []|intros j tg pv Ej; destruct j; discriminate Ej].
Qed.

(* ====================================================================== *)
(* Part B — every covered request                                          *)
(* ====================================================================== *)
Definition covered (o : op) : Prop := match o with OClear _ _ => False | _ => True end.

Theorem step_Tr : forall s o, Inv18 s -> wf_op o -> covered o ->
  Tr (step_w s o) s (fst (step s o)).
Proof.
  intros s o H Hwf Hc. destruct o; cbn [step_w step wf_op covered] in *.
  - apply add_page_Tr. exact H.
  - apply add_pages_Tr. exact H.
  - apply add_links_Tr; assumption.
  - apply batch_Tr; [exact H|apply Hwf].
  - apply create_webentity_Tr. exact H.
  - apply delete_webentity_Tr. exact H.
  - apply add_prefix_Tr. exact H.
  - apply remove_prefix_Tr. exact H.
  - apply move_prefix_Tr. exact H.
  - apply add_rule_Tr. exact H.
  - apply remove_rule_Tr. exact H.
  - cbn [fst]. apply reopen_Tr. exact H.
  - destruct Hc.
Qed.

Theorem step_trace : forall s o, Inv18 s -> wf_op o -> covered o ->
  apply_all (step_w s o) (files_of s) = files_of (fst (step s o)) /\ Inv18 (fst (step s o)).
Proof. intros s o H Hwf Hc. destruct (step_Tr s o H Hwf Hc) as (E & I' & _). auto. Qed.

Theorem step_safe : forall s o, Inv18 s -> wf_op o -> covered o -> safe_all (step_w s o) (files_of s).
Proof. intros s o H Hwf Hc. apply (step_Tr s o H Hwf Hc). Qed.

(* the invariant along a whole history of covered requests *)
Fixpoint mrun_state (h : list op) (s : traph) : traph :=
  match h with [] => s | o :: h' => mrun_state h' (fst (step s o)) end.

Theorem history_Inv18 : forall h s, Inv18 s -> Forall (fun o => wf_op o /\ covered o) h ->
  Inv18 (mrun_state h s).
Proof.
  induction h as [|o h IH]; intros s H Hh; [exact H|].
  inversion Hh as [|o' h' [Hw Hc] Hh']; subst. cbn [mrun_state].
  apply IH; [|exact Hh']. apply (step_trace s o H Hw Hc).
Qed.

(* ====================================================================== *)
(* Part C — cuts                                                           *)
(* ====================================================================== *)
Theorem C18_cut_no_dangling : forall s o, Inv18 s -> wf_op o -> covered o -> forall k,
  no_dangling (apply_all (firstn k (step_w s o)) (files_of s)).
Proof.
  intros s o H Hwf Hc k.
  apply (safe_all_cuts (step_w s o) (files_of s) (Inv18_no_dangling s H) (step_safe s o H Hwf Hc) k).
Qed.

Theorem C18_cut_below : forall s o, Inv18 s -> wf_op o -> covered o -> forall k,
  files_below (apply_all (firstn k (step_w s o)) (files_of s)) (files_of (fst (step s o))).
Proof.
  intros s o H Hwf Hc k.
  rewrite <- (proj1 (step_trace s o H Hwf Hc)).
  apply (safe_all_cuts (step_w s o) (files_of s) (Inv18_no_dangling s H) (step_safe s o H Hwf Hc) k).
Qed.

(* ---- the order of the writes matters ------------------------------------------------- *)
(* s1: the trie holding the single node "a|"; adding "a|b|" appends the child block, THEN
   rewrites the parent.  The swapped list reaches the same files, but its 1-prefix has a
   dangling child pointer. *)
Definition ex_s1 : traph := fst (add_lru false [97; 124] (mkT Lf 1 0 [] [] Domain)).
Definition ex_child : tblock := main_block (mkNd 256 128 [98; 124] false false false true 0 0 0) 0 0 0.
Definition ex_parent : tblock := main_block (mkNd 128 0 [97; 124] false false false true 0 0 0) 0 0 256.

Theorem C18_order_matters :
  add_lru_w false [97; 124; 98; 124] ex_s1 = [TApp ex_child; TSet 128 ex_parent] /\
  apply_all [TSet 128 ex_parent; TApp ex_child] (files_of ex_s1)
    = apply_all [TApp ex_child; TSet 128 ex_parent] (files_of ex_s1) /\
  no_dangling (apply_all (firstn 1 [TApp ex_child; TSet 128 ex_parent]) (files_of ex_s1)) /\
  ~ no_dangling (apply_all (firstn 1 [TSet 128 ex_parent; TApp ex_child]) (files_of ex_s1)).
Proof.
  split; [vm_compute; reflexivity|]. split; [vm_compute; reflexivity|]. split.
  - assert (Hi : Inv18 ex_s1) by (apply add_lru_Tr, Inv18_empty).
    assert (E : [TApp ex_child; TSet 128 ex_parent] = add_lru_w false [97; 124; 98; 124] ex_s1)
      by (vm_compute; reflexivity).
    rewrite E.
    apply (safe_all_cuts _ _ (Inv18_no_dangling _ Hi) (proj2 (proj2 (add_lru_Tr false _ ex_s1 Hi))) 1%nat).
  - assert (E : apply_all (firstn 1 [TSet 128 ex_parent; TApp ex_child]) (files_of ex_s1)
                = mkFiles [ex_parent] 0 []) by (vm_compute; reflexivity).
    rewrite E. intros [Hb _]. specialize (Hb ex_parent (or_introl eq_refl)).
    destruct Hb as (_ & _ & Hc & _). cbn [ft length] in Hc.
    change (b_child ex_parent) with 256 in Hc.
    destruct Hc as [Hc|(i & Hi & Hc)]; [discriminate Hc|].
    assert (i = 0%nat) by lia. subst i. vm_compute in Hc. discriminate Hc.
Qed.
