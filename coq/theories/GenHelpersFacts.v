(* GenHelpersFacts.v — the functions TRANSLATED from /repo/traph/helpers.py on this run
   (GenHelpers.v) are equal to the hand-written model (Helpers.v).  The C17 theorems
   and the path arithmetic of C09 are thereby re-checked against the current source:
   a change to https_variation / lru_variations / base4_append changes GenHelpers.v and
   these proofs no longer go through. *)
From Coq Require Import List NArith Bool Arith.
Import ListNotations.
From Traph Require Import Bytes Helpers GenHelpers.

Lemma py_https_variation_eq : forall l, py_https_variation l = https_variation l.
Proof. intros l. reflexivity. Qed.

Lemma https_variation_nonempty : forall l v, https_variation l = Some v -> v <> [].
Proof.
  intros l v H. unfold https_variation in H.
  destruct (starts_with s_http l) eqn:E1.
  - injection H as <-. destruct l as [|x l']; [discriminate|].
    cbn [replace_first]. rewrite E1. discriminate.
  - destruct (starts_with s_https l) eqn:E2; [|discriminate].
    injection H as <-. destruct l as [|x l']; [discriminate|].
    cbn [replace_first]. rewrite E2. discriminate.
Qed.

Ltac split_ifs :=
  try match goal with |- context [Nat.leb ?a 1] => destruct (Nat.leb a 1); [reflexivity|] end;
  try match goal with |- context [beq (last ?a ?b) ?c] => destruct (beq (last a b) c) end;
  repeat match goal with
         | |- context [if ?c then _ else _] => destruct c
         end.

Lemma py_lru_variations_eq : forall l, py_lru_variations l = lru_variations l.
Proof.
  intros l. unfold py_lru_variations, lru_variations.
  rewrite py_https_variation_eq.
  destruct l as [|x l']; [reflexivity|].
  cbn [GenHelpers.nonempty negb].
  set (l := x :: l').
  destruct (https_variation l) as [v|] eqn:Hv.
  - pose proof (https_variation_nonempty l v Hv) as Hne.
    destruct v as [|y v']; [contradiction|].
    cbn [otruth obytes_get app].
    cbv [h_tag h_www sep].
    change (fun v_s : bytes => starts_with [104; 58]%N v_s) with (starts_with [104; 58]%N).
    cbv zeta.
    set (hs := filter (starts_with [104; 58]%N) (split_on 124%N l)).
    destruct (Nat.leb (length hs) 1); [reflexivity|].
    destruct (beq (last hs []) [104; 58; 119; 119; 119]%N).
    + reflexivity.
    + reflexivity.
  - cbn [otruth app].
    cbv [h_tag h_www sep].
    change (fun v_s : bytes => starts_with [104; 58]%N v_s) with (starts_with [104; 58]%N).
    cbv zeta.
    set (hs := filter (starts_with [104; 58]%N) (split_on 124%N l)).
    destruct (Nat.leb (length hs) 1); [reflexivity|].
    destruct (beq (last hs []) [104; 58; 119; 119; 119]%N).
    + reflexivity.
    + reflexivity.
Qed.

Lemma py_base4_append_eq : forall p n, py_base4_append p n = base4_append p n.
Proof. intros p n. reflexivity. Qed.

Print Assumptions py_https_variation_eq.
Print Assumptions py_lru_variations_eq.
Print Assumptions py_base4_append_eq.
