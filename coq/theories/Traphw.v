(* Traphw.v — the program-ordered sequence of storage writes each write request
   issues (model of the `storage.write` calls of node.py / header.py / link_store).
   The state transformers are those of Traph.v; this file only adds, for each
   request, the list of writes, computed by re-running the request's control flow on
   the intermediate states.  Definitions only. *)
From Coq Require Import List NArith Bool.
From Traph Require Import Bytes Consts Helpers Rules Tst Traph Codec.
Import ListNotations.
Open Scope N_scope.

Inductive wr :=
| TApp (b : tblock)            (* lru_trie.dat: append one block *)
| TSet (a : N) (b : tblock)    (* lru_trie.dat: rewrite the block at offset a *)
| THdr (last : N)              (* lru_trie.dat: rewrite the header block *)
| LApp (s : N * N)             (* link_store.dat: append one stub *)
| LHdr.                        (* link_store.dat: rewrite the header block *)

(* where a missing node is being created *)
Inductive ctx :=
| CRoot                                           (* empty trie: the root itself *)
| CSib (d : nd) (la ra ca : N) (isleft : bool)      (* new BST leaf under d *)
| CChild (d : nd) (la ra : N).                    (* new child of d *)

Definition new_blocks (d : nd) : list wr :=
  TApp (main_block d 0 0 0) :: map TApp (tail_blocks (stem_tail_chunks (stem d))).

Section Insw.
  Variable flag : bool.

  Fixpoint insw (stems : list bytes) (pa nb : N) (c0 : ctx) (t : tst) {struct stems} : list wr :=
    match stems with
    | [] => []
    | s :: rest =>
      (fix bst (cx : ctx) (t : tst) : list wr :=
         match t with
         | Lf =>
             let a := nb * bsz in
             let clear := flag && nonempty rest in
             let dfinal := mkNd a pa s false false false (negb clear) 0 0 0 in
             let here :=
                 match cx with
                 | CChild pd la ra =>
                     new_blocks dfinal ++ [TSet (addr pd) (main_block pd la ra a)]
                 | CSib pd la ra ca isleft =>
                     new_blocks (set_nochild true dfinal)
                       ++ [TSet (addr pd) (main_block pd (if isleft then a else la) (if isleft then ra else a) ca)]
                       ++ (if clear then [TSet a (main_block dfinal 0 0 0)] else [])
                 | CRoot =>
                     new_blocks (set_nochild true dfinal)
                       ++ (if clear then [TSet a (main_block dfinal 0 0 0)] else [])
                 end in
             here ++ insw rest a (nb + nblk s) (CChild dfinal 0 0) Lf
         | Nd d l c r =>
             let la := root_addr l in let ra := root_addr r in let ca := root_addr c in
             match lex s (stem d) with
             | Eq =>
                 let clear := flag && nonempty rest && nochild d in
                 let d' := if flag && nonempty rest then set_nochild false d else d in
                 (if clear then [TSet (addr d) (main_block d' la ra ca)] else [])
                   ++ insw rest (addr d) nb (CChild d' la ra) c
             | Lt => bst (CSib d la ra ca true) l
             | Gt => bst (CSib d la ra ca false) r
             end
         end) c0 t
    end.
End Insw.

Definition add_lru_w (flag : bool) (lru : bytes) (s : traph) : list wr :=
  insw flag (lru_iter lru) 0 (nb s) CRoot (tr s).

(* node.write() of an existing node: its whole block, from the current tree *)
Definition node_write (lru : bytes) (s : traph) : list wr :=
  match find_sub (lru_iter lru) (tr s) with
  | Some (Nd d l c r) => [TSet (addr d) (main_block d (root_addr l) (root_addr r) (root_addr c))]
  | _ => []
  end.

Definition trie_add_page_w (lru : bytes) (cr : bool) (s : traph) : list wr :=
  let '(s1, _) := add_lru false lru s in
  add_lru_w false lru s ++
  match find (lru_iter lru) (tr s1) with
  | None => []
  | Some d =>
      if page d then (if cr && negb (crawled d) then node_write lru (fst (fst (trie_add_page lru cr s))) else [])
      else node_write lru (fst (fst (trie_add_page lru cr s)))
  end.

(* __add_prefixes: all the walks, then the header, then one rewrite per valid prefix *)
Fixpoint walk_prefixes_w (ps : list bytes) (s : traph) : list wr :=
  match ps with
  | [] => []
  | p :: ps' => add_lru_w true p s ++ walk_prefixes_w ps' (fst (add_lru true p s))
  end.
Fixpoint set_we_w (w : N) (ps : list bytes) (s : traph) : list wr :=
  match ps with
  | [] => []
  | p :: ps' =>
      let s' := set_tree (upd (set_we w) (lru_iter p) (tr s)) s in
      node_write p s' ++ set_we_w w ps' s'
  end.
Definition add_prefixes_w (ps : list bytes) (best : bool) (s : traph) : list wr :=
  let '(s1, ninv, valid) := walk_prefixes ps s 0%nat [] in
  walk_prefixes_w ps s ++
  (if negb (Nat.eqb ninv 0) && negb best then []
   else if Nat.eqb ninv (length ps) then []
   else THdr (lastwe s1 + 1) :: set_we_w (lastwe s1 + 1) valid s1).

Definition add_page_int_w (lru : bytes) (cr : bool) (s : traph) : list wr :=
  let '(s1, h, _) := trie_add_page lru cr s in
  trie_add_page_w lru cr s ++
  match decide s1 lru h with
  | LCand p => add_prefixes_w (lru_variations p) true s1
  | _ => []
  end.

Definition st_of (x : traph * N * list (N * list bytes)) : traph := fst (fst x).

Definition add_pages_w (lrus : list bytes) (cr : bool) (s : traph) : list wr :=
  snd (fold_left (fun '(s, w) l => (st_of (add_page_int l cr s), w ++ add_page_int_w l cr s)) lrus (s, [])).

(* LinkStore.add_links: the stubs, then the page block *)
Definition store_links_w (out : bool) (lru : bytes) (targets : list N) (s : traph) : list wr :=
  match targets with
  | [] => []
  | _ =>
      match find (lru_iter lru) (tr s) with
      | None => []
      | Some d =>
          let st' := fst (push_stubs targets (if out then outh d else inh d) (stubs s)) in
          map LApp (skipn (length (stubs s)) st') ++ node_write lru (store_links out (lru_iter lru) targets s)
      end
  end.

Definition flush_links_w (out : bool) (mm : list (bytes * list bytes)) (s : traph) : list wr :=
  snd (fold_left (fun '(s, w) '(p, others) =>
                    let tg := map (fun o => addr_of o s) others in
                    (store_links out (lru_iter p) tg s, w ++ store_links_w out p tg s))
                 mm (s, [])).

Definition add_links_w (links : list (bytes * bytes)) (s : traph) : list wr :=
  let see (l : bytes) '(s, w, seen) :=
      if mem_bytes l seen then (s, w, seen)
      else (st_of (add_page_int l false s), w ++ add_page_int_w l false s, l :: seen) in
  let '(s1, w, _, outs, ins) :=
      fold_left (fun '(s, w, seen, outs, ins) '(a, b) =>
                   let '(s, w, seen) := see a (s, w, seen) in
                   let '(s, w, seen) := see b (s, w, seen) in
                   (s, w, seen, mm_add a b outs, mm_add b a ins))
                links (s, [], [], [], []) in
  w ++ flush_links_w true outs s1 ++ flush_links_w false ins (flush_links true outs s1).

Definition batch_crawl_w (data : list (bytes * list bytes)) (s : traph) : list wr :=
  let '(s1, w, _, ins) :=
      fold_left
        (fun '(s, w, seen, ins) '(src, tgts) =>
           let '(s, w, seen) :=
               if mem_bytes src seen
               then (let s' := set_tree (upd set_crawled (lru_iter src) (tr s)) s in
                     match find (lru_iter src) (tr s) with
                     | Some d => if crawled d then (s', w, seen) else (s', w ++ node_write src s', seen)
                     | None => (s', w, seen)
                     end)
               else (st_of (add_page_int src true s), w ++ add_page_int_w src true s, src :: seen) in
           let '(s, w, seen, ins) :=
               fold_left (fun '(s, w, seen, ins) t =>
                            let '(s, w, seen) :=
                                if mem_bytes t seen then (s, w, seen)
                                else (st_of (add_page_int t false s), w ++ add_page_int_w t false s, t :: seen) in
                            (s, w, seen, mm_add t src ins))
                         tgts (s, w, seen, ins) in
           let tg := map (fun o => addr_of o s) tgts in
           (store_links true (lru_iter src) tg s, w ++ store_links_w true src tg s, seen, ins))
        data (s, [], [], []) in
  w ++ flush_links_w false ins s1.

Definition create_webentity_w (ps : list bytes) (s : traph) : list wr := add_prefixes_w ps false s.

Definition delete_webentity_w (w : N) (ps : list bytes) (s : traph) : list wr :=
  match delete_webentity w ps s with
  | (_, Ok) =>
      snd (fold_left (fun '(s, ws) p =>
                        let s' := set_tree (upd (set_we 0) (lru_iter p) (tr s)) s in (s', ws ++ node_write p s'))
                     (dedup_bytes ps []) (s, []))
  | _ => []
  end.

Definition add_prefix_w (p : bytes) (w : N) (s : traph) : list wr :=
  add_lru_w true p s ++
  match add_prefix p w s with
  | (s', Ok) => node_write p s'
  | _ => []
  end.
Definition remove_prefix_w (p : bytes) (w : N) (s : traph) : list wr :=
  add_lru_w false p s ++
  match remove_prefix p w s with
  | (s', Ok) => node_write p s'
  | _ => []
  end.
Definition move_prefix_w (p : bytes) (wt ws : N) (s : traph) : list wr :=
  remove_prefix_w p ws s ++
  match remove_prefix p ws s with
  | (s1, Ok) => add_prefix_w p wt s1
  | _ => []
  end.

Definition add_rule_w (p : bytes) (k : rulekind) (s : traph) : list wr :=
  let s0 := mkT (tr s) (nb s) (lastwe s) (stubs s) (aset p k (rules s)) (dflt s) in
  let '(s1, _) := add_lru false p s0 in
  let s2 := set_tree (upd (set_rule true) (lru_iter p) (tr s1)) s1 in
  add_lru_w false p s0 ++ node_write p s2 ++ add_pages_w (pages_under p s2) false s2.

Definition remove_rule_w (p : bytes) (s : traph) : list wr :=
  match remove_rule p s with
  | (s', Ok) => node_write p s'
  | _ => []
  end.

(* opening fresh stores writes both headers, then installs the rules *)
Definition install_rules_w (rs : list (bytes * rulekind)) (s : traph) : list wr :=
  snd (fold_left (fun '(s, w) '(p, k) => (fst (add_rule p k true s), w ++ add_rule_w p k s)) rs (s, [])).
Definition clear_w (od : option rulekind) (ors : option (list (bytes * rulekind))) (s : traph) : list wr :=
  let d := match od with Some d => d | None => dflt s end in
  [THdr 0; LHdr] ++
  match ors with
  | Some rs => install_rules_w rs (mkT Lf 1 0 [] [] d)
  | None => []
  end.

(* ---- bytes of a write and replay of a write list on the two files -------------- *)
Definition wr_file (w : wr) : bool := match w with LApp _ | LHdr => false | _ => true end.   (* true: trie store *)
Definition wr_offset (w : wr) : option N :=
  match w with TApp _ | LApp _ => None | TSet a _ => Some a | THdr _ | LHdr => Some 0 end.
Definition wr_bytes (w : wr) : bytes :=
  match w with
  | TApp b | TSet _ b => encode_tblock b
  | THdr n => encode_trie_header n
  | LApp s => encode_stub s
  | LHdr => encode_link_header
  end.
