(* SchedFacts13.v — completeness of get_webentity_pagelinks_iter (plinksq_step of Sched.v)
   for the OUTBOUND and the INBOUND clause under growth, any schedule.  One invariant
   (LC2, parameterised by the direction out) covers an out-link T -> U of a visited page T
   (out = true; appended under the outbound or the internal clause) and an in-link U -> T of a
   visited page T (out = false; the in-items of a page are expanded from the in-head read
   when the page was popped, after its out-items have been processed: field l_inpend).
   The link is already in the answer, or among the pending items, or (out = false) the
   pending in-head is the one of T and its chain holds U, or the prefix has not been
   started, or some stack entry covers T (cov of SchedFacts8).
   The clause the item is appended under must hold at the moment the item is processed:
   lclause.  The generic theorem (C16_pagelinks_complete_moments) asks for it at every
   moment; the final forms derive it from the FIRST turn: the other end U does not resolve
   to w in s1 and w <= lastwe s1 (webentity ids created later are above the counter, and a
   node that carries an id keeps it: wext / we_at_back of SchedFacts10), so U never
   resolves to w. *)
From Coq Require Import List NArith Bool Lia Arith Permutation.
Import ListNotations.
From Traph Require Import Bytes Consts Helpers Rules Tst TstDefs Traph Spec Ops RefDefs TstFacts TopkFacts
  ViewFacts ViewFacts2 RefCore RefCore3 LinkFacts LinkFacts2 LinkFacts3 RefFull QueryCore QueryCore3 QueryLinks IdFacts
  Sched SchedFacts SchedFacts2 SchedFacts3 SchedFacts4 SchedFacts5 SchedFacts6 SchedFacts7 SchedFacts8 SchedFacts9
  SchedFacts10.
Open Scope N_scope.

(* ====================================================================== *)
(* the target link, the clause, the invariant                             *)
(* ====================================================================== *)

(* the visited page T (a list of stems) under the prefix P in the state s: a page with the
   block aU on its out-chain (out = true) / in-chain (out = false); no node strictly below
   the prefix on the way to it (itself included) carries a webentity *)
Definition ltgt2 (out : bool) (P : bytes) (T : list bytes) (aU : N) (s : traph) : Prop :=
  under (lru_iter P) T /\
  (exists dT, find T (tr s) = Some dT /\ page dT = true /\ In aU (targets_of (stubs s) (head_dir out dT))) /\
  (forall p' d', under (lru_iter P) p' -> p' <> lru_iter P -> under p' T ->
                 find p' (tr s) = Some d' -> we d' = 0).

(* the reported triple: (source, target, weight) *)
Definition ltriple (out : bool) (lT lU : bytes) (wt : N) : bytes * bytes * N :=
  if out then (lT, lU, wt) else (lU, lT, wt).

(* the item (out, T, U) is appended when the other end U resolves to ow *)
Definition lclause (out : bool) (w : N) (inb int outb : bool) (ow : N) : Prop :=
  if out then (outb && negb (ow =? w)) || (int && (ow =? w)) = true
  else inb = true /\ ow <> w.

Lemma lclause_flags : forall out w inb int outb ow, lclause out w inb int outb ow ->
  negb int && negb outb && negb inb = false.
Proof.
  intros [|] w [|] [|] [|] ow H; cbn in *; try reflexivity; try discriminate; destruct H; discriminate.
Qed.

Lemma lclause_out_flags : forall w inb int outb ow, lclause true w inb int outb ow -> outb || int = true.
Proof. intros w inb [|] [|] ow H; cbn in *; try reflexivity; discriminate. Qed.

Lemma ladd_clause : forall out q s lT aU wt,
  lclause out (l_we q) (l_inb q) (l_int q) (l_outb q) (we_at aU (tr s)) ->
  ladd q s (out, lT, aU, wt) = [ltriple out lT (lru_at aU s) wt].
Proof.
  intros out q s lT aU wt H. unfold ladd, lclause, ltriple in *. destruct out.
  - rewrite H. reflexivity.
  - destruct H as (_ & Hne). apply N.eqb_neq in Hne. rewrite Hne. reflexivity.
Qed.

Lemma ladd_clause_in : forall out q s lT aU wt,
  lclause out (l_we q) (l_inb q) (l_int q) (l_outb q) (we_at aU (tr s)) ->
  In (ltriple out lT (lru_at aU s) wt) (ladd q s (out, lT, aU, wt)).
Proof. intros out q s lT aU wt H. rewrite (ladd_clause out q s lT aU wt H). left. reflexivity. Qed.

Definition LC2 (out : bool) (P : bytes) (T : list bytes) (aU : N) (lU : bytes) (q : lco) (s : traph) : Prop :=
  l_refused q = true \/ In P (l_prefixes q) \/
  (exists wt, In (ltriple out (concat T) lU wt) (l_acc q)) \/
  (exists wt, In (out, concat T, aU, wt) (l_items q)) \/
  (out = false /\ exists h, l_inpend q = Some (concat T, h) /\ head_ok (length (stubs s)) h /\
                            In aU (targets_of (stubs s) h)) \/
  ((exists d0, find (lru_iter P) (tr s) = Some d0 /\ addr d0 = l_start q) /\
   Exists (cov (tr s) T) (l_stack q)).

(* the steps of the other coroutines keep it *)
Lemma LC2_ext : forall out P T aU lU q s s', sext s s' -> lext s s' ->
  LC2 out P T aU lU q s -> LC2 out P T aU lU q s'.
Proof.
  intros out P T aU lU q s s' Hx (_ & Hlen & Htg & _) [H|[H|[H|[H|[(Eo & h & Ei & Hh & Hin)|((d0 & Hf0 & Ha0) & Hc)]]]]];
    [left; exact H|right; left; exact H|right; right; left; exact H|right; right; right; left; exact H| |].
  - right. right. right. right. left. split; [exact Eo|]. exists h. split; [exact Ei|].
    split; [apply (head_ok_mono _ _ _ Hlen Hh)|]. rewrite (Htg _ Hh). exact Hin.
  - right. right. right. right. right. split.
    + destruct (text_find _ _ _ Hx d0 Hf0) as (d0' & Hf0' & _ & Ea & _). exists d0'. split; [exact Hf0'|congruence].
    + apply Exists_exists in Hc. destruct Hc as (e & He & Hce). apply Exists_exists. exists e.
      split; [exact He|apply (cov_ext _ _ _ _ Hx Hce)].
Qed.

(* ====================================================================== *)
(* one iteration keeps the invariant                                      *)
(* ====================================================================== *)

Lemma lmicro_LC2 : forall out ps0 P T aU lU s q, wf_tst (tr s) -> addr_ok (tr s) (nb s) ->
  (forall p d, find p (tr s) = Some d -> head_ok (length (stubs s)) (inh d)) ->
  ltgt2 out P T aU s ->
  lclause out (l_we q) (l_inb q) (l_int q) (l_outb q) (we_at aU (tr s)) -> lru_at aU s = lU ->
  l_refused q = false -> LInv ps0 q s -> LC2 out P T aU lU q s -> LC2 out P T aU lU (fst (lmicro q s)) s.
Proof.
  intros out ps0 P T aU lU s q Hwf Hok Hheads (Hu & (dT & HfT & HpT & HlT) & Hwe) Hcl HlU Hnr (Hincl & Hst & _ & _) HLC.
  unfold lmicro. rewrite (lclause_flags _ _ _ _ _ _ Hcl).
  destruct HLC as [Hr|[Hpend|[Hacc|[Hitem|[(Eout & h & Einp & Hh & Hinh)|((d0 & Hf0 & Ha0) & Hcov)]]]]].
  - congruence.
  - (* the prefix has not been started *)
    destruct (l_items q) as [|it rest]; [|right; left; exact Hpend].
    destruct (l_inpend q) as [[lru h]|]; [right; left; exact Hpend|].
    destruct (l_stack q) as [|[[a pre] lv] rest] eqn:Est.
    + destruct (l_prefixes q) as [|p ps] eqn:Eps; [destruct Hpend|].
      destruct (find (lru_iter p) (tr s)) as [d|] eqn:Ef; cbn [fst]; [|left; reflexivity].
      destruct Hpend as [->|Hin]; [|right; left; exact Hin].
      right. right. right. right. right. cbn [lmk l_start l_stack]. split; [exists d; auto|]. constructor.
      destruct Hu as (rest0 & ET).
      assert (Hne : lru_iter P <> []) by (intro E; rewrite E, find_nil in Ef; discriminate).
      destruct (exists_last Hne) as (p0 & x & Ep). rewrite Ep in Ef.
      destruct (find_locs x p0 (tr s) [] d Ef) as (l & c & r & Hin & Hall). cbn [app] in Hin.
      exists p0, (Nd d l c r), (x :: rest0). cbn [fst root_addr].
      split; [exact Hin|]. split; [reflexivity|].
      assert (ET' : T = p0 ++ x :: rest0) by (rewrite ET, Ep, <- app_assoc; reflexivity).
      split; [exact ET'|]. rewrite <- Hall, <- ET', HfT. discriminate.
    + destruct (read_at a (tr s)) as [x|]; right; left; exact Hpend.
  - (* already in the answer *)
    assert (Hkeep : forall q', (forall y, In y (l_acc q) -> In y (l_acc q')) -> LC2 out P T aU lU q' s).
    { intros q' H. destruct Hacc as (c & Hc). right. right. left. exists c. apply H. exact Hc. }
    destruct (l_items q) as [|it rest].
    2:{ apply Hkeep. cbn [fst lmk l_acc]. intros y Hy. apply in_or_app. left. exact Hy. }
    destruct (l_inpend q) as [[lru h]|]; [apply Hkeep; auto|].
    destruct (l_stack q) as [|[[a pre] lv] rest].
    + destruct (l_prefixes q) as [|p ps]; [apply Hkeep; auto|].
      destruct (find (lru_iter p) (tr s)); apply Hkeep; auto.
    + destruct (read_at a (tr s)) as [x|]; apply Hkeep; auto.
  - (* among the pending items: the first one is processed *)
    destruct Hitem as (wt & Hin).
    destruct (l_items q) as [|it rest]; [destruct Hin|]. cbn [fst lmk].
    destruct Hin as [->|Hin]; [|right; right; right; left; exists wt; exact Hin].
    right. right. left. exists wt. cbn [l_acc]. apply in_or_app. right.
    rewrite <- HlU. apply ladd_clause_in. exact Hcl.
  - (* the pending in-head is the one of T *)
    destruct (l_items q) as [|it rest].
    + rewrite Einp. cbn [fst lmk]. right. right. right. left.
      destruct (proj2 (weighted_in (targets_of (stubs s) h) aU) Hinh) as (wt & Hwt).
      exists wt. cbn [l_items]. apply in_map_iff. exists (aU, wt). split; [rewrite Eout; reflexivity|exact Hwt].
    + cbn [fst lmk]. right. right. right. right. left. split; [exact Eout|]. exists h. cbn [l_inpend]. auto.
  - (* covered by a stack entry *)
    destruct (l_items q) as [|it rest0] eqn:Eit.
    { destruct (l_inpend q) as [[lru h]|] eqn:Einp.
      { right. right. right. right. right. cbn [fst lmk l_start l_stack]. split; [exists d0; auto|exact Hcov]. }
      destruct (l_stack q) as [|[[a pre] lv] rest] eqn:Est; [inversion Hcov|].
      destruct Hst as [Hn|(P0 & d0' & HP0 & Hf0' & Ha0' & Hall)]; [discriminate|].
      pose proof (Forall_inv Hall) as He. pose proof (Forall_inv_tail Hall) as Hrest.
      assert (EP : lru_iter P0 = lru_iter P) by (apply (proj2 Hok _ _ d0' d0 Hf0' Hf0); congruence).
      (* what every outcome looks like *)
      assert (Hfin : forall pushes q', l_start q' = l_start q -> l_stack q' = pushes ++ rest ->
                Exists (cov (tr s) T) pushes \/ Exists (cov (tr s) T) rest -> LC2 out P T aU lU q' s).
      { intros pushes q' E1 E2 Hex. right. right. right. right. right.
        split; [exists d0; split; [exact Hf0|congruence]|].
        rewrite E2. apply Exists_app. exact Hex. }
      apply Exists_cons in Hcov. destruct Hcov as [Hc|Hc].
      2:{ (* covered by a deeper entry *)
          destruct (read_at a (tr s)) as [x|]; cbn [fst].
          - eapply Hfin; [reflexivity|cbn [lmk l_stack]; reflexivity|right; exact Hc].
          - apply (Hfin []); [reflexivity|reflexivity|right; exact Hc]. }
      destruct Hc as (pp & sub & rst & Hin & Hra & ET & Hfr). cbn [fst] in Hra.
      destruct sub as [|d l c r]; [rewrite find_Lf in Hfr; congruence|]. cbn [root_addr] in Hra.
      destruct (read_at a (tr s)) as [x|] eqn:Er; [|exfalso; apply (read_at_none _ _ _ _ _ _ _ _ Er Hin Hra)].
      destruct (read_at_located (tr s) (nb s) a pp d l c r x Hwf Hok Hin Hra Er) as (Ex & El & Err & Ec).
      pose proof (locs_find_root _ _ _ _ _ _ Hwf Hin) as Hfd.
      destruct He as (pe & de & Hfe & Hae & Hpre & Hue). cbn [fst snd] in Hae, Hpre.
      assert (Epe : pe = pp ++ [stem d]) by (apply (proj2 Hok _ _ de d Hfe Hfd); congruence). subst pe.
      rewrite removelast_last in Hpre. rewrite EP in Hue.
      destruct rst as [|x' rst']; [rewrite find_nil in Hfr; congruence|].
      rewrite find_Nd in Hfr.
      destruct (locs_children _ _ _ _ _ _ _ Hin) as (Ic & Il & Ir).
      cbn [fst]. unfold lpushes, louts, lins. rewrite Ex, El, Err, Ec.
      destruct (lex x' (stem d)) eqn:Elex.
      + (* the path goes through this node *)
        apply lex_eq in Elex. subst x'.
        assert (ET2 : T = (pp ++ [stem d]) ++ rst') by (rewrite ET, <- app_assoc; reflexivity).
        assert (Hrel : (a =? l_start q) || (we d =? 0) = true).
        { destruct (list_eq_dec (list_eq_dec N.eq_dec) (pp ++ [stem d]) (lru_iter P)) as [E|E].
          - rewrite E in Hfd. rewrite Hf0 in Hfd. injection Hfd as <-.
            apply orb_true_intro. left. apply N.eqb_eq. congruence.
          - apply orb_true_intro. right. apply N.eqb_eq.
            apply (Hwe (pp ++ [stem d]) d Hue E); [exists rst'; exact ET2|exact Hfd]. }
        rewrite Hrel. cbn [andb].
        destruct rst' as [|y rst''].
        * (* this node is the visited page *)
          rewrite app_nil_r in ET2. rewrite ET2, Hfd in HfT. injection HfT as <-. rewrite HpT.
          assert (Ecur : pre ++ stem d = concat T) by (rewrite ET2, concat_snoc, Hpre; reflexivity).
          assert (Hnz : (head_dir out d =? 0) = false).
          { destruct (head_dir out d =? 0) eqn:E0; [|reflexivity]. apply N.eqb_eq in E0.
            rewrite E0, targets_of_0 in HlT. destruct HlT. }
          destruct out; cbn [head_dir] in *.
          -- (* its out items are produced *)
             rewrite Hnz, (lclause_out_flags _ _ _ _ _ Hcl). cbn [negb andb].
             destruct (proj2 (weighted_in (targets_of (stubs s) (outh d)) aU) HlT) as (wt & Hwt).
             right. right. right. left. exists wt. cbn [lmk l_items]. apply in_map_iff. exists (aU, wt).
             split; [|exact Hwt]. cbn [fst snd]. rewrite Ecur. reflexivity.
          -- (* its in-head is kept for later *)
             destruct Hcl as (Hinb & _). rewrite Hnz, Hinb. cbn [negb andb].
             right. right. right. right. left. split; [reflexivity|]. exists (inh d). cbn [lmk l_inpend].
             split; [rewrite Ecur; reflexivity|]. split; [apply (Hheads _ _ Hfd)|exact HlT].
        * (* the visited page is below: the child is pushed *)
          assert (Hpush : Exists (cov (tr s) T) (nz3 (root_addr c) (pre ++ stem d) (lv + 1))).
          { apply (cov_push (tr s) (nb s) T (pp ++ [stem d]) c (y :: rst'') _ _ Hwf Hok Ic ET2 Hfr). }
          eapply Hfin; [reflexivity|cbn [lmk l_stack]; reflexivity|left; apply Exists_app; left; exact Hpush].
      + (* the path goes to the left sibling subtree *)
        assert (Hns : (a =? l_start q) = false).
        { destruct (a =? l_start q) eqn:Ea; [|reflexivity]. exfalso. apply N.eqb_eq in Ea.
          assert (E : pp ++ [stem d] = lru_iter P) by (apply (proj2 Hok _ _ d d0 Hfd Hf0); congruence).
          destruct Hu as (rest1 & ET0). rewrite ET0, <- E, <- app_assoc in ET. apply app_inv_head in ET.
          cbn [app] in ET. injection ET as E1 _. rewrite <- E1, lex_refl in Elex. discriminate. }
        rewrite Hns.
        assert (Hpush : Exists (cov (tr s) T) (nz3 (root_addr l) pre lv)).
        { apply (cov_push (tr s) (nb s) T pp l (x' :: rst') _ _ Hwf Hok Il ET Hfr). }
        eapply Hfin; [reflexivity|cbn [lmk l_stack]; reflexivity|].
        left. apply Exists_app. right. apply Exists_app. left. exact Hpush.
      + (* the path goes to the right sibling subtree *)
        assert (Hns : (a =? l_start q) = false).
        { destruct (a =? l_start q) eqn:Ea; [|reflexivity]. exfalso. apply N.eqb_eq in Ea.
          assert (E : pp ++ [stem d] = lru_iter P) by (apply (proj2 Hok _ _ d d0 Hfd Hf0); congruence).
          destruct Hu as (rest1 & ET0). rewrite ET0, <- E, <- app_assoc in ET. apply app_inv_head in ET.
          cbn [app] in ET. injection ET as E1 _. rewrite <- E1, lex_refl in Elex. discriminate. }
        rewrite Hns.
        assert (Hpush : Exists (cov (tr s) T) (nz3 (root_addr r) pre lv)).
        { apply (cov_push (tr s) (nb s) T pp r (x' :: rst') _ _ Hwf Hok Ir ET Hfr). }
        eapply Hfin; [reflexivity|cbn [lmk l_stack]; reflexivity|].
        left. apply Exists_app. right. apply Exists_app. right. exact Hpush. }
    (* an item is processed: the stack is untouched *)
    right. right. right. right. right. cbn [fst lmk l_start l_stack]. split; [exists d0; auto|exact Hcov].
Qed.

(* a turn of the query *)
Lemma plinksq_step_complete2 : forall out ps0 P T aU lU s a go gi, SInv s a go gi -> ltgt2 out P T aU s ->
  lru_at aU s = lU ->
  forall fuel q, lclause out (l_we q) (l_inb q) (l_int q) (l_outb q) (we_at aU (tr s)) -> l_refused q = false ->
    LInv ps0 q s -> LC2 out P T aU lU q s -> LC2 out P T aU lU (plinksq_step fuel q s) s.
Proof.
  intros out ps0 P T aU lU s a go gi HS Ht HlU.
  pose proof (SInv_facts _ _ _ _ HS) as (_ & Hwf & Hok & _).
  assert (Hheads : forall p d, find p (tr s) = Some d -> head_ok (length (stubs s)) (inh d)).
  { intros p d Hf. apply (proj2 (B_heads s (SI_base _ _ _ _ HS) _ _ Hf)). }
  induction fuel as [|f IH]; intros q Hcl Hnr HQ HC; [exact HC|].
  rewrite plinksq_step_S.
  pose proof (lmicro_LC2 out ps0 P T aU lU s q Hwf Hok Hheads Ht Hcl HlU Hnr HQ HC) as HC1.
  destruct (snd (lmicro q s)) eqn:Ey; [exact HC1|].
  destruct (lmicro_same q s) as (E1 & E2 & E3 & E4).
  apply IH; [rewrite E1, E2, E3, E4; exact Hcl| | |exact HC1].
  - apply (proj2 (proj2 (lmicro_shape q s)) Ey).
  - apply (lmicro_sound ps0 s a go gi q HS HQ).
Qed.

(* ====================================================================== *)
(* any schedule                                                           *)
(* ====================================================================== *)

Lemma lcomplete_exec2 : forall out P T aU lU, under (lru_iter P) T ->
  forall jobs a0 i w ps0 inb int outb, nth_error jobs i = Some (JLinks w ps0 inb int outb) ->
  forall sched cl s a go gi q,
    LHInv a0 jobs cl s a go gi -> nth_error cl i = Some (CLinks q) -> LC2 out P T aU lU q s ->
    (exists dT, find T (tr s) = Some dT /\ page dT = true /\ In aU (targets_of (stubs s) (head_dir out dT))) ->
    (exists pU dU, find pU (tr s) = Some dU /\ addr dU = aU /\ concat pU = lU) ->
    (forall p' d', under (lru_iter P) p' -> p' <> lru_iter P -> under p' T ->
                   find p' (tr (snd (exec_sched sched cl s))) = Some d' -> we d' = 0) ->
    (forall k, lclause out w inb int outb (we_at aU (tr (snd (exec_sched (firstn k sched) cl s))))) ->
    exists q', nth_error (fst (exec_sched sched cl s)) i = Some (CLinks q') /\
               lshape q' /\ LC2 out P T aU lU q' (snd (exec_sched sched cl s)).
Proof.
  intros out P T aU lU Hu jobs a0 i w ps0 inb int outb Hji.
  induction sched as [|j sched IH]; intros cl s a go gi q HG Hi HC HT HU Hfinal Hwe.
  - cbn [exec_sched fst snd]. exists q. split; [exact Hi|]. split; [|exact HC].
    destruct (F2_nth_l _ _ _ _ _ _ _ (proj2 HG) Hji) as (y & Hy & HJ).
    rewrite Hi in Hy. injection Hy as <-. apply HJ.
  - cbn [exec_sched] in *.
    destruct (nth_error cl j) as [c|] eqn:Hj.
    2:{ apply (IH _ _ _ _ _ _ HG Hi HC HT HU Hfinal). intro k. specialize (Hwe (S k)).
        cbn [firstn exec_sched] in Hwe. rewrite Hj in Hwe. exact Hwe. }
    destruct (LHInv_step _ _ _ _ _ _ _ j c HG Hj) as (a1 & go1 & gi1 & HG1 & Hlx).
    pose proof (co_step_sext c s) as Hx.
    pose proof (SInv_facts _ _ _ _ (H_s _ _ _ _ _ _ _ (proj1 HG))) as (_ & Hwf & Hok & _).
    (* the target now *)
    assert (Htgt : ltgt2 out P T aU s).
    { split; [exact Hu|]. split; [exact HT|]. intros p' d' H1 H2 H3 H4.
      pose proof (exec_sext (j :: sched) cl s) as Hxx. cbn [exec_sched] in Hxx. rewrite Hj in Hxx.
      destruct (text_find p' _ _ Hxx d' H4) as (d2 & Hf2 & _ & _ & _ & Hw2).
      pose proof (Hfinal p' d2 H1 H2 H3 Hf2) as Hz.
      destruct (N.eq_dec (we d') 0) as [E|E]; [exact E|]. exfalso. apply (Hw2 E Hz). }
    assert (HT1 : exists dT, find T (tr (snd (co_step c s))) = Some dT /\ page dT = true /\
                             In aU (targets_of (stubs (snd (co_step c s))) (head_dir out dT))).
    { destruct HT as (dT & H1 & H2 & H3). destruct Hlx as (Hte & _ & _ & Hnd).
      destruct (Hte T dT H1) as (dT' & H1' & _). destruct (Hnd T dT dT' H1 H1') as (Hp & Hinc).
      exists dT'. split; [exact H1'|]. split; [apply Hp; exact H2|]. apply (Hinc out). exact H3. }
    assert (HU1 : exists pU dU, find pU (tr (snd (co_step c s))) = Some dU /\ addr dU = aU /\ concat pU = lU).
    { destruct HU as (pU & dU & H1 & H2 & H3). destruct (proj1 Hlx pU dU H1) as (dU' & H1' & Ea).
      exists pU, dU'. split; [exact H1'|]. split; [congruence|exact H3]. }
    assert (Hwe0 : lclause out w inb int outb (we_at aU (tr s))) by (apply (Hwe 0%nat)).
    assert (Hwe1 : forall k, lclause out w inb int outb
                     (we_at aU (tr (snd (exec_sched (firstn k sched) (set_nth_co j (fst (co_step c s)) cl)
                                                  (snd (co_step c s))))))).
    { intro k. specialize (Hwe (S k)). cbn [firstn exec_sched] in Hwe. rewrite Hj in Hwe.
      destruct (co_step c s) as [c' s']. exact Hwe. }
    assert (HlU : lru_at aU s = lU).
    { destruct HU as (pU & dU & H1 & H2 & H3). rewrite <- H2, <- H3. apply (lru_at_spec s pU dU Hwf Hok H1). }
    destruct (Nat.eq_dec i j) as [<-|Hne].
    + (* the query moves *)
      rewrite Hi in Hj. injection Hj as <-.
      destruct (F2_nth_l _ _ _ _ _ _ _ (proj2 HG) Hji) as (y & Hy & HJ).
      rewrite Hi in Hy. injection Hy as <-. cbn [LJ] in HJ. destruct HJ as (HQ & (F1 & F2 & F3 & F4) & Hsh & Hsh2).
      rewrite co_step_plinks in *. cbn [fst snd] in *. rewrite set_nth_co_eq in *.
      set (q1 := if l_done q then q else plinksq_step (lq_fuel q s) q s) in *.
      apply (IH _ _ _ _ _ q1 HG1); [apply (nth_set_nth_same _ _ _ _ _ Hi)| |exact HT|exact HU|exact Hfinal|exact Hwe1].
      unfold q1. destruct (l_done q) eqn:Ed; [exact HC|].
      apply (plinksq_step_complete2 out ps0 P T aU lU s a go gi (H_s _ _ _ _ _ _ _ (proj1 HG)) Htgt HlU);
        [rewrite F1, F2, F3, F4; exact Hwe0| |exact HQ|exact HC].
      destruct (l_refused q) eqn:Er; [|reflexivity]. rewrite (Hsh2 Er) in Ed. discriminate.
    + (* another coroutine moves *)
      destruct (co_step c s) as [c' s'] eqn:Ec. cbn [fst snd] in *. rewrite set_nth_co_eq in *.
      apply (IH _ _ _ _ _ q HG1); [rewrite nth_set_nth_other by exact Hne; exact Hi| |exact HT1|exact HU1|exact Hfinal|exact Hwe1].
      apply (LC2_ext _ _ _ _ _ _ _ _ Hx Hlx HC).
Qed.

(* ====================================================================== *)
(* the generic completeness theorem: the clause holds at every moment     *)
(* ====================================================================== *)

Theorem C16_pagelinks_complete_moments : forall out jobs sched1 sched2 s0 a0 i w ps inb int outb P T dT aU,
  R s0 a0 -> Forall job_wf jobs ->
  let cs0 := map job_start jobs in
  let cs1 := fst (exec_sched sched1 cs0 s0) in
  let s1 := snd (exec_sched sched1 cs0 s0) in
  let cs2 := fst (exec_sched sched2 cs1 s1) in
  let s2 := snd (exec_sched sched2 cs1 s1) in
  (* the query has not made a step yet in s1 *)
  nth_error cs1 i = Some (CLinks (plinksq_start w ps inb int outb)) -> In P ps ->
  (* the visited page is a page of s1 under P, with the block aU on its out-chain / in-chain *)
  under (lru_iter P) T -> find T (tr s1) = Some dT -> page dT = true ->
  In aU (targets_of (stubs s1) (head_dir out dT)) ->
  (* at the end no node strictly below P on the way to it, itself included, carries a webentity *)
  (forall p' d', under (lru_iter P) p' -> p' <> lru_iter P -> under p' T ->
                 find p' (tr s2) = Some d' -> we d' = 0) ->
  (* at every moment the other end resolves to a webentity for which the item is appended *)
  (forall k, lclause out w inb int outb (we_at aU (tr (snd (exec_sched (firstn k sched2) cs1 s1))))) ->
  forall q2, nth_error cs2 i = Some (CLinks q2) -> l_done q2 = true -> l_refused q2 = false ->
  exists wt, In (ltriple out (concat T) (lru_at aU s2) wt) (l_acc q2).
Proof.
  intros out jobs sched1 sched2 s0 a0 i w ps inb int outb P T dT aU HR Hwf cs0 cs1 s1 cs2 s2 Hi HP Hu HfT HpT HlT
         Hfinal Hwe q2 Hi2 Hd2 Hr2.
  destruct (LHInv_exec a0 jobs sched1 _ _ _ _ _ (LHInv_init s0 a0 jobs HR Hwf)) as (a1 & go1 & gi1 & HG1).
  fold cs0 in HG1. fold cs1 in HG1. fold s1 in HG1.
  destruct (F2_nth _ _ _ _ _ _ _ (H_c _ _ _ _ _ _ _ (proj1 HG1)) Hi) as (j & Hj & HJ).
  destruct j as [d|p k|ps0|out' auto|w0 ps0 inb0 int0 outb0]; cbn [JInv] in HJ; try contradiction.
  destruct (F2_nth _ _ _ _ _ _ _ (proj2 HG1) Hi) as (j' & Hj' & HJ'). rewrite Hj in Hj'. injection Hj' as <-.
  cbn [LJ] in HJ'. destruct HJ' as (_ & (F1 & F2 & F3 & F4) & _). cbn in F1, F2, F3, F4. subst w0 inb0 int0 outb0.
  pose proof (H_s _ _ _ _ _ _ _ (proj1 HG1)) as HS1.
  destruct (chain_target s1 a1 go1 gi1 out T dT aU HS1 HfT HlT) as (pU & dU & HfU & HaU & _ & ElU & _).
  destruct (LHInv_exec a0 jobs sched2 _ _ _ _ _ HG1) as (a2 & go2 & gi2 & HG2).
  fold cs2 in HG2. fold s2 in HG2.
  destruct (lcomplete_exec2 out P T aU (concat pU) Hu jobs a0 i w ps0 inb int outb Hj sched2 cs1 s1 a1 go1 gi1
              (plinksq_start w ps inb int outb) HG1 Hi) as (q' & Hq' & Hsh & HC).
  - right. left. exact HP.
  - exists dT. auto.
  - exists pU, dU. auto.
  - exact Hfinal.
  - exact Hwe.
  - fold cs2 in Hq'. fold s2 in HC. rewrite Hi2 in Hq'. injection Hq' as <-.
    (* the LRU of the other end is the same at the end *)
    assert (ElU2 : lru_at aU s2 = concat pU).
    { pose proof (exec_sext sched2 cs1 s1) as Hxx. fold s2 in Hxx.
      destruct (text_find pU _ _ Hxx dU HfU) as (dU2 & HfU2 & _ & Ea & _).
      pose proof (SInv_facts _ _ _ _ (H_s _ _ _ _ _ _ _ (proj1 HG2))) as (_ & Hwf2 & Hok2 & _).
      rewrite <- HaU, <- Ea. apply (lru_at_spec s2 pU dU2 Hwf2 Hok2 HfU2). }
    rewrite ElU2.
    destruct (Hsh Hd2) as (E1 & E2 & E3 & E4).
    destruct HC as [H|[H|[H|[H|[(_ & h & H & _)|(_ & H)]]]]].
    + congruence.
    + rewrite E1 in H. destruct H.
    + exact H.
    + rewrite E3 in H. destruct H as (wt & []).
    + rewrite E4 in H. discriminate.
    + rewrite E2 in H. inversion H.
Qed.

(* ====================================================================== *)
(* the other end never resolves to w                                      *)
(* ====================================================================== *)

(* a block that does not resolve to w in s1, where w is not above the counter of s1, resolves
   to w at no later moment: a node that carries a webentity keeps it, and the ids created
   later are above the counter *)
Lemma never_w : forall jobs sched1 sched2 s0 a0 w out T dT aU k,
  R s0 a0 -> Forall job_wf jobs ->
  let cs0 := map job_start jobs in
  let cs1 := fst (exec_sched sched1 cs0 s0) in
  let s1 := snd (exec_sched sched1 cs0 s0) in
  find T (tr s1) = Some dT -> In aU (targets_of (stubs s1) (head_dir out dT)) ->
  we_at aU (tr s1) <> w -> w <= lastwe s1 ->
  we_at aU (tr (snd (exec_sched (firstn k sched2) cs1 s1))) <> w.
Proof.
  intros jobs sched1 sched2 s0 a0 w out T dT aU k HR Hwf cs0 cs1 s1 HfT HlT Hne HL Hk.
  destruct (LHInv_exec a0 jobs sched1 _ _ _ _ _ (LHInv_init s0 a0 jobs HR Hwf)) as (a1 & go1 & gi1 & HG1).
  fold cs0 in HG1. fold cs1 in HG1. fold s1 in HG1.
  destruct (chain_target s1 a1 go1 gi1 out T dT aU (H_s _ _ _ _ _ _ _ (proj1 HG1)) HfT HlT)
    as (pU & dU & HfU & HaU & _).
  destruct (LHInv_exec a0 jobs (firstn k sched2) _ _ _ _ _ HG1) as (ak & gok & gik & HGk).
  pose proof (SInv_facts _ _ _ _ (H_s _ _ _ _ _ _ _ (proj1 HG1))) as (_ & Hwf1 & Hok1 & _).
  pose proof (SInv_facts _ _ _ _ (H_s _ _ _ _ _ _ _ (proj1 HGk))) as (_ & Hwfk & Hokk & _).
  apply Hne. rewrite <- HaU.
  apply (we_at_back s1 _ (nb s1) _ pU dU w (exec_wext (firstn k sched2) cs1 s1) Hwf1 Hok1 Hwfk Hokk HfU);
    [rewrite HaU; exact Hk|exact HL].
Qed.

(* ====================================================================== *)
(* (O) the outbound clause                                                *)
(* ====================================================================== *)

(* per-moment form: the target resolves to w at no moment *)
Theorem C16_pagelinks_complete_outbound_moments : forall jobs sched1 sched2 s0 a0 i w ps inb int P T dT aU,
  R s0 a0 -> Forall job_wf jobs ->
  let cs0 := map job_start jobs in
  let cs1 := fst (exec_sched sched1 cs0 s0) in
  let s1 := snd (exec_sched sched1 cs0 s0) in
  let cs2 := fst (exec_sched sched2 cs1 s1) in
  let s2 := snd (exec_sched sched2 cs1 s1) in
  nth_error cs1 i = Some (CLinks (plinksq_start w ps inb int true)) -> In P ps ->
  under (lru_iter P) T -> find T (tr s1) = Some dT -> page dT = true ->
  In aU (targets_of (stubs s1) (outh dT)) ->
  (forall p' d', under (lru_iter P) p' -> p' <> lru_iter P -> under p' T ->
                 find p' (tr s2) = Some d' -> we d' = 0) ->
  (forall k, we_at aU (tr (snd (exec_sched (firstn k sched2) cs1 s1))) <> w) ->
  forall q2, nth_error cs2 i = Some (CLinks q2) -> l_done q2 = true -> l_refused q2 = false ->
  exists wt, In (concat T, lru_at aU s2, wt) (l_acc q2).
Proof.
  intros jobs sched1 sched2 s0 a0 i w ps inb int P T dT aU HR Hwf cs0 cs1 s1 cs2 s2 Hi HP Hu HfT HpT HlT Hfinal Hwe
         q2 Hi2 Hd2 Hr2.
  apply (C16_pagelinks_complete_moments true jobs sched1 sched2 s0 a0 i w ps inb int true P T dT aU HR Hwf Hi HP Hu
           HfT HpT HlT Hfinal); try assumption.
  intro k. unfold lclause. apply orb_true_intro. left. cbn [andb]. apply negb_true_iff. apply N.eqb_neq. apply Hwe.
Qed.

(* final form: the target does not resolve to w at the FIRST turn of the query, and w
   existed then (its id is not above the counter) *)
Theorem C16_pagelinks_complete_outbound : forall jobs sched1 sched2 s0 a0 i w ps inb int P T dT aU,
  R s0 a0 -> Forall job_wf jobs ->
  let cs0 := map job_start jobs in
  let cs1 := fst (exec_sched sched1 cs0 s0) in
  let s1 := snd (exec_sched sched1 cs0 s0) in
  let cs2 := fst (exec_sched sched2 cs1 s1) in
  let s2 := snd (exec_sched sched2 cs1 s1) in
  nth_error cs1 i = Some (CLinks (plinksq_start w ps inb int true)) -> In P ps ->
  under (lru_iter P) T -> find T (tr s1) = Some dT -> page dT = true ->
  In aU (targets_of (stubs s1) (outh dT)) ->
  (forall p' d', under (lru_iter P) p' -> p' <> lru_iter P -> under p' T ->
                 find p' (tr s2) = Some d' -> we d' = 0) ->
  we_at aU (tr s1) <> w -> w <= lastwe s1 ->
  forall q2, nth_error cs2 i = Some (CLinks q2) -> l_done q2 = true -> l_refused q2 = false ->
  exists wt, In (concat T, lru_at aU s2, wt) (l_acc q2).
Proof.
  intros jobs sched1 sched2 s0 a0 i w ps inb int P T dT aU HR Hwf cs0 cs1 s1 cs2 s2 Hi HP Hu HfT HpT HlT Hfinal
         Hne HL q2 Hi2 Hd2 Hr2.
  apply (C16_pagelinks_complete_outbound_moments jobs sched1 sched2 s0 a0 i w ps inb int P T dT aU HR Hwf Hi HP Hu
           HfT HpT HlT Hfinal); try assumption.
  intro k. apply (never_w jobs sched1 sched2 s0 a0 w true T dT aU k HR Hwf HfT HlT Hne HL).
Qed.

(* outbound and internal clauses both requested: every out-link of a visited page is
   reported, whatever the webentity of its target *)
Theorem C16_pagelinks_complete_outlinks : forall jobs sched1 sched2 s0 a0 i w ps inb P T dT aU,
  R s0 a0 -> Forall job_wf jobs ->
  let cs0 := map job_start jobs in
  let cs1 := fst (exec_sched sched1 cs0 s0) in
  let s1 := snd (exec_sched sched1 cs0 s0) in
  let cs2 := fst (exec_sched sched2 cs1 s1) in
  let s2 := snd (exec_sched sched2 cs1 s1) in
  nth_error cs1 i = Some (CLinks (plinksq_start w ps inb true true)) -> In P ps ->
  under (lru_iter P) T -> find T (tr s1) = Some dT -> page dT = true ->
  In aU (targets_of (stubs s1) (outh dT)) ->
  (forall p' d', under (lru_iter P) p' -> p' <> lru_iter P -> under p' T ->
                 find p' (tr s2) = Some d' -> we d' = 0) ->
  forall q2, nth_error cs2 i = Some (CLinks q2) -> l_done q2 = true -> l_refused q2 = false ->
  exists wt, In (concat T, lru_at aU s2, wt) (l_acc q2).
Proof.
  intros jobs sched1 sched2 s0 a0 i w ps inb P T dT aU HR Hwf cs0 cs1 s1 cs2 s2 Hi HP Hu HfT HpT HlT Hfinal
         q2 Hi2 Hd2 Hr2.
  apply (C16_pagelinks_complete_moments true jobs sched1 sched2 s0 a0 i w ps inb true true P T dT aU HR Hwf Hi HP Hu
           HfT HpT HlT Hfinal); try assumption.
  intro k. unfold lclause. cbn [andb]. destruct (_ =? w); reflexivity.
Qed.

(* ====================================================================== *)
(* (I) the inbound clause                                                 *)
(* ====================================================================== *)

Theorem C16_pagelinks_complete_inbound_moments : forall jobs sched1 sched2 s0 a0 i w ps int outb P T dT aU,
  R s0 a0 -> Forall job_wf jobs ->
  let cs0 := map job_start jobs in
  let cs1 := fst (exec_sched sched1 cs0 s0) in
  let s1 := snd (exec_sched sched1 cs0 s0) in
  let cs2 := fst (exec_sched sched2 cs1 s1) in
  let s2 := snd (exec_sched sched2 cs1 s1) in
  nth_error cs1 i = Some (CLinks (plinksq_start w ps true int outb)) -> In P ps ->
  under (lru_iter P) T -> find T (tr s1) = Some dT -> page dT = true ->
  In aU (targets_of (stubs s1) (inh dT)) ->
  (forall p' d', under (lru_iter P) p' -> p' <> lru_iter P -> under p' T ->
                 find p' (tr s2) = Some d' -> we d' = 0) ->
  (forall k, we_at aU (tr (snd (exec_sched (firstn k sched2) cs1 s1))) <> w) ->
  forall q2, nth_error cs2 i = Some (CLinks q2) -> l_done q2 = true -> l_refused q2 = false ->
  exists wt, In (lru_at aU s2, concat T, wt) (l_acc q2).
Proof.
  intros jobs sched1 sched2 s0 a0 i w ps int outb P T dT aU HR Hwf cs0 cs1 s1 cs2 s2 Hi HP Hu HfT HpT HlT Hfinal Hwe
         q2 Hi2 Hd2 Hr2.
  apply (C16_pagelinks_complete_moments false jobs sched1 sched2 s0 a0 i w ps true int outb P T dT aU HR Hwf Hi HP Hu
           HfT HpT HlT Hfinal); try assumption.
  intro k. split; [reflexivity|apply Hwe].
Qed.

Theorem C16_pagelinks_complete_inbound : forall jobs sched1 sched2 s0 a0 i w ps int outb P T dT aU,
  R s0 a0 -> Forall job_wf jobs ->
  let cs0 := map job_start jobs in
  let cs1 := fst (exec_sched sched1 cs0 s0) in
  let s1 := snd (exec_sched sched1 cs0 s0) in
  let cs2 := fst (exec_sched sched2 cs1 s1) in
  let s2 := snd (exec_sched sched2 cs1 s1) in
  nth_error cs1 i = Some (CLinks (plinksq_start w ps true int outb)) -> In P ps ->
  under (lru_iter P) T -> find T (tr s1) = Some dT -> page dT = true ->
  In aU (targets_of (stubs s1) (inh dT)) ->
  (forall p' d', under (lru_iter P) p' -> p' <> lru_iter P -> under p' T ->
                 find p' (tr s2) = Some d' -> we d' = 0) ->
  we_at aU (tr s1) <> w -> w <= lastwe s1 ->
  forall q2, nth_error cs2 i = Some (CLinks q2) -> l_done q2 = true -> l_refused q2 = false ->
  exists wt, In (lru_at aU s2, concat T, wt) (l_acc q2).
Proof.
  intros jobs sched1 sched2 s0 a0 i w ps int outb P T dT aU HR Hwf cs0 cs1 s1 cs2 s2 Hi HP Hu HfT HpT HlT Hfinal
         Hne HL q2 Hi2 Hd2 Hr2.
  apply (C16_pagelinks_complete_inbound_moments jobs sched1 sched2 s0 a0 i w ps int outb P T dT aU HR Hwf Hi HP Hu
           HfT HpT HlT Hfinal); try assumption.
  intro k. apply (never_w jobs sched1 sched2 s0 a0 w false T dT aU k HR Hwf HfT HlT Hne HL).
Qed.
