(* GenTraphPDefs.v — vocabulary for the theorems about GenTraphP.v (Traph.add_page / add_pages / __add_page / __create_webentity
   translated from the source on every run): how the RAM of the index (compiled rules) represents the model's rule table, and
   how a write report represents the model's (created pages, created webentities).  Definitions only. *)
From Coq Require Import List NArith Bool.
Import ListNotations.
From Traph Require Import Bytes Consts Helpers Rules Tst TstDefs Traph GenTraphP.
Open Scope N_scope.

Definition ramrep (s : traph) (rm : py_ram) : Prop := ram_rules rm = rules s /\ ram_dflt rm = dflt s.
Definition report_of (n : N) (c : list (N * list bytes)) : py_report := mk_rp c n.
