(* GenTraphGFacts.v — the pagination of a webentity's pages translated from /repo/traph/traph.py on every run
   (GenTraphG.v: Traph.paginate_webentity_pages, over the translated LRUTrie.lru_node and LRUTrie.webentity_inorder_iter)
   answers exactly what the model's Traph.paginate_pages answers, on the trie file of every state satisfying the block
   invariant Inv18: the same done flag, counts, pages and token; every raise of the code (TraphException for a prefix that
   is not in the trie when the scan reaches it, a traversal exception for a pagination path that cannot be followed, a
   malformed token) is None on the code's side, RRefused / RCrash on the model's.  The bytes of the storage object are
   left alone.
   Structure: the generated definition is re-stated in pieces (istep: one item of the traversal; ostep: one prefix;
   finish; prologue: the token) proved equal by reflexivity (paginate_eq); inner_fold relates the fold over the items of
   one prefix to pag_scan on the corresponding PI items; outer_fold relates the fold over range(start_i, len(prefixes))
   to pag_scan on page_items, by induction over the remaining prefixes, generalised over the state.
   Section WithInorder takes the specification of the translated ordered traversal as a hypothesis; the closed
   corollaries at the end of the file apply the theorems to GenTrieIFacts.py_trie_webentity_inorder_iter_spec. *)
From Coq Require Import List NArith Bool Lia Arith.
Import ListNotations.
From Traph Require Import Bytes Consts Layout Helpers Rules Tst TstDefs Traph Spec Ops RefDefs Traphw TraceDefs Codec CodecFacts
  TstFacts Store StoreFacts StoreFacts2 RefFull GenStorage GenNode GenNodeFacts GenLinks GenTrie GenTrieFacts GenTrieW GenTrieI
  GenTraphPages GenTraphG.
From Traph Require GenTrieWPage GenHelpers2 GenHelpers2Facts.
Open Scope N_scope.

Arguments N.shiftr : simpl never.
Arguments N.shiftl : simpl never.
Arguments N.modulo : simpl never.
Arguments N.div : simpl never.
Arguments N.land : simpl never.
Arguments N.lor : simpl never.
Arguments N.mul : simpl never.
Arguments N.add : simpl never.
Arguments N.sub : simpl never.
Arguments N.ltb : simpl never.
Arguments N.leb : simpl never.
Arguments N.eqb : simpl never.

Definition PSt : Type := (py_pm * N * option N * option N * N * list (bytes * bool) * option N)%type.
Definition PAcc : Type := option ((py_pm * py_pages_answer) + PSt).

Definition istep (v_crawled_only : bool) (v_k : option N) (v_i : N) (acc : PAcc) (v__it : py_node * bytes * N) : PAcc :=
 match acc with
 | None => None
 | Some (inl v__a) => Some (inl v__a)
 | Some (inr (sg, v_c, v_last_path, v_last_path_i, v_n, v_pages, v_pagination_path)) => (let '(v_node, v_lru, v_path) := v__it in
 (if (negb (py_node_is_page v_node))
 then (Some (inr (sg, v_c, v_last_path, v_last_path_i, v_n, v_pages, v_pagination_path)))
 else (let v_crawled := (py_node_is_crawled v_node) in
 (if (v_crawled_only && (negb v_crawled))
 then (Some (inr (sg, v_c, v_last_path, v_last_path_i, v_n, v_pages, v_pagination_path)))
 else (let v_n := (N.add v_n 1%N) in
 (if (match v_k with None => false | Some v_k => (N.leb v_k v_n) end)
 then (match (match v_last_path_i, v_last_path with
 | Some v__i, Some v__p => Some (mk_pa false (N.sub v_n 1%N) v_c (firstn (N.to_nat (N.sub v_n 1%N)) v_pages) (Some (GenHelpers2.py_build_pagination_token v__i v__p)))
 | _, _ => None end) with None => None | Some v__a => Some (inl (sg, v__a)) end)
 else (let v_c := (if v_crawled then (N.add v_c 1%N) else v_c) in
 (let v_pages := v_pages ++ [(v_lru, v_crawled)] in
 (let v_last_path := (Some v_path) in
 (let v_last_path_i := (Some v_i) in
 (Some (inr (sg, v_c, v_last_path, v_last_path_i, v_n, v_pages, v_pagination_path))))))))))))) end.

Definition ostep (v_prefixes : list bytes) (v_crawled_only : bool) (v_k : option N) (acc : PAcc) (v_i : N) : PAcc :=
 match acc with
 | None => None
 | Some (inl v__a) => Some (inl v__a)
 | Some (inr (sg, v_c, v_last_path, v_last_path_i, v_n, v_pages, v_pagination_path)) =>
   let v_current_prefix := nth (N.to_nat v_i) v_prefixes (@nil N) in
   match py_trie_lru_node sg v_current_prefix with
   | None => None
   | Some (sg, v_starting_node) =>
     match v_starting_node with
     | None => None
     | Some v_starting_node =>
       match py_trie_webentity_inorder_iter sg v_starting_node v_current_prefix v_pagination_path with
       | None => None
       | Some (v_generator, sg) =>
         match fold_left (istep v_crawled_only v_k v_i) v_generator
                 (Some (inr (sg, v_c, v_last_path, v_last_path_i, v_n, v_pages, v_pagination_path))) with
         | None => None
         | Some (inl v__a) => Some (inl v__a)
         | Some (inr (sg, v_c, v_last_path, v_last_path_i, v_n, v_pages, v_pagination_path)) =>
             Some (inr (sg, v_c, v_last_path, v_last_path_i, v_n, v_pages, @None N))
         end
       end
     end
   end
 end.

Definition finish (acc : PAcc) : option (py_pm * py_pages_answer) :=
  match acc with
  | None => None
  | Some (inl v__a) => Some v__a
  | Some (inr (sg, v_c, v_last_path, v_last_path_i, v_n, v_pages, v_pagination_path)) => Some (sg, mk_pa true v_n v_c v_pages None)
  end.

Definition prologue (tok : option bytes) : option (N * option N) :=
  match tok with
  | None => Some (0, None)
  | Some t => if py_nonempty t
              then match py_parse_pagination_token t with None => None | Some (i, p) => Some (i, Some p) end
              else Some (0, None)
  end.

Lemma paginate_eq : forall sg w ps k tok co,
  py_traph_paginate_webentity_pages sg w ps k tok co =
  if (match k with None => true | Some pc => N.ltb 0 pc end)
  then match prologue tok with
       | None => None
       | Some (i, pp) =>
           finish (fold_left (ostep ps co (match k with None => None | Some pc => Some (pc + 1) end))
                     (py_range2 i (N.of_nat (length ps)))
                     (Some (inr (sg, 0, None, None, 0, [], pp))))
       end
  else None.
Proof. reflexivity. Qed.

Definition vk (k : option N) : option N := match k with None => None | Some pc => Some (pc + 1) end.
Definition ans_of (r : page_result) : py_pages_answer :=
  mk_pa (pr_done r) (pr_count r) (pr_count_crawled r) (pr_pages r) (pr_token r).
Definition keepf (co : bool) (x : bytes * nd * N) : bool := page (snd (fst x)) && (negb co || crawled (snd (fst x))).
Definition pis (co : bool) (i : N) (ms : list (bytes * nd * N)) : list pitem :=
  map (fun x => PI i (fst (fst x)) (crawled (snd (fst x))) (snd x)) (filter (keepf co) ms).
Definition st_of (sg : py_pm) (c : N) (last : option (N * N)) (n : N) (pages : list (bytes * bool)) (pp : option N) : PSt :=
  (sg, c, option_map snd last, option_map fst last, n, pages, pp).

Lemma fold_istep_None : forall co k i items, fold_left (istep co k i) items None = None.
Proof. induction items as [|x items IH]; [reflexivity|exact IH]. Qed.
Lemma fold_istep_inl : forall co k i items a, fold_left (istep co k i) items (Some (inl a)) = Some (inl a).
Proof. induction items as [|x items IH]; intro a; [reflexivity|apply IH]. Qed.
Lemma fold_ostep_None : forall ps co k is, fold_left (ostep ps co k) is None = None.
Proof. induction is as [|x is IH]; [reflexivity|exact IH]. Qed.
Lemma fold_ostep_inl : forall ps co k is a, fold_left (ostep ps co k) is (Some (inl a)) = Some (inl a).
Proof. induction is as [|x is IH]; intro a; [reflexivity|apply IH]. Qed.

(* range(a, b) *)
Lemma range2_nil : forall a b, b <= a -> py_range2 a b = [].
Proof. intros a b H. unfold py_range2. replace (b - a) with 0 by lia. reflexivity. Qed.
Lemma range2_cons : forall a b, a < b -> py_range2 a b = a :: py_range2 (a + 1) b.
Proof.
  intros a b H. unfold py_range2.
  replace (N.to_nat (b - a)) with (S (N.to_nat (b - (a + 1)))) by lia.
  cbn [seq map]. f_equal; [lia|].
  rewrite <- seq_shift, map_map. apply map_ext. intro j. lia.
Qed.

Lemma skipn_cons_nth : forall (A : Type) (d : A) n (l : list A) x r, skipn n l = x :: r ->
  nth n l d = x /\ skipn (S n) l = r /\ (n < length l)%nat.
Proof.
  intros A d. induction n as [|n IH]; intros l x r H.
  - destruct l as [|y l]; [discriminate H|]. cbn [skipn] in H. injection H as -> ->.
    cbn [nth skipn length]. repeat split. lia.
  - destruct l as [|y l]; [discriminate H|]. cbn [skipn] in H. destruct (IH l x r H) as (H1 & H2 & H3).
    cbn [nth length]. split; [exact H1|]. split; [exact H2|lia].
Qed.
Lemma skipn_nil_len : forall (A : Type) n (l : list A), skipn n l = [] -> (length l <= n)%nat.
Proof.
  intros A. induction n as [|n IH]; intros l H.
  - cbn [skipn] in H. subst l. cbn [length]. lia.
  - destruct l as [|y l]; [cbn [length]; lia|]. cbn [skipn] in H. specialize (IH l H). cbn [length]. lia.
Qed.

Definition item3_rep (s : traph) (it : py_node * bytes * N) (m : bytes * nd * N) : Prop :=
  snd (fst it) = fst (fst m) /\ snd it = snd m /\
  exists l c r, subt (Nd (snd (fst m)) l c r) (tr s) /\ GenTrieFacts.node_at (Nd (snd (fst m)) l c r) (fst (fst it)).

Lemma item3_page : forall s it m, item3_rep s it m -> py_node_is_page (fst (fst it)) = page (snd (fst m)).
Proof.
  intros s it m (_ & _ & l & c & r & _ & Hn). destruct Hn as (_ & _ & Hd & _).
  exact (GenTrieWPage.is_page_main _ _ _ _ _ Hd).
Qed.
Lemma item3_crawled : forall s it m, item3_rep s it m -> py_node_is_crawled (fst (fst it)) = crawled (snd (fst m)).
Proof.
  intros s it m (_ & _ & l & c & r & _ & Hn). destruct Hn as (_ & _ & Hd & _).
  exact (GenTrieWPage.is_crawled_main _ _ _ _ _ Hd).
Qed.

(* one item of the traversal: skipped, or the limit is reached (the answer returns), or one more page *)
Lemma istep_item : forall s co k i it m sg c last n pages pp, item3_rep s it m -> length pages = N.to_nat n ->
  istep co (vk k) i (Some (inr (st_of sg c last n pages pp))) it =
  if keepf co m
  then if match k with Some k0 => k0 <=? n | None => false end
       then match last with
            | Some (li, lp) => Some (inl (sg, mk_pa false n c pages (Some (build_token li lp))))
            | None => None
            end
       else Some (inr (st_of sg (if crawled (snd (fst m)) then c + 1 else c) (Some (i, snd m)) (n + 1)
                             (pages ++ [(fst (fst m), crawled (snd (fst m)))]) pp))
  else Some (inr (st_of sg c last n pages pp)).
Proof.
  intros s co k i [[node lru] path] [[lru' d] path'] sg c last n pages pp Hit Hlen.
  pose proof (item3_page s _ _ Hit) as Hp. pose proof (item3_crawled s _ _ Hit) as Hc.
  destruct Hit as (El & Ep & _). cbn [fst snd] in *. subst lru' path'.
  unfold istep, st_of, keepf. cbn [fst snd]. rewrite Hp, Hc.
  destruct (page d); cbn [negb andb]; [|reflexivity].
  destruct co, (crawled d) eqn:Ecr; cbn [negb andb orb]; try reflexivity.
  all: cbv zeta.
  all: assert (Ek : match vk k with Some v_k => v_k <=? n + 1 | None => false end =
                    match k with Some k0 => k0 <=? n | None => false end)
         by (destruct k as [k0|]; [|reflexivity]; cbn [vk];
             destruct (N.leb_spec (k0 + 1) (n + 1)), (N.leb_spec k0 n); try reflexivity; lia).
  all: rewrite Ek; destruct (match k with Some k0 => k0 <=? n | None => false end); [|reflexivity].
  all: destruct last as [[li lp]|]; cbn [option_map fst snd]; [|reflexivity].
  all: replace (n + 1 - 1) with n by lia; rewrite <- Hlen, firstn_all, GenHelpers2Facts.py_build_pagination_token_eq; reflexivity.
Qed.

Lemma pag_scan_PI : forall k i lru cr path its n c acc last,
  pag_scan k (PI i lru cr path :: its) n c acc last =
  if match k with Some k0 => k0 <=? n | None => false end
  then match last with
       | Some (li, lp) => ROk (mkPR false n c acc (Some (build_token li lp)))
       | None => RCrash
       end
  else pag_scan k its (n + 1) (if cr then c + 1 else c) (acc ++ [(lru, cr)]) (Some (i, path)).
Proof. reflexivity. Qed.

(* the items of one prefix *)
Lemma inner_fold : forall s co k i items ms, Forall2 (item3_rep s) items ms ->
  forall sg c last n pages pp rest, length pages = N.to_nat n ->
  match fold_left (istep co (vk k) i) items (Some (inr (st_of sg c last n pages pp))) with
  | None => pag_scan k (pis co i ms ++ rest) n c pages last = RCrash
  | Some (inl (sg', a)) => sg' = sg /\ exists r, pag_scan k (pis co i ms ++ rest) n c pages last = ROk r /\ a = ans_of r
  | Some (inr st') => exists c' last' n' pages', st' = st_of sg c' last' n' pages' pp /\ length pages' = N.to_nat n' /\
                        pag_scan k (pis co i ms ++ rest) n c pages last = pag_scan k rest n' c' pages' last'
  end.
Proof.
  intros s co k i items ms H. induction H as [|it m items ms Hit _ IH]; intros sg c last n pages pp rest Hlen.
  - cbn [fold_left]. exists c, last, n, pages. split; [reflexivity|]. split; [exact Hlen|reflexivity].
  - cbn [fold_left]. rewrite (istep_item s co k i it m sg c last n pages pp Hit Hlen).
    unfold pis. cbn [filter]. fold (pis co i ms).
    destruct (keepf co m); [|apply IH; exact Hlen].
    cbn [map app]. rewrite pag_scan_PI.
    destruct (match k with Some k0 => k0 <=? n | None => false end).
    + destruct last as [[li lp]|].
      * rewrite fold_istep_inl. split; [reflexivity|]. eexists. split; reflexivity.
      * rewrite fold_istep_None. reflexivity.
    + apply IH. rewrite app_length, Hlen. cbn [length]. lia.
Qed.

Definition ostep1 (ps : list bytes) (co : bool) (k : option N) (i : N) sg c last n pages pp : PAcc :=
  match py_trie_lru_node sg (nth (N.to_nat i) ps []) with
  | None => None
  | Some (sg, None) => None
  | Some (sg, Some sn) =>
      match py_trie_webentity_inorder_iter sg sn (nth (N.to_nat i) ps []) pp with
      | None => None
      | Some (items, sg) =>
          match fold_left (istep co k i) items (Some (inr (st_of sg c last n pages pp))) with
          | None => None
          | Some (inl a) => Some (inl a)
          | Some (inr (sg, v_c, v_last_path, v_last_path_i, v_n, v_pages, v_pagination_path)) =>
              Some (inr (sg, v_c, v_last_path, v_last_path_i, v_n, v_pages, @None N))
          end
      end
  end.
Lemma ostep_eq : forall ps co k i sg c last n pages pp,
  ostep ps co k (Some (inr (st_of sg c last n pages pp))) i = ostep1 ps co k i sg c last n pages pp.
Proof. reflexivity. Qed.

Section WithInorder.
Hypothesis inorder_spec : forall s, Inv18 s -> forall sg t n lru pp,
      trep (files_of s) sg -> subt t (tr s) -> GenTrieFacts.node_at t n ->
      match pp with
      | None => exists items sg', py_trie_webentity_inorder_iter sg n lru None = Some (items, sg') /\ trep (files_of s) sg' /\ pm_array sg' = pm_array sg /\
                  Forall2 (item3_rep s) items (ino_at (lru_dirname lru) t)
      | Some path =>
          let cmp := if path =? 0 then [] else int_to_base4 path in
          match follow_path cmp (lru_dirname lru) t with
          | None => py_trie_webentity_inorder_iter sg n lru (Some path) = None
          | Some plru => exists items sg', py_trie_webentity_inorder_iter sg n lru (Some path) = Some (items, sg') /\ trep (files_of s) sg' /\ pm_array sg' = pm_array sg /\
                           Forall2 (item3_rep s) items (ino_from_at cmp plru (lru_dirname lru) t)
          end
      end.

Section OnState.
  Variable s : traph.
  Hypothesis Hinv : Inv18 s.
  Hypothesis Hroot : root_first s.

  (* the traversal from one prefix found in the trie: it raises exactly when the model's path fails *)
  Lemma iter_spec : forall sg sub n p pp, trep (files_of s) sg -> subt sub (tr s) -> GenTrieFacts.node_at sub n ->
    find_sub (lru_iter p) (tr s) = Some sub ->
    if path_fails p pp (tr s) then py_trie_webentity_inorder_iter sg n p pp = None
    else exists items sg' ms, inorder_items p pp (tr s) = Some ms /\
           py_trie_webentity_inorder_iter sg n p pp = Some (items, sg') /\ trep (files_of s) sg' /\
           pm_array sg' = pm_array sg /\ Forall2 (item3_rep s) items ms.
  Proof.
    intros sg sub n p pp Hrep Hsub Hn Ef.
    pose proof (inorder_spec s Hinv sg sub n p pp Hrep Hsub Hn) as H.
    unfold path_fails, inorder_items. rewrite Ef. destruct pp as [path|].
    - cbv zeta in H. destruct (follow_path _ (lru_dirname p) sub) as [plru|]; [|exact H].
      destruct H as (items & sg' & E & Hrep' & Harr & Hf). exists items, sg'. eexists.
      split; [reflexivity|]. split; [exact E|]. split; [exact Hrep'|]. split; [exact Harr|exact Hf].
    - destruct H as (items & sg' & E & Hrep' & Harr & Hf). exists items, sg'. eexists.
      split; [reflexivity|]. split; [exact E|]. split; [exact Hrep'|]. split; [exact Harr|exact Hf].
  Qed.

  Variable ps : list bytes.
  Variable co : bool.
  Variable k : option N.
  Hypothesis Hwf : Forall wf_lru ps.

  (* the prefixes from index i on *)
  Lemma outer_fold : forall ps' i sg c last n pages pp,
    trep (files_of s) sg -> skipn (N.to_nat i) ps = ps' -> length pages = N.to_nat n ->
    match pag_scan k (page_items co i ps' pp (tr s)) n c pages last with
    | ROk r => exists sg', finish (fold_left (ostep ps co (vk k)) (py_range2 i (N.of_nat (length ps)))
                                     (Some (inr (st_of sg c last n pages pp)))) = Some (sg', ans_of r) /\
                 trep (files_of s) sg' /\ pm_array sg' = pm_array sg
    | _ => finish (fold_left (ostep ps co (vk k)) (py_range2 i (N.of_nat (length ps)))
                     (Some (inr (st_of sg c last n pages pp)))) = None
    end.
  Proof.
    induction ps' as [|p ps' IH]; intros i sg c last n pages pp Hrep Hsk Hlen.
    - apply skipn_nil_len in Hsk. assert (Hle : N.of_nat (length ps) <= i) by (clear - Hsk; lia).
      rewrite (range2_nil _ _ Hle).
      cbn [page_items pag_scan fold_left finish st_of]. exists sg. split; [reflexivity|]. split; [exact Hrep|reflexivity].
    - destruct (skipn_cons_nth bytes (@nil N) _ _ _ _ Hsk) as (Hnth & Hsk' & Hlt).
      assert (Hlt' : i < N.of_nat (length ps)) by (clear - Hlt; lia).
      rewrite (range2_cons _ _ Hlt'). cbn [fold_left].
      assert (Hp : wf_lru p).
      { rewrite <- Hnth. rewrite Forall_forall in Hwf. apply Hwf, nth_In, Hlt. }
      destruct (lru_node_full s Hinv Hroot sg p Hrep Hp) as (sg1 & Hrep1 & Harr1 & H1).
      rewrite ostep_eq. unfold ostep1. rewrite Hnth.
      cbn [page_items].
      destruct (find_sub (lru_iter p) (tr s)) as [sub|] eqn:Ef.
      2:{ unfold inorder_items. rewrite Ef, H1. cbn [pag_scan]. rewrite fold_ostep_None. reflexivity. }
      destruct H1 as (n1 & E1 & Hn1 & Hsub1). rewrite E1.
      pose proof (iter_spec sg1 sub n1 p pp Hrep1 Hsub1 Hn1 Ef) as H2.
      assert (Ei : inorder_items p pp (tr s) <> None).
      { unfold inorder_items. rewrite Ef. destruct pp; [cbv zeta; destruct (follow_path _ _ _)|]; discriminate. }
      revert H2. destruct (path_fails p pp (tr s)); intro H2.
      { destruct (inorder_items p pp (tr s)); [|contradiction]. rewrite H2. cbn [pag_scan].
        rewrite fold_ostep_None. reflexivity. }
      destruct H2 as (items & sg2 & ms & Ems & E2 & Hrep2 & Harr2 & Hf). rewrite Ems, E2.
      change (map (fun x : bytes * nd * N => PI i (fst (fst x)) (crawled (snd (fst x))) (snd x))
                (filter (fun y : bytes * nd * N => page (snd (fst y)) && (negb co || crawled (snd (fst y)))) ms))
        with (pis co i ms).
      pose proof (inner_fold s co k i items ms Hf sg2 c last n pages pp (page_items co (i + 1) ps' None (tr s)) Hlen) as H3.
      destruct (fold_left (istep co (vk k) i) items _) as [[[sg3 a]|st3]|].
      + destruct H3 as (-> & r & -> & ->). rewrite fold_ostep_inl. cbn [finish]. exists sg2.
        split; [reflexivity|]. split; [exact Hrep2|congruence].
      + destruct H3 as (c' & last' & n' & pages' & -> & Hlen' & ->).
        unfold st_of at 1. fold (st_of sg2 c' last' n' pages' None).
        specialize (IH (i + 1) sg2 c' last' n' pages' None Hrep2).
        replace (N.to_nat (i + 1)) with (S (N.to_nat i)) in IH by lia.
        specialize (IH Hsk' Hlen').
        destruct (pag_scan k (page_items co (i + 1) ps' None (tr s)) n' c' pages' last') as [| |r].
        * exact IH.
        * exact IH.
        * destruct IH as (sg' & E & Hrep' & Harr'). exists sg'. split; [exact E|]. split; [exact Hrep'|congruence].
      + rewrite H3. rewrite fold_ostep_None. reflexivity.
  Qed.
End OnState.

Theorem py_traph_paginate_pages_spec : forall s, Inv18 s -> root_first s -> forall sg w ps k tok co,
  trep (files_of s) sg -> Forall wf_lru ps ->
  match k with Some k0 => 0 < k0 | None => True end -> tok <> Some [] ->
  match paginate_pages ps k tok co s with
  | ROk r => exists sg', py_traph_paginate_webentity_pages sg w ps k tok co =
               Some (sg', mk_pa (pr_done r) (pr_count r) (pr_count_crawled r) (pr_pages r) (pr_token r)) /\
             trep (files_of s) sg' /\ pm_array sg' = pm_array sg
  | _ => py_traph_paginate_webentity_pages sg w ps k tok co = None
  end.
Proof.
  intros s Hinv Hroot sg w ps k tok co Hrep Hwf Hk Htok.
  rewrite paginate_eq.
  assert (Ek : match k with None => true | Some pc => N.ltb 0 pc end = true).
  { destruct k as [k0|]; [|reflexivity]. apply N.ltb_lt. exact Hk. }
  rewrite Ek. unfold paginate_pages, prologue.
  destruct tok as [t|].
  - assert (Ene : py_nonempty t = true) by (destruct t; [contradiction Htok; reflexivity|reflexivity]).
    rewrite Ene. unfold py_parse_pagination_token.
    destruct (parse_token t) as [[i path]|]; [|reflexivity].
    exact (outer_fold s Hinv Hroot ps co k Hwf (skipn (N.to_nat i) ps) i sg 0 None 0 [] (Some path) Hrep eq_refl eq_refl).
  - exact (outer_fold s Hinv Hroot ps co k Hwf ps 0 sg 0 None 0 [] None Hrep eq_refl eq_refl).
Qed.

(* on every history *)
Theorem py_traph_paginate_pages_run : forall d rs h, Forall wf_op h ->
  let s := run d rs h in
  forall sg w ps k tok co,
  trep (files_of s) sg -> Forall wf_lru ps ->
  match k with Some k0 => 0 < k0 | None => True end -> tok <> Some [] ->
  match paginate_pages ps k tok co s with
  | ROk r => exists sg', py_traph_paginate_webentity_pages sg w ps k tok co =
               Some (sg', mk_pa (pr_done r) (pr_count r) (pr_count_crawled r) (pr_pages r) (pr_token r)) /\
             trep (files_of s) sg' /\ pm_array sg' = pm_array sg
  | _ => py_traph_paginate_webentity_pages sg w ps k tok co = None
  end.
Proof.
  intros d rs h Hh s. apply py_traph_paginate_pages_spec; [apply run_Inv18; exact Hh|apply run_root_first].
Qed.
End WithInorder.

Print Assumptions py_traph_paginate_pages_spec.
Print Assumptions py_traph_paginate_pages_run.

(* ---- closed corollaries: the hypothesis of Section WithInorder is GenTrieIFacts.py_trie_webentity_inorder_iter_spec ---- *)
From Traph Require GenTrieIFacts.

Theorem py_traph_paginate_webentity_pages_spec : forall s, Inv18 s -> root_first s -> forall sg w ps k tok co,
  trep (files_of s) sg -> Forall wf_lru ps ->
  match k with Some k0 => 0 < k0 | None => True end -> tok <> Some [] ->
  match paginate_pages ps k tok co s with
  | ROk r => exists sg', py_traph_paginate_webentity_pages sg w ps k tok co =
               Some (sg', mk_pa (pr_done r) (pr_count r) (pr_count_crawled r) (pr_pages r) (pr_token r)) /\
             trep (files_of s) sg' /\ pm_array sg' = pm_array sg
  | _ => py_traph_paginate_webentity_pages sg w ps k tok co = None
  end.
Proof. exact (py_traph_paginate_pages_spec GenTrieIFacts.py_trie_webentity_inorder_iter_spec). Qed.

Theorem py_traph_paginate_webentity_pages_run : forall d rs h, Forall wf_op h ->
  let s := run d rs h in
  forall sg w ps k tok co,
  trep (files_of s) sg -> Forall wf_lru ps ->
  match k with Some k0 => 0 < k0 | None => True end -> tok <> Some [] ->
  match paginate_pages ps k tok co s with
  | ROk r => exists sg', py_traph_paginate_webentity_pages sg w ps k tok co =
               Some (sg', mk_pa (pr_done r) (pr_count r) (pr_count_crawled r) (pr_pages r) (pr_token r)) /\
             trep (files_of s) sg' /\ pm_array sg' = pm_array sg
  | _ => py_traph_paginate_webentity_pages sg w ps k tok co = None
  end.
Proof. exact (py_traph_paginate_pages_run GenTrieIFacts.py_trie_webentity_inorder_iter_spec). Qed.

Print Assumptions py_traph_paginate_webentity_pages_spec.
Print Assumptions py_traph_paginate_webentity_pages_run.

(* ---- non-vacuity: the translated request run on the bytes of the trie file of the state reached by the history
   GenTraphLFacts.exh_l (webentity 1: four prefixes, three pages under the first one, one of them crawled) ---- *)
From Traph Require GenTraphLFacts IdFacts.
Definition ex_s : traph := run Domain [] GenTraphLFacts.exh_l.
Definition ex_w1ps : list bytes := map fst (filter (fun x => snd x =? 1) (prefix_iter ex_s)).
Definition ex_absent : bytes := nth 0 ex_w1ps [] ++ [112; 58; 122; 124].
Definition res_ans (r : res page_result) : option py_pages_answer :=
  match r with ROk r => Some (ans_of r) | _ => None end.
Definition ex_code (ps : list bytes) (k : option N) (tok : option bytes) (co : bool) : option py_pages_answer :=
  option_map snd (py_traph_paginate_webentity_pages GenTraphLFacts.ex_sgt 1 ps k tok co).
Definition ex_model (ps : list bytes) (k : option N) (tok : option bytes) (co : bool) : option py_pages_answer :=
  res_ans (paginate_pages ps k tok co ex_s).
Definition ex_count (a : option py_pages_answer) : option (bool * N * N * nat) :=
  option_map (fun a => (pa_done a, pa_count a, pa_count_crawled a, length (pa_pages a))) a.

(* no token: every page size, with and without crawled_only; three pages, one crawled *)
Example ex_paginate_sizes :
  map (fun k => ex_code ex_w1ps k None false) [Some 1; Some 2; Some 3; Some 4; Some 5; None] =
  map (fun k => ex_model ex_w1ps k None false) [Some 1; Some 2; Some 3; Some 4; Some 5; None] /\
  map (fun k => ex_code ex_w1ps k None true) [Some 1; Some 2; None] =
  map (fun k => ex_model ex_w1ps k None true) [Some 1; Some 2; None] /\
  map (fun k => ex_count (ex_code ex_w1ps k None false)) [Some 1; Some 2; Some 3; None] =
  [Some (false, 1, 1, 1%nat); Some (false, 2, 1, 2%nat); Some (true, 3, 1, 3%nat); Some (true, 3, 1, 3%nat)] /\
  ex_count (ex_code ex_w1ps None None true) = Some (true, 1, 1, 1%nat).
Proof. vm_compute. repeat split; reflexivity. Qed.

(* the whole chain of tokens with one page per answer, each token taken from the previous answer of the CODE *)
Fixpoint ex_chain (fuel : nat) (k : option N) (tok : option bytes) : list (option py_pages_answer * option py_pages_answer) :=
  match fuel with
  | O => []
  | S f => (ex_code ex_w1ps k tok false, ex_model ex_w1ps k tok false) ::
           match ex_code ex_w1ps k tok false with
           | Some a => match pa_token a with Some t => ex_chain f k (Some t) | None => [] end
           | None => []
           end
  end.
Example ex_paginate_chain :
  Forall (fun x => fst x = snd x) (ex_chain 8 (Some 1) None) /\
  map (fun x => ex_count (fst x)) (ex_chain 8 (Some 1) None) =
    [Some (false, 1, 1, 1%nat); Some (false, 1, 0, 1%nat); Some (true, 1, 0, 1%nat)] /\
  Forall (fun x => fst x = snd x) (ex_chain 8 (Some 2) None) /\
  map (fun x => ex_count (fst x)) (ex_chain 8 (Some 2) None) = [Some (false, 2, 1, 2%nat); Some (true, 1, 0, 1%nat)].
Proof. vm_compute. repeat split; repeat constructor. Qed.

(* tokens: a prefix index beyond the list (an empty, complete answer); malformed ("x", "0#+"); a path that cannot be
   followed ("0#1": TraphException in the traversal / RCrash); arbitrary paths (whatever the token, the same answer) *)
Example ex_paginate_tokens :
  ex_code ex_w1ps (Some 1) (Some [57; 35; 48]) false = ex_model ex_w1ps (Some 1) (Some [57; 35; 48]) false /\
  ex_count (ex_code ex_w1ps (Some 1) (Some [57; 35; 48]) false) = Some (true, 0, 0, 0%nat) /\
  ex_code ex_w1ps (Some 1) (Some [120]) false = None /\ paginate_pages ex_w1ps (Some 1) (Some [120]) false ex_s = RCrash /\
  ex_code ex_w1ps (Some 1) (Some [48; 35; 43]) false = None /\ paginate_pages ex_w1ps (Some 1) (Some [48; 35; 43]) false ex_s = RCrash /\
  ex_code ex_w1ps (Some 2) (Some [48; 35; 49]) false = None /\ paginate_pages ex_w1ps (Some 2) (Some [48; 35; 49]) false ex_s = RCrash /\
  map (fun c => ex_code ex_w1ps (Some 2) (Some [48; 35; c]) false) [48; 49; 50; 51; 52; 56; 57; 65; 97; 98; 122; 45; 95; 33] =
  map (fun c => ex_model ex_w1ps (Some 2) (Some [48; 35; c]) false) [48; 49; 50; 51; 52; 56; 57; 65; 97; 98; 122; 45; 95; 33] /\
  map (fun c => ex_count (ex_code ex_w1ps (Some 2) (Some [48; 35; c]) false)) [48; 50; 51; 56; 98] =
  [Some (true, 2, 0, 2%nat); Some (true, 2, 0, 2%nat); Some (true, 0, 0, 0%nat); Some (true, 1, 0, 1%nat); Some (true, 1, 0, 1%nat)].
Proof. vm_compute. repeat split; reflexivity. Qed.

(* a prefix that is not in the trie: an error when the scan reaches it (TraphException / RRefused), none when the answer
   is complete before *)
Example ex_paginate_absent :
  ex_code [ex_absent; nth 0 ex_w1ps []] (Some 1) None false = None /\
  paginate_pages [ex_absent; nth 0 ex_w1ps []] (Some 1) None false ex_s = RRefused /\
  ex_code [nth 0 ex_w1ps []; ex_absent] (Some 3) None false = None /\
  paginate_pages [nth 0 ex_w1ps []; ex_absent] (Some 3) None false ex_s = RRefused /\
  ex_code [nth 0 ex_w1ps []; ex_absent] (Some 2) None false = ex_model [nth 0 ex_w1ps []; ex_absent] (Some 2) None false /\
  ex_count (ex_code [nth 0 ex_w1ps []; ex_absent] (Some 2) None false) = Some (false, 2, 1, 2%nat) /\
  ex_code [nth 0 ex_w1ps []; ex_absent] None None true = None /\
  paginate_pages [nth 0 ex_w1ps []; ex_absent] None None true ex_s = RRefused.
Proof. vm_compute. repeat split; reflexivity. Qed.
