(* GenTrieWDefs.v — vocabulary for the theorems about GenTrieW.v (the walking / writing side of the trie translated from
   /repo/traph/lru_trie/lru_trie.py on every run): how the walk-history object of the code corresponds to the walk
   history of the tree model.  Definitions only. *)
From Coq Require Import List NArith Bool.
Import ListNotations.
From Traph Require Import Bytes Consts Helpers Tst GenTrieW.
Open Scope N_scope.

(* LRUTrieWalkHistory <-> Tst.hist: webentity None <-> 0; position -1 <-> None; page_was_created separately *)
Definition hist_rep (lru : bytes) (h : hist) (created : bool) (ph : py_hist) : Prop :=
  hs_lru ph = lru /\
  hs_webentity ph = (if h_we h =? 0 then None else Some (h_we h)) /\
  hs_webentity_prefix ph = h_pref h /\
  hs_webentity_position ph = h_pos h /\
  hs_webentity_creation_rules ph = h_rules h /\
  hs_page_was_created ph = created.
