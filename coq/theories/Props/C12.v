(* C12 — webentity ids are fresh, increasing and survive restarts.
   For EVERY history of requests without a clear (no well-formedness needed), run
   from ANY state: the ids reported by the successive replies form a strictly
   increasing sequence, all greater than the header counter at the start (hence
   greater than every id issued before, ids of deleted webentities and ids issued
   before a close/reopen included - OReopen does not touch the counter); one creation
   request reports exactly one id for all the prefixes it attaches; after a clear the
   counter restarts like a fresh index. *)
From Coq Require Import List NArith.
From Traph Require Import Bytes Rules Tst Traph Ops IdFacts.
Import ListNotations.
Open Scope N_scope.

Theorem C12_step : forall s o, (forall od ors, o <> OClear od ors) ->
  let '(s', r) := step s o in
  increasing_from (lastwe s) (issued r) /\ lastwe s' = last (issued r) (lastwe s).
Proof. exact IdFacts.step_ids. Qed.

Theorem C12_fresh : forall h s, (forall od ors, ~ In (OClear od ors) h) ->
  increasing_from (lastwe s) (concat (map issued (snd (mrun h s)))).
Proof. exact IdFacts.C12_fresh. Qed.

Theorem C12_later_greater : forall h1 h2 s a b,
  (forall od ors, ~ In (OClear od ors) (h1 ++ h2)) ->
  In a (concat (map issued (snd (mrun h1 s)))) ->
  In b (concat (map issued (snd (mrun h2 (fst (mrun h1 s)))))) -> a < b.
Proof. exact IdFacts.C12_later_greater. Qed.

Theorem C12_one_id : forall ps s s' r, create_webentity ps s = (s', r) ->
  (exists n w valid, r = Report n [(w, valid)]) \/ r = Refused \/ r = Crash.
Proof. exact IdFacts.C12_one_id. Qed.

Theorem C12_clear_restarts : forall s od ors, lastwe (clear od ors s) =
  lastwe (match ors with
          | Some rs => init (match od with Some d => d | None => dflt s end) rs
          | None => mkT Lf 1 0 [] [] (match od with Some d => d | None => dflt s end) end).
Proof. exact IdFacts.C12_clear_fresh. Qed.

Print Assumptions C12_step.
Print Assumptions C12_fresh.
Print Assumptions C12_later_greater.
Print Assumptions C12_one_id.
Print Assumptions C12_clear_restarts.
