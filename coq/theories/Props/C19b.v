(* C19b — "no block is unreferenced".  For EVERY history h of well-formed requests (s the
   model's state, a the specification's state after h): every data block of the trie
   file (index i, byte offset (i+1) * 128) is the k-th block of a node found in the tree
   by some path (k = 0: the node's main block, 0 < k < nblk stem: its k-th tail block),
   with the contents the node dictates; the file holds exactly nb - 1 data blocks, i.e.
   the header plus the blocks of the known LRUs. *)
From Coq Require Import List NArith Bool.
From Traph Require Import Bytes Consts Helpers Rules Tst TstDefs Traph Spec Ops RefDefs
  TraceDefs Corollaries PropsEx.
Import ListNotations.
Open Scope N_scope.

Theorem C19_no_unreferenced_block : forall d rs h, Forall wf_op h ->
  let s := run d rs h in
  forall i, (i < N.to_nat (nb s) - 1)%nat ->
  exists p dn k, find p (tr s) = Some dn /\
    N.of_nat (S i) * bsz = addr dn + N.of_nat k * bsz /\ N.of_nat k < nblk (stem dn).
Proof. exact Corollaries.C19_no_unreferenced_block. Qed.

Theorem C19_block_contents : forall d rs h, Forall wf_op h ->
  let s := run d rs h in
  forall i, (i < N.to_nat (nb s) - 1)%nat ->
  exists b p dn l c r k,
    nth_error (ft (files_of s)) i = Some b /\
    find_sub p (tr s) = Some (Nd dn l c r) /\
    N.of_nat (S i) * bsz = addr dn + N.of_nat k * bsz /\
    nth_error (node_blocks dn (root_addr l) (root_addr r) (root_addr c)) k = Some b.
Proof. exact Corollaries.C19_block_contents. Qed.

Theorem C19_file_length : forall d rs h, Forall wf_op h ->
  let s := run d rs h in
  length (ft (files_of s)) = (N.to_nat (nb s) - 1)%nat.
Proof. exact Corollaries.C19_file_length. Qed.

Theorem C19_file_blocks : forall d rs h, wf_rules rs -> Forall wf_op h ->
  let s := run d rs h in let a := srun d rs h in
  1 + N.of_nat (length (ft (files_of s))) = s_trie_blocks a /\
  N.of_nat (length (ft (files_of s))) =
    fold_left (fun n p => n + nblk (last (lru_iter p) [])) (a_known a) 0.
Proof. exact Corollaries.C19_file_blocks. Qed.

(* non-vacuity: the example history has 16 data blocks; each of them is the k-th block of a
   node of the tree with k below the node's block count; block 14 (index 13) is the tail
   block (k = 1) of the 103-byte stem, whose main block is block 13 *)
Definition owner_of_block (s : traph) (i : nat) : list (bytes * N * nat) :=
  flat_map (fun x =>
              map (fun k => (fst x, addr (snd x) / bsz, k))
                  (filter (fun k => N.of_nat (S i) * bsz =? addr (snd x) + N.of_nat k * bsz)
                          (seq 0 (N.to_nat (nblk (stem (snd x)))))))
           (all_nodes (tr s)).

Example C19b_nonvacuous :
  Forall wf_op exh /\
  length (ft (files_of (run Domain [] exh))) = 16%nat /\ nb (run Domain [] exh) = 17 /\
  forallb (fun i => Nat.eqb (length (owner_of_block (run Domain [] exh) i)) 1) (seq 0 16) = true /\
  owner_of_block (run Domain [] exh) 13 = [(ex_pl, 13, 1%nat)] /\
  owner_of_block (run Domain [] exh) 12 = [(ex_pl, 13, 0%nat)].
Proof.
  split; [exact exh_wf|]. vm_compute. repeat split; reflexivity.
Qed.

Print Assumptions C19_no_unreferenced_block.
Print Assumptions C19_block_contents.
Print Assumptions C19_file_length.
Print Assumptions C19_file_blocks.
Print Assumptions C19b_nonvacuous.
