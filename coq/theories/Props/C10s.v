(* C10s — the paginated page-link request on the code translated from the source on every run (GenTraphH.v:
   Traph.paginate_webentity_pagelinks over the translated ordered traversal GenTrieI.v, weighted link traversal GenLinks.v and
   wind-ups GenTraphQ.v / GenTrie.v).  For EVERY history, every source-page count k > 0 (or none), every token (absent or any
   non-empty string), both switches, webentity id w <> 0: the translated request returns exactly the answer record of the model's
   Traph.paginate_pagelinks - done flag, number of source pages, links, next token - and raises (None) exactly when the model
   refuses or crashes; no byte changes.  Every statement of Props/C10.v about paginate_pagelinks (C10_chunks, C10_same_links,
   C10_links_spec) is therefore a statement about the translated request. *)
From Coq Require Import List NArith Bool.
From Traph Require Import Bytes Consts Helpers Rules Tst TstDefs Traph Ops TraceDefs StoreFacts StoreFacts2
  GenStorage GenNode GenLinks GenLinksFacts GenTrie GenTrieFacts GenTraphH GenTraphHFacts.
Import ListNotations.
Open Scope N_scope.

Theorem C10_source_paginate_pagelinks : forall d rs h, wf_rules rs -> Forall wf_op h ->
  let s := run d rs h in
  forall sg sgl w ps int outb k tok,
    trep (files_of s) sg -> lrep (stubs s) sgl -> fits (nb s * bsz) -> fits (saddr (length (stubs s))) -> Forall wf_lru ps -> w <> 0 ->
    match k with Some k0 => 0 < k0 | None => True end -> tok <> Some [] ->
    match paginate_pagelinks w ps int outb k tok s with
    | ROk r => exists sg', py_traph_paginate_webentity_pagelinks sg sgl w ps int outb k tok =
                 Some (sg', mk_la (lr_done r) (lr_sources r) (N.of_nat (length (lr_links r))) (lr_links r) (lr_token r)) /\
               pm_array sg' = pm_array sg
    | _ => py_traph_paginate_webentity_pagelinks sg sgl w ps int outb k tok = None
    end.
Proof.
  intros d rs h H1 H2 s sg sgl w ps int outb k tok Hrep Hl Hf1 Hf2 Hps Hw Hk Htok.
  pose proof (py_traph_paginate_pagelinks_closed d rs h H1 H2 sg sgl w ps int outb k tok Hrep Hl Hf1 Hf2 Hps Hw Hk Htok) as H.
  cbv zeta in H. fold s in H.
  destruct (paginate_pagelinks w ps int outb k tok s) as [| |r]; [exact H|exact H|].
  destruct H as (sg' & E & _ & Harr). exists sg'. split; assumption.
Qed.
Print Assumptions C10_source_paginate_pagelinks.
