(* C16s — the batch request as the source has it, run without interleaving (GenTraphB.v: Traph.index_batch_crawl translated with
   its sequential meaning: every `yield` of the generator request is a no-op when nothing else runs; the iterator protocol of
   traph/helpers.py and TraphIteratorState is checked textually by the translator).  For EVERY history whose reopen requests
   re-supply the rules, on the RAM tables, header and bytes of both files of the state reached, for every well-formed batch and
   either value of the should-yield switch: the translated request answers the SPECIFICATION's report and leaves header, trie file
   and link file equal to those of the model's next state.  This is the left-hand side of C16_batch_alone / C16_observable: what the
   interleaved executions of Sched.v are compared with is what the source computes when run alone.
   The interleavings themselves (the generator suspended at each yield while other requests run) are NOT translated: Sched.v
   models them by hand and the correspondence check replays schedules against the implementation (level: partial). *)
From Coq Require Import List NArith Bool.
From Traph Require Import Bytes Consts Rules Tst TstDefs Traph Spec Ops RefDefs RefFull TraceDefs StoreFacts StoreFacts2
  GenStorage GenLinks GenLinksFacts GenTrie GenTrieFacts GenTraphW GenTraphWDefs GenTraphP GenTraphPDefs GenTraphB GenTraphBFacts AnchorsFacts.
Import ListNotations.
Open Scope N_scope.

Theorem C16_source_batch_alone : forall d rs h, wf_rules rs -> Forall wf_op h -> resupplied (init d rs) h ->
  let s := run d rs h in let a := srun d rs h in
  forall rm hd sg sgl data yf, ramrep s rm -> hrep s hd sg -> lrep (stubs s) sgl ->
  wf_op (OBatch data) ->
  let s' := fst (Ops.step s (OBatch data)) in
  nb s' * 128 < 2 ^ 64 -> lastwe s + N.of_nat (length (concat (map snd data)) + length data) < 2 ^ 32 ->
  fits (saddr (length (stubs s'))) ->
  exists hd' sg' sgl' n c, snd (sstep s a (OBatch data)) = Report n c /\
    py_traph_index_batch_crawl rm hd sg sgl data yf = Some (hd', sg', sgl', report_of n c) /\
    hrep s' hd' sg' /\ lrep (stubs s') sgl' /\ ramrep s' rm.
Proof.
  intros d rs h H1 H2 H3 s a rm hd sg sgl data yf Hram Hh Hl Hwf s' Hsz Hlt Hfs.
  pose proof (proj2 (step_R _ _ (OBatch data) (run_RR d rs h H1 H2) Hwf)) as Hspec. fold s a in Hspec.
  rewrite <- Hspec. clear Hspec. unfold s' in *. cbn [Ops.step] in *.
  exact (py_traph_index_batch_crawl_spec d rs h H1 H2 (run_anchors_known d rs h H1 H2 H3)
           rm hd sg sgl data yf Hram Hh Hl Hwf Hsz Hlt Hfs).
Qed.
Print Assumptions C16_source_batch_alone.

(* ---- the rule installation run alone.  Sched.v's coroutine for add_webentity_creation_rule_iter reads the trie LAZILY while its
   own re-insertions create webentities (and nodes) under the anchor; the sequential model Traph.add_rule (the one the refinement
   proof and C06_rule_install speak about) computes the pages beneath the anchor BEFOREHAND.  For EVERY history and every anchor
   and rule kind, advancing the coroutine alone until it is done reaches exactly the state and the report of the sequential
   request: the nodes a re-insertion creates are never pages and hang on former leaves, so the page-filtered depth-first list of
   every pending stack entry never changes (RuleRunFacts.v). *)
From Traph Require Sched RuleRun RuleRunFacts.
Import Sched RuleRun.
Theorem C16_rule_alone : forall d rs h, wf_rules rs -> Forall wf_op h ->
  let s := run d rs h in
  forall p k, wf_lru p ->
  exists fuel, let '(r', s') := rule_run fuel (rule_start p k) s in
    r_done r' = true /\ s' = fst (add_rule p k true s) /\ Report (r_n r') (r_c r') = snd (add_rule p k true s).
Proof. exact RuleRunFacts.rule_run_alone. Qed.
Print Assumptions C16_rule_alone.

(* ---- the three QUERY generators run alone.  Sched.v's coroutines for get_webentity_pages_iter, get_webentities_links_iter and
   get_webentity_pagelinks_iter read the tree lazily, by block address, through explicit stacks (so that others may write between
   two turns); the sequential model (webentity_pages, webentities_links, webentity_pagelinks: the functions the property theorems
   C05 / C07 / C08 and the translated source speak about) walks it structurally.  For EVERY history and every argument, advancing
   the coroutine alone until it is done yields EXACTLY the sequential answer - same list, same order, same refusal - wherever the
   turns cut the run (QueryAlone1-3.v).  With C16_batch_alone and C16_rule_alone, every one of the five coroutines of the schedule
   theorems is now tied, by a theorem, to the sequential request it interleaves. *)
From Traph Require QueryAlone1 QueryAlone2 QueryAlone3.
Theorem C16_pages_query_alone : forall d rs h, wf_rules rs -> Forall wf_op h ->
  let s := run d rs h in
  forall ps, Forall wf_lru ps ->
  exists fuel q, run_alone fuel (CPages (pagesq_start ps)) s = (CPages q, s) /\ q_done q = true /\
    match webentity_pages ps s with
    | ROk l => q_refused q = false /\ q_acc q = l
    | RRefused => q_refused q = true
    | RCrash => False
    end.
Proof. exact QueryAlone1.pages_query_alone. Qed.

Theorem C16_network_query_alone : forall d rs h, wf_rules rs -> Forall wf_op h ->
  let s := run d rs h in
  forall out auto,
  exists fuel q, run_alone fuel (CNet (netq_start out auto)) s = (CNet q, s) /\ n_done q = true /\
    n_graph q = webentities_links out auto s.
Proof. exact QueryAlone2.network_query_alone. Qed.

Theorem C16_pagelinks_query_alone : forall d rs h, wf_rules rs -> Forall wf_op h ->
  let s := run d rs h in
  forall w ps inb int outb, Forall wf_lru ps ->
  exists fuel q, run_alone fuel (CLinks (plinksq_start w ps inb int outb)) s = (CLinks q, s) /\ l_done q = true /\
    match webentity_pagelinks w ps inb int outb s with
    | ROk l => l_refused q = false /\ l_acc q = l
    | RRefused => l_refused q = true
    | RCrash => False
    end.
Proof. exact QueryAlone3.pagelinks_query_alone. Qed.
Print Assumptions C16_pages_query_alone.
Print Assumptions C16_network_query_alone.
Print Assumptions C16_pagelinks_query_alone.
