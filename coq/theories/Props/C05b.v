(* C05b — "asking each webentity for its pages, with its full current prefix list, yields
   every indexed page that resolves to some webentity exactly once overall".  For EVERY
   history h of well-formed requests (s the model's state, a the specification's state
   after h), every webentity id W <> 0 and every list ps that is a permutation of the
   prefixes attached to W in a_pref: the request is accepted and answers, up to order,
   exactly the pages of a_pages that resolve to W (owner a l = W), each once; a page is
   in the realm of some prefix of ps iff it resolves to W, and then of exactly one.  Hence
   a page that resolves to a webentity is listed by that webentity's query only, once,
   and a page that resolves to none (owner 0) by no query. *)
From Coq Require Import List NArith Bool Permutation.
From Traph Require Import Bytes Rules Tst TstDefs Traph Spec Ops RefDefs IdFacts Corollaries PropsEx.
Import ListNotations.
Open Scope N_scope.

Theorem C05_partition : forall d rs h W ps, wf_rules rs -> Forall wf_op h -> W <> 0 ->
  let s := run d rs h in let a := srun d rs h in
  Permutation ps (map fst (filter (fun x => snd x =? W) (a_pref a))) ->
  exists pages, webentity_pages ps s = ROk pages /\
    Permutation pages (filter (fun x => owner a (fst x) =? W) (a_pages a)).
Proof. exact Corollaries.C05_partition. Qed.

Theorem C05_exactly_once : forall d rs h W ps, wf_rules rs -> Forall wf_op h -> W <> 0 ->
  let s := run d rs h in let a := srun d rs h in
  Permutation ps (map fst (filter (fun x => snd x =? W) (a_pref a))) ->
  exists pages, webentity_pages ps s = ROk pages /\ NoDup pages /\
    (forall l c, In (l, c) pages <-> In (l, c) (a_pages a) /\ owner a l = W) /\
    (forall l c, In (l, c) (a_pages a) ->
       count_occ page_eq_dec pages (l, c) = if owner a l =? W then 1%nat else 0%nat).
Proof. exact Corollaries.C05_exactly_once. Qed.

Theorem C05_listed_iff_resolves : forall d rs h W ps, wf_rules rs -> Forall wf_op h -> W <> 0 ->
  let a := srun d rs h in
  Permutation ps (map fst (filter (fun x => snd x =? W) (a_pref a))) ->
  forall l, ((exists p, In p ps /\ in_realm (a_pref a) p l = true) <-> owner a l = W) /\
            (forall p q, In p ps -> In q ps -> in_realm (a_pref a) p l = true ->
                         in_realm (a_pref a) q l = true -> p = q).
Proof. exact Corollaries.C05_listed_iff_resolves. Qed.

(* the same at the level of the specification alone *)
Theorem C05_spec_partition : forall a W ps, NoDup (map fst (a_pref a)) -> W <> 0 ->
  (forall p w, In (p, w) (a_pref a) -> In p (a_known a)) ->
  Permutation ps (prefixes_of W a) ->
  exists pages, s_we_pages None ps a = ROk pages /\
    Permutation pages (filter (fun x => owner a (fst x) =? W) (a_pages a)).
Proof. exact Corollaries.s_we_pages_partition. Qed.

(* resolution and realms: resolving l returns the attached prefix p iff l is in p's realm *)
Theorem C05_resolve_in_realm : forall pref p l,
  (exists w, resolve pref l = Some (p, w)) <-> amem p pref = true /\ in_realm pref p l = true.
Proof. exact Corollaries.resolve_in_realm. Qed.

(* non-vacuity: in the example history webentities 1 and 2 have 4 prefixes each, webentity 3
   one; their full-prefix queries list the 4 pages once in all: two under 1 (one of them
   below the nested prefix of 3 is NOT among them), one under 2, one under 3 *)
Example C05b_nonvacuous :
  wf_rules [] /\ Forall wf_op exh /\
  map (fun W => length (prefixes_of W (srun Domain [] exh))) [1; 2; 3] = [4%nat; 4%nat; 1%nat] /\
  webentity_pages (prefixes_of 1 (srun Domain [] exh)) (run Domain [] exh)
    = ROk [(ex_pa, true); (ex_pl, false)] /\
  webentity_pages (prefixes_of 2 (srun Domain [] exh)) (run Domain [] exh) = ROk [(ex_pb, false)] /\
  webentity_pages (prefixes_of 3 (srun Domain [] exh)) (run Domain [] exh) = ROk [(ex_pxy, false)] /\
  map (fun x => owner (srun Domain [] exh) (fst x)) (a_pages (srun Domain [] exh)) = [1; 2; 1; 3] /\
  map fst (a_pages (srun Domain [] exh)) = [ex_pa; ex_pb; ex_pl; ex_pxy].
Proof.
  split; [exact ex_rules_wf|]. split; [exact exh_wf|]. vm_compute. repeat split; reflexivity.
Qed.

Print Assumptions C05_partition.
Print Assumptions C05_exactly_once.
Print Assumptions C05_listed_iff_resolves.
Print Assumptions C05_spec_partition.
Print Assumptions C05_resolve_in_realm.
Print Assumptions C05b_nonvacuous.
