(* C06b — "afterwards the page resolves to max(E,K)".  For EVERY history h of well-formed
   requests (s the model's state, a the specification's state after h) and every
   well-formed LRU l inserted next:
   - kept case (the ladder keeps the existing prefix E: adecide a l = LKeep): afterwards
     l resolves to the same prefix E and the same webentity as before, and E is what
     get_potential_prefix answered;
   - candidate case (adecide a l = LCand K, K a stem-prefix of l - the rule family):
     K was not attached; afterwards K is attached to the new webentity lastwe + 1 and l
     resolves to that webentity, through a prefix that is a variation of K, a stem-prefix
     of l, at least as long as K, and that was not attached before;
   - that prefix is K itself - so retrieve_prefix after the insertion equals
     get_potential_prefix before it - whenever no other variation of K is a longer
     stem-prefix of l (no_longer_variation).
   The last hypothesis cannot be dropped: C06_after_prefix_counterexample (domain rule,
   l = s:http|h:com|h:ex|h:www|p:f|): K = s:http|h:com|h:ex| but l resolves to the
   www-variation s:http|h:com|h:ex|h:www| of K, attached by the same creation.  The
   sentence reads "resolves to the webentity of max(E,K)", not necessarily to the prefix K. *)
From Coq Require Import List NArith Bool.
From Traph Require Import Bytes Helpers Rules Tst TstDefs Traph Spec Ops RefDefs IdFacts
  Corollaries Corollaries2 PropsEx.
Import ListNotations.
Open Scope N_scope.

Theorem C06_after_keep : forall d rs h l cr, wf_rules rs -> Forall wf_op h -> wf_lru l ->
  let s := run d rs h in let a := srun d rs h in
  adecide a l = LKeep ->
  retrieve_prefix l (fst (step s (OAddPage l cr))) = potential_prefix l s /\
  retrieve_prefix l (fst (step s (OAddPage l cr))) = retrieve_prefix l s /\
  retrieve_webentity l (fst (step s (OAddPage l cr))) = retrieve_webentity l s.
Proof. exact Corollaries2.C06_after_keep. Qed.

Theorem C06_after_cand : forall d rs h l cr x, wf_rules rs -> Forall wf_op h -> wf_lru l ->
  let s := run d rs h in let a := srun d rs h in
  let s' := fst (step s (OAddPage l cr)) in
  adecide a l = LCand x -> is_stem_prefix x l = true ->
  potential_prefix l s = Some x /\
  webentity_by_prefix x s = RRefused /\
  webentity_by_prefix x s' = ROk (lastwe s + 1) /\
  retrieve_webentity l s' = Some (lastwe s + 1) /\
  exists p', retrieve_prefix l s' = Some p' /\ In p' (lru_variations x) /\
             webentity_by_prefix p' s = RRefused /\
             is_stem_prefix p' l = true /\ (length x <= length p')%nat.
Proof. exact Corollaries2.C06_after_cand. Qed.

Theorem C06_after : forall d rs h l cr x, wf_rules rs -> Forall wf_op h -> wf_lru l ->
  let s := run d rs h in
  potential_prefix l s = Some x -> x <> [] ->
  is_stem_prefix x l = true -> no_longer_variation x l ->
  retrieve_prefix l (fst (step s (OAddPage l cr))) = potential_prefix l s.
Proof. exact Corollaries2.C06_after. Qed.

(* the same at the level of the specification alone *)
Theorem C06_spec_after : forall l cr a x, s_potential l a = Some x -> x <> [] ->
  (forall c, adecide a l = LCand c -> is_stem_prefix c l = true /\ no_longer_variation c l) ->
  s_resolve_prefix l (fst (fst (s_add_page l cr a))) = s_potential l a.
Proof. exact Corollaries2.s_after_potential. Qed.

Theorem C06_self_variation : forall x, In x (lru_variations x).
Proof. exact Corollaries2.In_self_variations. Qed.

(* non-vacuity, candidate case with K = the whole LRU: after the example history the page
   ex_pc of another domain has K = ex_pc, not attached; after its insertion it resolves to
   ex_pc and to the new webentity 4; kept case: re-inserting ex_pxy keeps prefix ex_px *)
Definition ex_pc : bytes := s_http ++ ex_com ++ [104; 58; 99; sep].
Example C06b_nonvacuous :
  wf_rules [] /\ Forall wf_op exh /\ wf_lru ex_pc /\
  adecide (srun Domain [] exh) ex_pc = LCand ex_pc /\ is_stem_prefix ex_pc ex_pc = true /\
  potential_prefix ex_pc (run Domain [] exh) = Some ex_pc /\
  lastwe (run Domain [] exh) = 3 /\
  webentity_by_prefix ex_pc (run Domain [] exh) = RRefused /\
  retrieve_prefix ex_pc (fst (step (run Domain [] exh) (OAddPage ex_pc false))) = Some ex_pc /\
  retrieve_webentity ex_pc (fst (step (run Domain [] exh) (OAddPage ex_pc false))) = Some 4 /\
  adecide (srun Domain [] exh) ex_pxy = LKeep /\
  potential_prefix ex_pxy (run Domain [] exh) = Some ex_px /\
  retrieve_prefix ex_pxy (fst (step (run Domain [] exh) (OAddPage ex_pxy true))) = Some ex_px.
Proof.
  split; [exact ex_rules_wf|]. split; [exact exh_wf|]. split; [wf_lru_tac|].
  vm_compute. repeat split; reflexivity.
Qed.

(* the counterexample to the unconditional prefix reading: K = s:http|h:com|h:ex| is
   proposed; the creation attaches K and its three variations to webentity 1; the page
   resolves to webentity 1 but through the www-variation of K, which lies on its path *)
Definition cx_k : bytes := s_http ++ ex_com ++ [104; 58; 101; 120; sep].          (* s:http|h:com|h:ex| *)
Definition cx_kw : bytes := cx_k ++ [104; 58; 119; 119; 119; sep].                (* ...|h:www|         *)
Definition cx_l : bytes := cx_kw ++ [112; 58; 102; sep].                          (* ...|h:www|p:f|     *)
Example C06_after_prefix_counterexample :
  wf_rules [] /\ wf_lru cx_l /\
  adecide (srun Domain [] []) cx_l = LCand cx_k /\ is_stem_prefix cx_k cx_l = true /\
  potential_prefix cx_l (run Domain [] []) = Some cx_k /\
  snd (step (run Domain [] []) (OAddPage cx_l false))
    = Report 1 [(1, [cx_k; s_https ++ skipn 7 cx_k; cx_kw; s_https ++ skipn 7 cx_kw])] /\
  retrieve_prefix cx_l (fst (step (run Domain [] []) (OAddPage cx_l false))) = Some cx_kw /\
  retrieve_webentity cx_l (fst (step (run Domain [] []) (OAddPage cx_l false))) = Some 1 /\
  webentity_by_prefix cx_k (fst (step (run Domain [] []) (OAddPage cx_l false))) = ROk 1 /\
  In cx_kw (lru_variations cx_k) /\ is_stem_prefix cx_kw cx_l = true /\
  (length cx_k < length cx_kw)%nat.
Proof.
  split; [exact ex_rules_wf|]. split; [wf_lru_tac|].
  vm_compute. repeat split; try reflexivity; auto 10.
Qed.

Print Assumptions C06_after_keep.
Print Assumptions C06_after_cand.
Print Assumptions C06_after.
Print Assumptions C06_spec_after.
Print Assumptions C06_self_variation.
Print Assumptions C06b_nonvacuous.
Print Assumptions C06_after_prefix_counterexample.
