(* C19 — storage accounting.  For EVERY history h of well-formed requests (s the
   model's state, a the specification's state after h): the number of blocks of the
   trie file is the header block plus, for every known LRU (a_known: each LRU named in
   a write and each of its stem-prefixes, once), the blocks of its last stem,
   max(1, ceil(len / 74)); the link file holds two stubs per submitted link; the page
   figure of metrics() is the specification's page count; both files are whole
   numbers of blocks.  Consequently a request that adds nothing to a_known - e.g.
   re-adding pages, prefixes or links between known LRUs - does not grow the trie file. *)
From Coq Require Import List NArith Bool.
From Traph Require Import Bytes Consts Helpers Rules Tst TstDefs Traph Spec Codec Ops RefDefs
  QueryCore QueryCore4 QueryLinks CodecFacts ReopenFacts RefFull IdFacts PropsEx.
Import ListNotations.
Open Scope N_scope.

Theorem C19_trie_blocks : forall d rs h, wf_rules rs -> Forall wf_op h ->
  let s := run d rs h in let a := srun d rs h in
  nb s = s_trie_blocks a.
Proof. intros d rs h H1 H2. exact (trie_blocks_spec _ _ (run_Rc d rs h H1 H2)). Qed.

Theorem C19_nblk : forall st,
  nblk st = N.max 1 ((N.of_nat (length st) + stem_size - 1) / stem_size).
Proof. exact CodecFacts.nblk_spec. Qed.

Theorem C19_count_links : forall d rs h, wf_rules rs -> Forall wf_op h ->
  let s := run d rs h in let a := srun d rs h in
  count_links_x2 s = s_stubs a.
Proof. intros d rs h H1 H2. exact (count_links_spec _ _ (run_RR d rs h H1 H2)). Qed.

Theorem C19_metrics_pages : forall d rs h, wf_rules rs -> Forall wf_op h ->
  let s := run d rs h in let a := srun d rs h in
  m_pages (metrics s) = N.of_nat (length (a_pages a)) /\
  m_crawled (metrics s) = count_if (fun x => snd x) (a_pages a).
Proof.
  intros d rs h H1 H2. split.
  - exact (metrics_pages_spec _ _ (run_Rc d rs h H1 H2)).
  - exact (metrics_crawled_spec _ _ (run_Rc d rs h H1 H2)).
Qed.

Theorem C19_file_sizes : forall d rs h,
  let s := run d rs h in
  length (trie_file s) = (128 * (1 + length (flatten (tr s))))%nat /\
  length (link_file s) = (16 * (1 + length (stubs s)))%nat.
Proof. intros d rs h. exact (ReopenFacts.C11_whole_blocks _). Qed.

Theorem C19_readd_no_growth : forall d rs h o, wf_rules rs -> Forall wf_op h -> wf_op o ->
  let s := run d rs h in let a := srun d rs h in
  a_known (fst (sstep s a o)) = a_known a -> nb (fst (step s o)) = nb s.
Proof.
  intros d rs h o H1 H2 Ho. cbv zeta. intro E.
  pose proof (run_RR d rs h H1 H2) as HR.
  destruct (step_R _ _ o HR Ho) as [[HC' _] _].
  rewrite (R_nb _ _ HC'), (R_nb _ _ (proj1 HR)). unfold s_trie_blocks. rewrite E. reflexivity.
Qed.

(* the same for links: a request that submits no link leaves the link file alone *)
Theorem C19_links_no_growth : forall d rs h o, wf_rules rs -> Forall wf_op h -> wf_op o ->
  let s := run d rs h in let a := srun d rs h in
  a_links (fst (sstep s a o)) = a_links a -> length (stubs (fst (step s o))) = length (stubs s).
Proof.
  intros d rs h o H1 H2 Ho. cbv zeta. intro E.
  pose proof (run_RR d rs h H1 H2) as HR.
  destruct (step_R _ _ o HR Ho) as [[_ HL'] _].
  apply Nat2N.inj. rewrite (L_nstubs _ _ HL'), (L_nstubs _ _ (proj2 HR)). unfold s_stubs.
  rewrite E. reflexivity.
Qed.

(* non-vacuity: the example history uses 17 blocks: 15 known LRUs (the 103-byte stem
   takes two) and the header; and 8 stubs for its 4 links; re-adding known pages and
   links between them grows the link file only *)
Example C19_nonvacuous :
  wf_rules [] /\ Forall wf_op exh /\
  nb (run Domain [] exh) = 17 /\ s_trie_blocks (srun Domain [] exh) = 17 /\
  length (a_known (srun Domain [] exh)) = 15%nat /\
  count_links_x2 (run Domain [] exh) = 8 /\ length (a_links (srun Domain [] exh)) = 4%nat /\
  m_pages (metrics (run Domain [] exh)) = 4 /\
  nb (fst (step (run Domain [] exh) (OAddPages [ex_pl; ex_pa] true))) = 17 /\
  nb (fst (step (run Domain [] exh) (OAddLinks [(ex_pl, ex_pxy)]))) = 17 /\
  length (stubs (fst (step (run Domain [] exh) (OAddLinks [(ex_pl, ex_pxy)])))) = 10%nat.
Proof.
  split; [exact ex_rules_wf|]. split; [exact exh_wf|]. vm_compute. repeat split; reflexivity.
Qed.

Print Assumptions C19_trie_blocks.
Print Assumptions C19_nblk.
Print Assumptions C19_count_links.
Print Assumptions C19_metrics_pages.
Print Assumptions C19_file_sizes.
Print Assumptions C19_readd_no_growth.
Print Assumptions C19_links_no_growth.
Print Assumptions C19_nonvacuous.

(* ---- the multi-block stem code as the SOURCE has it ----------------------------------
   GenNode.v is regenerated on every run from LRUTrieNode.read / write / set_stem /
   __set_default_data (traph/lru_trie/node.py) and helpers.detailed_chunks_iter, over the
   MemoryStorage object translated from the source (GenStorage.v).  GenNodeFacts.v proves,
   for every stem length: writing a new node appends exactly the blocks the model accounts
   for (the main block and one tail block per 74-byte chunk: Tst.node_blocks, hence
   nblk (stem) blocks), and a later write of the same node rewrites one block in place. *)
From Traph Require GenStorage GenNode GenNodeFacts.
Import GenStorage GenNode GenNodeFacts.
Theorem C19_source_new_node_blocks : forall sg st, pm_block_size sg = py_node_block_size ->
  let nd := py_node_set_default_data py_node_new (Some st) in
  let a := N.of_nat (length (pm_array sg)) in
  let d := mkNd a 0 st false false false true 0 0 0 in
  let nd' := fst (py_node_write nd sg) in let sg' := snd (py_node_write nd sg) in
  pm_array sg' = pm_array sg ++ flat_map encode_tblock (node_blocks d 0 0 0) /\
  pm_block_size sg' = pm_block_size sg /\ pm_cursor sg' = N.of_nat (length (pm_array sg')) /\
  nd_block nd' = Some a /\ nd_exists nd' = true /\ nd_tail nd' = nd_tail nd /\
  nd_data nd' = nd_data nd /\ py_node_stem nd' = st.
Proof. exact py_node_write_brand_new. Qed.
Theorem C19_source_rewrite_in_place : forall nd sg a b,
  nd_exists nd = true -> nd_block nd = Some a -> nd_data nd = tblock_vals b ->
  pm_block_size sg = py_node_block_size -> a + 128 <= N.of_nat (length (pm_array sg)) ->
  let nd' := fst (py_node_write nd sg) in let sg' := snd (py_node_write nd sg) in
  nd' = nd /\ length (pm_array sg') = length (pm_array sg) /\
  firstn (N.to_nat a) (pm_array sg') = firstn (N.to_nat a) (pm_array sg) /\
  GenStorage.py_slice a (a + 128) (pm_array sg') = encode_tblock b /\
  skipn (N.to_nat a + 128) (pm_array sg') = skipn (N.to_nat a + 128) (pm_array sg) /\
  pm_block_size sg' = pm_block_size sg /\ pm_cursor sg' = a + 128.
Proof. exact py_node_write_existing. Qed.
Print Assumptions C19_source_new_node_blocks.
Print Assumptions C19_source_rewrite_in_place.

(* ---- the insertion of a new sibling as the source has it (GenTrie.v, regenerated on every run from
   LRUTrie.__ensure_stem_from_siblings and the node setters; LRUTrieNode.write / set_stem are those of GenNode.v).
   For EVERY history, from the node object of the root of any sibling tree of the state reached, on any storage
   object holding its trie file:
   - if a sibling carries the stem, it is returned and not one byte of the file changes;
   - otherwise the walk ends at the node whose left (or right) register is empty on the side the stem belongs to; the
     file gains exactly the blocks of ONE new node (main block + one tail block per 74-byte chunk of the stem:
     Tst.node_blocks, parent register = that of its siblings, no flag but the default one, no links), at the end of the
     file; the 128 bytes of the node where the walk ended are rewritten in place with the new node's address in that
     register; every other byte of the file is unchanged.
   The generated loop never runs out of fuel and never raises. *)
From Traph Require GenTrie GenTrieFacts StoreFacts StoreFacts2.
Import GenTrie GenTrieFacts.
Theorem C19_source_sibling_insertion : forall d rs h, Forall wf_op h ->
  let s := run d rs h in
  forall x sub n sg,
    StoreFacts.subt sub (tr s) -> node_at sub n -> trep (TraceDefs.files_of s) sg ->
    match sib_end x sub with
    | Some (t, None) =>
        exists sg' n', py_trie_ensure_stem_from_siblings sg n x = Some (sg', n') /\ node_at t n' /\
                       pm_array sg' = pm_array sg /\ trep (TraceDefs.files_of s) sg'
    | Some (Nd dt lt ct rt, Some side) =>
        let a := N.of_nat (length (pm_array sg)) in
        let d1 := mkNd a (par dt) x false false false true 0 0 0 in
        let b' := if side then main_block dt a (root_addr rt) (root_addr ct)
                  else main_block dt (root_addr lt) a (root_addr ct) in
        StoreFacts.subt (Nd dt lt ct rt) (tr s) /\ (if side then lt else rt) = Lf /\
        exists sg' sib, py_trie_ensure_stem_from_siblings sg n x = Some (sg', sib) /\
          nd_block sib = Some a /\ nd_exists sib = true /\ py_node_stem sib = x /\
          nd_data sib = tblock_vals (main_block d1 0 0 0) /\
          pm_block_size sg' = py_node_block_size /\
          firstn (N.to_nat (addr dt)) (pm_array sg') = firstn (N.to_nat (addr dt)) (pm_array sg) /\
          GenStorage.py_slice (addr dt) (addr dt + 128) (pm_array sg') = encode_tblock b' /\
          skipn (N.to_nat (addr dt) + 128) (pm_array sg') =
            skipn (N.to_nat (addr dt) + 128) (pm_array sg) ++ flat_map encode_tblock (node_blocks d1 0 0 0)
    | _ => False
    end.
Proof.
  intros d rs h Hh s x sub n sg Hsub Hn Hrep.
  exact (py_trie_ensure_spec s (StoreFacts2.run_Inv18 d rs h Hh) x sub n sg Hsub Hn Hrep).
Qed.
Print Assumptions C19_source_sibling_insertion.

(* ---- the whole insertion path, on the code translated from the source on every run (GenTrieW.v: LRUTrie.add_lru, add_page
   with the walk history; GenTrie.v: __ensure_stem_from_siblings; GenNode.v: node write with tail blocks).  For EVERY
   history, on any storage object holding the trie file of the state reached, adding any well-formed LRU with the translated
   code never fails and leaves the storage holding exactly the trie file of the MODEL's next state (Tst.ins: one node per
   missing stem, nblk blocks each; an LRU already present changes nothing but the flags the request asks for), returns the
   node object of the LRU's node and the walk history of the model.  Size hypothesis: the file stays below 2^64 bytes. *)
From Traph Require GenTrieW GenTrieWDefs GenTrieWAdd GenTrieWAll TraceDefs.
Import GenTrieW GenTrieWDefs.
Theorem C19_source_add_lru : forall d rs h, Forall wf_op h ->
  let s := run d rs h in
  forall sg lru flag, trep (TraceDefs.files_of s) sg -> wf_lru lru ->
  let s' := fst (add_lru flag lru s) in
  nb s' * 128 < 2 ^ 64 ->
  exists sg' n ph, py_trie_add_lru sg lru flag = Some (sg', (n, ph)) /\
    trep (TraceDefs.files_of s') sg' /\
    hist_rep lru (snd (add_lru flag lru s)) false ph /\
    exists t', find_sub (lru_iter lru) (tr s') = Some t' /\ node_at t' n.
Proof.
  intros d rs h Hh s sg lru flag Hrep Hwf s' Hsz.
  pose proof (StoreFacts2.run_Inv18 d rs h Hh) as Hinv. fold s in Hinv.
  pose proof (StoreFacts2.run_root_first d rs h) as Hroot. fold s in Hroot.
  exact (GenTrieWAdd.py_trie_add_lru_spec s Hinv sg lru flag Hroot Hrep Hwf Hsz).
Qed.
Theorem C19_source_add_page : forall d rs h, Forall wf_op h ->
  let s := run d rs h in
  forall sg lru cr, trep (TraceDefs.files_of s) sg -> wf_lru lru ->
  let r := trie_add_page lru cr s in
  let s' := fst (fst r) in
  nb s' * 128 < 2 ^ 64 ->
  exists sg' n ph, py_trie_add_page sg lru cr = Some (sg', (n, ph)) /\
    trep (TraceDefs.files_of s') sg' /\
    hist_rep lru (snd (fst r)) (snd r) ph /\
    exists t', find_sub (lru_iter lru) (tr s') = Some t' /\ node_at t' n.
Proof.
  intros d rs h Hh s sg lru cr Hrep Hwf r s' Hsz.
  pose proof (StoreFacts2.run_Inv18 d rs h Hh) as Hinv. fold s in Hinv.
  pose proof (StoreFacts2.run_root_first d rs h) as Hroot. fold s in Hroot.
  exact (GenTrieWAll.py_trie_add_page_full s Hinv sg lru cr Hroot Hrep Hwf Hsz).
Qed.
(* an LRU already in the trie: not one block is added (with C19_readd_no_growth on the model) *)
Print Assumptions C19_source_add_lru.
Print Assumptions C19_source_add_page.

(* ---- the figures of LRUTrie.metrics(), translated (GenTrieM.v: the integer entries of the dict; the floating-point averages are
   sliced away by the translator, which checks that no integer entry depends on them).  For EVERY history, on the trie file of the
   state reached, the translated metrics() returns the model's figures and changes no byte; its page figures are therefore the
   SPECIFICATION's page count and crawled count. *)
From Traph Require GenTrieM GenTrieMFacts.
Theorem C19_source_metrics : forall d rs h, wf_rules rs -> Forall wf_op h ->
  let s := run d rs h in let a := srun d rs h in
  forall sg, GenTrieFacts.trep (TraceDefs.files_of s) sg ->
  exists sg' l, GenTrieM.py_trie_metrics sg = Some (sg', l) /\ GenStorage.pm_array sg' = GenStorage.pm_array sg /\
    map snd l = [m_nodes (metrics s); N.of_nat (length (a_pages a)); count_if (fun x => snd x) (a_pages a); m_tail (metrics s);
                 m_fragmented (metrics s); m_stems (metrics s); m_max_tail (metrics s)].
Proof.
  intros d rs h H1 H2 s a sg Hrep.
  destruct (GenTrieMFacts.py_trie_metrics_spec d rs h H2 sg Hrep) as (sg' & l & E & _ & Harr & Hl).
  exists sg', l. split; [exact E|]. split; [exact Harr|].
  destruct (C19_metrics_pages d rs h H1 H2) as [Hp Hc]. fold s a in Hp, Hc, Hl. rewrite Hp, Hc in Hl. exact Hl.
Qed.
Print Assumptions C19_source_metrics.
