(* C11c — opening and clearing an index, on the code translated from the source on every run (GenTraphI.v: the end of
   Traph.__init__ from `self.lru_trie = LRUTrie(..)` on, Traph.clear, LinkStoreHeader; over GenTraphZ.v: the rule installation).
   * REOPEN.  For EVERY history, running the end of Traph.__init__ with create = False on the two files of the state reached
     (any default rule, any rules re-supplied, any fuel) changes no byte of either file and builds the RAM tables and both header
     objects of the model's `reopen`: RAM, header and bytes represent the state after the OReopen request, so every theorem
     stated from ramrep / hrep / lrep applies to the reopened index.
   * FRESH and CLEAR (below): creating an index on two empty stores builds the model's `init`; Traph.clear, whatever the two
     stores held, builds the model's `clear` - with C11_clear_is_init, the files and tables of a freshly created index.
   Not translated (pinned text, see gen_traphi.py): the head of __init__ (file handling, choice of create), the on-disk branch of
   clear, close; debug = False. *)
From Coq Require Import List NArith Bool Lia.
From Traph Require Import Bytes Consts Rules Tst TstDefs Traph Codec Ops TraceDefs StoreFacts StoreFacts2
  GenStorage GenNode GenLinks GenLinksFacts GenTrie GenTrieFacts GenTraphW GenTraphWDefs GenTraphP GenTraphPDefs GenTraphZ GenTraphI GenTraphIFacts.
Import ListNotations.
Open Scope N_scope.

Theorem C11_source_reopen : forall d rs h, wf_rules rs -> Forall wf_op h ->
  let s := run d rs h in
  forall d' rs' hd0 sg sgl, hrep s hd0 sg -> lastwe s < 2 ^ 32 -> lrep (stubs s) sgl ->
  let s' := fst (Ops.step s (OReopen d' rs')) in
  exists rm hd lhd sg' sgl', (forall f, py_traph_init_tail f sg sgl d' rs' false = Some (rm, hd, lhd, sg', sgl')) /\
    pm_array sg' = pm_array sg /\ pm_array sgl' = pm_array sgl /\
    ramrep s' rm /\ hrep s' hd sg' /\ lrep (stubs s') sgl'.
Proof.
  intros d rs h H1 H2 s d' rs' hd0 sg sgl (Hrep & _ & Hhd) Hlt Hl s'.
  exact (py_traph_reopen_spec d rs h H1 H2 d' rs' sg sgl Hrep Hhd Hlt Hl).
Qed.
Print Assumptions C11_source_reopen.

(* ---- FRESH: for every default rule and every well-formed rule list, the end of Traph.__init__ with create = True on two empty
   stores (any cursor) builds, for every sufficient fuel, the RAM tables, header objects and bytes of the model's `init`. *)
From Traph Require GenTraphIAll.
Theorem C11_source_fresh : forall d rs c1 c2, wf_rules rs ->
  nb (init d rs) * 128 < 2 ^ 64 -> lastwe (init d rs) + 1 < 2 ^ 32 ->
  exists f0 rm hd lhd sg sgl, (forall f, (f0 <= f)%nat ->
     py_traph_init_tail f (mk_pm 128 [] c1) (mk_pm 16 [] c2) d rs true = Some (rm, hd, lhd, sg, sgl)) /\
    ramrep (init d rs) rm /\ hrep (init d rs) hd sg /\ lrep (stubs (init d rs)) sgl.
Proof. exact GenTraphIAll.py_traph_init_fresh_closed. Qed.

(* ---- CLEAR: for EVERY history, whatever the two stores hold, the translated Traph.clear empties them and builds the RAM tables,
   header objects and bytes of the state after the OClear request; with a default rule and a rule list given that state is
   `init d rs` (C11_clear_is_init): the cleared index IS a freshly created one, bytes and tables. *)
Theorem C11_source_clear : forall d rs h, wf_rules rs -> Forall wf_op h ->
  let s := run d rs h in
  forall rm sg sgl od ors, ramrep s rm -> pm_block_size sg = 128 -> pm_block_size sgl = 16 ->
  wf_op (OClear od ors) ->
  let s' := fst (Ops.step s (OClear od ors)) in nb s' * 128 < 2 ^ 64 -> lastwe s' + 1 < 2 ^ 32 ->
  exists f0 rm' hd lhd sg' sgl', (forall f, (f0 <= f)%nat -> py_traph_clear f rm sg sgl od ors = Some (rm', hd, lhd, sg', sgl')) /\
    ramrep s' rm' /\ hrep s' hd sg' /\ lrep (stubs s') sgl'.
Proof.
  intros d rs h _ _ s rm sg sgl od ors Hram Hb1 Hb2 Hwf s'.
  exact (GenTraphIAll.py_traph_clear_closed s rm sg sgl od ors Hram Hb1 Hb2 Hwf).
Qed.

Corollary C11_source_clear_is_fresh : forall s rm sg sgl d rs, ramrep s rm -> pm_block_size sg = 128 -> pm_block_size sgl = 16 ->
  wf_rules rs -> nb (init d rs) * 128 < 2 ^ 64 -> lastwe (init d rs) + 1 < 2 ^ 32 ->
  exists f0 rm' hd lhd sg' sgl', (forall f, (f0 <= f)%nat -> py_traph_clear f rm sg sgl (Some d) (Some rs) = Some (rm', hd, lhd, sg', sgl')) /\
    ramrep (init d rs) rm' /\ hrep (init d rs) hd sg' /\ lrep (stubs (init d rs)) sgl'.
Proof.
  intros s rm sg sgl d rs Hram Hb1 Hb2 Hwf Hsz Hlt.
  pose proof (GenTraphIAll.py_traph_clear_closed s rm sg sgl (Some d) (Some rs) Hram Hb1 Hb2 Hwf) as H.
  cbv zeta in H. rewrite (ReopenFacts.C11_clear_is_init d rs s) in H. exact (H Hsz Hlt).
Qed.
Print Assumptions C11_source_fresh.
Print Assumptions C11_source_clear.
Print Assumptions C11_source_clear_is_fresh.
