(* C11c — opening and clearing an index, on the code translated from the source on every run (GenTraphI.v: the end of
   Traph.__init__ from `self.lru_trie = LRUTrie(..)` on, Traph.clear, LinkStoreHeader; over GenTraphZ.v: the rule installation).
   * REOPEN.  For EVERY history, running the end of Traph.__init__ with create = False on the two files of the state reached
     (any default rule, any rules re-supplied, any fuel) changes no byte of either file and builds the RAM tables and both header
     objects of the model's `reopen`: RAM, header and bytes represent the state after the OReopen request, so every theorem
     stated from ramrep / hrep / lrep applies to the reopened index.
   * FRESH and CLEAR (below): creating an index on two empty stores builds the model's `init`; Traph.clear, whatever the two
     stores held, builds the model's `clear` - with C11_clear_is_init, the files and tables of a freshly created index.
   Not translated (pinned text, see gen_traphi.py): the head of __init__ (file handling, choice of create), the on-disk branch of
   clear, close; debug = False. *)
From Coq Require Import List NArith Bool Lia.
From Traph Require Import Bytes Consts Rules Tst TstDefs Traph Codec Ops TraceDefs StoreFacts StoreFacts2
  GenStorage GenNode GenLinks GenLinksFacts GenTrie GenTrieFacts GenTraphW GenTraphWDefs GenTraphP GenTraphPDefs GenTraphZ GenTraphI GenTraphIFacts.
Import ListNotations.
Open Scope N_scope.

Theorem C11_source_reopen : forall d rs h, wf_rules rs -> Forall wf_op h ->
  let s := run d rs h in
  forall d' rs' hd0 sg sgl, hrep s hd0 sg -> lastwe s < 2 ^ 32 -> lrep (stubs s) sgl ->
  let s' := fst (Ops.step s (OReopen d' rs')) in
  exists rm hd lhd sg' sgl', (forall f, py_traph_init_tail f sg sgl d' rs' false = Some (rm, hd, lhd, sg', sgl')) /\
    pm_array sg' = pm_array sg /\ pm_array sgl' = pm_array sgl /\
    ramrep s' rm /\ hrep s' hd sg' /\ lrep (stubs s') sgl'.
Proof.
  intros d rs h H1 H2 s d' rs' hd0 sg sgl (Hrep & _ & Hhd) Hlt Hl s'.
  exact (py_traph_reopen_spec d rs h H1 H2 d' rs' sg sgl Hrep Hhd Hlt Hl).
Qed.
Print Assumptions C11_source_reopen.
