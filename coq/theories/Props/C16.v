(* C16 — long-running requests advanced in turns.  index_batch_crawl_iter is modelled
   as a coroutine (Sched.v): [batch_step] is the code between two yields, [exec_sched]
   advances the coroutines in the order given by a schedule (any list of indices;
   indices out of range or of finished coroutines do nothing).
   - C16_batch_alone: a coroutine run alone to completion is the request
     index_batch_crawl: same final index, same reply.
   - C16_invariant: start any number of batch coroutines from a state s0 related to a
     specification state a0; whatever the schedule and at EVERY prefix of it, the index
     satisfies SInv for some ghost abstract state and ghost link lists: the tree
     refines the abstract state (Rcore: wf_tst, pages, marks, webentities, rules ...),
     block addresses are sound, stub chains are sound, every node's out-chain (in-chain)
     reads back, oldest first, the pairs written so far from it (to it).
   - C16_schedule_independent: if all coroutines are finished, the pages with their
     crawled marks are those of the batches applied one after another (s_batch folded
     over the list), the pairs written to the out-chains and those written to the
     in-chains are both a permutation of the links submitted one after another, hence
     for every page the out-targets and the in-sources read from the link store are,
     as multisets, those of the sequential run: same weights, inbound = transpose of
     outbound.
   - C16_sandwich_partial (get_webentity_pages_iter interleaved with batches, partial):
     whatever the schedule, a turn of a page query appends at most one pair (l, c), and
     at that moment l is a page of the index with crawled mark c, lies under one of
     the prefixes the query was started with, and its node carries no webentity unless
     it is the prefix node itself.  NOT claimed: that no webentity lies strictly
     between the prefix and l at that moment (false: a batch can attach a webentity to
     an ancestor the traversal has already passed), nor completeness. *)
From Coq Require Import List NArith Bool Permutation.
From Traph Require Import Bytes Consts Helpers Rules Tst TstDefs Traph Spec Ops RefDefs
  LinkFacts2 RefFull IdFacts PropsEx Sched SchedFacts SchedFacts2 SchedFacts3 SchedFacts4.
Import ListNotations.
Open Scope N_scope.

Theorem C16_batch_alone : forall data s, exists fuel b',
  run_alone fuel (CBatch (batch_start data)) s = (CBatch b', fst (batch_crawl data s)) /\
  b_done b' = true /\ Report (b_n b') (b_c b') = snd (batch_crawl data s).
Proof. exact SchedFacts.batch_alone. Qed.

(* one turn of one coroutine, any fuel: invariants kept, pages grow, marks only turn on,
   the ghost lists grow by what the turn wrote, which comes out of what the coroutine owed *)
Theorem C16_batch_step_inv : forall fuel b s a go gi, SInv s a go gi -> BInv b a ->
  exists a' go' gi',
    let b' := fst (batch_step fuel b s) in let s' := snd (batch_step fuel b s) in
    SInv s' a' go' gi' /\ BInv b' a' /\ Acct (mkC b s a go gi) (mkC b' s' a' go' gi').
Proof. exact SchedFacts2.batch_step_inv. Qed.

Theorem C16_invariant : forall datas sched s0 a0, R s0 a0 -> Forall wf_data datas ->
  forall k,
  let cs := map (fun d => CBatch (batch_start d)) datas in
  let s' := snd (exec_sched (firstn k sched) cs s0) in
  exists a go gi, SInv s' a go gi /\ wf_tst (tr s') /\ addr_ok (tr s') (nb s') /\ stubs_ok (stubs s').
Proof. exact SchedFacts3.C16_invariant. Qed.

Theorem C16_schedule_independent : forall datas sched s0 a0, R s0 a0 -> Forall wf_data datas ->
  let cs := map (fun d => CBatch (batch_start d)) datas in
  let cs' := fst (exec_sched sched cs s0) in
  let s_fin := snd (exec_sched sched cs s0) in
  forallb co_done cs' = true ->
  let a_seq := fold_left (fun a d => fst (s_batch d a)) datas a0 in
  let L := flat_map links_of datas in
  exists a_fin go gi,
    SInv s_fin a_fin go gi /\
    (forall l c, In (l, c) (a_pages a_fin) <-> In (l, c) (a_pages a_seq)) /\
    (forall l c, In (l, c) (pages_iter s_fin) <-> In (l, c) (a_pages a_seq)) /\
    Permutation go (a_links a0 ++ L) /\ Permutation gi (a_links a0 ++ L) /\
    a_links a_seq = a_links a0 ++ L /\
    (forall l d, wf_lru l -> nodeof s_fin l = Some d ->
       Permutation (map (fun t => lru_at t s_fin) (targets_of (stubs s_fin) (outh d)))
                   (map snd (filter (fun p => beq (fst p) l) (a_links a_seq))) /\
       Permutation (map (fun t => lru_at t s_fin) (targets_of (stubs s_fin) (inh d)))
                   (map fst (filter (fun p => beq (snd p) l) (a_links a_seq)))).
Proof. exact SchedFacts3.C16_schedule_independent. Qed.

(* the same in terms of the model only: the final index of a complete schedule and the
   index after the requests index_batch_crawl applied one after another enumerate the
   same pages with the same marks and give every page the same out- and in-multisets *)
Theorem C16_observable : forall datas sched s0 a0, R s0 a0 ->
  Forall (fun d => wf_op (OBatch d)) datas ->
  let cs := map (fun d => CBatch (batch_start d)) datas in
  let s_fin := snd (exec_sched sched cs s0) in
  forallb co_done (fst (exec_sched sched cs s0)) = true ->
  let s_one := fold_left (fun s d => fst (batch_crawl d s)) datas s0 in
  (forall l c, In (l, c) (pages_iter s_fin) <-> In (l, c) (pages_iter s_one)) /\
  (forall l d d', wf_lru l -> nodeof s_fin l = Some d -> nodeof s_one l = Some d' ->
     Permutation (map (fun t => lru_at t s_fin) (targets_of (stubs s_fin) (outh d)))
                 (map (fun t => lru_at t s_one) (targets_of (stubs s_one) (outh d'))) /\
     Permutation (map (fun t => lru_at t s_fin) (targets_of (stubs s_fin) (inh d)))
                 (map (fun t => lru_at t s_one) (targets_of (stubs s_one) (inh d')))).
Proof. exact SchedFacts3.C16_observable. Qed.

(* the page query interleaved with batches *)
Theorem C16_sandwich_partial : forall cs0 sched s0 a0 i q0 q,
  R s0 a0 -> Forall co_start_ok cs0 ->
  let cs := fst (exec_sched sched cs0 s0) in
  let s := snd (exec_sched sched cs0 s0) in
  nth_error cs0 i = Some (CPages q0) -> nth_error cs i = Some (CPages q) ->
  exists q', co_step (CPages q) s = (CPages q', s) /\
    (q_acc q' = q_acc q \/
     exists l c, q_acc q' = q_acc q ++ [(l, c)] /\ qual (q_prefixes q0) s l c).
Proof. exact SchedFacts4.C16_sandwich_partial. Qed.

Theorem C16_sandwich_partial_spec : forall cs0 sched s0 a0 i q0 q,
  R s0 a0 -> Forall co_start_ok cs0 -> Forall wf_lru (q_prefixes q0) ->
  let cs := fst (exec_sched sched cs0 s0) in
  let s := snd (exec_sched sched cs0 s0) in
  nth_error cs0 i = Some (CPages q0) -> nth_error cs i = Some (CPages q) ->
  exists q' a, co_step (CPages q) s = (CPages q', s) /\ Rcore s a /\
    (q_acc q' = q_acc q \/
     exists l c, q_acc q' = q_acc q ++ [(l, c)] /\ In (l, c) (a_pages a) /\
                 exists P0, In P0 (q_prefixes q0) /\ is_stem_prefix P0 l = true).
Proof. exact SchedFacts4.C16_sandwich_partial_spec. Qed.

(* non-vacuity: two batches sharing pages, run to completion under two schedules (one
   after the other; strictly alternating).  The two final indexes differ (the link
   store is laid out differently) but enumerate the same pages with the same marks and
   give every page the same weighted links, which are those of the two requests
   index_batch_crawl applied one after the other. *)
Definition c16_d1 : list (bytes * list bytes) := [(ex_pa, [ex_pb; ex_px]); (ex_pb, [ex_pa])].
Definition c16_d2 : list (bytes * list bytes) := [(ex_pb, [ex_pa; ex_pa]); (ex_px, [ex_pb; ex_pxy])].
Definition c16_cs : list coro := map (fun d => CBatch (batch_start d)) [c16_d1; c16_d2].
Definition c16_s0 : traph := init Domain [].
Definition c16_schedA : list nat := repeat 0%nat 8 ++ repeat 1%nat 8.
Definition c16_schedB : list nat := concat (repeat [0%nat; 1%nat] 8).
Definition c16_sA : traph := snd (exec_sched c16_schedA c16_cs c16_s0).
Definition c16_sB : traph := snd (exec_sched c16_schedB c16_cs c16_s0).
Definition c16_seq : traph := fst (batch_crawl c16_d2 (fst (batch_crawl c16_d1 c16_s0))).

Example C16_nonvacuous :
  R c16_s0 (s_init Domain []) /\ Forall wf_data [c16_d1; c16_d2] /\
  forallb co_done (fst (exec_sched c16_schedA c16_cs c16_s0)) = true /\
  forallb co_done (fst (exec_sched c16_schedB c16_cs c16_s0)) = true /\
  stubs c16_sA <> stubs c16_sB /\
  pages_iter c16_sA = pages_iter c16_sB /\ pages_iter c16_sA = pages_iter c16_seq /\
  length (pages_iter c16_sA) = 4%nat /\
  (forall l, In l [ex_pa; ex_pb; ex_px; ex_pxy] ->
     page_links l true true true c16_sA = page_links l true true true c16_sB /\
     page_links l true true true c16_sA = page_links l true true true c16_seq) /\
  page_links ex_pb true true true c16_sA = [(ex_pb, ex_pa, 3); (ex_px, ex_pb, 1); (ex_pa, ex_pb, 1)].
Proof.
  split; [apply init_R; exact ex_rules_wf|].
  split; [repeat constructor; cbn [fst snd]; wf_lru_tac|].
  split; [vm_compute; reflexivity|]. split; [vm_compute; reflexivity|].
  split; [vm_compute; discriminate|].
  split; [vm_compute; reflexivity|]. split; [vm_compute; reflexivity|]. split; [vm_compute; reflexivity|].
  split; [|vm_compute; reflexivity].
  intros l [<-|[<-|[<-|[<-|[]]]]]; split; vm_compute; reflexivity.
Qed.

(* non-vacuity of the query part: after the first batch, a page query on the webentity
   prefix ex_pa run alone answers (pa, crawled), (px, not crawled); started first and
   then interleaved with the second batch (which crawls px and adds pxy beneath it) it
   answers (pa, crawled), (px, crawled), (pxy, not crawled): every answer was true when
   it was given *)
Definition c16_s1 : traph := fst (batch_crawl c16_d1 c16_s0).
Definition c16_csq : list coro := [CBatch (batch_start c16_d2); CPages (pagesq_start [ex_pa])].
Definition c16_answer (cs : list coro) : list (bytes * bool) * bool :=
  match nth_error cs 1 with Some (CPages q) => (q_acc q, q_done q) | _ => ([], false) end.

Example C16_query_nonvacuous :
  Forall co_start_ok c16_csq /\
  c16_answer (fst (exec_sched (repeat 1%nat 4) c16_csq c16_s1)) = ([(ex_pa, true); (ex_px, false)], true) /\
  c16_answer (fst (exec_sched (1%nat :: repeat 0%nat 7 ++ repeat 1%nat 4) c16_csq c16_s1))
    = ([(ex_pa, true); (ex_px, true); (ex_pxy, false)], true).
Proof.
  split.
  - constructor; [exists c16_d2; split; [reflexivity|repeat constructor; cbn [fst snd]; wf_lru_tac]|].
    constructor; [exists [ex_pa]; reflexivity|constructor].
  - split; vm_compute; reflexivity.
Qed.

Print Assumptions C16_batch_alone.
Print Assumptions C16_batch_step_inv.
Print Assumptions C16_invariant.
Print Assumptions C16_schedule_independent.
Print Assumptions C16_observable.
Print Assumptions C16_sandwich_partial.
Print Assumptions C16_sandwich_partial_spec.
Print Assumptions C16_nonvacuous.
Print Assumptions C16_query_nonvacuous.

