(* C14 — queries never modify the index.
   Proof obligation on the call graph REGENERATED from /repo on every run
   (CallGraph.v): no read-only entry point of the public API can reach, along call
   edges resolved by name (an over-approximation), any function whose body mutates a
   store.  The graph is finite, so the boolean check evaluated by vm_compute, lifted
   by [safe_root_sound], is a proof about that graph. *)
From Coq Require Import List NArith Bool.
From Traph Require Import Effects CallGraph.
Import ListNotations.
Open Scope N_scope.

Lemma all_roots_safe : forallb (safe_root cg_edges cg_size cg_writers) cg_ro_roots = true.
Proof. vm_compute. reflexivity. Qed.

Theorem C14_no_writer_reachable :
  forall r w, In r cg_ro_roots -> In w cg_writers -> ~ path cg_edges r w.
Proof.
  intros r w Hr Hw. pose proof all_roots_safe as H. rewrite forallb_forall in H.
  exact (safe_root_sound _ _ _ _ (H r Hr) w Hw).
Qed.
Print Assumptions C14_no_writer_reachable.

(* non-vacuity: there are read-only roots and writers, and writers are called from elsewhere in the package *)
Example C14_nonvacuous :
  cg_ro_roots <> [] /\ cg_writers <> [] /\
  existsb (fun e => memN (snd e) cg_writers && negb (memN (fst e) cg_writers)) cg_edges = true.
Proof. vm_compute. repeat split; discriminate. Qed.
