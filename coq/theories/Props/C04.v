(* C04 — prefixes and webentities.  For EVERY history h of well-formed requests (s the
   model's state, a the specification's state after h): resolving an LRU to its
   webentity / to its prefix gives the longest stem-prefix of the LRU present in the
   specification's prefix map a_pref (None when there is none); asking for the
   webentity of a prefix answers exactly a_pref; the enumeration of prefixes is a_pref.
   Refusals: attaching a prefix is refused iff it is already attached; creating a
   webentity is refused iff one of its prefixes is already attached (otherwise it
   reports one fresh id); the other outcomes are those of Spec.v because every reply of
   the model is the specification's (C04_next_reply). *)
From Coq Require Import List NArith Bool.
From Traph Require Import Bytes Rules Tst TstDefs Traph Spec Ops RefDefs QueryCore
  RefFull IdFacts PropsEx.
Import ListNotations.
Open Scope N_scope.

Theorem C04_retrieve_webentity : forall d rs h, wf_rules rs -> Forall wf_op h ->
  let s := run d rs h in let a := srun d rs h in
  forall l, wf_lru l -> retrieve_webentity l s = s_resolve_we l a.
Proof. intros d rs h H1 H2. exact (retrieve_webentity_spec _ _ (run_Rc d rs h H1 H2)). Qed.

Theorem C04_retrieve_prefix : forall d rs h, wf_rules rs -> Forall wf_op h ->
  let s := run d rs h in let a := srun d rs h in
  forall l, wf_lru l -> retrieve_prefix l s = s_resolve_prefix l a.
Proof. intros d rs h H1 H2. exact (retrieve_prefix_spec _ _ (run_Rc d rs h H1 H2)). Qed.

Theorem C04_webentity_by_prefix : forall d rs h, wf_rules rs -> Forall wf_op h ->
  let s := run d rs h in let a := srun d rs h in
  forall p, wf_lru p ->
  webentity_by_prefix p s = match aget p (a_pref a) with Some w => ROk w | None => RRefused end.
Proof. intros d rs h H1 H2. exact (webentity_by_prefix_spec _ _ (run_Rc d rs h H1 H2)). Qed.

Theorem C04_prefix_iter : forall d rs h, wf_rules rs -> Forall wf_op h ->
  let s := run d rs h in let a := srun d rs h in
  forall l w, In (l, w) (prefix_iter s) <-> In (l, w) (a_pref a).
Proof. intros d rs h H1 H2. exact (prefix_iter_spec _ _ (run_Rc d rs h H1 H2)). Qed.

Theorem C04_next_reply : forall d rs h o, wf_rules rs -> Forall wf_op h -> wf_op o ->
  let s := run d rs h in let a := srun d rs h in
  R (fst (step s o)) (fst (sstep s a o)) /\ snd (step s o) = snd (sstep s a o).
Proof. intros d rs h o H1 H2 Ho. exact (step_R _ _ o (run_RR d rs h H1 H2) Ho). Qed.

(* attaching a prefix: refused iff already attached, otherwise accepted *)
Theorem C04_refuse_attached : forall d rs h p w, wf_rules rs -> Forall wf_op h ->
  wf_op (OAddPrefix p w) ->
  (snd (step (run d rs h) (OAddPrefix p w)) = Refused <-> amem p (a_pref (srun d rs h)) = true) /\
  (snd (step (run d rs h) (OAddPrefix p w)) = Ok <-> amem p (a_pref (srun d rs h)) = false).
Proof.
  intros d rs h p w H1 H2 Ho.
  rewrite (proj2 (step_R _ _ _ (run_RR d rs h H1 H2) Ho)).
  cbn [sstep]. unfold s_add_prefix.
  destruct (amem p (a_pref (srun d rs h))); cbn [snd]; split; split; congruence.
Qed.

(* creating a webentity: refused iff some prefix is already attached; otherwise one fresh id
   for the given prefixes (repetitions removed) *)
Theorem C04_refuse_create : forall d rs h ps, wf_rules rs -> Forall wf_op h ->
  wf_op (OCreate ps) ->
  let a := srun d rs h in
  (snd (step (run d rs h) (OCreate ps)) = Refused <->
   existsb (fun p => amem p (a_pref a)) ps = true) /\
  (existsb (fun p => amem p (a_pref a)) ps = false ->
   snd (step (run d rs h) (OCreate ps)) = Report 0 [(a_last a + 1, dedup_bytes ps [])]).
Proof.
  intros d rs h ps H1 H2 Ho. cbv zeta.
  rewrite (proj2 (step_R _ _ _ (run_RR d rs h H1 H2) Ho)).
  destruct Ho as [Hne _]. cbn [sstep]. unfold s_create.
  destruct (existsb (fun p => amem p (a_pref (srun d rs h))) ps); cbn [snd].
  - split; [split; reflexivity|discriminate].
  - destruct ps as [|p ps]; [congruence|]. cbn [snd upd_known a_last].
    split; [split; discriminate|reflexivity].
Qed.

(* detaching a prefix with a webentity id: refused iff the prefix does not carry that id *)
Theorem C04_refuse_remove : forall d rs h p w, wf_rules rs -> Forall wf_op h -> wf_lru p -> w <> 0 ->
  snd (step (run d rs h) (ORemovePrefix p w)) = Refused <-> aget p (a_pref (srun d rs h)) <> Some w.
Proof.
  intros d rs h p w H1 H2 Hp Hw.
  rewrite (proj2 (step_R _ _ (ORemovePrefix p w) (run_RR d rs h H1 H2) Hp)).
  cbn [sstep]. unfold s_remove_prefix.
  destruct (N.eqb_spec w 0) as [E|_]; [congruence|]. cbn [orb].
  destruct (aget p (a_pref (srun d rs h))) as [w'|]; cbn [snd].
  - destruct (N.eqb_spec w' w) as [E|E]; cbn [snd]; split; congruence.
  - split; congruence.
Qed.

(* non-vacuity: in the example history the page under the hand-made webentity 3 resolves
   to it, its prefix is the attached one, and attaching that prefix again is refused *)
Example C04_nonvacuous :
  wf_rules [] /\ Forall wf_op exh /\
  retrieve_webentity ex_pxy (run Domain [] exh) = Some 3 /\
  retrieve_prefix ex_pxy (run Domain [] exh) = Some ex_px /\
  retrieve_webentity ex_pl (run Domain [] exh) = Some 1 /\
  length (prefix_iter (run Domain [] exh)) = 9%nat /\
  snd (step (run Domain [] exh) (OAddPrefix ex_px 7)) = Refused /\
  snd (step (run Domain [] exh) (OCreate [ex_pxy; ex_pb])) = Refused /\
  snd (step (run Domain [] exh) (OCreate [ex_pxy])) = Report 0 [(4, [ex_pxy])].
Proof.
  split; [exact ex_rules_wf|]. split; [exact exh_wf|]. vm_compute. repeat split; reflexivity.
Qed.

Print Assumptions C04_retrieve_webentity.
Print Assumptions C04_retrieve_prefix.
Print Assumptions C04_webentity_by_prefix.
Print Assumptions C04_prefix_iter.
Print Assumptions C04_next_reply.
Print Assumptions C04_refuse_attached.
Print Assumptions C04_refuse_create.
Print Assumptions C04_refuse_remove.
Print Assumptions C04_nonvacuous.

(* ---- on the code translated from the source on every run (GenTraph.v: Traph.retrieve_webentity, retrieve_prefix,
   get_webentity_by_prefix; GenTrieW.v: LRUTrie.follow_lru; GenTrie.v: LRUTrie.lru_node; GenNode.v / GenStorage.v below).
   For EVERY history, on any storage object holding the trie file of the state reached, the translated request answers
   the SPECIFICATION's longest-prefix resolution (None = TraphException = no webentity above the LRU); it never fails
   otherwise and leaves every byte of the file as it was. *)
From Traph Require GenTrie GenTrieFacts GenTrieW GenTraph GenTraphFacts StoreFacts2 TraceDefs GenStorage.
Import GenTraph GenTrieFacts GenStorage.
Theorem C04_source_retrieve_webentity : forall d rs h, wf_rules rs -> Forall wf_op h ->
  let s := run d rs h in let a := srun d rs h in
  forall sg l, trep (TraceDefs.files_of s) sg -> wf_lru l ->
  option_map snd (py_traph_retrieve_webentity sg l) = s_resolve_we l a /\
  (forall r, py_traph_retrieve_webentity sg l = Some r -> pm_array (fst r) = pm_array sg).
Proof.
  intros d rs h H1 H2 s a sg l Hrep Hwf.
  pose proof (StoreFacts2.run_Inv18 d rs h H2) as Hinv. fold s in Hinv.
  pose proof (StoreFacts2.run_root_first d rs h) as Hroot. fold s in Hroot.
  destruct (GenTraphFacts.py_traph_retrieve_webentity_spec s Hinv Hroot sg l Hrep Hwf) as [E Hf].
  split; [rewrite E; exact (C04_retrieve_webentity d rs h H1 H2 l Hwf)|].
  intros r Hr. exact (proj2 (Hf r Hr)).
Qed.
Theorem C04_source_retrieve_prefix : forall d rs h, wf_rules rs -> Forall wf_op h ->
  let s := run d rs h in let a := srun d rs h in
  forall sg l, trep (TraceDefs.files_of s) sg -> wf_lru l ->
  option_map snd (py_traph_retrieve_prefix sg l) = s_resolve_prefix l a /\
  (forall r, py_traph_retrieve_prefix sg l = Some r -> pm_array (fst r) = pm_array sg).
Proof.
  intros d rs h H1 H2 s a sg l Hrep Hwf.
  pose proof (StoreFacts2.run_Inv18 d rs h H2) as Hinv. fold s in Hinv.
  pose proof (StoreFacts2.run_root_first d rs h) as Hroot. fold s in Hroot.
  destruct (GenTraphFacts.py_traph_retrieve_prefix_spec s Hinv Hroot sg l Hrep Hwf) as [E Hf].
  split; [rewrite E; exact (C04_retrieve_prefix d rs h H1 H2 l Hwf)|].
  intros r Hr. exact (proj2 (Hf r Hr)).
Qed.
Theorem C04_source_webentity_by_prefix : forall d rs h, wf_rules rs -> Forall wf_op h ->
  let s := run d rs h in let a := srun d rs h in
  forall sg p, trep (TraceDefs.files_of s) sg -> wf_lru p ->
  option_map snd (py_traph_get_webentity_by_prefix sg p) = aget p (a_pref a).
Proof.
  intros d rs h H1 H2 s a sg p Hrep Hwf.
  pose proof (StoreFacts2.run_Inv18 d rs h H2) as Hinv. fold s in Hinv.
  pose proof (StoreFacts2.run_root_first d rs h) as Hroot. fold s in Hroot.
  pose proof (GenTraphFacts.py_traph_get_webentity_by_prefix_spec s Hinv Hroot sg p Hrep Hwf) as H.
  pose proof (C04_webentity_by_prefix d rs h H1 H2 p Hwf) as Hm. fold s a in Hm. rewrite Hm in H.
  destruct (aget p (a_pref a)) as [w|].
  - destruct H as (sg' & E & _). rewrite E. reflexivity.
  - rewrite H. reflexivity.
Qed.
Print Assumptions C04_source_retrieve_webentity.
Print Assumptions C04_source_retrieve_prefix.
Print Assumptions C04_source_webentity_by_prefix.

(* the enumeration of webentity prefixes, on the translated LRUTrie.dfs_iter / webentity_prefix_iter (GenTrieD.v): for EVERY
   history the translated generator yields exactly the (prefix, webentity) pairs of the SPECIFICATION's prefix map *)
From Traph Require GenTrieD GenTrieDDfs.
Theorem C04_source_prefix_iter : forall d rs h, wf_rules rs -> Forall wf_op h ->
  let s := run d rs h in let a := srun d rs h in
  forall sg, trep (TraceDefs.files_of s) sg ->
  exists items sg', GenTrieD.py_trie_webentity_prefix_iter sg = Some (items, sg') /\ trep (TraceDefs.files_of s) sg' /\
    forall l w, In (l, w) (map (fun it => (snd it, match GenTrieW.py_node_webentity (fst it) with Some w => w | None => 0%N end)) items)
                <-> In (l, w) (a_pref a).
Proof.
  intros d rs h H1 H2 s a sg Hrep.
  pose proof (StoreFacts2.run_Inv18 d rs h H2) as Hinv. fold s in Hinv.
  pose proof (StoreFacts2.run_root_first d rs h) as Hroot. fold s in Hroot.
  destruct (GenTrieDDfs.py_trie_webentity_prefix_iter_spec s Hinv sg Hroot Hrep) as (items & sg' & E & Hrep' & Hm).
  exists items, sg'. split; [exact E|]. split; [exact Hrep'|].
  intros l w. rewrite Hm. exact (C04_prefix_iter d rs h H1 H2 l w).
Qed.
Print Assumptions C04_source_prefix_iter.

(* explicit creation on the translated Traph.create_webentity (GenTraphW.v): for EVERY history, from the RAM header and trie
   storage holding the state reached, the request is refused (None = TraphException) exactly when one of its prefixes is already
   attached in the SPECIFICATION's prefix map; otherwise it attaches its prefixes (each once) to ONE new id, the specification's
   next id, and leaves the storage holding the trie file of the model's next state *)
From Traph Require GenTraphW GenTraphWDefs GenTraphWFacts.
Theorem C04_source_create : forall d rs h ps, wf_rules rs -> Forall wf_op h -> wf_op (OCreate ps) ->
  let s := run d rs h in let a := srun d rs h in
  forall hd sg, GenTraphWDefs.hrep s hd sg ->
  nb (fst (Ops.step s (OCreate ps))) * 128 < 2 ^ 64 -> lastwe s + 1 < 2 ^ 32 ->
  (GenTraphW.py_traph_create_webentity hd sg ps = None <-> existsb (fun p => amem p (a_pref a)) ps = true) /\
  (existsb (fun p => amem p (a_pref a)) ps = false ->
   exists hd' sg', GenTraphW.py_traph_create_webentity hd sg ps = Some (hd', sg', (Some (a_last a + 1), dedup_bytes ps [])) /\
     GenTraphWDefs.hrep (fst (Ops.step s (OCreate ps))) hd' sg').
Proof.
  intros d rs h ps H1 H2 Ho s a hd sg Hrep Hsz Hlt.
  pose proof (StoreFacts2.run_Inv18 d rs h H2) as Hinv. fold s in Hinv.
  pose proof (StoreFacts2.run_root_first d rs h) as Hroot. fold s in Hroot.
  pose proof (C04_refuse_create d rs h ps H1 H2 Ho) as [Hr Hc]. cbv zeta in Hr, Hc. fold s a in Hr, Hc.
  pose proof (GenTraphWFacts.py_traph_create_webentity_spec s Hinv Hroot hd sg ps Hrep (proj2 Ho) Hsz Hlt) as H.
  cbv zeta in H. cbn [Ops.step] in Hr, Hc, Hsz |- *. unfold create_webentity in Hr, Hc, Hsz, H |- *.
  destruct (add_prefixes ps false s) as [s1 [| |w valid]]; cbn [fst snd] in *.
  - split; [split; [intros _; apply Hr; reflexivity|intros _; exact H]|].
    intros Hf. apply Hc in Hf. discriminate Hf.
  - split.
    + split.
      * intros E. destruct H as (hd' & sg' & E' & _). rewrite E' in E. discriminate E.
      * intros Hx. apply Hr in Hx. discriminate Hx.
    + intros Hf. apply Hc in Hf. discriminate Hf.
  - split.
    + split.
      * intros E. destruct H as (hd' & sg' & E' & _). rewrite E' in E. discriminate E.
      * intros Hx. apply Hr in Hx. discriminate Hx.
    + intros Hf. apply Hc in Hf. injection Hf as <- <-. exact H.
Qed.
Print Assumptions C04_source_create.
