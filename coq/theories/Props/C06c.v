(* C06c — page insertion with automatic webentity creation, on the code translated from the source on every run (GenTraphP.v:
   Traph.add_page, add_pages, __add_page with the rule ladder, __create_webentity, expand_prefix, rules_to_apply, the write
   report; over the translated LRUTrie.add_page, __add_prefixes and lru_variations).  The regex search itself is the modelled
   matcher Rules.apply_rule (a primitive of the translation, compared with Python's `re` on every run).
   For EVERY history whose state keeps every flagged rule anchor in the RAM rule table (`anchors_known`: true of every history
   whose reopen requests re-supply the rules, as the API requires - AnchorsFacts.run_anchors_known; without it the statement is
   FALSE: the code raises KeyError on a stale anchor, GenTraphPFacts.requested_statement_without_anchor_condition_is_false), from
   the RAM rules, RAM header and trie storage holding the state reached:
   C06_source_add_page    the translated add_page never fails, its report (number of created pages, created webentities with
                          their prefixes) is the SPECIFICATION's reply - a webentity is created and reported iff the candidate K
                          is longer than the existing prefix E, with K's unowned variations - and the storage and header end
                          holding the model's next state;
   C06_source_add_pages   the same for add_pages (reports merged).
   Size hypotheses: the file stays below 2^64 bytes, the id counter below 2^32. *)
From Coq Require Import List NArith Bool.
From Traph Require Import Bytes Consts Rules Tst TstDefs Traph Spec Ops RefDefs RefFull TraceDefs StoreFacts StoreFacts2
  GenStorage GenNode GenTrie GenTrieFacts GenTraphW GenTraphWDefs GenTraphP GenTraphPDefs GenTraphPFacts1 GenTraphPFacts AnchorsFacts.
Import ListNotations.
Open Scope N_scope.

Theorem C06_source_add_page : forall d rs h, wf_rules rs -> Forall wf_op h ->
  let s := run d rs h in let a := srun d rs h in
  anchors_known s ->
  forall rm hd sg lru cr, ramrep s rm -> hrep s hd sg -> wf_lru lru ->
  let s' := fst (Ops.step s (OAddPage lru cr)) in
  nb s' * 128 < 2 ^ 64 -> lastwe s + 1 < 2 ^ 32 ->
  exists hd' sg' n c, snd (sstep s a (OAddPage lru cr)) = Report n c /\
    py_traph_add_page rm hd sg lru cr = Some (hd', sg', report_of n c) /\ hrep s' hd' sg' /\ ramrep s' rm.
Proof.
  intros d rs h H1 H2 s a Hk rm hd sg lru cr Hram Hrep Hwf s' Hsz Hlt.
  pose proof (proj2 (step_R _ _ (OAddPage lru cr) (run_RR d rs h H1 H2) Hwf)) as Hspec. fold s a in Hspec.
  rewrite <- Hspec. clear Hspec.
  unfold s' in *. cbn [Ops.step] in *. unfold add_page in *.
  pose proof (py_traph_add_page_spec' d rs h H1 H2 Hk rm hd sg lru cr Hram Hrep Hwf) as H. cbv zeta in H. fold s in H.
  destruct (add_page_int lru cr s) as [[s1 n] c] eqn:E. cbn [fst snd] in *.
  destruct (H Hsz Hlt) as (hd' & sg' & Ep & Hh & Hr). exists hd', sg', n, c. split; [reflexivity|]. split; [exact Ep|]. split; [exact Hh|exact Hr].
Qed.

Theorem C06_source_add_pages : forall d rs h, wf_rules rs -> Forall wf_op h ->
  let s := run d rs h in let a := srun d rs h in
  anchors_known s ->
  forall rm hd sg lrus cr, ramrep s rm -> hrep s hd sg -> Forall wf_lru lrus ->
  let s' := fst (Ops.step s (OAddPages lrus cr)) in
  nb s' * 128 < 2 ^ 64 -> lastwe s + N.of_nat (length lrus) < 2 ^ 32 ->
  exists hd' sg' n c, snd (sstep s a (OAddPages lrus cr)) = Report n c /\
    py_traph_add_pages rm hd sg lrus cr = Some (hd', sg', report_of n c) /\ hrep s' hd' sg' /\ ramrep s' rm.
Proof.
  intros d rs h H1 H2 s a Hk rm hd sg lrus cr Hram Hrep Hwf s' Hsz Hlt.
  pose proof (proj2 (step_R _ _ (OAddPages lrus cr) (run_RR d rs h H1 H2) Hwf)) as Hspec. fold s a in Hspec.
  rewrite <- Hspec. clear Hspec.
  unfold s' in *. cbn [Ops.step] in *.
  destruct (py_traph_add_pages_spec d rs h H1 H2 Hk rm hd sg lrus cr Hram Hrep Hwf Hsz Hlt) as (n & c & Er & hd' & sg' & E & Hh & Hr).
  fold s in Er, Hh, Hr. exists hd', sg', n, c. split; [exact Er|]. split; [exact E|]. split; [exact Hh|exact Hr].
Qed.

(* the condition holds after every history whose reopen requests re-supply a rule for every anchor flagged in the file at that
   moment (AnchorsFacts.resupplied; a history without reopen satisfies it; AnchorsFacts.reopen_AK_iff: the condition on a reopen
   is also necessary) *)
Theorem C06_source_add_page_resupplied : forall d rs h, wf_rules rs -> Forall wf_op h -> resupplied (init d rs) h ->
  let s := run d rs h in let a := srun d rs h in
  forall rm hd sg lru cr, ramrep s rm -> hrep s hd sg -> wf_lru lru ->
  let s' := fst (Ops.step s (OAddPage lru cr)) in
  nb s' * 128 < 2 ^ 64 -> lastwe s + 1 < 2 ^ 32 ->
  exists hd' sg' n c, snd (sstep s a (OAddPage lru cr)) = Report n c /\
    py_traph_add_page rm hd sg lru cr = Some (hd', sg', report_of n c) /\ hrep s' hd' sg' /\ ramrep s' rm.
Proof.
  intros d rs h H1 H2 H3. exact (C06_source_add_page d rs h H1 H2 (AnchorsFacts.run_anchors_known d rs h H1 H2 H3)).
Qed.
Print Assumptions C06_source_add_page.
Print Assumptions C06_source_add_pages.
Print Assumptions C06_source_add_page_resupplied.

(* ---- the potential-prefix query and the removal of a rule, translated (GenTraphR.v) ----
   For EVERY history whose reopen requests re-supply the rules (see above), on the RAM tables and trie bytes of the state reached:
   Traph.get_potential_prefix answers exactly what the specification decides (s_potential: the prefix of the webentity a page at
   that LRU would join or create, None = False), without changing a byte. *)
From Traph Require GenTraphR GenTraphRFacts QueryCore.
Import GenTraphR.
Theorem C06_source_potential_prefix : forall d rs h, wf_rules rs -> Forall wf_op h -> resupplied (init d rs) h ->
  let s := run d rs h in let a := srun d rs h in
  forall rm sg lru, ramrep s rm -> trep (TraceDefs.files_of s) sg -> wf_lru lru ->
  exists sg', py_traph_get_potential_prefix rm sg lru = Some (sg', s_potential lru a) /\ pm_array sg' = pm_array sg.
Proof.
  intros d rs h H1 H2 H3 s a rm sg lru Hram Hrep Hl.
  destruct (GenTraphRFacts.py_traph_get_potential_prefix_reach d rs h H1 H2 H3 rm sg lru Hram Hrep Hl) as (sg' & E & _ & Harr).
  fold s in E. exists sg'. split; [|exact Harr].
  unfold a. rewrite <- (QueryCore.potential_spec _ _ (run_Rc d rs h H1 H2) lru Hl). exact E.
Qed.

(* Traph.remove_webentity_creation_rule: for EVERY history, the translated method answers as the specification does (KeyError /
   TraphException = None exactly when the specification crashes / refuses), and on success the RAM table and the bytes are those
   of the model's next state, hence (step_R) of the specification's. *)
Theorem C06_source_remove_rule : forall d rs h, wf_rules rs -> Forall wf_op h ->
  let s := run d rs h in let a := srun d rs h in
  forall rm sg p, ramrep s rm -> trep (TraceDefs.files_of s) sg -> wf_lru p ->
  let s' := fst (Ops.step s (ORemoveRule p)) in
  match snd (sstep s a (ORemoveRule p)) with
  | Ok => exists rm' sg', py_traph_remove_webentity_creation_rule rm sg p = Some (rm', sg', true) /\
            ramrep s' rm' /\ trep (TraceDefs.files_of s') sg'
  | _ => py_traph_remove_webentity_creation_rule rm sg p = None
  end.
Proof.
  intros d rs h H1 H2 s a rm sg p Hram Hrep Hp s'.
  pose proof (proj2 (step_R _ _ (ORemoveRule p) (run_RR d rs h H1 H2) Hp)) as Hspec. fold s a in Hspec.
  rewrite <- Hspec. clear Hspec. unfold s'. cbn [Ops.step].
  exact (GenTraphRFacts.py_traph_remove_rule_spec s (StoreFacts2.run_Inv18 d rs h H2) (StoreFacts2.run_root_first d rs h) rm sg p Hram Hrep Hp).
Qed.
Print Assumptions C06_source_potential_prefix.
Print Assumptions C06_source_remove_rule.

(* ---- the INSTALLATION of a rule, translated (GenTraphZ.v: Traph.add_webentity_creation_rule, whose loop consumes dfs_iter while
   its body writes the trie: the generator is translated with a visitor called at every yield, on explicit fuel; out of fuel is
   None).  For EVERY history whose reopen requests re-supply the rules, on the RAM tables, header and trie bytes of the state
   reached, for every anchor and rule kind: for every sufficient fuel the translated request answers the SPECIFICATION's report
   (C06_rule_install: that of re-inserting the pages beneath the anchor) and leaves the RAM rule table, the header and the file
   of the model's next state.  Through GenTraphZFacts.v (the translated loop is Sched.v's lazily reading coroutine, step for step)
   and RuleRunFacts.v (that coroutine run alone is the sequential add_rule).  Size hypotheses on the final state. *)
From Traph Require GenTraphZ GenTraphZAll.
Import GenTraphZ.
Theorem C06_source_rule_install : forall d rs h, wf_rules rs -> Forall wf_op h -> resupplied (init d rs) h ->
  let s := run d rs h in let a := srun d rs h in
  forall rm hd sg p k, ramrep s rm -> hrep s hd sg -> wf_lru p ->
  let s' := fst (Ops.step s (OAddRule p k)) in
  nb s' * 128 < 2 ^ 64 -> lastwe s' + 1 < 2 ^ 32 ->
  exists n c, snd (sstep s a (OAddRule p k)) = Report n c /\
  exists f0 rm' hd' sg',
    (forall f, (f0 <= f)%nat ->
       py_traph_add_webentity_creation_rule f rm hd sg p k true = Some (rm', hd', sg', report_of n c)) /\
    hrep s' hd' sg' /\ ramrep s' rm'.
Proof.
  intros d rs h H1 H2 H3 s a rm hd sg p k Hram Hh Hp s' Hsz Hlt.
  pose proof (proj2 (step_R _ _ (OAddRule p k) (run_RR d rs h H1 H2) Hp)) as Hspec. fold s a in Hspec.
  rewrite <- Hspec. clear Hspec. unfold s' in *. cbn [Ops.step] in *.
  exact (GenTraphZAll.py_traph_add_rule_spec_reach d rs h H1 H2 H3 rm hd sg p k Hram Hh Hp Hsz Hlt).
Qed.
Print Assumptions C06_source_rule_install.
