(* C06c — page insertion with automatic webentity creation, on the code translated from the source on every run (GenTraphP.v:
   Traph.add_page, add_pages, __add_page with the rule ladder, __create_webentity, expand_prefix, rules_to_apply, the write
   report; over the translated LRUTrie.add_page, __add_prefixes and lru_variations).  The regex search itself is the modelled
   matcher Rules.apply_rule (a primitive of the translation, compared with Python's `re` on every run).
   For EVERY history whose state keeps every flagged rule anchor in the RAM rule table (`anchors_known`: true of every history
   whose reopen requests re-supply the rules, as the API requires - AnchorsFacts.run_anchors_known; without it the statement is
   FALSE: the code raises KeyError on a stale anchor, GenTraphPFacts.requested_statement_without_anchor_condition_is_false), from
   the RAM rules, RAM header and trie storage holding the state reached:
   C06_source_add_page    the translated add_page never fails, its report (number of created pages, created webentities with
                          their prefixes) is the SPECIFICATION's reply - a webentity is created and reported iff the candidate K
                          is longer than the existing prefix E, with K's unowned variations - and the storage and header end
                          holding the model's next state;
   C06_source_add_pages   the same for add_pages (reports merged).
   Size hypotheses: the file stays below 2^64 bytes, the id counter below 2^32. *)
From Coq Require Import List NArith Bool.
From Traph Require Import Bytes Consts Rules Tst TstDefs Traph Spec Ops RefDefs RefFull TraceDefs StoreFacts StoreFacts2
  GenStorage GenNode GenTrie GenTrieFacts GenTraphW GenTraphWDefs GenTraphP GenTraphPDefs GenTraphPFacts1 GenTraphPFacts AnchorsFacts.
Import ListNotations.
Open Scope N_scope.

Theorem C06_source_add_page : forall d rs h, wf_rules rs -> Forall wf_op h ->
  let s := run d rs h in let a := srun d rs h in
  anchors_known s ->
  forall rm hd sg lru cr, ramrep s rm -> hrep s hd sg -> wf_lru lru ->
  let s' := fst (Ops.step s (OAddPage lru cr)) in
  nb s' * 128 < 2 ^ 64 -> lastwe s + 1 < 2 ^ 32 ->
  exists hd' sg' n c, snd (sstep s a (OAddPage lru cr)) = Report n c /\
    py_traph_add_page rm hd sg lru cr = Some (hd', sg', report_of n c) /\ hrep s' hd' sg' /\ ramrep s' rm.
Proof.
  intros d rs h H1 H2 s a Hk rm hd sg lru cr Hram Hrep Hwf s' Hsz Hlt.
  pose proof (proj2 (step_R _ _ (OAddPage lru cr) (run_RR d rs h H1 H2) Hwf)) as Hspec. fold s a in Hspec.
  rewrite <- Hspec. clear Hspec.
  unfold s' in *. cbn [Ops.step] in *. unfold add_page in *.
  pose proof (py_traph_add_page_spec' d rs h H1 H2 Hk rm hd sg lru cr Hram Hrep Hwf) as H. cbv zeta in H. fold s in H.
  destruct (add_page_int lru cr s) as [[s1 n] c] eqn:E. cbn [fst snd] in *.
  destruct (H Hsz Hlt) as (hd' & sg' & Ep & Hh & Hr). exists hd', sg', n, c. split; [reflexivity|]. split; [exact Ep|]. split; [exact Hh|exact Hr].
Qed.

Theorem C06_source_add_pages : forall d rs h, wf_rules rs -> Forall wf_op h ->
  let s := run d rs h in let a := srun d rs h in
  anchors_known s ->
  forall rm hd sg lrus cr, ramrep s rm -> hrep s hd sg -> Forall wf_lru lrus ->
  let s' := fst (Ops.step s (OAddPages lrus cr)) in
  nb s' * 128 < 2 ^ 64 -> lastwe s + N.of_nat (length lrus) < 2 ^ 32 ->
  exists hd' sg' n c, snd (sstep s a (OAddPages lrus cr)) = Report n c /\
    py_traph_add_pages rm hd sg lrus cr = Some (hd', sg', report_of n c) /\ hrep s' hd' sg' /\ ramrep s' rm.
Proof.
  intros d rs h H1 H2 s a Hk rm hd sg lrus cr Hram Hrep Hwf s' Hsz Hlt.
  pose proof (proj2 (step_R _ _ (OAddPages lrus cr) (run_RR d rs h H1 H2) Hwf)) as Hspec. fold s a in Hspec.
  rewrite <- Hspec. clear Hspec.
  unfold s' in *. cbn [Ops.step] in *.
  destruct (py_traph_add_pages_spec d rs h H1 H2 Hk rm hd sg lrus cr Hram Hrep Hwf Hsz Hlt) as (n & c & Er & hd' & sg' & E & Hh & Hr).
  fold s in Er, Hh, Hr. exists hd', sg', n, c. split; [exact Er|]. split; [exact E|]. split; [exact Hh|exact Hr].
Qed.

(* the condition holds after every history whose reopen requests re-supply a rule for every anchor flagged in the file at that
   moment (AnchorsFacts.resupplied; a history without reopen satisfies it; AnchorsFacts.reopen_AK_iff: the condition on a reopen
   is also necessary) *)
Theorem C06_source_add_page_resupplied : forall d rs h, wf_rules rs -> Forall wf_op h -> resupplied (init d rs) h ->
  let s := run d rs h in let a := srun d rs h in
  forall rm hd sg lru cr, ramrep s rm -> hrep s hd sg -> wf_lru lru ->
  let s' := fst (Ops.step s (OAddPage lru cr)) in
  nb s' * 128 < 2 ^ 64 -> lastwe s + 1 < 2 ^ 32 ->
  exists hd' sg' n c, snd (sstep s a (OAddPage lru cr)) = Report n c /\
    py_traph_add_page rm hd sg lru cr = Some (hd', sg', report_of n c) /\ hrep s' hd' sg' /\ ramrep s' rm.
Proof.
  intros d rs h H1 H2 H3. exact (C06_source_add_page d rs h H1 H2 (AnchorsFacts.run_anchors_known d rs h H1 H2 H3)).
Qed.
Print Assumptions C06_source_add_page.
Print Assumptions C06_source_add_pages.
Print Assumptions C06_source_add_page_resupplied.
