(* C07 — the webentity network.  For EVERY history h of well-formed requests (s the
   model's state, a the specification's state after h): an edge (A, B, n) is reported
   by get_webentities_links in the outgoing direction iff it is an edge of the
   specification's network, i.e. (C07_entry) A and B are real webentities, A <> B
   unless self-links are requested, and n > 0 is the number of submitted links from
   a page owned by A to a page owned by B (owner = webentity of the longest attached
   stem-prefix, evaluated now); the incoming direction reports the same edges
   reversed; the slow variant reports the same edges as the fast one; the per-
   webentity tallies are the numbers of crawled / uncrawled pages owned. *)
From Coq Require Import List NArith Bool.
From Traph Require Import Bytes Rules Tst TstDefs Traph Spec Ops RefDefs QueryLinks2 QueryLinks3
  RefFull IdFacts PropsEx.
Import ListNotations.
Open Scope N_scope.

Theorem C07_network_out : forall d rs h, wf_rules rs -> Forall wf_op h ->
  let s := run d rs h in let a := srun d rs h in
  forall auto A B n,
  In (A, 0, B, n) (webentities_links true auto s) <-> In (A, B, n) (s_network auto a).
Proof. intros d rs h H1 H2. exact (network_out_spec _ _ (run_RR d rs h H1 H2)). Qed.

Theorem C07_network_in : forall d rs h, wf_rules rs -> Forall wf_op h ->
  let s := run d rs h in let a := srun d rs h in
  forall auto A B n,
  In (A, 0, B, n) (webentities_links false auto s) <-> In (B, A, n) (s_network auto a).
Proof. intros d rs h H1 H2. exact (network_in_spec _ _ (run_RR d rs h H1 H2)). Qed.

Theorem C07_network_slow : forall d rs h, wf_rules rs -> Forall wf_op h ->
  let s := run d rs h in
  forall out auto A B n,
  In (A, 0, B, n) (webentities_links_slow out auto s) <->
  In (A, 0, B, n) (webentities_links out auto s).
Proof. intros d rs h H1 H2. exact (network_slow_spec _ _ (run_RR d rs h H1 H2)). Qed.

Theorem C07_entry : forall a auto A B n,
  In (A, B, n) (s_network auto a) <->
  A <> 0 /\ B <> 0 /\ (auto = true \/ A <> B) /\ n <> 0 /\
  n = N.of_nat (length (filter (fun p => (owner a (fst p) =? A) && (owner a (snd p) =? B))
                               (a_links a))).
Proof. exact network_entry. Qed.

Theorem C07_tallies : forall d rs h, wf_rules rs -> Forall wf_op h ->
  let s := run d rs h in let a := srun d rs h in
  forall out auto A c,
  In (A, 1, 0, c) (webentities_links out auto s) <-> A <> 0 /\ c <> 0 /\ c = fst (s_tally A a).
Proof. intros d rs h H1 H2. exact (tallies_spec _ _ (run_RR d rs h H1 H2)). Qed.

Theorem C07_tallies_uncrawled : forall d rs h, wf_rules rs -> Forall wf_op h ->
  let s := run d rs h in let a := srun d rs h in
  forall out auto A c,
  In (A, 2, 0, c) (webentities_links out auto s) <-> A <> 0 /\ c <> 0 /\ c = snd (s_tally A a).
Proof. intros d rs h H1 H2. exact (tallies_uncrawled_spec _ _ (run_RR d rs h H1 H2)). Qed.

(* non-vacuity: webentity 1 links twice to 2, 2 once back to 1 (the long-stem page),
   3 once to 1 *)
Example C07_nonvacuous :
  wf_rules [] /\ Forall wf_op exh /\
  s_network false (srun Domain [] exh) = [(1, 2, 2); (2, 1, 1); (3, 1, 1)] /\
  In (1, 0, 2, 2) (webentities_links true false (run Domain [] exh)) /\
  In (1, 0, 3, 1) (webentities_links false false (run Domain [] exh)) /\
  In (1, 0, 2, 2) (webentities_links_slow true false (run Domain [] exh)) /\
  In (1, 1, 0, 1) (webentities_links true false (run Domain [] exh)) /\
  In (1, 2, 0, 1) (webentities_links true false (run Domain [] exh)) /\
  s_tally 1 (srun Domain [] exh) = (1, 1).
Proof.
  split; [exact ex_rules_wf|]. split; [exact exh_wf|]. vm_compute.
  repeat split; try reflexivity; tauto.
Qed.

Print Assumptions C07_network_out.
Print Assumptions C07_network_in.
Print Assumptions C07_network_slow.
Print Assumptions C07_entry.
Print Assumptions C07_tallies.
Print Assumptions C07_tallies_uncrawled.
Print Assumptions C07_nonvacuous.

(* ---- on the code translated from the source on every run (GenTraphN.v: Traph.get_webentities_links(_iter) - the fast
   variant - and LRUTrie.dfs_with_webentity_iter; sequential meaning: the request runs alone).  For EVERY history, on any trie
   storage holding the trie file of the state reached and any link storage holding its link file, both directions, with and
   without auto links: the translated request never fails, writes nothing, and the nested dict it returns has an entry
   graph[A][B] = n  iff  the SPECIFICATION's network has the edge A -> B (B -> A for the inbound direction) with weight n, and
   graph[A]["pages_crawled"] / ["pages_uncrawled"] are the specification's page tallies of A.  (`flat` lists the nested dict as
   (A, 0, B, n) / (A, 1, 0, c) / (A, 2, 0, c) entries.) *)
From Traph Require GenTraphN GenTraphNFacts GenTrieFacts GenLinksFacts TraceDefs GenStorage.
Import GenTraphN GenTraphNFacts GenTrieFacts GenLinksFacts GenStorage.
Theorem C07_source_network : forall d rs h, wf_rules rs -> Forall wf_op h ->
  let s := run d rs h in let a := srun d rs h in
  forall sg sgl out auto,
    trep (TraceDefs.files_of s) sg -> lrep (stubs s) sgl -> fits (nb s * bsz) -> fits (saddr (length (stubs s))) ->
    exists sg' g, py_traph_get_webentities_links sg sgl out auto = Some (sg', g) /\ pm_array sg' = pm_array sg /\
      (forall A B n, In (A, 0, B, n) (flat g) <->
                     In (if out then (A, B, n) else (B, A, n)) (s_network auto a)) /\
      (forall A c, In (A, 1, 0, c) (flat g) <-> A <> 0 /\ c <> 0 /\ c = fst (s_tally A a)) /\
      (forall A c, In (A, 2, 0, c) (flat g) <-> A <> 0 /\ c <> 0 /\ c = snd (s_tally A a)).
Proof.
  intros d rs h H1 H2 s a sg sgl out auto Hrep Hl Hf1 Hf2.
  destruct (py_traph_get_webentities_links_spec d rs h H1 H2 sg sgl out auto Hrep Hl Hf1 Hf2) as (sg' & g & E & _ & Harr & Hp).
  fold s in Hp. exists sg', g. split; [exact E|]. split; [exact Harr|].
  assert (Hin : forall e, In e (flat g) <-> In e (webentities_links out auto s)).
  { intro e. split; intro Hi; [exact (Permutation.Permutation_in _ Hp Hi)|exact (Permutation.Permutation_in _ (Permutation.Permutation_sym Hp) Hi)]. }
  split; [|split].
  - intros A B n. rewrite Hin. destruct out.
    + exact (C07_network_out d rs h H1 H2 auto A B n).
    + exact (C07_network_in d rs h H1 H2 auto A B n).
  - intros A c. rewrite Hin. exact (C07_tallies d rs h H1 H2 out auto A c).
  - intros A c. rewrite Hin. exact (C07_tallies_uncrawled d rs h H1 H2 out auto A c).
Qed.
Print Assumptions C07_source_network.

(* ---- the slow variant, translated (GenTraphN2.v: Traph.get_webentities_links_slow, which winds every target up to its
   webentity through a RAM cache instead of carrying the webentity down the traversal).  For EVERY history and both switches the
   translated request answers, changes no byte, and its link entries are exactly those of the fast translated request above, in
   the direction asked (C07_network_slow). *)
From Traph Require GenTraphN2 GenTraphN2Facts.
Import GenTraphN2.
Theorem C07_source_network_slow : forall d rs h, wf_rules rs -> Forall wf_op h ->
  let s := run d rs h in let a := srun d rs h in
  forall sg sgl out auto,
    trep (TraceDefs.files_of s) sg -> lrep (stubs s) sgl -> fits (nb s * bsz) -> fits (saddr (length (stubs s))) ->
    exists sg' g, py_traph_get_webentities_links_slow sg sgl out auto = Some (sg', g) /\ pm_array sg' = pm_array sg /\
      (forall A B n, In (A, 0, B, n) (flat g) <->
                     In (if out then (A, B, n) else (B, A, n)) (s_network auto a)).
Proof.
  intros d rs h H1 H2 s a sg sgl out auto Hrep Hl Hf1 Hf2.
  destruct (GenTraphN2Facts.py_traph_get_webentities_links_slow_spec d rs h H1 H2 sg sgl out auto Hrep Hl Hf1 Hf2) as (sg' & g & E & _ & Harr & Hp).
  fold s in Hp. exists sg', g. split; [exact E|]. split; [exact Harr|].
  intros A B n.
  assert (Hin : In (A, 0, B, n) (flat g) <-> In (A, 0, B, n) (webentities_links_slow out auto s)).
  { split; intro Hi; [exact (Permutation.Permutation_in _ Hp Hi)|exact (Permutation.Permutation_in _ (Permutation.Permutation_sym Hp) Hi)]. }
  rewrite Hin. unfold s, a. rewrite (C07_network_slow d rs h H1 H2 out auto A B n). destruct out.
  - exact (C07_network_out d rs h H1 H2 auto A B n).
  - exact (C07_network_in d rs h H1 H2 auto A B n).
Qed.
Print Assumptions C07_source_network_slow.
