(* C09s — the ordered traversal behind pagination, on the code translated from the source on every run (GenTrieI.v:
   LRUTrie.webentity_inorder_iter with its nested closures and recursive generator; left_node / right_node / child_node).
   For EVERY history, from the node object of any prefix node of the state reached, on any storage object holding its trie file:
   without a pagination path the translated traversal yields exactly the model's ordered items (same LRUs, same base-4 paths, the
   node objects of those nodes: Tst.ino_at - whose ascending order and pruning soundness are the subject of C09_sorted_pages /
   C09_stable_chain); with a pagination path it raises exactly when the path cannot be followed in the tree and otherwise yields the
   model's pruned, strictly-after items (Tst.ino_from_at); it never runs out of fuel and changes no byte. *)
From Coq Require Import List NArith Bool.
From Traph Require Import Bytes Consts Helpers Rules Tst TstDefs Traph Ops TraceDefs StoreFacts StoreFacts2
  GenStorage GenNode GenTrie GenTrieFacts GenTrieI GenTrieIFacts.
Import ListNotations.
Open Scope N_scope.

Theorem C09_source_inorder : forall d rs h, Forall wf_op h ->
  let s := run d rs h in
  forall sg t n lru pp,
    trep (files_of s) sg -> subt t (tr s) -> GenTrieFacts.node_at t n ->
    match pp with
    | None => exists items sg', py_trie_webentity_inorder_iter sg n lru None = Some (items, sg') /\ trep (files_of s) sg' /\ pm_array sg' = pm_array sg /\
                Forall2 (item3_rep s) items (ino_at (lru_dirname lru) t)
    | Some path =>
        let cmp := if path =? 0 then [] else int_to_base4 path in
        match follow_path cmp (lru_dirname lru) t with
        | None => py_trie_webentity_inorder_iter sg n lru (Some path) = None
        | Some plru => exists items sg', py_trie_webentity_inorder_iter sg n lru (Some path) = Some (items, sg') /\ trep (files_of s) sg' /\ pm_array sg' = pm_array sg /\
                         Forall2 (item3_rep s) items (ino_from_at cmp plru (lru_dirname lru) t)
        end
    end.
Proof.
  intros d rs h Hh s sg t n lru pp Hrep Hsub Hn.
  exact (py_trie_webentity_inorder_iter_spec s (run_Inv18 d rs h Hh) sg t n lru pp Hrep Hsub Hn).
Qed.
Print Assumptions C09_source_inorder.

(* ---- the paginated request itself (GenTraphG.v: Traph.paginate_webentity_pages, translated; parse_pagination_token is the
   modelled primitive).  For EVERY history, every page size k > 0 (or none), every token (absent, or any non-empty string, well
   formed or not) and both values of crawled_only: the translated request returns exactly the answer record of the model's
   Traph.paginate_pages - done flag, counts, pages, next token - and raises (None) exactly when the model refuses (an absent prefix
   REACHED before the answer is complete) or crashes (malformed token, a path that cannot be followed); no byte changes.  Every
   statement of Props/C09.v about paginate_pages (C09_chunks: the chain terminates, k pages per answer, done at the end;
   C09_sorted_pages; C09_same_pages; C09_stable_chain / _no_repeat / _no_skip) is therefore a statement about the translated
   request. *)
From Traph Require GenTraphG GenTraphGFacts.
Import GenTraphG.
Theorem C09_source_paginate_pages : forall d rs h, Forall wf_op h ->
  let s := run d rs h in
  forall sg w ps k tok co,
  trep (files_of s) sg -> Forall wf_lru ps ->
  match k with Some k0 => 0 < k0 | None => True end -> tok <> Some [] ->
  match paginate_pages ps k tok co s with
  | ROk r => exists sg', py_traph_paginate_webentity_pages sg w ps k tok co =
               Some (sg', mk_pa (pr_done r) (pr_count r) (pr_count_crawled r) (pr_pages r) (pr_token r)) /\
             pm_array sg' = pm_array sg
  | _ => py_traph_paginate_webentity_pages sg w ps k tok co = None
  end.
Proof.
  intros d rs h Hh s sg w ps k tok co Hrep Hps Hk Htok.
  pose proof (GenTraphGFacts.py_traph_paginate_webentity_pages_run d rs h Hh sg w ps k tok co Hrep Hps Hk Htok) as H.
  cbv zeta in H. fold s in H.
  destruct (paginate_pages ps k tok co s) as [| |r]; [exact H|exact H|].
  destruct H as (sg' & E & _ & Harr). exists sg'. split; assumption.
Qed.
Print Assumptions C09_source_paginate_pages.

(* ---- the token text, translated (GenHelpers2.v: build_pagination_token, int_to_base64, base64_to_int; GenHelpers3.v:
   parse_pagination_token): for EVERY prefix index and path, the token the translated builder writes parses back, with the
   translated parser, to the same pair; and the translated parser IS the parse_token the translated requests above use. *)
From Traph Require GenHelpers2 GenHelpers3 GenHelpers3Facts.
Theorem C09_source_token_roundtrip : forall i p,
  GenHelpers3.py_parse_pagination_token (GenHelpers2.py_build_pagination_token i p) = Some (i, p).
Proof. exact GenHelpers3Facts.py_token_roundtrip. Qed.
Theorem C09_source_parse_token : forall t, GenHelpers3.py_parse_pagination_token t = Helpers.parse_token t.
Proof. exact GenHelpers3Facts.py_parse_pagination_token_eq. Qed.
Print Assumptions C09_source_token_roundtrip.
Print Assumptions C09_source_parse_token.
