(* C09s — the ordered traversal behind pagination, on the code translated from the source on every run (GenTrieI.v:
   LRUTrie.webentity_inorder_iter with its nested closures and recursive generator; left_node / right_node / child_node).
   For EVERY history, from the node object of any prefix node of the state reached, on any storage object holding its trie file:
   without a pagination path the translated traversal yields exactly the model's ordered items (same LRUs, same base-4 paths, the
   node objects of those nodes: Tst.ino_at - whose ascending order and pruning soundness are the subject of C09_sorted_pages /
   C09_stable_chain); with a pagination path it raises exactly when the path cannot be followed in the tree and otherwise yields the
   model's pruned, strictly-after items (Tst.ino_from_at); it never runs out of fuel and changes no byte. *)
From Coq Require Import List NArith Bool.
From Traph Require Import Bytes Consts Helpers Rules Tst TstDefs Traph Ops TraceDefs StoreFacts StoreFacts2
  GenStorage GenNode GenTrie GenTrieFacts GenTrieI GenTrieIFacts.
Import ListNotations.
Open Scope N_scope.

Theorem C09_source_inorder : forall d rs h, Forall wf_op h ->
  let s := run d rs h in
  forall sg t n lru pp,
    trep (files_of s) sg -> subt t (tr s) -> GenTrieFacts.node_at t n ->
    match pp with
    | None => exists items sg', py_trie_webentity_inorder_iter sg n lru None = Some (items, sg') /\ trep (files_of s) sg' /\ pm_array sg' = pm_array sg /\
                Forall2 (item3_rep s) items (ino_at (lru_dirname lru) t)
    | Some path =>
        let cmp := if path =? 0 then [] else int_to_base4 path in
        match follow_path cmp (lru_dirname lru) t with
        | None => py_trie_webentity_inorder_iter sg n lru (Some path) = None
        | Some plru => exists items sg', py_trie_webentity_inorder_iter sg n lru (Some path) = Some (items, sg') /\ trep (files_of s) sg' /\ pm_array sg' = pm_array sg /\
                         Forall2 (item3_rep s) items (ino_from_at cmp plru (lru_dirname lru) t)
        end
    end.
Proof.
  intros d rs h Hh s sg t n lru pp Hrep Hsub Hn.
  exact (py_trie_webentity_inorder_iter_spec s (run_Inv18 d rs h Hh) sg t n lru pp Hrep Hsub Hn).
Qed.
Print Assumptions C09_source_inorder.
