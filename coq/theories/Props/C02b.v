(* C02b — the index finds exactly what was written, at the level of the STORED blocks.
   The tree of the model carries block addresses; `files_of s` lists the blocks of
   lru_trie.dat in file order.  The functions of Store.v read those blocks the way the
   code does: lru_node descends through the left / right / child registers from the
   first data block, node.read reassembles a long stem from its tail blocks, and
   windup_lru climbs the parent registers.  For EVERY history h of well-formed requests
   (clear and reopen included) these block-level readers return what the tree says:
   the tree is a faithful abstraction of the pointer structure on disk. *)
From Coq Require Import List NArith Bool.
From Traph Require Import Bytes Consts Helpers Rules Tst TstDefs Traph Traphw Ops RefDefs
  TraceDefs Store StoreFacts StoreFacts2 PropsEx.
Import ListNotations.
Open Scope N_scope.

(* node.read on the stored blocks: the main block of the node (registers = addresses of
   the roots of its three subtrees) and its whole stem, tails included *)
Theorem C02_block_read : forall d rs h, Forall wf_op h ->
  let s := run d rs h in
  forall p n, find p (tr s) = Some n ->
    exists l c r, find_sub p (tr s) = Some (Nd n l c r) /\
      b_read (files_of s) (addr n) = Some (main_block n (root_addr l) (root_addr r) (root_addr c), stem n).
Proof. exact reach_block_read. Qed.

(* lru_node on the stored pointers finds the block of the node the LRU spells, or nothing *)
Theorem C02_block_lookup : forall d rs h, Forall wf_op h ->
  let s := run d rs h in
  forall l, b_lru_node (files_of s) l = option_map addr (nodeof s l).
Proof. exact reach_block_lookup. Qed.

(* windup_lru on the stored parent registers spells the path of the node *)
Theorem C02_block_windup : forall d rs h, Forall wf_op h ->
  let s := run d rs h in
  forall p n, find p (tr s) = Some n -> b_windup_lru (files_of s) (addr n) = Some (concat p).
Proof. exact reach_block_windup. Qed.

(* the access paths agree: what lru_node finds winds up to the LRU looked for *)
Theorem C02_block_paths_agree : forall d rs h, Forall wf_op h ->
  let s := run d rs h in
  forall l a, wf_lru l -> b_lru_node (files_of s) l = Some a -> b_windup_lru (files_of s) a = Some l.
Proof. exact reach_block_paths_agree. Qed.

(* the clause about the root that the lookup needs is an invariant of every request *)
Theorem C02_block_root : forall d rs h, let s := run d rs h in
  root_addr (tr s) = bsz \/ tr s = Lf.
Proof. exact run_root_first. Qed.

(* non-vacuity: a small history with a stem of 153 bytes (three blocks: head + two tails) *)
Definition exb_a : bytes := [115; 58; 104; sep; 104; 58; 97; sep].                 (* s:h|h:a| *)
Definition exb_long : bytes := [112; 58] ++ repeat 97 150 ++ [sep].                (* p:aaa...a| *)
Definition exb_l : bytes := exb_a ++ exb_long.
Definition exb_b : bytes := exb_a ++ [112; 58; 98; sep].
Definition exb_lc : bytes := exb_l ++ [112; 58; 99; sep].
Definition exb_g : bytes := [115; 58; 103; sep; 104; 58; 97; sep].                 (* s:g|h:a| *)
Definition exbh : list op :=
  [ OAddPages [exb_b; exb_l] false; OAddLinks [(exb_lc, exb_g)]; OAddPage exb_a true ].

Lemma exbh_wf : Forall wf_op exbh.
Proof.
  unfold exbh. repeat constructor; cbn [wf_op fst snd]; try wf_lru_tac; try discriminate.
Qed.

Example C02b_nonvacuous :
  Forall wf_op exbh /\
  length exb_long = 153%nat /\ nblk exb_long = 3 /\
  let s := run Domain [] exbh in let f := files_of s in
  length (ft f) = 9%nat /\
  match nodeof s exb_l with
  | Some n => b_lru_node f exb_l = Some (addr n) /\ stem n = exb_long /\
              option_map snd (b_read f (addr n)) = Some exb_long /\
              b_windup_lru f (addr n) = Some exb_l /\
              b_is_page f (addr n) = true
  | None => False
  end /\
  match b_lru_node f exb_lc with Some a => b_windup_lru f a = Some exb_lc | None => False end /\
  b_lru_node f exb_long = None.
Proof.
  split; [exact exbh_wf|]. vm_compute. repeat split; reflexivity.
Qed.

Print Assumptions C02_block_read.
Print Assumptions C02_block_lookup.
Print Assumptions C02_block_windup.
Print Assumptions C02_block_paths_agree.
Print Assumptions C02_block_root.
Print Assumptions C02b_nonvacuous.
