(* C05 — the pages of a webentity.  For EVERY history h of well-formed requests (s the
   model's state, a the specification's state after h) and every list ps of
   well-formed prefixes: the request is refused exactly when the specification
   refuses (some prefix is not a known LRU); otherwise the answer is a permutation of
   the specification's answer s_we_pages: for each prefix in turn, the pages of a_pages
   lying in the realm of that prefix (beneath it, with no longer attached prefix in
   between), with their crawled marks; the "crawled only" variant keeps the crawled
   ones; the node-level traversal with a depth bound agrees with the bounded
   specification. *)
From Coq Require Import List NArith Bool Permutation.
From Traph Require Import Bytes Rules Tst TstDefs Traph Spec Ops RefDefs QueryCore3
  RefFull IdFacts PropsEx.
Import ListNotations.
Open Scope N_scope.

Theorem C05_we_pages : forall d rs h, wf_rules rs -> Forall wf_op h ->
  let s := run d rs h in let a := srun d rs h in
  forall ps, Forall wf_lru ps ->
  match webentity_pages ps s, s_we_pages None ps a with
  | ROk x, ROk y => Permutation x y
  | RRefused, RRefused => True
  | _, _ => False
  end.
Proof. intros d rs h H1 H2. exact (we_pages_spec _ _ (run_Rc d rs h H1 H2)). Qed.

Theorem C05_we_crawled_pages : forall d rs h, wf_rules rs -> Forall wf_op h ->
  let s := run d rs h in let a := srun d rs h in
  forall ps, Forall wf_lru ps ->
  match webentity_crawled_pages ps s, s_we_pages None ps a with
  | ROk x, ROk y => Permutation x (filter (fun z => snd z) y)
  | RRefused, RRefused => True
  | _, _ => False
  end.
Proof. intros d rs h H1 H2. exact (we_crawled_pages_spec _ _ (run_Rc d rs h H1 H2)). Qed.

Theorem C05_we_page_nodes : forall d rs h, wf_rules rs -> Forall wf_op h ->
  let s := run d rs h in let a := srun d rs h in
  forall maxd ps, Forall wf_lru ps ->
  match we_page_nodes maxd ps s, s_we_pages maxd ps a with
  | ROk x, ROk y => Permutation (map (fun z => (fst z, crawled (snd z))) x) y
  | RRefused, RRefused => True
  | _, _ => False
  end.
Proof. intros d rs h H1 H2. exact (we_page_nodes_spec _ _ (run_Rc d rs h H1 H2)). Qed.

(* non-vacuity: webentity 1 of the example owns its home page and the long-stem page but
   not the page under the hand-made webentity 3; an unknown prefix is refused *)
Example C05_nonvacuous :
  wf_rules [] /\ Forall wf_op exh /\
  webentity_pages [ex_pa] (run Domain [] exh) = ROk [(ex_pa, true); (ex_pl, false)] /\
  s_we_pages None [ex_pa] (srun Domain [] exh) = ROk [(ex_pa, true); (ex_pl, false)] /\
  webentity_crawled_pages [ex_pa] (run Domain [] exh) = ROk [(ex_pa, true)] /\
  webentity_pages [ex_px] (run Domain [] exh) = ROk [(ex_pxy, false)] /\
  webentity_pages [ex_pxy ++ ex_long] (run Domain [] exh) = RRefused.
Proof.
  split; [exact ex_rules_wf|]. split; [exact exh_wf|]. vm_compute. repeat split; reflexivity.
Qed.

Print Assumptions C05_we_pages.
Print Assumptions C05_we_crawled_pages.
Print Assumptions C05_we_page_nodes.
Print Assumptions C05_nonvacuous.
