(* C05 — the pages of a webentity.  For EVERY history h of well-formed requests (s the
   model's state, a the specification's state after h) and every list ps of
   well-formed prefixes: the request is refused exactly when the specification
   refuses (some prefix is not a known LRU); otherwise the answer is a permutation of
   the specification's answer s_we_pages: for each prefix in turn, the pages of a_pages
   lying in the realm of that prefix (beneath it, with no longer attached prefix in
   between), with their crawled marks; the "crawled only" variant keeps the crawled
   ones; the node-level traversal with a depth bound agrees with the bounded
   specification. *)
From Coq Require Import List NArith Bool Permutation.
From Traph Require Import Bytes Rules Tst TstDefs Traph Spec Ops RefDefs QueryCore3
  RefFull IdFacts PropsEx.
Import ListNotations.
Open Scope N_scope.

Theorem C05_we_pages : forall d rs h, wf_rules rs -> Forall wf_op h ->
  let s := run d rs h in let a := srun d rs h in
  forall ps, Forall wf_lru ps ->
  match webentity_pages ps s, s_we_pages None ps a with
  | ROk x, ROk y => Permutation x y
  | RRefused, RRefused => True
  | _, _ => False
  end.
Proof. intros d rs h H1 H2. exact (we_pages_spec _ _ (run_Rc d rs h H1 H2)). Qed.

Theorem C05_we_crawled_pages : forall d rs h, wf_rules rs -> Forall wf_op h ->
  let s := run d rs h in let a := srun d rs h in
  forall ps, Forall wf_lru ps ->
  match webentity_crawled_pages ps s, s_we_pages None ps a with
  | ROk x, ROk y => Permutation x (filter (fun z => snd z) y)
  | RRefused, RRefused => True
  | _, _ => False
  end.
Proof. intros d rs h H1 H2. exact (we_crawled_pages_spec _ _ (run_Rc d rs h H1 H2)). Qed.

Theorem C05_we_page_nodes : forall d rs h, wf_rules rs -> Forall wf_op h ->
  let s := run d rs h in let a := srun d rs h in
  forall maxd ps, Forall wf_lru ps ->
  match we_page_nodes maxd ps s, s_we_pages maxd ps a with
  | ROk x, ROk y => Permutation (map (fun z => (fst z, crawled (snd z))) x) y
  | RRefused, RRefused => True
  | _, _ => False
  end.
Proof. intros d rs h H1 H2. exact (we_page_nodes_spec _ _ (run_Rc d rs h H1 H2)). Qed.

(* non-vacuity: webentity 1 of the example owns its home page and the long-stem page but
   not the page under the hand-made webentity 3; an unknown prefix is refused *)
Example C05_nonvacuous :
  wf_rules [] /\ Forall wf_op exh /\
  webentity_pages [ex_pa] (run Domain [] exh) = ROk [(ex_pa, true); (ex_pl, false)] /\
  s_we_pages None [ex_pa] (srun Domain [] exh) = ROk [(ex_pa, true); (ex_pl, false)] /\
  webentity_crawled_pages [ex_pa] (run Domain [] exh) = ROk [(ex_pa, true)] /\
  webentity_pages [ex_px] (run Domain [] exh) = ROk [(ex_pxy, false)] /\
  webentity_pages [ex_pxy ++ ex_long] (run Domain [] exh) = RRefused.
Proof.
  split; [exact ex_rules_wf|]. split; [exact exh_wf|]. vm_compute. repeat split; reflexivity.
Qed.

Print Assumptions C05_we_pages.
Print Assumptions C05_we_crawled_pages.
Print Assumptions C05_we_page_nodes.
Print Assumptions C05_nonvacuous.

(* ---- on the code translated from the source on every run (GenTraph.v: Traph.webentity_page_nodes_iter,
   get_webentity_pages(_iter), get_webentity_crawled_pages(_iter); GenTrieD.v: LRUTrie.webentity_dfs_iter with its explicit
   stack; GenTrie.v: lru_node).  For EVERY history, on any storage object holding the trie file of the state reached, and
   any list of prefixes: the translated request answers a permutation of the SPECIFICATION's pages of those prefixes (the
   crawled-only variant: of those marked crawled); it is refused (None = TraphException) exactly when the specification
   refuses (a prefix that is not in the index); it never fails otherwise and leaves every byte of the file as it was. *)
From Traph Require GenTrieFacts GenTraph GenTraphPages StoreFacts2 TraceDefs GenStorage.
Import GenTraph GenTrieFacts GenStorage.
Theorem C05_source_we_pages : forall d rs h, wf_rules rs -> Forall wf_op h ->
  let s := run d rs h in let a := srun d rs h in
  forall sg w ps, trep (TraceDefs.files_of s) sg -> Forall wf_lru ps ->
  match py_traph_get_webentity_pages sg w ps, s_we_pages None ps a with
  | Some (sg', x), ROk y => Permutation x y /\ pm_array sg' = pm_array sg
  | None, RRefused => True
  | _, _ => False
  end.
Proof.
  intros d rs h H1 H2 s a sg w ps Hrep Hps.
  pose proof (StoreFacts2.run_Inv18 d rs h H2) as Hinv. fold s in Hinv.
  pose proof (StoreFacts2.run_root_first d rs h) as Hroot. fold s in Hroot.
  pose proof (GenTraphPages.py_traph_get_webentity_pages_spec s Hinv Hroot sg w ps Hrep Hps) as H.
  pose proof (C05_we_pages d rs h H1 H2 ps Hps) as Hm. cbv zeta in Hm. fold s a in Hm.
  destruct (webentity_pages ps s) as [| |x].
  - rewrite H. destruct (s_we_pages None ps a); first [exact Hm | destruct Hm].
  - rewrite H. destruct (s_we_pages None ps a); first [exact Hm | destruct Hm].
  - destruct H as (sg' & E & _ & Harr). rewrite E. destruct (s_we_pages None ps a) as [| |y]; first [split; [exact Hm|exact Harr] | exact Hm | destruct Hm].
Qed.
Theorem C05_source_we_crawled_pages : forall d rs h, wf_rules rs -> Forall wf_op h ->
  let s := run d rs h in let a := srun d rs h in
  forall sg w ps, trep (TraceDefs.files_of s) sg -> Forall wf_lru ps ->
  match py_traph_get_webentity_crawled_pages sg w ps, s_we_pages None ps a with
  | Some (sg', x), ROk y => Permutation x (filter (fun z => snd z) y) /\ pm_array sg' = pm_array sg
  | None, RRefused => True
  | _, _ => False
  end.
Proof.
  intros d rs h H1 H2 s a sg w ps Hrep Hps.
  pose proof (StoreFacts2.run_Inv18 d rs h H2) as Hinv. fold s in Hinv.
  pose proof (StoreFacts2.run_root_first d rs h) as Hroot. fold s in Hroot.
  pose proof (GenTraphPages.py_traph_get_webentity_crawled_pages_spec s Hinv Hroot sg w ps Hrep Hps) as H.
  pose proof (C05_we_crawled_pages d rs h H1 H2 ps Hps) as Hm. cbv zeta in Hm. fold s a in Hm.
  destruct (webentity_crawled_pages ps s) as [| |x].
  - rewrite H. destruct (s_we_pages None ps a); first [exact Hm | destruct Hm].
  - rewrite H. destruct (s_we_pages None ps a); first [exact Hm | destruct Hm].
  - destruct H as (sg' & E & _ & Harr). rewrite E. destruct (s_we_pages None ps a) as [| |y]; first [split; [exact Hm|exact Harr] | exact Hm | destruct Hm].
Qed.
Print Assumptions C05_source_we_pages.
Print Assumptions C05_source_we_crawled_pages.
