(* C11b — reopening, on the code translated from the source on every run (GenTraphW.v: LRUTrieHeader.__init__ / __ensure / read).
   For EVERY history, opening the trie file of the state reached (the bytes the model writes, which the correspondence run
   compares with the real file) builds, without changing a byte, a header object whose counter is the state's: together with the
   storage it represents the state again (hrep), so every theorem stated from hrep - C12b (the next id is the stored counter
   + 1), C04b, C06c - applies to the reopened index exactly as to the one that was never closed; a new (empty) file gets a
   header block with counter 0.  Size hypotheses: registers fit their fields, the counter fits 32 bits. *)
From Coq Require Import List NArith Bool Lia.
From Traph Require Import Bytes Consts Rules Tst TstDefs Traph Codec Ops TraceDefs ReopenFacts StoreFacts StoreFacts2
  GenStorage GenNode GenNodeFacts GenTrie GenTrieFacts GenTraphW GenTraphWDefs GenTraphWInit.
Import ListNotations.
Open Scope N_scope.

Theorem C11_source_reopen_header : forall d rs h, Forall wf_op h ->
  let s := run d rs h in
  Forall blk_encodable (ft (files_of s)) -> lastwe s < 2 ^ 32 -> forall c,
  exists hd sg', py_thdr_init (mk_pm 128 (trie_file s) c) = Some (hd, sg') /\
    hrep s hd sg' /\ pm_array sg' = trie_file s.
Proof.
  intros d rs h Hh s Henc Hlt c.
  pose proof (trep_of_file s c Henc) as Hrep. change py_node_block_size with 128 in Hrep.
  assert (Hf : firstn 128 (pm_array (mk_pm 128 (trie_file s) c)) = encode_trie_header (lastwe s)).
  { cbn [pm_array]. unfold trie_file.
    rewrite firstn_app, (firstn_all2 (encode_trie_header (lastwe s))) by (rewrite encode_trie_header_length; lia).
    rewrite encode_trie_header_length. change (128 - 128)%nat with 0%nat. cbn [firstn]. apply app_nil_r. }
  destruct (py_thdr_init_reopen s _ Hrep Hf Hlt) as (hd & sg' & E & Hr & Ha).
  exists hd, sg'. split; [exact E|]. split; [exact Hr|exact Ha].
Qed.

Theorem C11_source_fresh_header :
  exists hd sg', py_thdr_init (mk_pm 128 [] 0) = Some (hd, sg') /\
    pm_array sg' = encode_trie_header 0 /\ th_data hd = [VNum 0; VBytes version_bytes].
Proof. exact py_thdr_init_fresh. Qed.

Print Assumptions C11_source_reopen_header.
Print Assumptions C11_source_fresh_header.
