(* C16b — long-running requests advanced in turns, continued (see C16.v).
   Rule installations in the picture, and completeness of the page query under growth.
   A run starts from a list of jobs: crawl batches (JBatch), rule installations (JRule:
   add_webentity_creation_rule_iter, [rule_step] of Sched.v), page queries (JPages:
   get_webentity_pages_iter) and network queries (JNet, read-only).
   - C16_rule_step_inv: one turn of a rule installation keeps the run invariant SInv
     with the SAME ghost link lists, leaves the abstract page list and link list
     unchanged (it creates no page and no link; it may create webentities and nodes),
     and keeps its own invariant RInv: every (block, lru above) pair on its stack or
     among the pushes it owes names a node of the tree and the LRU of the level above,
     so the LRU it rebuilds for a node popped later IS that node's LRU.
   - C16_RInv_ext: RInv survives the turns of the other coroutines (a path keeps its
     block address).
   - C16_invariant_rules / C16_schedule_independent_rules: C16_invariant and
     C16_schedule_independent for ANY mix of jobs: the sequential reference is still
     the batches applied one after another.
   - C16_growth / C16_we_mono: along any schedule the tree only grows (text): a node
     keeps its place, stem and block; a page stays a page; a node that carries a
     webentity keeps carrying one.  Hence a node without webentity at the end had
     none at any earlier moment.
   - C16_sandwich_complete (with C16_sandwich_partial of C16.v: the two halves of the
     sandwich): a page that exists when the query makes its first step, lies under
     one of the query's prefixes, and at the END has no webentity on any node strictly
     below the prefix on the way to it (itself included) is in the accumulator of the
     finished (not refused) query, whatever was interleaved with it.
     C16_sandwich_complete_spec: the same against abstract states: every page of a1
     (refined by the index at the query's first step) in the realm of P according to
     a2 (refined by the final index) has been accumulated.
   NOT claimed: that pages created after the query's first step are reported (they may
   or may not be: see the two examples, here and in C16.v). *)
From Coq Require Import List NArith Bool Permutation.
From Traph Require Import Bytes Consts Helpers Rules Tst TstDefs Traph Spec Ops RefDefs
  LinkFacts2 RefFull IdFacts PropsEx Sched SchedFacts SchedFacts2 SchedFacts3 SchedFacts4
  SchedFacts5 SchedFacts6 SchedFacts7 SchedFacts8.
From Traph.Props Require Import C16.
Import ListNotations.
Open Scope N_scope.

(* ---- E1: rule installations ------------------------------------------------------ *)

Theorem C16_rule_step_inv : forall r s a go gi, SInv s a go gi -> RInv r s ->
  exists a', SInv (snd (rule_step r s)) a' go gi /\ RInv (fst (rule_step r s)) (snd (rule_step r s)) /\
             a_pages a' = a_pages a /\ a_links a' = a_links a /\ step_ok s (snd (rule_step r s)).
Proof. exact SchedFacts5.rule_step_inv. Qed.

Theorem C16_rule_step_inv_set : forall r s a go gi, SInv s a go gi -> RInv r s ->
  let '(r', s') := rule_step r s in
  exists a', SInv s' a' go gi /\ RInv r' s' /\
             (forall l c, In (l, c) (a_pages a') <-> In (l, c) (a_pages a)) /\ a_links a' = a_links a.
Proof. exact SchedFacts5.rule_step_inv_set. Qed.

Theorem C16_RInv_start : forall p k s, wf_lru p -> RInv (rule_start p k) s.
Proof. exact SchedFacts5.RInv_start. Qed.

Theorem C16_RInv_ext : forall r s s', tree_ext s s' -> RInv r s -> RInv r s'.
Proof. exact SchedFacts5.RInv_ext. Qed.

Theorem C16_invariant_rules : forall jobs sched s0 a0, R s0 a0 -> Forall job_wf jobs ->
  forall k,
  let cs := map job_start jobs in
  let s' := snd (exec_sched (firstn k sched) cs s0) in
  exists a go gi, SInv s' a go gi /\ wf_tst (tr s') /\ addr_ok (tr s') (nb s') /\ stubs_ok (stubs s').
Proof. exact SchedFacts6.C16_invariant_rules. Qed.

Theorem C16_schedule_independent_rules : forall jobs sched s0 a0, R s0 a0 -> Forall job_wf jobs ->
  let cs := map job_start jobs in
  let cs' := fst (exec_sched sched cs s0) in
  let s_fin := snd (exec_sched sched cs s0) in
  forallb co_done cs' = true ->
  let datas := datas_of jobs in
  let a_seq := fold_left (fun a d => fst (s_batch d a)) datas a0 in
  let L := flat_map links_of datas in
  exists a_fin go gi,
    SInv s_fin a_fin go gi /\
    (forall l c, In (l, c) (a_pages a_fin) <-> In (l, c) (a_pages a_seq)) /\
    (forall l c, In (l, c) (pages_iter s_fin) <-> In (l, c) (a_pages a_seq)) /\
    Permutation go (a_links a0 ++ L) /\ Permutation gi (a_links a0 ++ L) /\
    a_links a_seq = a_links a0 ++ L /\
    (forall l d, wf_lru l -> nodeof s_fin l = Some d ->
       Permutation (map (fun t => lru_at t s_fin) (targets_of (stubs s_fin) (outh d)))
                   (map snd (filter (fun p => beq (fst p) l) (a_links a_seq))) /\
       Permutation (map (fun t => lru_at t s_fin) (targets_of (stubs s_fin) (inh d)))
                   (map fst (filter (fun p => beq (snd p) l) (a_links a_seq)))).
Proof. exact SchedFacts6.C16_schedule_independent_rules. Qed.

Theorem C16_schedule_independent_one_rule : forall datas p k sched s0 a0, R s0 a0 ->
  Forall wf_data datas -> wf_lru p ->
  let cs := CRule (rule_start p k) :: map (fun d => CBatch (batch_start d)) datas in
  let s_fin := snd (exec_sched sched cs s0) in
  forallb co_done (fst (exec_sched sched cs s0)) = true ->
  let a_seq := fold_left (fun a d => fst (s_batch d a)) datas a0 in
  (forall l c, In (l, c) (pages_iter s_fin) <-> In (l, c) (a_pages a_seq)) /\
  (forall l d, wf_lru l -> nodeof s_fin l = Some d ->
     Permutation (map (fun t => lru_at t s_fin) (targets_of (stubs s_fin) (outh d)))
                 (map snd (filter (fun p => beq (fst p) l) (a_links a_seq))) /\
     Permutation (map (fun t => lru_at t s_fin) (targets_of (stubs s_fin) (inh d)))
                 (map fst (filter (fun p => beq (snd p) l) (a_links a_seq)))).
Proof. exact SchedFacts6.C16_schedule_independent_one_rule. Qed.

(* ---- E2: the tree only grows; completeness of the page query ----------------------- *)

Theorem C16_growth : forall sched cs s, text (tr s) (tr (snd (exec_sched sched cs s))).
Proof. exact SchedFacts7.exec_sext. Qed.

Theorem C16_we_mono : forall sched cs s p d d',
  find p (tr s) = Some d -> find p (tr (snd (exec_sched sched cs s))) = Some d' -> we d' = 0 -> we d = 0.
Proof. exact SchedFacts7.exec_we_mono. Qed.

Theorem C16_sandwich_complete : forall jobs sched1 sched2 s0 a0 i ps P T dT,
  R s0 a0 -> Forall job_wf jobs ->
  let cs0 := map job_start jobs in
  let cs1 := fst (exec_sched sched1 cs0 s0) in
  let s1 := snd (exec_sched sched1 cs0 s0) in
  let cs2 := fst (exec_sched sched2 cs1 s1) in
  let s2 := snd (exec_sched sched2 cs1 s1) in
  nth_error cs1 i = Some (CPages (pagesq_start ps)) -> In P ps ->
  under (lru_iter P) T -> find T (tr s1) = Some dT -> page dT = true ->
  (forall p' d', under (lru_iter P) p' -> p' <> lru_iter P -> under p' T ->
                 find p' (tr s2) = Some d' -> we d' = 0) ->
  forall q2, nth_error cs2 i = Some (CPages q2) -> q_done q2 = true -> q_refused q2 = false ->
  exists c, In (concat T, c) (q_acc q2).
Proof. exact SchedFacts8.C16_sandwich_complete. Qed.

Theorem C16_sandwich_complete_lru : forall jobs sched1 sched2 s0 a0 i ps P l dT,
  R s0 a0 -> Forall job_wf jobs -> wf_lru l ->
  let cs0 := map job_start jobs in
  let cs1 := fst (exec_sched sched1 cs0 s0) in
  let s1 := snd (exec_sched sched1 cs0 s0) in
  let cs2 := fst (exec_sched sched2 cs1 s1) in
  let s2 := snd (exec_sched sched2 cs1 s1) in
  nth_error cs1 i = Some (CPages (pagesq_start ps)) -> In P ps ->
  under (lru_iter P) (lru_iter l) -> nodeof s1 l = Some dT -> page dT = true ->
  (forall p' d', under (lru_iter P) p' -> p' <> lru_iter P -> under p' (lru_iter l) ->
                 find p' (tr s2) = Some d' -> we d' = 0) ->
  forall q2, nth_error cs2 i = Some (CPages q2) -> q_done q2 = true -> q_refused q2 = false ->
  exists c, In (l, c) (q_acc q2).
Proof. exact SchedFacts8.C16_sandwich_complete_lru. Qed.

Theorem C16_sandwich_complete_spec : forall jobs sched1 sched2 s0 a0 i ps P,
  R s0 a0 -> Forall job_wf jobs -> wf_lru P ->
  let cs0 := map job_start jobs in
  let cs1 := fst (exec_sched sched1 cs0 s0) in
  let s1 := snd (exec_sched sched1 cs0 s0) in
  let cs2 := fst (exec_sched sched2 cs1 s1) in
  let s2 := snd (exec_sched sched2 cs1 s1) in
  nth_error cs1 i = Some (CPages (pagesq_start ps)) -> In P ps ->
  forall q2, nth_error cs2 i = Some (CPages q2) -> q_done q2 = true -> q_refused q2 = false ->
  forall a1 a2, Rcore s1 a1 -> Rcore s2 a2 ->
  forall l c1, In (l, c1) (a_pages a1) -> in_realm (a_pref a2) P l = true ->
  exists c, In (l, c) (q_acc q2).
Proof. exact SchedFacts8.C16_sandwich_complete_spec. Qed.

(* ---- non-vacuity ------------------------------------------------------------------ *)

(* two batches and the installation of a path rule on ex_pa (which re-inserts the pages
   beneath ex_pa and gives ex_px a webentity of its own), to completion under two
   schedules: one job after the other; round-robin.  The link store is laid out
   differently and the webentity of ex_px is reported by the rule installation in one
   run and by a batch in the other, but the pages, their marks and every page's weighted
   links are the same, and are those of the two batches applied one after the other
   with no rule at all. *)
Definition c16b_jobs : list job := [JBatch c16_d1; JRule ex_pa (Path 1); JBatch c16_d2].
Definition c16b_cs : list coro := map job_start c16b_jobs.
Definition c16b_schedA : list nat := repeat 0%nat 10 ++ repeat 1%nat 10 ++ repeat 2%nat 10.
Definition c16b_schedB : list nat := concat (repeat [0%nat; 1%nat; 2%nat] 10).
Definition c16b_sA : traph := snd (exec_sched c16b_schedA c16b_cs c16_s0).
Definition c16b_sB : traph := snd (exec_sched c16b_schedB c16b_cs c16_s0).
Definition c16b_created (cs : list coro) : list (N * list bytes) :=
  match nth_error cs 1 with Some (CRule r) => r_c r | _ => [] end.

Example C16b_rules_nonvacuous :
  R c16_s0 (s_init Domain []) /\ Forall job_wf c16b_jobs /\
  datas_of c16b_jobs = [c16_d1; c16_d2] /\
  forallb co_done (fst (exec_sched c16b_schedA c16b_cs c16_s0)) = true /\
  forallb co_done (fst (exec_sched c16b_schedB c16b_cs c16_s0)) = true /\
  stubs c16b_sA <> stubs c16b_sB /\
  length (c16b_created (fst (exec_sched c16b_schedA c16b_cs c16_s0))) = 1%nat /\
  c16b_created (fst (exec_sched c16b_schedB c16b_cs c16_s0)) = [] /\
  pages_iter c16b_sA = pages_iter c16b_sB /\ pages_iter c16b_sA = pages_iter c16_seq /\
  (forall l, In l [ex_pa; ex_pb; ex_px; ex_pxy] ->
     page_links l true true true c16b_sA = page_links l true true true c16b_sB /\
     page_links l true true true c16b_sA = page_links l true true true c16_seq).
Proof.
  split; [apply init_R; exact ex_rules_wf|].
  split; [repeat constructor; cbn [job_wf fst snd]; wf_lru_tac|].
  split; [reflexivity|].
  split; [vm_compute; reflexivity|]. split; [vm_compute; reflexivity|].
  split; [vm_compute; discriminate|].
  split; [vm_compute; reflexivity|]. split; [vm_compute; reflexivity|].
  split; [vm_compute; reflexivity|]. split; [vm_compute; reflexivity|].
  intros l [<-|[<-|[<-|[<-|[]]]]]; split; vm_compute; reflexivity.
Qed.

(* a page query on ex_pa started after the first batch and interleaved with the second
   batch (which crawls ex_px and adds ex_pxy beneath it) and with a rule installation on
   ex_pb: the two pages under ex_pa that existed at its first step are reported; ex_pxy,
   created meanwhile, is not (under the schedule of C16_query_nonvacuous it is) *)
Definition c16b_jobsq : list job := [JBatch c16_d1; JPages [ex_pa]; JBatch c16_d2; JRule ex_pb (Path 1)].
Definition c16b_sched1 : list nat := repeat 0%nat 10.
Definition c16b_sched2 : list nat := 1%nat :: concat (repeat [2%nat; 3%nat; 1%nat] 10).

Example C16b_query_nonvacuous :
  Forall job_wf c16b_jobsq /\
  nth_error (fst (exec_sched c16b_sched1 (map job_start c16b_jobsq) c16_s0)) 1
    = Some (CPages (pagesq_start [ex_pa])) /\
  pages_iter (snd (exec_sched c16b_sched1 (map job_start c16b_jobsq) c16_s0))
    = [(ex_pa, true); (ex_px, false); (ex_pb, true)] /\
  forallb co_done (fst (exec_sched (c16b_sched1 ++ c16b_sched2) (map job_start c16b_jobsq) c16_s0)) = true /\
  match nth_error (fst (exec_sched (c16b_sched1 ++ c16b_sched2) (map job_start c16b_jobsq) c16_s0)) 1 with
  | Some (CPages q) => (q_acc q, q_done q, q_refused q)
  | _ => ([], false, false)
  end = ([(ex_pa, true); (ex_px, false)], true, false).
Proof.
  split; [repeat constructor; cbn [job_wf fst snd]; wf_lru_tac|].
  split; [vm_compute; reflexivity|]. split; [vm_compute; reflexivity|].
  split; vm_compute; reflexivity.
Qed.

Print Assumptions C16_rule_step_inv.
Print Assumptions C16_rule_step_inv_set.
Print Assumptions C16_RInv_start.
Print Assumptions C16_RInv_ext.
Print Assumptions C16_invariant_rules.
Print Assumptions C16_schedule_independent_rules.
Print Assumptions C16_schedule_independent_one_rule.
Print Assumptions C16_growth.
Print Assumptions C16_we_mono.
Print Assumptions C16_sandwich_complete.
Print Assumptions C16_sandwich_complete_lru.
Print Assumptions C16_sandwich_complete_spec.
Print Assumptions C16b_rules_nonvacuous.
Print Assumptions C16b_query_nonvacuous.
