(* C14s — queries never modify the index, SEMANTICALLY, on the read requests translated from the source on every run.
   Props/C14.v proves on the regenerated call graph that no read-only entry point can reach a store-mutating primitive (an
   over-approximation by names).  Here, for the requests whose translated code is proved equal to the model (Gen*Facts.v): for EVERY
   history and every argument combination the theorems below allow (LRUs absent from the index and unknown webentities included),
   WHENEVER the translated request returns (an answer or the library's own refusal; a raise is None), the bytes of the trie store are
   exactly those before the call.  The link store is not even returned by the translated read requests: they only apply the
   translated positioned reads to it (GenLinks.v), which return nothing but the bytes read.
   Each statement is a corollary of the `…_source_…` theorem of the property the request belongs to. *)
From Coq Require Import List NArith Bool.
From Traph Require Import Bytes Rules Tst TstDefs Traph Spec Ops TraceDefs GenStorage GenLinksFacts GenTrieFacts.
From Traph Require Import Props.C03 Props.C05 Props.C06c Props.C07 Props.C08 Props.C09s Props.C10s Props.C13 Props.C19 Props.C20.
From Traph Require GenTraphL GenTraphX GenTraph GenTraphR GenTraphN GenTraphN2 GenTraphQ GenTraphG GenTraphH GenTrieM GenTraphM GenTraphP GenTraphPDefs AnchorsFacts GenTraphFacts StoreFacts2.
Import ListNotations.
Open Scope N_scope.

Ltac fin :=
  repeat match goal with
  | H : _ /\ _ |- _ => destruct H
  | H : exists _, _ |- _ => destruct H
  | H : False |- _ => contradiction
  | H : Some _ = Some _ |- _ => inversion H; subst; clear H
  | H : Some _ = None |- _ => discriminate H
  | H : None = Some _ |- _ => discriminate H
  | H : match ?x with _ => _ end |- _ => destruct x
  end; try assumption; try congruence.

Section Reads.
  Variables (d : rulekind) (rs : list (bytes * rulekind)) (h : list op).
  Hypothesis H1 : wf_rules rs.
  Hypothesis H2 : Forall wf_op h.
  Let s := run d rs h.
  Variables (sg sgl : py_pm).
  Hypothesis Hrep : trep (files_of s) sg.
  Hypothesis Hl : lrep (stubs s) sgl.
  Hypothesis Hf1 : fits (nb s * bsz).
  Hypothesis Hf2 : fits (saddr (length (stubs s))).

  Theorem C14_source_page_links : forall l inb int outb sg' r, wf_lru l ->
    GenTraphL.py_traph_get_page_links sg sgl l inb int outb = Some (sg', r) -> pm_array sg' = pm_array sg.
  Proof.
    intros l inb int outb sg' r Hw E.
    pose proof (C03_source_page_links d rs h H1 H2 sg sgl l inb int outb Hrep Hl Hf1 Hf2 Hw) as H. cbv zeta in H.
    destruct H as (sg0 & ans & E0 & H). fold s in E0. rewrite E in E0. fin.
  Qed.

  Theorem C14_source_links_iter : forall out sg' r,
    GenTraphX.py_traph_links_iter sg sgl out = Some (r, sg') -> pm_array sg' = pm_array sg.
  Proof.
    intros out sg' r E.
    pose proof (C03_source_links_iter d rs h H1 H2 sg sgl Hrep Hl Hf1 Hf2) as H. cbv zeta in H. fold s in H.
    destruct H as [(sg0 & ans & E0 & H) (sg1 & ans1 & E1 & H')]. destruct out; [rewrite E in E0|rewrite E in E1]; fin.
  Qed.

  Theorem C14_source_we_pages : forall w ps sg' r, Forall wf_lru ps ->
    GenTraph.py_traph_get_webentity_pages sg w ps = Some (sg', r) -> pm_array sg' = pm_array sg.
  Proof.
    intros w ps sg' r Hp E.
    pose proof (C05_source_we_pages d rs h H1 H2 sg w ps Hrep Hp) as H. cbv zeta in H. fold s in H. rewrite E in H. fin.
  Qed.

  Theorem C14_source_we_crawled_pages : forall w ps sg' r, Forall wf_lru ps ->
    GenTraph.py_traph_get_webentity_crawled_pages sg w ps = Some (sg', r) -> pm_array sg' = pm_array sg.
  Proof.
    intros w ps sg' r Hp E.
    pose proof (C05_source_we_crawled_pages d rs h H1 H2 sg w ps Hrep Hp) as H. cbv zeta in H. fold s in H. rewrite E in H. fin.
  Qed.

  Theorem C14_source_potential_prefix : AnchorsFacts.resupplied (init d rs) h -> forall rm lru sg' r,
    GenTraphPDefs.ramrep s rm -> wf_lru lru ->
    GenTraphR.py_traph_get_potential_prefix rm sg lru = Some (sg', r) -> pm_array sg' = pm_array sg.
  Proof.
    intros H3 rm lru sg' r Hram Hw E.
    pose proof (C06_source_potential_prefix d rs h H1 H2 H3 rm sg lru Hram Hrep Hw) as H. cbv zeta in H. fold s in H.
    destruct H as (sg0 & E0 & H). rewrite E in E0. fin.
  Qed.

  Theorem C14_source_network : forall out auto sg' r,
    GenTraphN.py_traph_get_webentities_links sg sgl out auto = Some (sg', r) -> pm_array sg' = pm_array sg.
  Proof.
    intros out auto sg' r E.
    pose proof (C07_source_network d rs h H1 H2 sg sgl out auto Hrep Hl Hf1 Hf2) as H. cbv zeta in H. fold s in H.
    destruct H as (sg0 & g & E0 & H & _). rewrite E in E0. fin.
  Qed.

  Theorem C14_source_network_slow : forall out auto sg' r,
    GenTraphN2.py_traph_get_webentities_links_slow sg sgl out auto = Some (sg', r) -> pm_array sg' = pm_array sg.
  Proof.
    intros out auto sg' r E.
    pose proof (C07_source_network_slow d rs h H1 H2 sg sgl out auto Hrep Hl Hf1 Hf2) as H. cbv zeta in H. fold s in H.
    destruct H as (sg0 & g & E0 & H & _). rewrite E in E0. fin.
  Qed.

  Theorem C14_source_pagelinks : forall w ps inb int outb sg' r, Forall wf_lru ps -> w <> 0 ->
    GenTraphQ.py_traph_get_webentity_pagelinks sg sgl w ps inb int outb = Some (sg', r) -> pm_array sg' = pm_array sg.
  Proof.
    intros w ps inb int outb sg' r Hp Hw E.
    pose proof (C08_source_pagelinks d rs h H1 H2 sg sgl w ps inb int outb Hrep Hl Hf1 Hf2 Hp Hw) as H. cbv zeta in H. fold s in H.
    rewrite E in H. fin.
  Qed.

  Theorem C14_source_outlinks : forall w ps sg' r, Forall wf_lru ps ->
    GenTraphQ.py_traph_get_webentity_outlinks sg sgl w ps = Some (sg', r) -> pm_array sg' = pm_array sg.
  Proof.
    intros w ps sg' r Hp E.
    pose proof (proj1 (C08_source_neighbours d rs h H1 H2 sg sgl w ps Hrep Hl Hf1 Hf2 Hp)) as H. cbv zeta in H. fold s in H.
    rewrite E in H. fin.
  Qed.

  Theorem C14_source_inlinks : forall w ps sg' r, Forall wf_lru ps ->
    GenTraphQ.py_traph_get_webentity_inlinks sg sgl w ps = Some (sg', r) -> pm_array sg' = pm_array sg.
  Proof.
    intros w ps sg' r Hp E.
    pose proof (proj2 (C08_source_neighbours d rs h H1 H2 sg sgl w ps Hrep Hl Hf1 Hf2 Hp)) as H. cbv zeta in H. fold s in H.
    rewrite E in H. fin.
  Qed.

  Theorem C14_source_paginate_pages : forall w ps k tok co sg' r, Forall wf_lru ps ->
    match k with Some k0 => 0 < k0 | None => True end -> tok <> Some [] ->
    GenTraphG.py_traph_paginate_webentity_pages sg w ps k tok co = Some (sg', r) -> pm_array sg' = pm_array sg.
  Proof.
    intros w ps k tok co sg' r Hp Hk Ht E.
    pose proof (C09_source_paginate_pages d rs h H2 sg w ps k tok co Hrep Hp Hk Ht) as H. cbv zeta in H. fold s in H.
    destruct (paginate_pages ps k tok co s); [congruence|congruence|]. destruct H as (sg0 & E0 & H). rewrite E in E0. fin.
  Qed.

  Theorem C14_source_paginate_pagelinks : forall w ps int outb k tok sg' r, Forall wf_lru ps -> w <> 0 ->
    match k with Some k0 => 0 < k0 | None => True end -> tok <> Some [] ->
    GenTraphH.py_traph_paginate_webentity_pagelinks sg sgl w ps int outb k tok = Some (sg', r) -> pm_array sg' = pm_array sg.
  Proof.
    intros w ps int outb k tok sg' r Hp Hw Hk Ht E.
    pose proof (C10_source_paginate_pagelinks d rs h H1 H2 sg sgl w ps int outb k tok Hrep Hl Hf1 Hf2 Hp Hw Hk Ht) as H. cbv zeta in H. fold s in H.
    destruct (paginate_pagelinks w ps int outb k tok s); [congruence|congruence|]. destruct H as (sg0 & E0 & H). rewrite E in E0. fin.
  Qed.

  Theorem C14_source_parents : forall w ps sg' r, Forall wf_lru ps ->
    GenTraph.py_traph_get_webentity_parent_webentities sg w ps = Some (sg', r) -> pm_array sg' = pm_array sg.
  Proof.
    intros w ps sg' r Hp E.
    pose proof (C13_source_parents d rs h H1 H2 sg w ps Hrep Hp) as H. cbv zeta in H. fold s in H. rewrite E in H. fin.
  Qed.

  Theorem C14_source_children : forall w ps sg' r, Forall wf_lru ps ->
    GenTraph.py_traph_get_webentity_child_webentities sg w ps = Some (sg', r) -> pm_array sg' = pm_array sg.
  Proof.
    intros w ps sg' r Hp E.
    pose proof (C13_source_children d rs h H1 H2 sg w ps Hrep Hp) as H. cbv zeta in H. fold s in H. rewrite E in H. fin.
  Qed.

  Theorem C14_source_metrics : forall sg' r,
    GenTrieM.py_trie_metrics sg = Some (sg', r) -> pm_array sg' = pm_array sg.
  Proof.
    intros sg' r E.
    pose proof (C19_source_metrics d rs h H1 H2 sg Hrep) as H. cbv zeta in H. fold s in H.
    destruct H as (sg0 & l & E0 & H & _). rewrite E in E0. fin.
  Qed.

  Theorem C14_source_most_linked : forall w ps k maxd sg' r, Forall wf_lru ps ->
    GenTraphM.py_traph_get_webentity_most_linked_pages sg sgl w ps k maxd = Some (sg', r) -> pm_array sg' = pm_array sg.
  Proof.
    intros w ps k maxd sg' r Hp E.
    pose proof (C20_source_most_linked d rs h H1 H2 sg sgl w ps k maxd Hrep Hl Hf1 Hf2 Hp) as H. cbv zeta in H. fold s in H.
    destruct (most_linked ps k maxd s); [congruence|congruence|]. destruct H as (sg0 & E0 & H). rewrite E in E0. fin.
  Qed.
  (* the two resolutions (refusal = None): for every LRU, present or not *)
  Theorem C14_source_retrieve_webentity : forall lru sg' r, wf_lru lru ->
    GenTraph.py_traph_retrieve_webentity sg lru = Some (sg', r) -> pm_array sg' = pm_array sg.
  Proof.
    intros lru sg' r Hw E.
    exact (proj2 (proj2 (GenTraphFacts.py_traph_retrieve_webentity_spec s (StoreFacts2.run_Inv18 d rs h H2) (StoreFacts2.run_root_first d rs h)
                           sg lru Hrep Hw) (sg', r) E)).
  Qed.

  Theorem C14_source_retrieve_prefix : forall lru sg' r, wf_lru lru ->
    GenTraph.py_traph_retrieve_prefix sg lru = Some (sg', r) -> pm_array sg' = pm_array sg.
  Proof.
    intros lru sg' r Hw E.
    exact (proj2 (proj2 (GenTraphFacts.py_traph_retrieve_prefix_spec s (StoreFacts2.run_Inv18 d rs h H2) (StoreFacts2.run_root_first d rs h)
                           sg lru Hrep Hw) (sg', r) E)).
  Qed.
End Reads.

Print Assumptions C14_source_page_links.
Print Assumptions C14_source_links_iter.
Print Assumptions C14_source_we_pages.
Print Assumptions C14_source_we_crawled_pages.
Print Assumptions C14_source_potential_prefix.
Print Assumptions C14_source_network.
Print Assumptions C14_source_network_slow.
Print Assumptions C14_source_pagelinks.
Print Assumptions C14_source_outlinks.
Print Assumptions C14_source_inlinks.
Print Assumptions C14_source_paginate_pages.
Print Assumptions C14_source_paginate_pagelinks.
Print Assumptions C14_source_parents.
Print Assumptions C14_source_children.
Print Assumptions C14_source_metrics.
Print Assumptions C14_source_most_linked.
Print Assumptions C14_source_retrieve_webentity.
Print Assumptions C14_source_retrieve_prefix.
