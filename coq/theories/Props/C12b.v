(* C12b — the id counter on the code translated from the source on every run (GenTraphW.v: Traph.create_webentity,
   __add_prefixes, __generated_web_entity_id; LRUTrieHeader.increment_last_webentity_id / write / last_webentity_id).
   For EVERY history, from the RAM header object and trie storage holding the state reached (hrep):
   C12_source_create_id      an accepted creation returns the id  lastwe + 1  - strictly greater than the header counter, hence
                             (C12_fresh) than every id issued before, deleted webentities and ids issued before a restart
                             included -, ONE id for all the prefixes it attaches, and that id is what the 128 header bytes of the
                             file decode to afterwards and what the RAM header holds: the counter is persisted by the request
                             itself, so an index reopened on these bytes continues from it;
   C12_source_create_reply   the translated request answers what the model's request answers (refusal = TraphException = None)
                             and leaves the storage holding the whole trie file of the model's next state;
   C12_source_refused_keeps_counter   a refused creation changes neither the header bytes nor the RAM counter of the model.
   Size hypotheses: the file stays below 2^64 bytes, the counter below 2^32 (the width of its field). *)
From Coq Require Import List NArith Bool.
From Traph Require Import Bytes Consts Rules Tst TstDefs Traph Codec Ops IdFacts TraceDefs StoreFacts StoreFacts2
  GenStorage GenNode GenTrie GenTrieFacts GenTraphW GenTraphWDefs GenTraphWFacts.
Import ListNotations.
Open Scope N_scope.

Theorem C12_source_create_id : forall d rs h, Forall wf_op h ->
  let s := run d rs h in
  forall hd sg ps, hrep s hd sg -> wf_op (OCreate ps) ->
  nb (fst (Traph.create_webentity ps s)) * 128 < 2 ^ 64 -> lastwe s + 1 < 2 ^ 32 ->
  forall s1 w valid, add_prefixes ps false s = (s1, ACreated w valid) ->
  w = lastwe s + 1 /\ lastwe s < w /\
  exists hd' sg', py_traph_create_webentity hd sg ps = Some (hd', sg', (Some w, valid)) /\
    decode_trie_header (firstn 128 (pm_array sg')) = w /\ py_thdr_last_webentity_id hd' = w.
Proof.
  intros d rs h Hh s hd sg ps Hrep [_ Hps] Hsz Hlt s1 w valid Ea.
  pose proof (run_Inv18 d rs h Hh) as Hinv. fold s in Hinv.
  pose proof (run_root_first d rs h) as Hroot. fold s in Hroot.
  destruct (py_traph_create_webentity_id s Hinv Hroot hd sg ps Hrep Hps Hsz Hlt s1 w valid Ea) as [Ew H].
  split; [exact Ew|]. split; [rewrite Ew; apply N.lt_add_pos_r; reflexivity|exact H].
Qed.

Theorem C12_source_create_reply : forall d rs h, Forall wf_op h ->
  let s := run d rs h in
  forall hd sg ps, hrep s hd sg -> wf_op (OCreate ps) ->
  let r := Ops.step s (OCreate ps) in
  nb (fst r) * 128 < 2 ^ 64 -> lastwe s + 1 < 2 ^ 32 ->
  match snd r with
  | Refused => py_traph_create_webentity hd sg ps = None
  | Report _ [(w, valid)] =>
      exists hd' sg', py_traph_create_webentity hd sg ps = Some (hd', sg', (Some w, valid)) /\
        hrep (fst r) hd' sg' /\ pm_array sg' = trie_file (fst r)
  | _ => True
  end.
Proof.
  intros d rs h Hh s hd sg ps Hrep [_ Hps] r Hsz Hlt.
  pose proof (run_Inv18 d rs h Hh) as Hinv. fold s in Hinv.
  pose proof (run_root_first d rs h) as Hroot. fold s in Hroot.
  pose proof (py_traph_create_webentity_spec s Hinv Hroot hd sg ps Hrep Hps Hsz Hlt) as H.
  unfold r. cbn [Ops.step]. unfold Traph.create_webentity in *.
  destruct (add_prefixes ps false s) as [s1 [| |w valid]]; cbn [fst snd] in *.
  - exact H.
  - exact I.
  - destruct H as (hd' & sg' & E & Hh'). exists hd', sg'. split; [exact E|]. split; [exact Hh'|exact (hrep_file _ _ _ Hh')].
Qed.

Theorem C12_source_refused_keeps_counter : forall ps s s1,
  add_prefixes ps false s = (s1, ARefuse) -> lastwe s1 = lastwe s.
Proof.
  intros ps s s1 E.
  pose proof (IdFacts.step_ids s (OCreate ps) ltac:(intros; discriminate)) as H.
  cbn [Ops.step] in H. unfold Traph.create_webentity in H. rewrite E in H. cbn in H. destruct H as [_ H]. exact H.
Qed.

Print Assumptions C12_source_create_id.
Print Assumptions C12_source_create_reply.
Print Assumptions C12_source_refused_keeps_counter.

(* ---- clear restarts the counter, on the translated Traph.clear (GenTraphI.v): whatever the stores held and whatever ids had been
   issued, after clear() without rules the header object holds 0 and the header block of the emptied file decodes to 0: the next
   creation returns 1 (C12_source_create_id applies to the state reached, by hrep). *)
From Traph Require GenTraphI GenTraphIAll GenTraphPDefs.
Theorem C12_source_clear_restarts : forall s rm sg sgl od, GenTraphPDefs.ramrep s rm ->
  GenStorage.pm_block_size sg = 128 -> GenStorage.pm_block_size sgl = 16 ->
  exists f0 rm' hd lhd sg' sgl', (forall f, (f0 <= f)%nat -> GenTraphI.py_traph_clear f rm sg sgl od None = Some (rm', hd, lhd, sg', sgl')) /\
    py_thdr_last_webentity_id hd = 0 /\ firstn 128 (GenStorage.pm_array sg') = encode_trie_header 0.
Proof.
  intros s rm sg sgl od Hram Hb1 Hb2.
  destruct (GenTraphIAll.py_traph_clear_closed s rm sg sgl od None Hram Hb1 Hb2 I) as (f0 & rm' & hd & lhd & sg' & sgl' & Hf & _ & (_ & Hd & Hb) & _);
    [vm_compute; reflexivity|vm_compute; reflexivity|].
  exists f0, rm', hd, lhd, sg', sgl'. split; [exact Hf|]. cbn [clear lastwe] in Hd, Hb. split; [|exact Hb].
  unfold py_thdr_last_webentity_id. rewrite Hd. reflexivity.
Qed.
Print Assumptions C12_source_clear_restarts.
