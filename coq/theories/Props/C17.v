(* C17 — prefix variations form closed classes (byte-level model of helpers.lru_variations
   / https_variation).  Family [fam]: scheme stem, optional port stem (bodies without
   ':'), any number of host stems not ending in two "www", then arbitrary stems that do
   not start with "h:" (path / query / fragment stems, free to contain "s:http" or "h:"
   text).  Totality is by construction (a Coq function); the four clauses: *)
From Coq Require Import List NArith.
From Traph Require Import Bytes Helpers VarFacts.
Import ListNotations.

Theorem C17_head : forall sch port hosts rest, fam sch port hosts rest ->
  hd [] (lru_variations (build sch port hosts rest)) = build sch port hosts rest.
Proof. exact VarFacts.C17_head. Qed.

Theorem C17_nodup : forall sch port hosts rest, fam sch port hosts rest ->
  NoDup (lru_variations (build sch port hosts rest)).
Proof. exact VarFacts.C17_nodup. Qed.

Theorem C17_shape : forall sch port hosts rest, fam sch port hosts rest ->
  forall v, In v (lru_variations (build sch port hosts rest)) ->
  exists sch' hosts', v = build sch' port hosts' rest
    /\ (sch' = sch \/ (sch = [104;116;116;112] /\ sch' = [104;116;116;112;115])
                   \/ (sch = [104;116;116;112;115] /\ sch' = [104;116;116;112]))
    /\ (hosts' = hosts \/ hosts' = hosts ++ [www_body] \/ hosts = hosts' ++ [www_body])
    /\ fam sch' port hosts' rest.
Proof. exact VarFacts.C17_shape. Qed.

Theorem C17_closed : forall sch port hosts rest, fam sch port hosts rest ->
  forall x, In x (lru_variations (build sch port hosts rest)) ->
  forall y, In y (lru_variations x) <-> In y (lru_variations (build sch port hosts rest)).
Proof. exact VarFacts.C17_closed. Qed.

(* The same four clauses for the function TRANSLATED from /repo/traph/helpers.py on this run
   (GenHelpers.py_lru_variations, harness/gen_helpers.py): the translation is proved equal to
   the hand-written model, so these are theorems about what the source says now. *)
From Traph Require GenHelpers GenHelpersFacts.

Theorem C17_source_is_model : forall l, GenHelpers.py_lru_variations l = lru_variations l.
Proof. exact GenHelpersFacts.py_lru_variations_eq. Qed.

Theorem C17_source_closed : forall sch port hosts rest, fam sch port hosts rest ->
  let l := build sch port hosts rest in
  (hd [] (GenHelpers.py_lru_variations l) = l) /\
  (NoDup (GenHelpers.py_lru_variations l)) /\
  (forall x, In x (GenHelpers.py_lru_variations l) ->
     forall y, In y (GenHelpers.py_lru_variations x) <-> In y (GenHelpers.py_lru_variations l)).
Proof.
  intros sch port hosts rest F l. unfold l. repeat split.
  - rewrite C17_source_is_model. exact (VarFacts.C17_head _ _ _ _ F).
  - rewrite C17_source_is_model. exact (VarFacts.C17_nodup _ _ _ _ F).
  - rewrite !C17_source_is_model in *. apply (VarFacts.C17_closed _ _ _ _ F x); assumption.
  - rewrite !C17_source_is_model in *. apply (VarFacts.C17_closed _ _ _ _ F x); assumption.
Qed.

Print Assumptions C17_source_is_model.
Print Assumptions C17_source_closed.
Print Assumptions C17_head.
Print Assumptions C17_nodup.
Print Assumptions C17_shape.
Print Assumptions C17_closed.
