(* C03 — page links.  For EVERY history h of well-formed requests (s the model's state,
   a the specification's state after h): the links of a page, for every choice of the
   three direction switches, are exactly the specification's (the distinct submitted
   pairs having the page at the selected end(s), each with its multiplicity in the
   submitted list a_links as weight), without repetition; every reported link was
   submitted, touches the page, and its weight is the number of times it was
   submitted; the two whole-index enumerations list the distinct submitted pairs
   (target side: reversed); count_links is the number of submitted links (the model
   reports twice the value, as the Python float is a half-integer count of stubs). *)
From Coq Require Import List NArith Bool.
From Traph Require Import Bytes Rules Tst TstDefs Traph Spec Ops RefDefs QueryLinks
  RefFull IdFacts PropsEx.
Import ListNotations.
Open Scope N_scope.

Theorem C03_page_links : forall d rs h, wf_rules rs -> Forall wf_op h ->
  let s := run d rs h in let a := srun d rs h in
  forall l inb int outb, wf_lru l ->
  forall x y w, In (x, y, w) (page_links l inb int outb s) <->
                In (x, y, w) (s_page_links l inb int outb a).
Proof. intros d rs h H1 H2. exact (page_links_spec _ _ (run_RR d rs h H1 H2)). Qed.

Theorem C03_page_links_nodup : forall d rs h, wf_rules rs -> Forall wf_op h ->
  let s := run d rs h in
  forall l inb int outb, wf_lru l -> NoDup (page_links l inb int outb s).
Proof. intros d rs h H1 H2. exact (page_links_nodup _ _ (run_RR d rs h H1 H2)). Qed.

Theorem C03_page_links_weight : forall d rs h, wf_rules rs -> Forall wf_op h ->
  let s := run d rs h in let a := srun d rs h in
  forall l inb int outb x y w, wf_lru l ->
  In (x, y, w) (page_links l inb int outb s) ->
  In (x, y) (a_links a) /\ w = count_link x y (a_links a) /\ (x = l \/ y = l).
Proof. intros d rs h H1 H2. exact (page_links_weight _ _ (run_RR d rs h H1 H2)). Qed.

Theorem C03_links_iter : forall d rs h, wf_rules rs -> Forall wf_op h ->
  let s := run d rs h in let a := srun d rs h in
  set_eq (links_iter true s) (dedup_pairs (a_links a)) /\
  set_eq (links_iter false s) (map (fun p => (snd p, fst p)) (dedup_pairs (a_links a))).
Proof. intros d rs h H1 H2. exact (links_iter_spec _ _ (run_RR d rs h H1 H2)). Qed.

Theorem C03_count_links : forall d rs h, wf_rules rs -> Forall wf_op h ->
  let s := run d rs h in let a := srun d rs h in
  count_links_x2 s = 2 * N.of_nat (length (a_links a)).
Proof. intros d rs h H1 H2. exact (count_links_spec _ _ (run_RR d rs h H1 H2)). Qed.

(* non-vacuity: the example submits (pa, pb) twice, (pb, pl) and (pxy, pa) *)
Example C03_nonvacuous :
  wf_rules [] /\ Forall wf_op exh /\
  page_links ex_pa true true true (run Domain [] exh) = [(ex_pa, ex_pb, 2); (ex_pxy, ex_pa, 1)] /\
  s_page_links ex_pa true true true (srun Domain [] exh) = [(ex_pa, ex_pb, 2); (ex_pxy, ex_pa, 1)] /\
  page_links ex_pa false true true (run Domain [] exh) = [(ex_pa, ex_pb, 2)] /\
  page_links ex_pl true true true (run Domain [] exh) = [(ex_pb, ex_pl, 1)] /\
  length (links_iter true (run Domain [] exh)) = 3%nat /\
  count_links_x2 (run Domain [] exh) = 8.
Proof.
  split; [exact ex_rules_wf|]. split; [exact exh_wf|]. vm_compute. repeat split; reflexivity.
Qed.

Print Assumptions C03_page_links.
Print Assumptions C03_page_links_nodup.
Print Assumptions C03_page_links_weight.
Print Assumptions C03_links_iter.
Print Assumptions C03_count_links.
Print Assumptions C03_nonvacuous.

(* accessor/constant table regenerated from the source: re-checked with this property *)
From Traph Require AccessorFacts.
