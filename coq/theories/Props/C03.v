(* C03 — page links.  For EVERY history h of well-formed requests (s the model's state,
   a the specification's state after h): the links of a page, for every choice of the
   three direction switches, are exactly the specification's (the distinct submitted
   pairs having the page at the selected end(s), each with its multiplicity in the
   submitted list a_links as weight), without repetition; every reported link was
   submitted, touches the page, and its weight is the number of times it was
   submitted; the two whole-index enumerations list the distinct submitted pairs
   (target side: reversed); count_links is the number of submitted links (the model
   reports twice the value, as the Python float is a half-integer count of stubs). *)
From Coq Require Import List NArith Bool.
From Traph Require Import Bytes Rules Tst TstDefs Traph Spec Ops RefDefs QueryLinks
  RefFull IdFacts PropsEx.
Import ListNotations.
Open Scope N_scope.

Theorem C03_page_links : forall d rs h, wf_rules rs -> Forall wf_op h ->
  let s := run d rs h in let a := srun d rs h in
  forall l inb int outb, wf_lru l ->
  forall x y w, In (x, y, w) (page_links l inb int outb s) <->
                In (x, y, w) (s_page_links l inb int outb a).
Proof. intros d rs h H1 H2. exact (page_links_spec _ _ (run_RR d rs h H1 H2)). Qed.

Theorem C03_page_links_nodup : forall d rs h, wf_rules rs -> Forall wf_op h ->
  let s := run d rs h in
  forall l inb int outb, wf_lru l -> NoDup (page_links l inb int outb s).
Proof. intros d rs h H1 H2. exact (page_links_nodup _ _ (run_RR d rs h H1 H2)). Qed.

Theorem C03_page_links_weight : forall d rs h, wf_rules rs -> Forall wf_op h ->
  let s := run d rs h in let a := srun d rs h in
  forall l inb int outb x y w, wf_lru l ->
  In (x, y, w) (page_links l inb int outb s) ->
  In (x, y) (a_links a) /\ w = count_link x y (a_links a) /\ (x = l \/ y = l).
Proof. intros d rs h H1 H2. exact (page_links_weight _ _ (run_RR d rs h H1 H2)). Qed.

Theorem C03_links_iter : forall d rs h, wf_rules rs -> Forall wf_op h ->
  let s := run d rs h in let a := srun d rs h in
  set_eq (links_iter true s) (dedup_pairs (a_links a)) /\
  set_eq (links_iter false s) (map (fun p => (snd p, fst p)) (dedup_pairs (a_links a))).
Proof. intros d rs h H1 H2. exact (links_iter_spec _ _ (run_RR d rs h H1 H2)). Qed.

Theorem C03_count_links : forall d rs h, wf_rules rs -> Forall wf_op h ->
  let s := run d rs h in let a := srun d rs h in
  count_links_x2 s = 2 * N.of_nat (length (a_links a)).
Proof. intros d rs h H1 H2. exact (count_links_spec _ _ (run_RR d rs h H1 H2)). Qed.

(* non-vacuity: the example submits (pa, pb) twice, (pb, pl) and (pxy, pa) *)
Example C03_nonvacuous :
  wf_rules [] /\ Forall wf_op exh /\
  page_links ex_pa true true true (run Domain [] exh) = [(ex_pa, ex_pb, 2); (ex_pxy, ex_pa, 1)] /\
  s_page_links ex_pa true true true (srun Domain [] exh) = [(ex_pa, ex_pb, 2); (ex_pxy, ex_pa, 1)] /\
  page_links ex_pa false true true (run Domain [] exh) = [(ex_pa, ex_pb, 2)] /\
  page_links ex_pl true true true (run Domain [] exh) = [(ex_pb, ex_pl, 1)] /\
  length (links_iter true (run Domain [] exh)) = 3%nat /\
  count_links_x2 (run Domain [] exh) = 8.
Proof.
  split; [exact ex_rules_wf|]. split; [exact exh_wf|]. vm_compute. repeat split; reflexivity.
Qed.

Print Assumptions C03_page_links.
Print Assumptions C03_page_links_nodup.
Print Assumptions C03_page_links_weight.
Print Assumptions C03_links_iter.
Print Assumptions C03_count_links.
Print Assumptions C03_nonvacuous.

(* accessor/constant table regenerated from the source: re-checked with this property *)
From Traph Require AccessorFacts.

(* ---- the link store as the source has it (GenLinks.v, regenerated on every run from
   traph/link_store/node.py, link_store.py and the out-parameterised accessors of LRUTrieNode, over the
   MemoryStorage object translated from the source).  GenLinksFacts.v proves, for every list length and
   every target list:
   C03_source_add_links      LinkStore.add_links appends exactly the stubs the model's push_stubs appends
                             (an empty target list writes nothing, in either file; otherwise the page's out / in
                             register receives the new head and the page is written with LRUTrieNode.write);
   C03_source_add_links_bytes the same down to the bytes of both files (the page's 128-byte block rewritten in
                             place, every other byte of the trie file unchanged);
   C03_source_weighted_reachable  for EVERY history, on the bytes of the link file of the state reached,
                             LinkStore.weighted_link_nodes_iter from the out / in head of any node returns the
                             model's weighted target list (out_w / in_w, on which C03_page_links rests): the
                             generated loop never runs out of fuel and never raises;
   C03_source_store_stays_wf add_links keeps the stub list well-formed. *)
From Traph Require GenStorage GenNode GenLinks GenLinksFacts.
Import GenStorage GenNode GenLinks GenLinksFacts.
Open Scope N_scope.
Theorem C03_source_add_links : forall src sgt sg st targets out,
  lrep st sg -> Forall target_ok targets -> wf_head st (py_node_links src out) ->
  let h := py_node_links src out in
  let st' := fst (push_stubs targets h st) in
  let h' := snd (push_stubs targets h st) in
  exists sg', lrep st' sg' /\
    py_ls_add_links src sgt sg targets out =
    Some (match targets with
          | [] => (src, sgt, sg')
          | _ => (fst (py_node_write (py_node_set_links src h' out) sgt),
                  snd (py_node_write (py_node_set_links src h' out) sgt), sg')
          end).
Proof. exact py_ls_add_links_spec. Qed.
Theorem C03_source_add_links_bytes : forall src sgt sg st b a t ts out,
  lrep st sg -> Forall target_ok (t :: ts) ->
  nd_exists src = true -> nd_block src = Some a -> nd_data src = Codec.tblock_vals b ->
  wf_head st (blk_head out b) ->
  pm_block_size sgt = Consts.py_node_block_size -> a + 128 <= N.of_nat (length (pm_array sgt)) ->
  let st' := fst (push_stubs (t :: ts) (blk_head out b) st) in
  let h' := snd (push_stubs (t :: ts) (blk_head out b) st) in
  exists src' sgt' sg',
    py_ls_add_links src sgt sg (t :: ts) out = Some (src', sgt', sg') /\
    lrep st' sg' /\ h' <> 0 /\
    nd_data src' = Codec.tblock_vals (blk_set_head out h' b) /\
    length (pm_array sgt') = length (pm_array sgt) /\
    firstn (N.to_nat a) (pm_array sgt') = firstn (N.to_nat a) (pm_array sgt) /\
    GenStorage.py_slice a (a + 128) (pm_array sgt') = Codec.encode_tblock (blk_set_head out h' b) /\
    skipn (N.to_nat a + 128) (pm_array sgt') = skipn (N.to_nat a + 128) (pm_array sgt).
Proof. exact py_ls_add_links_blocks. Qed.
Theorem C03_source_weighted_reachable : forall d rs h, wf_rules rs -> Forall wf_op h ->
  let s := run d rs h in
  forall sg, lrep (stubs s) sg -> fits (nb s * bsz) -> fits (saddr (length (stubs s))) ->
  forall p nd, find p (tr s) = Some nd ->
    (outh nd <> 0 -> py_ls_weighted_link_nodes_iter sg (outh nd) = Some (map lift (out_w nd s))) /\
    (inh nd <> 0 -> py_ls_weighted_link_nodes_iter sg (inh nd) = Some (map lift (in_w nd s))).
Proof.
  intros d rs h Hr Hh s sg Hrep Hft Hfl p nd Hf.
  pose proof (run_Rl d rs h Hr Hh) as HR. fold s in HR.
  pose proof (reachable_wf_stubs s _ HR Hft Hfl) as Hwf.
  destruct (L_heads s _ HR p nd Hf) as [Ho Hi].
  split; intro Hnz.
  - destruct Ho as [E|(j & Hj & E)]; [contradiction|]. unfold out_w. rewrite E.
    destruct (nth_error (stubs s) j) as [x|] eqn:En; [|apply nth_error_None in En; Lia.lia].
    exact (py_ls_weighted_spec (stubs s) sg j x Hwf Hrep En).
  - destruct Hi as [E|(j & Hj & E)]; [contradiction|]. unfold in_w. rewrite E.
    destruct (nth_error (stubs s) j) as [x|] eqn:En; [|apply nth_error_None in En; Lia.lia].
    exact (py_ls_weighted_spec (stubs s) sg j x Hwf Hrep En).
Qed.
Theorem C03_source_store_stays_wf : forall targets h st,
  wf_stubs st -> Forall (fun t => target_ok t /\ fits t) targets -> wf_head st h ->
  fits (saddr (length st + length targets)) ->
  wf_stubs (fst (push_stubs targets h st)).
Proof. exact push_stubs_wf. Qed.
Print Assumptions C03_source_add_links.
Print Assumptions C03_source_add_links_bytes.
Print Assumptions C03_source_weighted_reachable.
Print Assumptions C03_source_store_stays_wf.

(* ---- the page-link request of the public API on the code translated from the source on every run (GenTraphL.v:
   Traph.get_page_links over the translated lru_node, windup_lru and weighted link traversal).  For EVERY history, on any trie
   storage holding the trie file of the state reached and any link storage holding its link file, for all eight switch settings:
   the translated request never fails, answers without repetition exactly the SPECIFICATION's weighted pairs (weight = number of
   submissions of the link), and leaves every byte of the trie file as it was.  Size hypotheses: both files below 2^64 bytes. *)
From Traph Require GenTraphL GenTraphLFacts GenTrieFacts TraceDefs.
Theorem C03_source_page_links : forall d rs h, wf_rules rs -> Forall wf_op h ->
  let s := run d rs h in let a := srun d rs h in
  forall sg sgl l inb int outb,
    GenTrieFacts.trep (TraceDefs.files_of s) sg -> lrep (stubs s) sgl -> fits (nb s * bsz) -> fits (saddr (length (stubs s))) -> wf_lru l ->
    exists sg' ans, GenTraphL.py_traph_get_page_links sg sgl l inb int outb = Some (sg', ans) /\
      NoDup ans /\ pm_array sg' = pm_array sg /\
      (forall x y w, In (x, y, w) ans <-> In (x, y, w) (s_page_links l inb int outb a)) /\
      (forall x y w, In (x, y, w) ans -> w = count_link x y (a_links a)).
Proof.
  intros d rs h H1 H2 s a sg sgl l inb int outb Hrep Hlrep Hf1 Hf2 Hwf.
  destruct (GenTraphLFacts.py_traph_get_page_links_spec d rs h H1 H2 sg sgl l inb int outb Hrep Hlrep Hf1 Hf2 Hwf) as (sg' & E & _ & Harr).
  exists sg', (page_links l inb int outb s). fold s in E. split; [exact E|].
  split; [exact (C03_page_links_nodup d rs h H1 H2 l inb int outb Hwf)|]. split; [exact Harr|]. split.
  - exact (C03_page_links d rs h H1 H2 l inb int outb Hwf).
  - intros x y w Hin. exact (proj1 (proj2 (C03_page_links_weight d rs h H1 H2 l inb int outb x y w Hwf Hin))).
Qed.
Print Assumptions C03_source_page_links.

(* the link enumeration on the translated Traph.links_iter (GenTraphX.v): for EVERY history, both directions, the translated
   generator yields exactly the distinct submitted links (their transposes for the inbound direction); the page degrees
   (get_page_indegree / outdegree / degree, weighted or not) are sums / counts over the translated get_page_links
   (GenTraphXFacts.py_traph_get_page_degrees_spec) *)
From Traph Require GenTraphX GenTraphXFacts.
Theorem C03_source_links_iter : forall d rs h, wf_rules rs -> Forall wf_op h ->
  let s := run d rs h in let a := srun d rs h in
  forall sg sgl,
    GenTrieFacts.trep (TraceDefs.files_of s) sg -> lrep (stubs s) sgl -> fits (nb s * bsz) -> fits (saddr (length (stubs s))) ->
    (exists sg' ans, GenTraphX.py_traph_links_iter sg sgl true = Some (ans, sg') /\ pm_array sg' = pm_array sg /\
       set_eq ans (dedup_pairs (a_links a))) /\
    (exists sg' ans, GenTraphX.py_traph_links_iter sg sgl false = Some (ans, sg') /\ pm_array sg' = pm_array sg /\
       set_eq ans (map (fun p => (snd p, fst p)) (dedup_pairs (a_links a)))).
Proof.
  intros d rs h H1 H2 s a sg sgl Hrep Hl Hf1 Hf2.
  destruct (C03_links_iter d rs h H1 H2) as [Ho Hi]. fold s a in Ho, Hi.
  split.
  - destruct (GenTraphXFacts.py_traph_links_iter_spec d rs h H1 H2 sg sgl Hrep Hl Hf1 Hf2 true) as (sg' & E & _ & Harr).
    exists sg', (links_iter true s). fold s in E. split; [exact E|]. split; [exact Harr|exact Ho].
  - destruct (GenTraphXFacts.py_traph_links_iter_spec d rs h H1 H2 sg sgl Hrep Hl Hf1 Hf2 false) as (sg' & E & _ & Harr).
    exists sg', (links_iter false s). fold s in E. split; [exact E|]. split; [exact Harr|exact Hi].
Qed.
Print Assumptions C03_source_links_iter.

(* ---- the request that RECORDS links, translated (GenTraphK.v: Traph.add_links).  For EVERY history whose reopen requests
   re-supply the rules, on the RAM tables, header and bytes of both files of the state reached, for every list of well-formed
   links: the translated request answers the SPECIFICATION's report and leaves header, trie file and link file equal to those of
   the model's next state (whose links are, by step_R, the specification's: every theorem above then speaks of the next state).
   Size hypotheses: the files below 2^64 bytes, the webentity counter below 2^32. *)
From Traph Require GenTraphK GenTraphKFacts GenTraphWDefs GenTraphPDefs AnchorsFacts GenTraphW GenTraphP.
Import GenTraphK GenTraphWDefs GenTraphPDefs GenTraphW GenTraphP GenLinksFacts.
Theorem C03_source_traph_add_links : forall d rs h, wf_rules rs -> Forall wf_op h -> AnchorsFacts.resupplied (init d rs) h ->
  let s := run d rs h in let a := srun d rs h in
  forall rm hd sg sgl links, ramrep s rm -> hrep s hd sg -> lrep (stubs s) sgl ->
  wf_op (OAddLinks links) ->
  let s' := fst (Ops.step s (OAddLinks links)) in
  nb s' * 128 < 2 ^ 64 -> lastwe s + N.of_nat (2 * length links) < 2 ^ 32 -> fits (saddr (length (stubs s'))) ->
  exists hd' sg' sgl' n c, snd (sstep s a (OAddLinks links)) = Report n c /\
    py_traph_add_links rm hd sg sgl links = Some (hd', sg', sgl', report_of n c) /\
    hrep s' hd' sg' /\ lrep (stubs s') sgl' /\ ramrep s' rm.
Proof.
  intros d rs h H1 H2 H3 s a rm hd sg sgl links Hram Hh Hl Hwf s' Hsz Hlt Hfs.
  pose proof (proj2 (step_R _ _ (OAddLinks links) (run_RR d rs h H1 H2) Hwf)) as Hspec. fold s a in Hspec.
  rewrite <- Hspec. clear Hspec. unfold s' in *. cbn [Ops.step] in *.
  exact (GenTraphKFacts.py_traph_add_links_spec d rs h H1 H2 (AnchorsFacts.run_anchors_known d rs h H1 H2 H3)
           rm hd sg sgl links Hram Hh Hl Hwf Hsz Hlt Hfs).
Qed.
Print Assumptions C03_source_traph_add_links.
