(* C08 — the links of a webentity.  For EVERY history h of well-formed requests (s the
   model's state, a the specification's state after h), every id w and every list ps of
   well-formed prefixes: get_webentity_pagelinks is refused exactly when the
   specification refuses (no direction selected, or an unknown prefix); otherwise it
   reports exactly the specification's links: the distinct submitted pairs, weighted
   by multiplicity, whose source lies in the realm of one of the prefixes and whose
   target's owner is not w (outbound) / is w (internal), plus, if inbound is
   selected, those whose target lies in the realms and whose source's owner is not w;
   when ps are distinct prefixes of w the answer has no repetition; the neighbours
   (outlinks / inlinks) are, as a set, the owners of the other ends of the submitted
   links having one end in the realms. *)
From Coq Require Import List NArith Bool.
From Traph Require Import Bytes Rules Tst TstDefs Traph Spec Ops RefDefs QueryLinks2
  RefFull IdFacts PropsEx.
Import ListNotations.
Open Scope N_scope.

Theorem C08_pagelinks : forall d rs h, wf_rules rs -> Forall wf_op h ->
  let s := run d rs h in let a := srun d rs h in
  forall w ps inb int outb, Forall wf_lru ps ->
  match webentity_pagelinks w ps inb int outb s, s_pagelinks w ps inb int outb a with
  | ROk x, ROk y => forall e, In e x <-> In e y
  | RRefused, RRefused => True
  | _, _ => False
  end.
Proof. intros d rs h H1 H2. exact (pagelinks_spec _ _ (run_RR d rs h H1 H2)). Qed.

Theorem C08_pagelinks_nodup : forall d rs h, wf_rules rs -> Forall wf_op h ->
  let s := run d rs h in let a := srun d rs h in
  forall w ps inb int outb, Forall wf_lru ps -> NoDup ps ->
  (forall p, In p ps -> In (p, w) (a_pref a)) ->
  match webentity_pagelinks w ps inb int outb s with ROk x => NoDup x | _ => True end.
Proof. intros d rs h H1 H2. exact (pagelinks_nodup_we _ _ (run_RR d rs h H1 H2)). Qed.

Theorem C08_neighbours : forall d rs h, wf_rules rs -> Forall wf_op h ->
  let s := run d rs h in let a := srun d rs h in
  forall out ps, Forall wf_lru ps ->
  match webentity_neighbours out ps s, s_neighbours out ps a with
  | ROk x, ROk y => set_eq x y
  | RRefused, RRefused => True
  | _, _ => False
  end.
Proof. intros d rs h H1 H2. exact (neighbours_spec _ _ (run_RR d rs h H1 H2)). Qed.

(* non-vacuity: webentity 1 (pages pa and the long-stem page pl) links twice to pb,
   is linked from pb (to pl) and from the page of webentity 3 *)
Example C08_nonvacuous :
  wf_rules [] /\ Forall wf_op exh /\
  webentity_pagelinks 1 [ex_pa] true true true (run Domain [] exh)
    = ROk [(ex_pa, ex_pb, 2); (ex_pxy, ex_pa, 1); (ex_pb, ex_pl, 1)] /\
  s_pagelinks 1 [ex_pa] true true true (srun Domain [] exh)
    = ROk [(ex_pa, ex_pb, 2); (ex_pb, ex_pl, 1); (ex_pxy, ex_pa, 1)] /\
  webentity_pagelinks 1 [ex_pa] false false false (run Domain [] exh) = RRefused /\
  webentity_neighbours true [ex_pa] (run Domain [] exh) = ROk [2] /\
  webentity_neighbours false [ex_pa] (run Domain [] exh) = ROk [3; 2].
Proof.
  split; [exact ex_rules_wf|]. split; [exact exh_wf|]. vm_compute. repeat split; reflexivity.
Qed.

Print Assumptions C08_pagelinks.
Print Assumptions C08_pagelinks_nodup.
Print Assumptions C08_neighbours.
Print Assumptions C08_nonvacuous.

(* ---- on the code translated from the source on every run (GenTraphQ.v: Traph.get_webentity_pagelinks(_iter),
   get_webentity_outlinks(_iter), get_webentity_inlinks(_iter) and LRUTrie.windup_lru_for_webentity with its generator inlined;
   over the translated webentity_dfs_iter, weighted / deduped link traversals, lru_node and windup_lru).  For EVERY history, on
   any trie storage holding the trie file of the state reached and any link storage holding its link file: the translated page-link
   query (w <> 0) answers exactly the SPECIFICATION's link set for every switch triple and is refused (None) exactly when the
   specification refuses (all switches off, an absent prefix); the translated cited / citing queries answer lists without
   repetition whose elements are the specification's neighbour webentities (None = no webentity at the other end); nothing
   is written.  Size hypotheses: both files below 2^64 bytes. *)
From Traph Require GenTraphQ GenTraphQFacts GenTrieFacts GenLinksFacts TraceDefs GenStorage.
Import GenTraphQ GenTraphQFacts GenTrieFacts GenLinksFacts GenStorage.
Theorem C08_source_pagelinks : forall d rs h, wf_rules rs -> Forall wf_op h ->
  let s := run d rs h in let a := srun d rs h in
  forall sg sgl w ps inb int outb,
    trep (TraceDefs.files_of s) sg -> lrep (stubs s) sgl -> fits (nb s * bsz) -> fits (saddr (length (stubs s))) ->
    Forall wf_lru ps -> w <> 0 ->
    match py_traph_get_webentity_pagelinks sg sgl w ps inb int outb, s_pagelinks w ps inb int outb a with
    | Some (sg', x), ROk y => (forall e, In e x <-> In e y) /\ pm_array sg' = pm_array sg
    | None, RRefused => True
    | _, _ => False
    end.
Proof.
  intros d rs h H1 H2 s a sg sgl w ps inb int outb Hrep Hl Hf1 Hf2 Hps Hw.
  pose proof (py_traph_get_webentity_pagelinks_spec d rs h H1 H2 sg sgl w ps inb int outb Hrep Hl Hf1 Hf2 Hps Hw) as H.
  cbv zeta in H. fold s in H.
  pose proof (C08_pagelinks d rs h H1 H2 w ps inb int outb Hps) as Hm. cbv zeta in Hm. fold s a in Hm.
  destruct (webentity_pagelinks w ps inb int outb s) as [| |x].
  - rewrite H. destruct (s_pagelinks w ps inb int outb a); first [exact Hm | destruct Hm].
  - rewrite H. destruct (s_pagelinks w ps inb int outb a); first [exact Hm | destruct Hm].
  - destruct H as (sg' & E & _ & Harr). rewrite E.
    destruct (s_pagelinks w ps inb int outb a) as [| |y]; first [split; [exact Hm|exact Harr] | destruct Hm].
Qed.
Theorem C08_source_neighbours : forall d rs h, wf_rules rs -> Forall wf_op h ->
  let s := run d rs h in let a := srun d rs h in
  forall sg sgl w ps,
    trep (TraceDefs.files_of s) sg -> lrep (stubs s) sgl -> fits (nb s * bsz) -> fits (saddr (length (stubs s))) ->
    Forall wf_lru ps ->
    match py_traph_get_webentity_outlinks sg sgl w ps, s_neighbours true ps a with
    | Some (sg', x), ROk y => exists l, x = map lift_we l /\ set_eq l y /\ pm_array sg' = pm_array sg
    | None, RRefused => True
    | _, _ => False
    end /\
    match py_traph_get_webentity_inlinks sg sgl w ps, s_neighbours false ps a with
    | Some (sg', x), ROk y => exists l, x = map lift_we l /\ set_eq l y /\ pm_array sg' = pm_array sg
    | None, RRefused => True
    | _, _ => False
    end.
Proof.
  intros d rs h H1 H2 s a sg sgl w ps Hrep Hl Hf1 Hf2 Hps.
  destruct (py_traph_get_webentity_neighbours_spec d rs h H1 H2 sg sgl w ps Hrep Hl Hf1 Hf2 Hps) as [Ho Hi].
  fold s in Ho, Hi. split.
  - pose proof (C08_neighbours d rs h H1 H2 true ps Hps) as Hm. cbv zeta in Hm. fold s a in Hm.
    destruct (webentity_neighbours true ps s) as [| |x].
    + rewrite Ho. destruct (s_neighbours true ps a); first [exact Hm | destruct Hm].
    + rewrite Ho. destruct (s_neighbours true ps a); first [exact Hm | destruct Hm].
    + destruct Ho as (sg' & E & _ & Harr). rewrite E.
      destruct (s_neighbours true ps a) as [| |y]; try (destruct Hm; fail).
      exists x. split; [reflexivity|]. split; [exact Hm|exact Harr].
  - pose proof (C08_neighbours d rs h H1 H2 false ps Hps) as Hm. cbv zeta in Hm. fold s a in Hm.
    destruct (webentity_neighbours false ps s) as [| |x].
    + rewrite Hi. destruct (s_neighbours false ps a); first [exact Hm | destruct Hm].
    + rewrite Hi. destruct (s_neighbours false ps a); first [exact Hm | destruct Hm].
    + destruct Hi as (sg' & E & _ & Harr). rewrite E.
      destruct (s_neighbours false ps a) as [| |y]; try (destruct Hm; fail).
      exists x. split; [reflexivity|]. split; [exact Hm|exact Harr].
Qed.
Print Assumptions C08_source_pagelinks.
Print Assumptions C08_source_neighbours.
