(* C08 — the links of a webentity.  For EVERY history h of well-formed requests (s the
   model's state, a the specification's state after h), every id w and every list ps of
   well-formed prefixes: get_webentity_pagelinks is refused exactly when the
   specification refuses (no direction selected, or an unknown prefix); otherwise it
   reports exactly the specification's links: the distinct submitted pairs, weighted
   by multiplicity, whose source lies in the realm of one of the prefixes and whose
   target's owner is not w (outbound) / is w (internal), plus, if inbound is
   selected, those whose target lies in the realms and whose source's owner is not w;
   when ps are distinct prefixes of w the answer has no repetition; the neighbours
   (outlinks / inlinks) are, as a set, the owners of the other ends of the submitted
   links having one end in the realms. *)
From Coq Require Import List NArith Bool.
From Traph Require Import Bytes Rules Tst TstDefs Traph Spec Ops RefDefs QueryLinks2
  RefFull IdFacts PropsEx.
Import ListNotations.
Open Scope N_scope.

Theorem C08_pagelinks : forall d rs h, wf_rules rs -> Forall wf_op h ->
  let s := run d rs h in let a := srun d rs h in
  forall w ps inb int outb, Forall wf_lru ps ->
  match webentity_pagelinks w ps inb int outb s, s_pagelinks w ps inb int outb a with
  | ROk x, ROk y => forall e, In e x <-> In e y
  | RRefused, RRefused => True
  | _, _ => False
  end.
Proof. intros d rs h H1 H2. exact (pagelinks_spec _ _ (run_RR d rs h H1 H2)). Qed.

Theorem C08_pagelinks_nodup : forall d rs h, wf_rules rs -> Forall wf_op h ->
  let s := run d rs h in let a := srun d rs h in
  forall w ps inb int outb, Forall wf_lru ps -> NoDup ps ->
  (forall p, In p ps -> In (p, w) (a_pref a)) ->
  match webentity_pagelinks w ps inb int outb s with ROk x => NoDup x | _ => True end.
Proof. intros d rs h H1 H2. exact (pagelinks_nodup_we _ _ (run_RR d rs h H1 H2)). Qed.

Theorem C08_neighbours : forall d rs h, wf_rules rs -> Forall wf_op h ->
  let s := run d rs h in let a := srun d rs h in
  forall out ps, Forall wf_lru ps ->
  match webentity_neighbours out ps s, s_neighbours out ps a with
  | ROk x, ROk y => set_eq x y
  | RRefused, RRefused => True
  | _, _ => False
  end.
Proof. intros d rs h H1 H2. exact (neighbours_spec _ _ (run_RR d rs h H1 H2)). Qed.

(* non-vacuity: webentity 1 (pages pa and the long-stem page pl) links twice to pb,
   is linked from pb (to pl) and from the page of webentity 3 *)
Example C08_nonvacuous :
  wf_rules [] /\ Forall wf_op exh /\
  webentity_pagelinks 1 [ex_pa] true true true (run Domain [] exh)
    = ROk [(ex_pa, ex_pb, 2); (ex_pxy, ex_pa, 1); (ex_pb, ex_pl, 1)] /\
  s_pagelinks 1 [ex_pa] true true true (srun Domain [] exh)
    = ROk [(ex_pa, ex_pb, 2); (ex_pb, ex_pl, 1); (ex_pxy, ex_pa, 1)] /\
  webentity_pagelinks 1 [ex_pa] false false false (run Domain [] exh) = RRefused /\
  webentity_neighbours true [ex_pa] (run Domain [] exh) = ROk [2] /\
  webentity_neighbours false [ex_pa] (run Domain [] exh) = ROk [3; 2].
Proof.
  split; [exact ex_rules_wf|]. split; [exact exh_wf|]. vm_compute. repeat split; reflexivity.
Qed.

Print Assumptions C08_pagelinks.
Print Assumptions C08_pagelinks_nodup.
Print Assumptions C08_neighbours.
Print Assumptions C08_nonvacuous.
