(* C16c — the clause of C16 that is FALSE of the code: "no item that qualified at no moment".
   For the page query (get_webentity_pages_iter) the clause is proved (C16_sandwich_partial
   in C16.v).  For the two queries that combine, after their yields, answers obtained
   before them, the faithful model refutes it; each witness runs on the real index
   (findings/repro.py F10, F11) and the findings are listed in /verif/known_findings.json.
   - C16_network_no_moment_refuted: get_webentities_links_iter fills its page -> webentity
     map while it walks the tree; a rule installation creating one webentity over two
     linked pages between the two visits makes it report the edge 1 -> 2, which the
     uninterrupted query reports after no prefix of the schedule.
   - C16_pagelinks_outbound_no_moment_refuted: get_webentity_pagelinks_iter (outbound
     clause; this generator is not among the four the property lists, but it is a page
     query with yield points) pops the source page while it belongs to the webentity and
     resolves the target of its second link after a crawl batch has moved both pages into
     a new webentity.
   Both statements also assert that the start state is reachable (refined by the
   specification, R), that the jobs are well-formed and that every request finishes:
   nothing fails, only the sandwich clause does.
   The page-link query coroutine (CLinks / JLinks) is part of every schedule theorem of
   C16b.v (C16_invariant_rules, C16_schedule_independent_rules): like the other queries it
   leaves the index untouched. *)
From Coq Require Import List NArith Bool.
From Traph Require Import Bytes Consts Helpers Rules Tst TstDefs Traph Spec Ops RefDefs
  Sched SchedFacts6 SchedRefute.
Import ListNotations.
Open Scope N_scope.

Theorem C16_network_upper_clause_refuted :
  R rf_s0 (srun Domain [] rf_hist) /\ Forall job_wf rf_jobs /\
  let cs := map job_start rf_jobs in
  let cs' := fst (exec_sched rf_sched cs rf_s0) in
  forallb co_done cs' = true /\
  (exists q, nth_error cs' 0 = Some (CNet q) /\ In rf_edge (edges (n_graph q))) /\
  (forall k, (k <= length rf_sched)%nat ->
     ~ In rf_edge (edges (webentities_links true false (snd (exec_sched (firstn k rf_sched) cs rf_s0))))).
Proof. exact C16_network_no_moment_refuted. Qed.
Print Assumptions C16_network_upper_clause_refuted.

Theorem C16_pagelinks_outbound_clause_refuted :
  R rg_s0 (srun Domain rg_rules rg_hist) /\ Forall job_wf rg_jobs /\
  let cs := map job_start rg_jobs in
  let cs' := fst (exec_sched rg_sched cs rg_s0) in
  forallb co_done cs' = true /\
  (exists q, nth_error cs' 0 = Some (CLinks q) /\ l_refused q = false /\ In rg_link (l_acc q)) /\
  (forall k, (k <= length rg_sched)%nat ->
     webentity_pagelinks 1 [rg_D] false false true (snd (exec_sched (firstn k rg_sched) cs rg_s0)) <> RRefused /\
     ~ In rg_link (plain_links (snd (exec_sched (firstn k rg_sched) cs rg_s0)))).
Proof. exact C16_pagelinks_outbound_no_moment_refuted. Qed.
Print Assumptions C16_pagelinks_outbound_clause_refuted.
