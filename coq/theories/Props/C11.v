(* C11 — close/reopen preserves everything; clear empties everything.
   In the model the persistent state is exactly what the two files hold
   (trie_file / link_file of Codec.v); reopening rebuilds only the RAM part (rules,
   default rule) from what the caller supplies, writing nothing.  Hence: the files are
   unchanged byte for byte; re-supplying the current rules makes reopen the identity,
   at ANY position of ANY history (same final state, same other replies); both files
   are whole numbers of blocks in every state; clear with rules equals a freshly
   created index with those rules, and clear without them has the files of a fresh
   index.  What a theorem about the model cannot exhibit - OS page cache, Python
   buffering, the real open() flags - is carried by the reopen/clear twins of the
   correspondence run. *)
From Coq Require Import List NArith.
From Traph Require Import Bytes Rules Tst Traph Codec Ops IdFacts ReopenFacts.
Import ListNotations.
Open Scope N_scope.

Theorem C11_reopen_files : forall d rs s,
  trie_file (reopen d rs s) = trie_file s /\ link_file (reopen d rs s) = link_file s.
Proof. exact ReopenFacts.reopen_files. Qed.

Theorem C11_reopen_id : forall s, NoDup (map fst (rules s)) -> reopen (dflt s) (rules s) s = s.
Proof. exact ReopenFacts.reopen_id. Qed.

Theorem C11_reopen_transparent : forall d rs h1 h2,
  let s := init d rs in let s1 := fst (mrun h1 s) in
  mrun (h1 ++ OReopen (dflt s1) (rules s1) :: h2) s =
  (fst (mrun (h1 ++ h2) s), snd (mrun h1 s) ++ Ok :: snd (mrun h2 s1)).
Proof. exact ReopenFacts.C11_reopen_transparent_init. Qed.

Theorem C11_whole_blocks : forall s,
  length (trie_file s) = (128 * (1 + length (flatten (tr s))))%nat /\
  length (link_file s) = (16 * (1 + length (stubs s)))%nat.
Proof. exact ReopenFacts.C11_whole_blocks. Qed.

Theorem C11_clear_is_init : forall d rs s, clear (Some d) (Some rs) s = init d rs.
Proof. exact ReopenFacts.C11_clear_is_init. Qed.

Theorem C11_clear_fresh_files : forall od s,
  let s' := clear od None s in
  tr s' = Lf /\ nb s' = 1 /\ lastwe s' = 0 /\ stubs s' = [] /\
  trie_file s' = trie_file (init (dflt s') []) /\ link_file s' = link_file (init (dflt s') []).
Proof. exact ReopenFacts.C11_clear_persistent_fresh. Qed.

Print Assumptions C11_reopen_files.
Print Assumptions C11_reopen_id.
Print Assumptions C11_reopen_transparent.
Print Assumptions C11_whole_blocks.
Print Assumptions C11_clear_is_init.
Print Assumptions C11_clear_fresh_files.
