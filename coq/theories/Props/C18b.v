(* C18b — what the reopened index READS after a crash in the middle of a request.
   For EVERY history h of well-formed requests started from a fresh index (s the state
   after h), every further request o other than clear, and every cut point k, let
     f = the files of s after the first k writes of o        (the cut),
     g = the files of the state after the completed request.
   The block-level read functions of Store.v (blk_at, b_read, b_find, b_windup_lru,
   b_is_page; scan_pages = the linear page scan of lru_trie.dat; targets_of = the walk
   of a stub list of link_store.dat) then satisfy:
   - C18_cut_reads_total: no pointer stored in f leads outside f; windup from any block
     terminates with an LRU; the BST descent from any block, with fuel bounded by the
     number of blocks, answers "found" or "absent" and never meets a missing block nor
     runs out of fuel (b_find' is b_find with the negative answers told apart);
   - C18_cut_ordered / C18_history_ordered: the ordering behind that termination: left /
     right / child registers point forward in the file, the parent register backward,
     tail blocks follow the block announcing them;
   - C18_cut_pages_subset: every (LRU, crawled) the page scan reports on f is reported on
     g, with crawled at least as set; C18_cut_pages_tree / C18_cut_pages_spec: and is a
     page of the completed tree / of the specification state after the request;
   - C18_cut_windup: on a main block of f carrying the page bit, windup gives the LRU it
     gives on g (NOT true of a main block whose tail blocks are not all appended yet: see
     the example; such a block never carries the page bit: cut_pclosed);
   - C18_cut_links: the link list read in f from a head stored in f is the list g gives
     from the same head; C18_cut_links_subset: every target read in f is a stored block
     of f and the target of the stub of g at the same position;
   - C18_clear_cut_*: the same for clear, whose writes are replayed on empty files. *)
From Coq Require Import List NArith Bool.
From Traph Require Import Bytes Consts Helpers Rules Tst TstDefs Traph Traphw Spec Ops RefDefs
  ViewFacts RefFull TraceDefs TraceFacts6 IdFacts PropsEx Store StoreFacts StoreFacts2
  CutFacts CutFacts2 CutFacts3.
Import ListNotations.
Open Scope N_scope.

Section Reach.
  Variables (d : rulekind) (rs : list (bytes * rulekind)) (h : list op) (o : op) (k : nat).
  Hypothesis Hh : Forall wf_op h.
  Hypothesis Ho : wf_op o.
  Hypothesis Hc : covered o.

  Let s := run d rs h.
  Let f := apply_all (firstn k (step_w s o)) (files_of s).
  Let g := files_of (fst (step s o)).

  Let Hinv : Inv18 s := run_Inv18 d rs h Hh.
  Let Hoq : OQ s := run_OQ d rs h.

  (* K2 *)
  Theorem C18_history_ordered : ordered (files_of s) /\ closed (files_of s).
  Proof. split; [apply ordered_files_of; assumption|apply (tails_follow_files_of s Hinv)]. Qed.

  Theorem C18_cut_ordered : ordered f.
  Proof. apply cut_ordered; assumption. Qed.

  (* K1 + K3 *)
  Theorem C18_cut_reads_total :
    (forall b, In b (ft f) ->
       (b_left b <> 0 -> blk_at f (b_left b) <> None) /\ (b_right b <> 0 -> blk_at f (b_right b) <> None) /\
       (b_child b <> 0 -> blk_at f (b_child b) <> None) /\ (b_parent b <> 0 -> blk_at f (b_parent b) <> None)) /\
    (forall j tg pv, nth_error (fl f) j = Some (tg, pv) ->
       blk_at f tg <> None /\ (pv <> 0 -> exists j', (j' < j)%nat /\ pv = ssz * N.of_nat (S j'))) /\
    (forall i, (i < length (ft f))%nat -> b_windup_lru f (off i) <> None) /\
    (forall fuel stems i, (i < length (ft f))%nat -> (length (ft f) - i <= fuel)%nat ->
       answered (b_find' fuel f stems (off i))).
  Proof. apply cut_reads_total; assumption. Qed.

  (* the lookup of an LRU from the first data block, as lru_node does *)
  Corollary C18_cut_lookup_total : forall lru, ft f <> [] ->
    answered (b_find' (S (length (ft f))) f (lru_iter lru) bsz) /\
    b_lru_node f lru = fres_opt (b_find' (S (length (ft f))) f (lru_iter lru) bsz).
  Proof.
    intros lru Hne. split; [|apply b_find_find'].
    apply b_lru_node_total; [apply cut_nd; assumption|apply C18_cut_ordered|exact Hne].
  Qed.

  (* K4 *)
  Theorem C18_cut_windup : forall i b, nth_error (ft f) i = Some b -> blk_is_tail b = false ->
    blk_page b = true ->
    b_windup_lru f (off i) = b_windup_lru g (off i) /\ b_is_page g (off i) = true.
  Proof. apply cut_windup_eq; assumption. Qed.

  Theorem C18_cut_pages_subset : forall x cr, In (x, cr) (scan_pages f) ->
    x <> None /\ exists cr', In (x, cr') (scan_pages g) /\ (cr = true -> cr' = true).
  Proof. apply cut_pages_subset; assumption. Qed.

  Theorem C18_cut_pages_tree : forall x cr, In (x, cr) (scan_pages f) ->
    exists p n, find p (tr (fst (step s o))) = Some n /\ page n = true /\ x = Some (concat p) /\
                (cr = true -> crawled n = true).
  Proof. apply cut_pages_tree; assumption. Qed.

  (* the completed side is the tree: the scan of g lists exactly its pages *)
  Theorem C18_done_pages_tree : forall x cr,
    In (x, cr) (scan_pages g) <->
    exists p n, find p (tr (fst (step s o))) = Some n /\ page n = true /\ x = Some (concat p) /\ cr = crawled n.
  Proof. apply scan_pages_tree. apply done_inv; assumption. Qed.

  (* ... and the pages of the specification after the request *)
  Theorem C18_cut_pages_spec : wf_rules rs -> forall x cr, In (x, cr) (scan_pages f) ->
    exists l c, x = Some l /\ In (l, c) (a_pages (fst (sstep s (srun d rs h) o))) /\ (cr = true -> c = true).
  Proof.
    intros Hrs x cr Hin. destruct (C18_cut_pages_tree x cr Hin) as (p & n & Hf & Hp & -> & Hcr).
    destruct (step_R s (srun d rs h) o (run_RR d rs h Hrs Hh) Ho) as [[HC _] _].
    destruct (find_nodeof _ p n (R_wf _ _ HC) Hf) as [Hl Hn].
    exists (concat p), (crawled n). split; [reflexivity|]. split; [|exact Hcr].
    apply (R_pages _ _ HC); [exact Hl|]. exists n. auto.
  Qed.

  (* K5 *)
  Theorem C18_cut_links : forall b, In b (ft f) ->
    targets_of (fl f) (b_out b) = targets_of (fl g) (b_out b) /\
    targets_of (fl f) (b_in b) = targets_of (fl g) (b_in b).
  Proof. apply cut_links; assumption. Qed.

  Theorem C18_cut_links_subset : forall hd t, In t (targets_of (fl f) hd) ->
    blk_at f t <> None /\
    exists j pv, nth_error (fl f) j = Some (t, pv) /\ nth_error (fl g) j = Some (t, pv).
  Proof. apply cut_links_subset; assumption. Qed.
End Reach.

(* clear truncates both files: its cuts are taken from EMPTY files (any state s) *)
Theorem C18_clear_cut_reads_total : forall od ors s k,
  let f := apply_all (firstn k (clear_w od ors s)) files0 in
  ordered f /\
  (forall i, (i < length (ft f))%nat -> b_windup_lru f (off i) <> None) /\
  (forall fuel stems i, (i < length (ft f))%nat -> (length (ft f) - i <= fuel)%nat ->
     answered (b_find' fuel f stems (off i))).
Proof.
  intros od ors s k f. split; [apply clear_cut_ordered|].
  destruct (clear_cut_reads_total od ors s k) as (_ & _ & A & B). split; [exact A|exact B].
Qed.

Theorem C18_clear_cut_pages_subset : forall od ors s k x cr,
  In (x, cr) (scan_pages (apply_all (firstn k (clear_w od ors s)) files0)) ->
  x <> None /\ exists cr', In (x, cr') (scan_pages (files_of (clear od ors s))) /\ (cr = true -> cr' = true).
Proof. intros od ors s k. apply clear_cut_pages_subset. Qed.

(* ---- example: a crash in the middle of the three-block append of a 150-byte stem ----
   The second request adds a page whose last stem has 150 bytes (main block + 2 tail
   blocks).  Its writes: append main, append tail, append tail, rewrite the parent
   (child register), rewrite the main block (page bit).  After 2 writes the file ends
   inside the node: the page scan reports the old page only, a strict subset of the
   completed scan, and the stem read from the unfinished node is 2 bytes short: this is
   why the equality of windups is stated for blocks carrying the page bit. *)
Definition ex_l150 : bytes := [112; 58] ++ repeat 97 147 ++ [sep].     (* p:aaa...a|  (150 bytes) *)
Definition ex_p150 : bytes := ex_pa ++ ex_l150.

Example C18b_example :
  let s := run Domain [] [OAddPage ex_pa true] in
  let o := OAddPage ex_p150 false in
  let f := apply_all (firstn 2 (step_w s o)) (files_of s) in
  let g := files_of (fst (step s o)) in
  Forall wf_op [OAddPage ex_pa true] /\ wf_op o /\ covered o /\
  length (step_w s o) = 5%nat /\
  length (ft (files_of s)) = 8%nat /\ length (ft f) = 10%nat /\ length (ft g) = 11%nat /\
  scan_pages f = [(Some ex_pa, true)] /\
  scan_pages g = [(Some ex_pa, true); (Some ex_p150, false)] /\
  option_map (fun x => length (snd x)) (b_read f (off 8)) = Some 148%nat /\
  option_map (fun x => length (snd x)) (b_read g (off 8)) = Some 150%nat.
Proof.
  cbv zeta. split; [repeat constructor; cbn [wf_op]; wf_lru_tac|].
  split; [cbn [wf_op]; wf_lru_tac|]. split; [exact I|].
  vm_compute. repeat split; reflexivity.
Qed.

Print Assumptions C18_history_ordered.
Print Assumptions C18_cut_ordered.
Print Assumptions C18_cut_reads_total.
Print Assumptions C18_cut_lookup_total.
Print Assumptions C18_cut_windup.
Print Assumptions C18_cut_pages_subset.
Print Assumptions C18_cut_pages_tree.
Print Assumptions C18_done_pages_tree.
Print Assumptions C18_cut_pages_spec.
Print Assumptions C18_cut_links.
Print Assumptions C18_cut_links_subset.
Print Assumptions C18_clear_cut_reads_total.
Print Assumptions C18_clear_cut_pages_subset.
Print Assumptions C18b_example.
