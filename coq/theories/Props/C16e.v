(* C16e — the LOWER clause of C16 for the network query (get_webentities_links_iter), at the
   level of page links: "an edge that qualified at every moment of the execution is in the
   answer".  (The upper clause is false for this query: C16c.v.)  The query is the coroutine
   nco / netq_step of Sched.v, interleaved by any schedule with crawl batches, rule
   installations and other queries.  Proofs: SchedFacts11.v (growth facts), SchedFacts12.v.

   - C16_network_locals (N1): at every moment of any schedule the local variables of every
     network query satisfy NInv: the blocks on the phase-1 stack are blocks of nodes of
     the tree; every record (block, webentity) of the page map names a page and a non-null
     webentity; every recorded (webentity, head) is a valid head of the link store whose
     chain is a part of the present chain of a recorded page of that webentity; every
     phase-2 item has a positive weight and the webentity of a recorded page.
     (NInv_start, NInv_step — one turn of the query, any fuel — and NInv_ext — one turn of
     any other coroutine — are the three preservation lemmas behind it.)
   - C16_network_map_complete (N1, completeness): a page T of s1 (the moment the query is
     started) whose webentity, as the walk resolves it, is B from s1 to s2 — some node CT
     on its path carries B in s1, and in s2 no node strictly below CT on the way to T, T
     included, carries a webentity — is mapped to B by every query state reached in s2
     that has entered phase 2.
   - C16_network_lower_clause (N2): if moreover S is such a page for A and the block of T is
     in the out-chain (out = true; in-chain for out = false) of S in s1, and the edge is
     not a self edge that was not asked for (auto = true or A <> B), then the finished
     query counts the edge: (A, 0, B) has a positive counter in its graph.
     Whatever ran in between — crawl batches adding pages and links, rule installations
     creating webentities elsewhere, other queries — cannot make the query miss the edge.
   - C16_network_lower_clause_lru: the same with LRUs (nodeof) instead of lists of stems.
   What makes it work: a node never moves and keeps its block (sext); a webentity id, once
   written on a node, stays (wext, new in SchedFacts11: every write of an id goes to a node
   that had none); the link store is only appended to and a chain only grows at its head,
   so that a head read earlier still leads to all the links it led to (lext).
   Deviation from the shortest statement one could hope for ("S resolves to A and T to B
   at the END"): the carrier of A (resp. B) must carry it already in s1.  Without it the
   statement is false: C16_network_lower_needs_s1 is a run where, at the end, S and T
   both resolve to webentity 2 (created by a rule installation after the walk had passed)
   and auto = true, and the finished answer has no entry (2, 0, 2).
   - C16_network_lower_example: the hypotheses are satisfiable: a crawl batch interleaved
     with the query, webentities 1 and 2, the theorem yields the edge 1 -> 2. *)
From Coq Require Import List NArith Bool Lia Arith.
From Traph Require Import Bytes Consts Helpers Rules Tst TstDefs Traph Spec Ops RefDefs RefFull
  LinkFacts2 Sched SchedFacts4 SchedFacts6 SchedFacts7 SchedFacts11 SchedFacts12 PropsEx SchedRefute.
Import ListNotations.
Open Scope N_scope.

Theorem C16_network_locals : forall jobs sched s0 a0, R s0 a0 -> Forall job_wf jobs ->
  forall i q, nth_error (fst (exec_sched sched (map job_start jobs) s0)) i = Some (CNet q) ->
  NInv q (snd (exec_sched sched (map job_start jobs) s0)).
Proof. exact C16_network_invariant. Qed.
Print Assumptions C16_network_locals.

Theorem C16_network_locals_start : forall out auto s, NInv (netq_start out auto) s.
Proof. exact NInv_start. Qed.
Print Assumptions C16_network_locals_start.

Theorem C16_network_locals_turn : forall s, wf_tst (tr s) -> addr_ok (tr s) (nb s) -> Rbase s ->
  forall fuel q, NInv q s -> NInv (netq_step fuel q s) s.
Proof. exact NInv_step. Qed.
Print Assumptions C16_network_locals_turn.

Theorem C16_network_locals_others : forall q s s', sext s s' -> lext s s' -> stubs_ok (stubs s) ->
  NInv q s -> NInv q s'.
Proof. exact NInv_ext. Qed.
Print Assumptions C16_network_locals_others.

(* the two growth facts behind the clause *)
Theorem C16_webentity_ids_stay : forall sched cs s p d,
  find p (tr s) = Some d -> we d <> 0 ->
  exists d', find p (tr (snd (exec_sched sched cs s))) = Some d' /\ we d' = we d.
Proof.
  intros sched cs s p d Hf Hw. destruct (exec_wext sched cs s p d Hf) as (d' & Hf' & E). exists d'. auto.
Qed.
Print Assumptions C16_webentity_ids_stay.

Theorem C16_links_only_grow : forall a0 jobs cs s a go gi i c, HInv a0 jobs cs s a go gi ->
  nth_error cs i = Some c -> lext s (snd (co_step c s)).
Proof. exact co_step_lext. Qed.
Print Assumptions C16_links_only_grow.

Theorem C16_network_map_complete : forall jobs sched1 sched2 s0 a0 i out auto T CT B dT dCT,
  R s0 a0 -> Forall job_wf jobs ->
  let cs0 := map job_start jobs in
  let cs1 := fst (exec_sched sched1 cs0 s0) in
  let s1 := snd (exec_sched sched1 cs0 s0) in
  let cs2 := fst (exec_sched sched2 cs1 s1) in
  let s2 := snd (exec_sched sched2 cs1 s1) in
  nth_error cs1 i = Some (CNet (netq_start out auto)) ->
  find T (tr s1) = Some dT -> page dT = true ->
  under CT T -> find CT (tr s1) = Some dCT -> we dCT = B -> B <> 0 ->
  (forall p' d', under CT p' -> p' <> CT -> under p' T -> find p' (tr s2) = Some d' -> we d' = 0) ->
  forall q2, nth_error cs2 i = Some (CNet q2) ->
  NInv q2 s2 /\
  (n_phase2 q2 = true -> In (addr dT, B) (n_p2w q2) /\ p2w_get (addr dT) (n_p2w q2) = B).
Proof. exact C16_network_p2w_complete. Qed.
Print Assumptions C16_network_map_complete.

Theorem C16_network_lower_clause : forall jobs sched1 sched2 s0 a0 i out auto S CS T CT A B dS dT dCS dCT,
  (* a reachable start, well-formed jobs *)
  R s0 a0 -> Forall job_wf jobs ->
  let cs0 := map job_start jobs in
  let cs1 := fst (exec_sched sched1 cs0 s0) in
  let s1 := snd (exec_sched sched1 cs0 s0) in
  let cs2 := fst (exec_sched sched2 cs1 s1) in
  let s2 := snd (exec_sched sched2 cs1 s1) in
  (* the query has not made a step yet in s1 *)
  nth_error cs1 i = Some (CNet (netq_start out auto)) ->
  (* S and T are pages of s1, with a link S -> T stored in s1 *)
  find S (tr s1) = Some dS -> page dS = true ->
  find T (tr s1) = Some dT -> page dT = true ->
  In (addr dT) (targets_of (stubs s1) (head_dir out dS)) ->
  (* CS on the path of S carries A in s1, CT on the path of T carries B in s1 *)
  under CS S -> find CS (tr s1) = Some dCS -> we dCS = A -> A <> 0 ->
  under CT T -> find CT (tr s1) = Some dCT -> we dCT = B -> B <> 0 ->
  (* at the end no node strictly below them on the way to the pages carries a webentity *)
  (forall p' d', under CS p' -> p' <> CS -> under p' S -> find p' (tr s2) = Some d' -> we d' = 0) ->
  (forall p' d', under CT p' -> p' <> CT -> under p' T -> find p' (tr s2) = Some d' -> we d' = 0) ->
  auto = true \/ A <> B ->
  (* the finished query counts the edge *)
  forall q2, nth_error cs2 i = Some (CNet q2) -> n_done q2 = true ->
  exists v, In (A, 0, B, v) (n_graph q2) /\ 0 < v.
Proof. exact C16_network_lower. Qed.
Print Assumptions C16_network_lower_clause.

Theorem C16_network_lower_clause_lru : forall jobs sched1 sched2 s0 a0 i out auto lS pS lT pT A B dS dT dCS dCT,
  R s0 a0 -> Forall job_wf jobs ->
  let cs0 := map job_start jobs in
  let cs1 := fst (exec_sched sched1 cs0 s0) in
  let s1 := snd (exec_sched sched1 cs0 s0) in
  let cs2 := fst (exec_sched sched2 cs1 s1) in
  let s2 := snd (exec_sched sched2 cs1 s1) in
  nth_error cs1 i = Some (CNet (netq_start out auto)) ->
  nodeof s1 lS = Some dS -> page dS = true ->
  nodeof s1 lT = Some dT -> page dT = true ->
  In (addr dT) (targets_of (stubs s1) (head_dir out dS)) ->
  under (lru_iter pS) (lru_iter lS) -> nodeof s1 pS = Some dCS -> we dCS = A -> A <> 0 ->
  under (lru_iter pT) (lru_iter lT) -> nodeof s1 pT = Some dCT -> we dCT = B -> B <> 0 ->
  (forall p' d', under (lru_iter pS) p' -> p' <> lru_iter pS -> under p' (lru_iter lS) ->
                 find p' (tr s2) = Some d' -> we d' = 0) ->
  (forall p' d', under (lru_iter pT) p' -> p' <> lru_iter pT -> under p' (lru_iter lT) ->
                 find p' (tr s2) = Some d' -> we d' = 0) ->
  auto = true \/ A <> B ->
  forall q2, nth_error cs2 i = Some (CNet q2) -> n_done q2 = true ->
  exists v, In (A, 0, B, v) (n_graph q2) /\ 0 < v.
Proof. exact C16_network_lower_lru. Qed.
Print Assumptions C16_network_lower_clause_lru.

(* ---------------------------------------------------------------------------------------
   The hypotheses are satisfiable.  s:https|h:com|h:a|p:m|p:x| (webentity 1, by the domain
   default rule) links to s:http|h:org|h:b|p:y| (webentity 2).  The query (job 0) starts
   after the first turn of a crawl batch (job 1) that adds s:http|h:org|h:b|p:z| with links
   to both pages, and alternates with it. *)
Definition e_T : bytes := [115; 58; 104; 116; 116; 112; 124; 104; 58; 111; 114; 103; 124; 104; 58; 98; 124; 112; 58; 121; 124].
Definition e_Q : bytes := [115; 58; 104; 116; 116; 112; 124; 104; 58; 111; 114; 103; 124; 104; 58; 98; 124; 112; 58; 122; 124].
Definition e_hist : list op := [OAddPage rf_S false; OAddPage e_T false; OAddLinks [(rf_S, e_T)]].
Definition e_s0 : traph := run Domain [] e_hist.
Definition e_jobs : list job := [JNet true false; JBatch [(e_Q, [rf_S; e_T])]].
Definition e_sched1 : list nat := [1]%nat.
Definition e_sched2 : list nat := [0; 1; 0; 1; 0; 1; 0; 1; 0; 0; 0; 0]%nat.
(* the carriers: s:https|h:com|h:a| and s:http|h:org|h:b| *)
Definition e_CS : list bytes := [[115; 58; 104; 116; 116; 112; 115; 124]; [104; 58; 99; 111; 109; 124]; [104; 58; 97; 124]].
Definition e_CT : list bytes := [[115; 58; 104; 116; 116; 112; 124]; [104; 58; 111; 114; 103; 124]; [104; 58; 98; 124]].
Definition e_Sr : list bytes := [[112; 58; 109; 124]; [112; 58; 120; 124]].
Definition e_Tr : list bytes := [[112; 58; 121; 124]].

Lemma e_hist_wf : Forall wf_op e_hist.
Proof. unfold e_hist. repeat constructor; cbn [wf_op fst snd]; try wf_lru_tac; try discriminate. Qed.

Lemma e_jobs_wf : Forall job_wf e_jobs.
Proof.
  unfold e_jobs. repeat constructor; cbn [job_wf SchedFacts2.wf_data fst snd]; try wf_lru_tac.
Qed.

Example C16_network_lower_example :
  let cs0 := map job_start e_jobs in
  let cs1 := fst (exec_sched e_sched1 cs0 e_s0) in
  let s1 := snd (exec_sched e_sched1 cs0 e_s0) in
  let cs2 := fst (exec_sched e_sched2 cs1 s1) in
  exists q2, nth_error cs2 0 = Some (CNet q2) /\ n_done q2 = true /\
             exists v, In (1, 0, 2, v) (n_graph q2) /\ 0 < v.
Proof.
  cbv zeta. eexists. split; [vm_compute; reflexivity|]. split; [vm_compute; reflexivity|].
  eapply (C16_network_lower e_jobs e_sched1 e_sched2 e_s0 (srun Domain [] e_hist) 0 true false
            (e_CS ++ e_Sr) e_CS (e_CT ++ e_Tr) e_CT 1 2).
  - apply run_RR; [apply ex_rules_wf|apply e_hist_wf].
  - apply e_jobs_wf.
  - vm_compute. reflexivity.
  - vm_compute. reflexivity.
  - reflexivity.
  - vm_compute. reflexivity.
  - reflexivity.
  - vm_compute. left. reflexivity.
  - exists e_Sr. reflexivity.
  - vm_compute. reflexivity.
  - reflexivity.
  - discriminate.
  - exists e_Tr. reflexivity.
  - vm_compute. reflexivity.
  - reflexivity.
  - discriminate.
  - apply chk_below_ok. vm_compute. reflexivity.
  - apply chk_below_ok. vm_compute. reflexivity.
  - right. discriminate.
  - vm_compute. reflexivity.
  - reflexivity.
Qed.
Print Assumptions C16_network_lower_example.

(* ---------------------------------------------------------------------------------------
   The webentity must already be on its carrier in s1.  Start of SchedRefute.v: rf_S links
   to rf_T, both in webentity 1.  The query (auto = true) walks the whole tree, then a
   path-1 creation rule is installed under s:http|h:com|h:a| and creates webentity 2 on the
   two p:m| nodes, then the query finishes.  At the end S and T both resolve to 2 (carriers:
   their p:m| ancestors) and nothing below carries a webentity; the answer, computed from
   the walk, has the edge 1 -> 1 and no entry (2, 0, 2). *)
Definition n_jobs : list job := [JNet true true; JRule rf_P (Path 1)].
Definition n_sched : list nat := [0; 0; 0; 1; 1; 1; 1; 1; 0; 0; 0; 0]%nat.

Example C16_network_lower_needs_s1 :
  let cs1 := map job_start n_jobs in
  let s1 := rf_s0 in
  let cs2 := fst (exec_sched n_sched cs1 s1) in
  let s2 := snd (exec_sched n_sched cs1 s1) in
  let S := lru_iter rf_S in let T := lru_iter rf_T in
  let CS := firstn 4 S in let CT := firstn 4 T in
  R rf_s0 (srun Domain [] rf_hist) /\ Forall job_wf n_jobs /\
  nth_error cs1 0 = Some (CNet (netq_start true true)) /\
  (exists dS dT, find S (tr s1) = Some dS /\ page dS = true /\ find T (tr s1) = Some dT /\ page dT = true /\
                 In (addr dT) (targets_of (stubs s1) (head_dir true dS))) /\
  under CS S /\ under CT T /\
  (* at the END the carriers carry 2 ... *)
  (exists dCS dCT, find CS (tr s2) = Some dCS /\ we dCS = 2 /\ find CT (tr s2) = Some dCT /\ we dCT = 2) /\
  (* ... and nothing below them does *)
  (forall p' d', under CS p' -> p' <> CS -> under p' S -> find p' (tr s2) = Some d' -> we d' = 0) /\
  (forall p' d', under CT p' -> p' <> CT -> under p' T -> find p' (tr s2) = Some d' -> we d' = 0) /\
  (* the finished query does not count the edge 2 -> 2 *)
  exists q2, nth_error cs2 0 = Some (CNet q2) /\ n_done q2 = true /\ forall v, ~ In (2, 0, 2, v) (n_graph q2).
Proof.
  cbv zeta.
  split; [apply run_RR; [apply ex_rules_wf|apply rf_hist_wf]|].
  split; [unfold n_jobs; repeat constructor; cbn [job_wf]; wf_lru_tac|].
  split; [reflexivity|].
  split; [eexists; eexists; split; [vm_compute; reflexivity|]; split; [reflexivity|];
          split; [vm_compute; reflexivity|]; split; [reflexivity|]; vm_compute; left; reflexivity|].
  split; [exists (skipn 4 (lru_iter rf_S)); symmetry; apply firstn_skipn|].
  split; [exists (skipn 4 (lru_iter rf_T)); symmetry; apply firstn_skipn|].
  split; [eexists; eexists; split; [vm_compute; reflexivity|]; split; [reflexivity|];
          split; [vm_compute; reflexivity|reflexivity]|].
  split.
  { intros p' d' U1 U2 U3. rewrite <- (firstn_skipn 4 (lru_iter rf_S)) in U3. revert p' d' U1 U2 U3.
    apply chk_below_ok. vm_compute. reflexivity. }
  split.
  { intros p' d' U1 U2 U3. rewrite <- (firstn_skipn 4 (lru_iter rf_T)) in U3. revert p' d' U1 U2 U3.
    apply chk_below_ok. vm_compute. reflexivity. }
  eexists. split; [vm_compute; reflexivity|]. split; [reflexivity|].
  intros v Hin. cbn [n_graph] in Hin.
  repeat (destruct Hin as [Hin|Hin]; [discriminate Hin|]). destruct Hin.
Qed.
Print Assumptions C16_network_lower_needs_s1.
