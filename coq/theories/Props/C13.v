(* C13 — the webentity hierarchy.  For EVERY history h of well-formed requests (s the
   model's state, a the specification's state after h), every id w and every list ps
   of well-formed prefixes: the request is refused exactly when some prefix is not a
   known LRU; otherwise the parents are, as a set, the ids other than w attached (in
   a_pref) to a PROPER stem-prefix of one of the prefixes, and the children are the
   ids other than w attached to an LRU at or beneath one of the prefixes. *)
From Coq Require Import List NArith Bool.
From Traph Require Import Bytes Rules Tst TstDefs Traph Spec Ops RefDefs QueryCore3
  RefFull IdFacts PropsEx.
Import ListNotations.
Open Scope N_scope.

Theorem C13_parents : forall d rs h, wf_rules rs -> Forall wf_op h ->
  let s := run d rs h in let a := srun d rs h in
  forall w ps, Forall wf_lru ps ->
  match parent_webentities w ps s, s_parents w ps a with
  | ROk x, ROk y => set_eq x y
  | RRefused, RRefused => True
  | _, _ => False
  end.
Proof. intros d rs h H1 H2. exact (parents_spec _ _ (run_Rc d rs h H1 H2)). Qed.

Theorem C13_children : forall d rs h, wf_rules rs -> Forall wf_op h ->
  let s := run d rs h in let a := srun d rs h in
  forall w ps, Forall wf_lru ps ->
  match child_webentities w ps s, s_children w ps a with
  | ROk x, ROk y => set_eq x y
  | RRefused, RRefused => True
  | _, _ => False
  end.
Proof. intros d rs h H1 H2. exact (children_spec _ _ (run_Rc d rs h H1 H2)). Qed.

(* non-vacuity: in the example the hand-made webentity 3 sits beneath webentity 1 *)
Example C13_nonvacuous :
  wf_rules [] /\ Forall wf_op exh /\
  parent_webentities 3 [ex_px] (run Domain [] exh) = ROk [1] /\
  s_parents 3 [ex_px] (srun Domain [] exh) = ROk [1] /\
  child_webentities 1 [ex_pa] (run Domain [] exh) = ROk [3] /\
  s_children 1 [ex_pa] (srun Domain [] exh) = ROk [3] /\
  parent_webentities 1 [ex_pa] (run Domain [] exh) = ROk [] /\
  child_webentities 1 [ex_pxy ++ ex_long] (run Domain [] exh) = RRefused.
Proof.
  split; [exact ex_rules_wf|]. split; [exact exh_wf|]. vm_compute. repeat split; reflexivity.
Qed.

Print Assumptions C13_parents.
Print Assumptions C13_children.
Print Assumptions C13_nonvacuous.

(* accessor/constant table regenerated from the source: re-checked with this property *)
From Traph Require AccessorFacts.

(* ---- on the code translated from the source on every run (GenTraph.v: Traph.get_webentity_parent_webentities,
   get_webentity_child_webentities(_iter); GenTrie.v: node_parents_iter, lru_node; GenTrieD.v: dfs_iter with
   skip_childless_paths - the traversal pruned by the NO_CHILD_WEBENTITIES flag).  For EVERY history, on any storage object
   holding the trie file of the state reached, and any webentity id and list of prefixes: the translated request answers a
   list without repetition whose elements are exactly the SPECIFICATION's parent (child) webentities; it is refused
   (None = TraphException) exactly when the specification refuses; it never fails otherwise and writes nothing. *)
From Traph Require GenTrieFacts GenTraph GenTraphHier StoreFacts2 TraceDefs GenStorage.
Import GenTraph GenTrieFacts GenStorage.
Theorem C13_source_parents : forall d rs h, wf_rules rs -> Forall wf_op h ->
  let s := run d rs h in let a := srun d rs h in
  forall sg w ps, trep (TraceDefs.files_of s) sg -> Forall wf_lru ps ->
  match py_traph_get_webentity_parent_webentities sg w ps, s_parents w ps a with
  | Some (sg', x), ROk y => exists l, x = map Some l /\ set_eq l y /\ pm_array sg' = pm_array sg
  | None, RRefused => True
  | _, _ => False
  end.
Proof.
  intros d rs h H1 H2 s a sg w ps Hrep Hps.
  pose proof (StoreFacts2.run_Inv18 d rs h H2) as Hinv. fold s in Hinv.
  pose proof (StoreFacts2.run_root_first d rs h) as Hroot. fold s in Hroot.
  pose proof (GenTraphHier.py_traph_parents_spec s Hinv Hroot sg w ps Hrep Hps) as H.
  pose proof (C13_parents d rs h H1 H2 w ps Hps) as Hm. cbv zeta in Hm. fold s a in Hm.
  destruct (parent_webentities w ps s) as [| |x].
  - rewrite H. destruct (s_parents w ps a); first [exact Hm | destruct Hm].
  - rewrite H. destruct (s_parents w ps a); first [exact Hm | destruct Hm].
  - destruct H as (sg' & E & _ & Harr). rewrite E. destruct (s_parents w ps a) as [| |y]; try (destruct Hm; fail).
    exists x. split; [reflexivity|]. split; [exact Hm|exact Harr].
Qed.
Theorem C13_source_children : forall d rs h, wf_rules rs -> Forall wf_op h ->
  let s := run d rs h in let a := srun d rs h in
  forall sg w ps, trep (TraceDefs.files_of s) sg -> Forall wf_lru ps ->
  match py_traph_get_webentity_child_webentities sg w ps, s_children w ps a with
  | Some (sg', x), ROk y => exists l, x = map Some l /\ set_eq l y /\ pm_array sg' = pm_array sg
  | None, RRefused => True
  | _, _ => False
  end.
Proof.
  intros d rs h H1 H2 s a sg w ps Hrep Hps.
  pose proof (StoreFacts2.run_Inv18 d rs h H2) as Hinv. fold s in Hinv.
  pose proof (StoreFacts2.run_root_first d rs h) as Hroot. fold s in Hroot.
  pose proof (GenTraphHier.py_traph_children_full s Hinv Hroot sg w ps Hrep Hps) as H.
  pose proof (C13_children d rs h H1 H2 w ps Hps) as Hm. cbv zeta in Hm. fold s a in Hm.
  destruct (child_webentities w ps s) as [| |x].
  - rewrite H. destruct (s_children w ps a); first [exact Hm | destruct Hm].
  - rewrite H. destruct (s_children w ps a); first [exact Hm | destruct Hm].
  - destruct H as (sg' & E & _ & Harr). rewrite E. destruct (s_children w ps a) as [| |y]; try (destruct Hm; fail).
    exists x. split; [reflexivity|]. split; [exact Hm|exact Harr].
Qed.
Print Assumptions C13_source_parents.
Print Assumptions C13_source_children.
