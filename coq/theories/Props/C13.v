(* C13 — the webentity hierarchy.  For EVERY history h of well-formed requests (s the
   model's state, a the specification's state after h), every id w and every list ps
   of well-formed prefixes: the request is refused exactly when some prefix is not a
   known LRU; otherwise the parents are, as a set, the ids other than w attached (in
   a_pref) to a PROPER stem-prefix of one of the prefixes, and the children are the
   ids other than w attached to an LRU at or beneath one of the prefixes. *)
From Coq Require Import List NArith Bool.
From Traph Require Import Bytes Rules Tst TstDefs Traph Spec Ops RefDefs QueryCore3
  RefFull IdFacts PropsEx.
Import ListNotations.
Open Scope N_scope.

Theorem C13_parents : forall d rs h, wf_rules rs -> Forall wf_op h ->
  let s := run d rs h in let a := srun d rs h in
  forall w ps, Forall wf_lru ps ->
  match parent_webentities w ps s, s_parents w ps a with
  | ROk x, ROk y => set_eq x y
  | RRefused, RRefused => True
  | _, _ => False
  end.
Proof. intros d rs h H1 H2. exact (parents_spec _ _ (run_Rc d rs h H1 H2)). Qed.

Theorem C13_children : forall d rs h, wf_rules rs -> Forall wf_op h ->
  let s := run d rs h in let a := srun d rs h in
  forall w ps, Forall wf_lru ps ->
  match child_webentities w ps s, s_children w ps a with
  | ROk x, ROk y => set_eq x y
  | RRefused, RRefused => True
  | _, _ => False
  end.
Proof. intros d rs h H1 H2. exact (children_spec _ _ (run_Rc d rs h H1 H2)). Qed.

(* non-vacuity: in the example the hand-made webentity 3 sits beneath webentity 1 *)
Example C13_nonvacuous :
  wf_rules [] /\ Forall wf_op exh /\
  parent_webentities 3 [ex_px] (run Domain [] exh) = ROk [1] /\
  s_parents 3 [ex_px] (srun Domain [] exh) = ROk [1] /\
  child_webentities 1 [ex_pa] (run Domain [] exh) = ROk [3] /\
  s_children 1 [ex_pa] (srun Domain [] exh) = ROk [3] /\
  parent_webentities 1 [ex_pa] (run Domain [] exh) = ROk [] /\
  child_webentities 1 [ex_pxy ++ ex_long] (run Domain [] exh) = RRefused.
Proof.
  split; [exact ex_rules_wf|]. split; [exact exh_wf|]. vm_compute. repeat split; reflexivity.
Qed.

Print Assumptions C13_parents.
Print Assumptions C13_children.
Print Assumptions C13_nonvacuous.

(* accessor/constant table regenerated from the source: re-checked with this property *)
From Traph Require AccessorFacts.
