(* C09 — paginating the pages of a webentity.  For EVERY history h of well-formed
   requests (s the model's state, a the specification's state after h), every list ps
   of known well-formed prefixes and every page size k >= 1: following the
   continuation tokens from the first request terminates; every answer but the last
   is full (exactly k pages, done = false) and the last says done; the page counters
   of each answer are those of its pages; the concatenation of the answers is the
   in-order page sequence (prefix by prefix, ascending LRU order inside a prefix),
   which is a permutation of what the one-shot request returns and of the
   specification's page list for those prefixes.  Stability: resuming with a token
   issued in ANY earlier state whose subtree was only extended (nodes added, page
   flags turned on) delivers exactly the pages greater than the last delivered one -
   no repetition, no omission - then the remaining prefixes.  Tokens round-trip. *)
From Coq Require Import List NArith Bool Permutation Sorted.
From Traph Require Import Bytes Helpers Rules Tst TstDefs Traph Spec Ops RefDefs InorderFacts
  TokenFacts QueryCore QueryCore3 PaginationFacts RefFull IdFacts PropsEx.
Import ListNotations.
Open Scope N_scope.

(* known prefixes are found in the tree *)
Lemma C09_known_found : forall d rs h ps, wf_rules rs -> Forall wf_op h -> Forall wf_lru ps ->
  (forall p, In p ps -> In p (a_known (srun d rs h))) -> all_found ps (tr (run d rs h)).
Proof.
  intros d rs h ps H1 H2 Hps Hk p Hp. rewrite Forall_forall in Hps.
  apply (known_found _ _ (run_Rc d rs h H1 H2) p (Hps p Hp)).
  apply mem_bytes_In. apply Hk. exact Hp.
Qed.

Theorem C09_chunks : forall d rs h co ps k, wf_rules rs -> Forall wf_op h ->
  let s := run d rs h in let a := srun d rs h in
  Forall wf_lru ps -> (forall p, In p ps -> In p (a_known a)) -> 1 <= k ->
  exists fuel rs',
    chainp fuel ps k co None s = Some rs' /\
    concat (map pr_pages rs') = full_pages co ps (tr s) /\
    (forall r, In r (removelast rs') -> pr_done r = false /\ length (pr_pages r) = N.to_nat k) /\
    pr_done (last rs' pr0) = true /\
    (forall r, In r rs' ->
       pr_count r = N.of_nat (length (pr_pages r)) /\
       pr_count_crawled r = N.of_nat (length (filter (fun x => snd x) (pr_pages r)))).
Proof.
  intros d rs h co ps k H1 H2. cbv zeta. intros Hps Hk Hk1.
  exact (PaginationFacts.C09_chunks co ps k _ (run_wf d rs h H1 H2)
           (C09_known_found d rs h ps H1 H2 Hps Hk) Hk1).
Qed.

Theorem C09_sorted_pages : forall d rs h co p, wf_rules rs -> Forall wf_op h ->
  let s := run d rs h in
  StronglySorted (fun x y => lex (fst x) (fst y) = Lt) (seg_pages co p (tr s)).
Proof. intros d rs h co p H1 H2. exact (PaginationFacts.C09_sorted_pages co p _ (run_wf d rs h H1 H2)). Qed.

Theorem C09_same_pages : forall d rs h ps, wf_rules rs -> Forall wf_op h ->
  let s := run d rs h in let a := srun d rs h in
  Forall wf_lru ps -> (forall p, In p ps -> In p (a_known a)) ->
  match webentity_pages ps s with
  | ROk l => Permutation (full_pages false ps (tr s)) l
  | _ => False
  end.
Proof.
  intros d rs h ps H1 H2. cbv zeta. intros Hps Hk.
  exact (PaginationFacts.C09_same_pages ps _ (C09_known_found d rs h ps H1 H2 Hps Hk)).
Qed.

Theorem C09_same_crawled_pages : forall d rs h ps, wf_rules rs -> Forall wf_op h ->
  let s := run d rs h in let a := srun d rs h in
  Forall wf_lru ps -> (forall p, In p ps -> In p (a_known a)) ->
  match webentity_crawled_pages ps s with
  | ROk l => Permutation (full_pages true ps (tr s)) l
  | _ => False
  end.
Proof.
  intros d rs h ps H1 H2. cbv zeta. intros Hps Hk.
  exact (PaginationFacts.C09_same_crawled_pages ps _ (C09_known_found d rs h ps H1 H2 Hps Hk)).
Qed.

(* the paginated sequence against the specification *)
Theorem C09_pages_spec : forall d rs h ps, wf_rules rs -> Forall wf_op h ->
  let s := run d rs h in let a := srun d rs h in
  Forall wf_lru ps -> (forall p, In p ps -> In p (a_known a)) ->
  match s_we_pages None ps a with
  | ROk y => Permutation (full_pages false ps (tr s)) y /\
             Permutation (full_pages true ps (tr s)) (filter (fun z => snd z) y)
  | _ => False
  end.
Proof.
  intros d rs h ps H1 H2. cbv zeta. intros Hps Hk.
  pose proof (C09_same_pages d rs h ps H1 H2 Hps Hk) as A1.
  pose proof (C09_same_crawled_pages d rs h ps H1 H2 Hps Hk) as A2.
  pose proof (we_pages_spec _ _ (run_Rc d rs h H1 H2) ps Hps) as B1.
  pose proof (we_crawled_pages_spec _ _ (run_Rc d rs h H1 H2) ps Hps) as B2.
  cbv zeta in A1, A2.
  destruct (webentity_pages ps (run d rs h)) as [| |l1]; try contradiction.
  destruct (webentity_crawled_pages ps (run d rs h)) as [| |l2]; try contradiction.
  destruct (s_we_pages None ps (srun d rs h)) as [| |y]; try contradiction.
  split; [apply (Permutation_trans A1 B1)|apply (Permutation_trans A2 B2)].
Qed.

(* resuming in a later state s' = run d rs h with a token issued in an earlier state s0 *)
Theorem C09_stable_chain : forall d rs h co ps k i p s0 sub sub' lru n path,
  wf_rules rs -> Forall wf_op h ->
  let s' := run d rs h in let a := srun d rs h in
  Forall wf_lru ps -> (forall q, In q ps -> In q (a_known a)) -> 1 <= k ->
  nth_error ps (N.to_nat i) = Some p ->
  find_sub (lru_iter p) (tr s0) = Some sub ->
  In (lru, n, path) (ino_at (lru_dirname p) sub) ->
  find_sub (lru_iter p) (tr s') = Some sub' ->
  extw sub sub' ->
  exists fuel rs',
    chainp fuel ps k co (Some (build_token i path)) s' = Some rs' /\
    concat (map pr_pages rs') =
      map pout (seg_after co i p lru sub') ++
      map pout (segs co (i + 1) (skipn (S (N.to_nat i)) ps) (tr s')) /\
    (forall r, In r (removelast rs') -> pr_done r = false /\ length (pr_pages r) = N.to_nat k) /\
    pr_done (last rs' pr0) = true /\
    (forall r, In r rs' -> answer_ok r).
Proof.
  intros d rs h co ps k i p s0 sub sub' lru n path H1 H2. cbv zeta.
  intros Hps Hk Hk1 Hnth Hsub Hin Hsub' Hext.
  exact (PaginationFacts.C09_stable_chain co ps k i p s0 _ sub sub' lru n path Hnth Hsub Hin Hsub' Hext
           (run_wf d rs h H1 H2) (C09_known_found d rs h ps H1 H2 Hps Hk) Hk1).
Qed.

Theorem C09_stable_no_repeat : forall co i p lru sub' y,
  In y (seg_after co i p lru sub') ->
  exists lru' cr path', y = PI i lru' cr path' /\ lex lru' lru = Gt.
Proof. exact PaginationFacts.C09_stable_no_repeat. Qed.

Theorem C09_stable_no_skip : forall co i p lru sub' lru' n' path',
  In (lru', n', path') (ino_at (lru_dirname p) sub') ->
  page n' = true -> (co = true -> crawled n' = true) -> lex lru' lru = Gt ->
  In (PI i lru' (crawled n') path') (seg_after co i p lru sub').
Proof. exact PaginationFacts.C09_stable_no_skip. Qed.

Theorem C09_token_roundtrip : forall i p, parse_token (build_token i p) = Some (i, p).
Proof. exact TokenFacts.token_roundtrip. Qed.

(* non-vacuity: paging webentity 1 of the example one page at a time takes 2 requests
   (the first not done, the second done) and delivers its two pages in LRU order; resuming with the first
   token after a further insertion delivers the remaining pages, new one included *)
Example C09_nonvacuous :
  wf_rules [] /\ Forall wf_op exh /\
  In ex_pa (a_known (srun Domain [] exh)) /\
  option_map (map pr_pages) (chainp 5 [ex_pa] 1 false None (run Domain [] exh))
    = Some [[(ex_pa, true)]; [(ex_pl, false)]] /\
  option_map (map pr_done) (chainp 5 [ex_pa] 1 false None (run Domain [] exh))
    = Some [false; true] /\
  match paginate_pages [ex_pa] (Some 1) None false (run Domain [] exh) with
  | ROk r =>
      option_map (map pr_pages)
        (chainp 5 [ex_pa] 5 false (pr_token r)
                (run Domain [] (exh ++ [OAddPage (ex_pa ++ [112; 58; 98; sep]) false])))
      = Some [[(ex_pl, false); (ex_pa ++ [112; 58; 98; sep], false)]]
  | _ => False
  end.
Proof.
  split; [exact ex_rules_wf|]. split; [exact exh_wf|]. vm_compute.
  repeat split; try reflexivity. tauto.
Qed.

Print Assumptions C09_chunks.
Print Assumptions C09_sorted_pages.
Print Assumptions C09_same_pages.
Print Assumptions C09_same_crawled_pages.
Print Assumptions C09_pages_spec.
Print Assumptions C09_stable_chain.
Print Assumptions C09_stable_no_repeat.
Print Assumptions C09_stable_no_skip.
Print Assumptions C09_token_roundtrip.
Print Assumptions C09_nonvacuous.

(* the path arithmetic of the tokens, as TRANSLATED from /repo/traph/helpers.py on this run *)
From Traph Require GenHelpers GenHelpersFacts.
Theorem C09_source_base4_append : forall p n, GenHelpers.py_base4_append p n = Helpers.base4_append p n.
Proof. exact GenHelpersFacts.py_base4_append_eq. Qed.
Print Assumptions C09_source_base4_append.

(* ---- the token codec as the SOURCE has it -------------------------------------------
   GenHelpers2.v is regenerated on every run from traph/helpers.py (int_to_base64,
   base64_to_int, build_pagination_token with their loops); GenHelpers2Facts.v proves the
   translated functions equal to the model's, hence the round trip holds of the code's
   own encoder/decoder pair, for every index and every path. *)
From Traph Require GenHelpers2 GenHelpers2Facts TokenFacts.
Theorem C09_source_build_token : forall i p,
  GenHelpers2.py_build_pagination_token i p = Helpers.build_token i p.
Proof. exact GenHelpers2Facts.py_build_pagination_token_eq. Qed.
Theorem C09_source_base64_roundtrip : forall x,
  GenHelpers2.py_base64_to_int (GenHelpers2.py_int_to_base64 x) = Some x.
Proof.
  intro x. rewrite GenHelpers2Facts.py_base64_to_int_eq, GenHelpers2Facts.py_int_to_base64_eq.
  apply TokenFacts.b64_roundtrip.
Qed.
Theorem C09_source_token_parses : forall i p,
  Helpers.parse_token (GenHelpers2.py_build_pagination_token i p) = Some (i, p).
Proof. intros i p. rewrite GenHelpers2Facts.py_build_pagination_token_eq. apply TokenFacts.token_roundtrip. Qed.
Print Assumptions C09_source_build_token.
Print Assumptions C09_source_base64_roundtrip.
Print Assumptions C09_source_token_parses.
