(* C01 — the page set.  For EVERY history h of well-formed requests, started from a
   fresh index with well-formed rules, let s = run d rs h be the state of the model and
   a = srun d rs h the state of the abstract specification (Spec.v) after the same
   history.  Then: the enumeration of the pages of the index is a permutation of the
   specification's page list (same LRUs, same crawled marks), without repetition; the
   two page counters read by scanning the file are the specification's counts; every
   reply of the model, in particular the "pages created" figure of every report, is
   the specification's reply.  What the specification's page list is, is spelled out
   in C01_spec_pages: a submission adds the LRU iff it was not there (reporting one
   new page iff so), keeps every other entry, and leaves the crawled mark of the LRU
   at (old || submitted); re-submitting a known page can only turn its mark on. *)
From Coq Require Import List NArith Bool Permutation.
From Traph Require Import Bytes Rules Tst TstDefs Traph Spec Ops RefDefs QueryCore QueryCore4
  RefCore RefFull SpecFacts IdFacts PropsEx.
Import ListNotations.
Open Scope N_scope.

Theorem C01_pages_perm : forall d rs h, wf_rules rs -> Forall wf_op h ->
  let s := run d rs h in let a := srun d rs h in
  Permutation (pages_iter s) (a_pages a).
Proof. intros d rs h H1 H2. exact (pages_iter_perm _ _ (run_Rc d rs h H1 H2)). Qed.

Theorem C01_pages_spec : forall d rs h, wf_rules rs -> Forall wf_op h ->
  let s := run d rs h in let a := srun d rs h in
  forall l c, In (l, c) (pages_iter s) <-> In (l, c) (a_pages a).
Proof. intros d rs h H1 H2. exact (pages_iter_spec _ _ (run_Rc d rs h H1 H2)). Qed.

Theorem C01_pages_nodup : forall d rs h, wf_rules rs -> Forall wf_op h ->
  let s := run d rs h in NoDup (map fst (pages_iter s)).
Proof. intros d rs h H1 H2. exact (pages_iter_nodup _ _ (run_Rc d rs h H1 H2)). Qed.

Theorem C01_count_pages : forall d rs h, wf_rules rs -> Forall wf_op h ->
  let s := run d rs h in let a := srun d rs h in
  count_pages s = N.of_nat (length (a_pages a)).
Proof. intros d rs h H1 H2. exact (count_pages_spec _ _ (run_Rc d rs h H1 H2)). Qed.

Theorem C01_count_crawled : forall d rs h, wf_rules rs -> Forall wf_op h ->
  let s := run d rs h in let a := srun d rs h in
  count_crawled_pages s = count_if (fun x => snd x) (a_pages a).
Proof. intros d rs h H1 H2. exact (count_crawled_spec _ _ (run_Rc d rs h H1 H2)). Qed.

(* every reply along the history is the specification's *)
Theorem C01_reports : forall d rs h, wf_rules rs -> Forall wf_op h ->
  Forall (fun p => fst p = snd p) (replies d rs h).
Proof. intros d rs h H1 H2. exact (run_replies d rs h H1 H2). Qed.

(* ... and so is the reply to whatever request comes next *)
Theorem C01_next_reply : forall d rs h o, wf_rules rs -> Forall wf_op h -> wf_op o ->
  let s := run d rs h in let a := srun d rs h in
  snd (step s o) = snd (sstep s a o).
Proof. intros d rs h o H1 H2 Ho. exact (proj2 (step_R _ _ o (run_RR d rs h H1 H2) Ho)). Qed.

(* the page count of a report: 1 iff the LRU was not a page of the specification *)
Theorem C01_add_page_report : forall d rs h l cr, wf_rules rs -> Forall wf_op h -> wf_lru l ->
  let s := run d rs h in let a := srun d rs h in
  snd (add_page l cr s) =
  Report (if amem l (a_pages a) then 0 else 1) (snd (s_add_page l cr a)).
Proof.
  intros d rs h l cr H1 H2 Hl. cbv zeta.
  rewrite (proj2 (add_page_Rcore l cr _ _ Hl (run_Rc d rs h H1 H2))).
  rewrite <- (s_add_page_count l cr (srun d rs h)).
  unfold rep3. destruct (s_add_page l cr (srun d rs h)) as [[a' n] c]. reflexivity.
Qed.

(* the specification's page list under one submission *)
Theorem C01_spec_pages : forall l cr a,
  let a' := fst (fst (s_add_page l cr a)) in
  let n := snd (fst (s_add_page l cr a)) in
  (n = if amem l (a_pages a) then 0 else 1) /\
  (aget l (a_pages a) = None -> a_pages a' = a_pages a ++ [(l, cr)]) /\
  (forall c, aget l (a_pages a) = Some c ->
     a_pages a' = aset l (c || cr) (a_pages a) /\
     map fst (a_pages a') = map fst (a_pages a) /\ length (a_pages a') = length (a_pages a)) /\
  (forall x c, x <> l -> (In (x, c) (a_pages a') <-> In (x, c) (a_pages a))) /\
  aget l (a_pages a') =
    Some (match aget l (a_pages a) with Some c => c || cr | None => cr end).
Proof. exact SpecFacts.C01_spec_pages. Qed.

Theorem C01_spec_resubmit : forall l cr a c, aget l (a_pages a) = Some c ->
  snd (fst (s_add_page l cr a)) = 0 /\
  a_pages (fst (fst (s_add_page l cr a))) = aset l (c || cr) (a_pages a) /\
  (cr = false -> aget l (a_pages (fst (fst (s_add_page l cr a)))) = Some c).
Proof. exact SpecFacts.C01_spec_resubmit. Qed.

(* non-vacuity: the hypotheses hold for a concrete history of five requests, whose run
   has four pages (one crawled), one of them re-submitted through a link *)
Example C01_nonvacuous :
  wf_rules [] /\ Forall wf_op exh /\
  map snd (pages_iter (run Domain [] exh)) = [true; false; false; false] /\
  a_pages (srun Domain [] exh) = [(ex_pa, true); (ex_pb, false); (ex_pl, false); (ex_pxy, false)] /\
  count_pages (run Domain [] exh) = 4 /\ count_crawled_pages (run Domain [] exh) = 1 /\
  length (replies Domain [] exh) = 5%nat.
Proof.
  split; [exact ex_rules_wf|]. split; [exact exh_wf|]. vm_compute. repeat split; reflexivity.
Qed.

Print Assumptions C01_pages_perm.
Print Assumptions C01_pages_spec.
Print Assumptions C01_pages_nodup.
Print Assumptions C01_count_pages.
Print Assumptions C01_count_crawled.
Print Assumptions C01_reports.
Print Assumptions C01_next_reply.
Print Assumptions C01_add_page_report.
Print Assumptions C01_spec_pages.
Print Assumptions C01_spec_resubmit.
Print Assumptions C01_nonvacuous.

(* accessor/constant table regenerated from the source: re-checked with this property *)
From Traph Require AccessorFacts.

(* ---- on the code translated from the source on every run (GenTrieD.v: LRUTrie.nodes_iter, count_pages,
   count_crawled_pages - the linear scan of the blocks of the file, tail blocks included).  For EVERY history, on any
   storage object holding the trie file of the state reached, the translated counters return the number of pages /
   of crawled pages of the SPECIFICATION; the generated loop never runs out of fuel and never raises. *)
From Traph Require GenTrieFacts GenTrieD GenTrieDCount StoreFacts2 TraceDefs GenStorage.
Import GenTrieD GenTrieFacts GenStorage.
Theorem C01_source_count_pages : forall d rs h, wf_rules rs -> Forall wf_op h ->
  let s := run d rs h in let a := srun d rs h in
  forall sg, trep (TraceDefs.files_of s) sg ->
  (exists sg', py_trie_count_pages sg = Some (sg', N.of_nat (length (a_pages a))) /\ trep (TraceDefs.files_of s) sg') /\
  (exists sg', py_trie_count_crawled_pages sg = Some (sg', count_if (fun x => snd x) (a_pages a)) /\ trep (TraceDefs.files_of s) sg').
Proof.
  intros d rs h H1 H2 s a sg Hrep.
  pose proof (StoreFacts2.run_Inv18 d rs h H2) as Hinv. fold s in Hinv.
  destruct (GenTrieDCount.py_trie_count_spec s Hinv sg Hrep) as [Hp Hc].
  pose proof (C01_count_pages d rs h H1 H2) as E1. pose proof (C01_count_crawled d rs h H1 H2) as E2.
  fold s a in E1, E2. rewrite E1 in Hp. rewrite E2 in Hc. split; assumption.
Qed.
Print Assumptions C01_source_count_pages.

(* ---- the depth-first enumeration, on the code translated from the source on every run (GenTrieD.v: LRUTrie.dfs_iter with
   its explicit stack, pages_iter).  For EVERY history, on any storage object holding the trie file of the state reached, the
   translated pages_iter never fails and yields, with their crawled marks, a permutation of the pages of the SPECIFICATION
   (each exactly once). *)
From Traph Require GenTrieDDfs.
Theorem C01_source_pages_iter : forall d rs h, wf_rules rs -> Forall wf_op h ->
  let s := run d rs h in let a := srun d rs h in
  forall sg, trep (TraceDefs.files_of s) sg ->
  exists items sg', py_trie_pages_iter sg = Some (items, sg') /\ trep (TraceDefs.files_of s) sg' /\
    Permutation (map (fun it => (snd it, GenTrieW.py_node_is_crawled (fst it))) items) (a_pages a) /\
    NoDup (map snd items).
Proof.
  intros d rs h H1 H2 s a sg Hrep.
  pose proof (StoreFacts2.run_Inv18 d rs h H2) as Hinv. fold s in Hinv.
  pose proof (StoreFacts2.run_root_first d rs h) as Hroot. fold s in Hroot.
  destruct (GenTrieDDfs.py_trie_pages_iter_spec s Hinv sg Hroot Hrep) as (items & sg' & E & Hrep' & Hm).
  exists items, sg'. split; [exact E|]. split; [exact Hrep'|]. split.
  - rewrite Hm. exact (C01_pages_perm d rs h H1 H2).
  - pose proof (C01_pages_nodup d rs h H1 H2) as Hn. cbv zeta in Hn. fold s in Hn. rewrite <- Hm in Hn.
    rewrite map_map in Hn. exact Hn.
Qed.
Print Assumptions C01_source_pages_iter.
