(* C16f — the LOWER clause of C16 for the page-link query get_webentity_pagelinks_iter
   (traph.py 722-800; coroutine CLinks / plinksq_step of Sched.v), OUTBOUND and INBOUND
   clauses: "a link that qualifies during the whole execution is in the answer".
   (The internal clause is in C16d.v; the upper clause is false for the outbound clause:
   C16c.v.)  The query is interleaved by any schedule with crawl batches, rule installations
   and the other queries.  Proofs: SchedFacts13.v.

   Setting common to all theorems.  sched1 runs first and reaches (cs1, s1), where the query
   w / ps / inb / int / outb has not made a step yet; sched2 then reaches (cs2, s2), where the
   query q2 is finished and was not refused.  P is one of the prefixes ps; T (a list of
   stems) is a page of s1 under P; at the END (s2) no node strictly below P on the way to T,
   T included, carries a webentity (T is still in the realm the walk visits); aU is the block
   of the page U at the other end of the link.

   - C16_plinks_complete_moments (generic, direction out): aU is on the out-chain (out = true)
     / in-chain (out = false) of T in s1, and at EVERY moment of sched2 the webentity aU
     resolves to satisfies the clause the item is appended under (lclause: for an out-link,
     outbound requested and <> w, or internal requested and = w; for an in-link, inbound
     requested and <> w).  Then (T, U, wt) (out = true) / (U, T, wt) (out = false) is in the
     answer.  It covers every combination of the three flags.
   - C16_plinks_complete_outbound_moments (O, per moment): outbound requested (inbound and
     internal arbitrary), aU on the out-chain of T in s1, aU resolves to w at no moment:
     (T, U, wt) is in the answer.
   - C16_plinks_complete_outbound (O, final form): "at no moment" replaced by a hypothesis on
     the FIRST turn only: aU does not resolve to w in s1 and w <= lastwe s1 (the webentity of
     the query existed when it started).  A later change of the webentity of U can only be
     to an id created later, hence above lastwe s1 >= w (wext, we_at_back of SchedFacts10),
     so U never resolves to w.
   - C16_plinks_complete_outlinks: outbound AND internal requested: every out-link of T
     present in s1 is in the answer, with no hypothesis at all on the webentity of U (the
     item is appended under one clause or the other).
   - C16_plinks_complete_inbound_moments (I, per moment) / C16_plinks_complete_inbound (I,
     final form): inbound requested (internal and outbound arbitrary), aU on the IN-chain of
     the visited page T in s1, U does not belong to w (same two styles of hypothesis):
     (U, T, wt) is in the answer.  The in-items of a page are expanded from the in-head read
     when the page was popped, after its out-items have been processed one per turn; the
     link store only grows at the head of chains, so that head still leads to U.
   No deviation from the requested statements.  The hypothesis w <= lastwe s1 of the two final
   forms cannot be dropped:
   - C16_plinks_inbound_needs_counter / C16_plinks_outbound_needs_counter: concrete runs where
     every other hypothesis of the final form holds for w = 3 = lastwe s1 + 1, a crawl batch
     creates webentity 3 over U between two turns of the query, and the finished answer does
     not contain the link.
   - C16_plinks_outbound_example, C16_plinks_inbound_example, C16_plinks_outlinks_example: the
     hypotheses (final forms and per-moment forms) hold on a concrete run in which the
     webentity of U CHANGES (2 -> 3) between two turns of the query; the link is in the
     answer. *)
From Coq Require Import List NArith Bool Lia Arith.
From Traph Require Import Bytes Consts Helpers Rules Tst TstDefs Traph Spec Ops RefDefs RefFull
  LinkFacts2 PropsEx Sched SchedFacts SchedFacts2 SchedFacts4 SchedFacts6 SchedFacts7 SchedRefute
  SchedFacts9 SchedFacts10 SchedFacts13.
Import ListNotations.
Open Scope N_scope.

(* ---- the generic theorem ----------------------------------------------------------- *)

Theorem C16_plinks_complete_moments : forall out jobs sched1 sched2 s0 a0 i w ps inb int outb P T dT aU,
  R s0 a0 -> Forall job_wf jobs ->
  let cs0 := map job_start jobs in
  let cs1 := fst (exec_sched sched1 cs0 s0) in
  let s1 := snd (exec_sched sched1 cs0 s0) in
  let cs2 := fst (exec_sched sched2 cs1 s1) in
  let s2 := snd (exec_sched sched2 cs1 s1) in
  nth_error cs1 i = Some (CLinks (plinksq_start w ps inb int outb)) -> In P ps ->
  under (lru_iter P) T -> find T (tr s1) = Some dT -> page dT = true ->
  In aU (targets_of (stubs s1) (head_dir out dT)) ->
  (forall p' d', under (lru_iter P) p' -> p' <> lru_iter P -> under p' T ->
                 find p' (tr s2) = Some d' -> we d' = 0) ->
  (forall k, lclause out w inb int outb (we_at aU (tr (snd (exec_sched (firstn k sched2) cs1 s1))))) ->
  forall q2, nth_error cs2 i = Some (CLinks q2) -> l_done q2 = true -> l_refused q2 = false ->
  exists wt, In (ltriple out (concat T) (lru_at aU s2) wt) (l_acc q2).
Proof. exact C16_pagelinks_complete_moments. Qed.
Print Assumptions C16_plinks_complete_moments.

(* ---- (O) the outbound clause ------------------------------------------------------- *)

Theorem C16_plinks_complete_outbound_moments : forall jobs sched1 sched2 s0 a0 i w ps inb int P T dT aU,
  R s0 a0 -> Forall job_wf jobs ->
  let cs0 := map job_start jobs in
  let cs1 := fst (exec_sched sched1 cs0 s0) in
  let s1 := snd (exec_sched sched1 cs0 s0) in
  let cs2 := fst (exec_sched sched2 cs1 s1) in
  let s2 := snd (exec_sched sched2 cs1 s1) in
  nth_error cs1 i = Some (CLinks (plinksq_start w ps inb int true)) -> In P ps ->
  under (lru_iter P) T -> find T (tr s1) = Some dT -> page dT = true ->
  In aU (targets_of (stubs s1) (outh dT)) ->
  (forall p' d', under (lru_iter P) p' -> p' <> lru_iter P -> under p' T ->
                 find p' (tr s2) = Some d' -> we d' = 0) ->
  (forall k, we_at aU (tr (snd (exec_sched (firstn k sched2) cs1 s1))) <> w) ->
  forall q2, nth_error cs2 i = Some (CLinks q2) -> l_done q2 = true -> l_refused q2 = false ->
  exists wt, In (concat T, lru_at aU s2, wt) (l_acc q2).
Proof. exact C16_pagelinks_complete_outbound_moments. Qed.
Print Assumptions C16_plinks_complete_outbound_moments.

Theorem C16_plinks_complete_outbound : forall jobs sched1 sched2 s0 a0 i w ps inb int P T dT aU,
  R s0 a0 -> Forall job_wf jobs ->
  let cs0 := map job_start jobs in
  let cs1 := fst (exec_sched sched1 cs0 s0) in
  let s1 := snd (exec_sched sched1 cs0 s0) in
  let cs2 := fst (exec_sched sched2 cs1 s1) in
  let s2 := snd (exec_sched sched2 cs1 s1) in
  nth_error cs1 i = Some (CLinks (plinksq_start w ps inb int true)) -> In P ps ->
  under (lru_iter P) T -> find T (tr s1) = Some dT -> page dT = true ->
  In aU (targets_of (stubs s1) (outh dT)) ->
  (forall p' d', under (lru_iter P) p' -> p' <> lru_iter P -> under p' T ->
                 find p' (tr s2) = Some d' -> we d' = 0) ->
  we_at aU (tr s1) <> w -> w <= lastwe s1 ->
  forall q2, nth_error cs2 i = Some (CLinks q2) -> l_done q2 = true -> l_refused q2 = false ->
  exists wt, In (concat T, lru_at aU s2, wt) (l_acc q2).
Proof. exact C16_pagelinks_complete_outbound. Qed.
Print Assumptions C16_plinks_complete_outbound.

Theorem C16_plinks_complete_outlinks : forall jobs sched1 sched2 s0 a0 i w ps inb P T dT aU,
  R s0 a0 -> Forall job_wf jobs ->
  let cs0 := map job_start jobs in
  let cs1 := fst (exec_sched sched1 cs0 s0) in
  let s1 := snd (exec_sched sched1 cs0 s0) in
  let cs2 := fst (exec_sched sched2 cs1 s1) in
  let s2 := snd (exec_sched sched2 cs1 s1) in
  nth_error cs1 i = Some (CLinks (plinksq_start w ps inb true true)) -> In P ps ->
  under (lru_iter P) T -> find T (tr s1) = Some dT -> page dT = true ->
  In aU (targets_of (stubs s1) (outh dT)) ->
  (forall p' d', under (lru_iter P) p' -> p' <> lru_iter P -> under p' T ->
                 find p' (tr s2) = Some d' -> we d' = 0) ->
  forall q2, nth_error cs2 i = Some (CLinks q2) -> l_done q2 = true -> l_refused q2 = false ->
  exists wt, In (concat T, lru_at aU s2, wt) (l_acc q2).
Proof. exact C16_pagelinks_complete_outlinks. Qed.
Print Assumptions C16_plinks_complete_outlinks.

(* ---- (I) the inbound clause -------------------------------------------------------- *)

Theorem C16_plinks_complete_inbound_moments : forall jobs sched1 sched2 s0 a0 i w ps int outb P T dT aU,
  R s0 a0 -> Forall job_wf jobs ->
  let cs0 := map job_start jobs in
  let cs1 := fst (exec_sched sched1 cs0 s0) in
  let s1 := snd (exec_sched sched1 cs0 s0) in
  let cs2 := fst (exec_sched sched2 cs1 s1) in
  let s2 := snd (exec_sched sched2 cs1 s1) in
  nth_error cs1 i = Some (CLinks (plinksq_start w ps true int outb)) -> In P ps ->
  under (lru_iter P) T -> find T (tr s1) = Some dT -> page dT = true ->
  In aU (targets_of (stubs s1) (inh dT)) ->
  (forall p' d', under (lru_iter P) p' -> p' <> lru_iter P -> under p' T ->
                 find p' (tr s2) = Some d' -> we d' = 0) ->
  (forall k, we_at aU (tr (snd (exec_sched (firstn k sched2) cs1 s1))) <> w) ->
  forall q2, nth_error cs2 i = Some (CLinks q2) -> l_done q2 = true -> l_refused q2 = false ->
  exists wt, In (lru_at aU s2, concat T, wt) (l_acc q2).
Proof. exact C16_pagelinks_complete_inbound_moments. Qed.
Print Assumptions C16_plinks_complete_inbound_moments.

Theorem C16_plinks_complete_inbound : forall jobs sched1 sched2 s0 a0 i w ps int outb P T dT aU,
  R s0 a0 -> Forall job_wf jobs ->
  let cs0 := map job_start jobs in
  let cs1 := fst (exec_sched sched1 cs0 s0) in
  let s1 := snd (exec_sched sched1 cs0 s0) in
  let cs2 := fst (exec_sched sched2 cs1 s1) in
  let s2 := snd (exec_sched sched2 cs1 s1) in
  nth_error cs1 i = Some (CLinks (plinksq_start w ps true int outb)) -> In P ps ->
  under (lru_iter P) T -> find T (tr s1) = Some dT -> page dT = true ->
  In aU (targets_of (stubs s1) (inh dT)) ->
  (forall p' d', under (lru_iter P) p' -> p' <> lru_iter P -> under p' T ->
                 find p' (tr s2) = Some d' -> we d' = 0) ->
  we_at aU (tr s1) <> w -> w <= lastwe s1 ->
  forall q2, nth_error cs2 i = Some (CLinks q2) -> l_done q2 = true -> l_refused q2 = false ->
  exists wt, In (lru_at aU s2, concat T, wt) (l_acc q2).
Proof. exact C16_pagelinks_complete_inbound. Qed.
Print Assumptions C16_plinks_complete_inbound.

(* ---- concrete runs ------------------------------------------------------------------ *)

(* Pages A = s:https|h:com|h:a|p:m|p:n| (rg_A, webentity 1 = s:https|h:com|h:a|, prefix rg_D) and
   X = s:https|h:com|h:b|p:x| (webentity 2 = s:https|h:com|h:b|), links A -> X and X -> A.  A
   path-1 creation rule sits on s:http|h:com|h:b|.  While the query runs, a crawl batch adds
   the page Q = s:http|h:com|h:b|p:x|p:q| (and the link Q -> A): the rule creates webentity 3
   over s:http(s)|h:com|h:b|p:x|, so that the webentity of X changes from 2 to 3 between the
   first and the second turn of the query. *)
Definition ri_X : bytes := [115; 58; 104; 116; 116; 112; 115; 124; 104; 58; 99; 111; 109; 124; 104; 58; 98; 124; 112; 58; 120; 124].
Definition ri_RP : bytes := [115; 58; 104; 116; 116; 112; 124; 104; 58; 99; 111; 109; 124; 104; 58; 98; 124].
Definition ri_Q : bytes := [115; 58; 104; 116; 116; 112; 124; 104; 58; 99; 111; 109; 124; 104; 58; 98; 124; 112; 58; 120; 124; 112; 58; 113; 124].
Definition ri_rules : list (bytes * rulekind) := [(ri_RP, Path 1)].
Definition ri_hist : list op := [OAddPages [rg_A; ri_X] false; OAddLinks [(rg_A, ri_X); (ri_X, rg_A)]].
Definition ri_s0 : traph := run Domain ri_rules ri_hist.
(* the query for webentity w with flags inb / int / outb, and the batch *)
Definition ri_jobs (w : N) (inb int outb : bool) : list job :=
  [JLinks w [rg_D] inb int outb; JBatch [(ri_Q, [rg_A])]].
Definition ri_sched1 : list nat := [].
Definition ri_sched2 : list nat := [0; 1; 0; 1; 0; 1; 0; 1; 0; 1; 0; 0]%nat.

Lemma ri_rules_wf : wf_rules ri_rules.
Proof.
  split.
  - constructor; [cbn [fst]; wf_lru_tac|constructor].
  - cbn [map fst ri_rules]. constructor; [intros []|constructor].
Qed.
Lemma ri_hist_wf : Forall wf_op ri_hist.
Proof. unfold ri_hist. repeat constructor; cbn [wf_op fst snd]; try wf_lru_tac; try discriminate. Qed.
Lemma ri_jobs_wf : forall w inb int outb, Forall job_wf (ri_jobs w inb int outb).
Proof.
  intros. unfold ri_jobs. repeat constructor; cbn [job_wf fst snd]; try exact I; wf_lru_tac.
Qed.

(* the realm hypothesis for T = A under P = rg_D: the two nodes p:m| and p:m|p:n| *)
Lemma realm_A : forall s,
  (forall d, find (lru_iter rg_B) (tr s) = Some d -> we d = 0) ->
  (forall d, find (lru_iter rg_A) (tr s) = Some d -> we d = 0) ->
  forall p' d', under (lru_iter rg_D) p' -> p' <> lru_iter rg_D -> under p' (lru_iter rg_A) ->
                find p' (tr s) = Some d' -> we d' = 0.
Proof.
  intros s HB HA p' d' (r1 & E1) Hne (r2 & E2) Hf. subst p'.
  assert (Er : r1 ++ r2 = [[112; 58; 109; 124]; [112; 58; 110; 124]]).
  { rewrite <- app_assoc in E2. apply (app_inv_head (lru_iter rg_D)). rewrite <- E2. vm_compute. reflexivity. }
  destruct r1 as [|x1 [|x2 [|x3 r1]]].
  - exfalso. apply Hne. apply app_nil_r.
  - cbn [app] in Er. injection Er as -> _. apply HB. exact Hf.
  - cbn [app] in Er. injection Er as -> -> _. apply HA. exact Hf.
  - cbn [app] in Er. injection Er as _ _ Er. destruct r1; discriminate.
Qed.

(* a boolean test that holds after every prefix of the schedule holds at every moment *)
Lemma all_moments : forall (Pb : traph -> bool) sched cl s,
  forallb (fun k => Pb (snd (exec_sched (firstn k sched) cl s))) (seq 0 (S (length sched))) = true ->
  forall k, Pb (snd (exec_sched (firstn k sched) cl s)) = true.
Proof.
  intros Pb sched cl s H k. rewrite forallb_forall in H.
  destruct (le_lt_dec k (length sched)) as [Hk|Hk].
  - apply H. apply in_seq. lia.
  - rewrite firstn_all2 by lia. rewrite <- (firstn_all sched) at 1. apply H. apply in_seq. lia.
Qed.

Lemma neqb_neq : forall a b, negb (a =? b) = true -> a <> b.
Proof. intros a b H. apply N.eqb_neq. apply negb_true_iff. exact H. Qed.

(* (O): inbound and outbound requested for webentity 1; the link A -> X *)
Example C16_plinks_outbound_example :
  let jobs := ri_jobs 1 true false true in
  let s0 := ri_s0 in
  let cs0 := map job_start jobs in
  let cs1 := fst (exec_sched ri_sched1 cs0 s0) in
  let s1 := snd (exec_sched ri_sched1 cs0 s0) in
  let cs2 := fst (exec_sched ri_sched2 cs1 s1) in
  let s2 := snd (exec_sched ri_sched2 cs1 s1) in
  let T := lru_iter rg_A in
  let aU := addr_of ri_X s1 in
  R s0 (srun Domain ri_rules ri_hist) /\ Forall job_wf jobs /\
  nth_error cs1 0 = Some (CLinks (plinksq_start 1 [rg_D] true false true)) /\ In rg_D [rg_D] /\
  under (lru_iter rg_D) T /\
  (exists dT, find T (tr s1) = Some dT /\ page dT = true /\ In aU (targets_of (stubs s1) (outh dT))) /\
  (forall p' d', under (lru_iter rg_D) p' -> p' <> lru_iter rg_D -> under p' T ->
                 find p' (tr s2) = Some d' -> we d' = 0) /\
  (* the hypothesis of the final form, and the one of the per-moment form *)
  we_at aU (tr s1) <> 1 /\ 1 <= lastwe s1 /\
  (forall k, we_at aU (tr (snd (exec_sched (firstn k ri_sched2) cs1 s1))) <> 1) /\
  (* the webentity of the target changes during the run *)
  we_at aU (tr s1) = 2 /\ we_at aU (tr s2) = 3 /\
  (exists q2, nth_error cs2 0 = Some (CLinks q2) /\ l_done q2 = true /\ l_refused q2 = false /\
              In (rg_A, ri_X, 1) (l_acc q2)).
Proof.
  cbv zeta.
  split; [apply run_R; [apply ri_rules_wf|apply ri_hist_wf]|].
  split; [apply ri_jobs_wf|].
  split; [vm_compute; reflexivity|].
  split; [left; reflexivity|].
  split; [eexists; vm_compute; reflexivity|].
  split; [eexists; split; [vm_compute; reflexivity|]; split; [vm_compute; reflexivity|vm_compute; auto]|].
  split; [apply realm_A; intros d Hf; vm_compute in Hf; injection Hf as <-; reflexivity|].
  split; [vm_compute; discriminate|]. split; [vm_compute; discriminate|].
  split.
  { intro k. apply neqb_neq.
    apply (all_moments (fun s => negb (we_at (addr_of ri_X ri_s0) (tr s) =? 1))). vm_compute. reflexivity. }
  split; [vm_compute; reflexivity|]. split; [vm_compute; reflexivity|].
  eexists. split; [vm_compute; reflexivity|]. split; [reflexivity|]. split; [reflexivity|].
  vm_compute. left. reflexivity.
Qed.
Print Assumptions C16_plinks_outbound_example.

(* (I): the same run; the link X -> A, processed after the webentity of X has changed *)
Example C16_plinks_inbound_example :
  let jobs := ri_jobs 1 true false true in
  let s0 := ri_s0 in
  let cs0 := map job_start jobs in
  let cs1 := fst (exec_sched ri_sched1 cs0 s0) in
  let s1 := snd (exec_sched ri_sched1 cs0 s0) in
  let cs2 := fst (exec_sched ri_sched2 cs1 s1) in
  let s2 := snd (exec_sched ri_sched2 cs1 s1) in
  let T := lru_iter rg_A in
  let aU := addr_of ri_X s1 in
  R s0 (srun Domain ri_rules ri_hist) /\ Forall job_wf jobs /\
  nth_error cs1 0 = Some (CLinks (plinksq_start 1 [rg_D] true false true)) /\ In rg_D [rg_D] /\
  under (lru_iter rg_D) T /\
  (exists dT, find T (tr s1) = Some dT /\ page dT = true /\ In aU (targets_of (stubs s1) (inh dT))) /\
  (forall p' d', under (lru_iter rg_D) p' -> p' <> lru_iter rg_D -> under p' T ->
                 find p' (tr s2) = Some d' -> we d' = 0) /\
  we_at aU (tr s1) <> 1 /\ 1 <= lastwe s1 /\
  (forall k, we_at aU (tr (snd (exec_sched (firstn k ri_sched2) cs1 s1))) <> 1) /\
  we_at aU (tr s1) = 2 /\ we_at aU (tr s2) = 3 /\
  (exists q2, nth_error cs2 0 = Some (CLinks q2) /\ l_done q2 = true /\ l_refused q2 = false /\
              In (ri_X, rg_A, 1) (l_acc q2)).
Proof.
  cbv zeta.
  split; [apply run_R; [apply ri_rules_wf|apply ri_hist_wf]|].
  split; [apply ri_jobs_wf|].
  split; [vm_compute; reflexivity|].
  split; [left; reflexivity|].
  split; [eexists; vm_compute; reflexivity|].
  split; [eexists; split; [vm_compute; reflexivity|]; split; [vm_compute; reflexivity|vm_compute; auto]|].
  split; [apply realm_A; intros d Hf; vm_compute in Hf; injection Hf as <-; reflexivity|].
  split; [vm_compute; discriminate|]. split; [vm_compute; discriminate|].
  split.
  { intro k. apply neqb_neq.
    apply (all_moments (fun s => negb (we_at (addr_of ri_X ri_s0) (tr s) =? 1))). vm_compute. reflexivity. }
  split; [vm_compute; reflexivity|]. split; [vm_compute; reflexivity|].
  eexists. split; [vm_compute; reflexivity|]. split; [reflexivity|]. split; [reflexivity|].
  vm_compute. right. left. reflexivity.
Qed.
Print Assumptions C16_plinks_inbound_example.

(* outbound and internal requested for webentity 3, which does not exist when the query
   starts and is created over X during the run: no hypothesis on the webentity of X *)
Example C16_plinks_outlinks_example :
  let jobs := ri_jobs 3 false true true in
  let s0 := ri_s0 in
  let cs0 := map job_start jobs in
  let cs1 := fst (exec_sched ri_sched1 cs0 s0) in
  let s1 := snd (exec_sched ri_sched1 cs0 s0) in
  let cs2 := fst (exec_sched ri_sched2 cs1 s1) in
  let s2 := snd (exec_sched ri_sched2 cs1 s1) in
  let T := lru_iter rg_A in
  let aU := addr_of ri_X s1 in
  R s0 (srun Domain ri_rules ri_hist) /\ Forall job_wf jobs /\
  nth_error cs1 0 = Some (CLinks (plinksq_start 3 [rg_D] false true true)) /\ In rg_D [rg_D] /\
  under (lru_iter rg_D) T /\
  (exists dT, find T (tr s1) = Some dT /\ page dT = true /\ In aU (targets_of (stubs s1) (outh dT))) /\
  (forall p' d', under (lru_iter rg_D) p' -> p' <> lru_iter rg_D -> under p' T ->
                 find p' (tr s2) = Some d' -> we d' = 0) /\
  (exists q2, nth_error cs2 0 = Some (CLinks q2) /\ l_done q2 = true /\ l_refused q2 = false /\
              In (rg_A, ri_X, 1) (l_acc q2)).
Proof.
  cbv zeta.
  split; [apply run_R; [apply ri_rules_wf|apply ri_hist_wf]|].
  split; [apply ri_jobs_wf|].
  split; [vm_compute; reflexivity|].
  split; [left; reflexivity|].
  split; [eexists; vm_compute; reflexivity|].
  split; [eexists; split; [vm_compute; reflexivity|]; split; [vm_compute; reflexivity|vm_compute; auto]|].
  split; [apply realm_A; intros d Hf; vm_compute in Hf; injection Hf as <-; reflexivity|].
  eexists. split; [vm_compute; reflexivity|]. split; [reflexivity|]. split; [reflexivity|].
  vm_compute. left. reflexivity.
Qed.
Print Assumptions C16_plinks_outlinks_example.

(* ---- the hypothesis w <= lastwe s1 cannot be dropped -------------------------------- *)

(* (I) without it: the same run, the query asks for webentity 3 (lastwe s1 = 2).  In s1 X
   resolves to 2 <> 3.  The first turn processes the out-item A -> X; the batch then creates
   webentity 3 over X; the second turn processes the in-item X -> A, whose source now
   resolves to 3 = w: it is not appended. *)
Theorem C16_plinks_inbound_needs_counter :
  let jobs := ri_jobs 3 true false true in
  let s0 := ri_s0 in
  let cs0 := map job_start jobs in
  let cs1 := fst (exec_sched ri_sched1 cs0 s0) in
  let s1 := snd (exec_sched ri_sched1 cs0 s0) in
  let cs2 := fst (exec_sched ri_sched2 cs1 s1) in
  let s2 := snd (exec_sched ri_sched2 cs1 s1) in
  let T := lru_iter rg_A in
  let aU := addr_of ri_X s1 in
  R s0 (srun Domain ri_rules ri_hist) /\ Forall job_wf jobs /\
  nth_error cs1 0 = Some (CLinks (plinksq_start 3 [rg_D] true false true)) /\ In rg_D [rg_D] /\
  under (lru_iter rg_D) T /\
  (exists dT, find T (tr s1) = Some dT /\ page dT = true /\ In aU (targets_of (stubs s1) (inh dT))) /\
  (forall p' d', under (lru_iter rg_D) p' -> p' <> lru_iter rg_D -> under p' T ->
                 find p' (tr s2) = Some d' -> we d' = 0) /\
  we_at aU (tr s1) <> 3 /\ lastwe s1 = 2 /\
  forallb co_done cs2 = true /\
  (exists q2, nth_error cs2 0 = Some (CLinks q2) /\ l_done q2 = true /\ l_refused q2 = false /\
              forall wt, ~ In (lru_at aU s2, concat T, wt) (l_acc q2)).
Proof.
  cbv zeta.
  split; [apply run_R; [apply ri_rules_wf|apply ri_hist_wf]|].
  split; [apply ri_jobs_wf|].
  split; [vm_compute; reflexivity|].
  split; [left; reflexivity|].
  split; [eexists; vm_compute; reflexivity|].
  split; [eexists; split; [vm_compute; reflexivity|]; split; [vm_compute; reflexivity|vm_compute; auto]|].
  split; [apply realm_A; intros d Hf; vm_compute in Hf; injection Hf as <-; reflexivity|].
  split; [vm_compute; discriminate|]. split; [vm_compute; reflexivity|].
  split; [vm_compute; reflexivity|].
  eexists. split; [vm_compute; reflexivity|]. split; [reflexivity|]. split; [reflexivity|].
  intro wt. apply link_in_In. vm_compute. reflexivity.
Qed.
Print Assumptions C16_plinks_inbound_needs_counter.

(* (O) without it: A links to X and then to B (same webentity as A); the items are processed
   newest first: A -> B in the first turn, A -> X in the second, after the batch has created
   webentity 3 over X.  The query asks for the outbound links of webentity 3. *)
Definition rk_hist : list op := [OAddPages [rg_A; rg_B; ri_X] false; OAddLinks [(rg_A, ri_X); (rg_A, rg_B)]].
Definition rk_s0 : traph := run Domain ri_rules rk_hist.
Definition rk_jobs : list job := [JLinks 3 [rg_D] false false true; JBatch [(ri_Q, [])]].

Lemma rk_hist_wf : Forall wf_op rk_hist.
Proof. unfold rk_hist. repeat constructor; cbn [wf_op fst snd]; try wf_lru_tac; try discriminate. Qed.
Lemma rk_jobs_wf : Forall job_wf rk_jobs.
Proof. unfold rk_jobs. repeat constructor; cbn [job_wf fst snd]; try exact I. wf_lru_tac. Qed.

Theorem C16_plinks_outbound_needs_counter :
  let jobs := rk_jobs in
  let s0 := rk_s0 in
  let cs0 := map job_start jobs in
  let cs1 := fst (exec_sched ri_sched1 cs0 s0) in
  let s1 := snd (exec_sched ri_sched1 cs0 s0) in
  let cs2 := fst (exec_sched ri_sched2 cs1 s1) in
  let s2 := snd (exec_sched ri_sched2 cs1 s1) in
  let T := lru_iter rg_A in
  let aU := addr_of ri_X s1 in
  R s0 (srun Domain ri_rules rk_hist) /\ Forall job_wf jobs /\
  nth_error cs1 0 = Some (CLinks (plinksq_start 3 [rg_D] false false true)) /\ In rg_D [rg_D] /\
  under (lru_iter rg_D) T /\
  (exists dT, find T (tr s1) = Some dT /\ page dT = true /\ In aU (targets_of (stubs s1) (outh dT))) /\
  (forall p' d', under (lru_iter rg_D) p' -> p' <> lru_iter rg_D -> under p' T ->
                 find p' (tr s2) = Some d' -> we d' = 0) /\
  we_at aU (tr s1) <> 3 /\ lastwe s1 = 2 /\
  forallb co_done cs2 = true /\
  (exists q2, nth_error cs2 0 = Some (CLinks q2) /\ l_done q2 = true /\ l_refused q2 = false /\
              forall wt, ~ In (concat T, lru_at aU s2, wt) (l_acc q2)).
Proof.
  cbv zeta.
  split; [apply run_R; [apply ri_rules_wf|apply rk_hist_wf]|].
  split; [apply rk_jobs_wf|].
  split; [vm_compute; reflexivity|].
  split; [left; reflexivity|].
  split; [eexists; vm_compute; reflexivity|].
  split; [eexists; split; [vm_compute; reflexivity|]; split; [vm_compute; reflexivity|vm_compute; auto]|].
  split; [apply realm_A; intros d Hf; vm_compute in Hf; injection Hf as <-; reflexivity|].
  split; [vm_compute; discriminate|]. split; [vm_compute; reflexivity|].
  split; [vm_compute; reflexivity|].
  eexists. split; [vm_compute; reflexivity|]. split; [reflexivity|]. split; [reflexivity|].
  intro wt. apply link_in_In. vm_compute. reflexivity.
Qed.
Print Assumptions C16_plinks_outbound_needs_counter.
