(* C18 — the order of the writes.  Every write request is modelled twice: as a state
   transformer (Traph.v) and as the list of block writes it issues, in program order
   (Traphw.v: appends / in-place rewrites of trie blocks, header rewrites, appends of
   link stubs).  For EVERY history h of well-formed requests without clear, started
   from a fresh index, and every further request o (s the state after h):
   - replaying the writes of o on the files of s gives exactly the files of the next
     state (C18_step_trace), so the two models agree;
   - cutting the write list of o at ANY point k leaves files without dangling
     pointers: every child/sibling/parent pointer of every trie block points at a
     block present in the file, every link head at a present stub, every stub at a
     present trie block and at an EARLIER stub (C18_cut_no_dangling);
   - the cut files are "below" the final files: same stems, flags only missing, pointers
     either null or final, link heads not beyond the final ones (C18_cut_below);
   - clear is covered separately, from empty files (C18_clear_cuts);
   - the order is not decorative: swapping the two writes of a one-node insertion
     reaches the same final files through an intermediate state with a dangling child
     pointer (C18_order_matters). *)
From Coq Require Import List NArith Bool.
From Traph Require Import Bytes Helpers Rules Tst TstDefs Traph Traphw Spec Ops RefDefs TraceDefs
  TraceFacts6 IdFacts PropsEx.
Import ListNotations.
Open Scope N_scope.

Lemma C18_run_is_mrun_state : forall h s a, fst (fst (run2 h s a)) = mrun_state h s.
Proof.
  induction h as [|o h IH]; intros s a; [reflexivity|].
  cbn [run2 mrun_state]. destruct (step s o) as [s1 r]. destruct (sstep s a o) as [a1 r'].
  specialize (IH s1 a1). destruct (run2 h s1 a1) as [[s2 a2] rs]. exact IH.
Qed.

Theorem C18_init_Inv18 : forall d rs, Inv18 (init d rs).
Proof. exact TraceFacts6.init_Inv18. Qed.

Theorem C18_history_Inv18 : forall d rs h, Forall (fun o => wf_op o /\ covered o) h ->
  Inv18 (run d rs h).
Proof.
  intros d rs h Hh. unfold run. rewrite C18_run_is_mrun_state.
  apply history_Inv18; [apply init_Inv18|exact Hh].
Qed.

Theorem C18_step_trace : forall d rs h o, Forall (fun o => wf_op o /\ covered o) h ->
  wf_op o -> covered o ->
  let s := run d rs h in
  apply_all (step_w s o) (files_of s) = files_of (fst (step s o)) /\ Inv18 (fst (step s o)).
Proof.
  intros d rs h o Hh Ho Hc. exact (step_trace _ o (C18_history_Inv18 d rs h Hh) Ho Hc).
Qed.

Theorem C18_cut_no_dangling : forall d rs h o, Forall (fun o => wf_op o /\ covered o) h ->
  wf_op o -> covered o ->
  let s := run d rs h in
  forall k, no_dangling (apply_all (firstn k (step_w s o)) (files_of s)).
Proof.
  intros d rs h o Hh Ho Hc.
  exact (TraceFacts6.C18_cut_no_dangling _ o (C18_history_Inv18 d rs h Hh) Ho Hc).
Qed.

Theorem C18_cut_below : forall d rs h o, Forall (fun o => wf_op o /\ covered o) h ->
  wf_op o -> covered o ->
  let s := run d rs h in
  forall k, files_below (apply_all (firstn k (step_w s o)) (files_of s)) (files_of (fst (step s o))).
Proof.
  intros d rs h o Hh Ho Hc.
  exact (TraceFacts6.C18_cut_below _ o (C18_history_Inv18 d rs h Hh) Ho Hc).
Qed.

(* the same three, from any state satisfying the file invariant *)
Theorem C18_step_trace_gen : forall s o, Inv18 s -> wf_op o -> covered o ->
  apply_all (step_w s o) (files_of s) = files_of (fst (step s o)) /\ Inv18 (fst (step s o)).
Proof. exact TraceFacts6.step_trace. Qed.

Theorem C18_cut_no_dangling_gen : forall s o, Inv18 s -> wf_op o -> covered o -> forall k,
  no_dangling (apply_all (firstn k (step_w s o)) (files_of s)).
Proof. exact TraceFacts6.C18_cut_no_dangling. Qed.

Theorem C18_cut_below_gen : forall s o, Inv18 s -> wf_op o -> covered o -> forall k,
  files_below (apply_all (firstn k (step_w s o)) (files_of s)) (files_of (fst (step s o))).
Proof. exact TraceFacts6.C18_cut_below. Qed.

Theorem C18_clear_cuts : forall od ors s k,
  no_dangling (apply_all (firstn k (clear_w od ors s)) files0) /\
  files_below (apply_all (firstn k (clear_w od ors s)) files0) (files_of (clear od ors s)).
Proof. exact TraceFacts6.clear_cuts. Qed.

Theorem C18_clear_trace : forall od ors s,
  apply_all (clear_w od ors s) files0 = files_of (clear od ors s) /\ Inv18 (clear od ors s).
Proof. intros od ors s. destruct (clear_trace od ors s) as (A & B & _). split; assumption. Qed.

Theorem C18_order_matters :
  add_lru_w false [97; 124; 98; 124] ex_s1 = [TApp ex_child; TSet 128 ex_parent] /\
  apply_all [TSet 128 ex_parent; TApp ex_child] (files_of ex_s1)
    = apply_all [TApp ex_child; TSet 128 ex_parent] (files_of ex_s1) /\
  no_dangling (apply_all (firstn 1 [TApp ex_child; TSet 128 ex_parent]) (files_of ex_s1)) /\
  ~ no_dangling (apply_all (firstn 1 [TSet 128 ex_parent; TApp ex_child]) (files_of ex_s1)).
Proof. exact TraceFacts6.C18_order_matters. Qed.

(* non-vacuity: the example history has no clear; a further link submission between a new
   page and a known one issues a non-trivial write list touching both files *)
Definition ex_pd : bytes := s_http ++ ex_com ++ [104; 58; 100; sep].
Example C18_nonvacuous :
  Forall (fun o => wf_op o /\ covered o) exh /\
  wf_op (OAddLinks [(ex_pd, ex_pl)]) /\ covered (OAddLinks [(ex_pd, ex_pl)]) /\
  length (step_w (run Domain [] exh) (OAddLinks [(ex_pd, ex_pl)])) = 20%nat /\
  length (ft (files_of (run Domain [] exh))) = 16%nat /\
  length (ft (files_of (fst (step (run Domain [] exh) (OAddLinks [(ex_pd, ex_pl)]))))) = 20%nat /\
  length (fl (files_of (fst (step (run Domain [] exh) (OAddLinks [(ex_pd, ex_pl)]))))) = 10%nat.
Proof.
  split.
  - pose proof exh_wf as H. rewrite Forall_forall in *. intros o Ho. split; [apply H; exact Ho|].
    unfold exh in Ho. cbn [In] in Ho.
    repeat (destruct Ho as [<-|Ho]; [exact I|]). destruct Ho.
  - split; [repeat constructor; cbn [fst snd]; wf_lru_tac|]. split; [exact I|].
    vm_compute. repeat split; reflexivity.
Qed.

Print Assumptions C18_init_Inv18.
Print Assumptions C18_history_Inv18.
Print Assumptions C18_step_trace.
Print Assumptions C18_cut_no_dangling.
Print Assumptions C18_cut_below.
Print Assumptions C18_clear_cuts.
Print Assumptions C18_clear_trace.
Print Assumptions C18_order_matters.
Print Assumptions C18_nonvacuous.
Print Assumptions C18_step_trace_gen.
Print Assumptions C18_cut_no_dangling_gen.
Print Assumptions C18_cut_below_gen.

(* ---- further theorems of this property live in Props/C18b.v; required here so that the check of C18 re-checks them ---- *)
From Traph Require Props.C18b.
Print Assumptions Props.C18b.C18_cut_reads_total.
Print Assumptions Props.C18b.C18_cut_lookup_total.
Print Assumptions Props.C18b.C18_cut_pages_subset.
Print Assumptions Props.C18b.C18_cut_pages_spec.
Print Assumptions Props.C18b.C18_cut_links_subset.
Print Assumptions Props.C18b.C18_history_ordered.
