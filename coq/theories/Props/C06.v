(* C06 — webentity creation rules.  For EVERY history h of well-formed requests (s the
   model's state, a the specification's state after h):
   - get_potential_prefix answers what the specification's decision ladder answers
     (adecide: the longest candidate among the rules flagged on the stem-prefixes of
     the LRU, unless an attached prefix at least as long exists - then that prefix is
     kept - and the default rule when no flagged rule applies);
   - a page insertion reports exactly the creation the specification prescribes: it
     creates iff the ladder yields a candidate x (adecide a l = LCand x) and some
     variation of x carries no webentity; it then issues the next id (a_last a + 1)
     for all those free variations, and nothing else;
   - installing a rule re-inserts, uncrawled, the pages beneath the anchor: the model's
     state and reply are those of the specification's s_add_rule fed with the pages in
     the order the index meets them, and that list is, up to order, exactly the
     specification's pages beneath the anchor (pages_beneath), without repetition. *)
From Coq Require Import List NArith Bool Permutation.
From Traph Require Import Bytes Helpers Rules Tst TstDefs Traph Spec Ops RefDefs QueryCore
  RefCore4 RefFull SpecFacts RuleFacts IdFacts PropsEx.
Import ListNotations.
Open Scope N_scope.

Theorem C06_potential : forall d rs h, wf_rules rs -> Forall wf_op h ->
  let s := run d rs h in let a := srun d rs h in
  forall l, wf_lru l -> potential_prefix l s = s_potential l a.
Proof. intros d rs h H1 H2. exact (potential_spec _ _ (run_Rc d rs h H1 H2)). Qed.

(* recording the page does not change the decision nor the free variations *)
Lemma C06_decision_indep : forall l cr a x,
  adecide (with_page l cr a) l = adecide a l /\
  free_variations x (with_page l cr a) = free_variations x a.
Proof. intros; split; reflexivity. Qed.

Theorem C06_create : forall d rs h l cr, wf_rules rs -> Forall wf_op h -> wf_lru l ->
  let s := run d rs h in let a := srun d rs h in
  snd (step s (OAddPage l cr)) =
  Report (if amem l (a_pages a) then 0 else 1)
         (match adecide a l with
          | LCand x => match free_variations x a with
                       | [] => []
                       | v => [(a_last a + 1, v)]
                       end
          | _ => []
          end).
Proof.
  intros d rs h l cr H1 H2 Hl. cbv zeta.
  rewrite (proj2 (step_R _ _ (OAddPage l cr) (run_RR d rs h H1 H2) Hl)).
  cbn [sstep]. set (a := srun d rs h).
  rewrite <- (s_add_page_count l cr a).
  change (adecide a l) with (adecide (with_page l cr a) l).
  pose proof (C06_spec_created l cr a) as Hc.
  change (fun x => free_variations x a) with (fun x => free_variations x (with_page l cr a)).
  unfold rep3. destruct (s_add_page l cr a) as [[a' n] c]. cbn [fst snd] in *. rewrite Hc. reflexivity.
Qed.

Theorem C06_create_inv : forall d rs h l cr n c, wf_rules rs -> Forall wf_op h -> wf_lru l ->
  let s := run d rs h in let a := srun d rs h in
  snd (step s (OAddPage l cr)) = Report n c -> c <> [] ->
  exists x, adecide a l = LCand x /\ free_variations x a <> [] /\
            c = [(a_last a + 1, free_variations x a)].
Proof.
  intros d rs h l cr n c H1 H2 Hl. cbv zeta. rewrite (C06_create d rs h l cr H1 H2 Hl).
  intros E Hne. inversion E as [[En Ec]]. clear E En.
  destruct (adecide (srun d rs h) l) as [|x|]; try congruence.
  exists x. split; [reflexivity|].
  destruct (free_variations x (srun d rs h)) as [|v vs]; [congruence|].
  split; [discriminate|congruence].
Qed.

(* the candidate is the one get_potential_prefix proposes *)
Theorem C06_potential_is_candidate : forall d rs h l x, wf_rules rs -> Forall wf_op h -> wf_lru l ->
  adecide (srun d rs h) l = LCand x -> potential_prefix l (run d rs h) = Some x.
Proof.
  intros d rs h l x H1 H2 Hl E. rewrite (C06_potential d rs h H1 H2 l Hl).
  unfold s_potential. rewrite E. reflexivity.
Qed.

Theorem C06_rule_install : forall d rs h p k, wf_rules rs -> Forall wf_op h -> wf_lru p ->
  let s := run d rs h in let a := srun d rs h in
  let order := pages_under p (fst (add_lru false p s)) in
  R (fst (step s (OAddRule p k))) (fst (s_add_rule p k true order a)) /\
  snd (step s (OAddRule p k)) = snd (s_add_rule p k true order a) /\
  Permutation order (pages_beneath p a) /\ NoDup order /\
  (forall x, In x order ->
     exists q n, find q (tr (fst (add_lru false p s))) = Some n /\ page n = true /\ x = concat q).
Proof.
  intros d rs h p k H1 H2 Hp. cbv zeta.
  pose proof (run_RR d rs h H1 H2) as HR.
  destruct (step_R _ _ (OAddRule p k) HR Hp) as [Ha Hb]. cbn [sstep] in Ha, Hb.
  split; [exact Ha|]. split; [exact Hb|].
  pose proof (rule_order_perm _ _ p (proj1 HR) Hp) as Hperm.
  split; [exact Hperm|]. split.
  - apply (Permutation_NoDup (Permutation_sym Hperm)).
    apply (pages_beneath_nodup _ _ (proj1 HR)).
  - intros x Hx. apply (pages_under_spec p _ x); [|exact Hx].
    apply LinkFacts2.add_lru_good. apply (LinkFacts2.R_good _ _ (proj1 HR) (proj2 HR)).
Qed.

(* what the specification does with that list: it records the rule, flags the anchor,
   and submits the pages again, uncrawled *)
Theorem C06_spec_rule : forall p k order a,
  s_add_rule p k true order a =
  let a1 := mkA (a_pages a) (know p (a_known a)) (a_pref a) (a_links a) (a_last a)
                (add_set p (a_flags a)) (aset p k (a_rules a)) (a_dflt a) in
  let '(a2, n, c) := s_add_pages order false a1 in (a2, Report n c).
Proof. reflexivity. Qed.

(* non-vacuity: after the example history a new page of another domain would create
   webentity 4 from its 4 free variations; a known page creates nothing; installing a
   path rule on webentity 1's prefix re-inserts the two pages beneath it and creates a
   webentity for the long-stem page *)
Definition ex_pc : bytes := s_http ++ ex_com ++ [104; 58; 99; sep].
Example C06_nonvacuous :
  wf_rules [] /\ Forall wf_op exh /\ wf_lru ex_pc /\
  potential_prefix ex_pc (run Domain [] exh) = Some ex_pc /\
  adecide (srun Domain [] exh) ex_pc = LCand ex_pc /\
  length (free_variations ex_pc (srun Domain [] exh)) = 4%nat /\
  (exists v, snd (step (run Domain [] exh) (OAddPage ex_pc false)) = Report 1 [(4, v)] /\ length v = 4%nat) /\
  snd (step (run Domain [] exh) (OAddPage ex_pl true)) = Report 0 [] /\
  pages_under ex_pa (fst (add_lru false ex_pa (run Domain [] exh))) = [ex_pa; ex_pl; ex_pxy] /\
  (exists v, snd (step (run Domain [] exh) (OAddRule ex_pa (Path 1))) = Report 0 [(4, ex_pl :: v)]).
Proof.
  split; [exact ex_rules_wf|]. split; [exact exh_wf|]. split; [wf_lru_tac|].
  vm_compute. repeat split; try reflexivity; eexists; try split; reflexivity.
Qed.

Print Assumptions C06_potential.
Print Assumptions C06_create.
Print Assumptions C06_create_inv.
Print Assumptions C06_potential_is_candidate.
Print Assumptions C06_rule_install.
Print Assumptions C06_spec_rule.
Print Assumptions C06_nonvacuous.
Print Assumptions C06_decision_indep.
