(* C15 — in-memory and on-disk back-ends are observationally equivalent.
   The two storage classes are modelled as state machines over bytes (Storage.v:
   a file with a cursor opened rb+/wb+; a bytearray with a cursor, as repaired by
   fix 76885e1).  For every operation sequence obeying the discipline under which
   the trie and the link store use a storage (cursor reads only right after a read;
   positioned writes of exactly one block at an offset not beyond the end) both
   machines return the same results and end with the same contents; the memory-map
   reader returns what a positioned file read returns.  The discipline is necessary
   (refutation examples).  The index-level statement is carried by the correspondence
   run (same histories on Traph(folder=None) and Traph(folder=tmp)). *)
From Coq Require Import List NArith.
From Traph Require Import Bytes Storage StorageFacts.
Import ListNotations.
Open Scope N_scope.

Theorem C15_bisim : forall bs ops, 0 < bs -> disciplined bs 0 false ops = true ->
  snd (file_run bs (mkF [] 0) ops) = snd (mem_run bs (mkM [] 0) ops) /\
  f_data (fst (file_run bs (mkF [] 0) ops)) = m_data (fst (mem_run bs (mkM [] 0) ops)).
Proof. exact StorageFacts.C15_bisim. Qed.

Theorem C15_memmap : forall bs fs b,
  memmap_read bs (f_data fs) b =
  (match snd (file_step bs fs (SRead b)) with RData o => o | _ => None end).
Proof. exact StorageFacts.memmap_is_read. Qed.

Theorem C15_discipline_needed :
  exists bs ops, 0 < bs /\ disciplined bs 0 false ops = false /\
    snd (file_run bs (mkF [] 0) ops) <> snd (mem_run bs (mkM [] 0) ops).
Proof. exact StorageFacts.C15_needs_discipline. Qed.

Print Assumptions C15_bisim.
Print Assumptions C15_memmap.
Print Assumptions C15_discipline_needed.
