(* C15 — in-memory and on-disk back-ends are observationally equivalent.
   The two storage classes are modelled as state machines over bytes (Storage.v:
   a file with a cursor opened rb+/wb+; a bytearray with a cursor, as repaired by
   fix 76885e1).  For every operation sequence obeying the discipline under which
   the trie and the link store use a storage (cursor reads only right after a read;
   positioned writes of exactly one block at an offset not beyond the end) both
   machines return the same results and end with the same contents; the memory-map
   reader returns what a positioned file read returns.  The discipline is necessary
   (refutation examples).  The index-level statement is carried by the correspondence
   run (same histories on Traph(folder=None) and Traph(folder=tmp)). *)
From Coq Require Import List NArith.
From Traph Require Import Bytes Storage StorageFacts.
Import ListNotations.
Open Scope N_scope.

Theorem C15_bisim : forall bs ops, 0 < bs -> disciplined bs 0 false ops = true ->
  snd (file_run bs (mkF [] 0) ops) = snd (mem_run bs (mkM [] 0) ops) /\
  f_data (fst (file_run bs (mkF [] 0) ops)) = m_data (fst (mem_run bs (mkM [] 0) ops)).
Proof. exact StorageFacts.C15_bisim. Qed.

Theorem C15_memmap : forall bs fs b,
  memmap_read bs (f_data fs) b =
  (match snd (file_step bs fs (SRead b)) with RData o => o | _ => None end).
Proof. exact StorageFacts.memmap_is_read. Qed.

Theorem C15_discipline_needed :
  exists bs ops, 0 < bs /\ disciplined bs 0 false ops = false /\
    snd (file_run bs (mkF [] 0) ops) <> snd (mem_run bs (mkM [] 0) ops).
Proof. exact StorageFacts.C15_needs_discipline. Qed.

Print Assumptions C15_bisim.
Print Assumptions C15_memmap.
Print Assumptions C15_discipline_needed.

(* ---- the two machines ARE the source's methods -------------------------------------
   GenStorage.v is regenerated on every run from traph/storage/memory.py and file.py
   (methods -> state-transition functions; the file object is the primitive [pyfile]);
   GenStorageFacts.v proves each method equal to the corresponding step of the machines
   above, so C15_bisim speaks of MemoryStorage.read/write and FileStorage.read/write as
   they are written now. *)
From Traph Require GenStorage GenStorageFacts.
Import GenStorage GenStorageFacts.
Theorem C15_source_memory_read : forall bs m b,
  py_pm_read (PM bs m) (Some b) =
  (PM bs (fst (mem_step bs m (SRead b))), match snd (mem_step bs m (SRead b)) with RData o => o | _ => None end).
Proof. exact py_mem_read_at. Qed.
Theorem C15_source_memory_read_next : forall bs m,
  py_pm_read (PM bs m) None =
  (PM bs (fst (mem_step bs m SReadNext)), match snd (mem_step bs m SReadNext) with RData o => o | _ => None end).
Proof. exact py_mem_read_next. Qed.
Theorem C15_source_memory_write : forall bs m data b,
  py_pm_write (PM bs m) data (Some b) =
  (PM bs (fst (mem_step bs m (SWrite data b))), match snd (mem_step bs m (SWrite data b)) with RBlock x => x | _ => 0 end).
Proof. exact py_mem_write_at. Qed.
Theorem C15_source_memory_append : forall bs m data, nlen data = bs ->
  py_pm_write (PM bs m) data None =
  (PM bs (fst (mem_step bs m (SAppend data))), match snd (mem_step bs m (SAppend data)) with RBlock x => x | _ => 0 end).
Proof. exact py_mem_append_block. Qed.
Theorem C15_source_file_read : forall bs f b,
  py_pfs_read (PF bs f) (Some b) =
  (PF bs (fst (file_step bs f (SRead b))), match snd (file_step bs f (SRead b)) with RData o => o | _ => None end).
Proof. exact py_file_read_at. Qed.
Theorem C15_source_file_read_next : forall bs f,
  py_pfs_read (PF bs f) None =
  (PF bs (fst (file_step bs f SReadNext)), match snd (file_step bs f SReadNext) with RData o => o | _ => None end).
Proof. exact py_file_read_next. Qed.
Theorem C15_source_file_write : forall bs f data b,
  py_pfs_write (PF bs f) data (Some b) =
  (PF bs (fst (file_step bs f (SWrite data b))), match snd (file_step bs f (SWrite data b)) with RBlock x => x | _ => 0 end).
Proof. exact py_file_write_at. Qed.
Theorem C15_source_file_append : forall bs f data,
  py_pfs_write (PF bs f) data None =
  (PF bs (fst (file_step bs f (SAppend data))), match snd (file_step bs f (SAppend data)) with RBlock x => x | _ => 0 end).
Proof. exact py_file_append. Qed.
Theorem C15_source_file_corruption_test : forall bs f,
  snd (py_pfs_check_for_corruption (PF bs f)) = negb (nlen (f_data f) mod bs =? 0).
Proof. exact py_file_corrupt. Qed.
Print Assumptions C15_source_memory_read.
Print Assumptions C15_source_memory_read_next.
Print Assumptions C15_source_memory_write.
Print Assumptions C15_source_memory_append.
Print Assumptions C15_source_file_read.
Print Assumptions C15_source_file_read_next.
Print Assumptions C15_source_file_write.
Print Assumptions C15_source_file_append.
Print Assumptions C15_source_file_corruption_test.
