(* C04b — the requests that attach, detach, move and delete webentity prefixes, on the code translated from the source on every
   run (GenTraphW.v: Traph.add_prefix_to_webentity, remove_prefix_from_webentity, move_prefix_to_webentity, delete_webentity over
   the translated LRUTrie.add_lru / lru_node and node writes).  For EVERY history, from the RAM header and trie storage holding
   the state reached (hrep), each translated request is accepted (returns True) exactly when the SPECIFICATION's request is
   accepted, is refused (None = TraphException) exactly when the specification refuses, and when accepted leaves the storage
   holding the trie file of the model's next state - whose prefix map is the specification's next prefix map (RefFull.step_R).
   Size hypotheses: the file stays below 2^64 bytes; the webentity id given by the caller fits its 32-bit field. *)
From Coq Require Import List NArith Bool.
From Traph Require Import Bytes Consts Rules Tst TstDefs Traph Spec Ops RefDefs RefFull TraceDefs StoreFacts StoreFacts2
  GenStorage GenNode GenTrie GenTrieFacts GenTraphW GenTraphWDefs GenTraphWFacts2.
Import ListNotations.
Open Scope N_scope.

Section OnHistory.
  Variables (d : rulekind) (rs : list (bytes * rulekind)) (h : list op).
  Hypothesis Hrs : wf_rules rs.
  Hypothesis Hh : Forall wf_op h.
  Let s := run d rs h.
  Let a := srun d rs h.

  (* the model's reply is the specification's, for any well-formed next request *)
  Lemma reply_spec : forall o, wf_op o -> snd (Ops.step s o) = snd (sstep s a o).
  Proof. intros o Ho. exact (proj2 (step_R _ _ o (run_RR d rs h Hrs Hh) Ho)). Qed.

  Theorem C04_source_add_prefix : forall hd sg p w, hrep s hd sg -> wf_op (OAddPrefix p w) -> w < 2 ^ 32 ->
    nb (fst (Ops.step s (OAddPrefix p w))) * 128 < 2 ^ 64 ->
    match snd (sstep s a (OAddPrefix p w)) with
    | Ok => exists hd' sg', py_traph_add_prefix_to_webentity hd sg p w = Some (hd', sg', true) /\
              hrep (fst (Ops.step s (OAddPrefix p w))) hd' sg'
    | Refused => py_traph_add_prefix_to_webentity hd sg p w = None
    | _ => False
    end.
  Proof.
    intros hd sg p w Hrep Ho Hw Hsz. rewrite <- (reply_spec _ Ho).
    pose proof (run_Inv18 d rs h Hh) as Hinv. pose proof (run_root_first d rs h) as Hroot.
    destruct Ho as [Hp _].
    exact (py_traph_add_prefix_spec s Hinv Hroot hd sg p w Hrep Hp Hw Hsz).
  Qed.

  Theorem C04_source_remove_prefix : forall hd sg p w, hrep s hd sg -> wf_op (ORemovePrefix p w) ->
    nb (fst (Ops.step s (ORemovePrefix p w))) * 128 < 2 ^ 64 ->
    match snd (sstep s a (ORemovePrefix p w)) with
    | Ok => exists hd' sg', py_traph_remove_prefix_from_webentity hd sg p w = Some (hd', sg', true) /\
              hrep (fst (Ops.step s (ORemovePrefix p w))) hd' sg'
    | Refused => py_traph_remove_prefix_from_webentity hd sg p w = None
    | _ => False
    end.
  Proof.
    intros hd sg p w Hrep Ho Hsz. rewrite <- (reply_spec _ Ho).
    pose proof (run_Inv18 d rs h Hh) as Hinv. pose proof (run_root_first d rs h) as Hroot.
    exact (py_traph_remove_prefix_spec s Hinv Hroot hd sg p w Hrep Ho Hsz).
  Qed.

  Theorem C04_source_move_prefix : forall hd sg p wt ws, hrep s hd sg -> wf_op (OMovePrefix p wt ws) -> wt < 2 ^ 32 ->
    nb (fst (Ops.step s (OMovePrefix p wt ws))) * 128 < 2 ^ 64 ->
    match snd (sstep s a (OMovePrefix p wt ws)) with
    | Ok => exists hd' sg', py_traph_move_prefix_to_webentity hd sg p wt ws = Some (hd', sg', true) /\
              hrep (fst (Ops.step s (OMovePrefix p wt ws))) hd' sg'
    | Refused => py_traph_move_prefix_to_webentity hd sg p wt ws = None
    | _ => False
    end.
  Proof.
    intros hd sg p wt ws Hrep Ho Hw Hsz. rewrite <- (reply_spec _ Ho).
    pose proof (run_Inv18 d rs h Hh) as Hinv. pose proof (run_root_first d rs h) as Hroot.
    destruct Ho as [Hp _].
    exact (py_traph_move_prefix_spec s Hinv Hroot hd sg p wt ws Hrep Hp Hw Hsz).
  Qed.

  Theorem C04_source_delete : forall hd sg w ps, hrep s hd sg -> wf_op (ODelete w ps) ->
    match snd (sstep s a (ODelete w ps)) with
    | Ok => exists hd' sg', py_traph_delete_webentity hd sg w ps true = Some (hd', sg', true) /\
              hrep (fst (Ops.step s (ODelete w ps))) hd' sg'
    | Refused => py_traph_delete_webentity hd sg w ps true = None
    | _ => False
    end.
  Proof.
    intros hd sg w ps Hrep Ho. rewrite <- (reply_spec _ Ho).
    pose proof (run_Inv18 d rs h Hh) as Hinv. pose proof (run_root_first d rs h) as Hroot.
    destruct Ho as [_ Hps].
    exact (py_traph_delete_webentity_spec s Hinv Hroot hd sg w ps Hrep Hps).
  Qed.
End OnHistory.

Print Assumptions C04_source_add_prefix.
Print Assumptions C04_source_remove_prefix.
Print Assumptions C04_source_move_prefix.
Print Assumptions C04_source_delete.
