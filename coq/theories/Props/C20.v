(* C20 — most linked pages.  For EVERY history h of well-formed requests (s the model's
   state, a the specification's state after h): the indegree the index reports for a
   page is the number of distinct pages that submitted a link to it (s_indegree)
   WHEN THAT NUMBER IS NOT ZERO - and 1 when it is zero: the code follows the inbound
   head pointer unguarded, and a null pointer reads the link-store header as one stub
   (known finding F7; the model mirrors the code, see C20_refuted_F7 for a concrete
   history and C20_zero_reported_one for the general statement).  With that reported
   degree (rep_indegree), get_webentity_most_linked_pages answers min(k, number of
   candidates) pages of the webentity's realms, each with its reported degree, in
   non-increasing degree order, and no page left out has a larger degree than a page
   kept; it is refused exactly when a prefix is unknown. *)
From Coq Require Import List NArith Bool.
From Traph Require Import Bytes Rules Tst TstDefs Traph Spec Ops RefDefs QueryLinks2
  RefFull IdFacts PropsEx.
Import ListNotations.
Open Scope N_scope.

Theorem C20_reported_indegree : forall d rs h, wf_rules rs -> Forall wf_op h ->
  let s := run d rs h in let a := srun d rs h in
  forall l n, wf_lru l -> nodeof s l = Some n -> reported_indegree n s = rep_indegree l a.
Proof. intros d rs h H1 H2. exact (reported_indegree_spec _ _ (run_RR d rs h H1 H2)). Qed.

(* correct whenever somebody links to the page ... *)
Theorem C20_indegree_correct_when_linked : forall d rs h, wf_rules rs -> Forall wf_op h ->
  let s := run d rs h in let a := srun d rs h in
  forall l n, wf_lru l -> nodeof s l = Some n -> s_indegree l a <> 0 ->
  reported_indegree n s = s_indegree l a.
Proof.
  intros d rs h H1 H2. cbv zeta. intros l n Hl Hn Hz.
  rewrite (C20_reported_indegree d rs h H1 H2 l n Hl Hn). unfold rep_indegree.
  destruct (N.eqb_spec (s_indegree l (srun d rs h)) 0); [contradiction|reflexivity].
Qed.

(* ... and off by one when nobody does (F7) *)
Theorem C20_zero_reported_one : forall d rs h, wf_rules rs -> Forall wf_op h ->
  let s := run d rs h in let a := srun d rs h in
  forall l n, wf_lru l -> nodeof s l = Some n -> s_indegree l a = 0 ->
  reported_indegree n s = 1.
Proof.
  intros d rs h H1 H2. cbv zeta. intros l n Hl Hn Hz.
  rewrite (C20_reported_indegree d rs h H1 H2 l n Hl Hn). unfold rep_indegree.
  rewrite Hz. reflexivity.
Qed.

Theorem C20_most_linked : forall d rs h, wf_rules rs -> Forall wf_op h ->
  let s := run d rs h in let a := srun d rs h in
  forall ps k maxd, Forall wf_lru ps ->
  match most_linked ps k maxd s, s_we_pages maxd ps a with
  | ROk ans, ROk cands =>
      length ans = Nat.min (N.to_nat k) (length cands) /\
      (forall l dg, In (l, dg) ans -> exists c, In (l, c) cands /\ dg = rep_indegree l a) /\
      deg_sorted ans /\
      (forall l c, In (l, c) cands -> ~ In l (map fst ans) ->
                   forall l' dg', In (l', dg') ans -> rep_indegree l a <= dg')
  | RRefused, RRefused => True
  | _, _ => False
  end.
Proof. intros d rs h H1 H2. exact (most_linked_spec _ _ (run_RR d rs h H1 H2)). Qed.

(* the property "the reported degree is the number of distinct linking pages" is REFUTED:
   one page, no link at all, reported with indegree 1 *)
Example C20_refuted_F7 :
  let h := [OAddPage ex_pa false] in
  wf_rules [] /\ Forall wf_op h /\
  a_links (srun Domain [] h) = [] /\ s_indegree ex_pa (srun Domain [] h) = 0 /\
  most_linked [ex_pa] 10 None (run Domain [] h) = ROk [(ex_pa, 1)].
Proof.
  cbv zeta. split; [exact ex_rules_wf|]. split.
  - repeat constructor; cbn [wf_op]; wf_lru_tac.
  - vm_compute. repeat split; reflexivity.
Qed.

(* non-vacuity: in the example history, pages pa (linked by pxy) and pl (linked by pb) have
   degree 1 each, correctly; asking for the top 1 keeps the first met *)
Example C20_nonvacuous :
  wf_rules [] /\ Forall wf_op exh /\
  most_linked [ex_pa] 5 None (run Domain [] exh) = ROk [(ex_pl, 1); (ex_pa, 1)] /\
  s_indegree ex_pa (srun Domain [] exh) = 1 /\ s_indegree ex_pb (srun Domain [] exh) = 1 /\
  most_linked [ex_pb] 5 None (run Domain [] exh) = ROk [(ex_pb, 1)] /\
  length (match most_linked [ex_pa] 1 None (run Domain [] exh) with ROk l => l | _ => [] end) = 1%nat /\
  most_linked [ex_pxy ++ ex_long] 5 None (run Domain [] exh) = RRefused.
Proof.
  split; [exact ex_rules_wf|]. split; [exact exh_wf|]. vm_compute. repeat split; reflexivity.
Qed.

Print Assumptions C20_reported_indegree.
Print Assumptions C20_indegree_correct_when_linked.
Print Assumptions C20_zero_reported_one.
Print Assumptions C20_most_linked.
Print Assumptions C20_refuted_F7.
Print Assumptions C20_nonvacuous.

(* ---- the traversal the indegree is computed from, as the source has it (GenLinks.v, regenerated on every run):
   for EVERY history, on the bytes of the link file of the state reached, LinkStore.deduped_link_nodes_iter from
   the in-head of any linked node returns the model's deduped target list, whose length is the indegree the
   most-linked query reports (reported_indegree). *)
From Traph Require GenStorage GenLinks GenLinksFacts.
Import GenStorage GenLinks GenLinksFacts.
Theorem C20_source_deduped_reachable : forall d rs h, wf_rules rs -> Forall wf_op h ->
  let s := run d rs h in
  forall sg, lrep (stubs s) sg -> fits (nb s * bsz) -> fits (saddr (length (stubs s))) ->
  forall p nd, find p (tr s) = Some nd -> inh nd <> 0%N ->
    exists l, py_ls_deduped_link_nodes_iter sg (inh nd) = Some l /\
              N.of_nat (length l) = reported_indegree nd s.
Proof.
  intros d rs h Hr Hh s sg Hrep Hft Hfl p nd Hf Hnz.
  pose proof (run_Rl d rs h Hr Hh) as HR. fold s in HR.
  pose proof (reachable_wf_stubs s _ HR Hft Hfl) as Hwf.
  destruct (L_heads s _ HR p nd Hf) as [_ Hi].
  destruct Hi as [E|(j & Hj & E)]; [contradiction|].
  destruct (nth_error (stubs s) j) as [x|] eqn:En; [|apply nth_error_None in En; Lia.lia].
  exists (map Some (deduped (targets_of (stubs s) (inh nd)))). split.
  - rewrite E. exact (py_ls_deduped_spec (stubs s) sg j x Hwf Hrep En).
  - unfold reported_indegree. rewrite map_length.
    destruct (N.eqb_spec (inh nd) 0%N); [contradiction|reflexivity].
Qed.
Print Assumptions C20_source_deduped_reachable.

(* ---- the most-linked request itself, translated (GenTraphM.v: Traph.get_webentity_most_linked_pages, with heapq as the modelled
   primitive).  For EVERY history, every prefix list, bound and depth limit: the translated request returns exactly the model's
   answer list (pages and reported degrees, in the same order), changes no byte, and raises exactly when the model refuses.
   C20_most_linked (length, membership, order, maximality against the specification) is therefore a statement about it. *)
From Traph Require GenTraphM GenTraphMFacts GenTrieFacts TraceDefs.
Import GenTraphM GenTrieFacts.
Theorem C20_source_most_linked : forall d rs h, wf_rules rs -> Forall wf_op h ->
  let s := run d rs h in
  forall sg sgl w ps k maxd,
    trep (TraceDefs.files_of s) sg -> lrep (stubs s) sgl -> fits (nb s * bsz) -> fits (saddr (length (stubs s))) -> Forall wf_lru ps ->
    match most_linked ps k maxd s with
    | ROk l => exists sg', py_traph_get_webentity_most_linked_pages sg sgl w ps k maxd = Some (sg', l) /\ pm_array sg' = pm_array sg
    | _ => py_traph_get_webentity_most_linked_pages sg sgl w ps k maxd = None
    end.
Proof.
  intros d rs h H1 H2 s sg sgl w ps k maxd Hrep Hl Hf1 Hf2 Hps.
  pose proof (GenTraphMFacts.py_traph_most_linked_spec d rs h H1 H2 sg sgl w ps k maxd Hrep Hl Hf1 Hf2 Hps) as H.
  cbv zeta in H. fold s in H.
  destruct (most_linked ps k maxd s) as [| |l]; [exact H|exact H|].
  destruct H as (sg' & E & _ & Harr). exists sg'. split; assumption.
Qed.

(* the known finding F7 read off the TRANSLATED code: for every history, a page of the webentity with no in-link at all that the
   request lists is listed with indegree 1 (and it is listed when the bound does not cut) *)
Theorem C20_source_F7 : forall d rs h, wf_rules rs -> Forall wf_op h ->
  let s := run d rs h in
  forall sg sgl w ps k maxd cands,
    trep (TraceDefs.files_of s) sg -> lrep (stubs s) sgl -> fits (nb s * bsz) -> fits (saddr (length (stubs s))) -> Forall wf_lru ps ->
    we_page_nodes maxd ps s = ROk cands ->
    exists sg' ans, py_traph_get_webentity_most_linked_pages sg sgl w ps k maxd = Some (sg', ans) /\
      (forall lru dg, In (lru, dg) ans -> (forall nd, In (lru, nd) cands -> inh nd = 0) -> dg = 1) /\
      ((length cands <= N.to_nat k)%nat -> forall lru nd, In (lru, nd) cands -> inh nd = 0 -> In (lru, 1) ans).
Proof.
  intros d rs h H1 H2 s sg sgl w ps k maxd cands Hrep Hl Hf1 Hf2 Hps Hc.
  destruct (GenTraphMFacts.F7_from_source d rs h H1 H2 sg sgl w ps k maxd cands Hrep Hl Hf1 Hf2 Hps Hc) as (sg' & ans & E & _ & A & B).
  exists sg', ans. split; [exact E|]. split; assumption.
Qed.
Print Assumptions C20_source_most_linked.
Print Assumptions C20_source_F7.
