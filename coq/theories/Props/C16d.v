(* C16d — the page-link query get_webentity_pagelinks_iter (traph.py 722-800; coroutine
   CLinks / plinksq_step of Sched.v, one link item processed per turn) interleaved with
   crawl batches, rule installations and the other queries: what IS true of its answer.
   (C16c.v shows what is false: an item appended under the outbound clause may have
   qualified at no moment.  Nothing below contradicts it: the clause an item is appended
   under is evaluated with the webentity of the OTHER end resolved at the moment of the
   append; that the page itself still belongs to the webentity at that moment is not
   claimed, and is what fails in C16c.)

   The local variables of the coroutine and their invariant (SchedFacts9.v):
   - LInv ps q s: the prefixes not started yet are among ps; every stack entry
     (block, lru above, level) names a node of the tree under the current prefix and
     the LRU of the level above; every pending item (isout, lru, other, wt) has lru = the
     LRU of a PAGE of the tree under one of the prefixes ps and other = a block that is on
     the out-chain (isout) / in-chain of that page as the link store is NOW; the pending
     inlink head of a page is a suffix of the in-chain of that page.
   - lext s s': nodes keep their block address, pages stay pages, the link store is only
     appended to and the chain of every node only grows at the head.
   Theorems:
   - C16_plinks_LInv_start / C16_plinks_LInv_ext / C16_plinks_co_step_lext (L1): LInv holds
     at the start, survives every lext step, and every turn of every coroutine of a run is
     an lext step.
   - C16_plinks_step_sound (L1 + L2, one turn): a turn keeps LInv, and the answer is
     unchanged, or emptied (no clause requested: refusal), or grows by ONE triple
     (src, dst, wt) that satisfies lqual NOW: for an out item, src is a page of the tree
     under a prefix, dst is a page of the tree, the block of dst is on the out-chain of
     src, (src, dst) is among the pairs go whose out-chain has been written (SInv), and
     the webentity of dst resolved now is <> w (outbound clause requested) or = w (internal
     clause requested); for an in item the same with dst under a prefix, src on its
     in-chain, (src, dst) among the pairs gi whose in-chain has been written, and the
     webentity of src <> w.
     DEVIATION from "the link is in a_links a for an abstract state a with R s a": in the
     middle of a crawl batch no abstract state is in relation R with the index (out-chains
     are written before in-chains); the run invariant SInv s a go gi has the tree part
     Rcore s a and the two ghost lists go / gi instead, and both are included in
     all_links a0 jobs = the links of the start state ++ the links of the batches.
   - C16_plinks_partial (L2, any moment of any schedule): the same for the turn given to
     the query after any schedule of any well-formed jobs.
   - C16_plinks_sandwich_partial (L2, run level): every triple of the answer satisfied
     lqual in the state reached after some prefix of the schedule, the next turn being
     the query's.  C16_plinks_sandwich_partial_spec: the same against an abstract state
     refined (tree part) by that state: both ends are pages of it, the pair is a link of
     the start state or of a batch, one end lies under a prefix of the query and the
     other end is owned (internal) / not owned (outbound, inbound) by the webentity.
   - C16_plinks_we_stable: along any schedule a node that carries a webentity keeps THAT
     webentity, a node that carries none gets none or one with an id above the counter of
     the earlier state, and the counter never decreases.
   - C16_plinks_complete_internal_moments (L3): if the query (internal clause requested)
     has not made a step in s1, T is a page of s1 under the prefix P with the block aU on
     its out-chain, at the END no node strictly below P on the way to T (T included)
     carries a webentity, and aU resolves to w at EVERY moment of sched2, then the
     finished, not refused query has (T, lru of aU, wt) in its answer.
   - C16_plinks_complete_internal (L3, final form): "at every moment" replaced by: aU
     resolves to w at the END and w <= lastwe s1 (the webentity existed when the query
     started).  Inbound and outbound flags are arbitrary.
   - C16_plinks_example: the hypotheses of C16_plinks_complete_internal hold on a concrete
     run (a batch adding a page and a link into the webentity while the query runs). *)
From Coq Require Import List NArith Bool.
From Traph Require Import Bytes Consts Helpers Rules Tst TstDefs Traph Spec Ops RefDefs RefFull
  LinkFacts2 PropsEx Sched SchedFacts SchedFacts2 SchedFacts4 SchedFacts6 SchedFacts7 SchedRefute
  SchedFacts9 SchedFacts10.
Import ListNotations.
Open Scope N_scope.

(* ---- L1 ---------------------------------------------------------------------------- *)

Theorem C16_plinks_LInv_start : forall w ps inb int outb s, LInv ps (plinksq_start w ps inb int outb) s.
Proof. exact LInv_start. Qed.
Print Assumptions C16_plinks_LInv_start.

Theorem C16_plinks_LInv_ext : forall ps0 q s s', lext s s' -> LInv ps0 q s -> LInv ps0 q s'.
Proof. exact LInv_ext. Qed.
Print Assumptions C16_plinks_LInv_ext.

Theorem C16_plinks_co_step_lext : forall a0 jobs cl s a go gi i c, HInv a0 jobs cl s a go gi ->
  nth_error cl i = Some c -> lext s (snd (co_step c s)).
Proof. exact co_step_lext. Qed.
Print Assumptions C16_plinks_co_step_lext.

(* ---- L1 + L2, one turn ------------------------------------------------------------- *)

Theorem C16_plinks_step_sound : forall ps0 s a go gi, SInv s a go gi ->
  forall fuel q, LInv ps0 q s ->
  LInv ps0 (plinksq_step fuel q s) s /\
  (l_acc (plinksq_step fuel q s) = l_acc q \/ l_acc (plinksq_step fuel q s) = [] \/
   exists x, l_acc (plinksq_step fuel q s) = l_acc q ++ [x] /\
             lqual ps0 (l_we q) (l_int q) (l_outb q) s go gi x).
Proof. exact plinksq_step_sound. Qed.
Print Assumptions C16_plinks_step_sound.

Theorem C16_plinks_step_new : forall ps0 s a go gi, SInv s a go gi ->
  forall fuel q, LInv ps0 q s ->
  forall x, In x (l_acc (plinksq_step fuel q s)) ->
    In x (l_acc q) \/ lqual ps0 (l_we q) (l_int q) (l_outb q) s go gi x.
Proof. exact plinksq_step_new. Qed.
Print Assumptions C16_plinks_step_new.

(* ---- L2, any schedule -------------------------------------------------------------- *)

Theorem C16_plinks_partial : forall jobs sched s0 a0 i w ps inb int outb q,
  R s0 a0 -> Forall job_wf jobs ->
  let cl := fst (exec_sched sched (map job_start jobs) s0) in
  let s := snd (exec_sched sched (map job_start jobs) s0) in
  nth_error jobs i = Some (JLinks w ps inb int outb) -> nth_error cl i = Some (CLinks q) ->
  exists q', co_step (CLinks q) s = (CLinks q', s) /\
    (l_acc q' = l_acc q \/ l_acc q' = [] \/
     exists x, l_acc q' = l_acc q ++ [x] /\ lmoment a0 jobs ps w int outb s x).
Proof. exact C16_pagelinks_partial. Qed.
Print Assumptions C16_plinks_partial.

Theorem C16_plinks_sandwich_partial : forall jobs sched s0 a0 i w ps inb int outb q2,
  R s0 a0 -> Forall job_wf jobs ->
  nth_error jobs i = Some (JLinks w ps inb int outb) ->
  nth_error (fst (exec_sched sched (map job_start jobs) s0)) i = Some (CLinks q2) ->
  forall x, In x (l_acc q2) ->
    exists k, nth_error sched k = Some i /\
      lmoment a0 jobs ps w int outb (snd (exec_sched (firstn k sched) (map job_start jobs) s0)) x.
Proof. exact C16_pagelinks_sandwich_partial. Qed.
Print Assumptions C16_plinks_sandwich_partial.

Theorem C16_plinks_sandwich_partial_spec : forall jobs sched s0 a0 i w ps inb int outb q2,
  R s0 a0 -> Forall job_wf jobs -> Forall wf_lru ps ->
  nth_error jobs i = Some (JLinks w ps inb int outb) ->
  nth_error (fst (exec_sched sched (map job_start jobs) s0)) i = Some (CLinks q2) ->
  forall x, In x (l_acc q2) ->
    exists k a, nth_error sched k = Some i /\
      Rcore (snd (exec_sched (firstn k sched) (map job_start jobs) s0)) a /\
      lqual_spec ps w int outb a (all_links a0 jobs) (all_links a0 jobs) x.
Proof. exact C16_pagelinks_sandwich_partial_spec. Qed.
Print Assumptions C16_plinks_sandwich_partial_spec.

(* ---- webentities along a run ------------------------------------------------------- *)

Theorem C16_plinks_we_stable : forall sched cl s,
  let s' := snd (exec_sched sched cl s) in
  lastwe s <= lastwe s' /\
  forall p d d', find p (tr s) = Some d -> find p (tr s') = Some d' ->
    (we d <> 0 -> we d' = we d) /\ (we d = 0 -> we d' = 0 \/ lastwe s < we d').
Proof. intros sched cl s. exact (proj2 (exec_wext sched cl s)). Qed.
Print Assumptions C16_plinks_we_stable.

(* ---- L3 ---------------------------------------------------------------------------- *)

Theorem C16_plinks_complete_internal_moments : forall jobs sched1 sched2 s0 a0 i w ps inb outb P T dT aU,
  R s0 a0 -> Forall job_wf jobs ->
  let cs0 := map job_start jobs in
  let cs1 := fst (exec_sched sched1 cs0 s0) in
  let s1 := snd (exec_sched sched1 cs0 s0) in
  let cs2 := fst (exec_sched sched2 cs1 s1) in
  let s2 := snd (exec_sched sched2 cs1 s1) in
  nth_error cs1 i = Some (CLinks (plinksq_start w ps inb true outb)) -> In P ps ->
  under (lru_iter P) T -> find T (tr s1) = Some dT -> page dT = true ->
  In aU (targets_of (stubs s1) (outh dT)) ->
  (forall p' d', under (lru_iter P) p' -> p' <> lru_iter P -> under p' T ->
                 find p' (tr s2) = Some d' -> we d' = 0) ->
  (forall k, we_at aU (tr (snd (exec_sched (firstn k sched2) cs1 s1))) = w) ->
  forall q2, nth_error cs2 i = Some (CLinks q2) -> l_done q2 = true -> l_refused q2 = false ->
  exists wt, In (concat T, lru_at aU s2, wt) (l_acc q2).
Proof. exact C16_pagelinks_complete_internal. Qed.
Print Assumptions C16_plinks_complete_internal_moments.

Theorem C16_plinks_complete_internal : forall jobs sched1 sched2 s0 a0 i w ps inb outb P T dT aU,
  R s0 a0 -> Forall job_wf jobs ->
  let cs0 := map job_start jobs in
  let cs1 := fst (exec_sched sched1 cs0 s0) in
  let s1 := snd (exec_sched sched1 cs0 s0) in
  let cs2 := fst (exec_sched sched2 cs1 s1) in
  let s2 := snd (exec_sched sched2 cs1 s1) in
  nth_error cs1 i = Some (CLinks (plinksq_start w ps inb true outb)) -> In P ps ->
  under (lru_iter P) T -> find T (tr s1) = Some dT -> page dT = true ->
  In aU (targets_of (stubs s1) (outh dT)) ->
  (forall p' d', under (lru_iter P) p' -> p' <> lru_iter P -> under p' T ->
                 find p' (tr s2) = Some d' -> we d' = 0) ->
  we_at aU (tr s2) = w -> w <= lastwe s1 ->
  forall q2, nth_error cs2 i = Some (CLinks q2) -> l_done q2 = true -> l_refused q2 = false ->
  exists wt, In (concat T, lru_at aU s2, wt) (l_acc q2).
Proof. exact C16_pagelinks_complete_internal_end. Qed.
Print Assumptions C16_plinks_complete_internal.

(* ---- the hypotheses are satisfiable ------------------------------------------------ *)

(* the index of SchedRefute.v (pages A = ...|p:m|p:n|, B = ...|p:m|, C = ...|p:k| of
   webentity 1 = s:https|h:com|h:a|, links A -> B and A -> C); the query asks for the
   internal links of webentity 1 while a crawl batch adds the page Z = ...|p:z| of the
   same webentity and the link Z -> A.  The batch makes its first step before the
   query's first step (sched1), then they alternate. *)
Definition rh_Z : bytes := [115; 58; 104; 116; 116; 112; 115; 124; 104; 58; 99; 111; 109; 124; 104; 58; 97; 124; 112; 58; 122; 124].
Definition rh_jobs : list job := [JLinks 1 [rg_D] false true false; JBatch [(rh_Z, [rg_A])]].
Definition rh_sched1 : list nat := [1]%nat.
Definition rh_sched2 : list nat := [0; 1; 0; 1; 0; 1; 0; 1; 0; 1; 0; 0]%nat.

Lemma rh_jobs_wf : Forall job_wf rh_jobs.
Proof.
  unfold rh_jobs. repeat constructor; cbn [job_wf fst snd]; try exact I; wf_lru_tac.
Qed.

Example C16_plinks_example :
  let jobs := rh_jobs in
  let s0 := rg_s0 in
  let cs0 := map job_start jobs in
  let cs1 := fst (exec_sched rh_sched1 cs0 s0) in
  let s1 := snd (exec_sched rh_sched1 cs0 s0) in
  let cs2 := fst (exec_sched rh_sched2 cs1 s1) in
  let s2 := snd (exec_sched rh_sched2 cs1 s1) in
  let T := lru_iter rg_A in
  let aU := addr_of rg_B s1 in
  R s0 (srun Domain rg_rules rg_hist) /\ Forall job_wf jobs /\
  nth_error cs1 0 = Some (CLinks (plinksq_start 1 [rg_D] false true false)) /\ In rg_D [rg_D] /\
  under (lru_iter rg_D) T /\
  (exists dT, find T (tr s1) = Some dT /\ page dT = true /\ In aU (targets_of (stubs s1) (outh dT))) /\
  (forall p' d', under (lru_iter rg_D) p' -> p' <> lru_iter rg_D -> under p' T ->
                 find p' (tr s2) = Some d' -> we d' = 0) /\
  we_at aU (tr s2) = 1 /\ 1 <= lastwe s1 /\
  (exists q2, nth_error cs2 0 = Some (CLinks q2) /\ l_done q2 = true /\ l_refused q2 = false /\
              In (rg_A, rg_B, 1) (l_acc q2)).
Proof.
  cbv zeta.
  split; [apply run_R; [apply rg_rules_wf|apply rg_hist_wf]|].
  split; [apply rh_jobs_wf|].
  split; [vm_compute; reflexivity|].
  split; [left; reflexivity|].
  split; [eexists; vm_compute; reflexivity|].
  split; [eexists; split; [vm_compute; reflexivity|]; split; [vm_compute; reflexivity|vm_compute; auto]|].
  split.
  - intros p' d' (r1 & E1) Hne (r2 & E2) Hf. subst p'.
    assert (Er : r1 ++ r2 = [[112; 58; 109; 124]; [112; 58; 110; 124]]).
    { rewrite <- app_assoc in E2. apply (app_inv_head (lru_iter rg_D)). rewrite <- E2. vm_compute. reflexivity. }
    destruct r1 as [|x1 [|x2 [|x3 r1]]].
    + exfalso. apply Hne. apply app_nil_r.
    + cbn [app] in Er. injection Er as -> _. vm_compute in Hf. injection Hf as <-. reflexivity.
    + cbn [app] in Er. injection Er as -> -> _. vm_compute in Hf. injection Hf as <-. reflexivity.
    + cbn [app] in Er. injection Er as _ _ Er. destruct r1; discriminate.
  - split; [vm_compute; reflexivity|]. split; [vm_compute; discriminate|].
    eexists. split; [vm_compute; reflexivity|]. split; [reflexivity|]. split; [reflexivity|].
    vm_compute. right. left. reflexivity.
Qed.
Print Assumptions C16_plinks_example.
