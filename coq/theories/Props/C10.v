(* C10 — paginating the links of a webentity.  For EVERY history h of well-formed
   requests (s the model's state, a the specification's state after h), every id w,
   every list ps of known well-formed prefixes, at least one of internal / outbound
   selected, and every page size k >= 1: following the continuation tokens from the
   first request terminates; every answer but the last counts exactly k source pages
   (done = false) and the last says done; each answer holds exactly the links of a
   consecutive run of source pages, and counts those having links; the
   concatenation of the answers is the link list of the pages in in-order sequence,
   which is a permutation of what the one-shot request (inbound off) returns - and
   that one is the specification's link set (C08). *)
From Coq Require Import List NArith Bool Permutation.
From Traph Require Import Bytes Helpers Rules Tst TstDefs Traph Spec Ops RefDefs
  QueryCore QueryCore3 QueryLinks2 PaginationFacts PaginationLinksFacts RefFull IdFacts PropsEx.
Import ListNotations.
Open Scope N_scope.

Lemma C10_known_found : forall d rs h ps, wf_rules rs -> Forall wf_op h -> Forall wf_lru ps ->
  (forall p, In p ps -> In p (a_known (srun d rs h))) -> all_found ps (tr (run d rs h)).
Proof.
  intros d rs h ps H1 H2 Hps Hk p Hp. rewrite Forall_forall in Hps.
  apply (known_found _ _ (run_Rc d rs h H1 H2) p (Hps p Hp)).
  apply mem_bytes_In. apply Hk. exact Hp.
Qed.

Theorem C10_chunks : forall d rs h w int outb ps k, wf_rules rs -> Forall wf_op h ->
  let s := run d rs h in let a := srun d rs h in
  int || outb = true -> Forall wf_lru ps -> (forall p, In p ps -> In p (a_known a)) -> 1 <= k ->
  exists fuel rs' css,
    chainl fuel w ps int outb k None s = Some rs' /\
    concat (map lr_links rs') = flat_map (pagelinks_of w false int outb s) (ino_pages ps (tr s)) /\
    (forall r, In r (removelast rs') -> lr_done r = false /\ lr_sources r = k) /\
    lr_done (last rs' lr0) = true /\
    concat css = segls w int outb 0 ps s /\
    Forall2 (fun r cs => lr_links r = lflat cs /\ lr_sources r = lcount cs) rs' css.
Proof.
  intros d rs h w int outb ps k H1 H2. cbv zeta. intros Hio Hps Hk Hk1.
  exact (PaginationLinksFacts.C10_chunks w int outb ps k _ Hio (run_wf d rs h H1 H2)
           (C10_known_found d rs h ps H1 H2 Hps Hk) Hk1).
Qed.

Theorem C10_same_links : forall d rs h w int outb ps, wf_rules rs -> Forall wf_op h ->
  let s := run d rs h in let a := srun d rs h in
  int || outb = true -> Forall wf_lru ps -> (forall p, In p ps -> In p (a_known a)) ->
  match webentity_pagelinks w ps false int outb s with
  | ROk l => Permutation (flat_map (pagelinks_of w false int outb s) (ino_pages ps (tr s))) l
  | _ => False
  end.
Proof.
  intros d rs h w int outb ps H1 H2. cbv zeta. intros Hio Hps Hk.
  exact (PaginationLinksFacts.C10_same_links w int outb ps _ Hio
           (C10_known_found d rs h ps H1 H2 Hps Hk)).
Qed.

(* the paginated links against the specification *)
Theorem C10_links_spec : forall d rs h w int outb ps, wf_rules rs -> Forall wf_op h ->
  let s := run d rs h in let a := srun d rs h in
  int || outb = true -> Forall wf_lru ps -> (forall p, In p ps -> In p (a_known a)) ->
  match s_pagelinks w ps false int outb a with
  | ROk y => forall e, In e (flat_map (pagelinks_of w false int outb s) (ino_pages ps (tr s)))
                       <-> In e y
  | _ => False
  end.
Proof.
  intros d rs h w int outb ps H1 H2. cbv zeta. intros Hio Hps Hk.
  pose proof (C10_same_links d rs h w int outb ps H1 H2 Hio Hps Hk) as A1. cbv zeta in A1.
  pose proof (pagelinks_spec _ _ (run_RR d rs h H1 H2) w ps false int outb Hps) as B1.
  destruct (webentity_pagelinks w ps false int outb (run d rs h)) as [| |l]; try contradiction.
  destruct (s_pagelinks w ps false int outb (srun d rs h)) as [| |y]; try contradiction.
  intro e. rewrite <- (B1 e). split; intro H.
  - apply (Permutation_in e A1 H).
  - apply (Permutation_in e (Permutation_sym A1) H).
Qed.

(* non-vacuity: one source page per answer: page pa has the doubled link to pb, the
   long-stem page has none (it is skipped, not counted); over the two prefixes pa, pb
   two answers are needed *)
Example C10_nonvacuous :
  wf_rules [] /\ Forall wf_op exh /\
  option_map (map lr_links) (chainl 5 1 [ex_pa] true true 1 None (run Domain [] exh))
    = Some [[(ex_pa, ex_pb, 2)]] /\
  option_map (map lr_links) (chainl 5 1 [ex_pa; ex_pb] true true 1 None (run Domain [] exh))
    = Some [[(ex_pa, ex_pb, 2)]; [(ex_pb, ex_pl, 1)]] /\
  option_map (map lr_done) (chainl 5 1 [ex_pa; ex_pb] true true 1 None (run Domain [] exh))
    = Some [false; true] /\
  webentity_pagelinks 1 [ex_pa] false true true (run Domain [] exh) = ROk [(ex_pa, ex_pb, 2)].
Proof.
  split; [exact ex_rules_wf|]. split; [exact exh_wf|]. vm_compute. repeat split; reflexivity.
Qed.

Print Assumptions C10_chunks.
Print Assumptions C10_same_links.
Print Assumptions C10_links_spec.
Print Assumptions C10_nonvacuous.
