(* C02 — the index finds exactly what was written.  For EVERY history h of well-formed
   requests (s the model's state, a the specification's state after h): the LRUs met
   by a depth-first traversal of the tree are, without repetition, the specification's
   set a_known (the stem-prefix closure of every LRU named in a write); a lookup
   succeeds exactly on those; winding up from the block address of a node gives back
   the LRU that spells it (stems of any length, tails included).  On the bytes side:
   a stem survives encoding/decoding, a node block survives encoding/decoding, and a
   stem of n bytes occupies max(1, ceil(n / 74)) blocks. *)
From Coq Require Import List NArith Bool.
From Traph Require Import Bytes Consts Helpers Rules Tst TstDefs Traph Spec Codec Ops RefDefs
  QueryCore CodecFacts RefFull IdFacts PropsEx.
Import ListNotations.
Open Scope N_scope.

Theorem C02_dfs_known : forall d rs h, wf_rules rs -> Forall wf_op h ->
  let s := run d rs h in let a := srun d rs h in
  set_eq (map fst (all_nodes (tr s))) (a_known a) /\ NoDup (map fst (all_nodes (tr s))).
Proof. intros d rs h H1 H2. exact (dfs_known _ _ (run_Rc d rs h H1 H2)). Qed.

Theorem C02_find_known : forall d rs h, wf_rules rs -> Forall wf_op h ->
  let s := run d rs h in let a := srun d rs h in
  forall l, wf_lru l -> (nodeof s l <> None <-> In l (a_known a)).
Proof. intros d rs h H1 H2. exact (find_known _ _ (run_Rc d rs h H1 H2)). Qed.

Theorem C02_windup : forall d rs h, wf_rules rs -> Forall wf_op h ->
  let s := run d rs h in
  forall l n, wf_lru l -> nodeof s l = Some n -> lru_at (addr n) s = l.
Proof.
  intros d rs h H1 H2.
  exact (windup _ _ (run_Rc d rs h H1 H2) (L_addr _ _ (run_Rl d rs h H1 H2))).
Qed.

(* block addresses are aligned, inside the file, and no two nodes share one *)
Theorem C02_addresses : forall d rs h, wf_rules rs -> Forall wf_op h ->
  let s := run d rs h in addr_ok (tr s) (nb s).
Proof. intros d rs h H1 H2. exact (L_addr _ _ (run_Rl d rs h H1 H2)). Qed.

Theorem C02_stem_roundtrip : forall st, decode_stem (encode_stem st) = st.
Proof. exact CodecFacts.stem_roundtrip. Qed.

Theorem C02_tblock_roundtrip : forall b : tblock,
  (length (b_stem b) <= 74)%nat -> b_flags b < 256 -> b_we b < 2 ^ 32 ->
  b_left b < 2 ^ 64 -> b_right b < 2 ^ 64 -> b_child b < 2 ^ 64 -> b_parent b < 2 ^ 64 ->
  b_out b < 2 ^ 64 -> b_in b < 2 ^ 64 -> decode_tblock (encode_tblock b) = b.
Proof. exact CodecFacts.tblock_roundtrip. Qed.

Theorem C02_nblk : forall st,
  nblk st = N.max 1 ((N.of_nat (length st) + stem_size - 1) / stem_size).
Proof. exact CodecFacts.nblk_spec. Qed.

(* non-vacuity: the example history knows 15 LRUs; the page whose last stem has 103
   bytes (two blocks) is found and winds up to itself *)
Example C02_nonvacuous :
  wf_rules [] /\ Forall wf_op exh /\
  length (all_nodes (tr (run Domain [] exh))) = length (a_known (srun Domain [] exh)) /\
  length (a_known (srun Domain [] exh)) = 15%nat /\
  length ex_long = 103%nat /\ nblk ex_long = 2 /\
  match nodeof (run Domain [] exh) ex_pl with
  | Some n => lru_at (addr n) (run Domain [] exh) = ex_pl /\ stem n = ex_long
  | None => False
  end.
Proof.
  split; [exact ex_rules_wf|]. split; [exact exh_wf|]. vm_compute. repeat split; reflexivity.
Qed.

Print Assumptions C02_dfs_known.
Print Assumptions C02_find_known.
Print Assumptions C02_windup.
Print Assumptions C02_addresses.
Print Assumptions C02_stem_roundtrip.
Print Assumptions C02_tblock_roundtrip.
Print Assumptions C02_nblk.
Print Assumptions C02_nonvacuous.

(* ---- the same three access paths at the level of the STORED blocks ---------------
   Store.v follows the pointer registers of lru_trie.dat and reassembles long stems
   from tail blocks, as node.read / lru_node / windup_lru do on the file; on the
   files of every reachable state it agrees with the tree model (StoreFacts*.v,
   restated in Props/C02b.v), so the tree is a faithful abstraction of what is on
   disk.  Pulled into this file so that the check of C02 re-checks them. *)
From Traph Require Props.C02b.
Print Assumptions Props.C02b.C02_block_lookup.
Print Assumptions Props.C02b.C02_block_windup.
Print Assumptions Props.C02b.C02_block_paths_agree.

(* ---- LRU splitting as the SOURCE has it ----------------------------------------------
   lru_iter / lru_dirname translated from traph/helpers.py on every run (GenHelpers2.v)
   are the model's functions, for every byte string (GenHelpers2Facts.v): every theorem
   above that speaks of the stems of an LRU speaks of what the code computes. *)
From Traph Require GenHelpers2 GenHelpers2Facts.
Theorem C02_source_lru_iter : forall l, GenHelpers2.py_lru_iter l = Helpers.lru_iter l.
Proof. exact GenHelpers2Facts.py_lru_iter_eq. Qed.
Theorem C02_source_lru_dirname : forall l, GenHelpers2.py_lru_dirname l = Helpers.lru_dirname l.
Proof. exact GenHelpers2Facts.py_lru_dirname_eq. Qed.
Print Assumptions C02_source_lru_iter.
Print Assumptions C02_source_lru_dirname.

(* ---- reading a stored node as the SOURCE does -----------------------------------------
   LRUTrieNode.read translated from the source (GenNode.v) returns, on the stored blocks
   of any store made of encodable blocks, the main block and the whole stem that the
   block-level reader of Store.v returns (which the theorems above tie to the tree), for
   every number of tail blocks; and what LRUTrieNode.write has appended for a new node is
   read back with the same stem. *)
From Traph Require GenStorage GenNode GenNodeFacts Store TraceDefs.
Import GenStorage GenNode GenNodeFacts.
Theorem C02_source_node_read : forall nd0 sg hdr f i b,
  pm_block_size sg = py_node_block_size ->
  pm_array sg = hdr ++ flat_map encode_tblock (TraceDefs.ft f) -> length hdr = 128%nat ->
  Forall blk_encodable (TraceDefs.ft f) -> nth_error (TraceDefs.ft f) i = Some b ->
  let a := blk_off i in let r := py_node_read nd0 sg a in
  nd_exists (fst r) = true /\ nd_block (fst r) = Some a /\ nd_data (fst r) = tblock_vals b /\
  nd_tail (fst r) = (if blk_has_tail b then tail_of (skipn (S i) (TraceDefs.ft f)) else []) /\
  Store.b_read f a = Some (b, py_node_stem (fst r)) /\
  pm_array (snd r) = pm_array sg /\ pm_block_size (snd r) = pm_block_size sg.
Proof. exact py_node_read_spec. Qed.
Theorem C02_source_write_read_roundtrip : forall nd0 sg hdr f st,
  pm_block_size sg = py_node_block_size -> pm_array sg = hdr ++ flat_map encode_tblock (TraceDefs.ft f) ->
  length hdr = 128%nat -> Forall blk_encodable (TraceDefs.ft f) ->
  let nd := py_node_set_default_data py_node_new (Some st) in
  let sg' := snd (py_node_write nd sg) in
  let a := N.of_nat (length (pm_array sg)) in
  let r := py_node_read nd0 sg' a in
  py_node_stem (fst r) = st /\ nd_exists (fst r) = true /\ nd_block (fst r) = Some a /\
  nd_data (fst r) = nd_data nd /\ nd_tail (fst r) = nd_tail nd.
Proof. exact py_node_write_read_roundtrip. Qed.
Print Assumptions C02_source_node_read.
Print Assumptions C02_source_write_read_roundtrip.

(* ---- the read side of the trie as the source has it (GenTrie.v, regenerated on every run from
   LRUTrie.lru_node / node_parents_iter / windup_lru and the constructor and navigation methods of LRUTrieNode,
   over the translated node reader of GenNode.v and the translated lru_iter of GenHelpers2.v).  For EVERY history,
   on any storage object holding the trie file of the state reached (trep: a 128-byte header followed by the
   encoded blocks, no register overflowing its field):
   C02_source_lru_node_reachable  LRUTrie.lru_node(lru) returns the node object of exactly the node the tree model
                                  finds (same block address, same reassembled stem), and None when the model
                                  finds none;
   C02_source_windup_reachable    LRUTrie.windup_lru(block of the node at path p) returns the concatenation of p;
   C02_source_paths_agree         hence what lru_node finds winds up to the LRU looked for.
   The generated loops never run out of fuel and never raise. *)
From Traph Require GenTrie GenTrieFacts StoreFacts StoreFacts2 TstFacts.
Import GenTrie GenTrieFacts.
Theorem C02_source_lru_node_reachable : forall d rs h, Forall wf_op h ->
  let s := run d rs h in
  forall sg lru, trep (TraceDefs.files_of s) sg -> wf_lru lru ->
  exists sg', trep (TraceDefs.files_of s) sg' /\
    match nodeof s lru with
    | Some n => exists n', py_trie_lru_node sg lru = Some (sg', Some n') /\
                           nd_exists n' = true /\ nd_block n' = Some (addr n) /\ py_node_stem n' = stem n
    | None => py_trie_lru_node sg lru = Some (sg', None)
    end.
Proof.
  intros d rs h Hh s sg lru Hrep Hwf.
  pose proof (StoreFacts2.run_Inv18 d rs h Hh) as Hinv. fold s in Hinv.
  pose proof (StoreFacts2.run_root_first d rs h) as Hroot. fold s in Hroot.
  destruct (py_trie_lru_node_spec s Hinv sg lru Hroot Hrep Hwf) as (sg' & Hrep' & H).
  exists sg'. split; [exact Hrep'|]. unfold nodeof, find.
  destruct (find_sub (lru_iter lru) (tr s)) as [t'|]; [|exact H].
  destruct H as (n' & E & Hn). destruct t' as [|dn l c r]; [destruct Hn|].
  cbn [node_of]. destruct Hn as (H1 & H2 & _ & H4). exists n'. repeat split; assumption.
Qed.
Theorem C02_source_windup_reachable : forall d rs h, Forall wf_op h ->
  let s := run d rs h in
  forall sg p n, trep (TraceDefs.files_of s) sg -> find p (tr s) = Some n ->
  exists sg', py_trie_windup_lru sg (addr n) = Some (sg', concat p) /\ trep (TraceDefs.files_of s) sg'.
Proof.
  intros d rs h Hh s sg p n Hrep Hf.
  exact (py_trie_windup_spec s (StoreFacts2.run_Inv18 d rs h Hh) sg p n Hrep Hf).
Qed.
Theorem C02_source_paths_agree : forall d rs h, Forall wf_op h ->
  let s := run d rs h in
  forall sg lru sg1 n1 a, trep (TraceDefs.files_of s) sg -> wf_lru lru ->
  py_trie_lru_node sg lru = Some (sg1, Some n1) -> nd_block n1 = Some a ->
  exists sg2, py_trie_windup_lru sg1 a = Some (sg2, lru).
Proof.
  intros d rs h Hh s sg lru sg1 n1 a Hrep Hwf E Hb.
  destruct (C02_source_lru_node_reachable d rs h Hh sg lru Hrep Hwf) as (sg' & Hrep' & H). fold s in H, Hrep'.
  destruct (nodeof s lru) as [n|] eqn:En; [|rewrite H in E; discriminate E].
  destruct H as (n' & E' & _ & Hb' & _). rewrite E' in E. injection E as <- <-.
  rewrite Hb' in Hb. injection Hb as <-.
  destruct (C02_source_windup_reachable d rs h Hh sg' (lru_iter lru) n Hrep' En) as (sg2 & E2 & _).
  exists sg2. fold s in E2. rewrite E2, (TstFacts.lru_iter_concat lru Hwf). reflexivity.
Qed.
Print Assumptions C02_source_lru_node_reachable.
Print Assumptions C02_source_windup_reachable.
Print Assumptions C02_source_paths_agree.
