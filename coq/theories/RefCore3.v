(* RefCore3.v — the model refines the specification on Rcore.
   Part 3: the folds (add_pages, add_links, index_batch_crawl). *)
From Coq Require Import List NArith Bool Lia Arith.
Import ListNotations.
From Traph Require Import Bytes Consts Helpers Rules Tst TstDefs Traph Spec Ops RefDefs TstFacts
  ViewFacts ViewFacts2 RefCore.
Open Scope N_scope.

Lemma fold_left_rel : forall (X Y E : Type) (Inv : X -> Y -> Prop) (P : E -> Prop)
    (f : X -> E -> X) (g : Y -> E -> Y) (l : list E) (x : X) (y : Y),
  Forall P l -> (forall e x y, P e -> Inv x y -> Inv (f x e) (g y e)) -> Inv x y ->
  Inv (fold_left f l x) (fold_left g l y).
Proof.
  intros X Y E Inv P f g l x y Hl Hstep. revert x y.
  induction Hl as [|e l He Hl IH]; intros x y H; [exact H|].
  cbn [fold_left]. apply IH. apply Hstep; assumption.
Qed.

Notation created := (list (N * list bytes)).

(* ====================================================================== *)
(* the specification side: fields s_add_page does not touch               *)
(* ====================================================================== *)

Lemma acreate_fields : forall x a,
  a_pages (fst (acreate x a)) = a_pages a /\ a_links (fst (acreate x a)) = a_links a /\
  a_rules (fst (acreate x a)) = a_rules a /\ a_dflt (fst (acreate x a)) = a_dflt a /\
  a_flags (fst (acreate x a)) = a_flags a.
Proof.
  intros x a. unfold acreate. destruct (dedup_bytes _ []); cbn; auto.
Qed.

Lemma s_add_page_fields : forall l cr a,
  a_pages (fst (fst (s_add_page l cr a))) = pages_after l cr (a_pages a) /\
  a_links (fst (fst (s_add_page l cr a))) = a_links a /\
  a_rules (fst (fst (s_add_page l cr a))) = a_rules a /\
  a_dflt (fst (fst (s_add_page l cr a))) = a_dflt a /\
  a_flags (fst (fst (s_add_page l cr a))) = a_flags a.
Proof.
  intros l cr a. unfold s_add_page.
  match goal with |- context [adecide ?A1 l] => set (a1 := A1) end.
  destruct (adecide a1 l) as [|x|]; cbn [fst]; try (cbn; auto; fail).
  pose proof (acreate_fields x a1) as (H1 & H2 & H3 & H4 & H5).
  destruct (acreate x a1) as [a2 c]. cbn [fst] in *. rewrite H1, H2, H3, H4, H5. cbn. auto.
Qed.

Lemma pages_after_keys : forall l cr pages x,
  In x (map fst (pages_after l cr pages)) <-> x = l \/ In x (map fst pages).
Proof.
  intros l cr pages x. unfold pages_after. destruct (aget l pages) as [c|] eqn:E.
  - rewrite In_fst_aset. split; [auto|]. intros [->|H]; [|auto].
    right. apply aget_Some_In in E. apply (in_map fst) in E. exact E.
  - rewrite map_app, in_app_iff. cbn [map fst In]. split; intros [H|H]; auto.
    + destruct H as [H|[]]. auto.
Qed.

(* ====================================================================== *)
(* add_pages                                                              *)
(* ====================================================================== *)

Definition Inv3 (X : traph * N * created) (Y : astate * N * created) : Prop :=
  let '(s, n, c) := X in let '(a, n', c') := Y in Rcore s a /\ n = n' /\ c = c'.

Lemma pages_fold_Rcore : forall ls cr s a n c, Forall wf_lru ls -> Rcore s a ->
  Inv3 (fold_left (fun '(s, n, c) l => let '(s', n', c') := add_page_int l cr s in (s', n + n', c ++ c'))
                  ls (s, n, c))
       (fold_left (fun '(a, n, c) l => let '(a', n', c') := s_add_page l cr a in (a', n + n', c ++ c'))
                  ls (a, n, c)).
Proof.
  intros ls cr s a n c Hls HR.
  apply (fold_left_rel _ _ _ Inv3 wf_lru); [exact Hls| |cbn; auto].
  intros l [[s0 n0] c0] [[a0 n0'] c0'] Hl (H0 & <- & <-).
  pose proof (add_page_int_Rcore l cr s0 a0 Hl H0) as H.
  destruct (add_page_int l cr s0) as [[s' n'] c']. destruct (s_add_page l cr a0) as [[a' n''] c''].
  cbn [fst snd] in H. destruct H as (H1 & -> & ->). cbn. auto.
Qed.

Theorem add_pages_Rcore : forall ls cr s a, Forall wf_lru ls -> Rcore s a ->
  Rcore (fst (add_pages ls cr s)) (fst (rep3 (s_add_pages ls cr a))) /\
  snd (add_pages ls cr s) = snd (rep3 (s_add_pages ls cr a)).
Proof.
  intros ls cr s a Hls HR. unfold add_pages, s_add_pages, rep3.
  pose proof (pages_fold_Rcore ls cr s a 0 [] Hls HR) as H.
  destruct (fold_left _ ls (s, 0, [])) as [[s1 n1] c1].
  destruct (fold_left _ ls (a, 0, [])) as [[a1 n1'] c1'].
  destruct H as (H1 & -> & ->). cbn [fst snd]. auto.
Qed.

(* ====================================================================== *)
(* links: the stores only rewrite list heads and stubs                    *)
(* ====================================================================== *)

Lemma store_links_Rcore : forall out path tg s a, Rcore s a -> Rcore (store_links out path tg s) a.
Proof.
  intros out path tg s a HR. unfold store_links. destruct tg as [|t tg]; [exact HR|].
  destruct (find path (tr s)) as [d|]; [|exact HR].
  destruct (push_stubs (t :: tg) (if out then outh d else inh d) (stubs s)) as [st' h'].
  apply upd_frame_Rcore; try (intro; destruct out; reflexivity). exact HR.
Qed.

Lemma flush_links_Rcore : forall out mm s a, Rcore s a -> Rcore (flush_links out mm s) a.
Proof.
  intros out mm. unfold flush_links. induction mm as [|[p others] mm IH]; intros s a HR; [exact HR|].
  cbn [fold_left]. apply IH. apply store_links_Rcore. exact HR.
Qed.

Lemma add_link_Rcore : forall p s a, Rcore s a -> Rcore s (add_link p a).
Proof. intros p s a HR. unfold add_link. apply Rcore_set_links. exact HR. Qed.

Lemma fold_add_link_Rcore : forall links s a, Rcore s a ->
  Rcore s (fold_left (fun a p => add_link p a) links a).
Proof.
  induction links as [|p links IH]; intros s a HR; [exact HR|].
  cbn [fold_left]. apply IH. apply add_link_Rcore. exact HR.
Qed.

(* ====================================================================== *)
(* "see" one LRU: submit it as a page unless this request already did     *)
(* ====================================================================== *)

Definition seeM (cr : bool) (l : bytes) (st : traph * N * created * list bytes) :=
  let '(s, n, c, seen) := st in
  if mem_bytes l seen then (s, n, c, seen)
  else let '(s', n', c') := add_page_int l cr s in (s', n + n', c ++ c', l :: seen).
Definition seeA (cr : bool) (l : bytes) (st : astate * N * created * list bytes) :=
  let '(a, n, c, seen) := st in
  if mem_bytes l seen then (a, n, c, seen)
  else let '(a', n', c') := s_add_page l cr a in (a', n + n', c ++ c', l :: seen).

(* the LRUs seen so far are pages of the abstract state *)
Definition Inv4 (X : traph * N * created * list bytes) (Y : astate * N * created * list bytes) : Prop :=
  let '(s, n, c, seen) := X in let '(a, n', c', seen') := Y in
  Rcore s a /\ n = n' /\ c = c' /\ seen = seen' /\
  (forall x, In x seen -> In x (map fst (a_pages a))).

Lemma see_Inv4 : forall cr l X Y, wf_lru l -> Inv4 X Y -> Inv4 (seeM cr l X) (seeA cr l Y).
Proof.
  intros cr l [[[s n] c] seen] [[[a n'] c'] seen'] Hl (HR & <- & <- & <- & Hseen).
  unfold seeM, seeA. destruct (mem_bytes l seen); [cbn; auto|].
  pose proof (add_page_int_Rcore l cr s a Hl HR) as H.
  pose proof (s_add_page_fields l cr a) as (Hp & _).
  destruct (add_page_int l cr s) as [[s' n1] c1]. destruct (s_add_page l cr a) as [[a' n1'] c1'].
  cbn [fst snd] in H, Hp. destruct H as (H1 & -> & ->).
  cbn. split; [exact H1|]. repeat (split; [reflexivity|]).
  intros x Hx. rewrite Hp. apply pages_after_keys. destruct Hx as [<-|Hx]; auto.
Qed.

(* ====================================================================== *)
(* add_links                                                              *)
(* ====================================================================== *)

Definition Inv6 (X : traph * N * created * list bytes * list (bytes * list bytes) * list (bytes * list bytes))
                (Y : astate * N * created * list bytes) : Prop :=
  let '(s, n, c, seen, _, _) := X in Inv4 (s, n, c, seen) Y.

Theorem add_links_Rcore : forall links s a,
  Forall (fun p => wf_lru (fst p) /\ wf_lru (snd p)) links -> Rcore s a ->
  Rcore (fst (add_links links s)) (fst (s_add_links links a)) /\
  snd (add_links links s) = snd (s_add_links links a).
Proof.
  intros links s a Hwf HR. unfold add_links, s_add_links. cbv zeta.
  match goal with |- context [fold_left ?F links (s, 0, [], [], [], [])] => set (FM := F) end.
  match goal with |- context [fold_left ?F links (a, 0, [], [])] => set (FA := F) end.
  assert (H : Inv6 (fold_left FM links (s, 0, [], [], [], [])) (fold_left FA links (a, 0, [], []))).
  { apply (fold_left_rel _ _ _ Inv6 (fun p => wf_lru (fst p) /\ wf_lru (snd p))); [exact Hwf| |].
    - intros [x y] [[[[[s0 n0] c0] seen0] outs0] ins0] Y [Hx Hy] HI. cbn [fst snd] in Hx, Hy.
      unfold Inv6 in HI.
      pose proof (see_Inv4 false y _ _ Hy (see_Inv4 false x _ _ Hx HI)) as H2.
      assert (EM : FM (s0, n0, c0, seen0, outs0, ins0) (x, y) =
                   let '(s2, n2, c2, seen2) := seeM false y (seeM false x (s0, n0, c0, seen0)) in
                   (s2, n2, c2, seen2, mm_add x y outs0, mm_add y x ins0)).
      { unfold FM, seeM. destruct (mem_bytes x seen0).
        - reflexivity.
        - destruct (add_page_int x false s0) as [[s' n'] c']. reflexivity. }
      assert (EA : FA Y (x, y) = seeA false y (seeA false x Y)).
      { destruct Y as [[[a0 n0'] c0'] seen0']. reflexivity. }
      rewrite EM, EA.
      destruct (seeM false y (seeM false x (s0, n0, c0, seen0))) as [[[s2 n2] c2] seen2].
      exact H2.
    - cbn. split; [exact HR|]. repeat (split; [reflexivity|]). intros x []. }
  destruct (fold_left FM links (s, 0, [], [], [], [])) as [[[[[s1 n1] c1] seen1] outs1] ins1].
  destruct (fold_left FA links (a, 0, [], [])) as [[[a1 n1'] c1'] seen1'].
  destruct H as (H1 & <- & <- & _). cbn [fst snd]. split; [|reflexivity].
  apply flush_links_Rcore. apply flush_links_Rcore. apply fold_add_link_Rcore. exact H1.
Qed.

(* ====================================================================== *)
(* index_batch_crawl                                                      *)
(* ====================================================================== *)

Definition srcM (src : bytes) (st : traph * N * created * list bytes) :=
  let '(s, n, c, seen) := st in
  if mem_bytes src seen then (updl set_crawled src s, n, c, seen)
  else let '(s', n', c') := add_page_int src true s in (s', n + n', c ++ c', src :: seen).
Definition srcA (src : bytes) (st : astate * N * created * list bytes) :=
  let '(a, n, c, seen) := st in
  if mem_bytes src seen then (mark_crawled src a, n, c, seen)
  else let '(a', n', c') := s_add_page src true a in (a', n + n', c ++ c', src :: seen).

Lemma src_Inv4 : forall src X Y, wf_lru src -> Inv4 X Y -> Inv4 (srcM src X) (srcA src Y).
Proof.
  intros src [[[s n] c] seen] [[[a n'] c'] seen'] Hl HI.
  pose proof (see_Inv4 true src _ _ Hl HI) as Hsee.
  destruct HI as (HR & <- & <- & <- & Hseen).
  unfold srcM, srcA. unfold seeM, seeA in Hsee.
  destruct (mem_bytes src seen) eqn:E; [|exact Hsee].
  apply mem_bytes_In in E. apply Hseen in E.
  apply in_map_iff in E. destruct E as ([k cr] & Ek & Hin). cbn [fst] in Ek. subst k.
  apply (R_pages s a HR src cr Hl) in Hin. destruct Hin as (d & Hd & Hpg & _).
  cbn. split; [apply (set_crawled_Rcore s a src d HR Hl Hd Hpg)|]. repeat (split; [reflexivity|]).
  intros x Hx. apply In_fst_aset. right. apply Hseen. exact Hx.
Qed.

Definition Inv5 (X : traph * N * created * list bytes * list (bytes * list bytes))
                (Y : astate * N * created * list bytes) : Prop :=
  let '(s, n, c, seen, _) := X in Inv4 (s, n, c, seen) Y.

Lemma add_link_Inv4 : forall p s n c seen a n' c' seen',
  Inv4 (s, n, c, seen) (a, n', c', seen') -> Inv4 (s, n, c, seen) (add_link p a, n', c', seen').
Proof.
  intros p s n c seen a n' c' seen' (HR & H1 & H2 & H3 & H4).
  cbn. split; [apply add_link_Rcore; exact HR|]. auto.
Qed.

Lemma store_links_Inv4 : forall out path tg s n c seen Y,
  Inv4 (s, n, c, seen) Y -> Inv4 (store_links out path tg s, n, c, seen) Y.
Proof.
  intros out path tg s n c seen [[[a n'] c'] seen'] (HR & H1 & H2 & H3 & H4).
  cbn. split; [apply store_links_Rcore; exact HR|]. auto.
Qed.

Lemma batch_inner : forall src tgts s n c seen ins Y, Forall wf_lru tgts -> Inv4 (s, n, c, seen) Y ->
  Inv5 (fold_left (fun '(s, n, c, seen, ins) t =>
                     let '(s, n, c, seen) :=
                         if mem_bytes t seen then (s, n, c, seen)
                         else let '(s', n', c') := add_page_int t false s in
                              (s', n + n', c ++ c', t :: seen) in
                     (s, n, c, seen, mm_add t src ins))
                  tgts (s, n, c, seen, ins))
       (fold_left (fun '(a, n, c, seen) t =>
                     let '(a, n, c, seen) :=
                         if mem_bytes t seen then (a, n, c, seen)
                         else let '(a', n', c') := s_add_page t false a in
                              (a', n + n', c ++ c', t :: seen) in
                     (add_link (src, t) a, n, c, seen))
                  tgts Y).
Proof.
  intros src tgts s n c seen ins Y Htg HI.
  apply (fold_left_rel _ _ _ Inv5 wf_lru); [exact Htg| |exact HI].
  intros t [[[[s3 n3] c3] seen3] ins3] [[[a3 n3'] c3'] seen3'] Ht HI3. unfold Inv5 in HI3.
  pose proof (see_Inv4 false t _ _ Ht HI3) as H3. unfold seeM, seeA in H3.
  destruct HI3 as (_ & _ & _ & <- & _).
  destruct (mem_bytes t seen3).
  - unfold Inv5. apply add_link_Inv4. exact H3.
  - destruct (add_page_int t false s3) as [[s4 n4] c4].
    destruct (s_add_page t false a3) as [[a4 n4'] c4'].
    unfold Inv5. apply add_link_Inv4. exact H3.
Qed.

Theorem batch_crawl_Rcore : forall data s a,
  Forall (fun p => wf_lru (fst p) /\ Forall wf_lru (snd p)) data -> Rcore s a ->
  Rcore (fst (batch_crawl data s)) (fst (s_batch data a)) /\
  snd (batch_crawl data s) = snd (s_batch data a).
Proof.
  intros data s a Hwf HR. unfold batch_crawl, s_batch.
  match goal with |- context [fold_left ?F data (s, 0, [], [], [])] => set (FM := F) end.
  match goal with |- context [fold_left ?F data (a, 0, [], [])] => set (FA := F) end.
  assert (H : Inv5 (fold_left FM data (s, 0, [], [], [])) (fold_left FA data (a, 0, [], []))).
  { apply (fold_left_rel _ _ _ Inv5 (fun p => wf_lru (fst p) /\ Forall wf_lru (snd p))); [exact Hwf| |].
    - intros [src tgts] [[[[s0 n0] c0] seen0] ins0] [[[a0 n0'] c0'] seen0'] [Hsrc Htg] HI.
      cbn [fst snd] in Hsrc, Htg. unfold Inv5 in HI.
      pose proof (src_Inv4 src _ _ Hsrc HI) as H1. unfold srcM, srcA, updl in H1.
      destruct HI as (_ & _ & _ & <- & _).
      unfold FM, FA.
      destruct (mem_bytes src seen0).
      + pose proof (batch_inner src tgts _ _ _ _ ins0 _ Htg H1) as H2.
        match type of H2 with Inv5 ?A ?B => destruct A as [[[[s2 n2] c2] seen2] ins2] end.
        unfold Inv5 in *. apply store_links_Inv4. exact H2.
      + destruct (add_page_int src true s0) as [[s1 n1] c1].
        destruct (s_add_page src true a0) as [[a1 n1'] c1'].
        pose proof (batch_inner src tgts _ _ _ _ ins0 _ Htg H1) as H2.
        match type of H2 with Inv5 ?A ?B => destruct A as [[[[s2 n2] c2] seen2] ins2] end.
        unfold Inv5 in *. apply store_links_Inv4. exact H2.
    - cbn. split; [exact HR|]. repeat (split; [reflexivity|]). intros x []. }
  destruct (fold_left FM data (s, 0, [], [], [])) as [[[[s1 n1] c1] seen1] ins1].
  destruct (fold_left FA data (a, 0, [], [])) as [[[a1 n1'] c1'] seen1'].
  destruct H as (H1 & <- & <- & _). cbn [fst snd]. split; [|reflexivity].
  apply flush_links_Rcore. exact H1.
Qed.
