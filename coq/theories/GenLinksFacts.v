(* GenLinksFacts.v — the translated link store (GenLinks.v, generated from
   /repo/traph/link_store/node.py, link_store.py and the `out`-parameterised accessors of LRUTrieNode)
   agrees with the model's stub list:
     LinkStore.add_links             = Traph.push_stubs (+ re-heading and writing the source page)
     LinkStore.link_nodes_iter       = Traph.targets_of            (the chain, newest first)
     LinkStore.weighted_link_nodes_iter = Traph.weighted (targets_of ..)
     LinkStore.deduped_link_nodes_iter  = Traph.deduped  (targets_of ..)
   for every well-formed store (previous pointers point to earlier stubs), every list length,
   every target list.  The fuel of the generated loops always suffices. *)
From Coq Require Import List NArith Bool Lia Arith.
Import ListNotations.
From Traph Require Import Bytes Consts Layout Helpers Rules Tst TstDefs Traph Spec Ops RefDefs Codec CodecFacts
  GenStorage GenNode GenLinks GenNodeFacts.
Open Scope N_scope.

Arguments N.shiftr : simpl never.
Arguments N.shiftl : simpl never.
Arguments N.modulo : simpl never.
Arguments N.div : simpl never.
Arguments N.land : simpl never.
Arguments N.lor : simpl never.
Arguments N.mul : simpl never.
Arguments N.add : simpl never.
Arguments N.sub : simpl never.
Arguments N.ltb : simpl never.
Arguments N.eqb : simpl never.

(* ====================================================================================== *)
(* 1. the store as bytes                                                                  *)
(* ====================================================================================== *)

(* address of stub number k (0-based): one header block, then the stubs *)
Definition saddr (k : nat) : N := ssz * N.of_nat (S k).

Definition lrep (st : list (N * N)) (sg : py_pm) : Prop :=
  pm_block_size sg = py_stub_block_size /\ pm_array sg = encode_link_header ++ flat_map encode_stub st.

Definition fits (x : N) : Prop := x < 2 ^ 64.

(* a well-formed stub list: targets are trie data blocks, previous pointers are 0 or the address of an
   EARLIER stub (lists only grow at their head), everything fits the 8-byte fields *)
Definition stub_ok (k : nat) (s : N * N) : Prop :=
  py_first_data_block <= fst s /\ fits (fst s) /\
  (snd s = 0 \/ exists j, (j < k)%nat /\ snd s = saddr j).
Definition wf_stubs (st : list (N * N)) : Prop :=
  (forall k s, nth_error st k = Some s -> stub_ok k s) /\ fits (saddr (length st)).

Lemma link_header_length : length encode_link_header = 16%nat.
Proof. reflexivity. Qed.

Lemma addr_eq : forall k, saddr k = 16 * (1 + N.of_nat k).
Proof. intro k. unfold saddr, ssz. change py_stub_block_size with 16. lia. Qed.

Lemma addr_mono : forall j k, (j < k)%nat -> saddr j < saddr k.
Proof. intros j k H. rewrite !addr_eq. lia. Qed.

Lemma addr_fits : forall j st, wf_stubs st -> (j <= length st)%nat -> fits (saddr j).
Proof.
  intros j st [_ Hf] Hj. unfold fits in *. rewrite addr_eq in *. lia.
Qed.

Lemma addr_index : forall k, N.to_nat (saddr k / ssz - 1) = k.
Proof.
  intro k. unfold saddr, ssz. change py_stub_block_size with 16.
  rewrite N.mul_comm, N.div_mul by discriminate. lia.
Qed.

Lemma addr_nonzero : forall k, (saddr k =? 0) = false.
Proof. intro k. apply N.eqb_neq. rewrite addr_eq. lia. Qed.

Lemma skipn_stubs : forall j st,
  skipn (16 * j) (flat_map encode_stub st) = flat_map encode_stub (skipn j st).
Proof.
  induction j as [|j IH]; intro st.
  - reflexivity.
  - destruct st as [|b r].
    + cbn [flat_map skipn]. apply skipn_nil.
    + cbn [flat_map]. rewrite skipn_app.
      rewrite skipn_all2 by (rewrite encode_stub_length; lia).
      rewrite encode_stub_length. cbn [app skipn].
      replace (16 * S j - 16)%nat with (16 * j)%nat by lia. apply IH.
Qed.

Lemma nth_error_skipn_hd' : forall (A : Type) j (l : list A), nth_error l j = hd_error (skipn j l).
Proof.
  intros A; induction j as [|j IH]; intro l; destruct l as [|x l]; try reflexivity.
  apply (IH l).
Qed.

Lemma slice_stub : forall st j,
  GenStorage.py_slice (saddr j) (saddr j + py_stub_block_size) (encode_link_header ++ flat_map encode_stub st) =
  match nth_error st j with Some s => encode_stub s | None => [] end.
Proof.
  intros st j. unfold GenStorage.py_slice. rewrite addr_eq. change py_stub_block_size with 16.
  replace (N.to_nat (16 * (1 + N.of_nat j) + 16 - 16 * (1 + N.of_nat j))) with 16%nat by lia.
  replace (N.to_nat (16 * (1 + N.of_nat j))) with (16 + 16 * j)%nat by lia.
  rewrite skipn_app, skipn_all2 by (rewrite link_header_length; lia).
  rewrite link_header_length. cbn [app].
  replace (16 + 16 * j - 16)%nat with (16 * j)%nat by lia.
  rewrite skipn_stubs, nth_error_skipn_hd'.
  destruct (skipn j st) as [|b r]; cbn [hd_error flat_map].
  - apply firstn_nil.
  - rewrite firstn_app, encode_stub_length, Nat.sub_diag, firstn_O, app_nil_r.
    apply firstn_all2. rewrite encode_stub_length. lia.
Qed.

Lemma encode_stub_nonempty : forall s, py_or_none (encode_stub s) = Some (encode_stub s).
Proof.
  intro s. pose proof (encode_stub_length s) as H.
  destruct (encode_stub s); [discriminate H|reflexivity].
Qed.

(* reading never changes the content *)
Lemma pm_read_stub : forall sg st j,
  lrep st sg ->
  py_pm_read sg (Some (saddr j)) =
  (mk_pm py_stub_block_size (pm_array sg) (saddr j + py_stub_block_size),
   match nth_error st j with Some s => Some (encode_stub s) | None => None end).
Proof.
  intros sg st j [Hbs Harr]. unfold py_pm_read.
  cbn [pm_block_size pm_array pm_cursor]. rewrite Hbs. f_equal.
  rewrite Harr, slice_stub.
  destruct (nth_error st j); [apply encode_stub_nonempty|reflexivity].
Qed.

Lemma lrep_read : forall st sg a, lrep st sg -> lrep st (mk_pm py_stub_block_size (pm_array sg) a).
Proof. intros st sg a [Hbs Harr]. split; [reflexivity|exact Harr]. Qed.

Lemma unpack_stub : forall t p, fits t -> fits p ->
  unpack stub_format (encode_stub (t, p)) = [VNum t; VNum p].
Proof.
  intros t p Ht Hp. rewrite encode_stub_eq. unfold stub_bytes, unpack.
  rewrite stub_fields_eq, stub_layout_eq. cbn [fst snd map fsize]. unfold slice.
  change (N.to_nat 8) with 8%nat. change (N.to_nat 0) with 0%nat.
  peel. cbn [dec_item].
  rewrite !le_roundtrip by assumption. reflexivity.
Qed.

Lemma pack_stub : forall t p, pack stub_format [VNum t; VNum p] = encode_stub (t, p).
Proof. intros t p. reflexivity. Qed.

(* appending one stub *)
Lemma pm_append_stub : forall sg st s,
  lrep st sg ->
  py_pm_write sg (encode_stub s) None =
  (mk_pm py_stub_block_size (pm_array sg ++ encode_stub s) (saddr (S (length st))), saddr (length st)) /\
  lrep (st ++ [s]) (fst (py_pm_write sg (encode_stub s) None)).
Proof.
  intros sg st s [Hbs Harr].
  assert (Hlen : N.of_nat (length (pm_array sg)) = saddr (length st)).
  { rewrite Harr, app_length, link_header_length, addr_eq.
    assert (forall l, length (flat_map encode_stub l) = (16 * length l)%nat) as Hl.
    { induction l as [|x l IH]; [reflexivity|].
      cbn [flat_map]. rewrite app_length, encode_stub_length, IH. cbn [length]. lia. }
    rewrite Hl. lia. }
  assert (E : py_pm_write sg (encode_stub s) None =
              (mk_pm py_stub_block_size (pm_array sg ++ encode_stub s) (saddr (S (length st))), saddr (length st))).
  { unfold py_pm_write. cbn [pm_block_size pm_array pm_cursor]. rewrite Hbs.
    rewrite app_length, encode_stub_length.
    replace (N.of_nat (length (pm_array sg) + 16)) with (N.of_nat (length (pm_array sg)) + 16) by lia.
    rewrite Hlen. change py_stub_block_size with 16. rewrite !addr_eq.
    f_equal; [f_equal|]; lia. }
  split; [exact E|].
  rewrite E. cbn [fst]. split; [reflexivity|].
  cbn [pm_array]. rewrite Harr, flat_map_app. cbn [flat_map]. rewrite app_nil_r, app_assoc. reflexivity.
Qed.

(* ====================================================================================== *)
(* 2. LinkStoreNode                                                                       *)
(* ====================================================================================== *)

Definition node_at (k : nat) (s : N * N) : py_lnode := mk_ln (Some (saddr k)) true [VNum (fst s); VNum (snd s)].

(* read(block) of an existing stub *)
Lemma lnode_read_at : forall nd sg st k s,
  lrep st sg -> nth_error st k = Some s -> fits (fst s) -> fits (snd s) ->
  py_lnode_read nd sg (Some (saddr k)) =
  (node_at k s, mk_pm py_stub_block_size (pm_array sg) (saddr k + py_stub_block_size)).
Proof.
  intros nd sg st k [t p] Hrep Hn Ht Hp. unfold py_lnode_read.
  rewrite (pm_read_stub sg st k Hrep), Hn.
  unfold py_lnode_unpack. rewrite unpack_stub by assumption.
  destruct nd as [b e d]. reflexivity.
Qed.

(* read(block) past the end: the node does not exist *)
Lemma lnode_read_absent : forall nd sg st k,
  lrep st sg -> nth_error st k = None ->
  ln_exists (fst (py_lnode_read nd sg (Some (saddr k)))) = false.
Proof.
  intros nd sg st k Hrep Hn. unfold py_lnode_read.
  rewrite (pm_read_stub sg st k Hrep), Hn. destruct nd as [b e d]. reflexivity.
Qed.

Lemma lnode_init_at : forall sg st k s,
  lrep st sg -> nth_error st k = Some s -> fits (fst s) -> fits (snd s) ->
  py_lnode_init sg (Some (saddr k)) None =
  (node_at k s, mk_pm py_stub_block_size (pm_array sg) (saddr k + py_stub_block_size)).
Proof.
  intros sg st k s Hrep Hn Ht Hp. unfold py_lnode_init.
  cbn [ln_set_block ln_set_exists ln_block ln_exists ln_data].
  rewrite (lnode_read_at _ sg st k s Hrep Hn Ht Hp). reflexivity.
Qed.

Lemma node_at_target : forall k s, py_first_data_block <= fst s -> py_lnode_target (node_at k s) = Some (fst s).
Proof.
  intros k [t p] H. unfold py_lnode_target, node_at. cbn [ln_data fst snd].
  change (py_get_num spos_target [VNum t; VNum p]) with t.
  destruct (N.ltb_spec t py_first_data_block); [cbn [fst] in H; lia|reflexivity].
Qed.

Lemma node_at_has_previous : forall k s, py_lnode_has_previous (node_at k s) = negb (snd s =? 0).
Proof. intros k [t p]. reflexivity. Qed.

Lemma node_at_previous : forall k s j, snd s = saddr j -> py_lnode_previous (node_at k s) = Some (saddr j).
Proof.
  intros k [t p] j H. cbn [snd] in H. subst p. unfold py_lnode_previous, node_at. cbn [ln_data fst snd].
  change (py_get_num spos_previous [VNum t; VNum (saddr j)]) with (saddr j).
  destruct (N.ltb_spec (saddr j) py_link_first_data_block) as [Hlt|]; [|reflexivity].
  rewrite addr_eq in Hlt. change py_link_first_data_block with 16 in Hlt. lia.
Qed.

(* read_previous of a stub whose previous pointer names stub j *)
Lemma lnode_read_previous_at : forall sg st k s j s',
  lrep st sg -> snd s = saddr j -> nth_error st j = Some s' -> fits (fst s') -> fits (snd s') ->
  py_lnode_read_previous (node_at k s) sg =
  Some (node_at j s', mk_pm py_stub_block_size (pm_array sg) (saddr j + py_stub_block_size)).
Proof.
  intros sg st k s j s' Hrep Hp Hn Ht' Hp'. unfold py_lnode_read_previous.
  rewrite node_at_has_previous, Hp, addr_nonzero. cbn [negb].
  rewrite (node_at_previous k s j Hp).
  rewrite (lnode_read_at _ sg st j s' Hrep Hn Ht' Hp'). reflexivity.
Qed.

(* ====================================================================================== *)
(* 3. the three traversals                                                                *)
(* ====================================================================================== *)

(* the nodes a traversal reads after `node`, following the previous pointers *)
Fixpoint rest_nodes (fuel : nat) (sg : py_pm) (node : py_lnode) : option (list py_lnode) :=
  match fuel with
  | O => Some []
  | S f =>
      if py_lnode_has_previous node
      then match py_lnode_read_previous node sg with
           | None => None
           | Some (n', sg') => option_map (cons n') (rest_nodes f sg' n')
           end
      else Some []
  end.

(* -- the generated loops, restated (checked by reflexivity below) -- *)
Definition loop1 :=
  fix py_loop (fuel : nat) (st : (py_pm * py_lnode * list (py_lnode))) {struct fuel} : option (py_pm * py_lnode * list (py_lnode)) :=
  match fuel with
  | O => Some st
  | S fuel' =>
    let '(sg, v_node, v__out) := st in
    if (py_lnode_has_previous v_node)
    then (match py_lnode_read_previous v_node sg with
          | None => None
          | Some (v_node, sg) => (let v__out := v__out ++ [v_node] in (py_loop fuel' (sg, v_node, v__out))) end)
    else Some st
  end.

Lemma link_nodes_iter_eq : forall sg b,
  py_ls_link_nodes_iter sg b =
  (let '(n, sg) := py_lnode_init sg (Some b) None in
   if negb (ln_exists n) then None
   else match loop1 (S (length (pm_array sg))) (sg, n, [n]) with
        | None => None
        | Some (_, _, out) => Some out
        end).
Proof. reflexivity. Qed.

Definition loop2 :=
  fix py_loop (fuel : nat) (st : (py_pm * py_lnode * list (option N * N))) {struct fuel} : option (py_pm * py_lnode * list (option N * N)) :=
  match fuel with
  | O => Some st
  | S fuel' =>
    let '(sg, v_node, v_weights) := st in
    if (py_lnode_has_previous v_node)
    then (match py_lnode_read_previous v_node sg with
          | None => None
          | Some (v_node, sg) => (let v_weights := py_counter_add (py_lnode_target v_node) 1%N v_weights in
                                  (py_loop fuel' (sg, v_node, v_weights))) end)
    else Some st
  end.

Lemma weighted_iter_eq : forall sg b,
  py_ls_weighted_link_nodes_iter sg b =
  (let '(n, sg) := py_lnode_init sg (Some b) None in
   if negb (ln_exists n) then None
   else match loop2 (S (length (pm_array sg))) (sg, n, py_counter_set (py_lnode_target n) 1 []) with
        | None => None
        | Some (_, _, w) => Some w
        end).
Proof. reflexivity. Qed.

Definition loop3 :=
  fix py_loop (fuel : nat) (st : (py_pm * list (option N) * py_lnode * option N * list (option N))) {struct fuel}
    : option (py_pm * list (option N) * py_lnode * option N * list (option N)) :=
  match fuel with
  | O => Some st
  | S fuel' =>
    let '(sg, v_already_seen, v_node, v_target, v__out) := st in
    if (py_lnode_has_previous v_node)
    then (match py_lnode_read_previous v_node sg with
          | None => None
          | Some (v_node, sg) =>
              (let v_len_before := (N.of_nat (length v_already_seen)) in
               (let v_target := (py_lnode_target v_node) in
                (let v_already_seen := py_set_add v_target v_already_seen in
                 (if (N.ltb v_len_before (N.of_nat (length v_already_seen)))
                  then (let v__out := v__out ++ [v_target] in
                        (py_loop fuel' (sg, v_already_seen, v_node, v_target, v__out)))
                  else (py_loop fuel' (sg, v_already_seen, v_node, v_target, v__out)))))) end)
    else Some st
  end.

Lemma deduped_iter_eq : forall sg b,
  py_ls_deduped_link_nodes_iter sg b =
  (let '(n, sg) := py_lnode_init sg (Some b) None in
   if negb (ln_exists n) then None
   else match loop3 (S (length (pm_array sg)))
                    (sg, py_set_add (py_lnode_target n) [], n, py_lnode_target n, [py_lnode_target n]) with
        | None => None
        | Some (_, _, _, _, out) => Some out
        end).
Proof. reflexivity. Qed.

(* -- each loop is a fold over the nodes read (no hypothesis on the store) -- *)
Lemma loop1_rest : forall fuel sg node acc,
  option_map (fun x => snd x) (loop1 fuel (sg, node, acc)) =
  option_map (fun l => acc ++ l) (rest_nodes fuel sg node).
Proof.
  induction fuel as [|f IH]; intros sg node acc.
  - cbn. rewrite app_nil_r. reflexivity.
  - cbn [loop1 rest_nodes]. fold loop1.
    destruct (py_lnode_has_previous node).
    + destruct (py_lnode_read_previous node sg) as [[n' sg']|]; [|reflexivity].
      rewrite IH. destruct (rest_nodes f sg' n') as [l|]; cbn [option_map]; [|reflexivity].
      rewrite <- app_assoc. reflexivity.
    + cbn. rewrite app_nil_r. reflexivity.
Qed.

Definition wstep (w : list (option N * N)) (n : py_lnode) := py_counter_add (py_lnode_target n) 1 w.

Lemma loop2_rest : forall fuel sg node w,
  option_map (fun x => snd x) (loop2 fuel (sg, node, w)) =
  option_map (fun l => fold_left wstep l w) (rest_nodes fuel sg node).
Proof.
  induction fuel as [|f IH]; intros sg node w.
  - reflexivity.
  - cbn [loop2 rest_nodes]. fold loop2.
    destruct (py_lnode_has_previous node).
    + destruct (py_lnode_read_previous node sg) as [[n' sg']|]; [|reflexivity].
      rewrite IH. destruct (rest_nodes f sg' n') as [l|]; reflexivity.
    + reflexivity.
Qed.

Definition dstep (so : list (option N) * list (option N)) (n : py_lnode) : list (option N) * list (option N) :=
  let '(seen, out) := so in
  let tg := py_lnode_target n in
  let seen' := py_set_add tg seen in
  if N.ltb (N.of_nat (length seen)) (N.of_nat (length seen')) then (seen', out ++ [tg]) else (seen', out).

Lemma loop3_rest : forall fuel sg node seen tg out,
  option_map (fun x => let '(_, s, _, _, o) := x in (s, o)) (loop3 fuel (sg, seen, node, tg, out)) =
  option_map (fun l => fold_left dstep l (seen, out)) (rest_nodes fuel sg node).
Proof.
  induction fuel as [|f IH]; intros sg node seen tg out.
  - reflexivity.
  - cbn [loop3 rest_nodes]. fold loop3.
    destruct (py_lnode_has_previous node).
    + destruct (py_lnode_read_previous node sg) as [[n' sg']|]; [|reflexivity].
      cbv zeta.
      assert (D : dstep (seen, out) n' =
                  if N.ltb (N.of_nat (length seen)) (N.of_nat (length (py_set_add (py_lnode_target n') seen)))
                  then (py_set_add (py_lnode_target n') seen, out ++ [py_lnode_target n'])
                  else (py_set_add (py_lnode_target n') seen, out)) by reflexivity.
      destruct (N.ltb (N.of_nat (length seen)) (N.of_nat (length (py_set_add (py_lnode_target n') seen)))) eqn:E;
        rewrite IH; destruct (rest_nodes f sg' n') as [l|]; cbn [option_map fold_left]; rewrite ?D; reflexivity.
    + reflexivity.
Qed.

(* -- the nodes read on a well-formed store are the model's chain -- *)
Fixpoint chain_ix (fuel : nat) (st : list (N * N)) (h : N) : list (nat * (N * N)) :=
  match fuel with
  | O => []
  | S f =>
      if h =? 0 then []
      else match nth_error st (N.to_nat (h / ssz - 1)) with
           | Some s => (N.to_nat (h / ssz - 1), s) :: chain_ix f st (snd s)
           | None => []
           end
  end.

Lemma chain_ix_chain : forall fuel st h, map (fun x => fst (snd x)) (chain_ix fuel st h) = chain fuel st h.
Proof.
  induction fuel as [|f IH]; intros st h; [reflexivity|].
  cbn [chain_ix chain]. destruct (h =? 0); [reflexivity|].
  destruct (nth_error st (N.to_nat (h / ssz - 1))) as [[t p]|]; [|reflexivity].
  cbn [map fst snd]. rewrite IH. reflexivity.
Qed.

Lemma rest_nodes_chain : forall st, wf_stubs st -> forall k s sg F f,
  lrep st sg -> nth_error st k = Some s -> (k < F)%nat -> (k <= f)%nat ->
  rest_nodes F sg (node_at k s) = Some (map (fun x => node_at (fst x) (snd x)) (chain_ix f st (snd s))).
Proof.
  intros st Hok k. induction k as [k IHk] using lt_wf_ind.
  intros s sg F f Hrep Hn HF Hf.
  destruct F as [|F']; [lia|]. cbn [rest_nodes].
  rewrite node_at_has_previous.
  destruct (proj1 Hok k s Hn) as (_ & _ & Hp).
  destruct Hp as [Hz|(j & Hj & Hp)].
  - rewrite Hz. cbn [N.eqb negb]. change (0 =? 0) with true. cbn [negb].
    destruct f; cbn [chain_ix]; [reflexivity|]. change (0 =? 0) with true. reflexivity.
  - rewrite Hp, addr_nonzero. cbn [negb].
    assert (Hjl : (j < length st)%nat).
    { assert (k < length st)%nat by (apply nth_error_Some; congruence). lia. }
    destruct (nth_error st j) as [s'|] eqn:Hnj; [|apply nth_error_None in Hnj; lia].
    destruct (proj1 Hok j s' Hnj) as (_ & Hft & Hp').
    assert (Hfp : fits (snd s')).
    { destruct Hp' as [Hz|(i & Hi & Hpi)]; [rewrite Hz; reflexivity|].
      rewrite Hpi. apply (addr_fits i st Hok). lia. }
    rewrite (lnode_read_previous_at sg st k s j s' Hrep Hp Hnj Hft Hfp).
    destruct f as [|f']; [lia|].
    cbn [chain_ix]. rewrite addr_nonzero, addr_index, Hnj. cbn [map fst snd].
    rewrite (IHk j Hj s' _ F' f'); [reflexivity| |exact Hnj|lia|lia].
    apply lrep_read. exact Hrep.
Qed.

Lemma store_bytes : forall st sg, lrep st sg -> length (pm_array sg) = (16 + 16 * length st)%nat.
Proof.
  intros st sg [_ Harr]. rewrite Harr, app_length, link_header_length.
  assert (H : length (flat_map encode_stub st) = (16 * length st)%nat).
  { clear Harr. induction st as [|x l IH]; [reflexivity|].
    cbn [flat_map]. rewrite app_length, encode_stub_length, IH. cbn [length]. lia. }
  rewrite H. reflexivity.
Qed.

Lemma targets_of_addr : forall st k s, nth_error st k = Some s ->
  targets_of st (saddr k) = fst s :: chain (length st) st (snd s).
Proof.
  intros st k [t p] Hn. unfold targets_of. cbn [chain].
  rewrite addr_nonzero, addr_index, Hn. reflexivity.
Qed.

Definition nodes_of (st : list (N * N)) (k : nat) (s : N * N) : list py_lnode :=
  node_at k s :: map (fun x => node_at (fst x) (snd x)) (chain_ix (length st) st (snd s)).

Lemma chain_ix_ok : forall st, wf_stubs st -> forall fuel h x, In x (chain_ix fuel st h) ->
  nth_error st (fst x) = Some (snd x).
Proof.
  intros st Hok. induction fuel as [|f IH]; intros h x Hin; [destruct Hin|].
  cbn [chain_ix] in Hin. destruct (h =? 0); [destruct Hin|].
  destruct (nth_error st (N.to_nat (h / ssz - 1))) as [s|] eqn:E; [|destruct Hin].
  destruct Hin as [<-|Hin]; [exact E|]. apply (IH _ _ Hin).
Qed.

Lemma nodes_of_targets : forall st, wf_stubs st -> forall k s, nth_error st k = Some s ->
  map py_lnode_target (nodes_of st k s) = map Some (targets_of st (saddr k)).
Proof.
  intros st Hok k s Hn. unfold nodes_of. rewrite (targets_of_addr st k s Hn).
  cbn [map]. rewrite node_at_target by (apply (proj1 Hok k s Hn)). f_equal.
  rewrite <- chain_ix_chain, !map_map. apply map_ext_in.
  intros x Hin. apply node_at_target.
  apply (proj1 Hok (fst x) (snd x)). apply (chain_ix_ok st Hok _ _ _ Hin).
Qed.

(* ---- link_nodes_iter ---- *)
Theorem py_ls_link_nodes_iter_spec : forall st sg k s,
  wf_stubs st -> lrep st sg -> nth_error st k = Some s ->
  py_ls_link_nodes_iter sg (saddr k) = Some (nodes_of st k s) /\
  map py_lnode_target (nodes_of st k s) = map Some (targets_of st (saddr k)).
Proof.
  intros st sg k s Hok Hrep Hn. split; [|apply nodes_of_targets; assumption].
  destruct (proj1 Hok k s Hn) as (_ & Hft & Hp).
  assert (Hfp : fits (snd s)).
  { destruct Hp as [Hz|(i & Hi & Hpi)]; [rewrite Hz; reflexivity|].
    rewrite Hpi. apply (addr_fits i st Hok).
    assert (k < length st)%nat by (apply nth_error_Some; congruence). lia. }
  rewrite link_nodes_iter_eq, (lnode_init_at sg st k s Hrep Hn Hft Hfp).
  cbn [node_at ln_exists negb]. fold (node_at k s).
  set (sg' := mk_pm py_stub_block_size (pm_array sg) (saddr k + py_stub_block_size)).
  assert (Hrep' : lrep st sg') by (apply lrep_read; exact Hrep).
  pose proof (loop1_rest (S (length (pm_array sg'))) sg' (node_at k s) [node_at k s]) as HL.
  rewrite (rest_nodes_chain st Hok k s sg' _ (length st) Hrep' Hn) in HL.
  - destruct (loop1 (S (length (pm_array sg'))) (sg', node_at k s, [node_at k s])) as [[[a b] c]|];
      cbn [option_map snd] in HL; [|discriminate HL].
    injection HL as ->. reflexivity.
  - rewrite (store_bytes st sg' Hrep').
    assert (k < length st)%nat by (apply nth_error_Some; congruence). lia.
  - assert (k < length st)%nat by (apply nth_error_Some; congruence). lia.
Qed.

(* ---- weighted_link_nodes_iter ---- *)
Definition lift (x : N * N) : option N * N := (Some (fst x), snd x).

Lemma counter_add_lift : forall t c, py_counter_add (Some t) 1 (map lift c) = map lift (incr t c).
Proof.
  intros t c. induction c as [|[y n] c IH]; [reflexivity|].
  cbn [map lift fst snd py_counter_add incr oN_eqb].
  destruct (t =? y); cbn [map lift fst snd]; [reflexivity|]. rewrite <- IH. reflexivity.
Qed.

Lemma fold_wstep_lift : forall nodes ts c, map py_lnode_target nodes = map Some ts ->
  fold_left wstep nodes (map lift c) = map lift (fold_left (fun acc x => incr x acc) ts c).
Proof.
  induction nodes as [|n nodes IH]; intros ts c H; destruct ts as [|t ts]; try discriminate H; [reflexivity|].
  cbn [map] in H. injection H as Ht Hr. cbn [fold_left]. unfold wstep at 2. rewrite Ht, counter_add_lift.
  apply IH. exact Hr.
Qed.

Theorem py_ls_weighted_spec : forall st sg k s,
  wf_stubs st -> lrep st sg -> nth_error st k = Some s ->
  py_ls_weighted_link_nodes_iter sg (saddr k) = Some (map lift (weighted (targets_of st (saddr k)))).
Proof.
  intros st sg k s Hok Hrep Hn.
  destruct (proj1 Hok k s Hn) as (Hlo & Hft & Hp).
  assert (Hk : (k < length st)%nat) by (apply nth_error_Some; congruence).
  assert (Hfp : fits (snd s)).
  { destruct Hp as [Hz|(i & Hi & Hpi)]; [rewrite Hz; reflexivity|].
    rewrite Hpi. apply (addr_fits i st Hok). lia. }
  rewrite weighted_iter_eq, (lnode_init_at sg st k s Hrep Hn Hft Hfp).
  cbn [node_at ln_exists negb]. fold (node_at k s).
  set (sg' := mk_pm py_stub_block_size (pm_array sg) (saddr k + py_stub_block_size)).
  assert (Hrep' : lrep st sg') by (apply lrep_read; exact Hrep).
  rewrite (node_at_target k s Hlo).
  pose proof (loop2_rest (S (length (pm_array sg'))) sg' (node_at k s) (py_counter_set (Some (fst s)) 1 [])) as HL.
  rewrite (rest_nodes_chain st Hok k s sg' _ (length st) Hrep' Hn) in HL;
    [|rewrite (store_bytes st sg' Hrep'); lia|lia].
  destruct (loop2 (S (length (pm_array sg'))) (sg', node_at k s, py_counter_set (Some (fst s)) 1 [])) as [[[a b] c]|];
    cbn [option_map snd] in HL; [|discriminate HL].
  injection HL as ->. f_equal.
  pose proof (nodes_of_targets st Hok k s Hn) as HT. unfold nodes_of in HT.
  rewrite (targets_of_addr st k s Hn) in HT |- *. cbn [map] in HT. injection HT as _ HT.
  unfold weighted. cbn [fold_left].
  exact (fold_wstep_lift _ _ (incr (fst s) []) HT).
Qed.

(* ---- deduped_link_nodes_iter ---- *)
Lemma existsb_lift : forall t acc, existsb (oN_eqb (Some t)) (map Some acc) = memN t acc.
Proof.
  intros t acc. unfold memN. induction acc as [|y acc IH]; [reflexivity|].
  cbn [map existsb oN_eqb]. rewrite IH. reflexivity.
Qed.

Lemma dstep_lift : forall n t acc, py_lnode_target n = Some t ->
  dstep (map Some acc, map Some acc) n =
  (map Some (if memN t acc then acc else acc ++ [t]), map Some (if memN t acc then acc else acc ++ [t])).
Proof.
  intros n t acc Ht. unfold dstep. rewrite Ht. unfold py_set_add. rewrite existsb_lift.
  destruct (memN t acc).
  - rewrite N.ltb_irrefl. reflexivity.
  - rewrite app_length, !map_length. cbn [length].
    destruct (N.ltb_spec (N.of_nat (length acc)) (N.of_nat (length acc + 1))); [|lia].
    rewrite map_app. reflexivity.
Qed.

Lemma fold_dstep_lift : forall nodes ts acc, map py_lnode_target nodes = map Some ts ->
  fold_left dstep nodes (map Some acc, map Some acc) =
  (map Some (fold_left (fun acc x => if memN x acc then acc else acc ++ [x]) ts acc),
   map Some (fold_left (fun acc x => if memN x acc then acc else acc ++ [x]) ts acc)).
Proof.
  induction nodes as [|n nodes IH]; intros ts acc H; destruct ts as [|t ts]; try discriminate H; [reflexivity|].
  cbn [map] in H. injection H as Ht Hr. cbn [fold_left]. rewrite (dstep_lift n t acc Ht).
  apply IH. exact Hr.
Qed.

Theorem py_ls_deduped_spec : forall st sg k s,
  wf_stubs st -> lrep st sg -> nth_error st k = Some s ->
  py_ls_deduped_link_nodes_iter sg (saddr k) = Some (map Some (deduped (targets_of st (saddr k)))).
Proof.
  intros st sg k s Hok Hrep Hn.
  destruct (proj1 Hok k s Hn) as (Hlo & Hft & Hp).
  assert (Hk : (k < length st)%nat) by (apply nth_error_Some; congruence).
  assert (Hfp : fits (snd s)).
  { destruct Hp as [Hz|(i & Hi & Hpi)]; [rewrite Hz; reflexivity|].
    rewrite Hpi. apply (addr_fits i st Hok). lia. }
  rewrite deduped_iter_eq, (lnode_init_at sg st k s Hrep Hn Hft Hfp).
  cbn [node_at ln_exists negb]. fold (node_at k s).
  set (sg' := mk_pm py_stub_block_size (pm_array sg) (saddr k + py_stub_block_size)).
  assert (Hrep' : lrep st sg') by (apply lrep_read; exact Hrep).
  rewrite (node_at_target k s Hlo).
  pose proof (loop3_rest (S (length (pm_array sg'))) sg' (node_at k s) (py_set_add (Some (fst s)) [])
                         (Some (fst s)) [Some (fst s)]) as HL.
  rewrite (rest_nodes_chain st Hok k s sg' _ (length st) Hrep' Hn) in HL;
    [|rewrite (store_bytes st sg' Hrep'); lia|lia].
  destruct (loop3 (S (length (pm_array sg'))) (sg', py_set_add (Some (fst s)) [], node_at k s, Some (fst s), [Some (fst s)]))
    as [[[[[a b] c] d] e]|]; cbn [option_map] in HL; [|discriminate HL].
  injection HL as HL. f_equal.
  pose proof (nodes_of_targets st Hok k s Hn) as HT. unfold nodes_of in HT.
  rewrite (targets_of_addr st k s Hn) in HT |- *. cbn [map] in HT. injection HT as _ HT.
  change (py_set_add (Some (fst s)) []) with (map Some [fst s]) in HL.
  change [Some (fst s)] with (map Some [fst s]) in HL.
  rewrite (fold_dstep_lift _ _ [fst s] HT) in HL. injection HL as _ ->.
  unfold deduped. cbn [fold_left memN existsb app]. reflexivity.
Qed.

(* ====================================================================================== *)
(* 4. LinkStore.add_links                                                                 *)
(* ====================================================================================== *)

Definition al_step (st : option (py_pm * bool * option py_lnode)) (v_target_block : N) :=
 match st with
 | None => None
 | Some (sg, v_empty, v_tail_node) => (let v_empty := false in
 (let '(v__n, sg) := py_lnode_init sg None None in
 let v_link_node := v__n in
 (match py_lnode_set_target v_link_node v_target_block with
 | None => None
 | Some v_link_node => (match v_tail_node with
 | None => (let '(v_link_node, sg) := py_lnode_write v_link_node sg in
 (let v_tail_node := (Some v_link_node) in
 Some (sg, v_empty, v_tail_node)))
 | Some v_tail_node => (match (ln_block v_tail_node) with
 | None => None
 | Some v__x => (match py_lnode_set_previous v_link_node v__x with
 | None => None
 | Some v_link_node => (let '(v_link_node, sg) := py_lnode_write v_link_node sg in
 (let v_tail_node := (Some v_link_node) in
 Some (sg, v_empty, v_tail_node))) end) end) end) end))) end.

Lemma add_links_eq : forall src sgt sg targets out,
  py_ls_add_links src sgt sg targets out =
  (let '(sg, tail) := (if py_node_has_links src out
                       then (let '(n, sg) := py_lnode_init sg (Some (py_node_links src out)) None in (sg, Some n))
                       else (sg, None)) in
   match fold_left al_step targets (Some (sg, true, tail)) with
   | None => None
   | Some (sg, empty, tail) =>
       if negb empty
       then match tail with
            | None => None
            | Some t => match ln_block t with
                        | None => None
                        | Some x => let src := py_node_set_links src x out in
                                    let '(src, sgt) := py_node_write src sgt in Some (src, sgt, sg)
                        end
            end
       else Some (src, sgt, sg)
   end).
Proof. reflexivity. Qed.

Definition target_ok (t : N) : Prop := py_first_data_block <= t.

(* the tail node the loop carries: absent while the list is empty, else a node whose block is the list head *)
Definition tail_for (prev : N) (tail : option py_lnode) : Prop :=
  (prev = 0 /\ tail = None) \/ (py_link_first_data_block <= prev /\ exists n, tail = Some n /\ ln_block n = Some prev).

Lemma al_step_spec : forall st sg empty prev tail t,
  lrep st sg -> target_ok t -> tail_for prev tail ->
  exists sg' n, al_step (Some (sg, empty, tail)) t = Some (sg', false, Some n) /\
                lrep (st ++ [(t, prev)]) sg' /\ ln_block n = Some (saddr (length st)).
Proof.
  intros st sg empty prev tail t Hrep Ht Htail. unfold al_step.
  assert (Hinit : py_lnode_init sg None None = (mk_ln None false [VNum 0; VNum 0], sg)) by reflexivity.
  rewrite Hinit.
  assert (Hset : py_lnode_set_target (mk_ln None false [VNum 0; VNum 0]) t = Some (mk_ln None false [VNum t; VNum 0])).
  { unfold py_lnode_set_target. unfold target_ok in Ht.
    destruct (N.ltb_spec t py_first_data_block); [lia|reflexivity]. }
  rewrite Hset.
  destruct Htail as [[Hp ->]|(Hp & n & -> & Hb)].
  - subst prev. unfold py_lnode_write, py_lnode_pack. cbn [ln_data ln_block]. rewrite pack_stub.
    destruct (pm_append_stub sg st (t, 0) Hrep) as [E Hrep'].
    rewrite E in Hrep' |- *. cbn [fst] in Hrep'.
    eexists _, _. split; [reflexivity|]. split; [exact Hrep'|reflexivity].
  - rewrite Hb.
    assert (Hsp : py_lnode_set_previous (mk_ln None false [VNum t; VNum 0]) prev = Some (mk_ln None false [VNum t; VNum prev])).
    { unfold py_lnode_set_previous. destruct (N.ltb_spec prev py_link_first_data_block); [lia|reflexivity]. }
    rewrite Hsp. unfold py_lnode_write, py_lnode_pack. cbn [ln_data ln_block]. rewrite pack_stub.
    destruct (pm_append_stub sg st (t, prev) Hrep) as [E Hrep'].
    rewrite E in Hrep' |- *. cbn [fst] in Hrep'.
    eexists _, _. split; [reflexivity|]. split; [exact Hrep'|reflexivity].
Qed.

Lemma push_stubs_cons : forall t ts prev st,
  push_stubs (t :: ts) prev st = push_stubs ts (saddr (length st)) (st ++ [(t, prev)]).
Proof.
  intros t ts prev st. unfold push_stubs. cbn [fold_left]. f_equal. f_equal.
  unfold saddr. rewrite app_length. cbn [length]. f_equal. lia.
Qed.

Lemma addr_ge_first : forall k, py_link_first_data_block <= saddr k.
Proof. intro k. rewrite addr_eq. change py_link_first_data_block with 16. lia. Qed.

Lemma al_fold_spec : forall ts st sg empty prev tail,
  lrep st sg -> Forall target_ok ts -> tail_for prev tail ->
  exists sg' tail', fold_left al_step ts (Some (sg, empty, tail)) =
                    Some (sg', match ts with [] => empty | _ => false end, tail') /\
                    lrep (fst (push_stubs ts prev st)) sg' /\
                    tail_for (snd (push_stubs ts prev st)) tail' /\
                    (ts = [] -> sg' = sg).
Proof.
  induction ts as [|t ts IH]; intros st sg empty prev tail Hrep Hts Htail.
  - exists sg, tail. unfold push_stubs. cbn [fold_left fst snd].
    split; [reflexivity|]. split; [exact Hrep|]. split; [exact Htail|reflexivity].
  - inversion Hts as [|? ? Ht Hts']; subst.
    destruct (al_step_spec st sg empty prev tail t Hrep Ht Htail) as (sg1 & n & E & Hrep1 & Hb).
    cbn [fold_left]. rewrite E. rewrite push_stubs_cons.
    destruct (IH (st ++ [(t, prev)]) sg1 false (saddr (length st)) (Some n) Hrep1 Hts') as (sg' & tail' & E' & Hrep' & Htail' & _).
    { right. split; [apply addr_ge_first|]. exists n. split; [reflexivity|exact Hb]. }
    exists sg', tail'. rewrite E'. split; [destruct ts; reflexivity|].
    split; [exact Hrep'|]. split; [exact Htail'|discriminate].
Qed.

Lemma push_stubs_keeps_nonzero : forall ts prev st, prev <> 0 -> snd (push_stubs ts prev st) <> 0.
Proof.
  induction ts as [|t ts IH]; intros prev st Hp; [exact Hp|].
  rewrite push_stubs_cons. apply IH. intro H. pose proof (addr_nonzero (length st)) as E.
  rewrite H in E. discriminate E.
Qed.

Lemma push_stubs_head_nonzero : forall ts prev st, ts <> [] -> snd (push_stubs ts prev st) <> 0.
Proof.
  intros [|t ts] prev st H; [congruence|].
  rewrite push_stubs_cons. apply push_stubs_keeps_nonzero. intro E.
  pose proof (addr_nonzero (length st)) as E'. rewrite E in E'. discriminate E'.
Qed.

(* the head the source page carries: 0 (no list yet) or the address of an existing stub *)
Definition wf_head (st : list (N * N)) (h : N) : Prop := h = 0 \/ exists k, (k < length st)%nat /\ h = saddr k.

Lemma lnode_init_block : forall sg st k, lrep st sg -> (k < length st)%nat ->
  ln_block (fst (py_lnode_init sg (Some (saddr k)) None)) = Some (saddr k) /\
  lrep st (snd (py_lnode_init sg (Some (saddr k)) None)).
Proof.
  intros sg st k Hrep Hk. unfold py_lnode_init, py_lnode_read.
  cbn [ln_set_block ln_set_exists ln_block ln_exists ln_data].
  rewrite (pm_read_stub sg st k Hrep).
  destruct (nth_error st k) as [s|] eqn:E; [|apply nth_error_None in E; lia].
  cbn [fst snd ln_set_block ln_set_exists ln_set_data ln_block]. split; [reflexivity|].
  apply lrep_read. exact Hrep.
Qed.

(* LinkStore.add_links(source_node, target_blocks, out): the link store gains exactly the stubs of push_stubs; with an empty
   target list nothing is written anywhere (trie storage and source node untouched); otherwise the source node's out/in
   register is set to the new head and the node is written with LRUTrieNode.write *)
Theorem py_ls_add_links_spec : forall src sgt sg st targets out,
  lrep st sg -> Forall target_ok targets -> wf_head st (py_node_links src out) ->
  let h := py_node_links src out in
  let st' := fst (push_stubs targets h st) in
  let h' := snd (push_stubs targets h st) in
  exists sg', lrep st' sg' /\
    py_ls_add_links src sgt sg targets out =
    Some (match targets with
          | [] => (src, sgt, sg')
          | _ => (fst (py_node_write (py_node_set_links src h' out) sgt),
                  snd (py_node_write (py_node_set_links src h' out) sgt), sg')
          end).
Proof.
  intros src sgt sg st targets out Hrep Hts Hh h st' h'. rewrite add_links_eq.
  assert (Hhl : py_node_has_links src out = negb (h =? 0)).
  { unfold py_node_has_links, py_node_links in *. subst h. destruct out; reflexivity. }
  rewrite Hhl.
  assert (exists sg0 tail, (if negb (h =? 0)
                            then (let '(n, sg1) := py_lnode_init sg (Some h) None in (sg1, Some n))
                            else (sg, None)) = (sg0, tail) /\ lrep st sg0 /\ tail_for h tail) as (sg0 & tail & E0 & Hrep0 & Htail0).
  { change (wf_head st h) in Hh. destruct Hh as [Hz|(k & Hk & Hhk)].
    - rewrite Hz. change (0 =? 0) with true. cbn [negb]. exists sg, None.
      split; [reflexivity|]. split; [exact Hrep|]. left. split; reflexivity.
    - rewrite Hhk, addr_nonzero. cbn [negb].
      destruct (lnode_init_block sg st k Hrep Hk) as [Hb Hr].
      destruct (py_lnode_init sg (Some (saddr k)) None) as [n sg1]. cbn [fst snd] in Hb, Hr.
      exists sg1, (Some n). split; [reflexivity|]. split; [exact Hr|].
      right. split; [apply addr_ge_first|]. exists n. split; [reflexivity|exact Hb]. }
  fold h. rewrite E0.
  destruct (al_fold_spec targets st sg0 true h tail Hrep0 Hts Htail0) as (sg' & tail' & E & Hrep' & Htail' & _).
  exists sg'. split; [exact Hrep'|]. rewrite E.
  destruct targets as [|t ts]; [reflexivity|].
  cbn [negb].
  destruct Htail' as [[Hz _]|(_ & n & -> & Hb)].
  - exfalso. apply (push_stubs_head_nonzero (t :: ts) h st); [discriminate|exact Hz].
  - rewrite Hb. fold h'. destruct (py_node_write (py_node_set_links src h' out) sgt). reflexivity.
Qed.


(* ====================================================================================== *)
(* 5. well-formed stores exist and stay well-formed; the source page's block              *)
(* ====================================================================================== *)

Lemma wf_stubs_snoc : forall st t p,
  wf_stubs st -> target_ok t -> fits t -> wf_head st p -> fits (saddr (S (length st))) ->
  wf_stubs (st ++ [(t, p)]).
Proof.
  intros st t p [Hok Hf] Ht Hft Hp Hf'. split.
  - intros k s Hn. destruct (Nat.lt_ge_cases k (length st)) as [Hk|Hk].
    + rewrite nth_error_app1 in Hn by exact Hk. apply (Hok k s Hn).
    + rewrite nth_error_app2 in Hn by exact Hk.
      destruct (k - length st)%nat as [|m] eqn:E; [|destruct m; discriminate Hn].
      cbn [nth_error] in Hn. injection Hn as <-. cbn [fst snd].
      split; [exact Ht|]. split; [exact Hft|].
      destruct Hp as [->|(j & Hj & ->)]; [left; reflexivity|right; exists j; split; [lia|reflexivity]].
  - rewrite app_length. cbn [length]. replace (length st + 1)%nat with (S (length st)) by lia. exact Hf'.
Qed.

Lemma fits_addr_le : forall j k, (j <= k)%nat -> fits (saddr k) -> fits (saddr j).
Proof. intros j k H. unfold fits. rewrite !addr_eq. lia. Qed.

(* add_links keeps the store well-formed (as long as it stays below 2^64 bytes) *)
Theorem push_stubs_wf : forall targets h st,
  wf_stubs st -> Forall (fun t => target_ok t /\ fits t) targets -> wf_head st h ->
  fits (saddr (length st + length targets)) ->
  wf_stubs (fst (push_stubs targets h st)).
Proof.
  induction targets as [|t ts IH]; intros h st Hok Hts Hh Hf; [exact Hok|].
  inversion Hts as [|? ? [Ht Hft] Hts']; subst. rewrite push_stubs_cons. apply IH.
  - apply wf_stubs_snoc; try assumption.
    apply (fits_addr_le _ (length st + length (t :: ts))); [cbn [length]; lia|exact Hf].
  - exact Hts'.
  - right. exists (length st). split; [rewrite app_length; cbn [length]; lia|reflexivity].
  - rewrite app_length. cbn [length] in *. replace (length st + 1 + length ts)%nat with (length st + S (length ts))%nat by lia.
    exact Hf.
Qed.

(* the out / in register of the source page, at block level *)
Definition blk_head (out : bool) (b : tblock) : N := if out then b_out b else b_in b.
Definition blk_set_head (out : bool) (h : N) (b : tblock) : tblock :=
  if out then mkBlk (b_stem b) (b_flags b) (b_we b) (b_left b) (b_right b) (b_child b) (b_parent b) h (b_in b)
  else mkBlk (b_stem b) (b_flags b) (b_we b) (b_left b) (b_right b) (b_child b) (b_parent b) (b_out b) h.

Lemma py_node_links_blk : forall nd b out, nd_data nd = tblock_vals b -> py_node_links nd out = blk_head out b.
Proof. intros nd [st fl w l r c p o i] out H. unfold py_node_links. rewrite H. destruct out; reflexivity. Qed.

Lemma py_node_set_links_blk : forall nd b out h, nd_data nd = tblock_vals b ->
  py_node_set_links nd h out = nd_set_data (tblock_vals (blk_set_head out h b)) nd.
Proof. intros nd [st fl w l r c p o i] out h H. unfold py_node_set_links. rewrite H. destruct out; reflexivity. Qed.

(* add_links with a non-empty target list, all the way down to the bytes: the link file gains the stubs of push_stubs, the
   128 bytes of the source page's block are rewritten in place with the new head in the out / in register and every other
   byte of the trie file is unchanged *)
Theorem py_ls_add_links_blocks : forall src sgt sg st b a t ts out,
  lrep st sg -> Forall target_ok (t :: ts) ->
  nd_exists src = true -> nd_block src = Some a -> nd_data src = tblock_vals b ->
  wf_head st (blk_head out b) ->
  pm_block_size sgt = py_node_block_size -> a + 128 <= N.of_nat (length (pm_array sgt)) ->
  let st' := fst (push_stubs (t :: ts) (blk_head out b) st) in
  let h' := snd (push_stubs (t :: ts) (blk_head out b) st) in
  exists src' sgt' sg',
    py_ls_add_links src sgt sg (t :: ts) out = Some (src', sgt', sg') /\
    lrep st' sg' /\ h' <> 0 /\
    nd_data src' = tblock_vals (blk_set_head out h' b) /\
    length (pm_array sgt') = length (pm_array sgt) /\
    firstn (N.to_nat a) (pm_array sgt') = firstn (N.to_nat a) (pm_array sgt) /\
    GenStorage.py_slice a (a + 128) (pm_array sgt') = encode_tblock (blk_set_head out h' b) /\
    skipn (N.to_nat a + 128) (pm_array sgt') = skipn (N.to_nat a + 128) (pm_array sgt).
Proof.
  intros src sgt sg st b a t ts out Hrep Hts Hex Hblk Hdata Hh Hbs Hlen st' h'.
  pose proof (py_node_links_blk src b out Hdata) as HL.
  destruct (py_ls_add_links_spec src sgt sg st (t :: ts) out Hrep Hts) as (sg' & Hrep' & E).
  { rewrite HL. exact Hh. }
  rewrite HL in Hrep', E. fold st' in Hrep'. fold h' in E.
  rewrite (py_node_set_links_blk src b out h' Hdata) in E.
  set (src1 := nd_set_data (tblock_vals (blk_set_head out h' b)) src) in E.
  destruct (py_node_write_existing src1 sgt a (blk_set_head out h' b)) as (H1 & H2 & H3 & H4 & H5 & _);
    try assumption; try reflexivity.
  exists (fst (py_node_write src1 sgt)), (snd (py_node_write src1 sgt)), sg'.
  split; [exact E|]. split; [exact Hrep'|].
  split; [apply push_stubs_head_nonzero; discriminate|].
  split; [rewrite H1; reflexivity|].
  repeat split; assumption.
Qed.

(* every state the model reaches has a well-formed stub list (as long as both files stay below 2^64 bytes) *)
Theorem reachable_wf_stubs : forall s a,
  Rlinks s a -> fits (nb s * bsz) -> fits (saddr (length (stubs s))) -> wf_stubs (stubs s).
Proof.
  intros s a HR Hft Hfl. split; [|exact Hfl].
  intros k [tg pv] Hn. unfold stub_ok. cbn [fst snd].
  destruct (L_targets s a HR k tg pv Hn) as (p & d & Hf & Ha & _). (* Ha : Tst.addr d = tg *)
  destruct (proj1 (L_addr s a HR) p d Hf) as (j & Hj & Hj1 & Hj2).
  rewrite <- Ha, Hj. unfold target_ok, fits in *. change py_first_data_block with 128. unfold bsz in *.
  change py_node_block_size with 128 in *.
  split; [lia|]. split; [pose proof (N.le_0_l (nblk (stem d))); nia|].
  destruct (L_stubs s a HR k tg pv Hn) as [->|(i & Hi & ->)]; [left; reflexivity|].
  right. exists i. split; [exact Hi|reflexivity].
Qed.

Lemma reachable_wf_head : forall s a p d (out : bool),
  Rlinks s a -> find p (tr s) = Some d -> wf_head (stubs s) (if out then outh d else inh d).
Proof.
  intros s a p d out HR Hf. destruct (L_heads s a HR p d Hf) as [Ho Hi].
  destruct out; [destruct Ho as [->|(j & Hj & ->)]|destruct Hi as [->|(j & Hj & ->)]];
    try (left; reflexivity); right; exists j; split; try assumption; reflexivity.
Qed.

(* non-vacuity: a concrete store of three stubs (two lists) meets the hypotheses, and the translated code run on its bytes
   gives the model's answers *)
Definition ex_stubs : list (N * N) := [(128, 0); (256, 16); (128, 32)].
Definition ex_sg : py_pm := mk_pm 16 (encode_link_header ++ flat_map encode_stub ex_stubs) 0.
Example ex_wf : wf_stubs ex_stubs /\ lrep ex_stubs ex_sg.
Proof.
  split; [split|split; reflexivity].
  - intros [|[|[|k]]] s Hn; try (destruct k; discriminate Hn); injection Hn as <-; unfold stub_ok, fits; cbn [fst snd].
    + split; [discriminate|]. split; [reflexivity|left; reflexivity].
    + split; [discriminate|]. split; [reflexivity|right; exists 0%nat; split; [lia|reflexivity]].
    + split; [discriminate|]. split; [reflexivity|right; exists 1%nat; split; [lia|reflexivity]].
  - reflexivity.
Qed.
Example ex_weighted : py_ls_weighted_link_nodes_iter ex_sg 48 = Some [(Some 128, 2); (Some 256, 1)].
Proof. vm_compute. reflexivity. Qed.
Example ex_deduped : py_ls_deduped_link_nodes_iter ex_sg 48 = Some [Some 128; Some 256].
Proof. vm_compute. reflexivity. Qed.
