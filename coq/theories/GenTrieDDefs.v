(* GenTrieDDefs.v — vocabulary for the theorems about GenTrieD.v (the traversals of the trie translated from
   /repo/traph/lru_trie/lru_trie.py on every run).  Definitions only. *)
From Coq Require Import List NArith Bool.
Import ListNotations.
From Traph Require Import Bytes Consts Helpers Tst TstDefs Traph TraceDefs StoreFacts GenStorage GenNode GenTrie GenTrieFacts.
Open Scope N_scope.

(* an item (node object, lru) a translated traversal yields represents the model's (lru, node): same LRU, and the object is
   what reading the node's block yields *)
Definition item_rep (s : traph) (it : py_node * bytes) (m : bytes * nd) : Prop :=
  snd it = fst m /\ exists l c r, subt (Nd (snd m) l c r) (tr s) /\ node_at (Nd (snd m) l c r) (fst it).
