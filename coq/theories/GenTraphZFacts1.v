(* GenTraphZFacts1.v — Traph.add_webentity_creation_rule_iter translated from the source (GenTraphZ.v, generated on every run
   from /repo/traph/traph.py and lru_trie/lru_trie.py: dfs_iter with the caller's loop body as a visitor), part 1:
     1. the RAM table: py_rules_set = aset
     2. node.flag_as_webentity_creation_rule() on the registers of a main block
     3. the set-up of the request (RAM entry, add_lru(prefix), flag, write) = SchedFacts5.rule_setup
     4. what the model reads at a block address (Sched.read_at) is a subtree of the tree; a stack entry that names a node of the
        tree (SchedFacts5.rentry_ok) is read successfully
     5. one turn of the model's traversal (SchedFacts5.rule_dfs) keeps the invariant the translated loop needs:
        Inv18 / root_first / anchors_known and every stack entry names a node of the tree. *)
From Coq Require Import List NArith Bool Lia Arith.
Import ListNotations.
From Traph Require Import Bytes Consts Layout Helpers Rules Tst TstDefs Traph Spec Ops RefDefs Traphw TraceDefs Codec CodecFacts
  TstFacts Store StoreFacts StoreFacts2 GenStorage GenNode GenNodeFacts GenTrie GenTrieFacts GenTrieW GenTrieWDefs
  GenTrieWFrame GenTrieWAdd GenTrieWPage GenTrieD GenTrieDDefs GenTrieDDfs.
From Traph Require Import TraceFacts3 TraceFacts4 TraceFacts5 ViewFacts ViewFacts2 LinkFacts2 LinkFacts3
  Sched SchedFacts4 SchedFacts5 RuleRun.
From Traph Require Import GenTraphW GenTraphWDefs GenTraphWFacts1 GenTraphWFacts2 GenTraphP GenTraphPDefs GenTraphPFacts1
  GenTraphPFacts AnchorsFacts GenTraphZ.
Open Scope N_scope.

Arguments N.shiftr : simpl never.
Arguments N.shiftl : simpl never.
Arguments N.modulo : simpl never.
Arguments N.div : simpl never.
Arguments N.land : simpl never.
Arguments N.lor : simpl never.
Arguments N.ldiff : simpl never.
Arguments N.mul : simpl never.
Arguments N.add : simpl never.
Arguments N.sub : simpl never.
Arguments N.ltb : simpl never.
Arguments N.eqb : simpl never.
Arguments N.leb : simpl never.
Arguments N.pow : simpl never.

(* ====================================================================================== *)
(* 1. the RAM table: `self.webentity_creation_rules[rule_prefix] = re.compile(...)`        *)
(* ====================================================================================== *)
Lemma py_rules_set_eq : forall k v d, py_rules_set k v d = aset k v d.
Proof.
  intros k v d. induction d as [|[k' v'] d IH]; [reflexivity|].
  cbn [py_rules_set aset]. rewrite IH. reflexivity.
Qed.

(* ====================================================================================== *)
(* 2. node.flag_as_webentity_creation_rule()                                              *)
(* ====================================================================================== *)
Lemma flags_set_rule : forall d, N.lor (flags_of d) (N.shiftl 1 flag_rule) = flags_of (set_rule true d).
Proof.
  intro d. unfold flags_of. cbn [set_rule page crawled rule stem nochild].
  destruct (page d), (crawled d), (rule d), (has_tail_of (stem d)), (nochild d); vm_compute; reflexivity.
Qed.

Lemma flag_rule_main : forall n d la ra ca, nd_data n = tblock_vals (main_block d la ra ca) ->
  nd_data (py_node_flag_as_webentity_creation_rule n) = tblock_vals (main_block (set_rule true d) la ra ca).
Proof.
  intros n d la ra ca H. unfold py_node_flag_as_webentity_creation_rule. cbn [nd_set_data nd_data].
  rewrite H, py_flag_flags. unfold main_block, blk_with_flags. cbn [b_flags b_stem b_we b_left b_right b_child b_parent b_out b_in].
  rewrite flags_set_rule. reflexivity.
Qed.

(* ====================================================================================== *)
(* 3. the set-up                                                                          *)
(* ====================================================================================== *)
Lemma rule_setup_fields : forall p k s,
  nb s <= nb (rule_setup p k s) /\ lastwe (rule_setup p k s) = lastwe s /\
  rules (rule_setup p k s) = aset p k (rules s) /\ dflt (rule_setup p k s) = dflt s /\ stubs (rule_setup p k s) = stubs s.
Proof.
  intros p k s. unfold rule_setup. cbv zeta.
  set (s0 := mkT (tr s) (nb s) (lastwe s) (stubs s) (aset p k (rules s)) (dflt s)).
  destruct (add_lru_fields false p s0) as (H1 & H2 & H3 & H4).
  cbn [set_tree set_tr nb lastwe rules dflt stubs].
  split; [|split; [exact H1|split; [exact H3|split; [exact H4|exact H2]]]].
  exact (add_lru_nb_mono false p s0).
Qed.

Lemma rule_setup_nb_mono : forall p k s, nb s <= nb (rule_setup p k s).
Proof. intros p k s. apply rule_setup_fields. Qed.

Theorem rule_setup_spec : forall s, Inv18 s -> root_first s -> anchors_known s -> forall rm hd sg p k,
  ramrep s rm -> hrep s hd sg -> wf_lru p ->
  let s2 := rule_setup p k s in
  nb s2 * 128 < 2 ^ 64 ->
  exists sg1 n0 ph sg2 n d l c r,
    py_trie_add_lru sg p false = Some (sg1, (n0, ph)) /\
    py_node_write (py_node_flag_as_webentity_creation_rule n0) sg1 = (n, sg2) /\
    hrep s2 hd sg2 /\ ramrep s2 (mk_ram (py_rules_set p k (ram_rules rm)) (ram_dflt rm)) /\
    Inv18 s2 /\ root_first s2 /\ anchors_known s2 /\
    find_sub (lru_iter p) (tr s2) = Some (Nd d l c r) /\ node_at (Nd d l c r) n.
Proof.
  intros s Hinv Hroot Hk rm hd sg p k [Hrr Hrd] Hh Hp s2 Hsize.
  destruct (rule_setup_fields p k s) as (Enb & Elw & Erl & Edf & _). fold s2 in Enb, Elw, Erl, Edf.
  unfold s2, rule_setup in *. cbv zeta in *. clear s2.
  set (s0 := mkT (tr s) (nb s) (lastwe s) (stubs s) (aset p k (rules s)) (dflt s)) in *.
  assert (Hinv0 : Inv18 s0) by (apply (Inv18_ram s s0 Hinv); reflexivity).
  assert (Hroot0 : root_first s0) by exact Hroot.
  assert (Hh0 : hrep s0 hd sg) by exact Hh.
  assert (Hk0 : anchors_known s0).
  { apply (anchors_known_rules_mono s s0); [reflexivity| |exact Hk]. intros l Hl. apply aget_aset_mono. exact Hl. }
  set (s1 := fst (add_lru false p s0)) in *.
  assert (Hsize1 : nb s1 * 128 < 2 ^ 64) by exact Hsize.
  destruct (after_add_lru s0 Hinv0 Hroot0 hd sg p false Hh0 Hp Hsize1)
    as (sg1 & n0 & ph & d & l & c & r0 & Eadd & Hh1 & Hinv1 & Hroot1 & Hfs & Hn0).
  fold s1 in Hh1, Hinv1, Hroot1, Hfs.
  pose proof Hn0 as (Hex & Hblk & Hdata & Hstem).
  set (n2 := py_node_flag_as_webentity_creation_rule n0).
  assert (Hd2 : nd_data n2 = tblock_vals (main_block (set_rule true d) (root_addr l) (root_addr r0) (root_addr c)))
    by (apply flag_rule_main; exact Hdata).
  assert (Hst2 : py_node_stem n2 = stem d).
  { unfold py_node_stem. rewrite Hd2, py_get_stem. change (nd_tail n2) with (nd_tail n0).
    rewrite <- Hstem. unfold py_node_stem. rewrite Hdata, !py_get_stem. reflexivity. }
  pose proof Hh1 as (Hrep1 & Hdat1 & _). pose proof (hrep_hk _ _ _ Hh1) as Hhk1.
  destruct (rewrite_in_place s1 Hinv1 (set_rule true) (lru_iter p) d l c r0 n2 sg1
              (soft_set_rule true) (fun _ => eq_refl) Hfs Hrep1 Hex Hblk Hd2 Hst2)
    as (sg2 & Ew & Hrep2 & Hinv2 & Hfs2 & Hn2).
  assert (Hok2 : okN n2).
  { intros a Ha. change (nd_block n2) with (nd_block n0) in Ha. rewrite Hblk in Ha. injection Ha as <-.
    exact (root_addr_ge s1 Hinv1 d l c r0 (find_sub_subt _ _ _ Hfs)). }
  destruct (py_node_write_frame' n2 sg1 _ n2 sg2 Hhk1 Hok2 Ew) as [Hhk2 _].
  exists sg1, n0, ph, sg2, n2, (set_rule true d), l, c, r0.
  split; [exact Eadd|]. split; [exact Ew|].
  split; [apply hrep_intro; [exact Hrep2|exact Hdat1|exact Hhk2]|].
  split; [split; cbn [ram_rules ram_dflt]; [rewrite py_rules_set_eq, Hrr, Erl; reflexivity|rewrite Hrd, Edf; reflexivity]|].
  split; [exact Hinv2|].
  split; [apply Q_root_first, set_tree_upd_Q; [reflexivity|apply root_first_Q; assumption]|].
  split; [|split; [exact Hfs2|exact Hn2]].
  (* the RAM entry is there before the node is flagged *)
  pose proof (anchors_known_add_lru false p s0 Hk0) as Hk1. fold s1 in Hk1.
  intros x d' Hx Hd' Hr. unfold nodeof in Hd'. rewrite Erl. cbn [set_tree set_tr tr rules] in Hd'.
  destruct (find_upd_cases (set_rule true) _ (lru_iter p) (tr s1) d' (fun _ => eq_refl) Hd')
    as (d1 & Hd1 & [[E _]|[_ ->]]).
  - assert (El : x = p) by (apply lru_iter_inj; assumption). subst x. apply aget_aset_same.
  - assert (Er1 : rules s1 = aset p k (rules s)) by (destruct (add_lru_fields false p s0) as (_ & _ & Er & _); exact Er).
    rewrite <- Er1. exact (Hk1 x d1 Hx Hd1 Hr).
Qed.

(* ====================================================================================== *)
(* 4. node.read(block) in the model                                                       *)
(* ====================================================================================== *)
(* what is read is the root of a subtree; its three registers are the roots of its three subtrees *)
Lemma read_at_subt : forall t a x, read_at a t = Some x ->
  exists l c r, subt (Nd (rn_d x) l c r) t /\ addr (rn_d x) = a /\
    rn_left x = root_addr l /\ rn_right x = root_addr r /\ rn_child x = root_addr c.
Proof.
  induction t as [|d l IHl c IHc r IHr]; intros a x H; [discriminate|].
  cbn [read_at] in H. destruct (addr d =? a) eqn:E.
  - injection H as <-. apply N.eqb_eq in E. exists l, c, r. cbn [rn_d rn_left rn_right rn_child].
    split; [apply subt_here|]. auto.
  - destruct (read_at a c) as [xc|] eqn:Ec.
    + injection H as <-. destruct (IHc _ _ Ec) as (l' & c' & r' & H1 & H2).
      exists l', c', r'. split; [apply subt_c; exact H1|exact H2].
    + destruct (read_at a l) as [xl|] eqn:El.
      * injection H as <-. destruct (IHl _ _ El) as (l' & c' & r' & H1 & H2).
        exists l', c', r'. split; [apply subt_l; exact H1|exact H2].
      * destruct (IHr _ _ H) as (l' & c' & r' & H1 & H2).
        exists l', c', r'. split; [apply subt_r; exact H1|exact H2].
Qed.

(* the address of a node of the tree is read successfully *)
Lemma read_at_subt_some : forall t d l c r, subt (Nd d l c r) t -> read_at (addr d) t <> None.
Proof.
  intros t d l c r H. remember (Nd d l c r) as x eqn:Ex.
  induction H as [|d0 l0 c0 r0 _ IH|d0 l0 c0 r0 _ IH|d0 l0 c0 r0 _ IH]; subst x.
  - cbn [read_at]. rewrite N.eqb_refl. discriminate.
  - cbn [read_at]. destruct (addr d0 =? addr d); [discriminate|].
    destruct (read_at (addr d) c0); [discriminate|]. destruct (read_at (addr d) l0); [discriminate|congruence].
  - cbn [read_at]. destruct (addr d0 =? addr d); [discriminate|].
    destruct (read_at (addr d) c0); [discriminate|congruence].
  - cbn [read_at]. destruct (addr d0 =? addr d); [discriminate|].
    destruct (read_at (addr d) c0); [discriminate|]. destruct (read_at (addr d) l0); [discriminate|exact IH].
Qed.

Lemma find_subt : forall p t d, find p t = Some d -> exists l c r, subt (Nd d l c r) t.
Proof.
  intros p t d H. rewrite find_of_sub in H. destruct (find_sub p t) as [[|d0 l c r]|] eqn:E; try discriminate H.
  injection H as ->. exists l, c, r. exact (find_sub_subt _ _ _ E).
Qed.

Lemma rentry_read : forall t a pre, rentry_ok t (a, pre) -> read_at a t <> None.
Proof.
  intros t a pre (p & d & Hf & Ha & _). cbn [fst] in Ha. subst a.
  destruct (find_subt _ _ _ Hf) as (l & c & r & Hs). exact (read_at_subt_some _ _ _ _ _ Hs).
Qed.

(* ====================================================================================== *)
(* 5. one turn of the model's traversal                                                   *)
(* ====================================================================================== *)
(* the turn on a non-empty stack, in one expression *)
Definition visit_m (x : rnode) (cur : bytes) (s : traph) : traph * N * list (N * list bytes) :=
  if page (rn_d x) then add_page_int cur false s else (s, 0, []).

Definition pend_of (x : rnode) (a start : N) (pre : bytes) : list (N * bytes) :=
  nz (rn_child x) (pre ++ stem (rn_d x))
    ++ (if a =? start then [] else nz (rn_left x) pre ++ nz (rn_right x) pre).

Lemma rule_dfs_nil : forall r s, r_pend r ++ r_stack r = [] ->
  rule_dfs r s = (mkRC None (r_start r) [] [] (r_n r) (r_c r) true, s).
Proof. intros r s E. unfold rule_dfs. rewrite E. reflexivity. Qed.

Lemma rule_dfs_cons : forall r s a pre rest x, r_pend r ++ r_stack r = (a, pre) :: rest -> read_at a (tr s) = Some x ->
  rule_dfs r s =
  (mkRC None (r_start r) rest (pend_of x a (r_start r) pre)
        (r_n r + snd (fst (visit_m x (pre ++ stem (rn_d x)) s))) (r_c r ++ snd (visit_m x (pre ++ stem (rn_d x)) s)) false,
   fst (fst (visit_m x (pre ++ stem (rn_d x)) s))).
Proof.
  intros r s a pre rest x E Er. unfold rule_dfs, visit_m, pend_of. rewrite E, Er. cbv zeta.
  destruct (if page (rn_d x) then add_page_int (pre ++ stem (rn_d x)) false s else (s, 0, [])) as [[s1 n'] c'].
  reflexivity.
Qed.

(* the invariant of the traversal: the state can be represented and written again, every entry of the stack names a node of
   the tree with the LRU of the level above it, the ids reported so far are not above the counter *)
Definition ZInv (r : rco) (s : traph) : Prop :=
  Inv18 s /\ root_first s /\ anchors_known s /\
  Forall (rentry_ok (tr s)) (r_pend r ++ r_stack r) /\
  (forall w, In w (map fst (r_c r)) -> w <= lastwe s).

(* what the top entry of the stack names *)
Lemma top_entry : forall s a pre, Inv18 s -> rentry_ok (tr s) (a, pre) ->
  exists x l c rr, read_at a (tr s) = Some x /\ subt (Nd (rn_d x) l c rr) (tr s) /\ addr (rn_d x) = a /\
    rn_left x = root_addr l /\ rn_right x = root_addr rr /\ rn_child x = root_addr c /\
    wf_lru (pre ++ stem (rn_d x)) /\
    forall start, Forall (rentry_ok (tr s)) (pend_of x a start pre).
Proof.
  intros s a pre Hinv He.
  pose proof (I_wf _ Hinv) as Hwf. pose proof (I_addr _ Hinv) as Hok.
  destruct (read_at a (tr s)) as [x|] eqn:Er; [|exfalso; exact (rentry_read _ _ _ He Er)].
  destruct (read_at_subt _ _ _ Er) as (l & c & rr & Hsub & Ha & Hl & Hr & Hc).
  exists x, l, c, rr. split; [reflexivity|]. split; [exact Hsub|]. split; [exact Ha|].
  split; [exact Hl|]. split; [exact Hr|]. split; [exact Hc|].
  destruct He as (p & d & Hfp & Hda & Hpre). cbn [fst snd] in Hda, Hpre.
  destruct (read_at_paths (tr s) [] a x Er) as (pp & l' & c' & r' & Hxa & Hl' & Hr' & Hc' & Hin & Il & Ir & Ic).
  apply (paths_find (tr s) Hwf) in Hin.
  assert (Ep : p = pp ++ [stem (rn_d x)]) by (apply (proj2 Hok p _ d (rn_d x) Hfp Hin); congruence).
  subst p. rewrite removelast_last in Hpre.
  assert (Ecur : pre ++ stem (rn_d x) = concat (pp ++ [stem (rn_d x)])) by (rewrite concat_snoc, Hpre; reflexivity).
  split.
  - rewrite Ecur. apply (ViewFacts.find_nodeof s _ _ Hwf Hin).
  - intro start. unfold pend_of. apply Forall_app. split.
    + rewrite Hc'. apply (sub_rentry (tr s) (pp ++ [stem (rn_d x)]) c' _ Hwf Ic). symmetry. exact Ecur.
    + destruct (a =? start); [constructor|]. apply Forall_app. split.
      * rewrite Hl'. apply (sub_rentry (tr s) pp l' _ Hwf Il Hpre).
      * rewrite Hr'. apply (sub_rentry (tr s) pp r' _ Hwf Ir Hpre).
Qed.

(* the visitor in the model: what it keeps *)
Lemma visit_m_keeps : forall x cur s, Inv18 s -> root_first s -> anchors_known s ->
  let y := visit_m x cur s in
  let s' := fst (fst y) in
  Inv18 s' /\ root_first s' /\ anchors_known s' /\ tree_ext s s' /\ nb s <= nb s' /\ lastwe s <= lastwe s' /\
  ((snd y = [] /\ lastwe s' = lastwe s) \/ (exists valid, snd y = [(lastwe s + 1, valid)] /\ lastwe s' = lastwe s + 1)).
Proof.
  intros x cur s Hinv Hroot Hk. cbv zeta. unfold visit_m. destruct (page (rn_d x)).
  - pose proof (add_page_int_counter cur false s) as Hc. cbv zeta in Hc.
    split; [exact (Tr_inv _ _ _ (add_page_int_Tr cur false s Hinv))|].
    split; [apply Q_root_first, add_page_int_Q, root_first_Q; assumption|].
    split; [apply anchors_known_add_page_int; exact Hk|].
    split; [apply step_ok_ext, add_page_int_step, Inv18_good; exact Hinv|].
    split; [apply add_page_int_nb_mono|].
    split; [destruct Hc as [[_ Hc]|(v & _ & Hc)]; lia|exact Hc].
  - cbn [fst snd]. split; [exact Hinv|]. split; [exact Hroot|]. split; [exact Hk|]. split; [apply tree_ext_refl|].
    split; [lia|]. split; [lia|]. left. auto.
Qed.

Lemma rule_dfs_ZInv : forall r s, ZInv r s ->
  ZInv (fst (rule_dfs r s)) (snd (rule_dfs r s)) /\
  nb s <= nb (snd (rule_dfs r s)) /\ lastwe s <= lastwe (snd (rule_dfs r s)).
Proof.
  intros r s (Hinv & Hroot & Hk & Hst & Hb).
  destruct (r_pend r ++ r_stack r) as [|[a pre] rest] eqn:E.
  - rewrite (rule_dfs_nil r s E). cbn [fst snd]. split; [|lia].
    split; [exact Hinv|]. split; [exact Hroot|]. split; [exact Hk|]. split; [constructor|exact Hb].
  - inversion Hst as [|? ? He Hrest]; subst.
    destruct (top_entry s a pre Hinv He) as (x & l & c & rr & Er & _ & _ & _ & _ & _ & _ & Hpend).
    rewrite (rule_dfs_cons r s a pre rest x E Er). cbn [fst snd].
    destruct (visit_m_keeps x (pre ++ stem (rn_d x)) s Hinv Hroot Hk) as (Hinv' & Hroot' & Hk' & Hx & Hnb & Hlw & Hc).
    split; [|split; assumption].
    split; [exact Hinv'|]. split; [exact Hroot'|]. split; [exact Hk'|]. split.
    + cbn [r_pend r_stack]. apply Forall_forall. intros e Hin.
      apply (rentry_ext s _ e Hx). apply in_app_or in Hin. specialize (Hpend (r_start r)).
      rewrite Forall_forall in Hpend, Hrest. destruct Hin as [Hin|Hin]; auto.
    + cbn [r_c]. intros w Hin. rewrite map_app in Hin. apply in_app_or in Hin.
      destruct Hin as [Hin|Hin]; [specialize (Hb w Hin); lia|].
      destruct Hc as [[Hc _]|(v & Hc & El)]; rewrite Hc in Hin; cbn [map fst In] in Hin; [destruct Hin|].
      destruct Hin as [<-|[]]. lia.
Qed.
