(* GenTraphNFacts.v — the webentity network request of the public API (fast variant) translated from /repo/traph/traph.py
   on every run (GenTraphN.v: Traph.get_webentities_links over the translated LRUTrie.dfs_with_webentity_iter and
   LinkStore.weighted_link_nodes_iter) computes exactly the entries of the model's Traph.webentities_links, for EVERY
   history: on any trie storage holding the trie file of the state reached and any link storage holding its link file.
   The translated code never fails, never runs out of fuel, and leaves every byte of the trie storage as it was. *)
From Coq Require Import List NArith Bool Lia Arith Permutation.
Import ListNotations.
From Traph Require Import Bytes Consts Layout Helpers Rules Tst TstDefs Traph Spec Ops RefDefs Traphw TraceDefs Codec
  CodecFacts TstFacts Store StoreFacts StoreFacts2 RefFull LinkFacts GenStorage GenNode GenNodeFacts GenLinks
  GenLinksFacts GenTrie GenTrieFacts GenTrieW GenTrieD GenTrieDDefs GenTraphN.
From Traph Require Import TopkFacts QueryLinks GenTrieDDfs.
From Traph Require GenTrieWPage GenTraphLFacts PropsEx.
Open Scope N_scope.

Arguments N.shiftr : simpl never.
Arguments N.shiftl : simpl never.
Arguments N.modulo : simpl never.
Arguments N.div : simpl never.
Arguments N.land : simpl never.
Arguments N.lor : simpl never.
Arguments N.mul : simpl never.
Arguments N.add : simpl never.
Arguments N.sub : simpl never.
Arguments N.ltb : simpl never.
Arguments N.leb : simpl never.
Arguments N.eqb : simpl never.

(* ====================================================================================== *)
(* 1. LRUTrie.dfs_with_webentity_iter                                                     *)
(* ====================================================================================== *)
(* Python's `webentity` variable: None until a node with a webentity was crossed *)
Definition wopt (w : N) : option N := if w =? 0 then None else Some w.

Definition WSt : Type := (py_pm * py_node * list (option N * option N) * list (py_node * option N))%type.

Definition wloop :=
 fix py_loop (fuel : nat) (st : WSt) {struct fuel} : option WSt :=
 match fuel with
 | O => Some st
 | S fuel' =>
 let '(sg, v_node, v_stack, v__out) := st in
 if (negb (N.eqb (N.of_nat (length v_stack)) 0%N))
 then (match py_pop v_stack with
 | None => None
 | Some ((v_block, v_webentity), v_stack) => (let '(v_node, sg) := py_node_read_o v_node sg v_block in
 (let v_current_webentity := v_webentity in
 (let v_current_webentity := (if (py_node_has_webentity v_node) then (py_node_webentity v_node) else v_current_webentity) in
 (let v__out := v__out ++ [(v_node, v_current_webentity)] in
 (let v_stack := (if (py_node_has_right v_node)
 then (let v_stack := v_stack ++ [((py_node_right v_node), v_webentity)] in
 v_stack)
 else v_stack) in
 (let v_stack := (if (py_node_has_left v_node)
 then (let v_stack := v_stack ++ [((py_node_left v_node), v_webentity)] in
 v_stack)
 else v_stack) in
 (let v_stack := (if (py_node_has_child v_node)
 then (let v_stack := v_stack ++ [((py_node_child v_node), v_current_webentity)] in
 v_stack)
 else v_stack) in
 (py_loop fuel' (sg, v_node, v_stack, v__out))))))))) end)
 else Some st
 end.

Lemma dww_iter_eq : forall sg,
  py_trie_dfs_with_webentity_iter sg =
  let '(n0, sg) := py_node_init sg None (Some py_first_data_block) None in
  let '(n1, sg) := py_node_init sg None (Some py_first_data_block) None in
  if negb (nd_exists n0) then Some ([], sg)
  else let '(n2, sg) := py_node_init sg None None None in
       match wloop (S (length (pm_array sg))) (sg, n2, [(nd_block n1, None)], []) with
       | None => None
       | Some (sg, _, _, out) => Some (out, sg)
       end.
Proof. reflexivity. Qed.

Lemma wloop_O : forall st, wloop O st = Some st.
Proof. reflexivity. Qed.

Lemma wloop_S : forall fuel sg n stk out,
  wloop (S fuel) (sg, n, stk, out) =
  if negb (N.of_nat (length stk) =? 0)
  then match py_pop stk with
       | None => None
       | Some ((blk, w), stk) =>
           let '(n, sg) := py_node_read_o n sg blk in
           let cur := if py_node_has_webentity n then py_node_webentity n else w in
           let stk0 := if py_node_has_right n then stk ++ [(py_node_right n, w)] else stk in
           let stk1 := if py_node_has_left n then stk0 ++ [(py_node_left n, w)] else stk0 in
           wloop fuel (sg, n, (if py_node_has_child n then stk1 ++ [(py_node_child n, cur)] else stk1), out ++ [(n, cur)])
       end
  else Some (sg, n, stk, out).
Proof. reflexivity. Qed.

(* the model's stack: (inherited webentity, subtree), bottom first as the Python list *)
Definition wenc (e : N * tst) : option N * option N := (Some (root_addr (snd e)), wopt (fst e)).
Definition went (w : N) (t : tst) : list (N * tst) := match t with Lf => [] | Nd _ _ _ _ => [(w, t)] end.
Definition WF (e : N * tst) : list (nd * N) := dww (fst e) (snd e).
Fixpoint wtot (ms : list (N * tst)) : nat :=
  match ms with [] => 0%nat | e :: ms' => (size (snd e) + wtot ms')%nat end.

Lemma wtot_app : forall a b, wtot (a ++ b) = (wtot a + wtot b)%nat.
Proof. induction a as [|e a IH]; intro b; [reflexivity|]. cbn [app wtot]. rewrite IH. lia. Qed.
Lemma wtot_went : forall w t, wtot (went w t) = size t.
Proof. intros w [|d l c r]; [reflexivity|]. cbn [went wtot snd]. lia. Qed.
Lemma WF_went : forall w t, flat_map WF (rev (went w t)) = dww w t.
Proof.
  intros w [|d l c r]; [reflexivity|].
  cbn [went rev app flat_map]. unfold WF. cbn [fst snd]. apply app_nil_r.
Qed.

(* what an item of the traversal is: the node object read from the block of a node of the tree, with the webentity in force *)
Definition witem_rep (s : traph) (it : py_node * option N) (m : nd * N) : Prop :=
  snd it = (if snd m =? 0 then None else Some (snd m)) /\
  exists l c r, subt (Nd (fst m) l c r) (tr s) /\ node_at (Nd (fst m) l c r) (fst it).

Section DwwOnState.
  Variable s : traph.
  Hypothesis Hinv : Inv18 s.

  Lemma wpush_right : forall d l c r n w (st : list (option N * option N)),
    subt (Nd d l c r) (tr s) -> node_at (Nd d l c r) n ->
    (if py_node_has_right n then st ++ [(py_node_right n, wopt w)] else st) = st ++ map wenc (went w r).
  Proof.
    intros d l c r n w st Hsub (_ & _ & Hd & _). unfold py_node_has_right, py_node_right.
    rewrite Hd, get_right. cbn [main_block b_right].
    destruct r as [|dr lr cr rr].
    - cbn [root_addr went map]. change (0 =? 0) with true. cbn [negb]. rewrite app_nil_r. reflexivity.
    - destruct (reg_facts s Hinv (Nd dr lr cr rr) (subt_right _ _ _ _ _ Hsub) ltac:(discriminate)) as [Hz Hlt].
      rewrite Hz, Hlt. reflexivity.
  Qed.
  Lemma wpush_left : forall d l c r n w (st : list (option N * option N)),
    subt (Nd d l c r) (tr s) -> node_at (Nd d l c r) n ->
    (if py_node_has_left n then st ++ [(py_node_left n, wopt w)] else st) = st ++ map wenc (went w l).
  Proof.
    intros d l c r n w st Hsub (_ & _ & Hd & _). unfold py_node_has_left, py_node_left.
    rewrite Hd, get_left. cbn [main_block b_left].
    destruct l as [|dl ll cl rl].
    - cbn [root_addr went map]. change (0 =? 0) with true. cbn [negb]. rewrite app_nil_r. reflexivity.
    - destruct (reg_facts s Hinv (Nd dl ll cl rl) (subt_left _ _ _ _ _ Hsub) ltac:(discriminate)) as [Hz Hlt].
      rewrite Hz, Hlt. reflexivity.
  Qed.
  Lemma wpush_child : forall d l c r n w (st : list (option N * option N)),
    subt (Nd d l c r) (tr s) -> node_at (Nd d l c r) n ->
    (if py_node_has_child n then st ++ [(py_node_child n, wopt w)] else st) = st ++ map wenc (went w c).
  Proof.
    intros d l c r n w st Hsub (_ & _ & Hd & _). unfold py_node_has_child, py_node_child.
    rewrite Hd, get_child. cbn [main_block b_child].
    destruct c as [|dc lc cc rc].
    - cbn [root_addr went map]. change (0 =? 0) with true. cbn [negb]. rewrite app_nil_r. reflexivity.
    - destruct (reg_facts s Hinv (Nd dc lc cc rc) (subt_child _ _ _ _ _ Hsub) ltac:(discriminate)) as [Hz Hlt].
      rewrite Hz, Hlt. reflexivity.
  Qed.

  (* the webentity in force below a node *)
  Definition wcur (w : N) (d : nd) : N := if we d =? 0 then w else we d.

  Lemma cur_eq : forall d l c r n w, node_at (Nd d l c r) n ->
    (if py_node_has_webentity n then py_node_webentity n else wopt w) = wopt (wcur w d).
  Proof.
    intros d l c r n w Hn. rewrite (node_at_has_we _ _ _ _ _ Hn), (node_at_we _ _ _ _ _ Hn). unfold wcur, wopt.
    destruct (we d =? 0) eqn:E; cbn [negb]; [reflexivity|]. rewrite E. reflexivity.
  Qed.

  (* one iteration: the block on top of the stack is the main block of a node of the tree *)
  Lemma wloop_step : forall fuel stk w d l c r sg n out,
    subt (Nd d l c r) (tr s) -> trep (files_of s) sg ->
    exists n1 sg1, node_at (Nd d l c r) n1 /\ trep (files_of s) sg1 /\ pm_array sg1 = pm_array sg /\
      wloop (S fuel) (sg, n, stk ++ [(Some (addr d), wopt w)], out) =
      wloop fuel (sg1, n1, stk ++ map wenc ((went w r ++ went w l) ++ went (wcur w d) c), out ++ [(n1, wopt (wcur w d))]).
  Proof.
    intros fuel stk w d l c r sg n out Hsub Hrep.
    pose proof (read_subt s Hinv d l c r n sg Hsub Hrep) as HR. cbv zeta in HR.
    pose proof (read_subt_arr s Hinv d l c r n sg Hsub Hrep) as HA.
    destruct (py_node_read_o n sg (Some (addr d))) as [n1 sg1] eqn:Er. cbn [fst snd] in HR, HA.
    destruct HR as [Hn1 Hrep1].
    exists n1, sg1. split; [exact Hn1|]. split; [exact Hrep1|]. split; [exact HA|].
    rewrite wloop_S.
    assert (Hlen : negb (N.of_nat (length (stk ++ [(Some (addr d), wopt w)])) =? 0) = true).
    { rewrite app_length. cbn [length]. apply negb_true_iff, N.eqb_neq. lia. }
    rewrite Hlen, py_pop_snoc, Er. cbv zeta.
    rewrite (cur_eq _ _ _ _ _ w Hn1).
    rewrite (wpush_right d l c r n1 w stk Hsub Hn1).
    rewrite (wpush_left d l c r n1 w _ Hsub Hn1).
    rewrite (wpush_child d l c r n1 (wcur w d) _ Hsub Hn1).
    rewrite !map_app, <- !app_assoc. reflexivity.
  Qed.

  Definition wentry_ok (e : N * tst) : Prop := snd e <> Lf /\ subt (snd e) (tr s).

  Lemma wentry_ok_sub : forall w t w' t', wentry_ok (w, t) -> subt t' t -> Forall wentry_ok (went w' t').
  Proof.
    intros w t w' t' (Hne & Hsub) Hs'. destruct t' as [|d' l' c' r']; [constructor|].
    cbn [went]. constructor; [|constructor]. cbn [fst snd] in *.
    split; [discriminate|]. apply (subt_trans _ _ _ Hs' Hsub).
  Qed.

  Lemma wloop_spec : forall fuel ms sg n out,
    Forall wentry_ok ms -> (wtot ms <= fuel)%nat -> trep (files_of s) sg ->
    exists sg' n' items,
      wloop fuel (sg, n, map wenc ms, out) = Some (sg', n', [], out ++ items) /\
      trep (files_of s) sg' /\ pm_array sg' = pm_array sg /\
      Forall2 (witem_rep s) items (flat_map WF (rev ms)).
  Proof.
    induction fuel as [|fuel IH]; intros ms sg n out Hok Hfuel Hrep.
    - destruct ms as [|[w t] ms].
      + exists sg, n, []. rewrite wloop_O, app_nil_r. cbn [map rev flat_map].
        split; [reflexivity|]. split; [exact Hrep|]. split; [reflexivity|constructor].
      + exfalso. inversion Hok as [|? ? (Hne & _) _]; subst. cbn [snd] in Hne.
        destruct t; [congruence|]. cbn [wtot snd size] in Hfuel. lia.
    - destruct (snoc_case _ ms) as [->|(ms' & [w t] & ->)].
      + exists sg, n, []. rewrite wloop_S, app_nil_r. cbn [map length rev flat_map].
        change (N.of_nat 0 =? 0) with true. cbn [negb].
        split; [reflexivity|]. split; [exact Hrep|]. split; [reflexivity|constructor].
      + apply Forall_app in Hok. destruct Hok as [Hok' Hok1].
        inversion Hok1 as [|? ? He _]; subst.
        pose proof He as (Hne & Hsub). cbn [snd] in Hne, Hsub.
        destruct t as [|d l c r]; [congruence|].
        rewrite map_app. cbn [map]. unfold wenc at 2. cbn [fst snd root_addr].
        destruct (wloop_step fuel (map wenc ms') w d l c r sg n out Hsub Hrep)
          as (n1 & sg1 & Hn1 & Hrep1 & Harr1 & Estep).
        rewrite Estep, <- map_app.
        rewrite wtot_app in Hfuel. cbn [wtot snd size] in Hfuel.
        destruct (IH (ms' ++ (went w r ++ went w l) ++ went (wcur w d) c) sg1 n1 (out ++ [(n1, wopt (wcur w d))]))
          as (sg' & n' & items & E & Hrep' & Harr' & HF).
        { apply Forall_app. split; [exact Hok'|]. apply Forall_app. split.
          - apply Forall_app. split.
            + apply (wentry_ok_sub w (Nd d l c r) _ r He). apply subt_r, subt_here.
            + apply (wentry_ok_sub w (Nd d l c r) _ l He). apply subt_l, subt_here.
          - apply (wentry_ok_sub w (Nd d l c r) _ c He). apply subt_c, subt_here. }
        { rewrite !wtot_app, !wtot_went. lia. }
        { exact Hrep1. }
        exists sg', n', ((n1, wopt (wcur w d)) :: items). rewrite E, <- app_assoc.
        split; [reflexivity|]. split; [exact Hrep'|]. split; [rewrite Harr'; exact Harr1|].
        rewrite rev_app_distr. cbn [rev app flat_map]. unfold WF at 1. cbn [fst snd]. cbn [dww]. fold (wcur w d).
        rewrite !rev_app_distr, !flat_map_app, !WF_went, <- !app_assoc in HF.
        cbn [app]. constructor.
        * split; [reflexivity|]. exists l, c, r. cbn [fst snd]. split; [exact Hsub|exact Hn1].
        * rewrite <- !app_assoc. exact HF.
  Qed.

  Theorem dww_iter_root : forall sg,
    root_first s -> trep (files_of s) sg ->
    exists items sg', py_trie_dfs_with_webentity_iter sg = Some (items, sg') /\
      trep (files_of s) sg' /\ pm_array sg' = pm_array sg /\
      Forall2 (witem_rep s) items (dww 0 (tr s)).
  Proof.
    intros sg Hroot Hrep. rewrite dww_iter_eq, init_read.
    set (nd0 := nd_set_tail [] (nd_set_exists false (nd_set_block None py_node_new))).
    destruct Hroot as [Hr|Hr].
    - destruct (tr s) as [|d l c r] eqn:Et; [cbn in Hr; discriminate Hr|].
      cbn [root_addr] in Hr.
      assert (Hsub : subt (Nd d l c r) (tr s)) by (rewrite Et; apply subt_here).
      change py_first_data_block with bsz. rewrite <- Hr.
      pose proof (read_subt s Hinv d l c r nd0 sg Hsub Hrep) as HR. cbv zeta in HR.
      pose proof (read_subt_arr s Hinv d l c r nd0 sg Hsub Hrep) as HA.
      destruct (py_node_read_o nd0 sg (Some (addr d))) as [n0 sg0]. cbn [fst snd] in HR, HA.
      destruct HR as [Hn0 Hrep0].
      rewrite init_read. fold nd0.
      pose proof (read_subt s Hinv d l c r nd0 sg0 Hsub Hrep0) as HR. cbv zeta in HR.
      pose proof (read_subt_arr s Hinv d l c r nd0 sg0 Hsub Hrep0) as HA1.
      destruct (py_node_read_o nd0 sg0 (Some (addr d))) as [n1 sg1]. cbn [fst snd] in HR, HA1.
      destruct HR as [Hn1 Hrep1].
      pose proof Hn0 as (He0 & _). pose proof Hn1 as (_ & Hb1 & _).
      rewrite He0. cbn [negb]. destruct (init_none sg1) as (n2 & ->). rewrite Hb1.
      destruct (wloop_spec (S (length (pm_array sg1))) [(0, Nd d l c r)] sg1 n2 [])
        as (sg' & n' & items & E & Hrep' & Harr' & HF).
      { constructor; [|constructor]. split; [discriminate|exact Hsub]. }
      { cbn [wtot snd]. pose proof (fuel_enough s (Nd d l c r) sg1 Hsub Hrep1). lia. }
      { exact Hrep1. }
      cbn [map] in E. unfold wenc in E. cbn [fst snd root_addr] in E. change (wopt 0) with (@None N) in E. rewrite E.
      exists items, sg'. split; [reflexivity|]. split; [exact Hrep'|].
      split; [rewrite Harr', HA1; exact HA|].
      cbn [rev app flat_map] in HF. unfold WF in HF. cbn [fst snd] in HF. rewrite app_nil_r in HF. exact HF.
    - rewrite Hr.
      pose proof (read_empty s Hr nd0 sg Hrep) as HR. cbv zeta in HR.
      destruct (py_node_read_o nd0 sg (Some py_first_data_block)) as [n0 sg0]. cbn [fst snd] in HR.
      destruct HR as (He0 & Hrep0 & HA0).
      rewrite init_read. fold nd0.
      pose proof (read_empty s Hr nd0 sg0 Hrep0) as HR. cbv zeta in HR.
      destruct (py_node_read_o nd0 sg0 (Some py_first_data_block)) as [n1 sg1]. cbn [fst snd] in HR.
      destruct HR as (_ & Hrep1 & HA1).
      rewrite He0. cbn [negb].
      exists [], sg1. split; [reflexivity|]. split; [exact Hrep1|]. split; [rewrite HA1; exact HA0|].
      constructor.
  Qed.
End DwwOnState.

Theorem py_trie_dfs_with_webentity_iter_spec : forall s, Inv18 s -> forall sg, root_first s -> trep (files_of s) sg ->
  exists items sg', py_trie_dfs_with_webentity_iter sg = Some (items, sg') /\ trep (files_of s) sg' /\ pm_array sg' = pm_array sg /\
    Forall2 (fun it m => snd it = (if snd m =? 0 then None else Some (snd m)) /\
                         exists l c r, subt (Nd (fst m) l c r) (tr s) /\ node_at (Nd (fst m) l c r) (fst it))
            items (dww 0 (tr s)).
Proof. intros s Hinv sg Hroot Hrep. exact (dww_iter_root s Hinv sg Hroot Hrep). Qed.

(* ====================================================================================== *)
(* 2. the nested dict of the request and the model's flat list of entries                 *)
(* ====================================================================================== *)
(* the entries of the nested dict, first level in order, second level in order *)
Definition gtag (k : py_gkey) : N * N :=
  match k with GKPagesCrawled => (1, 0) | GKPagesUncrawled => (2, 0) | GKWe w => (0, w) end.
Definition kenc (a : N) (k : py_gkey) : N * N * N := (a, fst (gtag k), snd (gtag k)).
Definition cflat (a : N) (c : list (py_gkey * N)) : list (N * N * N * N) := map (fun kv => (kenc a (fst kv), snd kv)) c.
Definition flat (g : py_graph) : list (N * N * N * N) := flat_map (fun ac => cflat (fst ac) (snd ac)) g.

Definition keqb (k k' : N * N * N) : bool :=
  let '(a, b, c) := k in let '(a', b', c') := k' in (a =? a') && (b =? b') && (c =? c').

Lemma keqb_spec : forall k k', reflect (k = k') (keqb k k').
Proof.
  intros [[a b] c] [[a' b'] c']. unfold keqb.
  destruct (N.eqb_spec a a') as [->|Ha]; [|constructor; congruence].
  destruct (N.eqb_spec b b') as [->|Hb]; [|constructor; congruence].
  destruct (N.eqb_spec c c') as [->|Hc]; constructor; congruence.
Qed.

Lemma keqb_refl : forall k, keqb k k = true.
Proof. intro k. destruct (keqb_spec k k); congruence. Qed.

Lemma py_gkey_eqb_spec : forall k k', reflect (k = k') (py_gkey_eqb k k').
Proof.
  intros [| |x] [| |y]; cbn [py_gkey_eqb]; try (constructor; congruence).
  destruct (N.eqb_spec x y) as [->|H]; constructor; congruence.
Qed.

Lemma kenc_inj : forall a k a' k', kenc a k = kenc a' k' -> a = a' /\ k = k'.
Proof. intros a [| |x] a' [| |y] H; unfold kenc in H; cbn in H; inversion H; auto. Qed.

Lemma gkey_keqb : forall a k k', py_gkey_eqb k k' = keqb (kenc a k) (kenc a k').
Proof.
  intros a k k'. destruct (py_gkey_eqb_spec k k') as [->|H]; [rewrite keqb_refl; reflexivity|].
  destruct (keqb_spec (kenc a k) (kenc a k')) as [E|_]; [|reflexivity].
  apply kenc_inj in E. destruct E as [_ E]. contradiction.
Qed.

Lemma gincr_cons : forall k v k' v' g,
  gincr k v ((k', v') :: g) = if keqb k k' then (k', v' + v) :: g else (k', v') :: gincr k v g.
Proof. intros [[a b] c] v [[a' b'] c'] v' g. reflexivity. Qed.

(* the value of a key: first match *)
Fixpoint glook (k : N * N * N) (g : list (N * N * N * N)) : option N :=
  match g with
  | [] => None
  | (k', v) :: g' => if keqb k k' then Some v else glook k g'
  end.

Definition bump (o : option N) (v : N) : N := match o with Some x => x + v | None => v end.

Lemma glook_gincr : forall k v g k',
  glook k' (gincr k v g) = if keqb k k' then Some (bump (glook k g) v) else glook k' g.
Proof.
  intros k v g k'. induction g as [|[k0 v0] g IH].
  - cbn [gincr glook bump]. destruct (keqb_spec k k') as [->|H].
    + rewrite keqb_refl. reflexivity.
    + destruct (keqb_spec k' k); [congruence|reflexivity].
  - rewrite gincr_cons. cbn [glook]. destruct (keqb_spec k k0) as [->|H0].
    + cbn [glook bump]. destruct (keqb_spec k0 k') as [->|H]; [rewrite keqb_refl; reflexivity|].
      destruct (keqb_spec k' k0); [congruence|reflexivity].
    + cbn [glook]. rewrite IH. destruct (keqb_spec k k') as [->|H].
      * destruct (keqb_spec k' k0); [congruence|reflexivity].
      * reflexivity.
Qed.

Lemma gincr_keys_in : forall k v g k', In k' (map fst (gincr k v g)) -> k' = k \/ In k' (map fst g).
Proof.
  intros k v g k'. induction g as [|[k0 v0] g IH]; intro H.
  - cbn in H. destruct H as [<-|[]]. left; reflexivity.
  - rewrite gincr_cons in H. destruct (keqb k k0).
    + right. exact H.
    + cbn [map fst In] in H |- *. destruct H as [H|H]; [right; left; exact H|].
      destruct (IH H) as [E|E]; [left; exact E|right; right; exact E].
Qed.

Lemma gincr_nodup : forall k v g, NoDup (map fst g) -> NoDup (map fst (gincr k v g)).
Proof.
  intros k v g. induction g as [|[k0 v0] g IH]; intro H.
  - cbn. constructor; [intros []|constructor].
  - rewrite gincr_cons. destruct (keqb_spec k k0) as [->|Hk]; [exact H|].
    cbn [map fst] in H |- *. apply NoDup_cons_iff in H. destruct H as [Hn H].
    constructor; [|exact (IH H)].
    intro Hin. apply gincr_keys_in in Hin. destruct Hin as [E|Hin]; [congruence|contradiction].
Qed.

Lemma glook_app : forall k l1 l2,
  glook k (l1 ++ l2) = match glook k l1 with Some x => Some x | None => glook k l2 end.
Proof.
  intros k l1 l2. induction l1 as [|[k0 v0] l1 IH]; [reflexivity|].
  cbn [app glook]. destruct (keqb k k0); [reflexivity|exact IH].
Qed.

Lemma glook_none : forall k g, ~ In k (map fst g) -> glook k g = None.
Proof.
  intros k g. induction g as [|[k0 v0] g IH]; intro H; [reflexivity|].
  cbn [glook]. cbn [map fst In] in H. destruct (keqb_spec k k0) as [->|_]; [exfalso; apply H; left; reflexivity|].
  apply IH. intro Hin. apply H. right. exact Hin.
Qed.

Lemma glook_in : forall k v g, NoDup (map fst g) -> (In (k, v) g <-> glook k g = Some v).
Proof.
  intros k v g. induction g as [|[k0 v0] g IH]; intro H.
  - cbn. split; [intros []|discriminate].
  - cbn [map fst] in H. apply NoDup_cons_iff in H. destruct H as [Hn H]. cbn [In glook].
    destruct (keqb_spec k k0) as [->|Hk].
    + split.
      * intros [E|Hin]; [congruence|]. exfalso. apply Hn. exact (in_map fst _ _ Hin).
      * intro E. left. congruence.
    + rewrite <- (IH H). split; [intros [E|Hin]; [congruence|exact Hin]|intro Hin; right; exact Hin].
Qed.

Lemma look_perm : forall l l', NoDup (map fst l) -> NoDup (map fst l') ->
  (forall k, glook k l = glook k l') -> Permutation l l'.
Proof.
  intros l l' H H' Hl. apply NoDup_Permutation.
  - exact (NoDup_map_inv _ _ H).
  - exact (NoDup_map_inv _ _ H').
  - intros [k v]. rewrite (glook_in k v l H), (glook_in k v l' H'), Hl. reflexivity.
Qed.

(* ---- the Counter and the defaultdict ---- *)
Lemma cflat_keys : forall a c k, In k (map fst (cflat a c)) -> fst (fst k) = a.
Proof.
  intros a c k H. unfold cflat in H. rewrite map_map in H. apply in_map_iff in H.
  destruct H as (kv & <- & _). reflexivity.
Qed.

Lemma flat_keys : forall g k, In k (map fst (flat g)) -> In (fst (fst k)) (map fst g).
Proof.
  intros g k. induction g as [|[a c] g IH]; intro H; [exact H|].
  cbn [flat flat_map fst snd] in H. rewrite map_app, in_app_iff in H. cbn [map fst In].
  destruct H as [H|H]; [left; symmetry; exact (cflat_keys _ _ _ H)|right; exact (IH H)].
Qed.

Lemma glook_cflat_incr : forall a key v c k',
  glook k' (cflat a (py_gcounter_incr key v c))
  = if keqb (kenc a key) k' then Some (bump (glook (kenc a key) (cflat a c)) v) else glook k' (cflat a c).
Proof.
  intros a key v c k'. induction c as [|[k0 v0] c IH].
  - cbn [py_gcounter_incr cflat map fst snd glook bump]. destruct (keqb_spec (kenc a key) k') as [E'|H]; [subst k'|].
    + rewrite keqb_refl. reflexivity.
    + destruct (keqb_spec k' (kenc a key)); [congruence|reflexivity].
  - cbn [py_gcounter_incr]. rewrite (gkey_keqb a key k0).
    destruct (keqb_spec (kenc a key) (kenc a k0)) as [E|H0].
    + cbn [cflat map fst snd glook]. rewrite <- E, keqb_refl. cbn [bump].
      destruct (keqb_spec (kenc a key) k') as [E'|H]; [subst k'|]; [rewrite keqb_refl; reflexivity|].
      destruct (keqb_spec k' (kenc a key)); [congruence|reflexivity].
    + cbn [cflat map fst snd glook]. fold (cflat a (py_gcounter_incr key v c)). fold (cflat a c). rewrite IH.
      destruct (keqb_spec (kenc a key) k') as [E'|H]; [subst k'|].
      * destruct (keqb_spec (kenc a key) (kenc a k0)); [congruence|reflexivity].
      * reflexivity.
Qed.

Lemma flat_cons : forall a c g, flat ((a, c) :: g) = cflat a c ++ flat g.
Proof. reflexivity. Qed.

Lemma glook_flat_incr : forall a key v g k', NoDup (map fst g) ->
  glook k' (flat (py_graph_incr a key v g))
  = if keqb (kenc a key) k' then Some (bump (glook (kenc a key) (flat g)) v) else glook k' (flat g).
Proof.
  intros a key v g k'. induction g as [|[a0 c0] g IH]; intro Hnd.
  - cbn [py_graph_incr flat flat_map fst snd cflat map app glook bump].
    destruct (keqb_spec (kenc a key) k') as [E'|H]; [subst k'|].
    + rewrite keqb_refl. reflexivity.
    + destruct (keqb_spec k' (kenc a key)); [congruence|reflexivity].
  - cbn [map fst] in Hnd. apply NoDup_cons_iff in Hnd. destruct Hnd as [Hn Hnd].
    cbn [py_graph_incr]. destruct (N.eqb_spec a a0) as [<-|Ha].
    + rewrite !flat_cons, !glook_app, glook_cflat_incr.
      assert (Hnone : glook (kenc a key) (flat g) = None).
      { apply glook_none. intro Hin. apply Hn. exact (flat_keys _ _ Hin). }
      destruct (keqb (kenc a key) k'); [|reflexivity].
      destruct (glook (kenc a key) (cflat a c0)); [reflexivity|]. rewrite Hnone. reflexivity.
    + rewrite !flat_cons, !glook_app, (IH Hnd).
      assert (Hnone : glook (kenc a key) (cflat a0 c0) = None).
      { apply glook_none. intro Hin. apply Ha. exact (cflat_keys _ _ _ Hin). }
      rewrite Hnone.
      destruct (keqb_spec (kenc a key) k') as [E'|H]; [subst k'|]; [rewrite Hnone; reflexivity|reflexivity].
Qed.

(* no key twice at either level *)
Definition gwf (g : py_graph) : Prop := NoDup (map fst g) /\ Forall (fun ac => NoDup (map fst (snd ac))) g.

Lemma gcounter_keys_in : forall k v c k', In k' (map fst (py_gcounter_incr k v c)) -> k' = k \/ In k' (map fst c).
Proof.
  intros k v c k'. induction c as [|[k0 v0] c IH]; intro H.
  - cbn in H. destruct H as [<-|[]]. left; reflexivity.
  - cbn [py_gcounter_incr] in H. destruct (py_gkey_eqb k k0).
    + right. exact H.
    + cbn [map fst In] in H |- *. destruct H as [H|H]; [right; left; exact H|].
      destruct (IH H) as [E|E]; [left; exact E|right; right; exact E].
Qed.

Lemma gcounter_nodup : forall k v c, NoDup (map fst c) -> NoDup (map fst (py_gcounter_incr k v c)).
Proof.
  intros k v c. induction c as [|[k0 v0] c IH]; intro H.
  - cbn. constructor; [intros []|constructor].
  - cbn [py_gcounter_incr]. destruct (py_gkey_eqb_spec k k0) as [->|Hk]; [exact H|].
    cbn [map fst] in H |- *. apply NoDup_cons_iff in H. destruct H as [Hn H].
    constructor; [|exact (IH H)].
    intro Hin. apply gcounter_keys_in in Hin. destruct Hin as [E|Hin]; [congruence|contradiction].
Qed.

Lemma graph_keys_in : forall a k v g a', In a' (map fst (py_graph_incr a k v g)) -> a' = a \/ In a' (map fst g).
Proof.
  intros a k v g a'. induction g as [|[a0 c0] g IH]; intro H.
  - cbn in H. destruct H as [<-|[]]. left; reflexivity.
  - cbn [py_graph_incr] in H. destruct (a =? a0).
    + right. exact H.
    + cbn [map fst In] in H |- *. destruct H as [H|H]; [right; left; exact H|].
      destruct (IH H) as [E|E]; [left; exact E|right; right; exact E].
Qed.

Lemma gwf_nil : gwf [].
Proof. split; constructor. Qed.

Lemma gwf_incr : forall a k v g, gwf g -> gwf (py_graph_incr a k v g).
Proof.
  intros a k v g. induction g as [|[a0 c0] g IH]; intros [H1 H2].
  - cbn [py_graph_incr]. split.
    + cbn. constructor; [intros []|constructor].
    + constructor; [|constructor]. cbn. constructor; [intros []|constructor].
  - cbn [py_graph_incr]. cbn [map fst] in H1. apply NoDup_cons_iff in H1. destruct H1 as [Hn H1].
    inversion H2 as [|? ? Hc H2']; subst. cbn [snd] in Hc.
    destruct (N.eqb_spec a a0) as [<-|Ha].
    + split; [cbn [map fst]; constructor; assumption|].
      constructor; [cbn [snd]; exact (gcounter_nodup _ _ _ Hc)|exact H2'].
    + destruct (IH (conj H1 H2')) as [I1 I2]. split.
      * cbn [map fst]. constructor; [|exact I1].
        intro Hin. apply graph_keys_in in Hin. destruct Hin as [E|Hin]; [congruence|contradiction].
      * constructor; [exact Hc|exact I2].
Qed.

Lemma NoDup_app_intro : forall (A : Type) (a b : list A), NoDup a -> NoDup b ->
  (forall x, In x a -> ~ In x b) -> NoDup (a ++ b).
Proof.
  intros A a b Ha Hb Hd. induction Ha as [|x a Hx Ha IH]; [exact Hb|].
  cbn [app]. constructor.
  - rewrite in_app_iff. intros [H|H]; [contradiction|]. exact (Hd x (or_introl eq_refl) H).
  - apply IH. intros y Hy. apply Hd. right. exact Hy.
Qed.

Lemma gwf_flat_nodup : forall g, gwf g -> NoDup (map fst (flat g)).
Proof.
  induction g as [|[a c] g IH]; intros [H1 H2]; [constructor|].
  cbn [map fst] in H1. apply NoDup_cons_iff in H1. destruct H1 as [Hn H1].
  inversion H2 as [|? ? Hc H2']; subst. cbn [snd] in Hc.
  rewrite flat_cons, map_app. apply NoDup_app_intro.
  - unfold cflat. rewrite map_map. cbn [fst]. rewrite <- (map_map fst (kenc a)).
    apply FinFun.Injective_map_NoDup; [|exact Hc].
    intros x y E. exact (proj2 (kenc_inj _ _ _ _ E)).
  - exact (IH (conj H1 H2')).
  - intros k Hk Hk'. apply Hn. rewrite <- (cflat_keys _ _ _ Hk). exact (flat_keys _ _ Hk').
Qed.

(* the relation between the nested dict and the model's flat list, kept by every increment *)
Definition Grel (g : py_graph) (m : list (N * N * N * N)) : Prop :=
  gwf g /\ NoDup (map fst m) /\ forall k, glook k (flat g) = glook k m.

Lemma Grel_nil : Grel [] [].
Proof. split; [exact gwf_nil|]. split; [constructor|reflexivity]. Qed.

Theorem Grel_incr : forall a key v g m, Grel g m -> Grel (py_graph_incr a key v g) (gincr (kenc a key) v m).
Proof.
  intros a key v g m (Hw & Hn & Hl). split; [exact (gwf_incr _ _ _ _ Hw)|]. split; [exact (gincr_nodup _ _ _ Hn)|].
  intro k. rewrite (glook_flat_incr _ _ _ _ _ (proj1 Hw)), glook_gincr, !Hl. reflexivity.
Qed.

Theorem Grel_perm : forall g m, Grel g m -> Permutation (flat g) m.
Proof. intros g m (Hw & Hn & Hl). exact (look_perm _ _ (gwf_flat_nodup _ Hw) Hn Hl). Qed.

(* the two statements of the task, for one increment *)
Corollary py_graph_incr_look : forall a key v g k, gwf g ->
  glook k (flat (py_graph_incr a key v g)) = glook k (gincr (kenc a key) v (flat g)).
Proof. intros a key v g k Hw. rewrite (glook_flat_incr _ _ _ _ _ (proj1 Hw)), glook_gincr. reflexivity. Qed.

Corollary py_graph_incr_perm : forall a key v g, gwf g ->
  Permutation (flat (py_graph_incr a key v g)) (gincr (kenc a key) v (flat g)) /\
  gwf (py_graph_incr a key v g) /\ NoDup (map fst (flat (py_graph_incr a key v g))).
Proof.
  intros a key v g Hw. split; [|split; [exact (gwf_incr _ _ _ _ Hw)|exact (gwf_flat_nodup _ (gwf_incr _ _ _ _ Hw))]].
  apply Grel_perm. apply Grel_incr. split; [exact Hw|]. split; [exact (gwf_flat_nodup _ Hw)|reflexivity].
Qed.

(* ====================================================================================== *)
(* 3. Traph.get_webentities_links                                                         *)
(* ====================================================================================== *)
Definition St1 : Type := option (py_pm * py_graph * list (N * N) * list (option N * N)).

(* body of `for node, source_webentity in self.lru_trie.dfs_with_webentity_iter()` *)
Definition body1 (v_out : bool) (st : St1) (v__it : py_node * option N) : St1 :=
 match st with
 | None => None
 | Some (sg, v_graph, v_link_pointers, v_page_to_webentity) => (let '(v_node, v_source_webentity) := v__it in
 (if (negb (py_node_is_page v_node))
 then (Some (sg, v_graph, v_link_pointers, v_page_to_webentity))
 else (match v_source_webentity with
 | None => (Some (sg, v_graph, v_link_pointers, v_page_to_webentity))
 | Some v_source_webentity => (if (N.eqb v_source_webentity 0%N)
 then (Some (sg, v_graph, v_link_pointers, v_page_to_webentity))
 else (let v_graph := py_graph_incr v_source_webentity (if (py_node_is_crawled v_node) then GKPagesCrawled else GKPagesUncrawled) 1%N v_graph in
 (let v_page_to_webentity := py_bw_set (nd_block v_node) v_source_webentity v_page_to_webentity in
 (let v_link_pointers := (if (py_node_has_links v_node v_out)
 then (let v_link_pointers := v_link_pointers ++ [(v_source_webentity, (py_node_links v_node v_out))] in
 v_link_pointers)
 else v_link_pointers) in
 (Some (sg, v_graph, v_link_pointers, v_page_to_webentity)))))) end))) end.

(* body of `for target, weight in self.link_store.weighted_link_nodes_iter(links_block)` *)
Definition body3 (v_include_auto : bool) (v_page_to_webentity : list (option N * N)) (v_source_webentity : N)
    (st : option (py_pm * py_graph)) (v__it : option N * N) : option (py_pm * py_graph) :=
 match st with
 | None => None
 | Some (sg, v_graph) => (let '(v_target, v_weight) := v__it in
 (let v_target_webentity := py_bw_get v_target v_page_to_webentity in
 (match v_target_webentity with
 | None => (Some (sg, v_graph))
 | Some v_target_webentity => (if (N.eqb v_target_webentity 0%N)
 then (Some (sg, v_graph))
 else (if ((negb v_include_auto) && (N.eqb v_source_webentity v_target_webentity))
 then (Some (sg, v_graph))
 else (let v_graph := py_graph_incr v_source_webentity (GKWe v_target_webentity) v_weight v_graph in
 (Some (sg, v_graph))))) end))) end.

(* body of `for source_webentity, links_block in link_pointers` *)
Definition body2 (sgl : py_pm) (v_include_auto : bool) (v_page_to_webentity : list (option N * N))
    (st : option (py_pm * py_graph)) (v__it : N * N) : option (py_pm * py_graph) :=
 match st with
 | None => None
 | Some (sg, v_graph) => (let '(v_source_webentity, v_links_block) := v__it in
 (match py_ls_weighted_link_nodes_iter sgl v_links_block with
 | None => None
 | Some v__stubs => (match fold_left (body3 v_include_auto v_page_to_webentity v_source_webentity) v__stubs (Some (sg, v_graph)) with
 | None => None
 | Some (sg, v_graph) => (Some (sg, v_graph)) end) end)) end.

Lemma get_webentities_links_eq : forall sg sgl out auto,
  py_traph_get_webentities_links sg sgl out auto =
  match py_trie_dfs_with_webentity_iter sg with
  | None => None
  | Some (items, sg) =>
      match fold_left (body1 out) items (Some (sg, [], [], [])) with
      | None => None
      | Some (sg, g, lps, p2w) =>
          match fold_left (body2 sgl auto p2w) lps (Some (sg, g)) with
          | None => None
          | Some (sg, g) => Some (sg, g)
          end
      end
  end.
Proof. reflexivity. Qed.

(* ---- the same computation over the model's lists ---- *)
Definition pwf (ms : list (nd * N)) : list (nd * N) := filter (fun x => page (fst x) && negb (snd x =? 0)) ms.
Definition ckey (d : nd) : py_gkey := if crawled d then GKPagesCrawled else GKPagesUncrawled.
Definition pg0 (pw : list (nd * N)) (g : py_graph) : py_graph :=
  fold_left (fun g (x : nd * N) => py_graph_incr (snd x) (ckey (fst x)) 1 g) pw g.
Definition pdict (pw : list (nd * N)) (dc : list (option N * N)) : list (option N * N) :=
  fold_left (fun dc (x : nd * N) => py_bw_set (Some (addr (fst x))) (snd x) dc) pw dc.
Definition plps (out : bool) (pw : list (nd * N)) : list (N * N) :=
  flat_map (fun x : nd * N => if head_dir out (fst x) =? 0 then [] else [(snd x, head_dir out (fst x))]) pw.
Definition pinner (auto : bool) (dc : list (option N * N)) (w : N) (g : py_graph) (x : N * N) : py_graph :=
  match py_bw_get (Some (fst x)) dc with
  | None => g
  | Some tw => if tw =? 0 then g else if negb auto && (w =? tw) then g else py_graph_incr w (GKWe tw) (snd x) g
  end.
Definition pouter (auto : bool) (dc : list (option N * N)) (st : list (N * N)) (g : py_graph) (lp : N * N) : py_graph :=
  fold_left (pinner auto dc (fst lp)) (weighted (targets_of st (snd lp))) g.

(* the model, in the same pieces *)
Definition p2wf (pw : list (nd * N)) (a : N) : N :=
  match List.find (fun x => addr (fst x) =? a) pw with Some (_, w) => w | None => 0 end.
Definition minner (auto : bool) (p2w : N -> N) (w : N) (g : list (N * N * N * N)) (x : N * N) : list (N * N * N * N) :=
  let '(tg, wt) := x in
  let tw := p2w tg in
  if tw =? 0 then g else if negb auto && (w =? tw) then g else gincr (w, 0, tw) wt g.
Definition mouter (out auto : bool) (p2w : N -> N) (st : list (N * N)) (g : list (N * N * N * N)) (x : nd * N)
    : list (N * N * N * N) :=
  let '(d, w) := x in
  if head_dir out d =? 0 then g
  else fold_left (minner auto p2w w) (weighted (targets_of st (head_dir out d))) g.
Definition mg0 (pw : list (nd * N)) (g : list (N * N * N * N)) : list (N * N * N * N) :=
  fold_left (fun g '(d, w) => gincr (w, if crawled d then 1 else 2, 0) 1 g) pw g.

Lemma webentities_links_eq : forall out auto s,
  webentities_links out auto s =
  let pw := pwf (dww 0 (tr s)) in
  fold_left (mouter out auto (p2wf pw) (stubs s)) pw (mg0 pw []).
Proof. reflexivity. Qed.

(* ---- first loop ---- *)
Lemma node_at_links : forall d l c r n out, node_at (Nd d l c r) n ->
  py_node_has_links n out = negb (head_dir out d =? 0) /\ py_node_links n out = head_dir out d.
Proof.
  intros d l c r n out (_ & _ & Hd & _). unfold py_node_has_links, py_node_links, head_dir. rewrite Hd.
  destruct out; cbn [negb]; rewrite ?GenTraphLFacts.get_out, ?GenTraphLFacts.get_in; cbn [main_block b_out b_in];
    split; reflexivity.
Qed.

Lemma loop1_spec : forall s out items ms, Forall2 (witem_rep s) items ms ->
  forall sg g lp dc,
    fold_left (body1 out) items (Some (sg, g, lp, dc))
    = Some (sg, pg0 (pwf ms) g, lp ++ plps out (pwf ms), pdict (pwf ms) dc).
Proof.
  intros s out items ms H. induction H as [|[n wo] [d w] items ms Hit _ IH]; intros sg g lp dc.
  - cbn [fold_left pwf filter pg0 pdict plps flat_map]. rewrite app_nil_r. reflexivity.
  - destruct Hit as (Hw & l & c & r & Hsub & Hn). cbn [fst snd] in Hw, Hsub, Hn.
    cbn [fold_left body1]. rewrite (node_at_is_page _ _ _ _ _ Hn). unfold pwf. cbn [filter fst snd]. fold (pwf ms).
    destruct (page d); cbn [negb andb]; [|apply IH].
    rewrite Hw. destruct (w =? 0) eqn:Ew; cbn [negb]; [apply IH|]. rewrite Ew.
    rewrite IH. pose proof Hn as (_ & Hb & _). rewrite Hb, (node_at_is_crawled _ _ _ _ _ Hn).
    destruct (node_at_links d l c r n out Hn) as [Hh Hl]. rewrite Hh, Hl.
    cbn [pg0 pdict plps fold_left flat_map fst snd]. unfold ckey.
    destruct (head_dir out d =? 0); cbn [negb]; [reflexivity|]. rewrite <- app_assoc. reflexivity.
Qed.

(* ---- second loop ---- *)
Lemma loop3_spec : forall auto dc w xs sg g,
  fold_left (body3 auto dc w) (map lift xs) (Some (sg, g)) = Some (sg, fold_left (pinner auto dc w) xs g).
Proof.
  intros auto dc w. induction xs as [|[tg wt] xs IH]; intros sg g; [reflexivity|].
  cbn [map fold_left]. change (lift (tg, wt)) with (Some tg, wt). cbn [body3]. unfold pinner at 2. cbn [fst snd].
  destruct (py_bw_get (Some tg) dc) as [tw|]; [|apply IH].
  destruct (tw =? 0); [apply IH|]. destruct (negb auto && (w =? tw)); apply IH.
Qed.

Lemma loop2_spec : forall sgl auto dc st lps sg g,
  (forall w h, In (w, h) lps -> py_ls_weighted_link_nodes_iter sgl h = Some (map lift (weighted (targets_of st h)))) ->
  fold_left (body2 sgl auto dc) lps (Some (sg, g)) = Some (sg, fold_left (pouter auto dc st) lps g).
Proof.
  intros sgl auto dc st. induction lps as [|[w h] lps IH]; intros sg g Hit; [reflexivity|].
  cbn [fold_left body2]. rewrite (Hit w h (or_introl eq_refl)), loop3_spec.
  rewrite IH; [reflexivity|]. intros w' h' Hin. apply (Hit w' h'). right. exact Hin.
Qed.

(* ---- the dict page_to_webentity is the model's p2w ---- *)
Lemma bw_get_set : forall k v dc k', py_bw_get k' (py_bw_set k v dc) = if oN_eqb k k' then Some v else py_bw_get k' dc.
Proof.
  intros k v dc k'. induction dc as [|[k0 v0] dc IH].
  - cbn [py_bw_set py_bw_get]. destruct (oN_eqb k' k) eqn:E1, (oN_eqb k k') eqn:E2; try reflexivity.
    + destruct k, k'; cbn [oN_eqb] in *; try discriminate. apply N.eqb_eq in E1. subst. rewrite N.eqb_refl in E2. discriminate.
    + destruct k, k'; cbn [oN_eqb] in *; try discriminate. apply N.eqb_eq in E2. subst. rewrite N.eqb_refl in E1. discriminate.
  - assert (Heq : forall a b, oN_eqb a b = true -> a = b).
    { intros [x|] [y|] H; cbn [oN_eqb] in H; try discriminate; [apply N.eqb_eq in H; congruence|reflexivity]. }
    cbn [py_bw_set]. destruct (oN_eqb k k0) eqn:E0.
    + apply Heq in E0. subst k0. cbn [py_bw_get]. destruct (oN_eqb k' k) eqn:E1.
      * apply Heq in E1. subst k'. rewrite oN_eqb_refl. reflexivity.
      * destruct (oN_eqb k k') eqn:E2; [apply Heq in E2; subst; rewrite oN_eqb_refl in E1; discriminate|reflexivity].
    + cbn [py_bw_get]. rewrite IH. destruct (oN_eqb k' k0) eqn:E1; [|reflexivity].
      apply Heq in E1. subst k'. rewrite E0. reflexivity.
Qed.

Lemma pdict_get : forall pw dc a,
  (forall x y, In x pw -> In y pw -> addr (fst x) = addr (fst y) -> snd x = snd y) ->
  py_bw_get (Some a) (pdict pw dc)
  = match List.find (fun x => addr (fst x) =? a) pw with Some x => Some (snd x) | None => py_bw_get (Some a) dc end.
Proof.
  induction pw as [|[d w] pw IH]; intros dc a Hu; [reflexivity|].
  cbn [pdict fold_left fst snd]. fold (pdict pw (py_bw_set (Some (addr d)) w dc)).
  rewrite IH by (intros x y Hx Hy; apply Hu; right; assumption).
  cbn [List.find fst]. rewrite bw_get_set. cbn [oN_eqb].
  destruct (List.find (fun x => addr (fst x) =? a) pw) as [y|] eqn:Ef.
  - destruct (N.eqb_spec (addr d) a) as [Ea|_]; [|reflexivity].
    apply find_some in Ef. destruct Ef as [Hy Ey]. apply N.eqb_eq in Ey.
    rewrite (Hu (d, w) y (or_introl eq_refl) (or_intror Hy)); [reflexivity|]. cbn [fst]. congruence.
  - destruct (addr d =? a); reflexivity.
Qed.

Lemma pdict_p2w : forall ms a,
  (forall x y, In x ms -> In y ms -> addr (fst x) = addr (fst y) -> snd x = snd y) ->
  py_bw_get (Some a) (pdict (pwf ms) []) = wopt (p2wf (pwf ms) a).
Proof.
  intros ms a Hu. rewrite pdict_get.
  - unfold p2wf. destruct (List.find (fun x => addr (fst x) =? a) (pwf ms)) as [[d w]|] eqn:Ef; [|reflexivity].
    apply find_some in Ef. destruct Ef as [Hin _]. unfold pwf in Hin. apply filter_In in Hin.
    destruct Hin as [_ Hf]. cbn [fst snd] in Hf |- *. apply andb_true_iff in Hf. destruct Hf as [_ Hf].
    unfold wopt. apply negb_true_iff in Hf. rewrite Hf. reflexivity.
  - intros x y Hx Hy. unfold pwf in Hx, Hy. apply filter_In in Hx, Hy. apply Hu; [exact (proj1 Hx)|exact (proj1 Hy)].
Qed.

(* ---- the graph: nested dict against flat list ---- *)
Lemma pg0_rel : forall pw g m, Grel g m -> Grel (pg0 pw g) (mg0 pw m).
Proof.
  induction pw as [|[d w] pw IH]; intros g m H; [exact H|].
  cbn [pg0 mg0 fold_left fst snd]. apply IH.
  replace (w, if crawled d then 1 else 2, 0) with (kenc w (ckey d)) by (unfold ckey; destruct (crawled d); reflexivity).
  apply Grel_incr. exact H.
Qed.

Lemma pinner_rel : forall auto dc p2w w, (forall a, py_bw_get (Some a) dc = wopt (p2w a)) ->
  forall xs g m, Grel g m -> Grel (fold_left (pinner auto dc w) xs g) (fold_left (minner auto p2w w) xs m).
Proof.
  intros auto dc p2w w Hd. induction xs as [|[tg wt] xs IH]; intros g m H; [exact H|].
  cbn [fold_left]. apply IH. unfold pinner, minner. cbn [fst snd]. rewrite Hd. unfold wopt.
  destruct (p2w tg =? 0) eqn:E; [exact H|]. rewrite E.
  destruct (negb auto && (w =? p2w tg)); [exact H|].
  change (w, 0, p2w tg) with (kenc w (GKWe (p2w tg))). apply Grel_incr. exact H.
Qed.

Lemma pouter_rel : forall out auto dc p2w st, (forall a, py_bw_get (Some a) dc = wopt (p2w a)) ->
  forall pw g m, Grel g m ->
    Grel (fold_left (pouter auto dc st) (plps out pw) g) (fold_left (mouter out auto p2w st) pw m).
Proof.
  intros out auto dc p2w st Hd. induction pw as [|[d w] pw IH]; intros g m H; [exact H|].
  cbn [plps flat_map fold_left mouter fst snd]. fold (plps out pw).
  destruct (head_dir out d =? 0); cbn [app]; [apply IH; exact H|].
  cbn [fold_left]. apply IH. unfold pouter. cbn [fst snd]. apply pinner_rel; assumption.
Qed.

(* ---- the request on the files of a state ---- *)
Theorem get_webentities_links_on_state : forall s, Inv18 s -> root_first s ->
  forall sg sgl out auto,
    trep (files_of s) sg ->
    (forall x y, In x (dww 0 (tr s)) -> In y (dww 0 (tr s)) -> addr (fst x) = addr (fst y) -> snd x = snd y) ->
    (forall d w, In (d, w) (dww 0 (tr s)) -> head_dir out d <> 0 ->
       py_ls_weighted_link_nodes_iter sgl (head_dir out d)
       = Some (map lift (weighted (targets_of (stubs s) (head_dir out d))))) ->
    exists sg' g, py_traph_get_webentities_links sg sgl out auto = Some (sg', g) /\ trep (files_of s) sg' /\
      pm_array sg' = pm_array sg /\ Grel g (webentities_links out auto s).
Proof.
  intros s Hinv Hroot sg sgl out auto Hrep Hu Hit.
  destruct (dww_iter_root s Hinv sg Hroot Hrep) as (items & sg' & E & Hrep' & Harr' & HF).
  rewrite get_webentities_links_eq, E, (loop1_spec s out items _ HF). cbn [app].
  rewrite (loop2_spec sgl auto _ (stubs s)).
  - eexists. eexists. split; [reflexivity|]. split; [exact Hrep'|]. split; [exact Harr'|].
    rewrite webentities_links_eq. cbv zeta.
    apply pouter_rel; [intro a; apply pdict_p2w; exact Hu|].
    apply pg0_rel. exact Grel_nil.
  - intros w h Hin. unfold plps in Hin. apply in_flat_map in Hin. destruct Hin as ([d w'] & Hin & Hx).
    cbn [fst snd] in Hx. destruct (N.eqb_spec (head_dir out d) 0) as [_|Hnz]; [destruct Hx|].
    destruct Hx as [Hx|[]]. injection Hx as <- <-.
    unfold pwf in Hin. apply filter_In in Hin. exact (Hit d w' (proj1 Hin) Hnz).
Qed.

(* ---- the main theorem: for every history ---- *)
Theorem py_traph_get_webentities_links_spec : forall d rs h, wf_rules rs -> Forall wf_op h ->
  let s := run d rs h in
  forall sg sgl out auto,
    trep (files_of s) sg -> lrep (stubs s) sgl -> fits (nb s * bsz) -> fits (saddr (length (stubs s))) ->
    exists sg' g, py_traph_get_webentities_links sg sgl out auto = Some (sg', g) /\ trep (files_of s) sg' /\
      pm_array sg' = pm_array sg /\ Permutation (flat g) (webentities_links out auto s).
Proof.
  intros d rs h Hr Hh s sg sgl out auto Hrep Hlrep Hft Hfl.
  pose proof (run_Inv18 d rs h Hh) as Hinv. fold s in Hinv.
  pose proof (run_root_first d rs h) as Hroot. fold s in Hroot.
  pose proof (run_RR d rs h Hr Hh) as HRR. fold s in HRR.
  pose proof (proj2 HRR) as HR.
  pose proof (reachable_wf_stubs s _ HR Hft Hfl) as Hwfs.
  pose proof (R_wf s _ (proj1 HRR)) as Hwf.
  destruct (get_webentities_links_on_state s Hinv Hroot sg sgl out auto Hrep) as (sg' & g & E & Hrep' & Harr' & HG).
  - intros [d1 w1] [d2 w2] H1 H2 Ea. cbn [fst snd] in *.
    apply dww_in in H2; [|apply Hwf]. destruct H2 as (p & Hp & Hw2).
    pose proof (dww_unique s _ HRR p d2 d1 w1 Hp H1 Ea) as Eq. rewrite Hw2. congruence.
  - intros d0 w Hin Hnz. apply dww_in in Hin; [|apply Hwf]. destruct Hin as (p & Hp & _).
    destruct (L_heads s _ HR p d0 Hp) as [Ho Hi]. unfold head_dir in *.
    destruct out.
    + destruct Ho as [E|(j & Hj & E)]; [contradiction|]. rewrite E.
      destruct (nth_error (stubs s) j) as [x|] eqn:En; [|apply nth_error_None in En; lia].
      exact (py_ls_weighted_spec (stubs s) sgl j x Hwfs Hlrep En).
    + destruct Hi as [E|(j & Hj & E)]; [contradiction|]. rewrite E.
      destruct (nth_error (stubs s) j) as [x|] eqn:En; [|apply nth_error_None in En; lia].
      exact (py_ls_weighted_spec (stubs s) sgl j x Hwfs Hlrep En).
  - exists sg', g. split; [exact E|]. split; [exact Hrep'|]. split; [exact Harr'|]. exact (Grel_perm _ _ HG).
Qed.

(* ====================================================================================== *)
(* 4. non-vacuity: the translated code run on the bytes of the two files of a concrete state *)
(* ====================================================================================== *)
(* the state of GenTraphLFacts: two webentities (the default creation rule made them), four pages, seven links, one of
   them inside webentity 2 and four inside webentity 1 *)
Notation exs_n := (run Domain [] GenTraphLFacts.exh_l).

(* dfs_with_webentity_iter yields the 15 (block, inherited webentity) pairs of the model, in the model's order *)
Example ex_dww_items :
  option_map (fun r => map (fun it => (nd_block (fst it), snd it)) (fst r))
             (py_trie_dfs_with_webentity_iter GenTraphLFacts.ex_sgt)
  = Some (map (fun m => (Some (addr (fst m)), wopt (snd m))) (dww 0 (tr exs_n))) /\
  map (fun m => (addr (fst m), snd m)) (dww 0 (tr exs_n))
  = [(128, 0); (256, 0); (384, 1); (896, 1); (1664, 1); (1920, 1); (2048, 1); (1152, 2); (1408, 2);
     (512, 0); (640, 0); (768, 1); (1024, 1); (1280, 2); (1536, 2)].
Proof. vm_compute. split; reflexivity. Qed.

Definition e4eqb (x y : N * N * N * N) : bool := keqb (fst x) (fst y) && (snd x =? snd y).
Definition same_entries (l l' : list (N * N * N * N)) : bool :=
  Nat.eqb (length l) (length l') && forallb (fun x => existsb (e4eqb x) l') l && forallb (fun x => existsb (e4eqb x) l) l'.

(* the flattened answer has the entries of the model's answer for every setting of the two switches *)
Example ex_network_all_switches :
  forallb (fun '(out, auto) =>
             match py_traph_get_webentities_links GenTraphLFacts.ex_sgt GenTraphLFacts.ex_sgl out auto with
             | Some (_, g) => same_entries (flat g) (webentities_links out auto exs_n)
             | None => false
             end) [(true, false); (false, true); (true, true); (false, false)] = true.
Proof. vm_compute. reflexivity. Qed.

(* the values: the nested dict groups the entries by source webentity, the model lists them in order of creation *)
Example ex_network_values :
  option_map snd (py_traph_get_webentities_links GenTraphLFacts.ex_sgt GenTraphLFacts.ex_sgl true true)
    = Some [(1, [(GKPagesCrawled, 1); (GKPagesUncrawled, 2); (GKWe 1, 4); (GKWe 2, 2)]);
            (2, [(GKPagesUncrawled, 1); (GKWe 1, 1)])] /\
  option_map (fun r => flat (snd r)) (py_traph_get_webentities_links GenTraphLFacts.ex_sgt GenTraphLFacts.ex_sgl true false)
    = Some [(1, 1, 0, 1); (1, 2, 0, 2); (1, 0, 2, 2); (2, 2, 0, 1); (2, 0, 1, 1)] /\
  webentities_links true false exs_n = [(1, 1, 0, 1); (1, 2, 0, 2); (2, 2, 0, 1); (1, 0, 2, 2); (2, 0, 1, 1)] /\
  option_map (fun r => flat (snd r)) (py_traph_get_webentities_links GenTraphLFacts.ex_sgt GenTraphLFacts.ex_sgl false true)
    = Some [(1, 1, 0, 1); (1, 2, 0, 2); (1, 0, 1, 4); (1, 0, 2, 1); (2, 2, 0, 1); (2, 0, 1, 2)] /\
  webentities_links false true exs_n = [(1, 1, 0, 1); (1, 2, 0, 2); (2, 2, 0, 1); (1, 0, 1, 4); (1, 0, 2, 1); (2, 0, 1, 2)].
Proof. vm_compute. repeat split; reflexivity. Qed.

(* the hypotheses of the theorem are met by that history and the two files, and the theorem then gives the reply above *)
Example ex_network_by_theorem : exists sg' g,
  py_traph_get_webentities_links GenTraphLFacts.ex_sgt GenTraphLFacts.ex_sgl true false = Some (sg', g) /\
  trep (files_of exs_n) sg' /\ pm_array sg' = pm_array GenTraphLFacts.ex_sgt /\
  Permutation (flat g) [(1, 1, 0, 1); (1, 2, 0, 2); (2, 2, 0, 1); (1, 0, 2, 2); (2, 0, 1, 1)].
Proof.
  assert (H1 : fits (nb exs_n * bsz)) by (vm_compute; reflexivity).
  assert (H2 : fits (saddr (length (stubs exs_n)))) by (vm_compute; reflexivity).
  pose proof (py_traph_get_webentities_links_spec Domain [] GenTraphLFacts.exh_l PropsEx.ex_rules_wf GenTraphLFacts.exh_l_wf
                GenTraphLFacts.ex_sgt GenTraphLFacts.ex_sgl true false
                GenTraphLFacts.ex_trep_l GenTraphLFacts.ex_lrep_l H1 H2) as H.
  replace (webentities_links true false (run Domain [] GenTraphLFacts.exh_l))
    with [(1, 1, 0, 1); (1, 2, 0, 2); (2, 2, 0, 1); (1, 0, 2, 2); (2, 0, 1, 1)] in H
    by (vm_compute; reflexivity).
  exact H.
Qed.

Print Assumptions py_trie_dfs_with_webentity_iter_spec.
Print Assumptions Grel_incr.
Print Assumptions Grel_perm.
Print Assumptions py_traph_get_webentities_links_spec.
Print Assumptions ex_network_by_theorem.
