(* QueryCore3.v — under [Rcore s a]: Q13 (parent / child webentities) and Q05
   (pages of a webentity) answer what the specification dictates. *)
From Coq Require Import List NArith Bool Lia Arith Permutation.
Import ListNotations.
From Traph Require Import Bytes Consts Helpers Rules Tst TstDefs Traph Spec Ops RefDefs
     TstFacts TopkFacts QueryCore QueryCore2.
Open Scope N_scope.

(* ====================================================================== *)
(* Stem-prefix tests of the specification, on stem lists                  *)
(* ====================================================================== *)
Lemma is_stem_prefix_iff : forall p x, wf_lru p ->
  (is_stem_prefix p x = true <-> exists r, lru_iter x = lru_iter p ++ r).
Proof.
  intros p x Hp. unfold is_stem_prefix. rewrite mem_bytes_In, stem_prefixes_eq, in_map_iff. split.
  - intros (q & Eq & Hq). destruct (prefix_stems _ _ Hq) as (_ & _ & _ & Hi).
    apply nprefixes_in0 in Hq. destruct Hq as (_ & v & Ev). exists v. rewrite <- Eq, Hi. exact Ev.
  - intros (r & E). exists (lru_iter p). split; [apply lru_iter_concat; exact Hp|].
    apply nprefixes_in0. split; [apply lru_iter_nonempty; exact Hp|]. exists r. exact E.
Qed.

Lemma proper_stem_prefix_iff : forall k p, wf_lru p ->
  (proper_stem_prefix k p = true <->
   exists q r, lru_iter p = q ++ r /\ q <> [] /\ r <> [] /\ k = concat q).
Proof.
  intros k p Hp. unfold proper_stem_prefix, is_stem_prefix.
  rewrite andb_true_iff, negb_true_iff, mem_bytes_In, stem_prefixes_eq, in_map_iff. split.
  - intros [(q & Eq & Hq) Hne]. apply nprefixes_in0 in Hq. destruct Hq as (Hqne & v & Ev).
    exists q, v. split; [exact Ev|]. split; [exact Hqne|]. split; [|symmetry; exact Eq].
    intros ->. rewrite app_nil_r in Ev. rewrite <- Eq, <- Ev, (lru_iter_concat p Hp), beq_refl in Hne.
    discriminate.
  - intros (q & r & E & Hq & Hr & ->). split.
    + exists q. split; [reflexivity|]. apply nprefixes_in0. split; [exact Hq|]. exists r. exact E.
    + destruct (beq (concat q) p) eqn:Eb; [|reflexivity]. exfalso.
      apply beq_eq in Eb. rewrite <- (lru_iter_concat p Hp), E, concat_app in Eb.
      rewrite <- (app_nil_r (concat q)) in Eb at 1. apply app_inv_head in Eb.
      pose proof (lru_iter_wf p) as Hw. rewrite E in Hw. apply Forall_app in Hw.
      apply (concat_stems_ne r); [apply Hw|exact Hr|]. symmetry. exact Eb.
Qed.

Definition depth_le (maxd : option N) (k : nat) : Prop :=
  match maxd with None => True | Some m => N.of_nat k <= m end.

Lemma within_depth_iff : forall maxd p x r, lru_iter x = lru_iter p ++ r ->
  (within_depth maxd p x = true <-> depth_le maxd (length r)).
Proof.
  intros [m|] p x r E; cbn [within_depth depth_le]; [|tauto].
  unfold nstems. rewrite E, app_length, N.leb_le. lia.
Qed.

Lemma crawled_filter_map : forall l : list (bytes * nd),
  map (fun x => (fst x, true)) (filter (fun x => crawled (snd x)) l) =
  filter (fun z => snd z) (map (fun x => (fst x, crawled (snd x))) l).
Proof.
  induction l as [|x l IH]; [reflexivity|]. cbn [filter map snd fst].
  destruct (crawled (snd x)) eqn:E; cbn [map]; rewrite IH; reflexivity.
Qed.

Section Core.
  Variables (s : traph) (a : astate).
  Hypothesis HR : Rcore s a.

  Let Hwf : wf_tst (tr s) := R_wf s a HR.

  (* ---- refusals: a prefix is refused iff it is not known -------------------- *)
  Lemma known_found : forall p, wf_lru p ->
    (mem_bytes p (a_known a) = true <-> find_sub (lru_iter p) (tr s) <> None).
  Proof.
    intros p Hp. rewrite mem_bytes_In, <- (R_known s a HR p Hp). unfold nodeof.
    split; intros H E; apply H; apply find_sub_none; exact E.
  Qed.

  Lemma forallb_known : forall ps, Forall wf_lru ps ->
    (forallb (fun p => mem_bytes p (a_known a)) ps = true <->
     forall p, In p ps -> find_sub (lru_iter p) (tr s) <> None).
  Proof.
    intros ps Hps. rewrite Forall_forall in Hps. rewrite forallb_forall.
    split; intros H p Hin; apply (known_found p (Hps p Hin)); apply H; exact Hin.
  Qed.

  Lemma refusal_agrees : forall ps, Forall wf_lru ps ->
    (exists p, In p ps /\ find_sub (lru_iter p) (tr s) = None) ->
    forallb (fun p => mem_bytes p (a_known a)) ps = false.
  Proof.
    intros ps Hps (p & Hin & Hn).
    destruct (forallb (fun p => mem_bytes p (a_known a)) ps) eqn:E; [|reflexivity].
    exfalso. apply (proj1 (forallb_known ps Hps) E p Hin Hn).
  Qed.

  (* ---- the subtree found at a well-formed prefix ---------------------------- *)
  Lemma sub_setup : forall p sub, wf_lru p -> find_sub (lru_iter p) (tr s) = Some sub ->
    exists d0 l0 c0 r0, sub = Nd d0 l0 c0 r0 /\ find (lru_iter p) (tr s) = Some d0 /\
      (forall r, r <> [] -> find (lru_iter p ++ r) (tr s) = find r c0) /\
      wf_tst c0 /\ lru_dirname p ++ stem d0 = p.
  Proof.
    intros p sub Hp E.
    pose proof (find_sub_wf _ _ _ Hwf E) as Wsub.
    apply find_sub_some in E. destruct E as (d0 & l0 & c0 & r0 & -> & Hf0 & Hbelow).
    exists d0, l0, c0, r0. split; [reflexivity|]. split; [exact Hf0|]. split; [exact Hbelow|].
    split; [apply (wf_tst_child _ _ _ _ Wsub)|].
    unfold lru_dirname. rewrite (find_last_stem _ _ _ Hf0).
    rewrite dirname_last by (apply lru_iter_nonempty; exact Hp).
    apply lru_iter_concat. exact Hp.
  Qed.

  Lemma concat_below : forall p r, wf_lru p -> concat (lru_iter p ++ r) = p ++ concat r.
  Proof. intros p r Hp. rewrite concat_app, (lru_iter_concat p Hp). reflexivity. Qed.

  (* ---- Q13: parent webentities ---------------------------------------------- *)
  Lemma parents_member : forall w ps x, Forall wf_lru ps ->
    (forall p, In p ps -> find_sub (lru_iter p) (tr s) <> None) ->
    ((exists p, In p ps /\
        In x (filter (fun x => negb (x =? 0) && negb (x =? w))
                     (map we (ancestors (lru_iter p) [] (tr s)))))
     <-> In x (map snd (filter (fun y => existsb (fun p => proper_stem_prefix (fst y) p) ps
                                         && negb (snd y =? w)) (a_pref a)))).
  Proof.
    intros w ps x Hps Hall. rewrite Forall_forall in Hps. split.
    - intros (p & Hin & Hx). apply filter_In in Hx. destruct Hx as [Hx HF].
      apply andb_true_iff in HF. destruct HF as [H0 Hw].
      apply negb_true_iff, N.eqb_neq in H0.
      apply in_map_iff in Hx. destruct Hx as (d & <- & Hd).
      destruct (find (lru_iter p) (tr s)) as [d0|] eqn:Ef0;
        [|exfalso; apply (Hall p Hin); apply find_sub_none; exact Ef0].
      apply (ancestors_in _ _ [] d0 Ef0) in Hd. destruct Hd as [[]|(q & r & E & Hq & Hr & Hfq)].
      destruct (find_nodeof s a HR q d Hfq) as [Hl Hn].
      apply in_map_iff. exists (concat q, we d). split; [reflexivity|].
      apply filter_In. split.
      + apply (R_pref s a HR); [exact Hl|]. exists d. auto.
      + cbn [fst snd]. rewrite Hw, andb_true_r. apply existsb_exists. exists p. split; [exact Hin|].
        apply proper_stem_prefix_iff; [apply Hps; exact Hin|]. exists q, r. auto.
    - intro Hx. apply in_map_iff in Hx. destruct Hx as ([k x'] & Ex & Hin). cbn [snd] in Ex. subst x'.
      apply filter_In in Hin. destruct Hin as [Hin HG]. cbn [fst snd] in HG.
      apply andb_true_iff in HG. destruct HG as [He Hw].
      apply existsb_exists in He. destruct He as (p & Hp & Hpp).
      assert (Hk : wf_lru k).
      { pose proof (R_pref_wf s a HR) as HF. rewrite Forall_forall in HF. apply (HF _ Hin). }
      apply (R_pref s a HR) in Hin; [|exact Hk]. destruct Hin as (d & Hn & Hwe & H0).
      apply proper_stem_prefix_iff in Hpp; [|apply Hps; exact Hp].
      destruct Hpp as (q & r & E & Hq & Hr & ->).
      assert (Hfq : find q (tr s) = Some d).
      { unfold nodeof in Hn. rewrite lru_iter_concat_stems in Hn; [exact Hn|].
        pose proof (lru_iter_wf p) as HW. rewrite E in HW. apply Forall_app in HW. apply HW. }
      exists p. split; [exact Hp|]. apply filter_In. split.
      + apply in_map_iff. exists d. split; [exact Hwe|].
        destruct (find (lru_iter p) (tr s)) as [d0|] eqn:Ef0;
          [|exfalso; apply (Hall p Hp); apply find_sub_none; exact Ef0].
        apply (ancestors_in _ _ [] d0 Ef0). right. exists q, r. auto.
      + rewrite Hw, andb_true_r. apply negb_true_iff, N.eqb_neq. exact H0.
  Qed.

  Theorem parents_spec : forall w ps, Forall wf_lru ps ->
    match parent_webentities w ps s, s_parents w ps a with
    | ROk x, ROk y => set_eq x y
    | RRefused, RRefused => True
    | _, _ => False
    end.
  Proof.
    intros w ps Hps. unfold parent_webentities, s_parents.
    pose proof (parents_of_spec w ps (tr s)) as HP.
    destruct (parents_of w ps (tr s)) as [| |L].
    - rewrite (refusal_agrees ps Hps HP). exact I.
    - destruct HP.
    - destruct HP as [Hall Hin].
      assert (Hk : forallb (fun p => mem_bytes p (a_known a)) ps = true)
        by (apply forallb_known; assumption).
      rewrite Hk. cbn [negb]. intro x. rewrite !deduped_in, Hin.
      apply parents_member; assumption.
  Qed.

  (* ---- Q13: child webentities ------------------------------------------------ *)
  Lemma dfs_at_true_fwd : forall p sub y d', wf_lru p ->
    find_sub (lru_iter p) (tr s) = Some sub ->
    In (y, d') (dfs_at true (lru_dirname p) sub) ->
    exists r, y = p ++ concat r /\ find (lru_iter p ++ r) (tr s) = Some d'.
  Proof.
    intros p sub y d' Hp E Hin.
    destruct (sub_setup p sub Hp E) as (d0 & l0 & c0 & r0 & -> & Hf0 & Hbelow & Wc & Hdir).
    cbn [dfs_at In] in Hin. rewrite Hdir in Hin. destruct Hin as [Ey|Hin].
    - injection Ey as <- <-. exists []. cbn [concat]. rewrite !app_nil_r. auto.
    - destruct (nochild d0); [destruct Hin|]. apply dfs_skip_incl in Hin.
      apply dfs_in in Hin; [|apply Wc]. destruct Hin as (r & -> & Hf).
      exists r. split; [reflexivity|]. rewrite Hbelow; [exact Hf|].
      intros ->. rewrite find_nil in Hf. discriminate.
  Qed.

  Lemma dfs_at_true_bwd : forall p sub r d', wf_lru p ->
    find_sub (lru_iter p) (tr s) = Some sub ->
    find (lru_iter p ++ r) (tr s) = Some d' -> we d' <> 0 ->
    In (p ++ concat r, d') (dfs_at true (lru_dirname p) sub).
  Proof.
    intros p sub r d' Hp E Hf Hwe.
    destruct (sub_setup p sub Hp E) as (d0 & l0 & c0 & r0 & -> & Hf0 & Hbelow & Wc & Hdir).
    cbn [dfs_at In]. rewrite Hdir. destruct r as [|y r'].
    - left. rewrite app_nil_r in Hf. rewrite Hf0 in Hf. injection Hf as ->.
      cbn [concat]. rewrite app_nil_r. reflexivity.
    - right.
      assert (Hn0 : nochild d0 = false).
      { destruct (nochild d0) eqn:En; [|reflexivity]. exfalso. apply Hwe.
        apply (R_nochild s a HR (lru_iter p) (lru_iter p ++ y :: r') d0 d' Hf0 En);
          [apply is_prefix_app|apply app_nonnil_neq; discriminate|exact Hf]. }
      rewrite Hn0. apply dfs_skip_in.
      + rewrite <- Hbelow by discriminate. exact Hf.
      + intros r1 r2 d1 Er Hr1 Hr2 Hf1.
        destruct (nochild d1) eqn:En; [|reflexivity]. exfalso. apply Hwe.
        rewrite <- Hbelow in Hf1 by exact Hr1.
        apply (R_nochild s a HR (lru_iter p ++ r1) (lru_iter p ++ y :: r') d1 d' Hf1 En).
        * rewrite Er, app_assoc. apply is_prefix_app.
        * rewrite Er, app_assoc. apply app_nonnil_neq. exact Hr2.
        * exact Hf.
  Qed.

  Lemma children_member : forall w ps x, Forall wf_lru ps ->
    (forall p, In p ps -> find_sub (lru_iter p) (tr s) <> None) ->
    ((exists p sub, In p ps /\ find_sub (lru_iter p) (tr s) = Some sub /\
        In x (filter (fun x => negb (x =? 0) && negb (x =? w))
                     (map (fun y => we (snd y)) (dfs_at true (lru_dirname p) sub))))
     <-> In x (map snd (filter (fun y => existsb (fun p => is_stem_prefix p (fst y)) ps
                                         && negb (snd y =? w)) (a_pref a)))).
  Proof.
    intros w ps x Hps Hall. rewrite Forall_forall in Hps. split.
    - intros (p & sub & Hin & E & Hx). apply filter_In in Hx. destruct Hx as [Hx HF].
      apply andb_true_iff in HF. destruct HF as [H0 Hw].
      apply negb_true_iff, N.eqb_neq in H0.
      apply in_map_iff in Hx. destruct Hx as ([y d'] & <- & Hd). cbn [snd] in *.
      apply (dfs_at_true_fwd p sub y d' (Hps p Hin) E) in Hd. destruct Hd as (r & -> & Hf).
      destruct (find_nodeof s a HR _ _ Hf) as [Hl Hn].
      destruct (find_path_lru _ _ _ Hwf Hf) as (_ & _ & Hi).
      apply in_map_iff. exists (concat (lru_iter p ++ r), we d'). split; [reflexivity|].
      apply filter_In. split.
      + apply (R_pref s a HR); [exact Hl|]. exists d'. auto.
      + cbn [fst snd]. rewrite Hw, andb_true_r. apply existsb_exists. exists p. split; [exact Hin|].
        apply is_stem_prefix_iff; [apply Hps; exact Hin|]. exists r. exact Hi.
    - intro Hx. apply in_map_iff in Hx. destruct Hx as ([k x'] & Ex & Hin). cbn [snd] in Ex. subst x'.
      apply filter_In in Hin. destruct Hin as [Hin HG]. cbn [fst snd] in HG.
      apply andb_true_iff in HG. destruct HG as [He Hw].
      apply existsb_exists in He. destruct He as (p & Hp & Hpp).
      assert (Hk : wf_lru k).
      { pose proof (R_pref_wf s a HR) as HF. rewrite Forall_forall in HF. apply (HF _ Hin). }
      apply (R_pref s a HR) in Hin; [|exact Hk]. destruct Hin as (d & Hn & Hwe & H0).
      apply is_stem_prefix_iff in Hpp; [|apply Hps; exact Hp]. destruct Hpp as (r & Er).
      destruct (find_sub (lru_iter p) (tr s)) as [sub|] eqn:E; [|exfalso; apply (Hall p Hp E)].
      exists p, sub. split; [exact Hp|]. split; [exact E|]. apply filter_In. split.
      + apply in_map_iff. exists (p ++ concat r, d). split; [exact Hwe|].
        apply dfs_at_true_bwd; [apply Hps; exact Hp|exact E| |rewrite Hwe; exact H0].
        unfold nodeof in Hn. rewrite Er in Hn. exact Hn.
      + rewrite Hw, andb_true_r. apply negb_true_iff, N.eqb_neq. exact H0.
  Qed.

  Theorem children_spec : forall w ps, Forall wf_lru ps ->
    match child_webentities w ps s, s_children w ps a with
    | ROk x, ROk y => set_eq x y
    | RRefused, RRefused => True
    | _, _ => False
    end.
  Proof.
    intros w ps Hps. unfold child_webentities, s_children.
    match goal with |- context [over_prefixes ?f ps (tr s)] =>
      pose proof (over_prefixes_spec _ f ps (tr s)) as HP;
      destruct (over_prefixes f ps (tr s)) as [| |L] end.
    - rewrite (refusal_agrees ps Hps HP). exact I.
    - destruct HP.
    - destruct HP as [Hall Hin].
      assert (Hk : forallb (fun p => mem_bytes p (a_known a)) ps = true)
        by (apply forallb_known; assumption).
      rewrite Hk. cbn [negb]. intro x. rewrite !deduped_in, Hin.
      apply children_member; assumption.
  Qed.

  (* ---- Q05: pages of a webentity --------------------------------------------- *)
  Definition realm_t (ss r : list bytes) : Prop :=
    forall r1 r2 d1, r = r1 ++ r2 -> r1 <> [] -> find (ss ++ r1) (tr s) = Some d1 -> we d1 = 0.

  Lemma wdfs_at_in : forall maxd p sub x d', wf_lru p ->
    find_sub (lru_iter p) (tr s) = Some sub ->
    (In (x, d') (wdfs_at maxd (lru_dirname p) sub) <->
     exists r, x = p ++ concat r /\ find (lru_iter p ++ r) (tr s) = Some d' /\
               realm_t (lru_iter p) r /\ depth_le maxd (length r)).
  Proof.
    intros maxd p sub x d' Hp E.
    destruct (sub_setup p sub Hp E) as (d0 & l0 & c0 & r0 & -> & Hf0 & Hbelow & Wc & Hdir).
    cbn [wdfs_at In]. rewrite Hdir. split.
    - intros [Ex|H].
      + injection Ex as <- <-. exists []. cbn [concat]. rewrite !app_nil_r.
        split; [reflexivity|]. split; [exact Hf0|]. split.
        * intros r1 r2 d1 Er Hr1 _. exfalso. symmetry in Er. apply app_eq_nil in Er.
          destruct Er as [Er _]. contradiction.
        * destruct maxd as [m|]; cbn [depth_le length]; [lia|exact I].
      + destruct (depth_ok maxd 0) eqn:Ed; [|destruct H].
        apply wdfs_in in H; [|apply Wc|exact (depth_ok_next maxd 0 Ed)].
        destruct H as (r & -> & Hf & Hre & Hlr).
        assert (Hne : r <> []) by (intros ->; rewrite find_nil in Hf; discriminate).
        exists r. split; [reflexivity|]. split; [rewrite Hbelow by exact Hne; exact Hf|]. split.
        * intros r1 r2 d1 Er Hr1 Hf1. rewrite Hbelow in Hf1 by exact Hr1.
          apply (Hre r1 r2 d1 Er Hr1 Hf1).
        * destruct maxd as [m|]; cbn [depth_le lvl_ok] in *; [lia|exact I].
    - intros (r & -> & Hf & Hre & Hd). destruct r as [|y r'].
      + left. rewrite app_nil_r in Hf. rewrite Hf0 in Hf. injection Hf as ->.
        cbn [concat]. rewrite app_nil_r. reflexivity.
      + right.
        assert (Ed : depth_ok maxd 0 = true).
        { destruct maxd as [m|]; cbn [depth_ok depth_le length] in *; [|reflexivity].
          apply N.ltb_lt. lia. }
        rewrite Ed. apply wdfs_in; [apply Wc|exact (depth_ok_next maxd 0 Ed)|].
        exists (y :: r'). split; [reflexivity|].
        split; [rewrite <- Hbelow by discriminate; exact Hf|]. split.
        * intros r1 r2 d1 Er Hr1 Hf1. apply (Hre r1 r2 d1 Er Hr1).
          rewrite Hbelow by exact Hr1. exact Hf1.
        * destruct maxd as [m|]; cbn [depth_le lvl_ok length] in *; [lia|exact I].
  Qed.

  Lemma realm_spec : forall maxd p x, wf_lru p ->
    (in_realm (a_pref a) p x && within_depth maxd p x = true <->
     exists r, lru_iter x = lru_iter p ++ r /\ realm_t (lru_iter p) r /\ depth_le maxd (length r)).
  Proof.
    intros maxd p x Hp. unfold in_realm.
    rewrite !andb_true_iff, (is_stem_prefix_iff p x Hp), forallb_forall. split.
    - intros [[(r & Er) Hallq] Hd]. exists r. split; [exact Er|]. split.
      + intros r1 r2 d1 E1 Hr1 Hf1.
        assert (Hq : In (lru_iter p ++ r1) (nprefixes [] (lru_iter x))).
        { apply nprefixes_in0. split.
          - intro E0. apply app_eq_nil in E0. destruct E0 as [_ E0]. contradiction.
          - exists r2. rewrite Er, E1, app_assoc. reflexivity. }
        destruct (prefix_stems _ _ Hq) as (_ & Hws & Hl & Hi).
        assert (Hin : In (concat (lru_iter p ++ r1)) (stem_prefixes x)).
        { rewrite stem_prefixes_eq. apply in_map. exact Hq. }
        apply Hallq in Hin. apply orb_true_iff in Hin. destruct Hin as [Hin|Hin].
        * apply negb_true_iff in Hin. unfold amem in Hin.
          rewrite (aget_pref s a HR _ Hl) in Hin. unfold nodeof in Hin. rewrite Hi, Hf1 in Hin.
          destruct (N.eqb_spec (we d1) 0); [assumption|discriminate].
        * exfalso. apply Nat.leb_le in Hin. rewrite (concat_below p r1 Hp), app_length in Hin.
          assert (Hc : concat r1 <> []).
          { apply concat_stems_ne; [|exact Hr1]. apply Forall_app in Hws. apply Hws. }
          destruct (concat r1); [congruence|]. cbn [length] in Hin. lia.
      + apply (within_depth_iff maxd p x r Er). exact Hd.
    - intros (r & Er & Hre & Hd). split; [split|].
      + exists r. exact Er.
      + intros q' Hq'. rewrite stem_prefixes_eq in Hq'. apply in_map_iff in Hq'.
        destruct Hq' as (q & <- & Hq).
        destruct (prefix_stems _ _ Hq) as (_ & Hws & Hl & Hi).
        apply nprefixes_in0 in Hq. destruct Hq as (Hqne & v & Ev). rewrite Er in Ev.
        symmetry in Ev. apply app_eq_split in Ev.
        destruct Ev as [(u & Eu)|(r1 & r2 & Hr1 & -> & ->)]; apply orb_true_iff.
        * right. apply Nat.leb_le.
          assert (Elen : length p = (length (concat q) + length (concat u))%nat).
          { rewrite <- (lru_iter_concat p Hp) at 1. rewrite Eu, concat_app, app_length. reflexivity. }
          lia.
        * left. apply negb_true_iff. unfold amem. rewrite (aget_pref s a HR _ Hl).
          unfold nodeof. rewrite Hi.
          destruct (find (lru_iter p ++ r1) (tr s)) as [d1|] eqn:Ef; [|reflexivity].
          rewrite (Hre r1 r2 d1 eq_refl Hr1 Ef). reflexivity.
      + apply (within_depth_iff maxd p x r Er). exact Hd.
  Qed.

  Lemma wdfs_at_nodup : forall maxd p sub, find_sub (lru_iter p) (tr s) = Some sub ->
    NoDup (map fst (wdfs_at maxd (lru_dirname p) sub)).
  Proof.
    intros maxd p sub E.
    apply (sublist_NoDup _ _ (map fst (all_nodes (tr s)))); [|apply all_nodes_nodup; exact Hwf].
    apply sublist_map.
    apply (sublist_trans _ (dfs_at false (lru_dirname p) sub) (all_nodes (tr s))).
    - exact (dfs_at_sublist (lru_iter p) (tr s) sub [] E).
    - apply wdfs_at_sublist.
  Qed.

  Lemma we_pages_one_in : forall maxd p sub x cr, wf_lru p ->
    find_sub (lru_iter p) (tr s) = Some sub ->
    (In (x, cr) (map (fun y => (fst y, crawled (snd y)))
                     (filter (fun y => page (snd y)) (wdfs_at maxd (lru_dirname p) sub)))
     <-> In (x, cr) (filter (fun y => in_realm (a_pref a) p (fst y) && within_depth maxd p (fst y))
                            (a_pages a))).
  Proof.
    intros maxd p sub x cr Hp E. rewrite in_map_iff, filter_In. cbn [fst]. split.
    - intros ([y d'] & Ey & Hin). cbn [fst snd] in Ey. injection Ey as -> <-.
      apply filter_In in Hin. destruct Hin as [Hin Hpg]. cbn [snd] in Hpg.
      apply (wdfs_at_in maxd p sub x d' Hp E) in Hin. destruct Hin as (r & -> & Hf & Hre & Hd).
      destruct (find_nodeof s a HR _ _ Hf) as [Hl Hn].
      destruct (find_path_lru _ _ _ Hwf Hf) as (_ & _ & Hi).
      rewrite (concat_below p r Hp) in Hl, Hn, Hi. split.
      + apply (R_pages s a HR); [exact Hl|]. exists d'. auto.
      + apply (realm_spec maxd p _ Hp). exists r. auto.
    - intros [Hin Hc].
      assert (Hl : wf_lru x).
      { pose proof (R_pages_wf s a HR) as HF. rewrite Forall_forall in HF. apply (HF _ Hin). }
      apply (R_pages s a HR) in Hin; [|exact Hl]. destruct Hin as (d' & Hn & Hpg & Hcr).
      apply (realm_spec maxd p x Hp) in Hc. destruct Hc as (r & Er & Hre & Hd).
      exists (x, d'). cbn [fst snd]. split; [rewrite Hcr; reflexivity|].
      apply filter_In. split; [|exact Hpg].
      apply (wdfs_at_in maxd p sub x d' Hp E). exists r. split.
      + rewrite <- (concat_below p r Hp), <- Er. symmetry. apply lru_iter_concat. exact Hl.
      + split; [|auto]. unfold nodeof in Hn. rewrite Er in Hn. exact Hn.
  Qed.

  Lemma we_pages_one : forall maxd p sub, wf_lru p ->
    find_sub (lru_iter p) (tr s) = Some sub ->
    Permutation
      (map (fun y => (fst y, crawled (snd y)))
           (filter (fun y => page (snd y)) (wdfs_at maxd (lru_dirname p) sub)))
      (filter (fun y => in_realm (a_pref a) p (fst y) && within_depth maxd p (fst y)) (a_pages a)).
  Proof.
    intros maxd p sub Hp E. apply NoDup_Permutation.
    - apply NoDup_fst_pairs. rewrite map_map. cbn [fst].
      apply (NoDup_map_filter _ _ (@fst bytes nd)). apply wdfs_at_nodup. exact E.
    - apply NoDup_fst_pairs. apply NoDup_map_filter. apply (R_pages_nodup s a HR).
    - intros [x cr]. apply we_pages_one_in; assumption.
  Qed.

  Theorem we_page_nodes_spec : forall maxd ps, Forall wf_lru ps ->
    match we_page_nodes maxd ps s, s_we_pages maxd ps a with
    | ROk x, ROk y => Permutation (map (fun z => (fst z, crawled (snd z))) x) y
    | RRefused, RRefused => True
    | _, _ => False
    end.
  Proof.
    intros maxd ps Hps. unfold we_page_nodes.
    induction Hps as [|p ps Hp Hps IH]; cbn [over_prefixes s_we_pages].
    - cbn [map]. constructor.
    - destruct (find_sub (lru_iter p) (tr s)) as [sub|] eqn:E.
      + assert (Hk : mem_bytes p (a_known a) = true) by (apply known_found; [exact Hp|congruence]).
        rewrite Hk. cbn [negb]. revert IH.
        match goal with |- context [over_prefixes ?f ps (tr s)] =>
          destruct (over_prefixes f ps (tr s)) as [| |L] end;
          destruct (s_we_pages maxd ps a) as [| |L']; intro IH; try exact IH.
        rewrite map_app. apply Permutation_app; [|exact IH].
        apply we_pages_one; assumption.
      + assert (Hk : mem_bytes p (a_known a) = false).
        { destruct (mem_bytes p (a_known a)) eqn:Em; [|reflexivity].
          apply known_found in Em; [congruence|exact Hp]. }
        rewrite Hk. exact I.
  Qed.

  Theorem we_pages_spec : forall ps, Forall wf_lru ps ->
    match webentity_pages ps s, s_we_pages None ps a with
    | ROk x, ROk y => Permutation x y
    | RRefused, RRefused => True
    | _, _ => False
    end.
  Proof.
    intros ps Hps. pose proof (we_page_nodes_spec None ps Hps) as H. unfold webentity_pages.
    destruct (we_page_nodes None ps s); destruct (s_we_pages None ps a); exact H.
  Qed.

  Theorem we_crawled_pages_spec : forall ps, Forall wf_lru ps ->
    match webentity_crawled_pages ps s, s_we_pages None ps a with
    | ROk x, ROk y => Permutation x (filter (fun z => snd z) y)
    | RRefused, RRefused => True
    | _, _ => False
    end.
  Proof.
    intros ps Hps. pose proof (we_page_nodes_spec None ps Hps) as H. unfold webentity_crawled_pages.
    destruct (we_page_nodes None ps s) as [| |L]; destruct (s_we_pages None ps a) as [| |L'];
      try exact H.
    rewrite crawled_filter_map. apply Permutation_filter'. exact H.
  Qed.
End Core.
