(* SchedFacts9.v — get_webentity_pagelinks_iter as a coroutine (plinksq_step of Sched.v)
   interleaved with crawl batches, rule installations and the other queries.
   Part 1 (this file): one iteration of its loop (lmicro), the invariant of its local
   variables (LInv: stack entries name nodes of the tree; every pending link item names
   a page of the tree under one of the query's prefixes and a link that is in the link
   store), the relation between two states of the index that keeps it (lext: nodes keep
   their address, pages stay pages, link chains only grow at the head), and soundness of
   what one turn appends to the answer (plinksq_step_sound): at the moment of the
   append, the source is a page of the tree under a prefix, the other end is a page of
   the tree, the link is in the store, and the webentity of the other end, resolved at
   that moment, satisfies the clause (outbound / internal / inbound) the item was
   appended under.  Every coroutine step is an lext step (co_step_lext). *)
From Coq Require Import List NArith Bool Lia Arith Permutation.
Import ListNotations.
From Traph Require Import Bytes Consts Helpers Rules Tst TstDefs Traph Spec Ops RefDefs TstFacts TopkFacts
  ViewFacts ViewFacts2 RefCore RefCore3 LinkFacts LinkFacts2 LinkFacts3 RefFull QueryCore QueryCore3 QueryLinks
  Sched SchedFacts SchedFacts2 SchedFacts3 SchedFacts4 SchedFacts5 SchedFacts6 SchedFacts7 SchedFacts8.
Open Scope N_scope.

(* ====================================================================== *)
(* one iteration of the loop of plinksq_step                              *)
(* ====================================================================== *)

Definition lmk (q : lco) ps st stk its ip acc dn rf : lco :=
  mkL (l_we q) (l_inb q) (l_int q) (l_outb q) ps st stk its ip acc dn rf.

(* what processing one link item appends *)
Definition ladd (q : lco) (s : traph) (it : bool * bytes * N * N) : list (bytes * bytes * N) :=
  let '(isout, lru, other, wt) := it in
  let ow := we_at other (tr s) in
  let ol := lru_at other s in
  if isout then
    if (l_outb q && negb (ow =? l_we q)) || (l_int q && (ow =? l_we q)) then [(lru, ol, wt)] else []
  else if negb (ow =? l_we q) then [(ol, lru, wt)] else [].

(* what popping the node x read at block a (entry (a, pre, lv)) pushes and produces *)
Definition lpushes (q : lco) (a : N) (pre : bytes) (lv : N) (x : rnode) : list (N * bytes * N) :=
  let d := rn_d x in
  let cur := pre ++ stem d in
  let rel := (a =? l_start q) || (we d =? 0) in
  (if rel then nz3 (rn_child x) cur (lv + 1) else [])
    ++ (if a =? l_start q then [] else nz3 (rn_left x) pre lv ++ nz3 (rn_right x) pre lv).
Definition louts (q : lco) (s : traph) (a : N) (pre : bytes) (x : rnode) : list (bool * bytes * N * N) :=
  let d := rn_d x in
  let cur := pre ++ stem d in
  let rel := (a =? l_start q) || (we d =? 0) in
  if rel && page d && negb (outh d =? 0) && (l_outb q || l_int q)
  then map (fun y => (true, cur, fst y, snd y)) (weighted (targets_of (stubs s) (outh d)))
  else [].
Definition lins (q : lco) (a : N) (pre : bytes) (x : rnode) : option (bytes * N) :=
  let d := rn_d x in
  let cur := pre ++ stem d in
  let rel := (a =? l_start q) || (we d =? 0) in
  if rel && page d && negb (inh d =? 0) && l_inb q then Some (cur, inh d) else None.

Definition lmicro (q : lco) (s : traph) : lco * bool :=
  if negb (l_int q) && negb (l_outb q) && negb (l_inb q) then (lmk q [] 0 [] [] None [] true true, true)
  else
  match l_items q with
  | it :: rest =>
      (lmk q (l_prefixes q) (l_start q) (l_stack q) rest (l_inpend q) (l_acc q ++ ladd q s it) false false, true)
  | [] =>
      match l_inpend q with
      | Some (lru, h) =>
          (lmk q (l_prefixes q) (l_start q) (l_stack q)
               (map (fun x => (false, lru, fst x, snd x)) (weighted (targets_of (stubs s) h)))
               None (l_acc q) false false, false)
      | None =>
          match l_stack q with
          | [] =>
              match l_prefixes q with
              | [] => (lmk q [] 0 [] [] None (l_acc q) true false, true)
              | p :: ps =>
                  match find (lru_iter p) (tr s) with
                  | None => (lmk q [] 0 [] [] None (l_acc q) true true, true)
                  | Some d => (lmk q ps (addr d) [(addr d, lru_dirname p, 0)] [] None (l_acc q) false false, false)
                  end
              end
          | (a, pre, lv) :: rest =>
              match read_at a (tr s) with
              | None => (lmk q (l_prefixes q) (l_start q) rest [] None (l_acc q) false false, false)
              | Some x =>
                  (lmk q (l_prefixes q) (l_start q) (lpushes q a pre lv x ++ rest) (louts q s a pre x)
                       (lins q a pre x) (l_acc q) false false, false)
              end
          end
      end
  end.

Lemma plinksq_step_S : forall f q s,
  plinksq_step (S f) q s =
  if snd (lmicro q s) then fst (lmicro q s) else plinksq_step f (fst (lmicro q s)) s.
Proof.
  intros f q s. cbn [plinksq_step]. unfold lmicro.
  destruct (negb (l_int q) && negb (l_outb q) && negb (l_inb q)); [reflexivity|].
  destruct (l_items q) as [|[[[isout lru] other] wt] rest]; [|reflexivity].
  destruct (l_inpend q) as [[lru h]|]; [reflexivity|].
  destruct (l_stack q) as [|[[a pre] lv] rest].
  - destruct (l_prefixes q) as [|p ps]; [reflexivity|].
    destruct (find (lru_iter p) (tr s)); reflexivity.
  - destruct (read_at a (tr s)) as [x|]; reflexivity.
Qed.

(* the webentity and the flags of the query never change; a finished query has nothing pending *)
Definition lsame (q q' : lco) : Prop :=
  l_we q' = l_we q /\ l_inb q' = l_inb q /\ l_int q' = l_int q /\ l_outb q' = l_outb q.
Definition lshape (q : lco) : Prop :=
  l_done q = true -> l_prefixes q = [] /\ l_stack q = [] /\ l_items q = [] /\ l_inpend q = None.
Definition lshape2 (q : lco) : Prop := l_refused q = true -> l_done q = true.

Lemma lmicro_same : forall q s, lsame q (fst (lmicro q s)).
Proof.
  intros q s. unfold lmicro, lsame.
  destruct (negb (l_int q) && negb (l_outb q) && negb (l_inb q)); [cbn; auto|].
  destruct (l_items q) as [|it rest]; [|cbn; auto].
  destruct (l_inpend q) as [[lru h]|]; [cbn; auto|].
  destruct (l_stack q) as [|[[a pre] lv] rest].
  - destruct (l_prefixes q) as [|p ps]; [cbn; auto|].
    destruct (find (lru_iter p) (tr s)); cbn; auto.
  - destruct (read_at a (tr s)) as [x|]; cbn; auto.
Qed.

Lemma lmicro_shape : forall q s, lshape (fst (lmicro q s)) /\ lshape2 (fst (lmicro q s)) /\
  (snd (lmicro q s) = false -> l_refused (fst (lmicro q s)) = false /\ l_done (fst (lmicro q s)) = false).
Proof.
  intros q s. unfold lmicro, lshape, lshape2.
  destruct (negb (l_int q) && negb (l_outb q) && negb (l_inb q)); [cbn; auto|].
  destruct (l_items q) as [|it rest]; [|cbn; repeat split; auto; discriminate].
  destruct (l_inpend q) as [[lru h]|]; [cbn; repeat split; auto; discriminate|].
  destruct (l_stack q) as [|[[a pre] lv] rest].
  - destruct (l_prefixes q) as [|p ps]; [cbn; repeat split; auto; discriminate|].
    destruct (find (lru_iter p) (tr s)); cbn; repeat split; auto; discriminate.
  - destruct (read_at a (tr s)) as [x|]; cbn; repeat split; auto; discriminate.
Qed.

Lemma lsame_refl : forall q, lsame q q.
Proof. intro q. repeat split. Qed.
Lemma lsame_trans : forall q1 q2 q3, lsame q1 q2 -> lsame q2 q3 -> lsame q1 q3.
Proof. intros q1 q2 q3 (A1 & A2 & A3 & A4) (B1 & B2 & B3 & B4). repeat split; congruence. Qed.

Lemma plinksq_step_same : forall s fuel q, lsame q (plinksq_step fuel q s).
Proof.
  intros s. induction fuel as [|f IH]; intro q; [apply lsame_refl|].
  rewrite plinksq_step_S. destruct (snd (lmicro q s)); [apply lmicro_same|].
  apply (lsame_trans _ _ _ (lmicro_same q s)). apply IH.
Qed.

Lemma plinksq_step_shape : forall s fuel q, lshape q /\ lshape2 q ->
  lshape (plinksq_step fuel q s) /\ lshape2 (plinksq_step fuel q s).
Proof.
  intros s. induction fuel as [|f IH]; intros q Hq; [exact Hq|].
  rewrite plinksq_step_S. pose proof (lmicro_shape q s) as (H1 & H2 & _).
  destruct (snd (lmicro q s)); [split; assumption|]. apply IH. split; assumption.
Qed.

(* ====================================================================== *)
(* growth of the index as the query sees it                               *)
(* ====================================================================== *)

(* nodes keep their address, pages stay pages, link chains are only extended at the head *)
Definition lext (s s' : traph) : Prop :=
  tree_ext s s' /\
  (length (stubs s) <= length (stubs s'))%nat /\
  (forall h, head_ok (length (stubs s)) h -> targets_of (stubs s') h = targets_of (stubs s) h) /\
  (forall p d d', find p (tr s) = Some d -> find p (tr s') = Some d' ->
     (page d = true -> page d' = true) /\
     (forall out, incl (targets_of (stubs s) (head_dir out d)) (targets_of (stubs s') (head_dir out d')))).

Lemma lext_refl : forall s, lext s s.
Proof.
  intro s. split; [apply tree_ext_refl|]. split; [lia|]. split; [reflexivity|].
  intros p d d' H1 H2. rewrite H1 in H2. injection H2 as <-. split; [auto|]. intro out. apply incl_refl.
Qed.

Lemma lext_trans : forall s1 s2 s3, lext s1 s2 -> lext s2 s3 -> lext s1 s3.
Proof.
  intros s1 s2 s3 (X1 & L1 & T1 & N1) (X2 & L2 & T2 & N2).
  split; [apply (tree_ext_trans _ _ _ X1 X2)|]. split; [lia|]. split.
  - intros h Hh. rewrite T2; [apply T1; exact Hh|]. apply (head_ok_mono _ _ _ L1 Hh).
  - intros p d d3 H1 H3. destruct (X1 p d H1) as (d2 & H2 & _).
    destruct (N1 p d d2 H1 H2) as (P1 & I1). destruct (N2 p d2 d3 H2 H3) as (P2 & I2).
    split; [auto|]. intro out. apply (incl_tran (I1 out) (I2 out)).
Qed.

(* a step of the tree that leaves the link store alone *)
Lemma step_ok_lext : forall s s', step_ok s s' -> lext s s'.
Proof.
  intros s s' Hst. pose proof (step_ok_ext _ _ Hst) as Hx. destruct Hst as (_ & Est & Hold & Hnew).
  split; [exact Hx|]. split; [rewrite Est; lia|]. split; [intros h _; rewrite Est; reflexivity|].
  intros p d d' H1 H2. destruct (Hold p d H1) as (d2 & H2' & _ & Hp). rewrite H2 in H2'. injection H2' as <-.
  split; [exact Hp|]. intro out.
  destruct (Hnew p d' H2) as [(d0 & H0 & Eo & Ei)|(H0 & _)]; [|congruence].
  rewrite H1 in H0. injection H0 as <-. rewrite Est.
  destruct out; cbn [head_dir]; [rewrite Eo|rewrite Ei]; apply incl_refl.
Qed.

(* LinkStore.add_links *)
Lemma store_links_lext : forall out path tg s, Rbase s -> lext s (store_links out path tg s).
Proof.
  intros out path tg s HB.
  destruct tg as [|t0 tg0]; [rewrite store_links_nil; apply lext_refl|].
  destruct (find path (tr s)) as [d0|] eqn:Ef.
  2:{ unfold store_links. rewrite Ef. apply lext_refl. }
  pose proof (store_links_ext out path (t0 :: tg0) s) as Hx.
  destruct (store_links_shape out path (t0 :: tg0) s d0 ltac:(discriminate) Ef (B_stubs s HB)
              (head_dir_ok s HB out _ d0 Ef)) as (news & h' & Es & Hm & Hok & Hhd & Htgs).
  rewrite Es in *. clear Es.
  split; [exact Hx|]. cbn [stubs tr].
  split; [rewrite app_length; lia|].
  split; [intros h Hh; apply (targets_app _ _ _ (B_stubs s HB) Hh)|].
  intros p d d' H1 H2.
  assert (Hg : forall x, stem (set_head out h' x) = stem x) by (intro x; apply set_head_stem).
  destruct (find_upd_keeps (set_head out h') path (tr s) p d Hg H1) as [H|(-> & H)]; rewrite H in H2; injection H2 as <-.
  - split; [auto|]. intro o. rewrite (targets_app _ _ _ (B_stubs s HB) (head_dir_ok s HB o _ d H1)). apply incl_refl.
  - rewrite Ef in H1. injection H1 as <-. split; [rewrite set_head_page; auto|]. intro o.
    destruct (bool_out_cases o out) as [->| ->].
    + rewrite set_head_same, Htgs. apply incl_appr. apply incl_refl.
    + rewrite set_head_other. rewrite (targets_app _ _ _ (B_stubs s HB) (head_dir_ok s HB (negb out) _ d0 Ef)).
      apply incl_refl.
Qed.

Lemma mstep_lext : forall c c', CInv c -> mstep c c' -> lext (SchedFacts.cs c) (SchedFacts.cs c').
Proof.
  intros c c' [HS HB] H. pose proof (SI_good _ _ _ _ HS) as Hg. pose proof (SI_base _ _ _ _ HS) as Hb.
  destruct H; cbn [SchedFacts.cs] in *; try apply lext_refl; try (apply store_links_lext; exact Hb).
  - apply step_ok_lext. apply set_tree_upd_step; [apply neutral_set_crawled|exact Hg].
  - apply step_ok_lext. apply add_page_int_step. exact Hg.
  - apply step_ok_lext. apply add_page_int_step. exact Hg.
Qed.

Lemma bstep_lext : forall b s a go gi, SInv s a go gi -> BInv b a -> lext s (snd (bstep b s)).
Proof.
  intros b s a go gi HS HB. unfold bstep. destruct (b_done b); [apply lext_refl|].
  pose proof (batch_step_giter (batch_fuel b) (mkC b s a go gi)) as E. cbn [cb SchedFacts.cs] in E. rewrite E. cbn [snd].
  apply (msteps_ind2 CInv (fun c c' => lext (SchedFacts.cs c) (SchedFacts.cs c'))
           (fun c => lext_refl _) (fun c c1 c2 => lext_trans _ _ _)
           (fun c c' HI Hm => conj (proj1 (mstep_CInv c c' HI Hm)) (mstep_lext c c' HI Hm))
           _ _ (giter_msteps (batch_fuel b) (mkC b s a go gi)) (conj HS HB)).
Qed.

(* every turn of every coroutine is such a step *)
Theorem co_step_lext : forall a0 jobs cl s a go gi i c, HInv a0 jobs cl s a go gi ->
  nth_error cl i = Some c -> lext s (snd (co_step c s)).
Proof.
  intros a0 jobs cl s a go gi i c HG Hi.
  pose proof HG as [Gs Gc _ _ _ _ _ _ _].
  destruct (F2_nth _ _ _ _ _ _ _ Gc Hi) as (j & Hj & HJ).
  destruct j as [d|p k|ps|out auto|w ps inb int outb], c as [b|r|q|n|lq]; cbn [JInv] in HJ; try contradiction.
  - rewrite co_step_batch. cbn [snd]. apply (bstep_lext b s a go gi Gs HJ).
  - rewrite co_step_rule. cbn [snd].
    destruct (rstep_inv r s a go gi Gs HJ) as (a' & _ & _ & _ & _ & St). apply step_ok_lext. exact St.
  - rewrite co_step_pages. apply lext_refl.
  - destruct (co_step_net n s) as (n' & E). rewrite E. apply lext_refl.
  - destruct (co_step_links lq s) as (n' & E). rewrite E. apply lext_refl.
Qed.

(* ====================================================================== *)
(* the invariant of a page-link query coroutine                           *)
(* ====================================================================== *)

(* a pending link item: its page is a page of the tree under one of the prefixes, and
   the other end is on the chain (out or in) of that page as the store is now *)
Definition litem_ok (ps0 : list bytes) (s : traph) (it : bool * bytes * N * N) : Prop :=
  exists P0 p d, In P0 ps0 /\ under (lru_iter P0) p /\ find p (tr s) = Some d /\
                 concat p = snd (fst (fst it)) /\ page d = true /\
                 In (snd (fst it)) (targets_of (stubs s) (head_dir (fst (fst (fst it))) d)).

(* the pending inlink head of a page: a suffix of the inlink chain of that page *)
Definition linp_ok (ps0 : list bytes) (s : traph) (ip : bytes * N) : Prop :=
  exists P0 p d, In P0 ps0 /\ under (lru_iter P0) p /\ find p (tr s) = Some d /\
                 concat p = fst ip /\ page d = true /\
                 head_ok (length (stubs s)) (snd ip) /\
                 incl (targets_of (stubs s) (snd ip)) (targets_of (stubs s) (inh d)).

Definition LInv (ps0 : list bytes) (q : lco) (s : traph) : Prop :=
  incl (l_prefixes q) ps0 /\
  (l_stack q = [] \/
   exists P0 d0, In P0 ps0 /\ find (lru_iter P0) (tr s) = Some d0 /\ addr d0 = l_start q /\
                 Forall (qentry_ok (lru_iter P0) (tr s)) (l_stack q)) /\
  Forall (litem_ok ps0 s) (l_items q) /\
  (forall ip, l_inpend q = Some ip -> linp_ok ps0 s ip).

Lemma LInv_start : forall w ps inb int outb s, LInv ps (plinksq_start w ps inb int outb) s.
Proof.
  intros. split; [apply incl_refl|]. split; [left; reflexivity|]. split; [constructor|]. intros ip E. discriminate.
Qed.

Lemma LInv_ext : forall ps0 q s s', lext s s' -> LInv ps0 q s -> LInv ps0 q s'.
Proof.
  intros ps0 q s s' (Hx & Hlen & Htg & Hnd) (Hi & Hst & Hit & Hip).
  split; [exact Hi|]. split; [|split].
  - destruct Hst as [Hn|(P0 & d0 & HP & Hf & Ha & Hall)]; [left; exact Hn|right].
    destruct (Hx _ _ Hf) as (d0' & Hf' & Ea). exists P0, d0'. split; [exact HP|]. split; [exact Hf'|].
    split; [congruence|]. apply Forall_forall. intros e He. rewrite Forall_forall in Hall.
    destruct (Hall e He) as (p & d & H1 & H2 & H3 & H4). destruct (Hx _ _ H1) as (d' & H1' & E').
    exists p, d'. split; [exact H1'|]. split; [congruence|]. auto.
  - apply Forall_forall. intros it Hin. rewrite Forall_forall in Hit.
    destruct (Hit it Hin) as (P0 & p & d & HP & Hu & Hf & Hc & Hpg & Hin').
    destruct (Hx _ _ Hf) as (d' & Hf' & _). destruct (Hnd p d d' Hf Hf') as (Hp' & Hinc).
    exists P0, p, d'. repeat (split; [assumption|]). split; [apply Hp'; exact Hpg|]. apply (Hinc _ _ Hin').
  - intros ip E. destruct (Hip ip E) as (P0 & p & d & HP & Hu & Hf & Hc & Hpg & Hh & Hinc).
    destruct (Hx _ _ Hf) as (d' & Hf' & _). destruct (Hnd p d d' Hf Hf') as (Hp' & Hinc').
    exists P0, p, d'. repeat (split; [assumption|]). split; [apply Hp'; exact Hpg|].
    split; [apply (head_ok_mono _ _ _ Hlen Hh)|]. rewrite (Htg _ Hh).
    apply (incl_tran Hinc (Hinc' false)).
Qed.

(* popping an entry: the node read at its block, and what it pushes *)
Lemma pop_entry : forall t nbk P0 d0 a pre lv x, wf_tst t -> addr_ok t nbk -> find P0 t = Some d0 ->
  qentry_ok P0 t (a, pre, lv) -> read_at a t = Some x ->
  exists pp, find (pp ++ [stem (rn_d x)]) t = Some (rn_d x) /\ concat pp = pre /\
    under P0 (pp ++ [stem (rn_d x)]) /\ addr (rn_d x) = a /\
    (a = addr d0 -> pp ++ [stem (rn_d x)] = P0) /\
    forall (rel : bool) lv1 lv2 lv3,
      Forall (qentry_ok P0 t)
        ((if rel then nz3 (rn_child x) (pre ++ stem (rn_d x)) lv1 else [])
           ++ (if a =? addr d0 then [] else nz3 (rn_left x) pre lv2 ++ nz3 (rn_right x) pre lv3)).
Proof.
  intros t nbk P0 d0 a pre lv x Hwf Hok Hf0 He Er.
  destruct He as (p & d & Hfp & Hda & Hpre & Hu). cbn [fst snd] in Hda, Hpre.
  destruct (read_at_paths t [] a x Er) as (pp & l & c & r & Hxa & Hl & Hr & Hc & Hin & Il & Ir & Ic).
  apply (paths_find t Hwf) in Hin.
  assert (Ep : p = pp ++ [stem (rn_d x)]) by (apply (proj2 Hok p _ d (rn_d x) Hfp Hin); congruence).
  subst p. rewrite removelast_last in Hpre.
  exists pp. split; [exact Hin|]. split; [exact Hpre|]. split; [exact Hu|]. split; [exact Hxa|].
  split; [intro E; apply (proj2 Hok _ _ (rn_d x) d0 Hin Hf0); congruence|].
  intros rel lv1 lv2 lv3. apply Forall_app. split.
  - destruct rel; [|constructor]. rewrite Hc. apply (sub_entry t _ (pp ++ [stem (rn_d x)]) c _ _ Hwf Ic).
    + rewrite concat_snoc, Hpre. reflexivity.
    + intro y. apply under_snoc. exact Hu.
  - destruct (a =? addr d0) eqn:Ea; [constructor|].
    assert (Hne : pp ++ [stem (rn_d x)] <> P0).
    { intro E. rewrite E in Hin. rewrite Hf0 in Hin. injection Hin as E'.
      apply N.eqb_neq in Ea. apply Ea. rewrite E'. symmetry. exact Hxa. }
    apply Forall_app. split.
    + rewrite Hl. apply (sub_entry t _ pp l _ _ Hwf Il Hpre). apply (under_sibling _ _ _ Hu Hne).
    + rewrite Hr. apply (sub_entry t _ pp r _ _ Hwf Ir Hpre). apply (under_sibling _ _ _ Hu Hne).
Qed.

(* ====================================================================== *)
(* what can be said of an appended triple at the moment of the append     *)
(* ====================================================================== *)

(* (src, dst, wt) appended by the query for webentity w with clauses int / outb:
   - out item: src is a page under a prefix, dst a page of the tree, dst is on the
     out-chain of src, (src, dst) is among the pairs go whose out-chain has been written,
     and the webentity of dst is not w (outbound clause) or is w (internal clause);
   - in item: dst is a page under a prefix, src a page of the tree on the in-chain of dst,
     (src, dst) is among the pairs gi whose in-chain has been written, and the webentity
     of src is not w. *)
Definition lqual (ps0 : list bytes) (w : N) (int outb : bool) (s : traph) (go gi : links)
                 (x : bytes * bytes * N) : Prop :=
  let '(src, dst, wt) := x in
  exists P0 p d po do, In P0 ps0 /\ under (lru_iter P0) p /\ find p (tr s) = Some d /\ page d = true /\
    find po (tr s) = Some do /\ page do = true /\
    ((concat p = src /\ concat po = dst /\ In (addr do) (targets_of (stubs s) (outh d)) /\ In (src, dst) go /\
      ((outb = true /\ we_at (addr do) (tr s) <> w) \/ (int = true /\ we_at (addr do) (tr s) = w)))
     \/
     (concat p = dst /\ concat po = src /\ In (addr do) (targets_of (stubs s) (inh d)) /\ In (src, dst) gi /\
      we_at (addr do) (tr s) <> w)).

(* a target of a chain is the block of a page of the tree, and its pair is in the ghost list *)
Lemma chain_target : forall s a go gi out p d other, SInv s a go gi -> find p (tr s) = Some d ->
  In other (targets_of (stubs s) (head_dir out d)) ->
  exists po do, find po (tr s) = Some do /\ addr do = other /\ page do = true /\ lru_at other s = concat po /\
    In (lpair out (concat p) (concat po)) (if out then go else gi).
Proof.
  intros s a go gi out p d other HS Hf Hin.
  pose proof (SInv_facts _ _ _ _ HS) as (HC & Hwf & Hok & Hst).
  destruct (targets_of_in _ _ _ Hin) as (i & pv & Hn).
  destruct (B_targets s (SI_base _ _ _ _ HS) i other pv Hn) as (po & do & Hfo & Hao & Hpo).
  exists po, do. split; [exact Hfo|]. split; [exact Hao|]. split; [exact Hpo|].
  assert (El : lru_at other s = concat po) by (rewrite <- Hao; apply (lru_at_spec s po do Hwf Hok Hfo)).
  split; [exact El|].
  destruct (ViewFacts.find_nodeof s p d Hwf Hf) as (Hwl & Hn').
  assert (Hdir : Rdir out s (if out then go else gi)).
  { destruct out; [apply (SI_out _ _ _ _ HS)|apply (SI_in _ _ _ _ HS)]. }
  pose proof (Hdir (concat p) d Hwl Hn') as E.
  assert (Hm : In (lru_at other s) (map (fun t => lru_at t s) (rev (targets_of (stubs s) (head_dir out d))))).
  { apply (in_map (fun t => lru_at t s)). apply in_rev. rewrite rev_involutive. exact Hin. }
  rewrite E in Hm. apply in_map_iff in Hm. destruct Hm as (y & Ey & Hy). apply filter_In in Hy.
  destruct Hy as (Hy & Hk). apply beq_eq in Hk. rewrite <- El, <- Ey, <- Hk, lpair_eta. exact Hy.
Qed.

(* ====================================================================== *)
(* one iteration, one turn                                                *)
(* ====================================================================== *)

Definition lacc_rel (ps0 : list bytes) (s : traph) (go gi : links) (q q' : lco) : Prop :=
  l_acc q' = l_acc q \/ l_acc q' = [] \/
  exists x, l_acc q' = l_acc q ++ [x] /\ lqual ps0 (l_we q) (l_int q) (l_outb q) s go gi x.

Lemma lmicro_sound : forall ps0 s a go gi q, SInv s a go gi -> LInv ps0 q s ->
  LInv ps0 (fst (lmicro q s)) s /\ lacc_rel ps0 s go gi q (fst (lmicro q s)) /\
  (snd (lmicro q s) = false -> l_acc (fst (lmicro q s)) = l_acc q).
Proof.
  intros ps0 s a go gi q HS (Hincl & Hst & Hit & Hip).
  pose proof (SInv_facts _ _ _ _ HS) as (HC & Hwf & Hok & Hsto).
  unfold lmicro. destruct (negb (l_int q) && negb (l_outb q) && negb (l_inb q)).
  { cbn [fst snd lmk l_acc]. split; [|split; [right; left; reflexivity|discriminate]].
    split; [intros y []|]. split; [left; reflexivity|]. split; [constructor|]. intros ip E. discriminate. }
  destruct (l_items q) as [|it rest] eqn:Eit.
  2:{ (* one item is processed *)
      cbn [fst snd]. split; [|split; [|discriminate]].
      - split; [exact Hincl|]. split; [exact Hst|]. split; [apply (Forall_inv_tail Hit)|exact Hip].
      - cbn [lmk l_acc]. pose proof (Forall_inv Hit) as Hi.
        destruct it as [[[isout lru] other] wt]. destruct Hi as (P0 & p & d & HP & Hu & Hf & Hc & Hpg & Hin).
        cbn [fst snd] in Hc, Hin.
        destruct (chain_target s a go gi isout p d other HS Hf Hin) as (po & do & Hfo & Hao & Hpo & El & Hg).
        unfold ladd, lacc_rel. rewrite El.
        destruct isout; cbn [head_dir lpair] in *.
        + destruct ((l_outb q && negb (we_at other (tr s) =? l_we q)) || (l_int q && (we_at other (tr s) =? l_we q))) eqn:Ecl.
          2:{ left. apply app_nil_r. }
          right. right. eexists. split; [reflexivity|]. cbn [lqual].
          exists P0, p, d, po, do. repeat (split; [assumption|]). left.
          split; [exact Hc|]. split; [reflexivity|]. split; [rewrite Hao; exact Hin|]. split; [rewrite <- Hc; exact Hg|].
          rewrite Hao. apply orb_prop in Ecl. destruct Ecl as [E|E]; apply andb_prop in E; destruct E as (E1 & E2).
          * left. split; [exact E1|]. apply N.eqb_neq. apply negb_true_iff. exact E2.
          * right. split; [exact E1|]. apply N.eqb_eq. exact E2.
        + destruct (negb (we_at other (tr s) =? l_we q)) eqn:Ecl.
          2:{ left. apply app_nil_r. }
          right. right. eexists. split; [reflexivity|]. cbn [lqual].
          exists P0, p, d, po, do. repeat (split; [assumption|]). right.
          split; [exact Hc|]. split; [reflexivity|]. split; [rewrite Hao; exact Hin|]. split; [rewrite <- Hc; exact Hg|].
          rewrite Hao. apply N.eqb_neq. apply negb_true_iff. exact Ecl. }
  destruct (l_inpend q) as [[lru h]|] eqn:Einp.
  { (* the pending inlinks are expanded *)
    cbn [fst snd lmk l_acc]. split; [|split; [left; reflexivity|reflexivity]].
    split; [exact Hincl|]. split; [exact Hst|]. split; [|intros ip E; discriminate].
    cbn [l_items]. destruct (Hip _ eq_refl) as (P0 & p & d & HP & Hu & Hf & Hc & Hpg & Hh & Hinc). cbn [fst snd] in *.
    apply Forall_forall. intros it Hin. apply in_map_iff in Hin. destruct Hin as ([tg wt] & <- & Hin).
    exists P0, p, d. cbn [fst snd head_dir]. repeat (split; [assumption|]).
    apply Hinc. apply weighted_in. exists wt. exact Hin. }
  destruct (l_stack q) as [|[[a0 pre] lv] rest] eqn:Estk.
  - destruct (l_prefixes q) as [|p ps] eqn:Eps.
    + cbn [fst snd lmk l_acc]. split; [|split; [left; reflexivity|discriminate]].
      split; [intros y []|]. split; [left; reflexivity|]. split; [constructor|]. intros ip E. discriminate.
    + destruct (find (lru_iter p) (tr s)) as [d|] eqn:Ef; cbn [fst snd lmk l_acc].
      * split; [|split; [left; reflexivity|reflexivity]].
        split; [intros y Hy; apply Hincl; right; exact Hy|]. split; [|split; [constructor|intros ip E; discriminate]].
        right. exists p, d. split; [apply Hincl; left; reflexivity|]. split; [exact Ef|]. split; [reflexivity|].
        cbn [l_stack]. constructor; [|constructor].
        exists (lru_iter p), d. cbn [fst snd]. split; [exact Ef|]. split; [reflexivity|].
        split; [reflexivity|]. exists []. rewrite app_nil_r. reflexivity.
      * split; [|split; [left; reflexivity|discriminate]].
        split; [intros y []|]. split; [left; reflexivity|]. split; [constructor|]. intros ip E. discriminate.
  - destruct Hst as [Hn|(P0 & d0 & HP0 & Hf0 & Ha0 & Hall)]; [discriminate|].
    pose proof (Forall_inv Hall) as He. pose proof (Forall_inv_tail Hall) as Hrest.
    destruct (read_at a0 (tr s)) as [x|] eqn:Er; cbn [fst snd lmk l_acc].
    2:{ split; [|split; [left; reflexivity|reflexivity]].
        split; [exact Hincl|]. split; [|split; [constructor|intros ip E; discriminate]].
        right. exists P0, d0. cbn [l_stack l_start]. auto. }
    split; [|split; [left; reflexivity|reflexivity]].
    destruct (pop_entry (tr s) (nb s) (lru_iter P0) d0 a0 pre lv x Hwf Hok Hf0 He Er)
      as (pp & Hin & Hpre & Hu & Hxa & Hstart & Hpush).
    assert (Ecur : pre ++ stem (rn_d x) = concat (pp ++ [stem (rn_d x)])) by (rewrite concat_snoc, Hpre; reflexivity).
    split; [exact Hincl|]. cbn [l_stack l_start l_items l_inpend]. split; [|split].
    + right. exists P0, d0. split; [exact HP0|]. split; [exact Hf0|]. split; [exact Ha0|].
      apply Forall_app. split; [|exact Hrest]. unfold lpushes. rewrite <- Ha0. apply Hpush.
    + unfold louts.
      destruct (((a0 =? l_start q) || (we (rn_d x) =? 0)) && page (rn_d x) && negb (outh (rn_d x) =? 0) && (l_outb q || l_int q)) eqn:Ec;
        [|constructor].
      apply andb_prop in Ec. destruct Ec as (Ec & _). apply andb_prop in Ec. destruct Ec as (Ec & _).
      apply andb_prop in Ec. destruct Ec as (_ & Hpg).
      apply Forall_forall. intros it Hi. apply in_map_iff in Hi. destruct Hi as ([tg wt] & <- & Hi).
      exists P0, (pp ++ [stem (rn_d x)]), (rn_d x). cbn [fst snd head_dir]. split; [exact HP0|]. split; [exact Hu|].
      split; [exact Hin|]. split; [symmetry; exact Ecur|]. split; [exact Hpg|].
      apply weighted_in. exists wt. exact Hi.
    + unfold lins. intros ip E.
      destruct (((a0 =? l_start q) || (we (rn_d x) =? 0)) && page (rn_d x) && negb (inh (rn_d x) =? 0) && l_inb q) eqn:Ec;
        [|discriminate].
      injection E as <-.
      apply andb_prop in Ec. destruct Ec as (Ec & _). apply andb_prop in Ec. destruct Ec as (Ec & _).
      apply andb_prop in Ec. destruct Ec as (_ & Hpg).
      exists P0, (pp ++ [stem (rn_d x)]), (rn_d x). cbn [fst snd]. split; [exact HP0|]. split; [exact Hu|].
      split; [exact Hin|]. split; [symmetry; exact Ecur|]. split; [exact Hpg|].
      split; [apply (proj2 (B_heads s (SI_base _ _ _ _ HS) _ _ Hin))|apply incl_refl].
Qed.

(* (L1) + (L2), one turn: the invariant is kept, and the answer is unchanged, or emptied
   (no clause requested: the query is refused), or grows by ONE triple that qualifies now *)
Theorem plinksq_step_sound : forall ps0 s a go gi, SInv s a go gi ->
  forall fuel q, LInv ps0 q s ->
  LInv ps0 (plinksq_step fuel q s) s /\ lacc_rel ps0 s go gi q (plinksq_step fuel q s).
Proof.
  intros ps0 s a go gi HS. induction fuel as [|f IH]; intros q HQ; [split; [exact HQ|left; reflexivity]|].
  rewrite plinksq_step_S. destruct (lmicro_sound ps0 s a go gi q HS HQ) as (H1 & H2 & H3).
  destruct (snd (lmicro q s)); [split; assumption|].
  destruct (IH _ H1) as (K1 & K2). split; [exact K1|].
  destruct (lmicro_same q s) as (E1 & _ & E3 & E4). specialize (H3 eq_refl).
  unfold lacc_rel in *. rewrite E1, E3, E4, H3 in K2. exact K2.
Qed.

(* the form "every element of the new answer that was not in the old one qualifies now" *)
Corollary plinksq_step_new : forall ps0 s a go gi, SInv s a go gi ->
  forall fuel q, LInv ps0 q s ->
  forall x, In x (l_acc (plinksq_step fuel q s)) ->
    In x (l_acc q) \/ lqual ps0 (l_we q) (l_int q) (l_outb q) s go gi x.
Proof.
  intros ps0 s a go gi HS fuel q HQ x Hx.
  destruct (plinksq_step_sound ps0 s a go gi HS fuel q HQ) as (_ & [E|[E|(y & E & Hy)]]); rewrite E in Hx.
  - left. exact Hx.
  - destruct Hx.
  - apply in_app_or in Hx. destruct Hx as [Hx|[<-|[]]]; [left; exact Hx|right; exact Hy].
Qed.

(* ====================================================================== *)
(* any schedule                                                           *)
(* ====================================================================== *)

Definition lflags (w : N) (inb int outb : bool) (q : lco) : Prop :=
  l_we q = w /\ l_inb q = inb /\ l_int q = int /\ l_outb q = outb.

(* the invariant of a page-link coroutine, relative to the job it was started as
   (the part JInv of SchedFacts6 leaves open) *)
Definition LJ (s : traph) (j : job) (c : coro) : Prop :=
  match j, c with
  | JLinks w ps inb int outb, CLinks q => LInv ps q s /\ lflags w inb int outb q /\ lshape q /\ lshape2 q
  | _, _ => True
  end.

Definition LHInv (a0 : astate) (jobs : list job) (cl : list coro) (s : traph) (a : astate) (go gi : links) : Prop :=
  HInv a0 jobs cl s a go gi /\ Forall2 (LJ s) jobs cl.

Lemma LJ_ext : forall s s' j c, lext s s' -> LJ s j c -> LJ s' j c.
Proof.
  intros s s' j c Hx H. destruct j, c; cbn [LJ] in *; try exact I.
  destruct H as (H1 & H2). split; [apply (LInv_ext _ _ _ _ Hx H1)|exact H2].
Qed.

Lemma LHInv_init : forall s0 a0 jobs, R s0 a0 -> Forall job_wf jobs ->
  LHInv a0 jobs (map job_start jobs) s0 a0 (a_links a0) (a_links a0).
Proof.
  intros s0 a0 jobs HR Hwf. split; [apply (HInv_init s0 a0 jobs HR Hwf)|].
  apply F2_map_r. intros j _. destruct j as [d|p k|ps|out auto|w ps inb int outb]; cbn [job_start LJ]; try exact I.
  split; [apply LInv_start|]. split; [repeat split|]. split; intro E; discriminate.
Qed.

Definition lq_fuel (q : lco) (s : traph) : nat :=
  (4 + length (l_prefixes q) + length (l_stack q) + 2 * (S (length (l_prefixes q))) * S (tree_size (tr s)))%nat.

Lemma co_step_plinks : forall q s,
  co_step (CLinks q) s = (CLinks (if l_done q then q else plinksq_step (lq_fuel q s) q s), s).
Proof. intros q s. unfold co_step. cbn [co_done]. destruct (l_done q); reflexivity. Qed.

Lemma LHInv_step : forall a0 jobs cl s a go gi i c, LHInv a0 jobs cl s a go gi ->
  nth_error cl i = Some c ->
  exists a' go' gi',
    LHInv a0 jobs (set_nth_co i (fst (co_step c s)) cl) (snd (co_step c s)) a' go' gi' /\
    lext s (snd (co_step c s)).
Proof.
  intros a0 jobs cl s a go gi i c (HG & HL) Hi.
  destruct (HInv_step _ _ _ _ _ _ _ i c HG Hi) as (a' & go' & gi' & HG' & _).
  pose proof (co_step_lext _ _ _ _ _ _ _ i c HG Hi) as Hx.
  exists a', go', gi'. split; [|exact Hx]. split; [exact HG'|].
  rewrite set_nth_co_eq. apply F2_set_nth.
  - apply (F2_impl _ _ (LJ s)); [|exact HL]. intros x y. apply (LJ_ext _ _ _ _ Hx).
  - intros j Hj. destruct (F2_nth _ _ _ _ _ _ _ HL Hi) as (j' & Hj' & HJ). rewrite Hj in Hj'. injection Hj' as <-.
    destruct c as [b|r|q|n|lq].
    + rewrite co_step_batch. destruct j; exact I.
    + rewrite co_step_rule. destruct j; exact I.
    + rewrite co_step_pages. destruct j; exact I.
    + destruct (co_step_net n s) as (n' & E). rewrite E. destruct j; exact I.
    + rewrite co_step_plinks. cbn [fst snd]. destruct j as [d|p k|ps|out auto|w ps inb int outb]; try exact I.
      cbn [LJ] in *. destruct (l_done lq); [exact HJ|]. destruct HJ as (H1 & H2 & H3 & H4).
      split; [apply (plinksq_step_sound ps s a go gi (H_s _ _ _ _ _ _ _ HG) _ lq H1)|].
      split; [|apply plinksq_step_shape; split; assumption].
      destruct (plinksq_step_same s (lq_fuel lq s) lq) as (E1 & E2 & E3 & E4).
      destruct H2 as (F1 & F2 & F3 & F4). repeat split; congruence.
Qed.

Lemma LHInv_exec : forall a0 jobs sched cl s a go gi, LHInv a0 jobs cl s a go gi ->
  exists a' go' gi', LHInv a0 jobs (fst (exec_sched sched cl s)) (snd (exec_sched sched cl s)) a' go' gi'.
Proof.
  intros a0 jobs sched. induction sched as [|i sched IH]; intros cl s a go gi HG.
  - exists a, go, gi. exact HG.
  - cbn [exec_sched]. destruct (nth_error cl i) as [c|] eqn:Hi; [|apply (IH _ _ _ _ _ HG)].
    destruct (LHInv_step _ _ _ _ _ _ _ i c HG Hi) as (a1 & go1 & gi1 & HG1 & _).
    destruct (co_step c s) as [c' s']. cbn [fst snd] in HG1. apply (IH _ _ _ _ _ HG1).
Qed.

(* the pairs whose chains have been written are links of the start state or links
   submitted by one of the crawl batches *)
Definition all_links (a0 : astate) (jobs : list job) : links :=
  a_links a0 ++ flat_map links_of (datas_of jobs).

Lemma HInv_go : forall a0 jobs cl s a go gi, HInv a0 jobs cl s a go gi ->
  incl go (all_links a0 jobs) /\ incl gi (all_links a0 jobs).
Proof.
  intros a0 jobs cl s a go gi HG. split; intros x Hx.
  - apply (Permutation_in _ (H_out _ _ _ _ _ _ _ HG)). apply in_or_app. left. exact Hx.
  - apply (Permutation_in _ (H_in _ _ _ _ _ _ _ HG)). apply in_or_app. left. exact Hx.
Qed.

(* a triple qualifies in the state s of a run *)
Definition lmoment (a0 : astate) (jobs : list job) (ps : list bytes) (w : N) (int outb : bool)
                   (s : traph) (x : bytes * bytes * N) : Prop :=
  exists a go gi, SInv s a go gi /\ incl go (all_links a0 jobs) /\ incl gi (all_links a0 jobs) /\
                  lqual ps w int outb s go gi x.

(* (L2) at any moment of any schedule, a turn of the query leaves its answer unchanged,
   or empties it (refusal: no clause requested), or appends ONE triple that qualifies at
   that moment *)
Theorem C16_pagelinks_partial : forall jobs sched s0 a0 i w ps inb int outb q,
  R s0 a0 -> Forall job_wf jobs ->
  let cl := fst (exec_sched sched (map job_start jobs) s0) in
  let s := snd (exec_sched sched (map job_start jobs) s0) in
  nth_error jobs i = Some (JLinks w ps inb int outb) -> nth_error cl i = Some (CLinks q) ->
  exists q', co_step (CLinks q) s = (CLinks q', s) /\
    (l_acc q' = l_acc q \/ l_acc q' = [] \/
     exists x, l_acc q' = l_acc q ++ [x] /\ lmoment a0 jobs ps w int outb s x).
Proof.
  intros jobs sched s0 a0 i w ps inb int outb q HR Hwf cl s Hj Hi.
  destruct (LHInv_exec a0 jobs sched _ _ _ _ _ (LHInv_init s0 a0 jobs HR Hwf)) as (a & go & gi & HG & HL).
  fold cl in HG, HL. fold s in HG, HL.
  destruct (F2_nth _ _ _ _ _ _ _ HL Hi) as (j' & Hj' & HJ). rewrite Hj in Hj'. injection Hj' as <-.
  cbn [LJ] in HJ. destruct HJ as (H1 & (F1 & F2 & F3 & F4) & _).
  rewrite co_step_plinks. eexists. split; [reflexivity|].
  destruct (l_done q); [left; reflexivity|].
  destruct (plinksq_step_sound ps s a go gi (H_s _ _ _ _ _ _ _ HG) (lq_fuel q s) q H1) as (_ & [E|[E|(x & E & Hx)]]).
  - left. exact E.
  - right. left. exact E.
  - right. right. exists x. split; [exact E|]. rewrite F1, F3, F4 in Hx.
    destruct (HInv_go _ _ _ _ _ _ _ HG) as (I1 & I2). exists a, go, gi. split; [apply (H_s _ _ _ _ _ _ _ HG)|]. auto.
Qed.

(* every triple of the answer qualified at the moment of a turn of the query *)
Lemma acc_hist : forall a0 jobs i w ps inb int outb, nth_error jobs i = Some (JLinks w ps inb int outb) ->
  forall sched cl s a go gi q q2, LHInv a0 jobs cl s a go gi -> nth_error cl i = Some (CLinks q) ->
  nth_error (fst (exec_sched sched cl s)) i = Some (CLinks q2) ->
  forall x, In x (l_acc q2) ->
    In x (l_acc q) \/
    exists k, nth_error sched k = Some i /\
              lmoment a0 jobs ps w int outb (snd (exec_sched (firstn k sched) cl s)) x.
Proof.
  intros a0 jobs i w ps inb int outb Hji. induction sched as [|j sched IH]; intros cl s a go gi q q2 HG Hi H2 x Hx.
  - cbn [exec_sched fst] in H2. rewrite Hi in H2. injection H2 as <-. left. exact Hx.
  - cbn [exec_sched] in H2. destruct (nth_error cl j) as [c|] eqn:Hj.
    2:{ destruct (IH _ _ _ _ _ _ _ HG Hi H2 x Hx) as [H|(k & Hk & Hm)]; [left; exact H|right].
        exists (S k). split; [exact Hk|]. cbn [firstn exec_sched]. rewrite Hj. exact Hm. }
    destruct (LHInv_step _ _ _ _ _ _ _ j c HG Hj) as (a1 & go1 & gi1 & HG1 & _).
    assert (Hlift : forall q1, nth_error (set_nth_co j (fst (co_step c s)) cl) i = Some (CLinks q1) ->
              In x (l_acc q1) \/
              exists k, nth_error (j :: sched) k = Some i /\
                        lmoment a0 jobs ps w int outb (snd (exec_sched (firstn k (j :: sched)) cl s)) x).
    { intros q1 Hq1. destruct (co_step c s) as [c' s'] eqn:Ec. cbn [fst snd] in *.
      destruct (IH _ _ _ _ _ _ _ HG1 Hq1 H2 x Hx) as [H|(k & Hk & Hm)]; [left; exact H|right].
      exists (S k). split; [exact Hk|]. cbn [firstn exec_sched]. rewrite Hj, Ec. exact Hm. }
    destruct (Nat.eq_dec i j) as [<-|Hne].
    + rewrite Hi in Hj. injection Hj as <-. rewrite co_step_plinks in Hlift. cbn [fst] in Hlift.
      rewrite set_nth_co_eq in Hlift.
      destruct (Hlift _ (nth_set_nth_same _ _ _ _ _ Hi)) as [H|H]; [|right; exact H].
      destruct (l_done q); [left; exact H|].
      destruct HG as (HG & HL). destruct (F2_nth _ _ _ _ _ _ _ HL Hi) as (j' & Hj' & HJ).
      rewrite Hji in Hj'. injection Hj' as <-. cbn [LJ] in HJ. destruct HJ as (H1 & (F1 & F2 & F3 & F4) & _).
      destruct (plinksq_step_new ps s a go gi (H_s _ _ _ _ _ _ _ HG) _ q H1 x H) as [K|K]; [left; exact K|right].
      exists 0%nat. split; [reflexivity|]. cbn [firstn exec_sched snd]. rewrite F1, F3, F4 in K.
      destruct (HInv_go _ _ _ _ _ _ _ HG) as (I1 & I2). exists a, go, gi. split; [apply (H_s _ _ _ _ _ _ _ HG)|]. auto.
    + apply Hlift. rewrite set_nth_co_eq, nth_set_nth_other by exact Hne. exact Hi.
Qed.

Theorem C16_pagelinks_sandwich_partial : forall jobs sched s0 a0 i w ps inb int outb q2,
  R s0 a0 -> Forall job_wf jobs ->
  nth_error jobs i = Some (JLinks w ps inb int outb) ->
  nth_error (fst (exec_sched sched (map job_start jobs) s0)) i = Some (CLinks q2) ->
  forall x, In x (l_acc q2) ->
    exists k, nth_error sched k = Some i /\
      lmoment a0 jobs ps w int outb (snd (exec_sched (firstn k sched) (map job_start jobs) s0)) x.
Proof.
  intros jobs sched s0 a0 i w ps inb int outb q2 HR Hwf Hj H2 x Hx.
  destruct (acc_hist a0 jobs i w ps inb int outb Hj sched _ _ _ _ _ (plinksq_start w ps inb int outb) q2
              (LHInv_init s0 a0 jobs HR Hwf)) with (x := x) as [H|H]; try assumption.
  - rewrite nth_error_map, Hj. reflexivity.
  - destruct H.
Qed.

(* ====================================================================== *)
(* the same read on the specification side                                *)
(* ====================================================================== *)

Lemma we_at_find_g : forall t nbk p d, wf_tst t -> addr_ok t nbk -> find p t = Some d ->
  we_at (addr d) t = wwalk 0 t p.
Proof.
  intros t nbk p d Hwf Hok Hp. unfold we_at.
  rewrite (find_unique _ _ _ (d, wwalk 0 t p)); [reflexivity| | |].
  - apply dww_in; [apply Hwf|]. exists p. auto.
  - cbn [fst]. apply N.eqb_refl.
  - intros [d1 w1] Hin E. cbn [fst] in E. apply N.eqb_eq in E.
    apply dww_in in Hin; [|apply Hwf]. destruct Hin as (q & Hq & Hw).
    pose proof (proj2 Hok q p d1 d Hq Hp E) as Eq. subst q. rewrite Hq in Hp. injection Hp as ->.
    rewrite Hw. reflexivity.
Qed.

Lemma owner_wwalk_g : forall s a l, Rcore s a -> owner a l = wwalk 0 (tr s) (lru_iter l).
Proof.
  intros s a l HC. unfold owner. rewrite <- (retrieve_webentity_spec_gen s a HC).
  unfold retrieve_webentity, q_follow. rewrite follow_hist_from, wwalk_hist_from.
  cbn [h_we hist0]. destruct (wwalk 0 (tr s) (lru_iter l) =? 0) eqn:E; [|reflexivity].
  apply N.eqb_eq in E. symmetry. exact E.
Qed.

(* the webentity resolved from the block of a node is the owner of its LRU *)
Lemma we_at_owner : forall s a p d, Rcore s a -> addr_ok (tr s) (nb s) -> find p (tr s) = Some d ->
  we_at (addr d) (tr s) = owner a (concat p).
Proof.
  intros s a p d HC Hok Hf. pose proof (R_wf s a HC) as Hwf.
  rewrite (we_at_find_g _ _ p d Hwf Hok Hf), (owner_wwalk_g s a _ HC).
  destruct (wf_lru_of_path s p d Hwf Hf) as (_ & _ & ->). reflexivity.
Qed.

Definition lqual_spec (ps0 : list bytes) (w : N) (int outb : bool) (a : astate) (go gi : links)
                      (x : bytes * bytes * N) : Prop :=
  let '(src, dst, wt) := x in
  (exists c, In (src, c) (a_pages a)) /\ (exists c, In (dst, c) (a_pages a)) /\
  (((exists P0, In P0 ps0 /\ is_stem_prefix P0 src = true) /\ In (src, dst) go /\
    ((outb = true /\ owner a dst <> w) \/ (int = true /\ owner a dst = w)))
   \/
   ((exists P0, In P0 ps0 /\ is_stem_prefix P0 dst = true) /\ In (src, dst) gi /\ owner a src <> w)).

Lemma lqual_to_spec : forall ps0 w int outb s a go gi x, SInv s a go gi -> Forall wf_lru ps0 ->
  lqual ps0 w int outb s go gi x -> lqual_spec ps0 w int outb a go gi x.
Proof.
  intros ps0 w int outb s a go gi [[src dst] wt] HS Hps (P0 & p & d & po & do & HP & Hu & Hf & Hpg & Hfo & Hpo & Hcl).
  pose proof (SInv_facts _ _ _ _ HS) as (HC & Hwf & Hok & _). cbn [lqual_spec].
  destruct (ViewFacts.find_nodeof s p d Hwf Hf) as (Hwl & Hn).
  destruct (ViewFacts.find_nodeof s po do Hwf Hfo) as (Hwlo & Hno).
  assert (Hp1 : exists c, In (concat p, c) (a_pages a)).
  { exists (crawled d). apply (R_pages s a HC _ _ Hwl). exists d. auto. }
  assert (Hp2 : exists c, In (concat po, c) (a_pages a)).
  { exists (crawled do). apply (R_pages s a HC _ _ Hwlo). exists do. auto. }
  assert (Hpre : exists P1, In P1 ps0 /\ is_stem_prefix P1 (concat p) = true).
  { exists P0. split; [exact HP|]. unfold is_stem_prefix. apply mem_bytes_In. rewrite Forall_forall in Hps.
    apply (is_prefix_iff (concat p) P0 Hwl (Hps P0 HP)).
    destruct (wf_lru_of_path s p d Hwf Hf) as (_ & _ & ->). apply is_prefix_spec. exact Hu. }
  rewrite (we_at_owner s a po do HC Hok Hfo) in Hcl.
  destruct Hcl as [(<- & <- & _ & Hg & Hc)|(<- & <- & _ & Hg & Hc)].
  - split; [exact Hp1|]. split; [exact Hp2|]. left. auto.
  - split; [exact Hp2|]. split; [exact Hp1|]. right. auto.
Qed.

(* (L2), specification side: every triple of the answer was, at the moment of a turn of
   the query, a link between two pages of an abstract state refined (in its tree part)
   by the index at that moment, among the links of the start state and of the batches,
   one end under a prefix of the query, the other end owned (internal clause) / not owned
   (outbound, inbound clauses) by the webentity of the query *)
Theorem C16_pagelinks_sandwich_partial_spec : forall jobs sched s0 a0 i w ps inb int outb q2,
  R s0 a0 -> Forall job_wf jobs -> Forall wf_lru ps ->
  nth_error jobs i = Some (JLinks w ps inb int outb) ->
  nth_error (fst (exec_sched sched (map job_start jobs) s0)) i = Some (CLinks q2) ->
  forall x, In x (l_acc q2) ->
    exists k a, nth_error sched k = Some i /\
      Rcore (snd (exec_sched (firstn k sched) (map job_start jobs) s0)) a /\
      lqual_spec ps w int outb a (all_links a0 jobs) (all_links a0 jobs) x.
Proof.
  intros jobs sched s0 a0 i w ps inb int outb q2 HR Hwf Hps Hj H2 x Hx.
  destruct (C16_pagelinks_sandwich_partial jobs sched s0 a0 i w ps inb int outb q2 HR Hwf Hj H2 x Hx)
    as (k & Hk & a & go & gi & HS & I1 & I2 & Hq).
  exists k, a. split; [exact Hk|]. split; [apply (SI_core _ _ _ _ HS)|].
  pose proof (lqual_to_spec _ _ _ _ _ _ _ _ _ HS Hps Hq) as H. destruct x as [[src dst] wt]. cbn [lqual_spec] in *.
  destruct H as (P1 & P2 & [(A & B & C)|(A & B & C)]); split; try assumption; split; try assumption.
  - left. split; [exact A|]. split; [apply I1; exact B|exact C].
  - right. split; [exact A|]. split; [apply I2; exact B|exact C].
Qed.

(* the other end of every pending item is the block of a page of the tree (LInv keeps the
   membership in the chain; that chain targets are blocks of pages is part of SInv) *)
Lemma LInv_items_nodes : forall ps0 q s a go gi, SInv s a go gi -> LInv ps0 q s ->
  forall isout lru other wt, In (isout, lru, other, wt) (l_items q) ->
  (exists P0 p d, In P0 ps0 /\ under (lru_iter P0) p /\ find p (tr s) = Some d /\ concat p = lru /\ page d = true /\
                  In other (targets_of (stubs s) (head_dir isout d))) /\
  (exists po do, find po (tr s) = Some do /\ addr do = other /\ page do = true /\ lru_at other s = concat po).
Proof.
  intros ps0 q s a go gi HS (_ & _ & Hit & _) isout lru other wt Hin.
  rewrite Forall_forall in Hit. destruct (Hit _ Hin) as (P0 & p & d & HP & Hu & Hf & Hc & Hpg & Ht).
  cbn [fst snd] in Hc, Ht. split; [exists P0, p, d; repeat split; assumption|].
  destruct (chain_target s a go gi isout p d other HS Hf Ht) as (po & dq & H1 & H2 & H3 & H4 & _).
  exists po, dq. repeat split; assumption.
Qed.
