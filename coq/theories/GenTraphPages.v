(* GenTraphPages.v — the per-webentity page enumerations of the public API translated from /repo/traph/traph.py on
   every run (GenTraph.v: Traph.webentity_page_nodes_iter, get_webentity_pages, get_webentity_crawled_pages, over the
   translated LRUTrie.lru_node / webentity_dfs_iter) answer exactly what the model's Traph.we_page_nodes /
   webentity_pages / webentity_crawled_pages answer, on the trie file of every state satisfying the block invariant
   Inv18; a refusal (TraphException: one prefix of the list is not in the trie) is None on the code's side, RRefused on
   the model's, and the translated code never fails otherwise.  The bytes of the storage object are left alone. *)
From Coq Require Import List NArith Bool Lia Arith.
Import ListNotations.
From Traph Require Import Bytes Consts Layout Helpers Rules Tst TstDefs Traph Traphw TraceDefs Codec CodecFacts
  TstFacts Store StoreFacts GenStorage GenNode GenNodeFacts GenTrie GenTrieFacts GenTrieW GenTrieWDefs GenTrieD
  GenTrieDDefs GenTrieDWdfs GenTraph.
From Traph Require GenTrieWPage.
Open Scope N_scope.

Arguments N.shiftr : simpl never.
Arguments N.shiftl : simpl never.
Arguments N.modulo : simpl never.
Arguments N.div : simpl never.
Arguments N.land : simpl never.
Arguments N.lor : simpl never.
Arguments N.mul : simpl never.
Arguments N.add : simpl never.
Arguments N.sub : simpl never.
Arguments N.ltb : simpl never.
Arguments N.leb : simpl never.
Arguments N.eqb : simpl never.

(* ---- reading never changes the bytes of the storage object (whatever the object, whatever the address) ---- *)
Lemma pm_read_arr : forall sg b, pm_array (fst (py_pm_read sg b)) = pm_array sg.
Proof. intros sg [a|]; reflexivity. Qed.

Lemma rd_loop_arr : forall fuel sg ch, pm_array (fst (rd_loop fuel (sg, ch))) = pm_array sg.
Proof.
  induction fuel as [|k IH]; intros sg ch; [reflexivity|].
  cbn [rd_loop]. pose proof (pm_read_arr sg None) as Hr.
  destruct (py_pm_read sg None) as [sg1 [td|]]; cbn [fst] in Hr; [|exact Hr].
  cbv zeta. destruct (negb _); [exact Hr|]. rewrite IH. exact Hr.
Qed.

Lemma py_node_read_o_eq : forall nd sg b,
  py_node_read_o nd sg b =
  (let '(sg, v_data) := py_pm_read sg b in
   match v_data with
   | None => (nd_set_tail [] (py_node_set_default_data (nd_set_exists false nd) None), sg)
   | Some v_data =>
       let nd := nd_set_tail [] (nd_set_block b
                   (nd_set_data (unpack node_format v_data) (nd_set_exists true nd))) in
       if py_node_has_tail nd
       then let '(sg, v_chunks) := rd_loop (S (length (pm_array sg))) (sg, []) in
            (nd_set_tail (concat v_chunks) nd, sg)
       else (nd, sg)
   end).
Proof. intros nd sg b. reflexivity. Qed.

Lemma node_read_o_arr : forall nd sg b, pm_array (snd (py_node_read_o nd sg b)) = pm_array sg.
Proof.
  intros nd sg b. rewrite py_node_read_o_eq.
  pose proof (pm_read_arr sg b) as Hr.
  destruct (py_pm_read sg b) as [sg1 [vd|]]; cbn [fst] in Hr; [|exact Hr].
  cbv zeta. destruct (py_node_has_tail _); [|exact Hr].
  pose proof (rd_loop_arr (S (length (pm_array sg1))) sg1 []) as Hl.
  destruct (rd_loop (S (length (pm_array sg1))) (sg1, [])) as [sg2 ch]. cbn [fst snd] in *. congruence.
Qed.

(* ---- LRUTrie.lru_node never changes the bytes ---- *)
Definition arr_is (a : bytes) (acc : R + St) : Prop :=
  match acc with
  | inl None => True
  | inl (Some (sg, _)) => pm_array sg = a
  | inr (sg, _) => pm_array sg = a
  end.

Lemma inner_arr : forall x fuel sg n, arr_is (pm_array sg) (inner x fuel (sg, n)).
Proof.
  intros x. induction fuel as [|k IH]; intros sg n; [reflexivity|].
  cbn [inner]. destruct (beq _ _); [reflexivity|].
  destruct (blt _ _).
  - destruct (py_node_has_left n) eqn:Eh; [|reflexivity].
    unfold py_node_read_left. rewrite Eh. cbn [negb].
    pose proof (node_read_o_arr n sg (py_node_left n)) as Ha.
    destruct (py_node_read_o n sg (py_node_left n)) as [n1 sg1]. cbn [snd] in Ha.
    rewrite <- Ha. apply IH.
  - destruct (py_node_has_right n) eqn:Eh; [|reflexivity].
    unfold py_node_read_right. rewrite Eh. cbn [negb].
    pose proof (node_read_o_arr n sg (py_node_right n)) as Ha.
    destruct (py_node_read_o n sg (py_node_right n)) as [n1 sg1]. cbn [snd] in Ha.
    rewrite <- Ha. apply IH.
Qed.

Lemma step_arr : forall stems l a acc i, arr_is a acc -> arr_is a (step stems l acc i).
Proof.
  intros stems l a [r|[sg n]] i H; [exact H|].
  cbn [arr_is] in H. subst a. cbn [step]. cbv zeta.
  pose proof (inner_arr (nth (N.to_nat i) stems []) (S (length (pm_array sg))) sg n) as Hi.
  destruct (inner _ _ (sg, n)) as [r|[sg1 n1]]; [exact Hi|].
  cbn [arr_is] in Hi. destruct (N.ltb _ _); [|exact Hi].
  destruct (py_node_has_child n1) eqn:Eh; cbn [negb]; [|exact Hi].
  unfold py_node_read_child. rewrite Eh. cbn [negb].
  pose proof (node_read_o_arr n1 sg1 (py_node_child n1)) as Ha.
  destruct (py_node_read_o n1 sg1 (py_node_child n1)) as [n2 sg2]. cbn [snd] in Ha.
  cbn [arr_is]. congruence.
Qed.

Lemma fold_step_arr : forall stems l a is acc, arr_is a acc -> arr_is a (fold_left (step stems l) is acc).
Proof.
  intros stems l a. induction is as [|i is IH]; intros acc H; [exact H|].
  cbn [fold_left]. apply IH, step_arr, H.
Qed.

Lemma lru_node_arr : forall sg lru sg' r, py_trie_lru_node sg lru = Some (sg', r) -> pm_array sg' = pm_array sg.
Proof.
  intros sg lru sg' r H. rewrite lru_node_eq, init_read in H.
  pose proof (node_read_o_arr (nd_set_tail [] (nd_set_exists false (nd_set_block None py_node_new))) sg
                (Some py_first_data_block)) as Ha.
  destruct (py_node_read_o _ sg (Some py_first_data_block)) as [n0 sg0]. cbn [snd] in Ha. cbv zeta in H.
  pose proof (fold_step_arr (GenHelpers2.py_lru_iter lru) (N.of_nat (length (GenHelpers2.py_lru_iter lru)))
                (pm_array sg0) (py_range (N.of_nat (length (GenHelpers2.py_lru_iter lru)))) (inr (sg0, n0)) eq_refl) as Hf.
  destruct (fold_left (step _ _) _ (inr (sg0, n0))) as [[[sg1 r1]|]|[sg1 n1]]; cbn [arr_is] in Hf.
  - injection H as <- _. congruence.
  - discriminate H.
  - injection H as <- _. congruence.
Qed.

(* ---- the generated loops, re-stated ---- *)
Definition keep_pages (out : list (py_node * bytes)) (items : list (py_node * bytes)) : list (py_node * bytes) :=
  fold_left (fun (st : list ((py_node * bytes))) (v__it : (py_node * bytes)) => let v__out := st in let '(v_node, v_lru) := v__it in
   (let v__out := (if (py_node_is_page v_node)
   then (let v__out := v__out ++ [(v_node, v_lru)] in
   v__out)
   else v__out) in
   v__out)) items out.

Definition body (st : option (py_pm * list ((py_node * bytes)))) (v_prefix : bytes) : option (py_pm * list (py_node * bytes)) :=
  match st with
  | None => None
  | Some (sg, v__out) =>
      match py_trie_lru_node sg v_prefix with
      | None => None
      | Some (sg, None) => None
      | Some (sg, Some v_starting_node) =>
          match py_trie_webentity_dfs_iter sg v_starting_node v_prefix None with
          | None => None
          | Some (v__items, sg) => Some (sg, keep_pages v__out v__items)
          end
      end
  end.

Lemma page_nodes_eq : forall sg w ps,
  py_traph_webentity_page_nodes_iter sg w ps =
  match fold_left body ps (Some (sg, [])) with
  | None => None
  | Some (sg, out) => Some (out, sg)
  end.
Proof. reflexivity. Qed.

Lemma fold_body_None : forall ps, fold_left body ps None = None.
Proof. induction ps as [|p ps IH]; [reflexivity|exact IH]. Qed.

Lemma keep_pages_filter : forall items out,
  keep_pages out items = out ++ filter (fun it => py_node_is_page (fst it)) items.
Proof.
  unfold keep_pages. induction items as [|[n l] items IH]; intro out.
  - cbn [fold_left filter]. symmetry. apply app_nil_r.
  - cbn [fold_left filter fst]. rewrite IH. destruct (py_node_is_page n); [|reflexivity].
    rewrite <- app_assoc. reflexivity.
Qed.

Lemma pages_fold_map : forall (items : list (py_node * bytes)) out,
  fold_left (fun (st : list (bytes * bool)) (v__it : (py_node * bytes)) => let v_pages := st in let '(v_node, v_lru) := v__it in
   (let v_pages := v_pages ++ [(v_lru, (py_node_is_crawled v_node))] in
   v_pages)) items out = out ++ map (fun it => (snd it, py_node_is_crawled (fst it))) items.
Proof.
  induction items as [|[n l] items IH]; intro out.
  - cbn [fold_left map]. symmetry. apply app_nil_r.
  - cbn [fold_left map fst snd]. rewrite IH, <- app_assoc. reflexivity.
Qed.

Lemma crawled_fold_map : forall (items : list (py_node * bytes)) out,
  fold_left (fun (st : list (bytes * bool)) (v__it : (py_node * bytes)) => let v_pages := st in let '(v_node, v_lru) := v__it in
   (if (py_node_is_crawled v_node)
   then (let v_pages := v_pages ++ [(v_lru, true)] in
   v_pages)
   else v_pages)) items out =
  out ++ map (fun it => (snd it, true)) (filter (fun it => py_node_is_crawled (fst it)) items).
Proof.
  induction items as [|[n l] items IH]; intro out.
  - cbn [fold_left map filter]. symmetry. apply app_nil_r.
  - cbn [fold_left filter fst snd]. rewrite IH. destruct (py_node_is_crawled n); [|reflexivity].
    cbn [map snd]. rewrite <- app_assoc. reflexivity.
Qed.

(* ---- the flags of an item ---- *)
Lemma item_page : forall s it m, item_rep s it m -> py_node_is_page (fst it) = page (snd m).
Proof.
  intros s it m (_ & l & c & r & _ & Hn). destruct Hn as (_ & _ & Hd & _).
  exact (GenTrieWPage.is_page_main _ _ _ _ _ Hd).
Qed.

Lemma item_crawled : forall s it m, item_rep s it m -> py_node_is_crawled (fst it) = crawled (snd m).
Proof.
  intros s it m (_ & l & c & r & _ & Hn). destruct Hn as (_ & _ & Hd & _).
  exact (GenTrieWPage.is_crawled_main _ _ _ _ _ Hd).
Qed.

Lemma Forall2_filter : forall (A B : Type) (R : A -> B -> Prop) (f : A -> bool) (g : B -> bool),
  (forall a b, R a b -> f a = g b) ->
  forall la lb, Forall2 R la lb -> Forall2 R (filter f la) (filter g lb).
Proof.
  intros A B R f g Hfg la lb H. induction H as [|a b la lb Hab _ IH]; [constructor|].
  cbn [filter]. rewrite (Hfg a b Hab). destruct (g b); [constructor; assumption|exact IH].
Qed.

Section OnState.
  Variable s : traph.
  Hypothesis Hinv : Inv18 s.
  Hypothesis Hroot : root_first s.

  (* lru_node with the bytes untouched and the subtree located *)
  Lemma lru_node_full : forall sg lru, trep (files_of s) sg -> wf_lru lru ->
    exists sg', trep (files_of s) sg' /\ pm_array sg' = pm_array sg /\
      match find_sub (lru_iter lru) (tr s) with
      | Some t' => exists n', py_trie_lru_node sg lru = Some (sg', Some n') /\ node_at t' n' /\ subt t' (tr s)
      | None => py_trie_lru_node sg lru = Some (sg', None)
      end.
  Proof.
    intros sg lru Hrep Hwf.
    destruct (py_trie_lru_node_spec s Hinv sg lru Hroot Hrep Hwf) as (sg' & Hrep' & H).
    exists sg'. split; [exact Hrep'|].
    destruct (find_sub (lru_iter lru) (tr s)) as [t'|] eqn:Ef.
    - destruct H as (n' & E & Hn). split; [exact (lru_node_arr _ _ _ _ E)|].
      exists n'. split; [exact E|]. split; [exact Hn|].
      destruct t' as [|d l c r]; [destruct Hn|].
      assert (Hfd : find (lru_iter lru) (tr s) = Some d) by (unfold find; rewrite Ef; reflexivity).
      destruct (find_subt _ _ _ Hfd) as (l' & c' & r' & Ef' & Hsub).
      rewrite Ef in Ef'. injection Ef' as -> -> ->. exact Hsub.
    - split; [exact (lru_node_arr _ _ _ _ H)|exact H].
  Qed.

  Definition pages_of (p : bytes) (sub : tst) : list (bytes * nd) :=
    filter (fun x => page (snd x)) (wdfs_at None (lru_dirname p) sub).

  Lemma fold_body_spec : forall ps sg out lo,
    trep (files_of s) sg -> Forall wf_lru ps -> Forall2 (item_rep s) out lo ->
    match over_prefixes pages_of ps (tr s) with
    | ROk l => exists out' sg', fold_left body ps (Some (sg, out)) = Some (sg', out') /\
                 trep (files_of s) sg' /\ pm_array sg' = pm_array sg /\ Forall2 (item_rep s) out' (lo ++ l)
    | _ => fold_left body ps (Some (sg, out)) = None
    end.
  Proof.
    induction ps as [|p ps IH]; intros sg out lo Hrep Hwf Hout.
    - cbn [over_prefixes fold_left]. exists out, sg. rewrite app_nil_r.
      split; [reflexivity|]. split; [exact Hrep|]. split; [reflexivity|exact Hout].
    - inversion Hwf as [|? ? Hp Hps]; subst.
      cbn [over_prefixes fold_left].
      destruct (lru_node_full sg p Hrep Hp) as (sg1 & Hrep1 & Harr1 & H1).
      destruct (find_sub (lru_iter p) (tr s)) as [sub|].
      2:{ cbn [body]. rewrite H1. apply fold_body_None. }
      destruct H1 as (n1 & E1 & Hn1 & Hsub1).
      destruct (py_trie_webentity_dfs_iter_spec s Hinv sg1 None sub n1 p Hrep1 Hsub1 Hn1)
        as (items & sg2 & E2 & Hrep2 & Harr2 & Hitems).
      cbn [body]. rewrite E1, E2, keep_pages_filter.
      assert (Hout2 : Forall2 (item_rep s) (out ++ filter (fun it => py_node_is_page (fst it)) items)
                                           (lo ++ pages_of p sub)).
      { apply Forall2_app; [exact Hout|]. unfold pages_of.
        apply Forall2_filter; [|exact Hitems]. intros a b Hab. exact (item_page s a b Hab). }
      specialize (IH sg2 _ _ Hrep2 Hps Hout2).
      destruct (over_prefixes pages_of ps (tr s)) as [| |l].
      + exact IH.
      + exact IH.
      + destruct IH as (out' & sg' & E & Hrep' & Harr' & Hf). exists out', sg'.
        split; [exact E|]. split; [exact Hrep'|]. split; [congruence|].
        rewrite <- app_assoc in Hf. exact Hf.
  Qed.

  (* None stands for TraphException on the code's side, RRefused on the model's *)
  Theorem page_nodes_spec : forall sg w ps,
    trep (files_of s) sg -> Forall wf_lru ps ->
    match we_page_nodes None ps s with
    | ROk l => exists items sg', py_traph_webentity_page_nodes_iter sg w ps = Some (items, sg') /\
                 trep (files_of s) sg' /\ pm_array sg' = pm_array sg /\ Forall2 (item_rep s) items l
    | _ => py_traph_webentity_page_nodes_iter sg w ps = None
    end.
  Proof.
    intros sg w ps Hrep Hwf. rewrite page_nodes_eq.
    pose proof (fold_body_spec ps sg [] [] Hrep Hwf (Forall2_nil _)) as H.
    unfold we_page_nodes. change (fun p sub => filter (fun x => page (snd x)) (wdfs_at None (lru_dirname p) sub)) with pages_of.
    destruct (over_prefixes pages_of ps (tr s)) as [| |l].
    - rewrite H. reflexivity.
    - rewrite H. reflexivity.
    - destruct H as (out' & sg' & E & Hrep' & Harr' & Hf). rewrite E. exists out', sg'.
      split; [reflexivity|]. split; [exact Hrep'|]. split; [exact Harr'|exact Hf].
  Qed.

  Lemma items_pages : forall items l, Forall2 (item_rep s) items l ->
    map (fun it => (snd it, py_node_is_crawled (fst it))) items = map (fun x => (fst x, crawled (snd x))) l.
  Proof.
    intros items l H. induction H as [|a b la lb Hab _ IH]; [reflexivity|].
    cbn [map]. rewrite IH, (item_crawled s a b Hab). destruct Hab as (-> & _). reflexivity.
  Qed.

  Lemma items_lrus : forall items l, Forall2 (item_rep s) items l ->
    map (fun it : py_node * bytes => (snd it, true)) items = map (fun x : bytes * nd => (fst x, true)) l.
  Proof.
    intros items l H. induction H as [|a b la lb Hab _ IH]; [reflexivity|].
    cbn [map]. rewrite IH. destruct Hab as (-> & _). reflexivity.
  Qed.

  Theorem get_pages_spec : forall sg w ps,
    trep (files_of s) sg -> Forall wf_lru ps ->
    match webentity_pages ps s with
    | ROk l => exists sg', py_traph_get_webentity_pages sg w ps = Some (sg', l) /\
                 trep (files_of s) sg' /\ pm_array sg' = pm_array sg
    | _ => py_traph_get_webentity_pages sg w ps = None
    end.
  Proof.
    intros sg w ps Hrep Hwf. pose proof (page_nodes_spec sg w ps Hrep Hwf) as H.
    unfold webentity_pages, py_traph_get_webentity_pages.
    destruct (we_page_nodes None ps s) as [| |l].
    - rewrite H. reflexivity.
    - rewrite H. reflexivity.
    - destruct H as (items & sg' & E & Hrep' & Harr' & Hf). rewrite E. cbv zeta.
      rewrite pages_fold_map. cbn [app]. rewrite (items_pages items l Hf).
      exists sg'. split; [reflexivity|]. split; [exact Hrep'|exact Harr'].
  Qed.

  Theorem get_crawled_pages_spec : forall sg w ps,
    trep (files_of s) sg -> Forall wf_lru ps ->
    match webentity_crawled_pages ps s with
    | ROk l => exists sg', py_traph_get_webentity_crawled_pages sg w ps = Some (sg', l) /\
                 trep (files_of s) sg' /\ pm_array sg' = pm_array sg
    | _ => py_traph_get_webentity_crawled_pages sg w ps = None
    end.
  Proof.
    intros sg w ps Hrep Hwf. pose proof (page_nodes_spec sg w ps Hrep Hwf) as H.
    unfold webentity_crawled_pages, py_traph_get_webentity_crawled_pages.
    destruct (we_page_nodes None ps s) as [| |l].
    - rewrite H. reflexivity.
    - rewrite H. reflexivity.
    - destruct H as (items & sg' & E & Hrep' & Harr' & Hf). rewrite E. cbv zeta.
      rewrite crawled_fold_map. cbn [app].
      assert (Hff : Forall2 (item_rep s) (filter (fun it => py_node_is_crawled (fst it)) items)
                                         (filter (fun x => crawled (snd x)) l)).
      { apply Forall2_filter; [|exact Hf]. intros a b Hab. exact (item_crawled s a b Hab). }
      rewrite (items_lrus _ _ Hff).
      exists sg'. split; [reflexivity|]. split; [exact Hrep'|exact Harr'].
  Qed.
End OnState.

(* ---- the main theorems ---- *)
Theorem py_traph_page_nodes_spec : forall s, Inv18 s -> root_first s -> forall sg w ps,
  trep (files_of s) sg -> Forall wf_lru ps ->
  match we_page_nodes None ps s with
  | ROk l => exists items sg', py_traph_webentity_page_nodes_iter sg w ps = Some (items, sg') /\
               trep (files_of s) sg' /\ pm_array sg' = pm_array sg /\ Forall2 (item_rep s) items l
  | _ => py_traph_webentity_page_nodes_iter sg w ps = None
  end.
Proof. intros s Hinv Hroot. exact (page_nodes_spec s Hinv Hroot). Qed.

Theorem py_traph_get_webentity_pages_spec : forall s, Inv18 s -> root_first s -> forall sg w ps,
  trep (files_of s) sg -> Forall wf_lru ps ->
  match webentity_pages ps s with
  | ROk l => exists sg', py_traph_get_webentity_pages sg w ps = Some (sg', l) /\ trep (files_of s) sg' /\ pm_array sg' = pm_array sg
  | _ => py_traph_get_webentity_pages sg w ps = None
  end.
Proof. intros s Hinv Hroot. exact (get_pages_spec s Hinv Hroot). Qed.

Theorem py_traph_get_webentity_crawled_pages_spec : forall s, Inv18 s -> root_first s -> forall sg w ps,
  trep (files_of s) sg -> Forall wf_lru ps ->
  match webentity_crawled_pages ps s with
  | ROk l => exists sg', py_traph_get_webentity_crawled_pages sg w ps = Some (sg', l) /\ trep (files_of s) sg' /\ pm_array sg' = pm_array sg
  | _ => py_traph_get_webentity_crawled_pages sg w ps = None
  end.
Proof. intros s Hinv Hroot. exact (get_crawled_pages_spec s Hinv Hroot). Qed.

Print Assumptions py_traph_page_nodes_spec.
Print Assumptions py_traph_get_webentity_pages_spec.
Print Assumptions py_traph_get_webentity_crawled_pages_spec.

(* ---- non-vacuity: the translated code run on the bytes of the trie file of the concrete state PropsEx.exs ---- *)
From Traph Require PropsEx.
Definition ex_ps : list bytes := [PropsEx.ex_px; firstn 17 PropsEx.ex_px].
Definition ex_ps_absent : list bytes := [PropsEx.ex_px; PropsEx.ex_px ++ [112; 58; 122; 124]].
Definition res_opt {A} (r : res A) : option A := match r with ROk a => Some a | _ => None end.

(* webentity 3 with its prefix and a higher prefix of it: three pages, one of them crawled *)
Example ex_page_nodes :
  option_map (fun x => map (fun it => (snd it, nd_block (fst it))) (fst x)) (py_traph_webentity_page_nodes_iter ex_sg 3 ex_ps)
  = res_opt (match we_page_nodes None ex_ps PropsEx.exs with
             | ROk l => ROk (map (fun m => (fst m, Some (addr (snd m)))) l) | RRefused => RRefused | RCrash => RCrash end) /\
  option_map (fun x => length (fst x)) (py_traph_webentity_page_nodes_iter ex_sg 3 ex_ps) = Some 3%nat.
Proof. vm_compute. split; reflexivity. Qed.
Example ex_pages :
  option_map snd (py_traph_get_webentity_pages ex_sg 3 ex_ps) = res_opt (webentity_pages ex_ps PropsEx.exs) /\
  option_map (fun x => length (snd x)) (py_traph_get_webentity_pages ex_sg 3 ex_ps) = Some 3%nat /\
  option_map (fun x => map snd (snd x)) (py_traph_get_webentity_pages ex_sg 3 ex_ps) = Some [false; true; false].
Proof. vm_compute. repeat split; reflexivity. Qed.
Example ex_crawled_pages :
  option_map snd (py_traph_get_webentity_crawled_pages ex_sg 3 ex_ps) = res_opt (webentity_crawled_pages ex_ps PropsEx.exs) /\
  option_map (fun x => length (snd x)) (py_traph_get_webentity_crawled_pages ex_sg 3 ex_ps) = Some 1%nat.
Proof. vm_compute. split; reflexivity. Qed.
(* a list one prefix of which is not in the trie, whatever its position: TraphException / refusal *)
Example ex_pages_absent :
  py_traph_get_webentity_pages ex_sg 3 ex_ps_absent = None /\ webentity_pages ex_ps_absent PropsEx.exs = RRefused /\
  py_traph_get_webentity_pages ex_sg 3 (rev ex_ps_absent) = None /\ webentity_pages (rev ex_ps_absent) PropsEx.exs = RRefused /\
  py_traph_get_webentity_crawled_pages ex_sg 3 ex_ps_absent = None /\ webentity_crawled_pages ex_ps_absent PropsEx.exs = RRefused /\
  py_traph_webentity_page_nodes_iter ex_sg 3 ex_ps_absent = None /\ we_page_nodes None ex_ps_absent PropsEx.exs = RRefused.
Proof. vm_compute. repeat split; reflexivity. Qed.
