(* SchedFacts2.v — index_batch_crawl_iter as a coroutine, part 2: the invariants of a
   run (SInv: refinement of the tree, link store against the ghost lists; BInv: local
   variables of one coroutine) and the accounting relation (Acct), along the micro-steps
   of SchedFacts.v and hence along one turn of a coroutine. *)
From Coq Require Import List NArith Bool Lia Arith Permutation.
Import ListNotations.
From Traph Require Import Bytes Consts Helpers Rules Tst TstDefs Traph Spec Ops RefDefs TstFacts
  ViewFacts ViewFacts2 RefCore RefCore3 LinkFacts LinkFacts2 LinkFacts3 Sched SchedFacts.
Open Scope N_scope.

(* ====================================================================== *)
(* the invariant of a run                                                 *)
(* ====================================================================== *)

(* both ends of every pair are pages of the abstract state *)
Definition lends (a : astate) (L : links) : Prop :=
  forall x, In x L -> apage a (fst x) /\ apage a (snd x).

Record SInv (s : traph) (a : astate) (go gi : links) : Prop := mkSInv {
  SI_core : Rcore s a;
  SI_good : good s;
  SI_base : Rbase s;
  SI_out : Rdir true s go;
  SI_in : Rdir false s gi;
  SI_eo : lends a go;
  SI_ei : lends a gi
}.

Lemma apage_page : forall s a x, Rcore s a -> apage a x -> wf_lru x /\ is_page s x.
Proof. intros s a x HC (c & Hc). apply (R_is_page s a x c HC Hc). Qed.

Lemma lends_closed : forall s a out L, Rcore s a -> lends a L -> closed out s L.
Proof.
  intros s a out L HC HL x Hx. destruct (HL x Hx) as (H1 & H2).
  apply is_page_known. destruct out; cbn [lkey]; [apply (apage_page s a _ HC H1)|apply (apage_page s a _ HC H2)].
Qed.

Lemma lends_mono : forall a a' L, pages_mono a a' -> lends a L -> lends a' L.
Proof. intros a a' L Hm HL x Hx. destruct (HL x Hx) as (H1 & H2). split; apply Hm; assumption. Qed.

Lemma lends_app : forall a L1 L2, lends a L1 -> lends a L2 -> lends a (L1 ++ L2).
Proof. intros a L1 L2 H1 H2 x Hx. apply in_app_or in Hx. destruct Hx; auto. Qed.

(* a step of the tree that leaves the link store alone *)
Lemma SInv_tree : forall s a go gi s' a', SInv s a go gi -> step_ok s s' -> Rcore s' a' ->
  pages_mono a a' -> SInv s' a' go gi.
Proof.
  intros s a go gi s' a' [HC Hg HB Ho Hi Heo Hei] Hst HC' Hm. constructor.
  - exact HC'.
  - apply (step_good _ _ Hst).
  - apply (step_Rbase _ _ Hst HB).
  - apply (step_Rdir _ _ true _ Hg Hst HB (lends_closed s a true go HC Heo) Ho).
  - apply (step_Rdir _ _ false _ Hg Hst HB (lends_closed s a false gi HC Hei) Hi).
  - apply (lends_mono _ _ _ Hm Heo).
  - apply (lends_mono _ _ _ Hm Hei).
Qed.

Lemma apage_targets : forall s a tgts, Rcore s a -> Forall (apage a) tgts ->
  Forall (fun t => wf_lru t /\ is_page s t) tgts.
Proof.
  intros s a tgts HC H. apply Forall_forall. intros t Ht. rewrite Forall_forall in H.
  apply (apage_page s a t HC (H t Ht)).
Qed.

(* LinkStore.add_links on the out-chain of l *)
Lemma SInv_store_out : forall s a go gi l tgts, SInv s a go gi -> apage a l -> Forall (apage a) tgts ->
  SInv (store_links true (lru_iter l) (map (fun o => addr_of o s) tgts) s) a
       (go ++ map (fun t => (l, t)) tgts) gi.
Proof.
  intros s a go gi l tgts [HC Hg HB Ho Hi Heo Hei] Hl Ht.
  destruct (apage_page s a l HC Hl) as (Hwl & d & Hd & _).
  destruct (store_links_step true l tgts s d go gi Hg HB Ho Hi Hwl Hd (apage_targets s a tgts HC Ht))
    as (Hg' & HB' & Ho' & Hi' & _).
  constructor; try assumption.
  - apply store_links_Rcore. exact HC.
  - apply lends_app; [exact Heo|]. intros x Hx. apply in_map_iff in Hx. destruct Hx as (t & <- & Hin).
    cbn [fst snd]. split; [exact Hl|]. rewrite Forall_forall in Ht. apply Ht. exact Hin.
Qed.

(* ... and on the in-chain of l *)
Lemma SInv_store_in : forall s a go gi l srcs, SInv s a go gi -> apage a l -> Forall (apage a) srcs ->
  SInv (store_links false (lru_iter l) (map (fun o => addr_of o s) srcs) s) a
       go (gi ++ map (fun o => (o, l)) srcs).
Proof.
  intros s a go gi l srcs [HC Hg HB Ho Hi Heo Hei] Hl Ht.
  destruct (apage_page s a l HC Hl) as (Hwl & d & Hd & _).
  destruct (store_links_step false l srcs s d gi go Hg HB Hi Ho Hwl Hd (apage_targets s a srcs HC Ht))
    as (Hg' & HB' & Hi' & Ho' & _).
  constructor; try assumption.
  - apply store_links_Rcore. exact HC.
  - apply lends_app; [exact Hei|]. intros x Hx. apply in_map_iff in Hx. destruct Hx as (t & <- & Hin).
    cbn [fst snd]. split; [|exact Hl]. rewrite Forall_forall in Ht. apply Ht. exact Hin.
Qed.

(* ====================================================================== *)
(* the local variables of one coroutine                                   *)
(* ====================================================================== *)

Definition wf_data (data : list (bytes * list bytes)) : Prop :=
  Forall (fun p => wf_lru (fst p) /\ Forall wf_lru (snd p)) data.

(* keys and values of a multimap are pages *)
Definition mm_ok (a : astate) (m : list (bytes * list bytes)) : Prop :=
  forall k vs, In (k, vs) m -> apage a k /\ Forall (apage a) vs.

Record BInv (b : bco) (a : astate) : Prop := mkBInv {
  BI_seen : forall l, In l (b_seen b) -> apage a l;
  BI_todo : wf_data (b_todo b);
  BI_cur : match b_cur b with
           | None => True
           | Some (src, r, done) => apage a src /\ Forall wf_lru r /\ Forall (apage a) done
           end;
  BI_ins : mm_ok a (b_ins b);
  BI_flush : match b_flush b with Some fl => mm_ok a fl | None => True end;
  BI_done : bwf b
}.

Lemma mm_ok_mono : forall a a' m, pages_mono a a' -> mm_ok a m -> mm_ok a' m.
Proof.
  intros a a' m Hm H k vs Hin. destruct (H k vs Hin) as (H1 & H2). split; [apply Hm; exact H1|].
  apply Forall_forall. intros v Hv. rewrite Forall_forall in H2. apply Hm. auto.
Qed.

Lemma mm_ok_add : forall a k v m, apage a k -> apage a v -> mm_ok a m -> mm_ok a (mm_add k v m).
Proof.
  intros a k v m Hk Hv. induction m as [|[k' vs'] m IH]; intros H k0 vs0 Hin; cbn [mm_add] in Hin.
  - destruct Hin as [Hin|[]]. injection Hin as <- <-. split; [exact Hk|]. constructor; [exact Hv|constructor].
  - destruct (beq k k') eqn:E.
    + destruct Hin as [Hin|Hin].
      * injection Hin as <- <-. destruct (H k' vs' (or_introl eq_refl)) as (H1 & H2).
        split; [exact H1|]. apply Forall_app. split; [exact H2|]. constructor; [exact Hv|constructor].
      * apply (H k0 vs0). right. exact Hin.
    + destruct Hin as [Hin|Hin].
      * apply (H k0 vs0). left. exact Hin.
      * apply IH; [|exact Hin]. intros k1 vs1 H1. apply (H k1 vs1). right. exact H1.
Qed.

(* pages only grow along the steps of any coroutine: the local invariant of the others is kept *)
Lemma BInv_mono : forall b a a', pages_mono a a' -> BInv b a -> BInv b a'.
Proof.
  intros b a a' Hm [H1 H2 H3 H4 H5 H6]. constructor; try assumption.
  - intros l Hl. apply Hm. auto.
  - destruct (b_cur b) as [[[src r] done]|]; [|exact I]. destruct H3 as (Ha & Hb & Hc).
    split; [apply Hm; exact Ha|]. split; [exact Hb|].
    apply Forall_forall. intros x Hx. rewrite Forall_forall in Hc. apply Hm. auto.
  - apply (mm_ok_mono _ _ _ Hm H4).
  - destruct (b_flush b) as [fl|]; [|exact I]. apply (mm_ok_mono _ _ _ Hm H5).
Qed.

Lemma BInv_start : forall data a, wf_data data -> BInv (batch_start data) a.
Proof.
  intros data a Hwf. constructor; cbn [batch_start b_seen b_todo b_cur b_ins b_flush]; auto.
  - intros l [].
  - intros k vs [].
  - intro E. discriminate.
Qed.

(* ====================================================================== *)
(* the micro-steps keep SInv and BInv                                     *)
(* ====================================================================== *)

Definition CInv (c : cfg) : Prop := SInv (cs c) (ca c) (co c) (ci c) /\ BInv (cb c) (ca c).

Lemma Forall_snoc : forall (A : Type) (P : A -> Prop) l x, Forall P l -> P x -> Forall P (l ++ [x]).
Proof. intros A P l x H1 H2. apply Forall_app. split; [exact H1|]. constructor; [exact H2|constructor]. Qed.

Lemma mstep_CInv : forall c c', CInv c -> mstep c c' ->
  CInv c' /\ pages_mono (ca c) (ca c') /\ a_links (ca c') = a_links (ca c).
Proof.
  intros c c' [HS HB] H.
  destruct H; cbn [cb cs ca co ci] in *; destruct HB as [Bs Bt Bc Bi Bf Bd];
    cbn [b_seen b_todo b_cur b_ins b_flush b_done] in *.
  - (* finalize *)
    split; [|split; [apply pages_mono_refl|reflexivity]].
    split; [exact HS|]. constructor; cbn [cb cs ca co ci b_seen b_todo b_cur b_ins b_flush b_done].
    + exact Bs.
    + constructor.
    + exact I.
    + exact Bi.
    + exact Bf.
    + intro E. reflexivity.
  - (* one entry of the in-links multimap *)
    split; [|split; [apply pages_mono_refl|reflexivity]].
    destruct (Bf t srcs (or_introl eq_refl)) as (Ht & Hsrcs).
    split; [apply SInv_store_in; assumption|].
    constructor; cbn [cb cs ca co ci b_seen b_todo b_cur b_ins b_flush b_done].
    + exact Bs.
    + constructor.
    + exact I.
    + exact Bi.
    + intros k vs Hin. apply (Bf k vs). right. exact Hin.
    + intro E. discriminate.
  - (* the first loop is over *)
    split; [|split; [apply pages_mono_refl|reflexivity]].
    split; [exact HS|]. constructor; cbn [cb cs ca co ci b_seen b_todo b_cur b_ins b_flush b_done].
    + exact Bs.
    + constructor.
    + exact I.
    + exact Bi.
    + exact Bi.
    + intro E. discriminate.
  - (* a source already seen: mark it crawled *)
    inversion Bt as [|? ? [Hsrc Htg] Bt']; subst. cbn [fst snd] in Hsrc, Htg.
    assert (Ha : apage a src) by (apply Bs; apply mem_bytes_in; exact H).
    pose proof (mark_crawled_mono src a) as Hm.
    split; [|split; [exact Hm|reflexivity]].
    destruct (apage_page s a src (SI_core _ _ _ _ HS) Ha) as (_ & d & Hd & Hp).
    split.
    + apply (SInv_tree s a go gi _ _ HS).
      * apply set_tree_upd_step; [apply neutral_set_crawled|apply (SI_good _ _ _ _ HS)].
      * apply (set_crawled_Rcore s a src d (SI_core _ _ _ _ HS) Hsrc Hd Hp).
      * exact Hm.
    + constructor; cbn [cb cs ca co ci b_seen b_todo b_cur b_ins b_flush b_done].
      * intros l Hl. apply Hm. apply Bs. exact Hl.
      * exact Bt'.
      * split; [apply Hm; exact Ha|]. split; [exact Htg|constructor].
      * apply (mm_ok_mono _ _ _ Hm Bi).
      * exact I.
      * intro E. discriminate.
  - (* a new source: submit it as a crawled page *)
    inversion Bt as [|? ? [Hsrc Htg] Bt']; subst. cbn [fst snd] in Hsrc, Htg.
    pose proof (s_add_page_mono src true a) as Hm.
    split; [|split; [exact Hm|apply s_add_page_links]].
    split.
    + apply (SInv_tree s a go gi _ _ HS).
      * apply add_page_int_step. apply (SI_good _ _ _ _ HS).
      * apply (add_page_int_Rcore src true s a Hsrc (SI_core _ _ _ _ HS)).
      * exact Hm.
    + constructor; cbn [cb cs ca co ci b_seen b_todo b_cur b_ins b_flush b_done].
      * intros l [<-|Hl]; [apply s_add_page_apage|apply Hm; apply Bs; exact Hl].
      * exact Bt'.
      * split; [apply s_add_page_apage|]. split; [exact Htg|constructor].
      * apply (mm_ok_mono _ _ _ Hm Bi).
      * exact I.
      * intro E. discriminate.
  - (* the out-links of a finished source *)
    destruct Bc as (Ha & _ & Hdone).
    split; [|split; [apply pages_mono_refl|reflexivity]].
    split; [apply SInv_store_out; assumption|].
    constructor; cbn [cb cs ca co ci b_seen b_todo b_cur b_ins b_flush b_done].
    + exact Bs.
    + exact Bt.
    + exact I.
    + exact Bi.
    + exact I.
    + intro E. discriminate.
  - (* a target already seen *)
    destruct Bc as (Ha & Hr & Hdone). inversion Hr as [|? ? Ht Hr']; subst.
    assert (Hta : apage a t) by (apply Bs; apply mem_bytes_in; exact H).
    split; [|split; [apply pages_mono_refl|reflexivity]].
    split; [exact HS|].
    constructor; cbn [cb cs ca co ci b_seen b_todo b_cur b_ins b_flush b_done].
    + exact Bs.
    + exact Bt.
    + split; [exact Ha|]. split; [exact Hr'|apply Forall_snoc; assumption].
    + apply mm_ok_add; assumption.
    + exact I.
    + intro E. discriminate.
  - (* a new target: submit it as a page; yield *)
    destruct Bc as (Ha & Hr & Hdone). inversion Hr as [|? ? Ht Hr']; subst.
    pose proof (s_add_page_mono t false a) as Hm.
    split; [|split; [exact Hm|apply s_add_page_links]].
    split.
    + apply (SInv_tree s a go gi _ _ HS).
      * apply add_page_int_step. apply (SI_good _ _ _ _ HS).
      * apply (add_page_int_Rcore t false s a Ht (SI_core _ _ _ _ HS)).
      * exact Hm.
    + constructor; cbn [cb cs ca co ci b_seen b_todo b_cur b_ins b_flush b_done].
      * intros l [<-|Hl]; [apply s_add_page_apage|apply Hm; apply Bs; exact Hl].
      * exact Bt.
      * split; [apply Hm; exact Ha|]. split; [exact Hr'|].
        apply Forall_snoc; [|apply s_add_page_apage].
        apply Forall_forall. intros x Hx. rewrite Forall_forall in Hdone. apply Hm. apply Hdone. exact Hx.
      * apply mm_ok_add; [apply s_add_page_apage|apply Hm; exact Ha|apply (mm_ok_mono _ _ _ Hm Bi)].
      * exact I.
      * intro E. discriminate.
Qed.

(* ====================================================================== *)
(* accounting: what a coroutine still owes                                *)
(* ====================================================================== *)

Definition links_of (data : list (bytes * list bytes)) : links :=
  flat_map (fun '(src, tgts) => map (fun t => (src, t)) tgts) data.
Definition events (data : list (bytes * list bytes)) : list (bytes * bool) :=
  flat_map (fun '(src, tgts) => (src, true) :: map (fun t => (t, false)) tgts) data.

Lemma links_of_cons : forall src tgts data,
  links_of ((src, tgts) :: data) = map (fun t => (src, t)) tgts ++ links_of data.
Proof. reflexivity. Qed.
Lemma events_cons : forall src tgts data,
  events ((src, tgts) :: data) = (src, true) :: map (fun t => (t, false)) tgts ++ events data.
Proof. reflexivity. Qed.

Lemma links_of_allpairs : forall data, links_of data = allpairs data.
Proof.
  induction data as [|[src tgts] data IH]; [reflexivity|].
  rewrite links_of_cons, IH. reflexivity.
Qed.

(* out-pairs, in-pairs and page events the coroutine has not written yet *)
Definition pend_out (b : bco) : links :=
  match b_flush b with
  | Some _ => []
  | None => match b_cur b with
            | Some (src, r, done) => map (fun t => (src, t)) (done ++ r)
            | None => []
            end ++ links_of (b_todo b)
  end.
Definition pend_in (b : bco) : links :=
  match b_flush b with
  | Some fl => pairs_of false fl
  | None => pairs_of false (b_ins b)
            ++ match b_cur b with
               | Some (src, r, _) => map (fun t => (src, t)) r
               | None => []
               end ++ links_of (b_todo b)
  end.
Definition pend_ev (b : bco) : list (bytes * bool) :=
  match b_flush b with
  | Some _ => []
  | None => match b_cur b with
            | Some (_, r, _) => map (fun t => (t, false)) r
            | None => []
            end ++ events (b_todo b)
  end.

Lemma pairs_of_mm_add : forall out k v m,
  Permutation (pairs_of out (mm_add k v m)) (lpair out k v :: pairs_of out m).
Proof.
  intros out k v m. induction m as [|[k' vs] m IH]; [apply Permutation_refl|].
  cbn [mm_add]. destruct (beq k k') eqn:E.
  - apply beq_eq in E. subst k'. rewrite !pairs_of_cons, map_app. cbn [map].
    rewrite <- app_assoc. cbn [app]. symmetry. apply Permutation_middle.
  - rewrite !pairs_of_cons.
    apply Permutation_trans with (map (lpair out k') vs ++ lpair out k v :: pairs_of out m).
    + apply Permutation_app_head. exact IH.
    + symmetry. apply Permutation_middle.
Qed.

(* pages: they grow, crawled marks only turn on *)
Definition pmono (a a' : astate) : Prop :=
  forall l c, In (l, c) (a_pages a) -> exists c', In (l, c') (a_pages a') /\ (c = true -> c' = true).
(* an event "submit page l with mark cr" is reflected in the state *)
Definition covered (a : astate) (e : bytes * bool) : Prop :=
  exists c, In (fst e, c) (a_pages a) /\ (snd e = true -> c = true).
Definition named (l : bytes) (E : list (bytes * bool)) : Prop := exists cr, In (l, cr) E.
(* every page of a' and every crawled mark of a' comes from a or from an event of E *)
Definition sound (a a' : astate) (E : list (bytes * bool)) : Prop :=
  forall l c, In (l, c) (a_pages a') ->
    (apage a l \/ named l E) /\ (c = true -> In (l, true) (a_pages a) \/ In (l, true) E).

Lemma pmono_refl : forall a, pmono a a.
Proof. intros a l c H. exists c. auto. Qed.
Lemma pmono_trans : forall a b c, pmono a b -> pmono b c -> pmono a c.
Proof.
  intros a b c H1 H2 l x Hx. destruct (H1 l x Hx) as (y & Hy & Hxy). destruct (H2 l y Hy) as (z & Hz & Hyz).
  exists z. auto.
Qed.
Lemma pmono_pages : forall a a', pmono a a' -> pages_mono a a'.
Proof. intros a a' H x (c & Hc). destruct (H x c Hc) as (c' & Hc' & _). exists c'. exact Hc'. Qed.
Lemma covered_mono : forall a a' e, pmono a a' -> covered a e -> covered a' e.
Proof.
  intros a a' e Hm (c & Hc & Hi). destruct (Hm _ c Hc) as (c' & Hc' & Hcc). exists c'. auto.
Qed.
Lemma sound_refl : forall a E, sound a a E.
Proof. intros a E l c H. split; [left; exists c; exact H|intros ->; left; exact H]. Qed.
Lemma sound_incl : forall a a' E E', incl E E' -> sound a a' E -> sound a a' E'.
Proof.
  intros a a' E E' Hi H l c Hin. destruct (H l c Hin) as (H1 & H2). split.
  - destruct H1 as [H1|(cr & H1)]; [left; exact H1|right; exists cr; apply Hi; exact H1].
  - intro Hc. destruct (H2 Hc) as [H3|H3]; [left; exact H3|right; apply Hi; exact H3].
Qed.
Lemma sound_trans : forall a b c E, sound a b E -> sound b c E -> sound a c E.
Proof.
  intros a b c E H1 H2 l x Hx. destruct (H2 l x Hx) as (H3 & H4). split.
  - destruct H3 as [(y & Hy)|H3]; [|right; exact H3]. apply (H1 l y Hy).
  - intro Hc. destruct (H4 Hc) as [H5|H5]; [|right; exact H5]. apply (proj2 (H1 l true H5) eq_refl).
Qed.

(* the page list after one event *)
Lemma aset_absent : forall (A : Type) k (v : A) m, aget k m = None -> aset k v m = m ++ [(k, v)].
Proof.
  intros A k v m. induction m as [|[k' v'] m IH]; intro H; [reflexivity|].
  cbn [aget] in H. cbn [aset]. destruct (beq k k'); [discriminate|]. rewrite (IH H). reflexivity.
Qed.

Lemma mark_crawled_pages : forall l a, a_pages (mark_crawled l a) = pages_after l true (a_pages a).
Proof.
  intros l a. unfold mark_crawled, pages_after. cbn [a_pages].
  destruct (aget l (a_pages a)) as [c|] eqn:E.
  - rewrite orb_true_r. reflexivity.
  - apply aset_absent. exact E.
Qed.

Lemma s_add_page_pages : forall l cr a,
  a_pages (fst (fst (s_add_page l cr a))) = pages_after l cr (a_pages a).
Proof. intros l cr a. apply RefCore3.s_add_page_fields. Qed.

Lemma aset_keeps : forall (A : Type) k (v : A) m x c,
  In (x, c) m -> In (x, c) (aset k v m) \/ (x = k /\ aget k m = Some c).
Proof.
  intros A k v m x c. induction m as [|[k' v'] m IH]; intro H; [destruct H|].
  cbn [aset aget]. destruct (beq k k') eqn:E.
  - destruct H as [H|H].
    + injection H as <- <-. right. apply beq_eq in E. auto.
    + left. right. exact H.
  - destruct H as [H|H]; [left; left; exact H|].
    destruct (IH H) as [H'|H']; [left; right; exact H'|right; exact H'].
Qed.

Lemma event_applied : forall l cr a a', a_pages a' = pages_after l cr (a_pages a) ->
  pmono a a' /\ sound a a' [(l, cr)] /\ covered a' (l, cr).
Proof.
  intros l cr a a' E. unfold pages_after in E. split; [|split].
  - intros x c Hx. rewrite E. destruct (aget l (a_pages a)) as [c0|] eqn:Eg.
    + destruct (aset_keeps _ l (c0 || cr) _ x c Hx) as [H|(-> & H)].
      * exists c. auto.
      * rewrite Eg in H. injection H as <-. exists (c0 || cr). split; [apply aset_has|].
        intros ->. reflexivity.
    + exists c. split; [apply in_or_app; left; exact Hx|auto].
  - intros x c Hx. rewrite E in Hx. destruct (aget l (a_pages a)) as [c0|] eqn:Eg.
    + apply In_aset_weak in Hx. destruct Hx as [(-> & ->)|Hx].
      * apply aget_Some_In in Eg. split; [left; exists c0; exact Eg|].
        intro Hc. destruct c0; [left; exact Eg|]. cbn [orb] in Hc. subst cr. right. left. reflexivity.
      * split; [left; exists c; exact Hx|intros ->; left; exact Hx].
    + apply in_app_or in Hx. destruct Hx as [Hx|[Hx|[]]].
      * split; [left; exists c; exact Hx|intros ->; left; exact Hx].
      * injection Hx as <- <-. split; [right; exists cr; left; reflexivity|].
        intros ->. right. left. reflexivity.
  - unfold covered. cbn [fst snd]. rewrite E. destruct (aget l (a_pages a)) as [c0|] eqn:Eg.
    + exists (c0 || cr). split; [apply aset_has|]. intros ->. apply orb_true_r.
    + exists cr. split; [apply in_or_app; right; left; reflexivity|auto].
Qed.

(* the accounting relation between two configurations of the same coroutine *)
Record Acct (c c' : cfg) : Prop := mkAcct {
  AC_pm : pmono (ca c) (ca c');
  AC_links : a_links (ca c') = a_links (ca c);
  AC_out : exists X, co c' = co c ++ X /\ Permutation (X ++ pend_out (cb c')) (pend_out (cb c));
  AC_in : exists Y, ci c' = ci c ++ Y /\ Permutation (Y ++ pend_in (cb c')) (pend_in (cb c));
  AC_sound : sound (ca c) (ca c') (pend_ev (cb c));
  AC_compl : forall e, In e (pend_ev (cb c)) -> covered (ca c') e \/ In e (pend_ev (cb c'));
  AC_incl : incl (pend_ev (cb c')) (pend_ev (cb c))
}.

Lemma Acct_refl : forall c, Acct c c.
Proof.
  intro c. constructor.
  - apply pmono_refl.
  - reflexivity.
  - exists []. rewrite app_nil_r. split; [reflexivity|apply Permutation_refl].
  - exists []. rewrite app_nil_r. split; [reflexivity|apply Permutation_refl].
  - apply sound_refl.
  - intros e He. right. exact He.
  - apply incl_refl.
Qed.

Lemma Acct_trans : forall c c1 c2, Acct c c1 -> Acct c1 c2 -> Acct c c2.
Proof.
  intros c c1 c2 [P1 L1 (X1 & EX1 & PX1) (Y1 & EY1 & PY1) S1 C1 I1] [P2 L2 (X2 & EX2 & PX2) (Y2 & EY2 & PY2) S2 C2 I2].
  constructor.
  - apply (pmono_trans _ _ _ P1 P2).
  - congruence.
  - exists (X1 ++ X2). split; [rewrite EX2, EX1, app_assoc; reflexivity|].
    rewrite <- app_assoc. apply Permutation_trans with (X1 ++ pend_out (cb c1)); [|exact PX1].
    apply Permutation_app_head. exact PX2.
  - exists (Y1 ++ Y2). split; [rewrite EY2, EY1, app_assoc; reflexivity|].
    rewrite <- app_assoc. apply Permutation_trans with (Y1 ++ pend_in (cb c1)); [|exact PY1].
    apply Permutation_app_head. exact PY2.
  - apply (sound_trans _ (ca c1)); [exact S1|]. apply (sound_incl _ _ _ _ I1 S2).
  - intros e He. destruct (C1 e He) as [H|H].
    + left. apply (covered_mono _ _ _ P2 H).
    + apply (C2 e H).
  - intros e He. apply I1. apply I2. exact He.
Qed.

Lemma perm_nil_same : forall (A : Type) (l : list A), Permutation ([] ++ l) l.
Proof. intros. apply Permutation_refl. Qed.

Lemma mstep_Acct : forall c c', BInv (cb c) (ca c) -> mstep c c' -> Acct c c'.
Proof.
  intros c c' HB H.
  destruct H; cbn [cb ca] in HB; destruct HB as [Bs Bt Bc Bi Bf Bd];
    cbn [b_seen b_todo b_cur b_ins b_flush b_done] in *.
  - (* finalize *)
    constructor; cbn [cb cs ca co ci]; unfold pend_out, pend_in, pend_ev; cbn [b_flush b_cur b_todo b_ins].
    + apply pmono_refl.
    + reflexivity.
    + exists []. rewrite app_nil_r. split; [reflexivity|apply Permutation_refl].
    + exists []. rewrite app_nil_r. split; [reflexivity|apply Permutation_refl].
    + apply sound_refl.
    + intros e [].
    + apply incl_refl.
  - (* flush one entry *)
    constructor; cbn [cb cs ca co ci]; unfold pend_out, pend_in, pend_ev; cbn [b_flush b_cur b_todo b_ins].
    + apply pmono_refl.
    + reflexivity.
    + exists []. rewrite app_nil_r. split; [reflexivity|apply Permutation_refl].
    + exists (map (fun o => (o, t)) srcs). split; [reflexivity|]. rewrite pairs_of_cons. apply Permutation_refl.
    + apply sound_refl.
    + intros e [].
    + apply incl_refl.
  - (* to the second loop *)
    constructor; cbn [cb cs ca co ci]; unfold pend_out, pend_in, pend_ev; cbn [b_flush b_cur b_todo b_ins].
    + apply pmono_refl.
    + reflexivity.
    + exists []. split; [rewrite app_nil_r; reflexivity|apply Permutation_refl].
    + exists []. split; [rewrite app_nil_r; reflexivity|].
      cbn [links_of flat_map app]. rewrite app_nil_r. apply Permutation_refl.
    + apply sound_refl.
    + intros e [].
    + apply incl_refl.
  - (* source seen *)
    destruct (event_applied src true a (mark_crawled src a) (mark_crawled_pages src a)) as (Hp & Hs & Hc).
    constructor; cbn [cb cs ca co ci]; unfold pend_out, pend_in, pend_ev; cbn [b_flush b_cur b_todo b_ins].
    + exact Hp.
    + reflexivity.
    + exists []. split; [rewrite app_nil_r; reflexivity|]. rewrite links_of_cons. apply Permutation_refl.
    + exists []. split; [rewrite app_nil_r; reflexivity|]. rewrite links_of_cons. apply Permutation_refl.
    + apply (sound_incl _ _ [(src, true)]); [|exact Hs]. intros e [<-|[]]. rewrite events_cons. left. reflexivity.
    + rewrite events_cons. cbn [app]. intros e [<-|He]; [left; exact Hc|right; exact He].
    + rewrite events_cons. cbn [app]. intros e He. right. exact He.
  - (* source new *)
    destruct (event_applied src true a _ (s_add_page_pages src true a)) as (Hp & Hs & Hc).
    constructor; cbn [cb cs ca co ci]; unfold pend_out, pend_in, pend_ev; cbn [b_flush b_cur b_todo b_ins].
    + exact Hp.
    + apply s_add_page_links.
    + exists []. split; [rewrite app_nil_r; reflexivity|]. rewrite links_of_cons. apply Permutation_refl.
    + exists []. split; [rewrite app_nil_r; reflexivity|]. rewrite links_of_cons. apply Permutation_refl.
    + apply (sound_incl _ _ [(src, true)]); [|exact Hs]. intros e [<-|[]]. rewrite events_cons. left. reflexivity.
    + rewrite events_cons. cbn [app]. intros e [<-|He]; [left; exact Hc|right; exact He].
    + rewrite events_cons. cbn [app]. intros e He. right. exact He.
  - (* source done *)
    constructor; cbn [cb cs ca co ci]; unfold pend_out, pend_in, pend_ev; cbn [b_flush b_cur b_todo b_ins].
    + apply pmono_refl.
    + reflexivity.
    + exists (map (fun t => (src, t)) done). split; [reflexivity|]. rewrite app_nil_r. apply Permutation_refl.
    + exists []. split; [rewrite app_nil_r; reflexivity|]. apply Permutation_refl.
    + apply sound_refl.
    + intros e He. right. exact He.
    + apply incl_refl.
  - (* target seen *)
    constructor; cbn [cb cs ca co ci]; unfold pend_out, pend_in, pend_ev; cbn [b_flush b_cur b_todo b_ins].
    + apply pmono_refl.
    + reflexivity.
    + exists []. split; [rewrite app_nil_r; reflexivity|]. rewrite <- app_assoc. apply Permutation_refl.
    + exists []. split; [rewrite app_nil_r; reflexivity|]. cbn [app map].
      apply Permutation_trans with ((lpair false t src :: pairs_of false ins)
                                      ++ map (fun t0 => (src, t0)) rest ++ links_of todo).
      * apply Permutation_app_tail. apply pairs_of_mm_add.
      * cbn [app lpair]. apply Permutation_middle.
    + apply sound_refl.
    + cbn [map app]. intros e [<-|He]; [|right; exact He].
      left. destruct (Bs t (mem_bytes_in _ _ H)) as (c0 & Hc0). exists c0. cbn [fst snd]. split; [exact Hc0|discriminate].
    + cbn [map app]. intros e He. right. exact He.
  - (* target new *)
    destruct (event_applied t false a _ (s_add_page_pages t false a)) as (Hp & Hs & Hc).
    constructor; cbn [cb cs ca co ci]; unfold pend_out, pend_in, pend_ev; cbn [b_flush b_cur b_todo b_ins].
    + exact Hp.
    + apply s_add_page_links.
    + exists []. split; [rewrite app_nil_r; reflexivity|]. rewrite <- app_assoc. apply Permutation_refl.
    + exists []. split; [rewrite app_nil_r; reflexivity|]. cbn [app map].
      apply Permutation_trans with ((lpair false t src :: pairs_of false ins)
                                      ++ map (fun t0 => (src, t0)) rest ++ links_of todo).
      * apply Permutation_app_tail. apply pairs_of_mm_add.
      * cbn [app lpair]. apply Permutation_middle.
    + apply (sound_incl _ _ [(t, false)]); [|exact Hs]. intros e [<-|[]]. left. reflexivity.
    + cbn [map app]. intros e [<-|He]; [left; exact Hc|right; exact He].
    + cbn [map app]. intros e He. right. exact He.
Qed.

(* ====================================================================== *)
(* one turn of a coroutine                                                *)
(* ====================================================================== *)

Lemma msteps_CInv : forall c c', msteps c c' -> CInv c -> CInv c' /\ Acct c c'.
Proof.
  apply (msteps_ind2 CInv Acct Acct_refl Acct_trans).
  intros c c' HI H. split; [apply (mstep_CInv c c' HI H)|apply (mstep_Acct c c' (proj2 HI) H)].
Qed.

(* a turn: nothing for a finished coroutine, else batch_step with the scheduler's fuel *)
Definition bstep (b : bco) (s : traph) : bco * traph :=
  if b_done b then (b, s) else batch_step (batch_fuel b) b s.

Lemma co_step_batch : forall b s, co_step (CBatch b) s = (CBatch (fst (bstep b s)), snd (bstep b s)).
Proof.
  intros b s. unfold co_step, bstep. cbn [co_done]. destruct (b_done b); [reflexivity|].
  destruct (batch_step (batch_fuel b) b s) as [b' s']. reflexivity.
Qed.

(* T2, one step: the invariants and the accounting along one turn, for any fuel *)
Theorem batch_step_inv : forall fuel b s a go gi, SInv s a go gi -> BInv b a ->
  exists a' go' gi',
    let b' := fst (batch_step fuel b s) in let s' := snd (batch_step fuel b s) in
    SInv s' a' go' gi' /\ BInv b' a' /\ Acct (mkC b s a go gi) (mkC b' s' a' go' gi').
Proof.
  intros fuel b s a go gi HS HB.
  pose proof (batch_step_giter fuel (mkC b s a go gi)) as E. cbn [cb cs] in E.
  destruct (msteps_CInv _ _ (giter_msteps fuel (mkC b s a go gi)) (conj HS HB)) as ((HS' & HB') & HA).
  set (c' := giter fuel (mkC b s a go gi)) in *.
  exists (ca c'), (co c'), (ci c'). rewrite E. cbn [fst snd].
  split; [exact HS'|]. split; [exact HB'|]. destruct c'. exact HA.
Qed.

Corollary bstep_inv : forall b s a go gi, SInv s a go gi -> BInv b a ->
  exists a' go' gi',
    let b' := fst (bstep b s) in let s' := snd (bstep b s) in
    SInv s' a' go' gi' /\ BInv b' a' /\ Acct (mkC b s a go gi) (mkC b' s' a' go' gi').
Proof.
  intros b s a go gi HS HB. unfold bstep. destruct (b_done b).
  - exists a, go, gi. cbn [fst snd]. split; [exact HS|]. split; [exact HB|apply Acct_refl].
  - apply batch_step_inv; assumption.
Qed.
