(* RuleRun.v — the rule-installation coroutine of Sched.v (rule_step: the code of add_webentity_creation_rule_iter between two
   yields, with the lazy reads of dfs_iter) run to its end without anybody else taking a turn.  Definitions only; RuleRunFacts.v
   proves that this is the sequential request Traph.add_rule (whose page list is computed beforehand). *)
From Coq Require Import List NArith Bool.
Import ListNotations.
From Traph Require Import Bytes Rules Tst Traph Sched.
Open Scope N_scope.

Fixpoint rule_run (fuel : nat) (r : rco) (s : traph) : rco * traph :=
  match fuel with
  | O => (r, s)
  | S f => if r_done r then (r, s) else let '(r', s') := rule_step r s in rule_run f r' s'
  end.
