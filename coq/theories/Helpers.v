(* Helpers.v — model of traph/helpers.py (definitions only).
   Constants (chunk size, alphabet) come from the regenerated Consts.v. *)
From Coq Require Import List NArith Bool.
From Traph Require Import Bytes Consts.
Open Scope N_scope.

(* ---- lru_iter / lru_dirname --------------------------------------------------
   def lru_iter(lru): yields lru[last:i+1] at every '|' ; an unterminated remainder is dropped *)
Fixpoint lru_iter_from (cur l : bytes) : list bytes :=
  match l with
  | [] => []
  | x :: l' =>
      if x =? sep then (cur ++ [sep]) :: lru_iter_from [] l'
      else lru_iter_from (cur ++ [x]) l'
  end.
Definition lru_iter (l : bytes) : list bytes := lru_iter_from [] l.

Definition lru_dirname (l : bytes) : bytes := concat (removelast (lru_iter l)).

(* ---- chunks (detailed_chunks_iter, chunk_size = LRU_TRIE_STEM_SIZE) --------------
   fuel = length of the string: every round consumes at least one byte *)
Fixpoint chunks_fuel (fuel : nat) (n : nat) (l : bytes) : list bytes :=
  match fuel with
  | O => []
  | S f =>
      match l with
      | [] => []
      | _ => firstn n l :: chunks_fuel f n (skipn n l)
      end
  end.
Definition chunks (n : nat) (l : bytes) : list bytes := chunks_fuel (length l) n l.

Definition stem_size_nat : nat := N.to_nat stem_size.
(* a stem is stored as a head (first stem_size bytes) and tail chunks *)
Definition stem_head (s : bytes) : bytes := firstn stem_size_nat s.
Definition stem_tail_chunks (s : bytes) : list bytes := chunks stem_size_nat (skipn stem_size_nat s).
(* blocks used by one stem: 1 + number of tail chunks *)
Definition nblk (s : bytes) : N := 1 + N.of_nat (length (stem_tail_chunks s)).

(* ---- positional digits --------------------------------------------------------- *)
Fixpoint digits_fuel (b : N) (fuel : nat) (x : N) (acc : list N) : list N :=
  match fuel with
  | O => acc
  | S f => if x =? 0 then acc else digits_fuel b f (x / b) (x mod b :: acc)
  end.
(* most significant first; [] for 0 *)
Definition to_digits (b x : N) : list N := digits_fuel b (N.size_nat x) x [].
Definition of_digits (b : N) (ds : list N) : N := fold_left (fun acc d => acc * b + d) ds 0.

Definition base4_append (p n : N) : N := p * 4 + n.
(* int_to_base4 as a digit list; Python returns "0" for 0 *)
Definition int_to_base4 (x : N) : list N := if x =? 0 then [0] else to_digits 4 x.

Definition b64_char (d : N) : N := nth (N.to_nat d) base64_alphabet 0.
Fixpoint index_of (c : N) (l : list N) (i : N) : option N :=
  match l with
  | [] => None
  | x :: l' => if x =? c then Some i else index_of c l' (i + 1)
  end.
Definition b64_index (c : N) : option N := index_of c base64_alphabet 0.

Definition int_to_base64 (x : N) : bytes :=
  if x =? 0 then [b64_char 0] else map b64_char (to_digits 64 x).

(* base64_to_int: KeyError on a foreign character -> None *)
Fixpoint base64_to_int_acc (s : bytes) (acc : N) : option N :=
  match s with
  | [] => Some acc
  | c :: s' => match b64_index c with
               | Some v => base64_to_int_acc s' (acc * 64 + v)
               | None => None
               end
  end.
Definition base64_to_int (s : bytes) : option N := base64_to_int_acc s 0.

Definition dec_char (d : N) : N := 48 + d.
Definition int_to_dec (x : N) : bytes := if x =? 0 then [48] else map dec_char (to_digits 10 x).
Fixpoint dec_to_int_acc (s : bytes) (acc : N) : option N :=
  match s with
  | [] => Some acc
  | c :: s' => if is_digit c then dec_to_int_acc s' (acc * 10 + (c - 48)) else None
  end.
Definition dec_to_int (s : bytes) : option N :=
  match s with [] => None | _ => dec_to_int_acc s 0 end.

Definition hash_char : N := 35.   (* '#' *)

(* build_pagination_token(i, path) = "%i#%s" % (i, int_to_base64(path)) *)
Definition build_token (i path : N) : bytes := int_to_dec i ++ hash_char :: int_to_base64 path.
(* parse_pagination_token: token.split("#") must give exactly two pieces *)
Definition parse_token (tok : bytes) : option (N * N) :=
  match split_on hash_char tok with
  | [a; b] => match dec_to_int a, base64_to_int b with
              | Some i, Some p => Some (i, p)
              | _, _ => None
              end
  | _ => None
  end.

(* ---- prefix variations --------------------------------------------------------- *)
Definition s_http : bytes := [115; 58; 104; 116; 116; 112; 124].          (* s:http|  *)
Definition s_https : bytes := [115; 58; 104; 116; 116; 112; 115; 124].    (* s:https| *)
Definition h_tag : bytes := [104; 58].                                    (* h:       *)
Definition h_www : bytes := [104; 58; 119; 119; 119].                     (* h:www    *)

Definition https_variation (l : bytes) : option bytes :=
  if starts_with s_http l then Some (replace_first s_http s_https l)
  else if starts_with s_https l then Some (replace_first s_https s_http l)
  else None.

Definition lru_variations (l : bytes) : list bytes :=
  match l with
  | [] => [l]
  | _ =>
    let hv := https_variation l in
    let base := l :: match hv with Some v => [v] | None => [] end in
    let hosts := filter (starts_with h_tag) (split_on sep l) in
    let hosts_str := join sep hosts ++ [sep] in
    if Nat.leb (length hosts) 1 then base
    else
      let hosts' := if beq (last hosts []) h_www then removelast hosts else hosts ++ [h_www] in
      if Nat.eqb (length hosts') 1 then base
      else
        let www := join sep hosts' ++ [sep] in
        base ++ replace_first hosts_str www l
             :: match hv with Some v => [replace_first hosts_str www v] | None => [] end
  end.
