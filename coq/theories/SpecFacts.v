(* SpecFacts.v — what the specification (Spec.v) itself says about a page insertion,
   spelled out as readable lemmas: the page set (C01) and the webentity a page
   insertion creates (C06).  Nothing here mentions the index. *)
From Coq Require Import List NArith Bool Lia.
From Traph Require Import Bytes Consts Helpers Rules Tst TstDefs Traph Spec.
Import ListNotations.
Open Scope N_scope.

Lemma sf_lex_refl : forall x : bytes, lex x x = Eq.
Proof. induction x as [|b x IH]; [reflexivity|]. cbn [lex]. rewrite N.compare_refl. exact IH. Qed.

Lemma sf_lex_eq : forall x y : bytes, lex x y = Eq -> x = y.
Proof.
  induction x as [|b x IH]; intros [|c y] H; cbn [lex] in H; try discriminate; [reflexivity|].
  destruct (N.compare_spec b c) as [E|E|E]; try discriminate. subst c. f_equal. apply IH. exact H.
Qed.

Lemma sf_beq_true : forall x y, beq x y = true <-> x = y.
Proof.
  intros x y. unfold beq. split.
  - destruct (lex x y) eqn:E; try discriminate. intros _. apply sf_lex_eq. exact E.
  - intros ->. rewrite sf_lex_refl. reflexivity.
Qed.

Section Assoc.
  Context {A : Type}.
  Implicit Types m : list (bytes * A).

  Lemma sf_aget_aset_same : forall m k v, aget k (aset k v m) = Some v.
  Proof.
    induction m as [|[k' v'] m IH]; intros k v; cbn [aset aget].
    - rewrite (proj2 (sf_beq_true k k) eq_refl). reflexivity.
    - destruct (beq k k') eqn:E; cbn [aget]; rewrite E; [reflexivity|apply IH].
  Qed.

  Lemma sf_aset_keys : forall m k v, amem k m = true -> map fst (aset k v m) = map fst m.
  Proof.
    unfold amem. induction m as [|[k' v'] m IH]; intros k v H; cbn [aset aget] in *; [discriminate|].
    destruct (beq k k') eqn:E; cbn [map fst]; [reflexivity|]. f_equal. apply IH. exact H.
  Qed.

  Lemma sf_aset_other : forall m k v x c, x <> k -> (In (x, c) (aset k v m) <-> In (x, c) m).
  Proof.
    induction m as [|[k' v'] m IH]; intros k v x c Hne; cbn [aset].
    - cbn [In]. split; [intros [H|[]]; inversion H; congruence|intros []].
    - destruct (beq k k') eqn:E; cbn [In].
      + apply sf_beq_true in E. subst k'.
        split; (intros [H|H]; [inversion H; congruence|right; exact H]).
      + rewrite (IH k v x c Hne). reflexivity.
  Qed.

  Lemma sf_aget_app_new : forall m k v, aget k m = None -> aget k (m ++ [(k, v)]) = Some v.
  Proof.
    induction m as [|[k' v'] m IH]; intros k v H; cbn [app aget] in *.
    - rewrite (proj2 (sf_beq_true k k) eq_refl). reflexivity.
    - destruct (beq k k'); [discriminate|]. apply IH. exact H.
  Qed.

  Lemma sf_aget_none_notin : forall m k v, aget k m = None -> ~ In (k, v) m.
  Proof.
    induction m as [|[k' v'] m IH]; intros k v H Hin; cbn [aget] in H; [exact Hin|].
    destruct (beq k k') eqn:E; [discriminate|]. destruct Hin as [Hin|Hin].
    - inversion Hin; subst. rewrite (proj2 (sf_beq_true k k) eq_refl) in E. discriminate.
    - apply (IH k v H Hin).
  Qed.
End Assoc.

(* the state after recording the submission of l, before any webentity creation *)
Definition with_page (l : bytes) (cr : bool) (a : astate) : astate :=
  mkA (match aget l (a_pages a) with
       | Some c => aset l (c || cr) (a_pages a)
       | None => a_pages a ++ [(l, cr)]
       end)
      (know l (a_known a)) (a_pref a) (a_links a) (a_last a) (a_flags a) (a_rules a) (a_dflt a).

(* the prefixes a creation from candidate x attaches: the variations of x that carry nothing *)
Definition free_variations (x : bytes) (a : astate) : list bytes :=
  dedup_bytes (filter (fun v => negb (amem v (a_pref a))) (lru_variations x)) [].

Lemma s_add_page_unfold : forall l cr a,
  s_add_page l cr a =
  let n := if negb (amem l (a_pages a)) then 1 else 0 in
  match adecide (with_page l cr a) l with
  | LCand x => let '(a2, c) := acreate x (with_page l cr a) in (a2, n, c)
  | _ => (with_page l cr a, n, [])
  end.
Proof. reflexivity. Qed.

Lemma acreate_pages : forall x a, a_pages (fst (acreate x a)) = a_pages a.
Proof.
  intros x a. unfold acreate.
  destruct (dedup_bytes _ []); reflexivity.
Qed.

Lemma acreate_created : forall x a,
  snd (acreate x a) =
  match free_variations x a with [] => [] | v => [(a_last a + 1, v)] end.
Proof.
  intros x a. unfold acreate, free_variations. cbn [upd_known a_pref a_last].
  destruct (dedup_bytes _ []); reflexivity.
Qed.

Lemma s_add_page_pages : forall l cr a,
  a_pages (fst (fst (s_add_page l cr a))) = a_pages (with_page l cr a).
Proof.
  intros l cr a. rewrite s_add_page_unfold. cbv zeta.
  destruct (adecide (with_page l cr a) l) as [|x|]; try reflexivity.
  pose proof (acreate_pages x (with_page l cr a)) as H.
  destruct (acreate x (with_page l cr a)) as [a2 c]. exact H.
Qed.

Lemma s_add_page_count : forall l cr a,
  snd (fst (s_add_page l cr a)) = if amem l (a_pages a) then 0 else 1.
Proof.
  intros l cr a. rewrite s_add_page_unfold. cbv zeta.
  destruct (adecide (with_page l cr a) l) as [|x|];
    try (cbn [fst snd]; destruct (amem l (a_pages a)); reflexivity).
  destruct (acreate x (with_page l cr a)) as [a2 c]. cbn [fst snd].
  destruct (amem l (a_pages a)); reflexivity.
Qed.

(* C01: the page set of the specification under one submission *)
Theorem C01_spec_pages : forall l cr a,
  let a' := fst (fst (s_add_page l cr a)) in
  let n := snd (fst (s_add_page l cr a)) in
  (* one new page is reported iff l was not a page *)
  (n = if amem l (a_pages a) then 0 else 1) /\
  (* a new page is appended, with the submitted mark *)
  (aget l (a_pages a) = None -> a_pages a' = a_pages a ++ [(l, cr)]) /\
  (* a known page stays where it is; its mark can only be turned on *)
  (forall c, aget l (a_pages a) = Some c ->
     a_pages a' = aset l (c || cr) (a_pages a) /\
     map fst (a_pages a') = map fst (a_pages a) /\ length (a_pages a') = length (a_pages a)) /\
  (* every other entry is kept, and none appears *)
  (forall x c, x <> l -> (In (x, c) (a_pages a') <-> In (x, c) (a_pages a))) /\
  (* the crawled mark of l is (old || cr) *)
  aget l (a_pages a') =
    Some (match aget l (a_pages a) with Some c => c || cr | None => cr end).
Proof.
  intros l cr a. cbv zeta. rewrite s_add_page_pages, s_add_page_count.
  unfold with_page. cbn [a_pages].
  split; [reflexivity|]. split; [intros ->; reflexivity|]. split; [|split].
  - intros c Hc. rewrite Hc. split; [reflexivity|].
    assert (Hm : amem l (a_pages a) = true) by (unfold amem; rewrite Hc; reflexivity).
    pose proof (sf_aset_keys (a_pages a) l (c || cr) Hm) as Hk.
    split; [exact Hk|]. rewrite <- (map_length fst), Hk. apply map_length.
  - intros x c Hne. destruct (aget l (a_pages a)) as [c0|] eqn:E.
    + apply sf_aset_other. exact Hne.
    + rewrite in_app_iff. cbn [In]. split; [intros [H|[H|[]]]; [exact H|inversion H; congruence]|auto].
  - destruct (aget l (a_pages a)) as [c0|] eqn:E.
    + apply sf_aget_aset_same.
    + apply sf_aget_app_new. exact E.
Qed.

(* re-submitting a known page changes the page list only at l, and only upwards *)
Corollary C01_spec_resubmit : forall l cr a c, aget l (a_pages a) = Some c ->
  snd (fst (s_add_page l cr a)) = 0 /\
  a_pages (fst (fst (s_add_page l cr a))) = aset l (c || cr) (a_pages a) /\
  (cr = false -> aget l (a_pages (fst (fst (s_add_page l cr a)))) = Some c).
Proof.
  intros l cr a c Hc. destruct (C01_spec_pages l cr a) as (H1 & _ & H3 & _ & H5).
  split; [|split].
  - rewrite H1. unfold amem. rewrite Hc. reflexivity.
  - apply (H3 c Hc).
  - intros ->. rewrite H5, Hc, orb_false_r. reflexivity.
Qed.

(* C06: what a page insertion creates, read off the specification *)
Theorem C06_spec_created : forall l cr a,
  snd (s_add_page l cr a) =
  match adecide (with_page l cr a) l with
  | LCand x => match free_variations x (with_page l cr a) with
               | [] => []
               | v => [(a_last a + 1, v)]
               end
  | _ => []
  end.
Proof.
  intros l cr a. rewrite s_add_page_unfold. cbv zeta.
  destruct (adecide (with_page l cr a) l) as [|x|]; try reflexivity.
  pose proof (acreate_created x (with_page l cr a)) as H.
  destruct (acreate x (with_page l cr a)) as [a2 c]. cbn [snd] in *. exact H.
Qed.

Corollary C06_spec_created_inv : forall l cr a, snd (s_add_page l cr a) <> [] ->
  exists x, adecide (with_page l cr a) l = LCand x /\
            free_variations x (with_page l cr a) <> [] /\
            snd (s_add_page l cr a) = [(a_last a + 1, free_variations x (with_page l cr a))].
Proof.
  intros l cr a H. rewrite C06_spec_created in *.
  destruct (adecide (with_page l cr a) l) as [|x|]; try congruence.
  exists x. split; [reflexivity|].
  destruct (free_variations x (with_page l cr a)) as [|v vs]; [congruence|].
  split; [discriminate|reflexivity].
Qed.

Print Assumptions C01_spec_pages.
Print Assumptions C06_spec_created.
