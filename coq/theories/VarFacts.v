(* VarFacts.v — prefix variations (helpers.lru_variations) form closed classes
   on a family of well-formed LRUs (scheme stem, optional port stem, host stems,
   then stems that are not host stems). *)
From Coq Require Import List NArith Bool Lia Arith.
Import ListNotations.
From Traph Require Import Bytes Consts Helpers.
Open Scope N_scope.

Definition colon : N := 58.
Definition no_sep (b : bytes) : Prop := ~ In sep b.
Definition no_colon (b : bytes) : Prop := ~ In colon b.
Definition www_body : bytes := [119;119;119].
Definition scheme_stem (b : bytes) : bytes := [115;58] ++ b ++ [sep].      (* s:<b>| *)
Definition port_stem (b : bytes) : bytes := [116;58] ++ b ++ [sep].        (* t:<b>| *)
Definition host_stem (b : bytes) : bytes := h_tag ++ b ++ [sep].           (* h:<b>| *)
Definition port_part (port : option bytes) : bytes :=
  match port with Some b => port_stem b | None => [] end.
Definition build (sch : bytes) (port : option bytes) (hosts : list bytes) (rest : list bytes) : bytes :=
  scheme_stem sch ++ (match port with Some b => port_stem b | None => [] end)
    ++ concat (map host_stem hosts) ++ concat rest.

Record fam (sch : bytes) (port : option bytes) (hosts rest : list bytes) : Prop := {
  fam_sch : no_sep sch /\ no_colon sch;
  fam_port : match port with Some b => no_sep b /\ no_colon b | None => True end;
  fam_hosts : Forall no_sep hosts;
  fam_no2www : forall pre, hosts <> pre ++ [www_body; www_body];
  fam_rest : Forall (fun st => (exists body, st = body ++ [sep] /\ no_sep body)
                               /\ starts_with h_tag st = false) rest
}.

(* ---- the candidates: scheme swap and www swap ---------------------------------- *)
Definition b_http : bytes := [104;116;116;112].
Definition b_https : bytes := [104;116;116;112;115].

Definition bytes_eq_dec : forall a b : bytes, {a = b} + {a <> b} := list_eq_dec N.eq_dec.

Definition swap_sch (sch : bytes) : option bytes :=
  if bytes_eq_dec sch b_http then Some b_https
  else if bytes_eq_dec sch b_https then Some b_http
  else None.

Definition wv (hosts : list bytes) : option (list bytes) :=
  if Nat.leb (length hosts) 1 then None
  else if bytes_eq_dec (last hosts []) www_body then
         (if Nat.eqb (length hosts) 2 then None else Some (removelast hosts))
       else Some (hosts ++ [www_body]).

Definition olist {A} (o : option A) : list A := match o with Some a => [a] | None => [] end.

Definition cands (sch : bytes) (hosts : list bytes) : list (bytes * list bytes) :=
  let ss := sch :: olist (swap_sch sch) in
  map (fun s => (s, hosts)) ss
  ++ match wv hosts with
     | Some h' => map (fun s => (s, h')) ss
     | None => []
     end.

Definition bld (port : option bytes) (rest : list bytes) (p : bytes * list bytes) : bytes :=
  build (fst p) port (snd p) rest.

(* sanity tests of the characterisation  lru_variations (build ..) = map bld (cands ..) *)
Definition chk sch port hosts rest :=
  if list_eq_dec bytes_eq_dec (lru_variations (build sch port hosts rest))
       (map (bld port rest) (cands sch hosts)) then true else false.
Eval vm_compute in
  (chk b_http None [[1];[2]] [[3;124]],
   chk b_https (Some [56;48]) [[1];www_body] [[3;124]],
   chk b_https (Some [56;48]) [[1];[7];www_body] [[3;124];[115;58;104;116;116;112;124]],
   chk [5] (Some [56;48]) [[1];[7];www_body] [],
   chk [5] None [[1]] [[104;124]],
   chk [] None [] [[104;124]],
   chk b_http None [[]; [104]; []] [[104;124]],
   length (lru_variations (build b_http None [[1];[2]] [[3;124]]))).

(* ---- basic byte-string facts ---------------------------------------------------- *)
Lemma lex_eq_iff : forall a b, lex a b = Eq <-> a = b.
Proof.
  induction a as [|x a IHa]; destruct b as [|y b]; cbn [lex]; split; intro H;
    try reflexivity; try discriminate.
  - destruct (N.compare_spec x y) as [E|E|E]; try discriminate.
    subst y. apply IHa in H. subst b. reflexivity.
  - injection H as H1 H2. subst y b. rewrite N.compare_refl. apply IHa. reflexivity.
Qed.

Lemma beq_dec : forall a b, beq a b = if bytes_eq_dec a b then true else false.
Proof.
  intros a b. unfold beq. destruct (bytes_eq_dec a b) as [E|E].
  - apply lex_eq_iff in E. rewrite E. reflexivity.
  - destruct (lex a b) eqn:L; try reflexivity. apply lex_eq_iff in L. contradiction.
Qed.

Lemma starts_with_app : forall p a b, starts_with p a = true -> starts_with p (a ++ b) = true.
Proof.
  induction p as [|x p IHp]; intros a b H; [reflexivity|].
  destruct a as [|y a]; cbn [starts_with app] in *; [discriminate|].
  apply andb_true_iff in H. destruct H as [H1 H2].
  rewrite H1, (IHp _ _ H2). reflexivity.
Qed.

Lemma starts_with_self_app : forall p t, starts_with p (p ++ t) = true.
Proof.
  induction p as [|x p IHp]; intros t; cbn [starts_with app]; [reflexivity|].
  rewrite N.eqb_refl, IHp. reflexivity.
Qed.

Lemma skipn_length_app : forall (p t : bytes), skipn (length p) (p ++ t) = t.
Proof. induction p as [|x p IHp]; intros t; cbn [skipn length app]; auto. Qed.

(* ---- replace_first ---------------------------------------------------------------- *)
Lemma rf_here : forall old new t, old <> [] -> replace_first old new (old ++ t) = new ++ t.
Proof.
  intros old new t Hne. destruct old as [|o old]; [congruence|].
  change ((o :: old) ++ t) with (o :: (old ++ t)).
  cbn [replace_first].
  change (o :: old ++ t) with ((o :: old) ++ t).
  rewrite starts_with_self_app, skipn_length_app. reflexivity.
Qed.

(* the general positional statement *)
Lemma replace_first_at : forall old new a b,
  old <> [] ->
  (forall a1 x a2, a = a1 ++ x :: a2 -> starts_with old (x :: a2 ++ old ++ b) = false) ->
  replace_first old new (a ++ old ++ b) = a ++ new ++ b.
Proof.
  intros old new a b Hne. induction a as [|x a IHa]; intros H.
  - change ([] ++ old ++ b) with (old ++ b). change ([] ++ new ++ b) with (new ++ b).
    apply rf_here. exact Hne.
  - cbn [app replace_first]. rewrite (H [] x a eq_refl). f_equal.
    apply IHa. intros a1 y a2 E. apply (H (x :: a1) y a2). rewrite E. reflexivity.
Qed.

Lemma rf_cons_ne : forall o old new x l, x <> o ->
  replace_first (o :: old) new (x :: l) = x :: replace_first (o :: old) new l.
Proof.
  intros o old new x l Hne. cbn [replace_first starts_with].
  destruct (N.eqb_spec o x) as [E|E]; [congruence|]. reflexivity.
Qed.

Lemma rf_nocolon : forall old new b c t, no_colon b -> c <> 58 -> c <> 104 ->
  replace_first (104 :: 58 :: old) new (b ++ c :: t)
  = b ++ c :: replace_first (104 :: 58 :: old) new t.
Proof.
  intros old new b c t. induction b as [|x b IHb]; intros Hb Hc1 Hc2.
  - cbn [app]. apply rf_cons_ne. exact Hc2.
  - assert (Hb' : no_colon b) by (intro HI; apply Hb; right; exact HI).
    cbn [app replace_first]. rewrite (IHb Hb' Hc1 Hc2).
    assert (F : starts_with (104 :: 58 :: old) (x :: b ++ c :: t) = false).
    { cbn [starts_with]. destruct (104 =? x); [|reflexivity]. cbn [andb].
      destruct b as [|y b]; cbn [app starts_with].
      - destruct (N.eqb_spec 58 c) as [E|E]; [congruence|]. reflexivity.
      - destruct (N.eqb_spec 58 y) as [E|E]; [|reflexivity].
        exfalso. apply Hb. right. left. symmetry. exact E. }
    rewrite F. reflexivity.
Qed.

(* ---- normal forms of the stems -------------------------------------------------- *)
Lemma host_stem_app : forall b X, host_stem b ++ X = 104 :: 58 :: b ++ sep :: X.
Proof. intros b X. unfold host_stem, h_tag. cbn [app]. rewrite <- app_assoc. reflexivity. Qed.

Lemma port_stem_app : forall b X, port_stem b ++ X = 116 :: 58 :: b ++ sep :: X.
Proof. intros b X. unfold port_stem. cbn [app]. rewrite <- app_assoc. reflexivity. Qed.

Lemma build_eq : forall sch port hosts rest,
  build sch port hosts rest
  = 115 :: 58 :: sch ++ sep :: port_part port ++ concat (map host_stem hosts) ++ concat rest.
Proof.
  intros sch port hosts rest. unfold build, scheme_stem. cbn [app].
  rewrite <- app_assoc. reflexivity.
Qed.

Lemma build_parts : forall sch port hosts rest,
  build sch port hosts rest
  = scheme_stem sch ++ port_part port ++ concat (map host_stem hosts) ++ concat rest.
Proof. reflexivity. Qed.

Lemma hosts_block_cons : forall h hs,
  concat (map host_stem (h :: hs)) = 104 :: 58 :: h ++ sep :: concat (map host_stem hs).
Proof. intros h hs. cbn [map concat]. apply host_stem_app. Qed.

(* ---- split / filter ---------------------------------------------------------------- *)
Lemma split_on_stem : forall b r, no_sep b -> split_on sep (b ++ sep :: r) = b :: split_on sep r.
Proof.
  induction b as [|x b IHb]; intros r Hb.
  - cbn [app split_on]. rewrite N.eqb_refl. reflexivity.
  - cbn [app split_on].
    destruct (N.eqb_spec x sep) as [E|E].
    + exfalso. apply Hb. left. exact E.
    + rewrite IHb; [reflexivity|]. intro HI. apply Hb. right. exact HI.
Qed.

Definition hosts_of (l : bytes) : list bytes := filter (starts_with h_tag) (split_on sep l).

Lemma hosts_of_stem : forall b r, no_sep b ->
  hosts_of (b ++ sep :: r) = if starts_with h_tag b then b :: hosts_of r else hosts_of r.
Proof. intros b r Hb. unfold hosts_of. rewrite (split_on_stem b r Hb). reflexivity. Qed.

Lemma no_sep_cons : forall x b, x <> sep -> no_sep b -> no_sep (x :: b).
Proof. intros x b Hx Hb [E|HI]; [congruence|contradiction]. Qed.

Lemma sep_neq : forall x, x = 115 \/ x = 116 \/ x = 58 \/ x = 104 \/ x = 119 -> x <> sep.
Proof. intros x H E. unfold sep in E. subst x. repeat (destruct H as [H|H]; try discriminate). Qed.

Lemma hosts_of_rest : forall rest,
  Forall (fun st => (exists body, st = body ++ [sep] /\ no_sep body)
                    /\ starts_with h_tag st = false) rest ->
  hosts_of (concat rest) = [].
Proof.
  intros rest H. induction H as [|st rest [[body [E Hb]] Hs] _ IH].
  - reflexivity.
  - cbn [concat]. subst st. rewrite <- app_assoc. cbn [app].
    rewrite (hosts_of_stem _ _ Hb).
    destruct (starts_with h_tag body) eqn:S.
    + rewrite (starts_with_app _ _ [sep] S) in Hs. discriminate.
    + exact IH.
Qed.

Lemma hosts_of_hosts : forall hosts R, Forall no_sep hosts ->
  hosts_of (concat (map host_stem hosts) ++ R) = map (app h_tag) hosts ++ hosts_of R.
Proof.
  intros hosts R H. induction H as [|h hs Hh _ IH].
  - reflexivity.
  - cbn [map concat]. rewrite <- app_assoc, host_stem_app.
    change (104 :: 58 :: h ++ sep :: concat (map host_stem hs) ++ R)
      with ((h_tag ++ h) ++ sep :: concat (map host_stem hs) ++ R).
    rewrite hosts_of_stem.
    + rewrite (starts_with_self_app h_tag h), IH. reflexivity.
    + unfold h_tag. cbn [app]. apply no_sep_cons; [apply sep_neq; tauto|].
      apply no_sep_cons; [apply sep_neq; tauto|]. exact Hh.
Qed.

Lemma hosts_of_build : forall sch port hosts rest, fam sch port hosts rest ->
  hosts_of (build sch port hosts rest) = map (app h_tag) hosts.
Proof.
  intros sch port hosts rest F. destruct F as [[Hs _] Hp Hh _ Hr].
  rewrite build_eq.
  change (115 :: 58 :: sch ++ sep :: port_part port ++ concat (map host_stem hosts) ++ concat rest)
    with ((115 :: 58 :: sch) ++ sep :: port_part port ++ concat (map host_stem hosts) ++ concat rest).
  rewrite hosts_of_stem.
  2:{ apply no_sep_cons; [apply sep_neq; tauto|]. apply no_sep_cons; [apply sep_neq; tauto|]. exact Hs. }
  change (starts_with h_tag (115 :: 58 :: sch)) with false. cbv iota.
  assert (T : hosts_of (concat (map host_stem hosts) ++ concat rest) = map (app h_tag) hosts).
  { rewrite (hosts_of_hosts _ _ Hh), (hosts_of_rest _ Hr), app_nil_r. reflexivity. }
  destruct port as [pb|]; cbn [port_part].
  - rewrite port_stem_app.
    change (116 :: 58 :: pb ++ sep :: concat (map host_stem hosts) ++ concat rest)
      with ((116 :: 58 :: pb) ++ sep :: concat (map host_stem hosts) ++ concat rest).
    rewrite hosts_of_stem.
    2:{ apply no_sep_cons; [apply sep_neq; tauto|]. apply no_sep_cons; [apply sep_neq; tauto|].
        apply Hp. }
    change (starts_with h_tag (116 :: 58 :: pb)) with false. cbv iota. exact T.
  - cbn [app]. exact T.
Qed.

(* ---- join ---------------------------------------------------------------------------- *)
Lemma join_hosts : forall hosts, hosts <> [] ->
  join sep (map (app h_tag) hosts) ++ [sep] = concat (map host_stem hosts).
Proof.
  induction hosts as [|h hs IH]; intros Hne; [congruence|].
  destruct hs as [|h2 hs].
  - cbn [map join concat]. rewrite app_nil_r. unfold host_stem. rewrite <- app_assoc. reflexivity.
  - change (map (app h_tag) (h :: h2 :: hs)) with ((h_tag ++ h) :: map (app h_tag) (h2 :: hs)).
    change (join sep ((h_tag ++ h) :: map (app h_tag) (h2 :: hs)))
      with ((h_tag ++ h) ++ sep :: join sep (map (app h_tag) (h2 :: hs))).
    rewrite hosts_block_cons. rewrite <- IH by discriminate.
    unfold h_tag. cbn [app]. rewrite <- app_assoc. reflexivity.
Qed.

(* ---- https variation ----------------------------------------------------------------- *)
Lemma sw_nosep : forall a b t, no_sep a -> no_sep b ->
  starts_with (a ++ [sep]) (b ++ sep :: t) = true -> a = b.
Proof.
  induction a as [|x a IHa]; intros b t Ha Hb H; destruct b as [|y b]; cbn [app starts_with] in H.
  - reflexivity.
  - apply andb_true_iff in H. destruct H as [H _]. apply N.eqb_eq in H.
    exfalso. apply Hb. left. symmetry. exact H.
  - apply andb_true_iff in H. destruct H as [H _]. apply N.eqb_eq in H.
    exfalso. apply Ha. left. exact H.
  - apply andb_true_iff in H. destruct H as [H1 H2]. apply N.eqb_eq in H1. subst y.
    f_equal. apply (IHa b t); [| |exact H2].
    + intro HI. apply Ha. right. exact HI.
    + intro HI. apply Hb. right. exact HI.
Qed.

Lemma no_sep_http : no_sep b_http.
Proof. unfold no_sep, b_http, sep. cbn [In]. intuition discriminate. Qed.
Lemma no_sep_https : no_sep b_https.
Proof. unfold no_sep, b_https, sep. cbn [In]. intuition discriminate. Qed.
Lemma no_colon_http : no_colon b_http.
Proof. unfold no_colon, b_http, colon. cbn [In]. intuition discriminate. Qed.
Lemma no_colon_https : no_colon b_https.
Proof. unfold no_colon, b_https, colon. cbn [In]. intuition discriminate. Qed.
Lemma no_sep_www : no_sep www_body.
Proof. unfold no_sep, www_body, sep. cbn [In]. intuition discriminate. Qed.

Lemma https_build : forall sch port hosts rest, no_sep sch ->
  https_variation (build sch port hosts rest)
  = option_map (fun s => build s port hosts rest) (swap_sch sch).
Proof.
  intros sch port hosts rest Hs. unfold swap_sch.
  destruct (bytes_eq_dec sch b_http) as [E1|E1]; [subst sch; reflexivity|].
  destruct (bytes_eq_dec sch b_https) as [E2|E2]; [subst sch; reflexivity|].
  cbn [option_map]. unfold https_variation. rewrite build_eq.
  set (T := port_part port ++ concat (map host_stem hosts) ++ concat rest).
  assert (F1 : starts_with s_http (115 :: 58 :: sch ++ sep :: T) = false).
  { change (starts_with s_http (115 :: 58 :: sch ++ sep :: T))
      with (starts_with (b_http ++ [sep]) (sch ++ sep :: T)).
    destruct (starts_with (b_http ++ [sep]) (sch ++ sep :: T)) eqn:S; [|reflexivity].
    exfalso. apply E1. symmetry. exact (sw_nosep b_http sch T no_sep_http Hs S). }
  assert (F2 : starts_with s_https (115 :: 58 :: sch ++ sep :: T) = false).
  { change (starts_with s_https (115 :: 58 :: sch ++ sep :: T))
      with (starts_with (b_https ++ [sep]) (sch ++ sep :: T)).
    destruct (starts_with (b_https ++ [sep]) (sch ++ sep :: T)) eqn:S; [|reflexivity].
    exfalso. apply E2. symmetry. exact (sw_nosep b_https sch T no_sep_https Hs S). }
  rewrite F1, F2. reflexivity.
Qed.

(* ---- replacing the hosts block ------------------------------------------------------- *)
Lemma rf_build_gen : forall old' new sch port T,
  no_colon sch ->
  match port with Some b => no_colon b | None => True end ->
  replace_first (104 :: 58 :: old') new
    (115 :: 58 :: sch ++ sep :: port_part port ++ (104 :: 58 :: old') ++ T)
  = 115 :: 58 :: sch ++ sep :: port_part port ++ new ++ T.
Proof.
  intros old' new sch port T Hs Hp.
  assert (N1 : sep <> 58) by discriminate. assert (N2 : sep <> 104) by discriminate.
  rewrite rf_cons_ne by discriminate. rewrite rf_cons_ne by discriminate.
  rewrite (rf_nocolon _ _ _ _ _ Hs N1 N2).
  do 4 f_equal.
  destruct port as [pb|]; cbn [port_part].
  - rewrite !port_stem_app.
    rewrite rf_cons_ne by discriminate. rewrite rf_cons_ne by discriminate.
    rewrite (rf_nocolon _ _ _ _ _ Hp N1 N2).
    do 4 f_equal. apply rf_here. discriminate.
  - cbn [app]. change (104 :: 58 :: old' ++ T) with ((104 :: 58 :: old') ++ T).
    apply rf_here. discriminate.
Qed.

Lemma replace_hosts : forall sch port hosts rest W,
  no_colon sch ->
  match port with Some b => no_colon b | None => True end ->
  hosts <> [] ->
  replace_first (concat (map host_stem hosts)) W (build sch port hosts rest)
  = scheme_stem sch ++ port_part port ++ W ++ concat rest.
Proof.
  intros sch port hosts rest W Hs Hp Hne.
  destruct hosts as [|h hs]; [congruence|].
  rewrite build_eq, hosts_block_cons.
  rewrite (rf_build_gen _ W sch port (concat rest) Hs Hp).
  unfold scheme_stem. cbn [app]. rewrite <- app_assoc. reflexivity.
Qed.

(* ---- lru_variations on the family ---------------------------------------------------- *)
Definition var_gen (l : bytes) (hv : option bytes) (hosts : list bytes) : list bytes :=
  let base := l :: match hv with Some v => [v] | None => [] end in
  let hosts_str := join sep hosts ++ [sep] in
  if Nat.leb (length hosts) 1 then base
  else
    let hosts' := if beq (last hosts []) h_www then removelast hosts else hosts ++ [h_www] in
    if Nat.eqb (length hosts') 1 then base
    else
      let www := join sep hosts' ++ [sep] in
      base ++ replace_first hosts_str www l
           :: match hv with Some v => [replace_first hosts_str www v] | None => [] end.

Lemma lru_variations_unfold : forall l, l <> [] ->
  lru_variations l = var_gen l (https_variation l) (hosts_of l).
Proof. intros l H. destruct l; [congruence|reflexivity]. Qed.

Lemma build_nonempty : forall sch port hosts rest, build sch port hosts rest <> [].
Proof. intros. rewrite build_eq. discriminate. Qed.

Lemma swap_sch_spec : forall a b, swap_sch a = Some b ->
  (a = b_http /\ b = b_https) \/ (a = b_https /\ b = b_http).
Proof.
  intros a b H. unfold swap_sch in H.
  destruct (bytes_eq_dec a b_http) as [E1|E1].
  - left. split; congruence.
  - destruct (bytes_eq_dec a b_https) as [E2|E2]; [|discriminate]. right. split; congruence.
Qed.

Lemma swap_sch_ok : forall a b, swap_sch a = Some b -> no_sep b /\ no_colon b.
Proof.
  intros a b H. destruct (swap_sch_spec a b H) as [[_ E]|[_ E]]; subst b.
  - split; [apply no_sep_https|apply no_colon_https].
  - split; [apply no_sep_http|apply no_colon_http].
Qed.

Lemma last_map_ne : forall (A B : Type) (f : A -> B) (l : list A) (d : A) (e : B),
  l <> [] -> last (map f l) e = f (last l d).
Proof.
  intros A B f l d e. induction l as [|x l IH]; intros H; [congruence|].
  destruct l as [|y l]; [reflexivity|].
  change (last (map f (x :: y :: l)) e) with (last (map f (y :: l)) e).
  change (last (x :: y :: l) d) with (last (y :: l) d).
  apply IH. discriminate.
Qed.

Lemma removelast_map : forall (A B : Type) (f : A -> B) (l : list A),
  removelast (map f l) = map f (removelast l).
Proof.
  intros A B f l. induction l as [|x l IH]; [reflexivity|].
  destruct l as [|y l]; [reflexivity|].
  change (removelast (map f (x :: y :: l))) with (f x :: removelast (map f (y :: l))).
  change (removelast (x :: y :: l)) with (x :: removelast (y :: l)).
  rewrite IH. reflexivity.
Qed.

Lemma length_removelast_S : forall (A : Type) (l : list A), l <> [] ->
  length l = S (length (removelast l)).
Proof.
  intros A l H. destruct l as [|d l']; [congruence|].
  rewrite (app_removelast_last d H) at 1. rewrite app_length. cbn [length]. lia.
Qed.

Lemma beq_hwww : forall x, beq (h_tag ++ x) h_www = if bytes_eq_dec x www_body then true else false.
Proof.
  intros x. rewrite beq_dec.
  destruct (bytes_eq_dec (h_tag ++ x) h_www) as [E|E]; destruct (bytes_eq_dec x www_body) as [E'|E'];
    try reflexivity.
  - exfalso. apply E'. change h_www with (h_tag ++ www_body) in E. apply app_inv_head in E. exact E.
  - exfalso. apply E. subst x. reflexivity.
Qed.

Lemma map_snoc_www : forall hosts : list (list N),
  map (app h_tag) hosts ++ [h_www : list N] = map (app h_tag) (hosts ++ [www_body : list N]).
Proof. intros hosts. rewrite map_app. reflexivity. Qed.

Lemma var_char : forall sch port hosts rest, fam sch port hosts rest ->
  lru_variations (build sch port hosts rest) = map (bld port rest) (cands sch hosts).
Proof.
  intros sch port hosts rest F.
  rewrite (lru_variations_unfold _ (build_nonempty sch port hosts rest)).
  rewrite (hosts_of_build _ _ _ _ F).
  destruct F as [[Hs Hsc] Hp Hh _ _].
  rewrite (https_build _ _ _ _ Hs).
  assert (Hpc : match port with Some b => no_colon b | None => True end)
    by (destruct port; [apply Hp|exact I]).
  unfold var_gen, cands, wv. rewrite map_length. unfold bytes in *.
  destruct (Nat.leb (length hosts) 1) eqn:L1.
  { destruct (swap_sch sch); reflexivity. }
  apply Nat.leb_gt in L1.
  assert (Hne : hosts <> []) by (intro E; subst hosts; cbn [length] in L1; lia).
  rewrite (last_map_ne _ _ (app h_tag) hosts [] [] Hne), beq_hwww.
  rewrite (join_hosts hosts Hne).
  destruct (bytes_eq_dec (last hosts []) www_body) as [EL|EL].
  - cbv iota. rewrite removelast_map, map_length.
    pose proof (length_removelast_S _ hosts Hne) as LR.
    destruct (Nat.eqb_spec (length hosts) 2) as [E2|E2].
    + replace (Nat.eqb (length (removelast hosts)) 1) with true
        by (symmetry; apply Nat.eqb_eq; lia).
      destruct (swap_sch sch); reflexivity.
    + replace (Nat.eqb (length (removelast hosts)) 1) with false
        by (symmetry; apply Nat.eqb_neq; lia).
      assert (Hne' : removelast hosts <> [])
        by (intro E; rewrite E in LR; cbn [length] in LR; lia).
      rewrite (join_hosts _ Hne').
      rewrite (replace_hosts sch port hosts rest _ Hsc Hpc Hne).
      destruct (swap_sch sch) as [s'|] eqn:SW; cbn [option_map olist].
      * destruct (swap_sch_ok _ _ SW) as [_ Hc'].
        rewrite (replace_hosts s' port hosts rest _ Hc' Hpc Hne). reflexivity.
      * reflexivity.
  - cbv iota. rewrite !map_snoc_www.
    rewrite map_length, app_length. cbn [length].
    rewrite (proj2 (Nat.eqb_neq _ _)) by lia.
    assert (Hne' : hosts ++ [www_body] <> []) by (intro E; apply app_eq_nil in E; destruct E; discriminate).
    rewrite join_hosts by exact Hne'.
    rewrite (replace_hosts sch port hosts rest _ Hsc Hpc Hne).
    destruct (swap_sch sch) as [s'|] eqn:SW; cbn [option_map olist].
    + destruct (swap_sch_ok _ _ SW) as [_ Hc'].
      rewrite (replace_hosts s' port hosts rest _ Hc' Hpc Hne). reflexivity.
    + reflexivity.
Qed.

(* ---- the two symmetric relations ------------------------------------------------------ *)
Definition Rs (a b : bytes) : Prop := b = a \/ swap_sch a = Some b.
Definition Rh (a b : list bytes) : Prop := b = a \/ wv a = Some b.
Definition no2www (hosts : list bytes) : Prop := forall pre, hosts <> pre ++ [www_body; www_body].

Lemma In_cands : forall sch hosts s h,
  In (s, h) (cands sch hosts) <-> Rs sch s /\ Rh hosts h.
Proof.
  intros sch hosts s h. unfold cands, Rs, Rh. rewrite in_app_iff.
  destruct (wv hosts) as [h'|]; destruct (swap_sch sch) as [s'|]; cbn [olist map In];
    intuition congruence.
Qed.

Lemma swap_sch_inv : forall a b, swap_sch a = Some b -> swap_sch b = Some a.
Proof.
  intros a b H. destruct (swap_sch_spec a b H) as [[E1 E2]|[E1 E2]]; subst a b; reflexivity.
Qed.

Lemma swap_sch_neq : forall a b, swap_sch a = Some b -> a <> b.
Proof.
  intros a b H. destruct (swap_sch_spec a b H) as [[E1 E2]|[E1 E2]]; subst a b; discriminate.
Qed.

Lemma Rs_sym : forall a b, Rs a b -> Rs b a.
Proof.
  intros a b [E|H]; [left; congruence|]. right. apply swap_sch_inv. exact H.
Qed.

Lemma Rs_trans : forall a b c, Rs a b -> Rs b c -> Rs a c.
Proof.
  intros a b c [E1|H1] H2.
  - subst b. exact H2.
  - destruct H2 as [E2|H2].
    + subst c. right. exact H1.
    + left. apply swap_sch_inv in H1. congruence.
Qed.

Lemma wv_shape : forall a b, wv a = Some b ->
  (b = a ++ [www_body] /\ last a [] <> www_body /\ (2 <= length a)%nat)
  \/ (a = b ++ [www_body] /\ (2 <= length b)%nat).
Proof.
  intros a b H. unfold wv in H.
  destruct (Nat.leb (length a) 1) eqn:L1; [discriminate|]. apply Nat.leb_gt in L1.
  destruct (bytes_eq_dec (last a []) www_body) as [EL|EL].
  - destruct (Nat.eqb_spec (length a) 2) as [E2|E2]; [discriminate|].
    injection H as H. right.
    assert (Hne : a <> []) by (intro E; subst a; cbn [length] in L1; lia).
    pose proof (length_removelast_S _ a Hne) as LR.
    pose proof (@app_removelast_last bytes a [] Hne) as AR.
    rewrite EL, H in AR. rewrite H in LR. split; [exact AR|lia].
  - injection H as H. left. split; [congruence|]. split; [exact EL|lia].
Qed.

Lemma wv_snoc : forall a, (2 <= length a)%nat -> wv (a ++ [www_body]) = Some a.
Proof.
  intros a L. unfold wv. rewrite last_last, app_length, removelast_last. cbn [length].
  destruct (Nat.leb_spec (length a + 1) 1) as [L1|L1]; [lia|].
  destruct (bytes_eq_dec www_body www_body) as [_|E]; [|congruence].
  destruct (Nat.eqb_spec (length a + 1) 2) as [E2|E2]; [lia|]. reflexivity.
Qed.

Lemma wv_inv : forall a b, no2www a -> wv a = Some b -> wv b = Some a.
Proof.
  intros a b NW H. destruct (wv_shape a b H) as [[E [EL L]]|[E L]].
  - subst b. apply wv_snoc. exact L.
  - unfold wv.
    destruct (Nat.leb_spec (length b) 1) as [L1|L1]; [lia|].
    destruct (bytes_eq_dec (last b []) www_body) as [EL|EL].
    + exfalso.
      assert (Hne : b <> []) by (intro E'; subst b; cbn [length] in L; lia).
      pose proof (@app_removelast_last bytes b [] Hne) as AR. rewrite EL in AR.
      apply (NW (removelast b)). rewrite E. rewrite AR at 1. rewrite <- app_assoc. reflexivity.
    + congruence.
Qed.

Lemma wv_neq : forall a b, wv a = Some b -> a <> b.
Proof.
  intros a b H E. destruct (wv_shape a b H) as [[E1 _]|[E1 _]]; subst b;
    apply (f_equal (@length bytes)) in E1; rewrite app_length in E1; cbn [length] in E1; lia.
Qed.

Lemma wv_pres : forall a b, no2www a -> Forall no_sep a -> wv a = Some b ->
  no2www b /\ Forall no_sep b.
Proof.
  intros a b NW FA H. destruct (wv_shape a b H) as [[E [EL L]]|[E L]].
  - subst b. split.
    + intros pre E.
      change (pre ++ [www_body; www_body]) with (pre ++ [www_body] ++ [www_body]) in E.
      rewrite app_assoc in E. apply app_inj_tail in E. destruct E as [E _].
      apply EL. rewrite E. apply last_last.
    + apply Forall_app. split; [exact FA|]. constructor; [apply no_sep_www|constructor].
  - subst a. split.
    + intros pre E. apply (NW (pre ++ [www_body])). rewrite E, <- !app_assoc. reflexivity.
    + apply Forall_app in FA. apply FA.
Qed.

Lemma Rh_sym : forall a b, no2www a -> Rh a b -> Rh b a.
Proof.
  intros a b NW [E|H]; [left; congruence|]. right. apply wv_inv; assumption.
Qed.

Lemma Rh_trans : forall a b c, no2www a -> Rh a b -> Rh b c -> Rh a c.
Proof.
  intros a b c NW [E1|H1] H2.
  - subst b. exact H2.
  - destruct H2 as [E2|H2].
    + subst c. right. exact H1.
    + left. apply (wv_inv a b NW) in H1. congruence.
Qed.

Lemma fam_pres : forall sch port hosts rest s h,
  fam sch port hosts rest -> Rs sch s -> Rh hosts h -> fam s port h rest.
Proof.
  intros sch port hosts rest s h [Hs Hp Hh NW Hr] RS RH.
  assert (Hs' : no_sep s /\ no_colon s).
  { destruct RS as [E|SW]; [subst s; exact Hs|]. apply (swap_sch_ok _ _ SW). }
  assert (Hh' : no2www h /\ Forall no_sep h).
  { destruct RH as [E|W]; [subst h; split; assumption|]. apply (wv_pres hosts h NW Hh W). }
  constructor; try assumption; apply Hh'.
Qed.

(* ---- injectivity of build on the family ---------------------------------------------- *)
Lemma app_sep_inj : forall x y A B, no_sep x -> no_sep y ->
  x ++ sep :: A = y ++ sep :: B -> x = y /\ A = B.
Proof.
  induction x as [|c x IHx]; intros y A B Hx Hy E; destruct y as [|d y]; cbn [app] in E.
  - injection E as E. split; [reflexivity|exact E].
  - injection E as E1 E2. exfalso. apply Hy. left. symmetry. exact E1.
  - injection E as E1 E2. exfalso. apply Hx. left. exact E1.
  - injection E as E1 E2. subst d.
    destruct (IHx y A B) as [E3 E4]; [| |exact E2|].
    + intro HI. apply Hx. right. exact HI.
    + intro HI. apply Hy. right. exact HI.
    + subst y. split; [reflexivity|exact E4].
Qed.

Lemma stems_inj : forall a b, Forall no_sep a -> Forall no_sep b ->
  concat (map host_stem a) = concat (map host_stem b) -> a = b.
Proof.
  induction a as [|x a IHa]; intros b Ha Hb E; destruct b as [|y b].
  - reflexivity.
  - rewrite hosts_block_cons in E. discriminate.
  - rewrite hosts_block_cons in E. discriminate.
  - rewrite !hosts_block_cons in E. injection E as E.
    inversion Ha as [|? ? Hx Ha']; subst. inversion Hb as [|? ? Hy Hb']; subst.
    destruct (app_sep_inj _ _ _ _ Hx Hy E) as [E1 E2]. subst y.
    f_equal. apply IHa; assumption.
Qed.

Lemma build_inj : forall s s' port h h' rest,
  no_sep s -> no_sep s' -> Forall no_sep h -> Forall no_sep h' ->
  build s port h rest = build s' port h' rest -> s = s' /\ h = h'.
Proof.
  intros s s' port h h' rest Hs Hs' Hh Hh' E. rewrite !build_eq in E. injection E as E.
  destruct (app_sep_inj _ _ _ _ Hs Hs' E) as [E1 E2]. split; [exact E1|].
  apply app_inv_head in E2. apply app_inv_tail in E2. apply stems_inj; assumption.
Qed.

Lemma NoDup_map_inj_on : forall (A B : Type) (f : A -> B) (l : list A),
  (forall x y, In x l -> In y l -> f x = f y -> x = y) -> NoDup l -> NoDup (map f l).
Proof.
  intros A B f l Hinj ND. induction ND as [|x l Hx ND IH].
  - constructor.
  - cbn [map]. constructor.
    + intro HI. apply in_map_iff in HI. destruct HI as [y [E HI]].
      apply Hx. rewrite <- (Hinj y x); [exact HI|right; exact HI|left; reflexivity|exact E].
    + apply IH. intros a b Ha Hb. apply Hinj; right; assumption.
Qed.

Lemma NoDup_cands : forall sch hosts, NoDup (cands sch hosts).
Proof.
  intros sch hosts. unfold cands.
  destruct (swap_sch sch) as [s'|] eqn:SW; destruct (wv hosts) as [h'|] eqn:W;
    cbn [olist map app]; repeat constructor; cbn [In];
    try (pose proof (swap_sch_neq _ _ SW) as N1);
    try (pose proof (wv_neq _ _ W) as N2);
    intuition congruence.
Qed.

(* ---- the main theorems ---------------------------------------------------------------- *)
Section Main.
Variables (sch : bytes) (port : option bytes) (hosts rest : list bytes).
Hypothesis F : fam sch port hosts rest.
Let l := build sch port hosts rest.

Lemma In_var : forall v, In v (lru_variations l) <->
  exists s h, v = build s port h rest /\ Rs sch s /\ Rh hosts h.
Proof.
  intros v. unfold l. rewrite (var_char _ _ _ _ F), in_map_iff. split.
  - intros [[s h] [E HI]]. exists s, h. apply In_cands in HI. split; [symmetry; exact E|exact HI].
  - intros [s [h [E HR]]]. exists (s, h). split; [symmetry; exact E|]. apply In_cands. exact HR.
Qed.

Theorem C17_head : hd [] (lru_variations l) = l.
Proof. unfold l. rewrite (var_char _ _ _ _ F). reflexivity. Qed.

Theorem C17_nodup : NoDup (lru_variations l).
Proof.
  unfold l. rewrite (var_char _ _ _ _ F). apply NoDup_map_inj_on; [|apply NoDup_cands].
  intros [s h] [s' h'] HI HI' E. apply In_cands in HI. apply In_cands in HI'.
  destruct HI as [RS RH]. destruct HI' as [RS' RH'].
  pose proof (fam_pres _ _ _ _ _ _ F RS RH) as F1.
  pose proof (fam_pres _ _ _ _ _ _ F RS' RH') as F2.
  unfold bld in E. cbn [fst snd] in E.
  destruct (build_inj s s' port h h' rest) as [E1 E2];
    [apply F1|apply F2|apply F1|apply F2|exact E|]. subst. reflexivity.
Qed.

Theorem C17_shape : forall v, In v (lru_variations l) ->
  exists sch' hosts', v = build sch' port hosts' rest
    /\ (sch' = sch \/ (sch = [104;116;116;112] /\ sch' = [104;116;116;112;115])
                   \/ (sch = [104;116;116;112;115] /\ sch' = [104;116;116;112]))
    /\ (hosts' = hosts \/ hosts' = hosts ++ [www_body] \/ hosts = hosts' ++ [www_body])
    /\ fam sch' port hosts' rest.
Proof.
  intros v HI. apply In_var in HI. destruct HI as [s [h [E [RS RH]]]].
  exists s, h. split; [exact E|]. split; [|split].
  - destruct RS as [E1|SW]; [left; exact E1|right]. apply swap_sch_spec. exact SW.
  - destruct RH as [E1|W]; [left; exact E1|right].
    destruct (wv_shape _ _ W) as [[E1 _]|[E1 _]]; [left|right]; exact E1.
  - apply (fam_pres _ _ _ _ _ _ F RS RH).
Qed.

Theorem C17_closed : forall x, In x (lru_variations l) ->
  forall y, In y (lru_variations x) <-> In y (lru_variations l).
Proof.
  intros x HI y. apply In_var in HI. destruct HI as [s [h [E [RS RH]]]]. subst x.
  pose proof (fam_pres _ _ _ _ _ _ F RS RH) as F'.
  pose proof (fam_no2www _ _ _ _ F) as NW. pose proof (fam_no2www _ _ _ _ F') as NW'.
  rewrite (var_char _ _ _ _ F'), in_map_iff. rewrite In_var. split.
  - intros [[s2 h2] [E HI]]. apply In_cands in HI. destruct HI as [RS2 RH2].
    exists s2, h2. split; [symmetry; exact E|]. split.
    + apply (Rs_trans _ _ _ RS RS2).
    + apply (Rh_trans _ _ _ NW RH RH2).
  - intros [s2 [h2 [E [RS2 RH2]]]]. exists (s2, h2). split; [symmetry; exact E|].
    apply In_cands. split.
    + apply (Rs_trans _ _ _ (Rs_sym _ _ RS) RS2).
    + apply (Rh_trans _ _ _ NW' (Rh_sym _ _ NW RH) RH2).
Qed.
End Main.

(* ---- non-vacuity ----------------------------------------------------------------------- *)
(* s:http|h:com|h:example|p:s:http|p:h:|  — the path stems contain "s:http" and "h:" *)
Definition ex_hosts : list bytes := [[99;111;109]; [101;120;97;109;112;108;101]].
Definition ex_rest : list bytes :=
  [[112;58;115;58;104;116;116;112;124]; [112;58;104;58;124]].
Definition ex_l : bytes := build b_http None ex_hosts ex_rest.

Lemma ex_fam : fam b_http None ex_hosts ex_rest.
Proof.
  constructor.
  - split; [apply no_sep_http|apply no_colon_http].
  - exact I.
  - unfold ex_hosts. repeat constructor; unfold no_sep, sep; cbn [In]; intuition discriminate.
  - intros pre E. unfold ex_hosts in E.
    destruct pre as [|p1 [|p2 [|p3 pre]]]; cbn [app] in E; discriminate.
  - unfold ex_rest. repeat constructor.
    + exists [112;58;115;58;104;116;116;112]. split; [reflexivity|].
      unfold no_sep, sep; cbn [In]; intuition discriminate.
    + exists [112;58;104;58]. split; [reflexivity|].
      unfold no_sep, sep; cbn [In]; intuition discriminate.
Qed.

Example ex_variations :
  lru_variations ex_l =
    [ build b_http  None ex_hosts ex_rest;
      build b_https None ex_hosts ex_rest;
      build b_http  None (ex_hosts ++ [www_body]) ex_rest;
      build b_https None (ex_hosts ++ [www_body]) ex_rest ]
  /\ length (lru_variations ex_l) = 4%nat
  /\ NoDup (lru_variations ex_l).
Proof.
  split; [vm_compute; reflexivity|]. split; [vm_compute; reflexivity|].
  apply (C17_nodup _ _ _ _ ex_fam).
Qed.

Print Assumptions C17_head.
Print Assumptions C17_nodup.
Print Assumptions C17_shape.
Print Assumptions C17_closed.
Print Assumptions ex_variations.
Print Assumptions replace_first_at.
