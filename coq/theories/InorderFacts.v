(* InorderFacts.v — facts about the paginated in-order traversal
   (webentity_inorder_iter): order, paths, resuming from a token, stability. *)
From Coq Require Import List NArith Bool Lia Arith Sorted.
Import ListNotations.
From Traph Require Import Bytes Consts Helpers Tst TstDefs.
Open Scope N_scope.

(* ------------------------------------------------------------------------- *)
(* lex                                                                        *)
(* ------------------------------------------------------------------------- *)

Lemma lex_refl : forall a, lex a a = Eq.
Proof.
  induction a as [|x a IH]; simpl; [reflexivity|].
  rewrite N.compare_refl. exact IH.
Qed.

Lemma lex_antisym : forall a b, lex b a = CompOpp (lex a b).
Proof.
  induction a as [|x a IH]; destruct b as [|y b]; simpl; try reflexivity.
  rewrite (N.compare_antisym x y).
  destruct (x ?= y); simpl; auto.
Qed.

Lemma lex_Gt_Lt : forall a b, lex a b = Gt -> lex b a = Lt.
Proof. intros a b H. rewrite lex_antisym, H. reflexivity. Qed.

Lemma lex_Lt_Gt : forall a b, lex a b = Lt -> lex b a = Gt.
Proof. intros a b H. rewrite lex_antisym, H. reflexivity. Qed.

Lemma lex_Lt_neq : forall a b, lex a b = Lt -> a <> b.
Proof. intros a b H E. subst b. rewrite lex_refl in H. discriminate. Qed.

Lemma lex_Gt_neq : forall a b, lex a b = Gt -> a <> b.
Proof. intros a b H E. subst b. rewrite lex_refl in H. discriminate. Qed.

Lemma lex_trans : forall a b c, lex a b = Lt -> lex b c = Lt -> lex a c = Lt.
Proof.
  induction a as [|x a IH]; intros [|y b] [|z c]; simpl; intros H1 H2;
    try discriminate; try reflexivity.
  destruct (N.compare_spec x y) as [E1|E1|E1]; try discriminate;
  destruct (N.compare_spec y z) as [E2|E2|E2]; try discriminate; subst.
  - rewrite N.compare_refl. eapply IH; eauto.
  - rewrite (proj2 (N.compare_lt_iff y z) E2). reflexivity.
  - rewrite (proj2 (N.compare_lt_iff x z) E1). reflexivity.
  - rewrite (proj2 (N.compare_lt_iff x z)); [reflexivity|]. eapply N.lt_trans; eauto.
Qed.

Lemma lex_app_same : forall p x y, lex (p ++ x) (p ++ y) = lex x y.
Proof.
  induction p as [|c p IH]; intros x y; simpl; [reflexivity|].
  rewrite N.compare_refl. apply IH.
Qed.

Lemma lex_app_nil : forall p x, lex (p ++ x) p = lex x [].
Proof.
  intros p x. rewrite <- (app_nil_r p) at 2. apply lex_app_same.
Qed.

Lemma lex_nil_app : forall p x, lex p (p ++ x) = lex [] x.
Proof.
  intros p x. rewrite <- (app_nil_r p) at 1. apply lex_app_same.
Qed.

Lemma bgt_false_of_Lt : forall a b, lex a b = Lt -> bgt a b = false.
Proof. intros a b H. unfold bgt. rewrite H. reflexivity. Qed.

Lemma bgt_refl : forall a, bgt a a = false.
Proof. intros a. unfold bgt. rewrite lex_refl. reflexivity. Qed.

(* ------------------------------------------------------------------------- *)
(* Part 1 - order                                                             *)
(* ------------------------------------------------------------------------- *)

Lemma wf_stem_nonempty : forall s, wf_stem s -> s <> [].
Proof.
  intros s [body [E _]] Hs. subst s. destruct body; discriminate.
Qed.

Lemma lru_order_body : forall ba bb x y,
  ~ In sep ba -> ~ In sep bb -> ba <> bb ->
  lex ((ba ++ [sep]) ++ x) ((bb ++ [sep]) ++ y) = lex (ba ++ [sep]) (bb ++ [sep]).
Proof.
  induction ba as [|c ba IH]; intros bb x y Ha Hb Hne.
  - destruct bb as [|c' bb]; [contradiction Hne; reflexivity|].
    cbn [lex app]. destruct (N.compare_spec sep c') as [E|E|E]; try reflexivity.
    exfalso. apply Hb. left. symmetry. exact E.
  - destruct bb as [|c' bb].
    + cbn [lex app]. destruct (N.compare_spec c sep) as [E|E|E]; try reflexivity.
      exfalso. apply Ha. left. exact E.
    + cbn [lex app]. destruct (N.compare_spec c c') as [E|E|E]; try reflexivity.
      subst c'. apply IH.
      * intro Hin. apply Ha. right. exact Hin.
      * intro Hin. apply Hb. right. exact Hin.
      * intro Hbb. apply Hne. subst bb. reflexivity.
Qed.

Theorem lru_order_is_stem_order : forall a b x y,
  wf_stem a -> wf_stem b -> a <> b -> lex (a ++ x) (b ++ y) = lex a b.
Proof.
  intros a b x y [ba [Ea Ha]] [bb [Eb Hb]] Hne. subst a b.
  apply lru_order_body; auto.
  intro E. apply Hne. subst bb. reflexivity.
Qed.

(* the LRU [y] lies below prefix [pre] through one of the stems of [S] *)
Definition under (pre : bytes) (S : list bytes) (y : bytes) : Prop :=
  exists s rest, In s S /\ y = pre ++ s ++ rest.

Lemma sib_stems_wf : forall t s, stems_wf t -> In s (sib_stems t) -> wf_stem s.
Proof.
  induction t as [|d l IHl c IHc r IHr]; intros s Hwf Hin; simpl in *.
  - contradiction.
  - destruct Hwf as [Hd [Hl [Hc Hr]]].
    apply in_app_or in Hin. destruct Hin as [Hin|[Hin|Hin]].
    + apply IHl; assumption.
    + subst s. exact Hd.
    + apply IHr; assumption.
Qed.

Lemma ino_under : forall t path pre yl yd yp,
  In (yl, yd, yp) (ino path pre t) -> under pre (sib_stems t) yl.
Proof.
  induction t as [|d l IHl c IHc r IHr]; intros path pre yl yd yp Hin; simpl in Hin.
  - contradiction.
  - apply in_app_or in Hin. destruct Hin as [Hin|Hin].
    + destruct (IHl _ _ _ _ _ Hin) as [s [rest [Hs E]]].
      exists s, rest. split; [|exact E]. simpl. apply in_or_app. left. exact Hs.
    + apply in_app_or in Hin. destruct Hin as [Hin|Hin].
      * destruct (we d =? 0); [|contradiction].
        destruct Hin as [Hin|Hin].
        -- injection Hin as E1 E2 E3. subst yl yd yp. exists (stem d), []. split.
           ++ simpl. apply in_or_app. right. left. reflexivity.
           ++ simpl. rewrite app_nil_r. reflexivity.
        -- destruct (IHc _ _ _ _ _ Hin) as [s [rest [Hs E]]].
           exists (stem d), (s ++ rest). split.
           ++ simpl. apply in_or_app. right. left. reflexivity.
           ++ rewrite E. rewrite <- app_assoc. reflexivity.
      * destruct (IHr _ _ _ _ _ Hin) as [s [rest [Hs E]]].
        exists s, rest. split; [|exact E]. simpl. apply in_or_app. right. right. exact Hs.
Qed.

Lemma under_lt : forall pre a b u v,
  wf_stem a -> wf_stem b -> lex a b = Lt ->
  lex (pre ++ a ++ u) (pre ++ b ++ v) = Lt.
Proof.
  intros pre a b u v Ha Hb H. rewrite lex_app_same.
  rewrite lru_order_is_stem_order; auto. apply lex_Lt_neq. exact H.
Qed.

Lemma lex_prefix_lt : forall p s rest, wf_stem s -> lex p (p ++ s ++ rest) = Lt.
Proof.
  intros p s rest Hs. rewrite lex_nil_app.
  destruct s as [|c s]; [exfalso; exact (wf_stem_nonempty _ Hs eq_refl)|]. reflexivity.
Qed.

Definition item := (bytes * nd * N)%type.
Definition ilt (x y : item) : Prop := lex (fst (fst x)) (fst (fst y)) = Lt.

Lemma SSorted_app : forall (A : Type) (R : A -> A -> Prop) l1 l2,
  StronglySorted R l1 -> StronglySorted R l2 ->
  (forall a b, In a l1 -> In b l2 -> R a b) ->
  StronglySorted R (l1 ++ l2).
Proof.
  intros A R l1 l2 H1 H2 H12. induction H1 as [|a l1 Hs IH Hf]; simpl.
  - exact H2.
  - constructor.
    + apply IH. intros x y Hx Hy. apply H12; [right; exact Hx|exact Hy].
    + apply Forall_forall. intros y Hy. apply in_app_or in Hy. destruct Hy as [Hy|Hy].
      * rewrite Forall_forall in Hf. apply Hf. exact Hy.
      * apply H12; [left; reflexivity|exact Hy].
Qed.

Lemma child_sorted : forall d c path pre,
  wf_stem (stem d) -> stems_wf c ->
  StronglySorted ilt (ino path (pre ++ stem d) c) ->
  forall p0, StronglySorted ilt ((pre ++ stem d, d, p0) :: ino path (pre ++ stem d) c).
Proof.
  intros d c path pre Hd Hc Hs p0. constructor; [exact Hs|].
  apply Forall_forall. intros [[yl yd] yp] Hy. unfold ilt. cbn [fst snd].
  destruct (ino_under _ _ _ _ _ _ Hy) as [s [rest [Hin E]]]. rewrite E.
  apply lex_prefix_lt. eapply sib_stems_wf; eauto.
Qed.

Theorem ino_sorted : forall t pre path, wf_tst t ->
  StronglySorted (fun x y => lex (fst (fst x)) (fst (fst y)) = Lt) (ino path pre t).
Proof.
  change (forall t pre path, wf_tst t -> StronglySorted ilt (ino path pre t)).
  induction t as [|d l IHl c IHc r IHr]; intros pre path [Hb Hw]; simpl.
  - constructor.
  - simpl in Hb, Hw.
    destruct Hb as [Hlt [Hgt [Hbl [Hbc Hbr]]]]. destruct Hw as [Hd [Hwl [Hwc Hwr]]].
    assert (Hmid : StronglySorted ilt
              (if we d =? 0 then (pre ++ stem d, d, path) :: ino (base4_append path 2) (pre ++ stem d) c else [])).
    { destruct (we d =? 0); [|constructor].
      apply child_sorted; auto. apply IHc. split; assumption. }
    assert (Hmid_under : forall yl yd yp,
              In (yl, yd, yp) (if we d =? 0 then (pre ++ stem d, d, path) :: ino (base4_append path 2) (pre ++ stem d) c else []) ->
              exists rest, yl = pre ++ stem d ++ rest).
    { intros yl yd yp Hy. destruct (we d =? 0); [|contradiction].
      destruct Hy as [Hy|Hy].
      - injection Hy as E1 E2 E3. subst yl yd yp. exists []. rewrite app_nil_r. reflexivity.
      - destruct (ino_under _ _ _ _ _ _ Hy) as [s [rest [_ E]]].
        exists (s ++ rest). rewrite E. rewrite <- app_assoc. reflexivity. }
    apply SSorted_app.
    + apply IHl. split; assumption.
    + apply SSorted_app.
      * exact Hmid.
      * apply IHr. split; assumption.
      * intros [[al ad] ap] [[bl bd] bp] Ha Hb'. unfold ilt. cbn [fst snd].
        destruct (Hmid_under _ _ _ Ha) as [ra Ea].
        destruct (ino_under _ _ _ _ _ _ Hb') as [s [rb [Hs Eb]]].
        rewrite Ea, Eb. apply under_lt; auto.
        -- apply (sib_stems_wf r); assumption.
        -- apply lex_Gt_Lt. apply Hgt. exact Hs.
    + intros [[al ad] ap] [[bl bd] bp] Ha Hb'. unfold ilt. cbn [fst snd].
      destruct (ino_under _ _ _ _ _ _ Ha) as [s [ra [Hs Ea]]].
      assert (Hsw : wf_stem s) by (apply (sib_stems_wf l); assumption).
      apply in_app_or in Hb'. destruct Hb' as [Hb'|Hb'].
      * destruct (Hmid_under _ _ _ Hb') as [rb Eb]. rewrite Ea, Eb.
        apply under_lt; auto.
      * destruct (ino_under _ _ _ _ _ _ Hb') as [s' [rb [Hs' Eb]]].
        rewrite Ea, Eb.
        assert (Hs'w : wf_stem s') by (apply (sib_stems_wf r); assumption).
        apply under_lt; auto.
        apply lex_trans with (b := stem d); [apply Hlt; exact Hs|].
        apply lex_Gt_Lt. apply Hgt. exact Hs'.
Qed.

Theorem ino_at_sorted : forall t pre, wf_tst t ->
  StronglySorted (fun x y => lex (fst (fst x)) (fst (fst y)) = Lt) (ino_at pre t).
Proof.
  intros [|d l c r] pre [Hb Hw]; simpl.
  - constructor.
  - simpl in Hb, Hw.
    destruct Hb as [_ [_ [_ [Hbc _]]]]. destruct Hw as [Hd [_ [Hwc _]]].
    apply (child_sorted d c 2 pre Hd Hwc).
    apply ino_sorted. split; assumption.
Qed.

(* ------------------------------------------------------------------------- *)
(* base-4 digits of paths                                                     *)
(* ------------------------------------------------------------------------- *)

Definition in123 (d : N) : Prop := d = 1 \/ d = 2 \/ d = 3.
Definition path_digits (p : N) : list N := if p =? 0 then [] else int_to_base4 p.

Lemma digits_fuel_acc : forall b f x acc,
  digits_fuel b f x acc = digits_fuel b f x [] ++ acc.
Proof.
  induction f as [|f IH]; intros x acc; cbn [digits_fuel]; [reflexivity|].
  destruct (x =? 0); [reflexivity|].
  rewrite (IH (x / b) (x mod b :: acc)), (IH (x / b) [x mod b]).
  rewrite <- app_assoc. reflexivity.
Qed.

Lemma size_nat_div2 : forall x, N.size_nat (N.div2 x) = pred (N.size_nat x).
Proof. destruct x as [|[p|p|]]; reflexivity. Qed.

Lemma div4_div2 : forall x, x / 4 = N.div2 (N.div2 x).
Proof.
  intros x. rewrite !N.div2_div. rewrite N.div_div by discriminate. reflexivity.
Qed.

Lemma size_nat_0 : forall x, N.size_nat x = O -> x = 0.
Proof. destruct x as [|[p|p|]]; simpl; intros H; [reflexivity|discriminate..]. Qed.

Lemma digits_fuel_enough : forall f1 f2 x,
  (N.size_nat x <= f1)%nat -> (N.size_nat x <= f2)%nat ->
  digits_fuel 4 f1 x [] = digits_fuel 4 f2 x [].
Proof.
  induction f1 as [|f1 IH]; intros f2 x H1 H2.
  - assert (x = 0) by (apply size_nat_0; lia). subst x. destruct f2; reflexivity.
  - destruct f2 as [|f2].
    + assert (x = 0) by (apply size_nat_0; lia). subst x. reflexivity.
    + cbn [digits_fuel]. destruct (x =? 0); [reflexivity|].
      rewrite (digits_fuel_acc 4 f1), (digits_fuel_acc 4 f2). f_equal.
      apply IH; rewrite div4_div2, !size_nat_div2; lia.
Qed.

Lemma to_digits4_step : forall p d, d < 4 -> p * 4 + d <> 0 ->
  to_digits 4 (p * 4 + d) = to_digits 4 p ++ [d].
Proof.
  intros p d Hd Hx. unfold to_digits.
  remember (p * 4 + d) as x eqn:Ex.
  assert (Hdiv : x / 4 = p) by (symmetry; apply (N.div_unique x 4 p d); lia).
  assert (Hmod : x mod 4 = d) by (symmetry; apply (N.mod_unique x 4 p d); lia).
  destruct (N.size_nat x) as [|k] eqn:Ek.
  - exfalso. apply Hx. apply size_nat_0. exact Ek.
  - cbn [digits_fuel]. destruct (N.eqb_spec x 0) as [E0|_]; [contradiction|].
    rewrite Hdiv, Hmod. rewrite digits_fuel_acc. f_equal.
    apply digits_fuel_enough; [|lia].
    rewrite <- Hdiv, div4_div2, !size_nat_div2. lia.
Qed.

Lemma path_digits_to_digits : forall p, path_digits p = to_digits 4 p.
Proof.
  intros p. unfold path_digits, int_to_base4.
  destruct (N.eqb_spec p 0) as [E|E]; [subst p; reflexivity|reflexivity].
Qed.

Lemma path_digits_append : forall p d, in123 d ->
  path_digits (base4_append p d) = path_digits p ++ [d].
Proof.
  intros p d Hd. rewrite !path_digits_to_digits. unfold base4_append.
  apply to_digits4_step; unfold in123 in Hd; lia.
Qed.

Lemma int_to_base4_append : forall p d, in123 d ->
  int_to_base4 (base4_append p d) = path_digits p ++ [d].
Proof.
  intros p d Hd. rewrite <- path_digits_append by exact Hd.
  unfold path_digits. destruct (N.eqb_spec (base4_append p d) 0) as [E|E]; [|reflexivity].
  exfalso. unfold base4_append, in123 in *. lia.
Qed.

(* ------------------------------------------------------------------------- *)
(* Part 2 - paths                                                             *)
(* ------------------------------------------------------------------------- *)

Lemma in123_1 : in123 1. Proof. left; reflexivity. Qed.
Lemma in123_2 : in123 2. Proof. right; left; reflexivity. Qed.
Lemma in123_3 : in123 3. Proof. right; right; reflexivity. Qed.

Theorem ino_path_follow : forall t pre path x d p,
  In (x, d, p) (ino path pre t) ->
  exists rel, Forall in123 rel /\
              path_digits p = path_digits path ++ rel /\
              follow_path rel pre t = Some x.
Proof.
  induction t as [|d0 l IHl c IHc r IHr]; intros pre path x d p Hin; simpl in Hin.
  - contradiction.
  - apply in_app_or in Hin. destruct Hin as [Hin|Hin].
    + destruct (IHl _ _ _ _ _ Hin) as [rel [Hf [Hp Hfo]]].
      exists (1 :: rel). split; [constructor; [apply in123_1|exact Hf]|]. split.
      * rewrite Hp, path_digits_append by apply in123_1.
        rewrite <- app_assoc. reflexivity.
      * exact Hfo.
    + apply in_app_or in Hin. destruct Hin as [Hin|Hin].
      * destruct (we d0 =? 0); [|contradiction].
        destruct Hin as [Hin|Hin].
        -- injection Hin as E1 E2 E3. subst x d p.
           exists []. split; [constructor|]. split; [rewrite app_nil_r; reflexivity|reflexivity].
        -- destruct (IHc _ _ _ _ _ Hin) as [rel [Hf [Hp Hfo]]].
           exists (2 :: rel). split; [constructor; [apply in123_2|exact Hf]|]. split.
           ++ rewrite Hp, path_digits_append by apply in123_2.
              rewrite <- app_assoc. reflexivity.
           ++ exact Hfo.
      * destruct (IHr _ _ _ _ _ Hin) as [rel [Hf [Hp Hfo]]].
        exists (3 :: rel). split; [constructor; [apply in123_3|exact Hf]|]. split.
        -- rewrite Hp, path_digits_append by apply in123_3.
           rewrite <- app_assoc. reflexivity.
        -- exact Hfo.
Qed.

Theorem ino_at_path_follow : forall t pre x d p,
  In (x, d, p) (ino_at pre t) ->
  Forall in123 (path_digits p) /\
  (path_digits p = [] \/ exists rel, path_digits p = 2 :: rel) /\
  follow_path (path_digits p) pre t = Some x.
Proof.
  intros [|d0 l c r] pre x d p Hin; simpl in Hin; [contradiction|].
  destruct Hin as [Hin|Hin].
  - injection Hin as E1 E2 E3. subst x d p.
    split; [constructor|]. split; [left; reflexivity|reflexivity].
  - destruct (ino_path_follow _ _ _ _ _ _ Hin) as [rel [Hf [Hp Hfo]]].
    change (path_digits 2) with [2] in Hp. rewrite Hp. cbn [app].
    split; [constructor; [apply in123_2|exact Hf]|].
    split; [right; exists rel; reflexivity|]. exact Hfo.
Qed.

(* ------------------------------------------------------------------------- *)
(* Part 3 - resuming from a pagination path                                   *)
(* ------------------------------------------------------------------------- *)

Definition can_follow_d (cmp cp : list N) : bool :=
  match lex cp (firstn (length cp) cmp) with Lt => false | _ => true end.

Lemma can_follow_eq : forall cmp path,
  can_follow cmp path = can_follow_d cmp (path_digits path).
Proof.
  intros cmp path. unfold can_follow, path_digits. destruct (path =? 0); reflexivity.
Qed.

(* every path below [ds] passes the pruning test *)
Definition above (cmp ds : list N) : Prop := forall ext, can_follow_d cmp (ds ++ ext) = true.

Lemma above_ext : forall cmp ds a, above cmp ds -> above cmp (ds ++ [a]).
Proof. intros cmp ds a H ext. rewrite <- app_assoc. apply H. Qed.

Lemma above_here : forall cmp ds, above cmp ds -> can_follow_d cmp ds = true.
Proof. intros cmp ds H. rewrite <- (app_nil_r ds). apply H. Qed.

Lemma firstn_app_len : forall (a b : list N), firstn (length a) (a ++ b) = a.
Proof. induction a as [|c a IH]; intros b; simpl; [reflexivity|]. rewrite IH. reflexivity. Qed.

Lemma can_follow_d_prefix : forall ds rel, can_follow_d (ds ++ rel) ds = true.
Proof.
  intros ds rel. unfold can_follow_d. rewrite firstn_app_len, lex_refl. reflexivity.
Qed.

Lemma above_self : forall ds e, above ds (ds ++ e).
Proof.
  intros ds e ext. unfold can_follow_d.
  rewrite firstn_all2 by (rewrite !app_length; lia).
  rewrite <- app_assoc, lex_app_nil. destruct (e ++ ext); reflexivity.
Qed.

Lemma above_gt : forall ds a b r, b < a -> above (ds ++ b :: r) (ds ++ [a]).
Proof.
  intros ds a b r Hba ext. unfold can_follow_d.
  rewrite <- app_assoc. cbn [app]. rewrite app_length. cbn [length].
  rewrite firstn_app_2. cbn [firstn]. rewrite lex_app_same. cbn [lex].
  rewrite (proj2 (N.compare_gt_iff a b) Hba). reflexivity.
Qed.

Lemma cant_follow_lt : forall ds a b r, a < b -> can_follow_d (ds ++ b :: r) (ds ++ [a]) = false.
Proof.
  intros ds a b r Hab. unfold can_follow_d.
  rewrite app_length. cbn [length]. rewrite firstn_app_2. cbn [firstn].
  rewrite lex_app_same. cbn [lex].
  rewrite (proj2 (N.compare_lt_iff a b) Hab). reflexivity.
Qed.

Definition keep (x : bytes) (y : item) : bool := bgt (fst (fst y)) x.

Lemma ino_from_node : forall cmp x path pre d l c r,
  can_follow cmp path = true ->
  ino_from cmp x (base4_append path 1) pre l
    = filter (keep x) (ino (base4_append path 1) pre l) ->
  (ino_from cmp x (base4_append path 2) (pre ++ stem d) c
    = filter (keep x) (ino (base4_append path 2) (pre ++ stem d) c)) ->
  ino_from cmp x (base4_append path 3) pre r
    = filter (keep x) (ino (base4_append path 3) pre r) ->
  ino_from cmp x path pre (Nd d l c r) = filter (keep x) (ino path pre (Nd d l c r)).
Proof.
  intros cmp x path pre d l c r Hcf Hl Hc Hr.
  cbn [ino_from ino]. rewrite Hcf. cbn [negb]. rewrite !filter_app.
  rewrite Hl, Hr. f_equal. f_equal.
  destruct (we d =? 0); [|reflexivity].
  rewrite Hc. cbn [filter]. unfold keep at 2. cbn [fst snd].
  destruct (bgt (pre ++ stem d) x); reflexivity.
Qed.

Lemma ino_from_pruned : forall t cmp x path pre,
  can_follow cmp path = false -> ino_from cmp x path pre t = [].
Proof.
  intros [|d l c r] cmp x path pre H; [reflexivity|].
  cbn [ino_from]. rewrite H. reflexivity.
Qed.

Lemma filter_nil_all : forall (A : Type) (f : A -> bool) l,
  (forall y, In y l -> f y = false) -> filter f l = [].
Proof.
  intros A f l. induction l as [|a l IH]; intros H; simpl; [reflexivity|].
  rewrite (H a (or_introl eq_refl)). apply IH. intros y Hy. apply H. right. exact Hy.
Qed.

Lemma ino_from_above : forall t cmp x path pre,
  above cmp (path_digits path) ->
  ino_from cmp x path pre t = filter (keep x) (ino path pre t).
Proof.
  induction t as [|d l IHl c IHc r IHr]; intros cmp x path pre Hab; [reflexivity|].
  apply ino_from_node.
  - rewrite can_follow_eq. apply above_here. exact Hab.
  - apply IHl. rewrite path_digits_append by apply in123_1. apply above_ext. exact Hab.
  - apply IHc. rewrite path_digits_append by apply in123_2. apply above_ext. exact Hab.
  - apply IHr. rewrite path_digits_append by apply in123_3. apply above_ext. exact Hab.
Qed.

Lemma sub_above : forall t cmp x path a pre,
  in123 a -> above cmp (path_digits path ++ [a]) ->
  ino_from cmp x (base4_append path a) pre t
    = filter (keep x) (ino (base4_append path a) pre t).
Proof.
  intros t cmp x path a pre Ha Hab. apply ino_from_above.
  rewrite path_digits_append by exact Ha. exact Hab.
Qed.

Lemma sub_pruned : forall t cmp x path a pre,
  in123 a -> can_follow_d cmp (path_digits path ++ [a]) = false ->
  (forall yl yd yp, In (yl, yd, yp) (ino (base4_append path a) pre t) -> lex yl x = Lt) ->
  ino_from cmp x (base4_append path a) pre t
    = filter (keep x) (ino (base4_append path a) pre t).
Proof.
  intros t cmp x path a pre Ha Hcf Hall.
  rewrite ino_from_pruned by (rewrite can_follow_eq, path_digits_append by exact Ha; exact Hcf).
  symmetry. apply filter_nil_all. intros [[yl yd] yp] Hy. unfold keep. cbn [fst snd].
  apply bgt_false_of_Lt. eapply Hall. exact Hy.
Qed.

Lemma follow_under : forall t rel pre x,
  follow_path rel pre t = Some x -> under pre (sib_stems t) x.
Proof.
  induction t as [|d l IHl c IHc r IHr]; intros rel pre x H.
  - destruct rel; discriminate.
  - cbn [sib_stems]. destruct rel as [|o rel]; cbn [follow_path] in H.
    + injection H as E. subst x. exists (stem d), []. split.
      * apply in_or_app. right. left. reflexivity.
      * rewrite app_nil_r. reflexivity.
    + destruct (o =? 1).
      * destruct (IHl _ _ _ H) as [s [rest [Hs E]]]. exists s, rest. split; [|exact E].
        apply in_or_app. left. exact Hs.
      * destruct (o =? 2).
        -- destruct (IHc _ _ _ H) as [s [rest [Hs E]]]. exists (stem d), (s ++ rest). split.
           ++ apply in_or_app. right. left. reflexivity.
           ++ rewrite E, <- app_assoc. reflexivity.
        -- destruct (IHr _ _ _ H) as [s [rest [Hs E]]]. exists s, rest. split; [|exact E].
           apply in_or_app. right. right. exact Hs.
Qed.

Lemma ino_from_main : forall t pre path rel x,
  wf_tst t -> Forall in123 rel -> follow_path rel pre t = Some x ->
  ino_from (path_digits path ++ rel) x path pre t = filter (keep x) (ino path pre t).
Proof.
  induction t as [|d l IHl c IHc r IHr]; intros pre path rel x [Hb Hw] Hrel Hfo; [reflexivity|].
  simpl in Hb, Hw.
  destruct Hb as [Hlt [Hgt [Hbl [Hbc Hbr]]]]. destruct Hw as [Hd [Hwl [Hwc Hwr]]].
  assert (Hcf : can_follow (path_digits path ++ rel) path = true)
    by (rewrite can_follow_eq; apply can_follow_d_prefix).
  destruct rel as [|o rel].
  - (* the target is this node *)
    rewrite app_nil_r.
    apply ino_from_node.
    + rewrite app_nil_r in Hcf. exact Hcf.
    + apply sub_above; [apply in123_1|apply above_self].
    + apply sub_above; [apply in123_2|apply above_self].
    + apply sub_above; [apply in123_3|apply above_self].
  - assert (Ho : in123 o) by (inversion Hrel; assumption).
    assert (Hrel' : Forall in123 rel) by (inversion Hrel; assumption).
    cbn [follow_path] in Hfo.
    destruct Ho as [Eo|[Eo|Eo]]; subst o.
    + (* target in the left subtree *)
      change (1 =? 1) with true in Hfo. cbv iota in Hfo.
      apply ino_from_node; [exact Hcf| | |].
      * replace (path_digits path ++ 1 :: rel) with (path_digits (base4_append path 1) ++ rel)
          by (rewrite path_digits_append by apply in123_1; rewrite <- app_assoc; reflexivity).
        apply IHl; [split; assumption|exact Hrel'|exact Hfo].
      * apply sub_above; [apply in123_2|apply above_gt; reflexivity].
      * apply sub_above; [apply in123_3|apply above_gt; reflexivity].
    + (* target below this node *)
      change (2 =? 1) with false in Hfo. change (2 =? 2) with true in Hfo. cbv iota in Hfo.
      destruct (follow_under _ _ _ _ Hfo) as [s' [rx [Hs' Ex]]].
      apply ino_from_node; [exact Hcf| | |].
      * apply sub_pruned; [apply in123_1|apply cant_follow_lt; reflexivity|].
        intros yl yd yp Hy.
        destruct (ino_under _ _ _ _ _ _ Hy) as [s [ry [Hs Ey]]].
        rewrite Ey, Ex, <- app_assoc. apply under_lt; auto.
        apply (sib_stems_wf l); assumption.
      * replace (path_digits path ++ 2 :: rel) with (path_digits (base4_append path 2) ++ rel)
          by (rewrite path_digits_append by apply in123_2; rewrite <- app_assoc; reflexivity).
        apply IHc; [split; assumption|exact Hrel'|exact Hfo].
      * apply sub_above; [apply in123_3|apply above_gt; reflexivity].
    + (* target in the right subtree *)
      change (3 =? 1) with false in Hfo. change (3 =? 2) with false in Hfo. cbv iota in Hfo.
      destruct (follow_under _ _ _ _ Hfo) as [s' [rx [Hs' Ex]]].
      assert (Hs'w : wf_stem s') by (apply (sib_stems_wf r); assumption).
      assert (Hds' : lex (stem d) s' = Lt) by (apply lex_Gt_Lt; apply Hgt; exact Hs').
      apply ino_from_node; [exact Hcf| | |].
      * apply sub_pruned; [apply in123_1|apply cant_follow_lt; reflexivity|].
        intros yl yd yp Hy.
        destruct (ino_under _ _ _ _ _ _ Hy) as [s [ry [Hs Ey]]].
        rewrite Ey, Ex. apply under_lt; auto.
        -- apply (sib_stems_wf l); assumption.
        -- apply lex_trans with (b := stem d); [apply Hlt; exact Hs|exact Hds'].
      * apply sub_pruned; [apply in123_2|apply cant_follow_lt; reflexivity|].
        intros yl yd yp Hy.
        destruct (ino_under _ _ _ _ _ _ Hy) as [s [ry [Hs Ey]]].
        rewrite Ey, Ex, <- app_assoc. apply under_lt; auto.
      * replace (path_digits path ++ 3 :: rel) with (path_digits (base4_append path 3) ++ rel)
          by (rewrite path_digits_append by apply in123_3; rewrite <- app_assoc; reflexivity).
        apply IHr; [split; assumption|exact Hrel'|exact Hfo].
Qed.

(* resuming from any valid path of the starting node: [] or 2 :: ... *)
Theorem ino_from_at_follow : forall t pre rel x,
  wf_tst t -> Forall in123 rel -> (rel = [] \/ exists r, rel = 2 :: r) ->
  follow_path rel pre t = Some x ->
  ino_from_at rel x pre t = filter (fun y => bgt (fst (fst y)) x) (ino_at pre t).
Proof.
  intros [|d l c r] pre rel x [Hb Hw] Hrel Hshape Hfo; [reflexivity|].
  change (fun y : bytes * nd * N => bgt (fst (fst y)) x) with (keep x).
  simpl in Hb, Hw.
  destruct Hb as [_ [_ [_ [Hbc _]]]]. destruct Hw as [Hd [_ [Hwc _]]].
  cbn [ino_from_at ino_at filter]. unfold keep at 1. cbn [fst snd].
  assert (Hsub : ino_from rel x 2 (pre ++ stem d) c = filter (keep x) (ino 2 (pre ++ stem d) c)).
  { destruct Hshape as [E|[r' E]]; subst rel.
    - apply ino_from_above. change (path_digits 2) with ([] ++ [2]). apply above_self.
    - cbn [follow_path] in Hfo.
      change (2 =? 1) with false in Hfo. change (2 =? 2) with true in Hfo. cbv iota in Hfo.
      change (2 :: r') with (path_digits 2 ++ r').
      apply ino_from_main; [split; assumption|inversion Hrel; assumption|exact Hfo]. }
  rewrite Hsub. destruct (bgt (pre ++ stem d) x); reflexivity.
Qed.

(* the main theorem: resuming from the token of item x gives the items after x *)
Theorem ino_from_suffix : forall t pre x d p,
  wf_tst t -> In (x, d, p) (ino_at pre t) ->
  ino_from_at (path_digits p) x pre t
    = filter (fun y => bgt (fst (fst y)) x) (ino_at pre t).
Proof.
  intros t pre x d p Hwf Hin.
  destruct (ino_at_path_follow _ _ _ _ _ Hin) as [Hf [Hshape Hfo]].
  apply ino_from_at_follow; assumption.
Qed.

(* same for a whole sibling tree traversed with [ino 0] *)
Theorem ino_from_suffix_whole : forall t pre x d p,
  wf_tst t -> In (x, d, p) (ino 0 pre t) ->
  ino_from (path_digits p) x 0 pre t
    = filter (fun y => bgt (fst (fst y)) x) (ino 0 pre t).
Proof.
  intros t pre x d p Hwf Hin.
  destruct (ino_path_follow _ _ _ _ _ _ Hin) as [rel [Hf [Hp Hfo]]].
  change (path_digits 0) with (@nil N) in Hp. cbn [app] in Hp. rewrite Hp.
  change rel with (path_digits 0 ++ rel) at 1.
  apply ino_from_main; assumption.
Qed.

(* a strictly ascending list filtered by "> x" is the part after x *)
Lemma SSorted_app_inv : forall (A : Type) (R : A -> A -> Prop) l1 l2,
  StronglySorted R (l1 ++ l2) ->
  StronglySorted R l2 /\ (forall a b, In a l1 -> In b l2 -> R a b).
Proof.
  intros A R l1 l2. induction l1 as [|a l1 IH]; simpl; intros H.
  - split; [exact H|]. intros a b [].
  - inversion H as [|a' l' Hs Hf]; subst.
    destruct (IH Hs) as [H2 H12]. split; [exact H2|].
    intros x b [Hx|Hx] Hb.
    + subst x. rewrite Forall_forall in Hf. apply Hf. apply in_or_app. right. exact Hb.
    + apply H12; assumption.
Qed.

Lemma filter_all_true : forall (A : Type) (f : A -> bool) l,
  (forall y, In y l -> f y = true) -> filter f l = l.
Proof.
  intros A f l. induction l as [|a l IH]; intros H; simpl; [reflexivity|].
  rewrite (H a (or_introl eq_refl)). f_equal. apply IH. intros y Hy. apply H. right. exact Hy.
Qed.

Lemma filter_sorted_suffix : forall (l1 l2 : list item) (y : item),
  StronglySorted ilt (l1 ++ y :: l2) ->
  filter (keep (fst (fst y))) (l1 ++ y :: l2) = l2.
Proof.
  intros l1 l2 y H.
  destruct (SSorted_app_inv _ _ _ _ H) as [H2 H12].
  inversion H2 as [|y' l' Hs Hf]; subst. rewrite Forall_forall in Hf.
  rewrite filter_app. cbn [filter]. unfold keep at 2. rewrite bgt_refl.
  rewrite filter_nil_all, filter_all_true; [reflexivity| |].
  - intros b Hb. unfold keep, bgt. rewrite (lex_Lt_Gt _ _ (Hf b Hb)). reflexivity.
  - intros a Ha. unfold keep. apply bgt_false_of_Lt. apply (H12 a y Ha). left. reflexivity.
Qed.

Theorem ino_from_suffix_split : forall t pre x d p l1 l2,
  wf_tst t -> ino_at pre t = l1 ++ (x, d, p) :: l2 ->
  ino_from_at (path_digits p) x pre t = l2.
Proof.
  intros t pre x d p l1 l2 Hwf E.
  rewrite (ino_from_suffix t pre x d p Hwf) by (rewrite E; apply in_or_app; right; left; reflexivity).
  rewrite E.
  change (fun y : bytes * nd * N => bgt (fst (fst y)) x) with (keep (fst (fst (x, d, p)))).
  apply filter_sorted_suffix.
  assert (Hs := ino_at_sorted t pre Hwf). rewrite E in Hs. exact Hs.
Qed.

(* ------------------------------------------------------------------------- *)
(* Stability of paths under insertion                                         *)
(* ------------------------------------------------------------------------- *)

(* t' has every node of t at the same place with the same data, plus new nodes *)
Inductive ext : tst -> tst -> Prop :=
| ext_lf : forall t', ext Lf t'
| ext_nd : forall d l c r l' c' r',
    ext l l' -> ext c c' -> ext r r' -> ext (Nd d l c r) (Nd d l' c' r').

Lemma ext_refl : forall t, ext t t.
Proof. induction t; constructor; assumption. Qed.

Lemma ext_trans : forall t1 t2, ext t1 t2 -> forall t3, ext t2 t3 -> ext t1 t3.
Proof.
  induction 1 as [|d l c r l' c' r' Hl IHl Hc IHc Hr IHr]; intros t3 H23.
  - constructor.
  - inversion H23; subst. constructor; auto.
Qed.

Lemma ins_cons_nd : forall flag s rest pre pa nb h d l c r,
  ins flag (s :: rest) pre pa nb h (Nd d l c r) =
  match lex s (stem d) with
  | Eq =>
      let d' := if flag && nonempty rest then set_nochild false d else d in
      let h' := visit d (pre ++ s) h in
      let '(c', nb', h'') := ins flag rest (pre ++ s) (addr d) nb h' c in
      (Nd d' l c' r, nb', h'')
  | Lt => let '(l', nb', h') := ins flag (s :: rest) pre pa nb h l in (Nd d l' c r, nb', h')
  | Gt => let '(r', nb', h') := ins flag (s :: rest) pre pa nb h r in (Nd d l c r', nb', h')
  end.
Proof. reflexivity. Qed.

Lemma ins_ext : forall ss pre pa nb h t, ext t (ins_t false ss pre pa nb h t).
Proof.
  induction ss as [|s rest IHss]; intros pre pa nb h t.
  - apply ext_refl.
  - induction t as [|d l IHl c IHc r IHr].
    + constructor.
    + unfold ins_t in *. rewrite ins_cons_nd. destruct (lex s (stem d)).
      * cbn [andb]. cbv zeta.
        specialize (IHss (pre ++ s) (addr d) nb (visit d (pre ++ s) h) c). unfold ins_t in IHss.
        destruct (ins false rest (pre ++ s) (addr d) nb (visit d (pre ++ s) h) c) as [[c' nb'] h''].
        cbn [fst]. cbn [fst] in IHss. constructor; [apply ext_refl|exact IHss|apply ext_refl].
      * destruct (ins false (s :: rest) pre pa nb h l) as [[l' nb'] h'].
        cbn [fst] in *. constructor; [exact IHl|apply ext_refl|apply ext_refl].
      * destruct (ins false (s :: rest) pre pa nb h r) as [[r' nb'] h'].
        cbn [fst] in *. constructor; [apply ext_refl|apply ext_refl|exact IHr].
Qed.

Lemma ext_ino : forall t t', ext t t' -> forall path pre y,
  In y (ino path pre t) -> In y (ino path pre t').
Proof.
  induction 1 as [|d l c r l' c' r' Hl IHl Hc IHc Hr IHr]; intros path pre y Hin.
  - contradiction.
  - cbn [ino] in *. apply in_app_or in Hin. apply in_or_app. destruct Hin as [Hin|Hin].
    + left. apply IHl. exact Hin.
    + right. apply in_app_or in Hin. apply in_or_app. destruct Hin as [Hin|Hin].
      * left. destruct (we d =? 0); [|contradiction].
        destruct Hin as [Hin|Hin]; [left; exact Hin|right; apply IHc; exact Hin].
      * right. apply IHr. exact Hin.
Qed.

Lemma ext_ino_at : forall t t', ext t t' -> forall pre y,
  In y (ino_at pre t) -> In y (ino_at pre t').
Proof.
  intros t t' H pre y Hin. destruct H as [|d l c r l' c' r' Hl Hc Hr].
  - contradiction.
  - cbn [ino_at] in *. destruct Hin as [Hin|Hin]; [left; exact Hin|right].
    eapply ext_ino; eauto.
Qed.

Lemma ext_follow_path : forall t t', ext t t' -> forall ops pre x,
  follow_path ops pre t = Some x -> follow_path ops pre t' = Some x.
Proof.
  induction 1 as [|d l c r l' c' r' Hl IHl Hc IHc Hr IHr]; intros ops pre x H.
  - destruct ops; discriminate.
  - destruct ops as [|o ops]; cbn [follow_path] in *; [exact H|].
    destruct (o =? 1); [apply IHl; exact H|].
    destruct (o =? 2); [apply IHc; exact H|apply IHr; exact H].
Qed.

Lemma find_sub_cons_nd : forall s rest d l c r,
  find_sub (s :: rest) (Nd d l c r) =
  match lex s (stem d) with
  | Eq => match rest with [] => Some (Nd d l c r) | _ => find_sub rest c end
  | Lt => find_sub (s :: rest) l
  | Gt => find_sub (s :: rest) r
  end.
Proof. reflexivity. Qed.

Lemma find_sub_lf : forall ss, find_sub ss Lf = None.
Proof. destruct ss; reflexivity. Qed.

Lemma ext_find_sub : forall ss t t' sub, ext t t' -> find_sub ss t = Some sub ->
  exists sub', find_sub ss t' = Some sub' /\ ext sub sub'.
Proof.
  induction ss as [|s rest IHss]; intros t t' sub Hext Hf.
  - discriminate.
  - induction Hext as [|d l c r l' c' r' Hl IHl Hc IHc Hr IHr].
    + rewrite find_sub_lf in Hf. discriminate.
    + rewrite find_sub_cons_nd in *. destruct (lex s (stem d)).
      * destruct rest as [|s2 rest].
        -- injection Hf as E. subst sub. eexists. split; [reflexivity|].
           constructor; assumption.
        -- apply (IHss c c' sub Hc Hf).
      * apply IHl. exact Hf.
      * apply IHr. exact Hf.
Qed.

Lemma find_sub_wf : forall ss t sub, wf_tst t -> find_sub ss t = Some sub -> wf_tst sub.
Proof.
  induction ss as [|s rest IHss]; intros t sub Hwf Hf.
  - discriminate.
  - induction t as [|d l IHl c IHc r IHr].
    + discriminate.
    + rewrite find_sub_cons_nd in Hf.
      assert (Hl : wf_tst l) by (destruct Hwf as [Hb Hw]; simpl in Hb, Hw; split; tauto).
      assert (Hc : wf_tst c) by (destruct Hwf as [Hb Hw]; simpl in Hb, Hw; split; tauto).
      assert (Hr : wf_tst r) by (destruct Hwf as [Hb Hw]; simpl in Hb, Hw; split; tauto).
      destruct (lex s (stem d)).
      * destruct rest as [|s2 rest].
        -- injection Hf as E. subst sub. exact Hwf.
        -- apply (IHss c sub Hc Hf).
      * apply IHl; assumption.
      * apply IHr; assumption.
Qed.

(* tokens stay valid when pages are inserted (flag = false: add_page / add_lru
   without touching the NO_CHILD bits): every item of the traversal below a node
   found before the insertion is still an item, with the same LRU, node data and
   path, of the traversal below the same node after the insertion *)
Theorem ino_path_stable : forall ss pre2 pa nb h t stems sub pre,
  find_sub stems t = Some sub ->
  exists sub', find_sub stems (ins_t false ss pre2 pa nb h t) = Some sub' /\
    ext sub sub' /\
    forall x d p, In (x, d, p) (ino_at pre sub) -> In (x, d, p) (ino_at pre sub').
Proof.
  intros ss pre2 pa nb h t stems sub pre Hf.
  destruct (ext_find_sub stems t _ sub (ins_ext ss pre2 pa nb h t) Hf) as [sub' [Hf' He]].
  exists sub'. split; [exact Hf'|]. split; [exact He|].
  intros x d p Hin. eapply ext_ino_at; eauto.
Qed.

Theorem ino_path_stable_whole : forall ss pre2 pa nb h t path pre x d p,
  In (x, d, p) (ino path pre t) ->
  In (x, d, p) (ino path pre (ins_t false ss pre2 pa nb h t)).
Proof.
  intros. eapply ext_ino; eauto. apply ins_ext.
Qed.

(* a token handed out before the insertion resumes correctly after it *)
Theorem ino_from_suffix_ext : forall sub sub' pre x d p,
  ext sub sub' -> wf_tst sub' -> In (x, d, p) (ino_at pre sub) ->
  follow_path (path_digits p) pre sub' = Some x /\
  ino_from_at (path_digits p) x pre sub'
    = filter (fun y => bgt (fst (fst y)) x) (ino_at pre sub').
Proof.
  intros sub sub' pre x d p He Hwf Hin.
  destruct (ino_at_path_follow _ _ _ _ _ Hin) as [Hf [Hshape Hfo]].
  assert (Hfo' := ext_follow_path _ _ He _ _ _ Hfo).
  split; [exact Hfo'|]. apply ino_from_at_follow; assumption.
Qed.

Theorem ino_from_suffix_after_insert : forall ss pre2 pa nb h t stems sub pre x d p,
  wf_tst (ins_t false ss pre2 pa nb h t) ->
  find_sub stems t = Some sub -> In (x, d, p) (ino_at pre sub) ->
  exists sub', find_sub stems (ins_t false ss pre2 pa nb h t) = Some sub' /\
    In (x, d, p) (ino_at pre sub') /\
    ino_from_at (path_digits p) x pre sub'
      = filter (fun y => bgt (fst (fst y)) x) (ino_at pre sub').
Proof.
  intros ss pre2 pa nb h t stems sub pre x d p Hwf Hf Hin.
  destruct (ino_path_stable ss pre2 pa nb h t stems sub pre Hf) as [sub' [Hf' [He Hall]]].
  exists sub'. split; [exact Hf'|]. split; [apply Hall; exact Hin|].
  apply (ino_from_suffix_ext sub sub' pre x d p He); [|exact Hin].
  eapply find_sub_wf; eauto.
Qed.

(* ------------------------------------------------------------------------- *)
(* The same with node data allowed to change (flags, link heads), as long as  *)
(* stems and webentity ids stay: covers [ins true] and [upd set_page] etc.    *)
(* ------------------------------------------------------------------------- *)

Inductive extw : tst -> tst -> Prop :=
| extw_lf : forall t', extw Lf t'
| extw_nd : forall d d' l c r l' c' r',
    stem d' = stem d -> we d' = we d ->
    extw l l' -> extw c c' -> extw r r' -> extw (Nd d l c r) (Nd d' l' c' r').

Lemma extw_refl : forall t, extw t t.
Proof. induction t; constructor; auto. Qed.

Lemma ext_extw : forall t t', ext t t' -> extw t t'.
Proof. induction 1; constructor; auto. Qed.

Lemma extw_trans : forall t1 t2, extw t1 t2 -> forall t3, extw t2 t3 -> extw t1 t3.
Proof.
  induction 1 as [|d d' l c r l' c' r' Es Ew Hl IHl Hc IHc Hr IHr]; intros t3 H23.
  - constructor.
  - inversion H23; subst. constructor; auto; congruence.
Qed.

Lemma ins_extw : forall flag ss pre pa nb h t, extw t (ins_t flag ss pre pa nb h t).
Proof.
  intros flag. induction ss as [|s rest IHss]; intros pre pa nb h t.
  - apply extw_refl.
  - induction t as [|d l IHl c IHc r IHr].
    + constructor.
    + unfold ins_t in *. rewrite ins_cons_nd. destruct (lex s (stem d)).
      * cbv zeta.
        specialize (IHss (pre ++ s) (addr d) nb (visit d (pre ++ s) h) c). unfold ins_t in IHss.
        destruct (ins flag rest (pre ++ s) (addr d) nb (visit d (pre ++ s) h) c) as [[c' nb'] h''].
        cbn [fst]. cbn [fst] in IHss.
        constructor; [| |apply extw_refl|exact IHss|apply extw_refl];
          destruct (flag && nonempty rest); reflexivity.
      * destruct (ins flag (s :: rest) pre pa nb h l) as [[l' nb'] h'].
        cbn [fst] in *. constructor; [reflexivity|reflexivity|exact IHl|apply extw_refl|apply extw_refl].
      * destruct (ins flag (s :: rest) pre pa nb h r) as [[r' nb'] h'].
        cbn [fst] in *. constructor; [reflexivity|reflexivity|apply extw_refl|apply extw_refl|exact IHr].
Qed.

Lemma upd_cons_nd : forall f s rest d l c r,
  upd f (s :: rest) (Nd d l c r) =
  match lex s (stem d) with
  | Eq => match rest with
          | [] => Nd (f d) l c r
          | _ => Nd d l (upd f rest c) r
          end
  | Lt => Nd d (upd f (s :: rest) l) c r
  | Gt => Nd d l c (upd f (s :: rest) r)
  end.
Proof. reflexivity. Qed.

(* node rewrites that keep the stem and the webentity id *)
Definition keeps (f : nd -> nd) : Prop := forall d, stem (f d) = stem d /\ we (f d) = we d.

Lemma keeps_set_page : keeps set_page. Proof. intros d; split; reflexivity. Qed.
Lemma keeps_set_crawled : keeps set_crawled. Proof. intros d; split; reflexivity. Qed.
Lemma keeps_set_rule : forall b, keeps (set_rule b). Proof. intros b d; split; reflexivity. Qed.
Lemma keeps_set_nochild : forall b, keeps (set_nochild b). Proof. intros b d; split; reflexivity. Qed.
Lemma keeps_set_outh : forall a, keeps (set_outh a). Proof. intros a d; split; reflexivity. Qed.
Lemma keeps_set_inh : forall a, keeps (set_inh a). Proof. intros a d; split; reflexivity. Qed.

Lemma upd_extw : forall f, keeps f -> forall ss t, extw t (upd f ss t).
Proof.
  intros f Hk. induction ss as [|s rest IHss]; intros t.
  - apply extw_refl.
  - induction t as [|d l IHl c IHc r IHr].
    + constructor.
    + rewrite upd_cons_nd. destruct (lex s (stem d)).
      * destruct rest as [|s2 rest].
        -- destruct (Hk d) as [E1 E2]. constructor; auto using extw_refl.
        -- constructor; auto using extw_refl.
      * constructor; auto using extw_refl.
      * constructor; auto using extw_refl.
Qed.

Lemma extw_ino : forall t t', extw t t' -> forall path pre x d p,
  In (x, d, p) (ino path pre t) ->
  exists d', In (x, d', p) (ino path pre t') /\ stem d' = stem d /\ we d' = we d.
Proof.
  induction 1 as [|d0 d0' l c r l' c' r' Es Ew Hl IHl Hc IHc Hr IHr]; intros path pre x d p Hin.
  - contradiction.
  - cbn [ino] in *. rewrite Es, Ew. apply in_app_or in Hin. destruct Hin as [Hin|Hin].
    + destruct (IHl _ _ _ _ _ Hin) as [d' [Hin' Hd']]. exists d'. split; [|exact Hd'].
      apply in_or_app. left. exact Hin'.
    + apply in_app_or in Hin. destruct Hin as [Hin|Hin].
      * destruct (we d0 =? 0); [|contradiction].
        destruct Hin as [Hin|Hin].
        -- injection Hin as E1 E2 E3. subst x d p. exists d0'. split; [|split; assumption].
           apply in_or_app. right. apply in_or_app. left. left. reflexivity.
        -- destruct (IHc _ _ _ _ _ Hin) as [d' [Hin' Hd']]. exists d'. split; [|exact Hd'].
           apply in_or_app. right. apply in_or_app. left. right. exact Hin'.
      * destruct (IHr _ _ _ _ _ Hin) as [d' [Hin' Hd']]. exists d'. split; [|exact Hd'].
        apply in_or_app. right. apply in_or_app. right. exact Hin'.
Qed.

Lemma extw_ino_at : forall t t', extw t t' -> forall pre x d p,
  In (x, d, p) (ino_at pre t) ->
  exists d', In (x, d', p) (ino_at pre t') /\ stem d' = stem d /\ we d' = we d.
Proof.
  intros t t' H pre x d p Hin. destruct H as [|d0 d0' l c r l' c' r' Es Ew Hl Hc Hr].
  - contradiction.
  - cbn [ino_at] in *. rewrite Es. destruct Hin as [Hin|Hin].
    + injection Hin as E1 E2 E3. subst x d p. exists d0'. split; [left; reflexivity|split; assumption].
    + destruct (extw_ino _ _ Hc _ _ _ _ _ Hin) as [d' [Hin' Hd']].
      exists d'. split; [right; exact Hin'|exact Hd'].
Qed.

Lemma extw_follow_path : forall t t', extw t t' -> forall ops pre x,
  follow_path ops pre t = Some x -> follow_path ops pre t' = Some x.
Proof.
  induction 1 as [|d d' l c r l' c' r' Es Ew Hl IHl Hc IHc Hr IHr]; intros ops pre x H.
  - destruct ops; discriminate.
  - destruct ops as [|o ops]; cbn [follow_path] in *; rewrite Es; [exact H|].
    destruct (o =? 1); [apply IHl; exact H|].
    destruct (o =? 2); [apply IHc; exact H|apply IHr; exact H].
Qed.

Lemma extw_find_sub : forall ss t t' sub, extw t t' -> find_sub ss t = Some sub ->
  exists sub', find_sub ss t' = Some sub' /\ extw sub sub'.
Proof.
  induction ss as [|s rest IHss]; intros t t' sub Hext Hf.
  - discriminate.
  - induction Hext as [|d d' l c r l' c' r' Es Ew Hl IHl Hc IHc Hr IHr].
    + rewrite find_sub_lf in Hf. discriminate.
    + rewrite find_sub_cons_nd in *. rewrite Es. destruct (lex s (stem d)).
      * destruct rest as [|s2 rest].
        -- injection Hf as E. subst sub. eexists. split; [reflexivity|].
           constructor; assumption.
        -- apply (IHss c c' sub Hc Hf).
      * apply IHl. exact Hf.
      * apply IHr. exact Hf.
Qed.

(* a token handed out before any sequence of such changes resumes correctly after it *)
Theorem ino_from_suffix_extw : forall sub sub' pre x d p,
  extw sub sub' -> wf_tst sub' -> In (x, d, p) (ino_at pre sub) ->
  (exists d', In (x, d', p) (ino_at pre sub') /\ stem d' = stem d /\ we d' = we d) /\
  follow_path (path_digits p) pre sub' = Some x /\
  ino_from_at (path_digits p) x pre sub'
    = filter (fun y => bgt (fst (fst y)) x) (ino_at pre sub').
Proof.
  intros sub sub' pre x d p He Hwf Hin.
  destruct (ino_at_path_follow _ _ _ _ _ Hin) as [Hf [Hshape Hfo]].
  assert (Hfo' := extw_follow_path _ _ He _ _ _ Hfo).
  split; [eapply extw_ino_at; eauto|].
  split; [exact Hfo'|]. apply ino_from_at_follow; assumption.
Qed.

Print Assumptions lru_order_is_stem_order.
Print Assumptions lex_app_same.
Print Assumptions ino_sorted.
Print Assumptions ino_at_sorted.
Print Assumptions int_to_base4_append.
Print Assumptions ino_path_follow.
Print Assumptions ino_at_path_follow.
Print Assumptions ino_from_at_follow.
Print Assumptions ino_from_suffix.
Print Assumptions ino_from_suffix_whole.
Print Assumptions ino_from_suffix_split.
Print Assumptions ino_path_stable.
Print Assumptions ino_path_stable_whole.
Print Assumptions ino_from_suffix_ext.
Print Assumptions ino_from_suffix_after_insert.
Print Assumptions ino_from_suffix_extw.
Print Assumptions ins_extw.
Print Assumptions upd_extw.
Print Assumptions extw_find_sub.
