(* GenTraphIAll.v — the theorems of GenTraphIFacts.v about creating and clearing an index, with their hypothesis (the translated rule
   installation equals the model's add_rule) discharged by GenTraphZAll.py_traph_add_rule_spec. *)
From Coq Require Import List NArith Bool.
Import ListNotations.
From Traph Require Import Bytes Consts Rules Tst TstDefs Traph Codec Ops TraceDefs GenStorage GenNode GenLinks GenLinksFacts GenTrie
  GenTrieFacts GenTraphW GenTraphWDefs GenTraphP GenTraphPDefs GenTraphPFacts1 GenTraphZ GenTraphI GenTraphIFacts GenTraphZAll.
Open Scope N_scope.

Lemma add_rule_ok : forall d rs h, wf_rules rs -> Forall wf_op h ->
  let s := run d rs h in
  anchors_known s ->
  forall rm hd sg p k, ramrep s rm -> hrep s hd sg -> wf_lru p ->
  let r := add_rule p k true s in
  let s' := fst r in
  nb s' * 128 < 2 ^ 64 -> lastwe s' + 1 < 2 ^ 32 ->
  exists f0 rm' hd' sg' n c, snd r = Report n c /\
    (forall f, (f0 <= f)%nat ->
       py_traph_add_webentity_creation_rule f rm hd sg p k true = Some (rm', hd', sg', report_of n c)) /\
    hrep s' hd' sg' /\ ramrep s' rm'.
Proof.
  intros d rs h H1 H2 s Hk rm hd sg p k Hram Hh Hp r s' Hsz Hlt.
  destruct (py_traph_add_rule_spec d rs h H1 H2 Hk rm hd sg p k Hram Hh Hp Hsz Hlt) as (n & c & Er & f0 & rm' & hd' & sg' & Hf & Hh' & Hr').
  exists f0, rm', hd', sg', n, c. auto.
Qed.

Theorem py_traph_init_fresh_closed : forall d rs c1 c2, wf_rules rs ->
  nb (init d rs) * 128 < 2 ^ 64 -> lastwe (init d rs) + 1 < 2 ^ 32 ->
  exists f0 rm hd lhd sg sgl, (forall f, (f0 <= f)%nat ->
     py_traph_init_tail f (mk_pm 128 [] c1) (mk_pm 16 [] c2) d rs true = Some (rm, hd, lhd, sg, sgl)) /\
    ramrep (init d rs) rm /\ hrep (init d rs) hd sg /\ lrep (stubs (init d rs)) sgl.
Proof. exact (py_traph_init_fresh add_rule_ok). Qed.

Theorem py_traph_clear_closed : forall s rm sg sgl od ors, ramrep s rm -> pm_block_size sg = 128 -> pm_block_size sgl = 16 ->
  match ors with Some rs => wf_rules rs | None => True end ->
  let s' := clear od ors s in nb s' * 128 < 2 ^ 64 -> lastwe s' + 1 < 2 ^ 32 ->
  exists f0 rm' hd lhd sg' sgl', (forall f, (f0 <= f)%nat -> py_traph_clear f rm sg sgl od ors = Some (rm', hd, lhd, sg', sgl')) /\
    ramrep s' rm' /\ hrep s' hd sg' /\ lrep (stubs s') sgl'.
Proof. exact (py_traph_clear_spec add_rule_ok). Qed.
Print Assumptions py_traph_init_fresh_closed.
Print Assumptions py_traph_clear_closed.
