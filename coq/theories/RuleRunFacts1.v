(* RuleRunFacts1.v — structural facts for RuleRunFacts.v (the rule-installation coroutine run alone is the
   sequential request): the tree only GROWS when an existing page is re-submitted (grow: same shape, new
   page-free subtrees hung on former leaves, every old node keeps block, stem and page flag), the page-filtered
   depth-first list of a subtree is invariant under growth, and reading by block address (sub_at, the structural
   form of Sched.read_at) commutes with growth when block addresses are distinct. *)
From Coq Require Import List NArith Bool Lia Arith.
Import ListNotations.
From Traph Require Import Bytes Consts Helpers Rules Tst TstDefs Traph RefDefs TstFacts
  ViewFacts LinkFacts2 LinkFacts3 Sched.
Open Scope N_scope.

(* ====================================================================== *)
(* growth                                                                 *)
(* ====================================================================== *)

Fixpoint pagefree (t : tst) : Prop :=
  match t with
  | Lf => True
  | Nd d l c r => page d = false /\ pagefree l /\ pagefree c /\ pagefree r
  end.

Inductive grow : tst -> tst -> Prop :=
| G_Lf : forall t, pagefree t -> grow Lf t
| G_Nd : forall d d' l l' c c' r r',
    addr d' = addr d -> stem d' = stem d -> page d' = page d ->
    grow l l' -> grow c c' -> grow r r' -> grow (Nd d l c r) (Nd d' l' c' r').

Lemma grow_refl : forall t, grow t t.
Proof.
  induction t as [|d l IHl c IHc r IHr]; [apply G_Lf; exact I|].
  apply G_Nd; auto.
Qed.

Lemma pagefree_grow : forall t t', grow t t' -> pagefree t -> pagefree t'.
Proof.
  intros t t' H. induction H as [t Hp|d d' l l' c c' r r' Ha Hs Hpg Hl IHl Hc IHc Hr IHr]; intro Hf.
  - exact Hp.
  - cbn [pagefree] in *. destruct Hf as (H1 & H2 & H3 & H4).
    split; [congruence|]. auto.
Qed.

Lemma grow_trans : forall t1 t2, grow t1 t2 -> forall t3, grow t2 t3 -> grow t1 t3.
Proof.
  intros t1 t2 H. induction H as [t Hp|d d' l l' c c' r r' Ha Hs Hpg Hl IHl Hc IHc Hr IHr]; intros t3 H3.
  - apply G_Lf. apply (pagefree_grow _ _ H3 Hp).
  - inversion H3 as [|d2 d3 l2 l3 c2 c3 r2 r3 Ha3 Hs3 Hp3 Hl3 Hc3 Hr3]; subst.
    apply G_Nd; [congruence|congruence|congruence|auto|auto|auto].
Qed.

(* ---- ins ---- *)
Lemma ins_grow : forall flag ss pre pa nb h t, grow t (ins_t flag ss pre pa nb h t).
Proof.
  intros flag ss. induction ss as [|s rest IH]; intros pre pa nb h t.
  - rewrite ins_t_nil. apply grow_refl.
  - revert pa nb h. induction t as [|d l IHl c IHc r IHr]; intros pa nb h.
    + rewrite ins_t_Lf. apply G_Lf. cbn [pagefree page]. split; [reflexivity|]. split; [exact I|]. split; [|exact I].
      pose proof (IH (pre ++ s) (nb * bsz) (nb + nblk s) h Lf) as Hg. inversion Hg; assumption.
    + rewrite ins_t_Nd. destruct (lex s (stem d)).
      * apply G_Nd; try apply grow_refl; try apply IH.
        -- destruct (flag && nonempty rest); reflexivity.
        -- destruct (flag && nonempty rest); reflexivity.
        -- destruct (flag && nonempty rest); reflexivity.
      * apply G_Nd; try reflexivity; try apply grow_refl. apply IHl.
      * apply G_Nd; try reflexivity; try apply grow_refl. apply IHr.
Qed.

(* ---- upd ---- *)
Definition keeps (f : nd -> nd) : Prop :=
  forall d, addr (f d) = addr d /\ stem (f d) = stem d /\ page (f d) = page d.

Lemma upd_grow : forall f ss t, keeps f -> grow t (upd f ss t).
Proof.
  intros f ss. induction ss as [|s rest IH]; intros t Hk.
  - rewrite upd_nil. apply grow_refl.
  - induction t as [|d l IHl c IHc r IHr].
    + rewrite upd_Lf. apply grow_refl.
    + rewrite upd_Nd. destruct (lex s (stem d)).
      * destruct rest as [|s2 rest2].
        -- destruct (Hk d) as (H1 & H2 & H3). apply G_Nd; auto using grow_refl.
        -- apply G_Nd; auto using grow_refl.
      * apply G_Nd; auto using grow_refl.
      * apply G_Nd; auto using grow_refl.
Qed.

Lemma keeps_set_we : forall w, keeps (set_we w).
Proof. intros w d. repeat split. Qed.
Lemma keeps_set_rule : forall b, keeps (set_rule b).
Proof. intros b d. repeat split. Qed.

(* ---- the requests ---- *)
Lemma add_lru_grow : forall flag l s, grow (tr s) (tr (fst (add_lru flag l s))).
Proof. intros. rewrite add_lru_tr. apply ins_grow. Qed.

Lemma walk_prefixes_grow : forall ps s n v, grow (tr s) (tr (fst (fst (walk_prefixes ps s n v)))).
Proof.
  induction ps as [|p ps IH]; intros s n v; [apply grow_refl|].
  cbn [walk_prefixes].
  pose proof (add_lru_grow true p s) as H1. destruct (add_lru true p s) as [s1 h1]. cbn [fst] in H1.
  destruct (find (lru_iter p) (tr s1)) as [d|]; [destruct (we d =? 0)|];
    (eapply grow_trans; [exact H1|apply IH]).
Qed.

Lemma set_we_all_grow : forall w ps t, grow t (set_we_all w ps t).
Proof.
  intros w ps. unfold set_we_all. induction ps as [|p ps IH]; intro t; [apply grow_refl|].
  cbn [fold_left]. eapply grow_trans; [apply (upd_grow (set_we w) (lru_iter p) t (keeps_set_we w))|apply IH].
Qed.

Lemma add_prefixes_grow : forall ps best s, grow (tr s) (tr (fst (add_prefixes ps best s))).
Proof.
  intros ps best s. unfold add_prefixes.
  pose proof (walk_prefixes_grow ps s 0%nat []) as H1.
  destruct (walk_prefixes ps s 0%nat []) as [[s1 ninv] valid]. cbn [fst] in H1.
  destruct (negb (Nat.eqb ninv 0) && negb best); [exact H1|].
  destruct (Nat.eqb ninv (length ps)); [exact H1|].
  cbn [fst tr]. eapply grow_trans; [exact H1|apply set_we_all_grow].
Qed.

Lemma create_from_grow : forall p s, grow (tr s) (tr (fst (create_from p s))).
Proof.
  intros p s. unfold create_from.
  pose proof (add_prefixes_grow (lru_variations p) true s) as H1.
  destruct (add_prefixes (lru_variations p) true s) as [s1 [| |w valid]]; exact H1.
Qed.

(* re-submitting an existing page, not crawled *)
Lemma add_page_int_grow : forall l s d, good s -> find (lru_iter l) (tr s) = Some d -> page d = true ->
  grow (tr s) (tr (fst (fst (add_page_int l false s)))).
Proof.
  intros l s d Hg Hf Hp. unfold add_page_int, trie_add_page.
  pose proof (add_lru_grow false l s) as H1.
  pose proof (add_lru_step false l s Hg) as (_ & _ & Hold & _).
  destruct (add_lru false l s) as [s1 h1]. cbn [fst] in H1, Hold.
  destruct (Hold _ _ Hf) as (d' & Hf' & _ & Hp'). rewrite Hf', (Hp' Hp).
  cbn [andb].
  destruct (decide s1 l h1) as [|p|]; cbn [fst]; try exact H1.
  pose proof (create_from_grow p s1) as H2. destruct (create_from p s1) as [s2 c2]. cbn [fst] in *.
  eapply grow_trans; [exact H1|exact H2].
Qed.

(* ====================================================================== *)
(* the page LRUs a traversal started at a sibling tree will meet           *)
(* ====================================================================== *)

(* as the coroutine does it: the siblings of a node whose block is [start] are not followed *)
Fixpoint pgs (start : N) (pre : bytes) (t : tst) : list bytes :=
  match t with
  | Lf => []
  | Nd d l c r =>
      let cur := pre ++ stem d in
      (if page d then [cur] else []) ++ pgs start cur c
        ++ (if addr d =? start then [] else pgs start pre l ++ pgs start pre r)
  end.

Lemma pgs_pagefree : forall start t pre, pagefree t -> pgs start pre t = [].
Proof.
  intros start t. induction t as [|d l IHl c IHc r IHr]; intros pre Hf; [reflexivity|].
  cbn [pagefree] in Hf. destruct Hf as (H1 & H2 & H3 & H4).
  cbn [pgs]. rewrite H1, (IHl _ H2), (IHc _ H3), (IHr _ H4). destruct (addr d =? start); reflexivity.
Qed.

Lemma pgs_grow : forall start t t', grow t t' -> forall pre, pgs start pre t' = pgs start pre t.
Proof.
  intros start t t' H. induction H as [t Hp|d d' l l' c c' r r' Ha Hs Hpg Hl IHl Hc IHc Hr IHr]; intro pre.
  - apply pgs_pagefree. exact Hp.
  - cbn [pgs]. rewrite Ha, Hs, Hpg, IHl, IHc, IHr. reflexivity.
Qed.

(* block addresses of a tree *)
Fixpoint addrs (t : tst) : list N :=
  match t with Lf => [] | Nd d l c r => addr d :: addrs c ++ addrs l ++ addrs r end.

Definition dpages (pre : bytes) (t : tst) : list bytes := map fst (filter (fun x => page (snd x)) (dfs pre t)).

Lemma pgs_dfs : forall start t pre, ~ In start (addrs t) -> pgs start pre t = dpages pre t.
Proof.
  intros start t. induction t as [|d l IHl c IHc r IHr]; intros pre Hn; [reflexivity|].
  cbn [addrs] in Hn.
  assert (E : addr d =? start = false) by (apply N.eqb_neq; intro E; apply Hn; left; exact E).
  assert (Nc : ~ In start (addrs c)) by (intro H; apply Hn; right; apply in_or_app; left; exact H).
  assert (Nl : ~ In start (addrs l))
    by (intro H; apply Hn; right; apply in_or_app; right; apply in_or_app; left; exact H).
  assert (Nr : ~ In start (addrs r))
    by (intro H; apply Hn; right; apply in_or_app; right; apply in_or_app; right; exact H).
  assert (X : dpages pre (Nd d l c r) =
              (if page d then [pre ++ stem d] else []) ++ dpages (pre ++ stem d) c ++ dpages pre l ++ dpages pre r).
  { unfold dpages. cbn [dfs filter snd]. destruct (page d); cbn [map fst app]; rewrite !filter_app, !map_app; reflexivity. }
  rewrite X. cbn [pgs]. rewrite E, (IHc _ Nc), (IHl _ Nl), (IHr _ Nr). reflexivity.
Qed.

(* the anchor: pages_under *)
Lemma pgs_anchor : forall d l c r pre, NoDup (addrs (Nd d l c r)) ->
  pgs (addr d) pre (Nd d l c r) = map fst (filter (fun x => page (snd x)) (dfs_at false pre (Nd d l c r))).
Proof.
  intros d l c r pre Hnd. cbn [pgs dfs_at filter snd]. rewrite N.eqb_refl, app_nil_r.
  cbn [addrs] in Hnd. inversion Hnd as [|? ? Hn Hnd']; subst.
  rewrite pgs_dfs by (intro H; apply Hn; apply in_or_app; left; exact H).
  unfold dpages. destruct (page d); reflexivity.
Qed.

(* ====================================================================== *)
(* reading by block address                                               *)
(* ====================================================================== *)

(* the sibling tree rooted at the node of block a, with the path of the level above *)
Fixpoint sub_at (pp : list bytes) (a : N) (t : tst) : option (list bytes * tst) :=
  match t with
  | Lf => None
  | Nd d l c r =>
      if addr d =? a then Some (pp, t)
      else match sub_at (pp ++ [stem d]) a c with
           | Some x => Some x
           | None => match sub_at pp a l with Some x => Some x | None => sub_at pp a r end
           end
  end.

Definition rn_of (t : tst) : option rnode :=
  match t with
  | Lf => None
  | Nd d l c r => Some (mkRN d (root_addr l) (root_addr r) (root_addr c))
  end.

Lemma sub_at_root : forall t pp a q x, sub_at pp a t = Some (q, x) ->
  exists d l c r, x = Nd d l c r /\ addr d = a /\ In a (addrs t).
Proof.
  induction t as [|d l IHl c IHc r IHr]; intros pp a q x H; [discriminate|].
  cbn [sub_at] in H. cbn [addrs]. destruct (addr d =? a) eqn:E.
  - injection H as <- <-. apply N.eqb_eq in E. exists d, l, c, r. split; [reflexivity|]. split; [exact E|]. left. exact E.
  - destruct (sub_at (pp ++ [stem d]) a c) as [y|] eqn:Ec.
    + injection H as ->. destruct (IHc _ _ _ _ Ec) as (d1 & l1 & c1 & r1 & H1 & H2 & H3).
      exists d1, l1, c1, r1. split; [exact H1|]. split; [exact H2|]. right. apply in_or_app. left. exact H3.
    + destruct (sub_at pp a l) as [y|] eqn:El.
      * injection H as ->. destruct (IHl _ _ _ _ El) as (d1 & l1 & c1 & r1 & H1 & H2 & H3).
        exists d1, l1, c1, r1. split; [exact H1|]. split; [exact H2|]. right. apply in_or_app. right. apply in_or_app. left. exact H3.
      * destruct (IHr _ _ _ _ H) as (d1 & l1 & c1 & r1 & H1 & H2 & H3).
        exists d1, l1, c1, r1. split; [exact H1|]. split; [exact H2|]. right. apply in_or_app. right. apply in_or_app. right. exact H3.
Qed.

Lemma sub_at_none : forall t pp a, ~ In a (addrs t) -> sub_at pp a t = None.
Proof.
  induction t as [|d l IHl c IHc r IHr]; intros pp a Hn; [reflexivity|].
  cbn [sub_at]. cbn [addrs] in Hn.
  destruct (addr d =? a) eqn:E; [apply N.eqb_eq in E; exfalso; apply Hn; left; exact E|].
  rewrite IHc by (intro H; apply Hn; right; apply in_or_app; left; exact H).
  rewrite IHl by (intro H; apply Hn; right; apply in_or_app; right; apply in_or_app; left; exact H).
  apply IHr. intro H. apply Hn. right. apply in_or_app. right. apply in_or_app. right. exact H.
Qed.

Lemma read_at_sub : forall t pp a,
  read_at a t = match sub_at pp a t with Some (_, x) => rn_of x | None => None end.
Proof.
  induction t as [|d l IHl c IHc r IHr]; intros pp a; [reflexivity|].
  cbn [read_at sub_at]. destruct (addr d =? a); [reflexivity|].
  rewrite (IHc (pp ++ [stem d]) a).
  destruct (sub_at (pp ++ [stem d]) a c) as [[q x]|] eqn:Ec.
  - destruct (sub_at_root _ _ _ _ _ Ec) as (d1 & l1 & c1 & r1 & -> & _). reflexivity.
  - rewrite (IHl pp a). destruct (sub_at pp a l) as [[q x]|] eqn:El.
    + destruct (sub_at_root _ _ _ _ _ El) as (d1 & l1 & c1 & r1 & -> & _). reflexivity.
    + apply IHr.
Qed.

(* the node found sits at path q ++ [stem] *)
Lemma sub_at_path : forall t pp a q d l c r, sub_at pp a t = Some (q, Nd d l c r) ->
  In (q ++ [stem d], d) (paths pp t).
Proof.
  induction t as [|d0 l0 IHl c0 IHc r0 IHr]; intros pp a q d l c r H; [discriminate|].
  cbn [sub_at] in H. cbn [paths]. destruct (addr d0 =? a).
  - injection H as <- <- <- <- <-. left. reflexivity.
  - right. destruct (sub_at (pp ++ [stem d0]) a c0) as [y|] eqn:Ec.
    + injection H as ->. apply in_or_app. left. apply (IHc _ _ _ _ _ _ _ Ec).
    + apply in_or_app. right. destruct (sub_at pp a l0) as [y|] eqn:El.
      * injection H as ->. apply in_or_app. left. apply (IHl _ _ _ _ _ _ _ El).
      * apply in_or_app. right. apply (IHr _ _ _ _ _ _ _ H).
Qed.

Lemma grow_addrs_root : forall t t', grow t t' -> t <> Lf -> root_addr t' = root_addr t.
Proof. intros t t' H Hn. destruct H; [congruence|]. cbn [root_addr]. assumption. Qed.

Lemma NoDup_app_inv : forall (A : Type) (a b : list A), NoDup (a ++ b) ->
  NoDup a /\ NoDup b /\ (forall x, In x a -> ~ In x b).
Proof.
  intros A a b. induction a as [|x a IH]; intro H.
  - split; [constructor|]. split; [exact H|]. intros x [].
  - cbn [app] in H. inversion H as [|? ? Hn Hd]; subst. destruct (IH Hd) as (H1 & H2 & H3).
    split; [constructor; [intro Hi; apply Hn; apply in_or_app; left; exact Hi|exact H1]|].
    split; [exact H2|]. intros y [<-|Hy] Hb; [apply Hn; apply in_or_app; right; exact Hb|apply (H3 y Hy Hb)].
Qed.

(* growth keeps what is read at an old block, up to growth *)
Lemma sub_at_grow : forall T T', grow T T' -> NoDup (addrs T') ->
  forall pp a q t, sub_at pp a T = Some (q, t) ->
  exists t', sub_at pp a T' = Some (q, t') /\ grow t t'.
Proof.
  intros T T' H. induction H as [t0 Hp|d d' l l' c c' r r' Ha Hs Hpg Hl IHl Hc IHc Hr IHr];
    intros Hnd pp a q t H; [discriminate|].
  cbn [sub_at] in H |- *. cbn [addrs] in Hnd.
  inversion Hnd as [|? ? Hn0 Hnd0]; subst.
  destruct (NoDup_app_inv _ _ _ Hnd0) as (Hc' & Hlr & Dc).
  destruct (NoDup_app_inv _ _ _ Hlr) as (Hl' & Hr' & Dl).
  rewrite Ha, Hs. destruct (addr d =? a) eqn:E.
  - injection H as <- <-. exists (Nd d' l' c' r'). split; [reflexivity|]. apply G_Nd; assumption.
  - destruct (sub_at (pp ++ [stem d]) a c) as [y|] eqn:Ec.
    + injection H as ->. destruct (IHc Hc' _ _ _ _ Ec) as (t' & E' & Hg). rewrite E'. exists t'. auto.
    + destruct (sub_at pp a l) as [y|] eqn:El.
      * injection H as ->. destruct (IHl Hl' _ _ _ _ El) as (t' & E' & Hg).
        destruct (sub_at_root _ _ _ _ _ E') as (_ & _ & _ & _ & _ & _ & Hin).
        rewrite (sub_at_none c') , E'; [exists t'; auto|].
        intro Hc2. apply (Dc a Hc2). apply in_or_app. left. exact Hin.
      * destruct (IHr Hr' _ _ _ _ H) as (t' & E' & Hg).
        destruct (sub_at_root _ _ _ _ _ E') as (_ & _ & _ & _ & _ & _ & Hin).
        rewrite (sub_at_none c'), (sub_at_none l'), E'; [exists t'; auto| |].
        -- intro Hl2. apply (Dl a Hl2). exact Hin.
        -- intro Hc2. apply (Dc a Hc2). apply in_or_app. right. exact Hin.
Qed.

(* ====================================================================== *)
(* occurrences of sibling trees                                           *)
(* ====================================================================== *)

(* x (not a leaf) is a sibling tree of T, hanging below the path q (T itself hangs below pp) *)
Inductive occ : list bytes -> tst -> list bytes -> tst -> Prop :=
| occ_here : forall pp d l c r, occ pp (Nd d l c r) pp (Nd d l c r)
| occ_c : forall pp d l c r q x, occ (pp ++ [stem d]) c q x -> occ pp (Nd d l c r) q x
| occ_l : forall pp d l c r q x, occ pp l q x -> occ pp (Nd d l c r) q x
| occ_r : forall pp d l c r q x, occ pp r q x -> occ pp (Nd d l c r) q x.

Lemma occ_trans : forall pp T q x, occ pp T q x -> forall q' y, occ q x q' y -> occ pp T q' y.
Proof.
  intros pp T q x H. induction H; intros q' y Hy; [exact Hy|apply occ_c|apply occ_l|apply occ_r]; auto.
Qed.

Lemma occ_addr : forall pp T q x, occ pp T q x -> In (root_addr x) (addrs T).
Proof.
  intros pp T q x H. induction H; cbn [addrs root_addr].
  - left. reflexivity.
  - right. apply in_or_app. left. exact IHocc.
  - right. apply in_or_app. right. apply in_or_app. left. exact IHocc.
  - right. apply in_or_app. right. apply in_or_app. right. exact IHocc.
Qed.

Lemma sub_at_occ : forall T pp a q x, sub_at pp a T = Some (q, x) -> occ pp T q x.
Proof.
  induction T as [|d l IHl c IHc r IHr]; intros pp a q x H; [discriminate|].
  cbn [sub_at] in H. destruct (addr d =? a).
  - injection H as <- <-. apply occ_here.
  - destruct (sub_at (pp ++ [stem d]) a c) as [y|] eqn:Ec.
    + injection H as ->. apply occ_c. apply (IHc _ _ _ _ Ec).
    + destruct (sub_at pp a l) as [y|] eqn:El.
      * injection H as ->. apply occ_l. apply (IHl _ _ _ _ El).
      * apply occ_r. apply (IHr _ _ _ _ H).
Qed.

Lemma occ_sub_at : forall pp T q x, occ pp T q x -> NoDup (addrs T) ->
  sub_at pp (root_addr x) T = Some (q, x).
Proof.
  intros pp T q x H. induction H as [pp d l c r|pp d l c r q x H IH|pp d l c r q x H IH|pp d l c r q x H IH];
    intro Hnd; cbn [sub_at root_addr].
  - rewrite N.eqb_refl. reflexivity.
  - cbn [addrs] in Hnd. inversion Hnd as [|? ? Hn0 Hnd0]; subst.
    destruct (NoDup_app_inv _ _ _ Hnd0) as (Hc' & Hlr & Dc).
    pose proof (occ_addr _ _ _ _ H) as Hin.
    assert (E : addr d =? root_addr x = false).
    { apply N.eqb_neq. intro E. apply Hn0. rewrite E. apply in_or_app. left. exact Hin. }
    rewrite E, (IH Hc'). reflexivity.
  - cbn [addrs] in Hnd. inversion Hnd as [|? ? Hn0 Hnd0]; subst.
    destruct (NoDup_app_inv _ _ _ Hnd0) as (Hc' & Hlr & Dc).
    destruct (NoDup_app_inv _ _ _ Hlr) as (Hl' & Hr' & Dl).
    pose proof (occ_addr _ _ _ _ H) as Hin.
    assert (E : addr d =? root_addr x = false).
    { apply N.eqb_neq. intro E. apply Hn0. rewrite E. apply in_or_app. right. apply in_or_app. left. exact Hin. }
    rewrite E, (sub_at_none c), (IH Hl'); [reflexivity|].
    intro Hc2. apply (Dc _ Hc2). apply in_or_app. left. exact Hin.
  - cbn [addrs] in Hnd. inversion Hnd as [|? ? Hn0 Hnd0]; subst.
    destruct (NoDup_app_inv _ _ _ Hnd0) as (Hc' & Hlr & Dc).
    destruct (NoDup_app_inv _ _ _ Hlr) as (Hl' & Hr' & Dl).
    pose proof (occ_addr _ _ _ _ H) as Hin.
    assert (E : addr d =? root_addr x = false).
    { apply N.eqb_neq. intro E. apply Hn0. rewrite E. apply in_or_app. right. apply in_or_app. right. exact Hin. }
    rewrite E, (sub_at_none c), (sub_at_none l), (IH Hr'); [reflexivity| |].
    + intro Hl2. apply (Dl _ Hl2). exact Hin.
    + intro Hc2. apply (Dc _ Hc2). apply in_or_app. right. exact Hin.
Qed.

(* the three pointers of a node read by address are read by address in turn *)
Lemma sub_at_kids : forall T pp a q d l c r, NoDup (addrs T) -> sub_at pp a T = Some (q, Nd d l c r) ->
  (c = Lf \/ sub_at pp (root_addr c) T = Some (q ++ [stem d], c)) /\
  (l = Lf \/ sub_at pp (root_addr l) T = Some (q, l)) /\
  (r = Lf \/ sub_at pp (root_addr r) T = Some (q, r)).
Proof.
  intros T pp a q d l c r Hnd H. apply sub_at_occ in H.
  split; [|split].
  - destruct c as [|dc lc cc rc]; [left; reflexivity|right].
    apply occ_sub_at; [|exact Hnd]. apply (occ_trans _ _ _ _ H). apply occ_c. apply occ_here.
  - destruct l as [|dl ll cl rl]; [left; reflexivity|right].
    apply occ_sub_at; [|exact Hnd]. apply (occ_trans _ _ _ _ H). apply occ_l. apply occ_here.
  - destruct r as [|dr lr cr rr]; [left; reflexivity|right].
    apply occ_sub_at; [|exact Hnd]. apply (occ_trans _ _ _ _ H). apply occ_r. apply occ_here.
Qed.

(* lookup by stems *)
Lemma find_sub_Nd' : forall s rest d l c r,
  find_sub (s :: rest) (Nd d l c r) =
  match lex s (stem d) with
  | Eq => match rest with [] => Some (Nd d l c r) | _ :: _ => find_sub rest c end
  | Lt => find_sub (s :: rest) l
  | Gt => find_sub (s :: rest) r
  end.
Proof. reflexivity. Qed.
Lemma find_sub_Lf' : forall ss, find_sub ss Lf = None.
Proof. destruct ss; reflexivity. Qed.

Lemma find_sub_occ : forall ss T pp x, find_sub ss T = Some x -> occ pp T (pp ++ removelast ss) x.
Proof.
  induction ss as [|s rest IH]; intros T pp x H; [discriminate|].
  induction T as [|d l IHl c IHc r IHr]; [rewrite find_sub_Lf' in H; discriminate|].
  rewrite find_sub_Nd' in H. destruct (lex s (stem d)) eqn:E.
  - apply lex_eq in E. subst s. destruct rest as [|s2 rest2].
    + injection H as <-. cbn [removelast]. rewrite app_nil_r. apply occ_here.
    + apply occ_c. change (removelast (stem d :: s2 :: rest2)) with (stem d :: removelast (s2 :: rest2)).
      replace (pp ++ stem d :: removelast (s2 :: rest2)) with ((pp ++ [stem d]) ++ removelast (s2 :: rest2))
        by (rewrite <- app_assoc; reflexivity).
      apply IH. exact H.
  - apply occ_l. apply IHl. exact H.
  - apply occ_r. apply IHr. exact H.
Qed.

(* ====================================================================== *)
(* distinct, non-null block addresses                                     *)
(* ====================================================================== *)

Lemma addrs_paths : forall t pp, addrs t = map (fun x => addr (snd x)) (paths pp t).
Proof.
  induction t as [|d l IHl c IHc r IHr]; intro pp; [reflexivity|].
  cbn [addrs paths map snd]. rewrite !map_app, <- (IHc (pp ++ [stem d])), <- (IHl pp), <- (IHr pp). reflexivity.
Qed.

Lemma NoDup_map_other : forall (A B C : Type) (f : A -> B) (g : A -> C) (l : list A),
  NoDup (map g l) -> (forall x y, In x l -> In y l -> f x = f y -> g x = g y) -> NoDup (map f l).
Proof.
  intros A B C f g l. induction l as [|x l IH]; intros Hnd Hinj; [constructor|].
  cbn [map] in *. inversion Hnd as [|? ? Hn Hd]; subst. constructor.
  - intro Hin. apply in_map_iff in Hin. destruct Hin as (y & E & Hy).
    apply Hn. rewrite <- (Hinj y x (or_intror Hy) (or_introl eq_refl) E). apply in_map. exact Hy.
  - apply IH; [exact Hd|]. intros a b Ha Hb. apply Hinj; right; assumption.
Qed.

Lemma good_nodup : forall s, good s -> NoDup (addrs (tr s)).
Proof.
  intros s (Hwf & _ & _ & Hinj). rewrite (addrs_paths (tr s) []).
  apply (NoDup_map_other _ _ _ _ fst); [apply paths_nodup; exact Hwf|].
  intros [p d] [q d'] Hx Hy E. cbn [fst snd] in *.
  apply (paths_find _ Hwf) in Hx. apply (paths_find _ Hwf) in Hy. apply (Hinj p q d d' Hx Hy E).
Qed.

Lemma good_nz : forall s a, good s -> In a (addrs (tr s)) -> a <> 0.
Proof.
  intros s a (Hwf & _ & Hk & _) Hin. rewrite (addrs_paths (tr s) []) in Hin.
  apply in_map_iff in Hin. destruct Hin as ([p d] & <- & Hx). cbn [snd].
  apply (paths_find _ Hwf) in Hx. destruct (Hk p d Hx) as (k & E & Hk1 & _). rewrite E.
  pose proof LinkFacts.bsz_pos. nia.
Qed.

(* number of nodes *)
Fixpoint size (t : tst) : nat :=
  match t with Lf => O | Nd _ l c r => S (size c + size l + size r) end.
